/-
Props/C05 — property theorems for C05 (log blocks are created as configured; log data decodes to device
values).  Helper lemmas: Proofs/C05*.  Model: Model/C05 (constants, type table, bit expressions, formats
from Gen/C05, regenerated from /repo on every run).  Device side: Spec/C05.
-/
import CfVerif.Proofs.C05
import CfVerif.Proofs.C05Data
import CfVerif.Proofs.C05Flags
import CfVerif.Proofs.C05Readd
import CfVerif.Proofs.C05Sync
import CfVerif.Proofs.C05Inter
import CfVerif.Proofs.C05Wire
import CfVerif.Proofs.C05Blocks
namespace CfVerif.C05
open CfVerif Spec

/-! ## Gen obligations: what the hand-written model assumes about the current source -/

-- LogVariable / LogTocElement
theorem gen_types_single_code : Gen.C05.types.all (fun e =>
    match parseFmt e.2.2.1 with | some [c] => c.size == e.2.2.2 && c.takesVal | _ => false) = true := by decide
theorem gen_id_from_cstring : Gen.C05.idFromCStringCompares = ["LogTocElement.types[key][0] == name"] := by decide
theorem gen_logvar_init : Gen.C05.logVarInitCompares = ["len(storedAs) == 0"] ∧
    Gen.C05.logVarInitAssigns = ["self.fetch_as=LogTocElement.get_id_from_cstring(fetchAs)",
      "self.stored_as=LogTocElement.get_id_from_cstring(storedAs)", "self.address=address", "self.type=varType"] ∧
    Gen.C05.isTocVariable = ["return self.type == LogVariable.TOC_TYPE"] ∧ Gen.C05.tocType ≠ Gen.C05.memType := by decide
-- LogConfig
theorem gen_conf_init : Gen.C05.confInit = ["self.id=0", "self.cf=None", "self.useV2=False", "self._added=False",
    "self._started=False", "self.pending=False", "self.valid=False", "self.variables=[]", "self.default_fetch_as=[]",
    "self.err_no=0"] := by decide
theorem gen_add_variable : Gen.C05.addVariableTests = ["fetch_as"] ∧
    Gen.C05.addVariableCalls = ["self.variables.append(LogVariable(name, fetch_as))", "self.default_fetch_as.append(name)"] ∧
    Gen.C05.addMemoryCalls = ["self.variables.append(LogVariable(name, fetch_as, LogVariable.MEM_TYPE, stored_as, address))"] := by decide
theorem gen_flag_setters :
    Gen.C05.setaddedBody = ["if added != self._added:\n    self.added_cb.call(self, added)", "self._added = added"] ∧
    Gen.C05.setstartedBody = ["if started != self._started:\n    self.started_cb.call(self, started)", "self._started = started"] := by decide
theorem gen_cmd_select :
    Gen.C05.cmdCreateBlock = ["if self.useV2:\n    return CMD_CREATE_BLOCK_V2\nelse:\n    return CMD_CREATE_BLOCK"] ∧
    Gen.C05.cmdAppendBlock = ["if self.useV2:\n    return CMD_APPEND_BLOCK_V2\nelse:\n    return CMD_APPEND_BLOCK"] := by decide
theorem gen_setup_elements :
    Gen.C05.setupLoop = "i in range(next_to_add, len(self.variables))" ∧
    Gen.C05.setupCompares = ["var.is_toc_variable() is False", "pk.available_data_size() >= size_to_add"] ∧
    Gen.C05.setupAppends = ["struct.pack('<B', var.get_storage_and_fetch_byte())", "struct.pack('<I', var.address)",
      "var.get_storage_and_fetch_byte()", "element_id & 255", "element_id >> 8 & 255", "element_id"] ∧
    Gen.C05.setupReturns = ["(False, i)", "(True, i)"] ∧
    Gen.C05.elementIdSource = "self.cf.log.toc.get_element_id(var.name)" := by decide
theorem gen_packet_size : Gen.C05.availableExpr = "return self.MAX_DATA_SIZE - self.get_data_size()" ∧
    Gen.C05.dataSizeExpr = "return len(self._data)" := by decide
/-- the arithmetic the create/append splitting relies on: two id bytes are tested for, the dangling type byte
still fits (`MAX_DATA_SIZE mod 3 ≠ 2`), every packet takes at least one variable, and the limit is the
30 bytes of the property statement -/
theorem gen_split_arith : Gen.C05.sizeToAdd = 2 ∧ Gen.C05.maxDataSize % 3 ≠ 2 ∧ 7 ≤ Gen.C05.maxDataSize ∧
    Gen.C05.maxDataSize ≤ 30 := by decide
theorem gen_create :
    Gen.C05.createTests = ["pending < Log.MAX_BLOCKS", "not is_done", "block.pending or block.added or block.started",
      "num_variables + len(self.variables) > Log.MAX_VARIABLES"] ∧
    Gen.C05.createData = ["(command, self.id)"] ∧
    Gen.C05.createSends = ["self.cf.send_packet(pk, expected_reply=(command, self.id))"] ∧
    Gen.C05.createAug = ["pending += 1", "num_variables += len(block.variables)", "self.pending += 1"] := by decide
theorem gen_start_stop_delete :
    Gen.C05.startTests = ["self.cf.link is not None", "self._added is False"] ∧
    Gen.C05.startData = ["(CMD_START_LOGGING, self.id, self.period)"] ∧
    Gen.C05.startSends = ["self.cf.send_packet(pk, expected_reply=(CMD_START_LOGGING, self.id))"] ∧
    Gen.C05.stopTests = ["self.cf.link is not None", "self.id is None"] ∧
    Gen.C05.stopData = ["(CMD_STOP_LOGGING, self.id)"] ∧
    Gen.C05.stopSends = ["self.cf.send_packet(pk, expected_reply=(CMD_STOP_LOGGING, self.id))"] ∧
    Gen.C05.deleteTests = ["self.cf.link is not None", "self.id is None"] ∧
    Gen.C05.deleteData = ["(CMD_DELETE_BLOCK, self.id)"] ∧
    Gen.C05.deleteSends = ["self.cf.send_packet(pk, expected_reply=(CMD_DELETE_BLOCK, self.id))"] := by decide
theorem gen_unpack :
    Gen.C05.unpackStructs = ["unpackstring log_data[data_index:data_index + size]"] ∧
    Gen.C05.unpackAssigns = ["size=LogTocElement.get_size_from_id(var.fetch_as)", "name=var.name",
      "unpackstring=LogTocElement.get_unpack_string_from_id(var.fetch_as)",
      "value=struct.unpack(unpackstring, log_data[data_index:data_index + size])[0]", "ret_data[name]=value"] ∧
    Gen.C05.unpackAug = ["data_index += size"] ∧
    Gen.C05.unpackCalls = ["self.data_received_cb.call(timestamp, ret_data, self)"] := by decide
-- Log.add_config (as repaired by fixes/D6-c05.patch: a resolved name is removed from default_fetch_as)
theorem gen_add_config :
    Gen.C05.addConfigTests = ["not self.cf.link", "not var", "var.is_toc_variable()",
      "self.toc.get_element_by_complete_name(var.name) is None",
      "size <= LogConfig.MAX_LEN and (logconf.period > 0 and logconf.period < 255)"] ∧
    Gen.C05.addConfigLoops = ["name in list(logconf.default_fetch_as)", "var in logconf.variables"] ∧
    Gen.C05.resolveCalls = ["logconf.add_variable(name, var.ctype)", "logconf.default_fetch_as.remove(name)"] ∧
    Gen.C05.addConfigAug = ["size += LogTocElement.get_size_from_id(var.fetch_as)"] ∧
    Gen.C05.addConfigRaises = ["KeyError", "KeyError", "AttributeError"] := by decide
theorem gen_accept_reject :
    Gen.C05.acceptBody = ["logconf.valid = True", "logconf.cf = self.cf", "logconf.id = self._config_id_counter",
      "logconf.useV2 = self._useV2", "self._config_id_counter = (self._config_id_counter + 1) % 255",
      "self.log_blocks.append(logconf)", "self.block_added_cb.call(logconf)"] ∧
    Gen.C05.rejectBody = ["logconf.valid = False", "raise AttributeError"] := by decide
theorem gen_log_misc :
    Gen.C05.findBlock = ["for block in self.log_blocks:\n    if block.id == id:\n        return block", "return None"] ∧
    Gen.C05.resetBody = ["self.log_blocks = []", "self._send_reset_packet()"] ∧
    Gen.C05.resetData = ["(CMD_RESET_LOGGING,)"] ∧
    Gen.C05.refreshAssigns = ["self._useV2=self.cf.platform.get_protocol_version() >= 4", "self.toc=None"] := by decide
-- Log._new_packet_cb
theorem gen_rx_tests : Gen.C05.rxTests = ["chan == CHAN_SETTINGS", "cmd == CMD_CREATE_BLOCK or cmd == CMD_CREATE_BLOCK_V2",
    "block is not None", "error_status == 0 or error_status == errno.EEXIST", "not block.added", "cmd == CMD_START_LOGGING",
    "error_status == 0", "block", "block", "cmd == CMD_STOP_LOGGING", "error_status == 0", "block", "cmd == CMD_DELETE_BLOCK",
    "error_status == 0 or error_status == errno.ENOENT", "block", "cmd == CMD_RESET_LOGGING", "not self.toc",
    "chan == CHAN_LOGDATA", "block is not None"] := by decide
theorem gen_rx_effects :
    Gen.C05.rxAssigns = ["cmd=packet.data[0]", "payload=packet.data[1:]", "error_status=payload[1]", "logdata=packet.data[4:]",
      "block.added=True", "block.pending=False", "block.err_no=error_status", "self.log_blocks=[]"] ∧
    Gen.C05.rxData = ["(CMD_START_LOGGING, id, block.period)"] ∧
    Gen.C05.rxCalls = ["block.added_cb.call(False)", "block.error_cb.call(block, msg)", "block.started_cb.call(self, False)",
      "block.unpack_log_data(logdata, timestamp)"] ∧
    Gen.C05.rxFlagWrites = ["0:block.added = True", "1:block.started = True", "2:block.started = False",
      "3:block.started = False", "4:block.added = False"] ∧
    Gen.C05.tsArgs = ["packet.data[1:4]"] := by decide
/-- the sequential `if cmd == …` tests of `_new_packet_cb` are mutually exclusive, and the two channel tests too -/
theorem gen_cmds_distinct : [Gen.C05.cmdCreate, Gen.C05.cmdCreateV2, Gen.C05.cmdStart, Gen.C05.cmdStop, Gen.C05.cmdDelete,
    Gen.C05.cmdReset].Nodup ∧ Gen.C05.chanSettings ≠ Gen.C05.chanLogdata := by decide
/-- the model and the device agree on command numbers and errno values -/
theorem gen_wire_constants : Gen.C05.cmdCreate = 0 ∧ Gen.C05.cmdCreateV2 = 6 ∧ Gen.C05.cmdAppend = 1 ∧ Gen.C05.cmdAppendV2 = 7 ∧
    Gen.C05.cmdStart = 3 ∧ Gen.C05.cmdStop = 4 ∧ Gen.C05.cmdDelete = 2 ∧ Gen.C05.cmdReset = 5 ∧
    Gen.C05.chanSettings = 1 ∧ Gen.C05.chanLogdata = 2 ∧ Gen.C05.errnoEEXIST = 17 ∧ Gen.C05.errnoENOENT = 2 := by decide
-- SyncLogger
set_option maxRecDepth 8000 in
theorem gen_synclogger :
    Gen.C05.slConnectBody = ["if self._is_connected: ;     raise Exception('Already connected')",
      "self._cf.disconnected.add_callback(self._disconnected)",
      "for config in self._log_config: ;     self._cf.log.add_config(config) ;     config.data_received_cb.add_callback(self._log_callback) ;     config.start()",
      "self._is_connected = True"] ∧
    Gen.C05.slDisconnectBody = ["if self._is_connected: ;     for config in self._log_config: ;         config.stop() ;         config.delete() ;         config.data_received_cb.remove_callback(self._log_callback) ;     self._cf.disconnected.remove_callback(self._disconnected) ;     self._is_connected = False"] ∧
    Gen.C05.slNextBody = ["if not self._is_connected: ;     raise StopIteration", "data = self._queue.get()",
      "if data == self.DISCONNECT_EVENT: ;     self._queue.empty() ;     raise StopIteration", "return data"] ∧
    Gen.C05.slLog_callbackBody = ["self._queue.put((ts, data, logblock))"] ∧
    Gen.C05.slDisconnectedBody = ["self.disconnect()", "self._queue.put(self.DISCONNECT_EVENT)"] := by decide

/-- `log_blocks` is written in four places only (created empty, appended by `add_config`, cleared by `Log.reset()`
and by the reset acknowledgement), and in the acknowledgement handler the clearing is INSIDE the duplicate-answer
guard `if not self.toc` -/
theorem gen_reset_ack :
    Gen.C05.resetAckShape = ["if not self.toc:", "self.log_blocks = []", "self.toc = Toc()", "toc_fetcher = TocFetcher(...)",
      "toc_fetcher.start(...)", "endif"] ∧
    Gen.C05.logBlocksWrites = ["__init__: self.log_blocks = []", "_new_packet_cb: self.log_blocks = []",
      "add_config: self.log_blocks.append(logconf)", "reset: self.log_blocks = []"] := by decide

/-- packet freshness: in `create()` a new `CRTPPacket()` is constructed as the first statement of every loop
iteration and that object (`pk`) is the one handed to `send_packet`; every other sending function of log.py
constructs its own local packet; no packet object is stored on an attribute -/
theorem gen_packet_fresh : Gen.C05.createPacketInLoop = true ∧
    Gen.C05.createLoopBody = ["pk = CRTPPacket()", "pk.set_header(5, CHAN_SETTINGS)", "pk.data = (command, self.id)",
      "is_done, next_to_add = self._setup_log_elements(pk, next_to_add)",
      "self.cf.send_packet(pk, expected_reply=(command, self.id))", "command = self._cmd_append_block()"] ∧
    Gen.C05.packetSites = ["LogConfig.create: sends=1 ctors=1 arg=pk", "LogConfig.start: sends=1 ctors=1 arg=pk",
      "LogConfig.stop: sends=1 ctors=1 arg=pk", "LogConfig.delete: sends=1 ctors=1 arg=pk",
      "Log._send_reset_packet: sends=1 ctors=1 arg=pk", "Log._new_packet_cb: sends=1 ctors=1 arg=pk"] ∧
    Gen.C05.packetsStoredOnAttributes = [] := by decide

/-- statement order of `SyncLogger.connect` / `.disconnect` (the atomic steps of the interleaving model): in
`connect` the data callback is registered BEFORE `config.start()`; `disconnect` stops and deletes before it
unregisters; the `disconnected` callback is registered before / removed after the loop, `_is_connected` is
written last -/
theorem gen_sl_statement_order :
    Gen.C05.slConnectLoopOrder = ["log.add_config", "config.data_received_cb.add_callback", "config.start"] ∧
    Gen.C05.slDisconnectLoopOrder = ["config.stop", "config.delete", "config.data_received_cb.remove_callback"] ∧
    Gen.C05.slConnectShape = ["if self._is_connected:", "raise Exception('Already connected')", "endif",
      "self._cf.disconnected.add_callback(self._disconnected)", "LOOP", "self._is_connected = True"] ∧
    Gen.C05.slDisconnectShape = ["if self._is_connected:", "LOOP",
      "self._cf.disconnected.remove_callback(self._disconnected)", "self._is_connected = False", "endif"] := by decide

/-! ## Clause 1: a configuration is accepted iff … ; nothing is sent for a rejected one -/

/-- `Log.add_config` on a connected Log with a downloaded table accepts the configuration (no exception)
iff every default-typed name and every typed TOC variable exists in the table, the period satisfies
10 ms ≤ period < 2550 ms (`0 < int(ms/10) < 255`) and the payload of the resolved variable list is at most
26 bytes.  Either way it hands nothing to `send_packet`.  When accepted the configuration is valid, bound to
the Crazyflie, has the next id and is appended to `log_blocks`; when rejected it is marked invalid, stays
unbound (if it was) and `log_blocks` is unchanged. -/
theorem accept_iff (st : St) (h : Nat) (c : Conf) (toc : Toc) (ms : Int)
    (hc : st.conf? h = some c) (hlink : st.link = true) (htoc : st.toc = some toc)
    (hwf : TocWF toc) (hvw : VarsWF c.variables) (hp : c.period = periodOf ms) :
    ∃ r, addConfig st h = some r ∧ NoTx r.outs ∧ (r.err = none ↔ Acceptable toc c ms) ∧
      (r.err = none →
        r.st.conf? h = some { c with variables := c.variables ++ resolvedVars toc c.defaults, defaults := [],
                                     valid := true, hasCf := true, id := st.counter, useV2 := st.useV2 } ∧
        r.st.blocks = st.blocks ++ [h] ∧ r.outs = [.blockAdded h]) ∧
      (r.err ≠ none → r.outs = [] ∧ r.st.blocks = st.blocks ∧
        ∃ c', r.st.conf? h = some c' ∧ c'.valid = false ∧ c'.hasCf = c.hasCf) :=
  addConfig_spec st h c toc ms hc hlink htoc hwf hvw hp

/-- Without a link `add_config` does nothing at all. -/
theorem add_config_without_link (st : St) (h : Nat) (c : Conf) (hc : st.conf? h = some c) (hl : st.link = false) :
    addConfig st h = some { st := st } := by
  simp [addConfig, addConfigWith, hc, hl]

/-- A configuration that was never accepted (not bound to a Crazyflie) cannot transmit: `start`, `stop`
and `delete` raise before building a packet. -/
theorem rejected_sends_nothing (st : St) (h : Nat) (c : Conf) (hc : st.conf? h = some c) (hcf : c.hasCf = false) :
    start st h = some { st := st, err := some .attributeError } ∧
    stop st h = some { st := st, err := some .attributeError } ∧
    delete st h = some { st := st, err := some .attributeError } := by
  simp [start, stop, delete, simpleCmd, hc, hcf]

/-! ## Clause 2: the block-creation messages (current protocol) enumerate exactly the variables -/

/-- For every list of TOC variables with 16-bit idents (any length, so every split point) and every block
id, the V2 create loop raises nothing and sends `m :: ms` where: every message is at most 30 bytes; the first
starts with (CREATE_V2, id) and every later one with (APPEND_V2, id); and the firmware's view of the
messages — ⌊(len-2)/3⌋ (logType, id16) entries each, a trailing partial entry ignored — concatenated is
exactly the variable list, once each, in order, with the table's ident and `stored<<4 | fetch`. -/
theorem create_enumerates (toc : Toc) (id : Nat) (hid : id < 256) (vars : List LVar) (hg : ∀ v ∈ vars, GoodVar toc v) :
    ∃ m ms, createLoop (some toc) true id Gen.C05.cmdAppendV2 (vars.length + 1) Gen.C05.cmdCreateV2 vars
        = (txs id Gen.C05.cmdCreateV2 Gen.C05.cmdAppendV2 (m :: ms), none) ∧
      (∀ x ∈ m :: ms, x.length ≤ 30) ∧
      HasHeader Gen.C05.cmdCreateV2 id m ∧ (∀ x ∈ ms, HasHeader Gen.C05.cmdAppendV2 id x) ∧
      ((m :: ms).map fwEntries).flatten = vars.map (entryOf toc) ∧
      (∀ v ∈ vars, fwFetch (entryOf toc v).1 = v.fetch ∧ fwStored (entryOf toc v).1 = v.stored ∧
        toc.elementId v.name = some (entryOf toc v).2) := by
  obtain ⟨hS, hM, hM7, hM30⟩ := gen_split_arith
  obtain ⟨m, ms, h1, h2, h3, h4, h5⟩ :=
    createLoop_spec toc id Gen.C05.cmdAppendV2 hid (by decide) hS hM hM7 (vars.length + 1) vars Gen.C05.cmdCreateV2
      (by decide) (by omega) hg
  refine ⟨m, ms, h1, fun x hx => Nat.le_trans (h2 x hx) hM30, h3, h4, h5, ?_⟩
  intro v hv
  have g := hg v hv
  obtain ⟨_, t1, t2⟩ := tb_table v.fetch g.2.1 v.stored g.2.2.1
  exact ⟨t1, t2, g.elementId⟩

/-- The same at the API level: `start()` on an accepted, not yet added V2 configuration (table variables
only, block/variable budget not exhausted) raises nothing, marks the configuration pending and hands exactly
those messages to `send_packet`, each with expected reply (command, id). -/
theorem start_creates (st : St) (h : Nat) (c : Conf) (toc : Toc)
    (hc : st.conf? h = some c) (hcf : c.hasCf = true) (hl : st.link = true) (hna : c.added = false)
    (htoc : st.toc = some toc) (hv2 : c.useV2 = true) (hid : c.id < 256)
    (hbudget : (countBlocks st st.blocks).1 < Gen.C05.maxBlocks ∧
               (countBlocks st st.blocks).2 + c.variables.length ≤ Gen.C05.maxVariables)
    (hg : ∀ v ∈ c.variables, GoodVar toc v) :
    ∃ m ms, start st h = some { st := st.setConf h { c with pending := c.pending + 1 },
                                outs := txs c.id Gen.C05.cmdCreateV2 Gen.C05.cmdAppendV2 (m :: ms), err := none } ∧
      (∀ x ∈ m :: ms, x.length ≤ 30) ∧
      HasHeader Gen.C05.cmdCreateV2 c.id m ∧ (∀ x ∈ ms, HasHeader Gen.C05.cmdAppendV2 c.id x) ∧
      ((m :: ms).map fwEntries).flatten = c.variables.map (entryOf toc) := by
  obtain ⟨m, ms, h1, h2, h3, h4, h5, _⟩ := create_enumerates toc c.id hid c.variables hg
  refine ⟨m, ms, ?_, h2, h3, h4, h5⟩
  have hb2 : ¬ ((countBlocks st st.blocks).2 + c.variables.length > Gen.C05.maxVariables) := by omega
  simp only [start, hc, hcf, hl, hna, create, hbudget.1, hb2, hv2, htoc, h1, Bool.not_true, Bool.false_eq_true,
    if_false, if_true, beq_self_eq_true]

/-- Variables that pass `add_config` are encodable: a TOC variable whose types are in the type table and whose
name the table knows under a 16-bit ident. -/
theorem accepted_vars_good (toc : Toc) (hid : ∀ e ∈ toc, e.ident < 65536) (v : LVar) (ht : v.isToc = true)
    (hf : (typeRow? v.fetch).isSome = true) (hs : (typeRow? v.stored).isSome = true) (hh : toc.has v.name) :
    GoodVar toc v := by
  have hlt : ∀ t, (typeRow? t).isSome = true → t < 16 := by
    intro t h
    unfold typeRow? at h
    rw [List.find?_isSome] at h
    obtain ⟨e, he, hp⟩ := h
    have hall : Gen.C05.types.all (fun e => decide (e.1 < 16)) = true := by decide
    have := List.all_eq_true.mp hall e he
    simp only [beq_iff_eq] at hp
    simpa [hp] using this
  obtain ⟨e, he, hn⟩ := hh
  refine ⟨ht, hlt _ hf, hlt _ hs, ?_⟩
  unfold Toc.elementId
  cases hfd : toc.find? (fun e => e.name == v.name) with
  | none =>
    have := List.find?_eq_none.mp hfd e he
    simp [hn] at this
  | some e0 => exact ⟨e0.ident, rfl, hid e0 (List.mem_of_find?_eq_some hfd)⟩

/-- D8 (known finding): a raw-memory variable cannot be created — `_setup_log_elements` raises TypeError
(`bytearray.append(bytes)`) when it reaches the variable, in either protocol generation; the messages of the
variables before it that filled whole packets have already been sent.  `create_enumerates` therefore covers
table variables only. -/
theorem memory_variable_create_raises (toc : Option Toc) (v2 : Bool) (data : List UInt8) (v : LVar) (vs : List LVar)
    (hm : v.isToc = false) (ht : typeByte v < 256) : fill toc v2 data (v :: vs) = .error .typeError := by
  simp [fill, hm, ht]

/-- The observation about ≥ 10 variables, decided: the packet that is full carries a dangling type byte
(30 bytes: header, 9 entries, 1 byte); the firmware ignores it and the variable is sent again, whole, at the
start of the next message — so the enumeration holds at every split (this is `create_enumerates`). -/
theorem dangling_type_byte (toc : Toc) (data : List UInt8) (v : LVar) (vs : List LVar) (hg : GoodVar toc v)
    (hfull : Gen.C05.maxDataSize - (data.length + 1) < Gen.C05.sizeToAdd) :
    fill (some toc) true data (v :: vs) = .ok (data ++ [UInt8.ofNat (typeByte v)], some (v :: vs)) := by
  rw [fill_cons toc data v vs hg, if_neg (by omega)]

/-- Legacy protocol (V1, outside the property's "current protocol" clause; modelled for completeness): the
create loop puts (CREATE, id) and then *all* variables as (logType, id8) into ONE message — there is no size
test in this branch, so more than 14 variables exceed the 30-byte limit (observation, legacy firmware only). -/
theorem create_v1_single_message (toc : Toc) (id : Nat) (hid : id < 256) (vars : List LVar)
    (hg : ∀ v ∈ vars, GoodVar toc v ∧ identOf toc v < 256) :
    createLoop (some toc) false id Gen.C05.cmdAppend (vars.length + 1) Gen.C05.cmdCreate vars =
      ([.tx ([UInt8.ofNat Gen.C05.cmdCreate, UInt8.ofNat id] ++ vars.flatMap (encV1 toc)) [Gen.C05.cmdCreate, id]], none) := by
  unfold createLoop
  rw [bytesOf_pair _ _ (by decide) hid]
  simp only [fill_v1 toc vars _ hg]

/-- `LogVariable.__init__` only builds variables whose fetch and stored types are in the type table
(this is the `VarsWF` hypothesis of `accept_iff`). -/
theorem logvariable_types_valid {n : Nat} {f s : String} {b : Bool} {a : Nat} {v : LVar} (h : mkVar n f b s a = .ok v) :
    (typeRow? v.fetch).isSome = true ∧ (typeRow? v.stored).isSome = true := mkVar_wf h

/-! ### what reaches the wire when the link serialises later than `send_packet` returns -/

/-- A link that keeps packet objects and serialises them at any later time transmits exactly the data handed
to `send_packet`, provided every message is its own object. -/
theorem wire_is_what_was_sent (msgs : List (Nat × List UInt8)) (h : (msgs.map (·.1)).Nodup) :
    lateWire msgs = msgs.map (·.2) := lateWire_fresh msgs h

/-- `create_enumerates` at the wire: with the packet constructed inside the loop (`gen_packet_fresh`) the messages
a late-serialising link transmits for one `create()` call are the messages of `create_enumerates` — every
message ≤ 30 bytes, CREATE_V2 first then APPEND_V2, and the firmware view enumerates the variables once each,
in order. -/
theorem create_wire_enumerates (toc : Toc) (id : Nat) (hid : id < 256) (vars : List LVar) (hg : ∀ v ∈ vars, GoodVar toc v)
    (base : Nat) :
    ∃ m ms, createWire base (createLoop (some toc) true id Gen.C05.cmdAppendV2 (vars.length + 1) Gen.C05.cmdCreateV2 vars).1
        = m :: ms ∧
      (∀ x ∈ m :: ms, x.length ≤ 30) ∧
      HasHeader Gen.C05.cmdCreateV2 id m ∧ (∀ x ∈ ms, HasHeader Gen.C05.cmdAppendV2 id x) ∧
      ((m :: ms).map fwEntries).flatten = vars.map (entryOf toc) := by
  obtain ⟨m, ms, h1, h2, h3, h4, h5, _⟩ := create_enumerates toc id hid vars hg
  refine ⟨m, ms, ?_, h2, h3, h4, h5⟩
  rw [h1]
  simp only [createWire, txData_txs, gen_packet_fresh.1, createPids, if_true]
  exact lateWire_zip_fresh _ _ (by simp) (range_shift_nodup base _)

/-- Over all histories: whenever the link serialises — after the call, after a burst of calls, at the end — it
transmits what was handed to `send_packet`, in order (every `send_packet` gets a packet constructed for it). -/
theorem history_wire_is_sent (st : St) (ops : List Op) : historyWire (run st ops).2 = txData (run st ops).2 := by
  unfold historyWire
  exact lateWire_zip_fresh _ _ (by simp) List.nodup_range

/-- The packet hoisted out of the loop (one object for all messages of a `create()`): a late-serialising link
sends the LAST chunk for every message — the device never sees the CREATE. -/
theorem reused_packet_counterexample :
    ¬ (∀ d1 d2 : List UInt8, lateWire ((createPids false 0 2).zip [d1, d2]) = [d1, d2]) := by
  intro h
  have := h [6, 1] [7, 1]
  revert this
  decide

/-! ## Clause 3: every log data packet decodes to the timestamp and values the device encoded -/

/-- For a block whose variables are `items.map (·.1)` (distinct names), every 24-bit timestamp and all
values of the variables' fetch types (integers of every width and sign, float32 / FP16 as bit patterns),
the packet the device builds — `blk ts24 values…`, optionally followed by padding — is decoded without an
exception into exactly one `data_received_cb` call carrying that timestamp and `name ↦ value` for every
variable, and the same sample is queued once for every SyncLogger registered on the block. -/
theorem unpack_inverse (st : St) (h : Nat) (c : Conf) (items : List (LVar × Val)) (ts : Nat) (pkt extra : List UInt8)
    (hc : st.conf? h = some c) (hvars : c.variables = items.map (·.1))
    (hfind : findBlock st c.id st.blocks = some h) (hid : c.id < 256)
    (hok : ItemsOk items) (hts : ts < 2 ^ 24) (hnd : (items.map (·.1.name)).Nodup)
    (henc : devEncode (UInt8.ofNat c.id) ts (wireVals items) = .ok pkt) :
    newPacket st Gen.C05.chanLogdata (pkt ++ extra) =
      { st := (deliver h ts (items.map fun p => (p.1.name, p.2)) c.dataCbs st).1,
        outs := .data h ts (items.map fun p => (p.1.name, p.2)) ::
                  (deliver h ts (items.map fun p => (p.1.name, p.2)) c.dataCbs st).2,
        err := none } :=
  onLogData_spec st h c items ts pkt extra hc hvars hfind hid hok hts hnd henc

/-- cflib's type table and the firmware's log types agree on the size and layout of every type -/
theorem types_match_firmware {t : Nat} {c : Code} (h : codeOf t = some c) :
    sizeFromId t = .ok c.size ∧ fmtFromId t = .ok [c] := table_codes h

/-! ## Clause 4: the added/started flags and callbacks follow the device's acknowledgements -/

/-- One acknowledgement `cmd blk status`, any state: the flags of every configuration afterwards are
`Spec.ackEffect` applied to the configuration the block id names (first live block with that id) when the
packet was processed without an exception, and unchanged otherwise / for every other configuration. -/
theorem ack_effect (st : St) (cmd id status k : Nat) (c : Conf) (hk : st.conf? k = some c) :
    ∃ c', (onSettings st cmd id status).st.conf? k = some c' ∧
      flagsOf c' = (if (onSettings st cmd id status).err = none ∧ findBlock st id st.blocks = some k
                    then ackEffect cmd status (flagsOf c) else flagsOf c) :=
  onSettings_flags st cmd id status k c hk

/-- … and the property-setter callbacks fired are exactly the flag changes of that configuration
(`started_cb(block, v)` then `added_cb(block, v)`), none when the id names no live block. -/
theorem ack_callbacks (st : St) (cmd id status : Nat) :
    (onSettings st cmd id status).outs.filter isFlagCb =
      match findBlock st id st.blocks with
      | none => []
      | some h => flagCbs h (((st.conf? h).map flagsOf).getD (false, false))
                    ((((onSettings st cmd id status).st.conf? h).map flagsOf).getD (false, false)) := by
  cases hf : findBlock st id st.blocks with
  | none => exact (onSettings_noblock st cmd id status hf).2
  | some h =>
    obtain ⟨ch, hch, _⟩ := findBlock_some hf
    obtain ⟨c', hset, _, hcb⟩ := onSettings_block st cmd id status h ch hf hch
    have hc' : (onSettings st cmd id status).st.conf? h = some c' := by
      unfold St.conf? at hch ⊢
      rw [hset]
      have hlt : h < st.confs.length := by
        rcases Nat.lt_or_ge h st.confs.length with hl | hl
        · exact hl
        · rw [List.getElem?_eq_none hl] at hch; cases hch
      exact List.getElem?_set_self hlt
    simp only [hcb, hch, hc', Option.map_some, Option.getD_some]

/-- Over all histories (add / start / stop / delete / acknowledgements incl. error statuses / data / reset /
reconnect / re-add / SyncLogger operations): the flags of a configuration are the fold of `Spec.ackEffect`
over the acknowledgements that named its block and were processed; no other operation changes them. -/
theorem flags_follow_acks (st : St) (ops : List Op) (k : Nat) (c : Conf) (hk : st.conf? k = some c) :
    ∃ c', (run st ops).1.conf? k = some c' ∧ flagsOf c' = ackFlags k st (flagsOf c) ops :=
  run_flags k ops st c hk

/-- START is sent on the create acknowledgement: ok / "already exists" for a block that is not yet added
transmits `(START, id, period)` once, then sets `added` (callback) and clears `pending`. -/
theorem start_sent_on_create_ack (st : St) (cmd id status h : Nat) (ch : Conf) (p : Nat)
    (hfind : findBlock st id st.blocks = some h) (hc : st.conf? h = some ch)
    (hcmd : cmd = Gen.C05.cmdCreate ∨ cmd = Gen.C05.cmdCreateV2) (hst : status = 0 ∨ status = Gen.C05.errnoEEXIST)
    (hna : ch.added = false) (hid : id < 256) (hper : ch.period = (p : Int)) (hp : p < 256) :
    onSettings st cmd id status =
      { st := st.setConf h { ch with added := true, pending := 0 },
        outs := [.tx [UInt8.ofNat Gen.C05.cmdStart, UInt8.ofNat id, UInt8.ofNat p] [Gen.C05.cmdStart, id], .addedCb h true],
        err := none } :=
  create_ack_starts st cmd id status h ch p hfind hc hcmd hst hna hid hper hp

/-! ### late and duplicated control acknowledgements never make the host forget a registered block -/

/-- A control acknowledgement of ANY command (create, append, start, stop, delete, RESET, unknown), for any block
id and status, at any point of any block's life: while the Log holds a table — i.e. except between `refresh_toc()`
and the first reset acknowledgement of that connection — `log_blocks` is exactly what it was.  In particular the
late answer to a re-sent RESET, or the answer to `Log.reset()` arriving after `add_config`+`start`, forgets nothing. -/
theorem late_control_ack_keeps_blocks (st : St) (cmd id status : Nat) (ht : st.toc.isSome = true) :
    (onSettings st cmd id status).st.blocks = st.blocks := onSettings_blocks st cmd id status ht

/-- Over all histories in which the Log holds a table throughout and `Log.reset()` is not called (any packets on
any channel incl. duplicated acknowledgements of every command, add/start/stop/delete, SyncLogger operations,
link loss): the registered blocks stay registered, in order; `add_config` only appends.  Together with
`flags_follow_acks` / `unpack_inverse` (which act on the block `_find_block` finds): later acknowledgements keep
driving its flags and its data packets keep being decoded. -/
theorem registered_blocks_stay (st : St) (ops : List Op) (hq : TocsOk (fun t => t.isSome = true) st ops)
    (hno : ∀ op ∈ ops, op ≠ .reset) : st.blocks <+: (run st ops).1.blocks := run_blocks ops st hq hno

/-! ## Clause 5: re-adding a configuration does not change its variable list (repaired `add_config`, D6) -/

/-- After `add_config` has accepted a configuration, every further history that does not call
`add_variable`/`add_memory` on it — reconnects, TOC downloads, any number of further `add_config` calls
(directly or through `SyncLogger.connect`), acknowledgements, data — leaves its variable list exactly
the one fixed at the first acceptance, and nothing is waiting to be resolved again. -/
theorem readd_stable (st : St) (h : Nat) (c : Conf) (toc : Toc) (ms : Int) (r : Res)
    (hc : st.conf? h = some c) (hlink : st.link = true) (htoc : st.toc = some toc)
    (hwf : TocWF toc) (hvw : VarsWF c.variables) (hp : c.period = periodOf ms)
    (hadd : addConfig st h = some r) (hok : r.err = none)
    (ops : List Op) (hno : ∀ op ∈ ops, op.editsVars h = false) :
    ∃ c', (run r.st ops).1.conf? h = some c' ∧
      c'.variables = c.variables ++ resolvedVars toc c.defaults ∧ c'.defaults = [] := by
  obtain ⟨r', hr', _, _, hacc, _⟩ := accept_iff st h c toc ms hc hlink htoc hwf hvw hp
  rw [hadd] at hr'; cases hr'
  obtain ⟨hconf, _, _⟩ := hacc hok
  exact run_vars h ops r.st _ hconf rfl hno

/-- The same for a configuration that is already resolved, from any state (no hypothesis on the table). -/
theorem resolved_stable (st : St) (k : Nat) (c : Conf) (hk : st.conf? k = some c) (hd : c.defaults = [])
    (ops : List Op) (hno : ∀ op ∈ ops, op.editsVars k = false) :
    ∃ c', (run st ops).1.conf? k = some c' ∧ c'.variables = c.variables ∧ c'.defaults = [] :=
  run_vars k ops st c hk hd hno

/-- D6, the code before the repair: the names stay in `default_fetch_as`, so a second `add_config` appends
the resolved variables again (1 variable becomes 2). -/
theorem readd_live_counterexample :
    ¬ (∀ (st : St) (h : Nat) (r1 r2 : Res), addConfigLive st h = some r1 → r1.err = none →
        addConfigLive r1.st h = some r2 → r2.err = none →
        (r2.st.conf? h).map (·.variables) = (r1.st.conf? h).map (·.variables)) := by
  intro H
  have := H { confs := [{ period := 10, defaults := [0] }], link := true, toc := some [⟨0, 0, "uint8_t"⟩] } 0 _ _ rfl rfl rfl rfl
  revert this
  decide

/-! ### rejected, then added again: the configured list survives failed and successful `add_config` calls -/

/-- The exact effect of an `add_config` that fails part-way: the default-typed names before the first one the
table lacks (`pre`) have been converted (appended to `variables`, removed from `default_fetch_as`), the
missing name and everything after it is still waiting, the configuration is marked invalid, KeyError is
raised, nothing is sent and `log_blocks` is unchanged.  (Any position of the missing name: `pre` is arbitrary.) -/
theorem add_config_partial_failure (st : St) (h : Nat) (c : Conf) (toc : Toc) (pre : List Nat) (n : Nat) (post : List Nat)
    (hc : st.conf? h = some c) (hlink : st.link = true) (htoc : st.toc = some toc) (hwf : TocWF toc)
    (hd : c.defaults = pre ++ n :: post) (hpre : ∀ m ∈ pre, toc.has m) (hn : ¬ toc.has n) :
    addConfig st h = some
      { st := st.setConf h { c with variables := c.variables ++ resolvedVars toc pre, defaults := n :: post, valid := false },
        outs := [], err := some .keyError } := by
  simp only [addConfig, addConfigWith, hc, hlink, htoc, Bool.not_true, Bool.false_eq_true, if_false, hd,
    resolve_partial toc hwf pre n post c hd hpre hn]

/-- Over ALL histories of failed and successful `add_config` calls against any sequence of tables (reconnects,
re-adds directly or through `SyncLogger.connect`, acknowledgements, data, …) that do not call
`add_variable`/`add_memory` on the configuration: the configured list — names of the typed variables followed
by the names still waiting for a type — never changes (nothing is duplicated, dropped or reordered), and the
variables that already have a type stay exactly as they are (new ones are only appended).
Hypothesis on the environment: no table element has an empty type name (true of every `LogTocElement`). -/
theorem configured_list_stable (st : St) (k : Nat) (c : Conf) (ops : List Op) (hk : st.conf? k = some c)
    (h0 : TocNE st.toc) (hset : ∀ t, Op.setToc t ∈ ops → TocNE (some t))
    (hno : ∀ op ∈ ops, op.editsVars k = false) :
    ∃ c', (run st ops).1.conf? k = some c' ∧
      c'.variables.map (·.name) ++ c'.defaults = c.variables.map (·.name) ++ c.defaults ∧
      c.variables <+: c'.variables :=
  run_cfg st k c ops hk h0 hset hno

/-- … and whenever an `add_config` finally accepts (in whatever state `c` the earlier failed attempts left the
configuration), the variable list is then exactly the configured list, once each and in order, and nothing
is left to resolve.  With `configured_list_stable`: the variable list after any history of failed and
successful `add_config` calls is the list the user configured. -/
theorem accepted_variables_are_configured_list (st : St) (h : Nat) (c : Conf) (toc : Toc) (ms : Int) (r : Res)
    (hc : st.conf? h = some c) (hlink : st.link = true) (htoc : st.toc = some toc)
    (hwf : TocWF toc) (hvw : VarsWF c.variables) (hp : c.period = periodOf ms)
    (hadd : addConfig st h = some r) (hok : r.err = none) :
    ∃ c', r.st.conf? h = some c' ∧ c'.variables.map (·.name) = c.variables.map (·.name) ++ c.defaults ∧
      c'.defaults = [] ∧ c.variables <+: c'.variables := by
  obtain ⟨r', hr', _, hiff, hacc, _⟩ := accept_iff st h c toc ms hc hlink htoc hwf hvw hp
  rw [hadd] at hr'; cases hr'
  obtain ⟨hconf, _, _⟩ := hacc hok
  have hall := (hiff.mp hok).1
  exact ⟨_, hconf, by simp [resolvedVars_names toc hwf c.defaults hall], rfl, List.prefix_append _ _⟩

/-! ## Clause 6: SyncLogger yields each decoded sample once, in order, ending at disconnect -/

/-- Over all histories and for every SyncLogger `s`: what `__next__` took from the queue during the history
(`popsOf`: the yielded samples, in the order yielded, and consumed DISCONNECT_EVENTs), followed by what is
still queued, is exactly what was queued before followed by what was put during the history (`putsOf`: one
item per decoded data packet of a block the logger is registered on — `unpack_inverse` — and one
DISCONNECT_EVENT per `_disconnected`).  Hence nothing is yielded twice, skipped over or reordered. -/
theorem synclogger_fifo (st : St) (ops : List Op) (s : Nat) (sl : SL) (hs : st.sls[s]? = some sl) :
    ∃ sl', (run st ops).1.sls[s]? = some sl' ∧
      sl.queue ++ putsOf s (run st ops).2 = popsOf s (run st ops).2 ++ sl'.queue :=
  run_qrel s ops st sl hs

/-- The decoded sample is queued exactly once, at the tail, for a SyncLogger registered (once) on the block. -/
theorem sample_queued_once (st : St) (h ts s : Nat) (vals : List (Nat × Val)) (sl : SL) (hs : st.sls[s]? = some sl) :
    (deliver h ts vals [s] st).2 = [.put s (.sample ts vals h)] ∧
    (deliver h ts vals [s] st).1.sls[s]? = some { sl with queue := sl.queue ++ [.sample ts vals h] } := by
  have hlt : s < st.sls.length := by
    rcases Nat.lt_or_ge s st.sls.length with hl | hl
    · exact hl
    · rw [List.getElem?_eq_none hl] at hs; cases hs
  simp [deliver, hs, List.getElem?_set_self hlt]

/-- `__next__` on a connected logger: blocks on an empty queue, yields the head sample, or ends the iteration
when the head is DISCONNECT_EVENT — always removing exactly the head. -/
theorem next_takes_head (st : St) (s : Nat) (sl : SL) (hs : st.sls[s]? = some sl) (hc : sl.connected = true) :
    (sl.queue = [] → slNext st s = some { st := st, outs := [.blocks s] }) ∧
    (∀ ts vals h q, sl.queue = .sample ts vals h :: q →
      slNext st s = some { st := { st with sls := st.sls.set s { sl with queue := q } }, outs := [.yield s (.sample ts vals h)] }) ∧
    (∀ q, sl.queue = .disc :: q →
      slNext st s = some { st := { st with sls := st.sls.set s { sl with queue := q } }, outs := [.stop s true] }) := by
  refine ⟨fun hq => ?_, fun ts vals h q hq => ?_, fun q hq => ?_⟩ <;> simp [slNext, hs, hc, hq]

/-- Ending at disconnect: when the link goes away `_disconnected` leaves the logger not connected with
DISCONNECT_EVENT queued behind the samples already decoded, and from then on (until a new `connect`)
`__next__` raises StopIteration at once, without touching the queue. -/
theorem ends_at_disconnect (st : St) (s : Nat) (sl : SL) (r : Res) (hs : st.sls[s]? = some sl)
    (hr : slDisconnected st s = some r) (hok : r.err = none) :
    ∃ sl', r.st.sls[s]? = some sl' ∧ sl'.connected = false ∧ sl'.queue = sl.queue ++ [.disc] ∧
      slNext r.st s = some { st := r.st, outs := [.stop s false] } := by
  obtain ⟨sl', h1, h2, h3⟩ := (slDisconnected_spec s hr).2 hok sl hs
  exact ⟨sl', h1, h2, h3, by simp [slNext, h1, h2]⟩

/-! ### schedules of the incoming thread relative to connect() / disconnect() -/

/-- The invariant holds whenever no call of logger `s` is in progress, it has requested no start, and it is
registered at most once on every configuration (e.g. a fresh SyncLogger); `N` = number of LogConfig objects. -/
theorem inv_initial (i : ISt) (s : Nat) (hprog : i.prog s = []) (hst : ∀ h, (s, h) ∉ i.started)
    (hle : ∀ h, subCount i.st s h ≤ 1) : Inv i.st.confs.length s i := by
  refine ⟨fun h hh => ?_, fun h _ => hle h, fun h hm => absurd hm (hst h), by rw [hprog]; rfl,
    fun stmt hm => by rw [hprog] at hm; cases hm⟩
  exact ⟨i.st.confs[h], by simp [St.conf?, List.getElem?_eq_getElem hh]⟩

/-- **For EVERY interleaving**: `connect()` and `disconnect()` of logger `s` run as sequences of atomic statements
(source order, `gen_sl_statement_order`), and between any two statements anything allowed by `SchedsOk` may
happen — packets from the incoming thread (acknowledgements, log data, any channel), `next()` calls, other user
operations on the Log, statements and calls of other SyncLoggers.  In every state reached, every log data
packet that is decoded (`data_received_cb` fires) for a block whose `config.start()` the logger has executed —
and whose callback it has not yet removed in `disconnect()` — queues the sample for the logger exactly once. -/
theorem no_sample_lost (N s : Nat) (i0 : ISt) (sched : List IOp) (hI : Inv N s i0) (hok : SchedsOk N s i0 sched)
    (hsl : (i0.st.sls[s]?).isSome = true) (data : List UInt8) (h ts : Nat) (vals : List (Nat × Val))
    (hstarted : (s, h) ∈ (irun i0 sched).1.started)
    (hdec : Out.data h ts vals ∈ (onLogData (irun i0 sched).1.st data).outs) :
    (onLogData (irun i0 sched).1.st data).outs.count (.put s (.sample ts vals h)) = 1 := by
  obtain ⟨hc, hd, _, _⟩ := gen_sl_statement_order
  have hInv := irun_inv N s hc hd sched i0 hI hok
  have hsl' : ((irun i0 sched).1.st.sls[s]?).isSome = true := by
    cases hq : i0.st.sls[s]? with
    | none => rw [hq] at hsl; cases hsl
    | some sl =>
      obtain ⟨sl', h1, _⟩ := irun_qrel s sched i0 sl hq
      rw [h1]; rfl
  rw [logdata_put_count _ data s hsl' h ts vals hdec]
  exact (hInv.started h hstarted).2

/-- … and the queue law holds for every interleaving too: what `__next__` took, followed by what is still
queued, is what was queued before followed by what was put — so each of those samples is yielded at most
once, in order, none skipped. -/
theorem interleaved_fifo (i0 : ISt) (sched : List IOp) (s : Nat) (sl : SL) (hs : i0.st.sls[s]? = some sl) :
    ∃ sl', (irun i0 sched).1.st.sls[s]? = some sl' ∧
      sl.queue ++ putsOf s (irun i0 sched).2 = popsOf s (irun i0 sched).2 ++ sl'.queue :=
  irun_qrel s sched i0 sl hs

/-! ## Non-vacuity -/

def exToc : Toc := [⟨0, 0, "uint8_t"⟩, ⟨1, 300, "float"⟩, ⟨2, 2, "FP16"⟩]
def exConf : Conf := { period := periodOf 100, variables := [⟨1, 2, 7, true, 0⟩], defaults := [0, 2] }
def exSt : St := { confs := [exConf], link := true, toc := some exToc, useV2 := true }

example : TocWF exToc := by unfold TocWF; decide
example : VarsWF exConf.variables := by unfold VarsWF; decide
example : GoodVar exToc ⟨1, 2, 7, true, 0⟩ := ⟨rfl, by decide, by decide, 300, by decide, by decide⟩
example : (addConfig exSt 0).map (·.err) = some none := by decide
example : ((addConfig exSt 0).bind fun r => r.st.conf? 0).map (·.variables) =
    some [⟨1, 2, 7, true, 0⟩, ⟨0, 1, 1, true, 0⟩, ⟨2, 8, 8, true, 0⟩] := by decide
/-- 10 one-byte variables: 9 entries + a dangling type byte (30 bytes), then 1 entry in an append message -/
example : (createLoop (some ((List.range 10).map fun k => ⟨k, k, "uint8_t"⟩)) true 1 7 11 6
    ((List.range 10).map fun k => ⟨k, 1, 1, true, 0⟩)).1.map (fun o => match o with | .tx d _ => d.length | _ => 0) = [30, 5] := by decide

example : devEncode 1 0x123456 [(.H, .int 13567), (.B, .int 18), (.e, .flt 0x8000)] =
    .ok [1, 0x56, 0x34, 0x12, 0xff, 0x34, 0x12, 0x00, 0x80] := by decide
example : ItemsOk [(⟨1, 2, 2, true, 0⟩, .int 13567), (⟨0, 1, 1, true, 0⟩, .int 18), (⟨2, 8, 8, true, 0⟩, .flt 0x8000)] := by
  intro p hp
  simp only [List.mem_cons, List.not_mem_nil, or_false] at hp
  rcases hp with rfl | rfl | rfl
  · exact ⟨.H, rfl, rfl⟩
  · exact ⟨.B, rfl, rfl⟩
  · exact ⟨.e, rfl, rfl⟩
/-- create ok, start ok, stop ok, start error, delete "no such block": (added, started) ends (false, false) -/
example : [(6, 0), (3, 0), (4, 0), (3, 12), (2, 2)].foldl (fun f a => ackEffect a.1 a.2 f) (false, false) = (false, false) ∧
    [(6, 0), (3, 0)].foldl (fun f a => ackEffect a.1 a.2 f) (false, false) = (true, true) := by decide
example : (Op.addConfig 0).editsVars 0 = false ∧ (Op.slConnect 0).editsVars 0 = false ∧ (Op.addVar 0 1 "").editsVars 0 = true := by decide

/-- a SyncLogger session: connect, create ack, two data packets, next, link lost, next, next, next -/
def exSession : List Op := [.newSl [0], .slConnect 0, .rx 1 [6, 1, 0], .rx 2 [1, 1, 0, 0, 7], .rx 2 [1, 2, 0, 0, 9],
  .slNext 0, .linkLost, .slNext 0, .slNext 0, .slNext 0]
def exConf2 : Conf := { period := 10, variables := [⟨0, 1, 1, true, 0⟩] }
def exSt2 : St := { confs := [exConf2], link := true, toc := some [⟨0, 0, "uint8_t"⟩], useV2 := true }
example : popsOf 0 (run exSt2 exSession).2 = [.sample 1 [(0, .int 7)] 0] ∧
    putsOf 0 (run exSt2 exSession).2 = [.sample 1 [(0, .int 7)] 0, .sample 2 [(0, .int 9)] 0, .disc] := by decide

/-- Observation (outside the wording of the property, see docs/C05.md): `start()` does not look at `valid`.
A configuration that was accepted once and whose re-add is then REJECTED (here: 26 more one-byte variables
were added, payload 27 > 26) is marked invalid but still transmits create/append messages with its old id
when started. -/
example :
    let ops := [Op.addConfig 0] ++ List.replicate 26 (Op.addVar 0 0 "uint8_t") ++ [Op.addConfig 0, Op.start 0]
    ((run exSt2 ops).1.conf? 0).map (·.valid) = some false ∧
    ((run exSt2 ops).2.filter (fun o => match o with | .tx _ _ => true | _ => false)).length = 3 := by
  decide

/-- rejected on a table that lacks the second default-typed name, reconnect to a complete table with other
idents, re-add: the variables are the configured ones, once each, in order -/
def exRejectReadd : List Op := [.addConfig 0, .linkLost, .linkUp, .refresh 5, .rx 1 [5, 0, 0],
  .setToc [⟨2, 9, "FP16"⟩, ⟨1, 8, "float"⟩, ⟨0, 7, "uint8_t"⟩], .addConfig 0]
def exConf3 : Conf := { period := 10, defaults := [0, 1, 2] }
def exSt3 : St := { confs := [exConf3], link := true, toc := some [⟨0, 0, "uint8_t"⟩, ⟨2, 1, "FP16"⟩], useV2 := true }
example : ((run exSt3 [.addConfig 0]).1.conf? 0).map (fun c => (c.variables.map (·.name), c.defaults, c.valid)) =
    some ([0], [1, 2], false) := by decide
example : ((run exSt3 exRejectReadd).1.conf? 0).map (fun c => (c.variables.map (·.name), c.defaults, c.valid)) =
    some ([0, 1, 2], [], true) := by decide
example : TocNE exSt3.toc := by show ∀ e ∈ _, _; decide

/-- connect() statement by statement; right after `config.start()` the incoming thread delivers the create ack,
the start ack and a data packet; then the rest of connect() and one `next()`: the sample is yielded -/
def exSched : List IOp := [.op (.newSl [0]), .callConnect 0, .run 0, .run 0, .run 0, .run 0,
  .op (.rx 1 [6, 1, 0]), .op (.rx 1 [3, 1, 0]), .op (.rx 2 [1, 1, 0, 0, 7]), .run 0, .op (.slNext 0)]
example : popsOf 0 (irun { st := exSt2 } exSched).2 = [.sample 1 [(0, .int 7)] 0] ∧
    (irun { st := exSt2 } exSched).1.started = [(0, 0)] ∧ (irun { st := exSt2 } exSched).1.prog 0 = [] := by decide
example : Inv 1 0 ({ st := exSt2 } : ISt) := inv_initial { st := exSt2 } 0 rfl (fun _ hm => by cases hm)
  (fun h => by unfold subCount St.conf?; cases h <;> simp [exSt2, exConf2])

/-- a started block, then the late answer to the re-sent RESET, a start ack and a data packet: still decoded -/
example : ((run exSt2 [.addConfig 0, .start 0, .rx 1 [6, 1, 0], .rx 1 [5, 0, 0], .rx 1 [3, 1, 0], .rx 2 [1, 9, 0, 0, 7]]).1.blocks,
    (run exSt2 [.addConfig 0, .start 0, .rx 1 [6, 1, 0], .rx 1 [5, 0, 0], .rx 1 [3, 1, 0], .rx 2 [1, 9, 0, 0, 7]]).2.getLast?) =
    ([0], some (.data 0 9 [(0, .int 7)])) := by decide

end CfVerif.C05

/-
Props/C06 — property theorems for C06 (memory reads and writes are exact, complete and never wedge the
subsystem).  Helper lemmas are in Proofs/C06*.  Every theorem is about Model/C06 (+ the environment of
Spec/C06), whose chunk limits, channels, struct formats and lock discipline are regenerated from /repo (Gen/C06).
-/
import CfVerif.Proofs.C06
namespace CfVerif.C06
open CfVerif

/-! ## Gen obligations: what the hand-written model assumes about the current source -/

/-- the source has the repaired lock discipline (fixes/D9-c06.patch, fixes/D17-c06.patch): the theorems below are
about `Variant.fixed`; on the unrepaired source this obligation fails and the check reports the D9 / D17 witnesses -/
theorem gen_variant_is_repaired : Variant.code = Variant.fixed := by decide

/-! ## quiescent_clean (lock part): whenever no call into Memory is executing the write lock is free -/

/-- After ANY history of API calls, received packets (arbitrary bytes on any channel: duplicated, stale,
error-status and malformed replies included) and disconnects, the write lock is free, and ... -/
theorem quiescent_lock_free (evs : List Ev) : (run Variant.fixed St.init evs).1.lock = false :=
  run_lock_free evs St.init rfl

/-- ... no event ever blocks on the lock: every call into Memory returns or raises. -/
theorem never_blocks (evs : List Ev) (e : Ev) :
    (step Variant.fixed (run Variant.fixed St.init evs).1 e).res ≠ .hang :=
  (step_lock_free _ e (run_lock_free evs St.init rfl)).2

/-! ## D9: the code before the repair -/

/-- one 1-byte write, its acknowledgement, the same acknowledgement again -/
def d9Witness : List Ev :=
  [.write 1 0 0 [0x2a] false false, .pkt 2 [0, 0, 0, 0, 0, 0], .pkt 2 [0, 0, 0, 0, 0, 0]]

/-- D9: the duplicated final acknowledgement leaves the lock held ... -/
theorem d9_lock_left_held : (run Variant.live St.init d9Witness).1.lock = true := by decide

/-- ... so the statement of `quiescent_lock_free` is false for the unrepaired code, ... -/
theorem quiescent_lock_free_live_counterexample :
    ¬ (∀ evs, (run Variant.live St.init evs).1.lock = false) := by
  intro h; exact absurd (h d9Witness) (by decide)

/-- ... and every later write and the disconnect handler block forever. -/
theorem d9_wedged :
    (step Variant.live (run Variant.live St.init d9Witness).1 (.write 2 0 0 [0x2b] false false)).res = .hang ∧
    (step Variant.live (run Variant.live St.init d9Witness).1 .disconnect).res = .hang := by decide

/-! ## Non-vacuity -/

example : (run Variant.fixed St.init d9Witness).2 = [.send 2 [0, 0, 0, 0, 0, 0x2a], .writeOk 1 0 0] := by decide

end CfVerif.C06

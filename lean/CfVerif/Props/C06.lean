/-
Props/C06 — property theorems for C06 (memory reads and writes are exact, complete and never wedge the
subsystem).  Helper lemmas are in Proofs/C06*.  Every theorem is about Model/C06 (+ the environment of
Spec/C06), whose chunk limits, channels, struct formats and lock discipline are regenerated from /repo (Gen/C06).
-/
import CfVerif.Proofs.C06Safety
namespace CfVerif.C06
open CfVerif

/-! ## Gen obligations: what the hand-written model assumes about the current source -/

/-- the source has the repaired lock discipline (fixes/D9-c06.patch, fixes/D17-c06.patch): the theorems below are
about `Variant.fixed`; on the unrepaired source this obligation fails and the check reports the D9 / D17 witnesses -/
theorem gen_variant_is_repaired : Variant.code = Variant.fixed := by decide

/-! ## quiescent_clean (lock part): whenever no call into Memory is executing the write lock is free -/

/-- After ANY history of API calls, received packets (arbitrary bytes on any channel: duplicated, stale,
error-status and malformed replies included) and disconnects, the write lock is free, and ... -/
theorem quiescent_lock_free (evs : List Ev) : (run Variant.fixed St.init evs).1.lock = false :=
  run_lock_free evs St.init rfl

/-- ... no event ever blocks on the lock: every call into Memory returns or raises. -/
theorem never_blocks (evs : List Ev) (e : Ev) :
    (step Variant.fixed (run Variant.fixed St.init evs).1 e).res ≠ .hang :=
  (step_lock_free _ e (run_lock_free evs St.init rfl)).2

/-! ## exactly_one_notification, writes_in_order (bookkeeping), quiescent_clean (records)

`Ev.WF`: the request addresses a valid memory id (`< 256`) and a range inside the 32-bit address space (outside it
`struct.pack` raises: modelled, see `oob_write_raises` below, but not covered by the property).
The packets of a history are ARBITRARY (any channel, any bytes, any number, any order): every pattern of duplicated,
delayed, reordered, stale, error-status, forged and malformed replies is a special case.  `disconnect` may occur
anywhere (link drop after every k-th reply).  Tags identify requests (ghost; the `memory` object in the harness). -/

/-- **Writes, at most once / in order / nothing foreign.**  For every memory: the notified write requests (success
or failure, in notification order) followed by the requests still queued form a subsequence of the requests issued
on that memory, in issue order.  Hence (with distinct tags) no request is notified twice, a notified request is no
longer recorded, notifications and queue follow the issue order, and nothing is notified that was not requested. -/
theorem writes_once_in_order (evs : List Ev) (hwf : ∀ e ∈ evs, e.WF) (id : Nat) :
    (notifW id (run Variant.fixed St.init evs).2 ++ (run Variant.fixed St.init evs).1.queueTags id).Sublist
      (accW id evs) := by
  simpa [St.queueTags, St.queue_def, St.init, dget?] using run_writes_sublist St.init_ok hwf id

theorem writes_at_most_once (evs : List Ev) (hwf : ∀ e ∈ evs, e.WF) (hnd : (evs.filterMap Ev.tag?).Nodup) (id : Nat) :
    (notifW id (run Variant.fixed St.init evs).2 ++ (run Variant.fixed St.init evs).1.queueTags id).Nodup := by
  exact ((writes_once_in_order evs hwf id).trans (accW_sublist_tags id evs)).nodup hnd

/-- **Writes, never lost.**  A write request, once issued, is at any later time either notified, or still queued, or
a later `write(..., flush_queue=True)` on the same memory has explicitly superseded it. -/
theorem write_notified_queued_or_superseded (pre post : List Ev) (tag id addr : Nat) (data : List UInt8) (f p : Bool)
    (hwf : ∀ e ∈ pre ++ Ev.write tag id addr data f p :: post, e.WF) :
    tag ∈ notifW id (run Variant.fixed St.init (pre ++ Ev.write tag id addr data f p :: post)).2 ∨
    tag ∈ (run Variant.fixed St.init (pre ++ Ev.write tag id addr data f p :: post)).1.queueTags id ∨
    hasFlush id post := by
  have hpre : ∀ e ∈ pre, e.WF := fun e he => hwf e (by simp [he])
  have hw : (Ev.write tag id addr data f p).WF := hwf _ (by simp)
  have hpost : ∀ e ∈ post, e.WF := fun e he => hwf e (by simp [he])
  have hs1 := run_ok St.init_ok hpre
  rw [run_append, run_cons]
  obtain ⟨h1, h2, _⟩ := step_effect hs1 hw
  have hin : tag ∈ notifW id (step Variant.fixed (run Variant.fixed St.init pre).1 (Ev.write tag id addr data f p)).outs ++
      (step Variant.fixed (run Variant.fixed St.init pre).1 (Ev.write tag id addr data f p)).st.queueTags id := by
    rw [h2 id]; simp [Ev.queueAfter]
  simp only [notifW_append, List.mem_append]
  rcases List.mem_append.1 hin with h | h
  · left; right; left; exact h
  · rcases run_writes_lost h1 hpost id tag h with h | h | h
    · left; right; right; exact h
    · right; left; exact h
    · right; right; exact h

/-- **Reads, exactly once.**  For every memory: the notified read requests (success or failure) followed by the one
still recorded are EXACTLY the read requests that `Memory.read` accepted (returned True), in order: none lost, none
twice, none invented.  (`Memory.read` returns False - and does nothing - while a read of that memory is recorded.) -/
theorem reads_exactly_once (evs : List Ev) (hwf : ∀ e ∈ evs, e.WF) (id : Nat) :
    notifR id (run Variant.fixed St.init evs).2 ++ (run Variant.fixed St.init evs).1.readTags id =
      accR Variant.fixed St.init evs id := by
  simpa [St.readTags, St.init, dget?] using run_reads St.init_ok hwf id

/-- **Link drop at any point.**  After a disconnect no record remains (`quiescent_clean`): every read accepted so
far has been notified exactly once, and every write issued so far has been notified at most once and, unless
explicitly superseded, exactly once (combine with `write_notified_queued_or_superseded`: the queue is empty). -/
theorem disconnect_leaves_no_record (evs : List Ev) (hwf : ∀ e ∈ evs, e.WF) :
    (run Variant.fixed St.init (evs ++ [.disconnect])).1 = St.init ∧
    (∀ id, notifR id (run Variant.fixed St.init (evs ++ [.disconnect])).2 = accR Variant.fixed St.init evs id) := by
  have hs := run_ok St.init_ok hwf
  obtain ⟨h1, _, h3, _⟩ := disconnected_effect hs (r := disconnected (run Variant.fixed St.init evs).1) rfl
  rw [run_append]
  simp only [run, step, List.append_nil]
  refine ⟨h1, fun id => ?_⟩
  rw [notifR_append, h3, reads_exactly_once evs hwf id]

/-- **No exception, no hang.**  On well-formed requests no call into Memory blocks, and a received packet can only
raise before anything was changed (a reply too short to parse): the subsystem state stays well-formed. -/
theorem state_stays_wellformed (evs : List Ev) (hwf : ∀ e ∈ evs, e.WF) : (run Variant.fixed St.init evs).1.Ok :=
  run_ok St.init_ok hwf

/-! ## D9: the code before the repair -/

/-- one 1-byte write, its acknowledgement, the same acknowledgement again -/
def d9Witness : List Ev :=
  [.write 1 0 0 [0x2a] false false, .pkt 2 [0, 0, 0, 0, 0, 0], .pkt 2 [0, 0, 0, 0, 0, 0]]

/-- D9: the duplicated final acknowledgement leaves the lock held ... -/
theorem d9_lock_left_held : (run Variant.live St.init d9Witness).1.lock = true := by decide

/-- ... so the statement of `quiescent_lock_free` is false for the unrepaired code, ... -/
theorem quiescent_lock_free_live_counterexample :
    ¬ (∀ evs, (run Variant.live St.init evs).1.lock = false) := by
  intro h; exact absurd (h d9Witness) (by decide)

/-- ... and every later write and the disconnect handler block forever. -/
theorem d9_wedged :
    (step Variant.live (run Variant.live St.init d9Witness).1 (.write 2 0 0 [0x2b] false false)).res = .hang ∧
    (step Variant.live (run Variant.live St.init d9Witness).1 .disconnect).res = .hang := by decide

/-! ## Non-vacuity -/

example : (run Variant.fixed St.init d9Witness).2 = [.send 2 [0, 0, 0, 0, 0, 0x2a], .writeOk 1 0 0] := by decide

end CfVerif.C06

/-
Props/C06 — property theorems for C06 (memory reads and writes are exact, complete and never wedge the
subsystem).  Helper lemmas are in Proofs/C06*.  Every theorem is about Model/C06 (+ the environment of
Spec/C06), whose chunk limits, channels, struct formats and lock discipline are regenerated from /repo (Gen/C06).
-/
import CfVerif.Proofs.C06Safety
import CfVerif.Proofs.C06Read
import CfVerif.Proofs.C06Write
import CfVerif.Proofs.C06Live
import CfVerif.Proofs.C06Deck
import CfVerif.Proofs.C06Retry
import CfVerif.Proofs.C06Conc
import CfVerif.Proofs.C06Fan
namespace CfVerif.C06
open CfVerif

/-! ## Gen obligations: what the hand-written model assumes about the current source -/

/-- the source has the repaired lock discipline (fixes/D9-c06.patch, fixes/D17-c06.patch): the theorems below are
about `Variant.fixed`; on the unrepaired source this obligation fails and the check reports the D9 / D17 witnesses -/
theorem gen_variant_is_repaired : Variant.code = Variant.fixed := by decide

/-- constants: the library's channels / port / limits against the protocol (Spec literals) -/
theorem gen_constants : Gen.C06.chanRead = specChanRead ∧ Gen.C06.chanWrite = specChanWrite ∧ Gen.C06.chanInfo = 0 ∧
    Gen.C06.portMem = 4 ∧ Gen.C06.maxDataSize = crtpMaxPayload ∧ Gen.C06.readMax ≤ readLimit ∧
    Gen.C06.writeMax ≤ writeLimit ∧ 0 < Gen.C06.readMax ∧ 0 < Gen.C06.writeMax := by decide

/-- `Crazyflie.send_packet` rejects oversized packets before anything else (modelled by `sendPacket`) -/
theorem gen_send_check : Gen.C06.sendSizeCheck = "not pk.is_data_size_valid()" ∧
    Gen.C06.dataSizeValid = "return self.available_data_size() >= 0" ∧
    Gen.C06.availableDataSize = "return self.MAX_DATA_SIZE - self.get_data_size()" := by decide

/-- `_ReadRequest`: what is packed, how the chunk length is chosen, how `add_data` advances -/
theorem gen_read_request :
    Gen.C06.readReqArgs = ["self.mem.id", "self._current_addr", "new_len"] ∧
    Gen.C06.readExpArgs = ["pk.data[:-1]"] ∧
    Gen.C06.readChunkCompares = ["new_len > _ReadRequest.MAX_DATA_LENGTH"] ∧
    Gen.C06.readChunkAssigns = ["new_len = self._bytes_left", "new_len = _ReadRequest.MAX_DATA_LENGTH"] ∧
    Gen.C06.readHeader = ["pk.set_header(CRTPPort.MEM, CHAN_READ)"] ∧
    Gen.C06.readSend = ["self.cf.send_packet(pk, expected_reply=reply, timeout=1)"] ∧
    Gen.C06.addDataTests = ["not addr == self._current_addr", "self._bytes_left > 0"] ∧
    Gen.C06.addDataAugs = ["self.data += data", "self._bytes_left -= data_len", "self._current_addr += data_len"] ∧
    Gen.C06.addDataReturns = ["return", "return False", "return True"] := by decide

/-- `_WriteRequest`: what is packed, how the chunk is cut, how `write_done` advances, the progress expression -/
theorem gen_write_request :
    Gen.C06.writeHdrArgs = ["self.mem.id", "self._current_addr"] ∧ Gen.C06.writeExpArgs = ["pk.data"] ∧
    Gen.C06.writeBodyFmt = "'B' * len(data)" ∧ Gen.C06.writeBodyArgs = ["*data"] ∧
    Gen.C06.writeChunkCompares = ["new_len > _WriteRequest.MAX_DATA_LENGTH"] ∧
    Gen.C06.writeChunkAssigns = ["new_len = len(self._data)", "new_len = _WriteRequest.MAX_DATA_LENGTH",
      "data = self._data[:new_len]", "self._data = self._data[new_len:]",
      "pk.data = struct.pack('<BI', self.mem.id, self._current_addr)", "self._addr_add = len(data)"] ∧
    Gen.C06.writeChunkAugs = ["pk.data += struct.pack('B' * len(data), *data)", "self._bytes_left -= self._addr_add"] ∧
    Gen.C06.writeHeader = ["pk.set_header(CRTPPort.MEM, CHAN_WRITE)"] ∧
    Gen.C06.writeSend = ["self.cf.send_packet(pk, expected_reply=reply, timeout=1)"] ∧
    Gen.C06.writeDoneTests = ["not addr == self._current_addr", "self._progress_cb is not None and self._write_len > 0",
      "len(self._data) > 0"] ∧
    Gen.C06.writeDoneAugs = ["self._current_addr += self._addr_add"] ∧
    Gen.C06.progressExpr = ["new_progress = int(100 * (self._write_len - self._bytes_left) / self._write_len)"] ∧
    Gen.C06.progressCalls = ["self._progress_cb(self._get_progress_message(), self._progress)"] ∧
    Gen.C06.writeDoneReturns = ["return", "return False", "return True"] := by decide

/-- `Memory.read` / `Memory.write`: the tests, the flush slice, append-then-start -/
theorem gen_memory_api :
    Gen.C06.memReadCompares = ["memory.id in self._read_requests"] ∧
    Gen.C06.memReadAssigns = ["rreq = _ReadRequest(memory, addr, length, self.cf)", "self._read_requests[memory.id] = rreq"] ∧
    Gen.C06.memReadReturns = ["return True", "return False"] ∧ Gen.C06.memReadCalls = ["rreq.start()"] ∧
    Gen.C06.memWriteCompares = ["memory.id not in self._write_requests", "len(self._write_requests[memory.id]) == 1"] ∧
    Gen.C06.memWriteAssigns = ["wreq = _WriteRequest(memory, addr, data, self.cf, progress_cb)",
      "self._write_requests[memory.id] = []", "self._write_requests[memory.id] = self._write_requests[memory.id][:1]"] ∧
    Gen.C06.memWriteCalls = ["self._write_requests[memory.id].append(wreq)", "wreq.start()"] ∧
    Gen.C06.memWriteReturns = ["return True"] := by decide

/-- the packet handlers: what is unpacked, the decisions, which request is started next, the callback arguments -/
theorem gen_handlers :
    Gen.C06.ackArgs = ["payload[0:5]"] ∧ Gen.C06.readReplyArgs = ["payload[0:5]"] ∧ Gen.C06.readDataArgs = ["payload[5:]"] ∧
    Gen.C06.handleWriteCompares = ["id in self._write_requests", "len(self._write_requests[id]) > 0", "status == 0",
      "len(self._write_requests[id]) > 0", "len(self._write_requests[id]) > 0"] ∧
    Gen.C06.handleWriteCalls = ["wreq.write_done(addr)", "self._write_requests[id].pop(0)", "self._write_requests[id].pop(0)",
      "self._write_requests[id][0].start()", "self._write_requests[id][0].start()",
      "self.mem_write_cb.call(wreq.mem, wreq.addr)", "self.mem_write_failed_cb.call(wreq.mem, wreq.addr)"] ∧
    Gen.C06.handleReadCompares = ["id in self._read_requests", "status == 0"] ∧
    Gen.C06.handleReadCalls = ["rreq.add_data(addr, payload[5:])", "self._read_requests.pop(id, None)",
      "self._read_requests.pop(id, None)", "self.mem_read_cb.call(rreq.mem, rreq.addr, rreq.data)",
      "self.mem_read_failed_cb.call(rreq.mem, rreq.addr, rreq.data)"] ∧
    Gen.C06.newPacketCompares = ["chan == CHAN_INFO", "chan == CHAN_WRITE", "chan == CHAN_READ"] ∧
    Gen.C06.newPacketAssigns = ["chan = packet.channel", "cmd = packet.data[0]", "payload = packet.data[1:]"] ∧
    Gen.C06.memInitCalls = ["self.cf.add_port_callback(CRTPPort.MEM, self._new_packet_cb)",
      "self.cf.disconnected.add_callback(self._disconnected)"] := by decide

/-- the disconnect handler: everything recorded is failed, reads first, then all queued writes -/
theorem gen_disconnect :
    Gen.C06.disconnectedBody = ["self._call_all_failed_callbacks()", "self._clear_state()"] ∧
    Gen.C06.failAllCalls = ["self._read_requests.clear()", "self._write_requests.clear()",
      "self.mem_read_failed_cb.call(rreq.mem, rreq.addr, rreq.data)", "self.mem_write_failed_cb.call(wreq.mem, wreq.addr)"] ∧
    Gen.C06.failAllLoops = ["rreq in read_requests", "requests in self._write_requests.values()", "wreq in write_requests"] ∧
    Gen.C06.failAllAugs = ["write_requests += requests"] := by decide

/-- the `MemoryTester` client: the pattern, `flush_queue=True`, and how `Memory` wires its callbacks -/
theorem gen_tester :
    Gen.C06.testerNewDataCompares = ["mem.id == self.id", "actualValue != expectedValue"] ∧
    Gen.C06.testerNewDataAssigns = ["actualValue = struct.unpack('<B', data[i:i + 1])[0]",
      "expectedValue = start_address + i & 255", "self.readValidationSucess = False", "self._update_finished_cb = None"] ∧
    Gen.C06.testerCbInsideLoop = true ∧ Gen.C06.testerLoop = "i in range(len(data))" ∧
    Gen.C06.testerReadTests = ["not self._update_finished_cb"] ∧
    Gen.C06.testerReadCalls = ["self.mem_handler.read(self, start_address, size)"] ∧
    Gen.C06.testerWriteAssigns = ["self._write_finished_cb = write_finished_cb", "value = start_address + i & 255"] ∧
    Gen.C06.testerWriteCalls = ["self.mem_handler.write(self, start_address, data, flush_queue=True)"] ∧
    Gen.C06.testerWriteDoneTests = ["self._write_finished_cb and mem.id == self.id"] ∧
    Gen.C06.testerWiring = ["self.mem_read_cb.add_callback(mem.new_data)", "self.mem_write_cb.add_callback(mem.write_done)"] := by
  decide

/-! ## quiescent_clean (lock part): whenever no call into Memory is executing the write lock is free -/

/-- After ANY history of API calls, received packets (arbitrary bytes on any channel: duplicated, stale,
error-status and malformed replies included) and disconnects, the write lock is free, and ... -/
theorem quiescent_lock_free (evs : List Ev) : (run Variant.fixed St.init evs).1.lock = false :=
  run_lock_free evs St.init rfl

/-- ... no event ever blocks on the lock: every call into Memory returns or raises. -/
theorem never_blocks (evs : List Ev) (e : Ev) :
    (step Variant.fixed (run Variant.fixed St.init evs).1 e).res ≠ .hang :=
  (step_lock_free _ e (run_lock_free evs St.init rfl)).2

/-! ## exactly_one_notification, writes_in_order (bookkeeping), quiescent_clean (records)

`Ev.WF`: the request addresses a valid memory id (`< 256`) and a range inside the 32-bit address space (outside it
`struct.pack` raises: modelled, see `oob_write_raises` below, but not covered by the property).
The packets of a history are ARBITRARY (any channel, any bytes, any number, any order): every pattern of duplicated,
delayed, reordered, stale, error-status, forged and malformed replies is a special case.  `disconnect` may occur
anywhere (link drop after every k-th reply).  Tags identify requests (ghost; the `memory` object in the harness). -/

/-- **Writes, at most once / in order / nothing foreign.**  For every memory: the notified write requests (success
or failure, in notification order) followed by the requests still queued form a subsequence of the requests issued
on that memory, in issue order.  Hence (with distinct tags) no request is notified twice, a notified request is no
longer recorded, notifications and queue follow the issue order, and nothing is notified that was not requested. -/
theorem writes_once_in_order (evs : List Ev) (hwf : ∀ e ∈ evs, e.WF) (id : Nat) :
    (notifW id (run Variant.fixed St.init evs).2 ++ (run Variant.fixed St.init evs).1.queueTags id).Sublist
      (accW id evs) := by
  simpa [St.queueTags, St.queue_def, St.init, dget?] using run_writes_sublist St.init_ok hwf id

theorem writes_at_most_once (evs : List Ev) (hwf : ∀ e ∈ evs, e.WF) (hnd : (evs.filterMap Ev.tag?).Nodup) (id : Nat) :
    (notifW id (run Variant.fixed St.init evs).2 ++ (run Variant.fixed St.init evs).1.queueTags id).Nodup := by
  exact ((writes_once_in_order evs hwf id).trans (accW_sublist_tags id evs)).nodup hnd

/-- **Writes, never lost.**  A write request, once issued, is at any later time either notified, or still queued, or
a later `write(..., flush_queue=True)` on the same memory has explicitly superseded it. -/
theorem write_notified_queued_or_superseded (pre post : List Ev) (tag id addr : Nat) (data : List UInt8) (f p : Bool)
    (hwf : ∀ e ∈ pre ++ Ev.write tag id addr data f p :: post, e.WF) :
    tag ∈ notifW id (run Variant.fixed St.init (pre ++ Ev.write tag id addr data f p :: post)).2 ∨
    tag ∈ (run Variant.fixed St.init (pre ++ Ev.write tag id addr data f p :: post)).1.queueTags id ∨
    hasFlush id post := by
  have hpre : ∀ e ∈ pre, e.WF := fun e he => hwf e (by simp [he])
  have hw : (Ev.write tag id addr data f p).WF := hwf _ (by simp)
  have hpost : ∀ e ∈ post, e.WF := fun e he => hwf e (by simp [he])
  have hs1 := run_ok St.init_ok hpre
  rw [run_append, run_cons]
  obtain ⟨h1, h2, _⟩ := step_effect hs1 hw
  have hin : tag ∈ notifW id (step Variant.fixed (run Variant.fixed St.init pre).1 (Ev.write tag id addr data f p)).outs ++
      (step Variant.fixed (run Variant.fixed St.init pre).1 (Ev.write tag id addr data f p)).st.queueTags id := by
    rw [h2 id]; simp [Ev.queueAfter]
  simp only [notifW_append, List.mem_append]
  rcases List.mem_append.1 hin with h | h
  · left; right; left; exact h
  · rcases run_writes_lost h1 hpost id tag h with h | h | h
    · left; right; right; exact h
    · right; left; exact h
    · right; right; exact h

/-- **Reads, exactly once.**  For every memory: the notified read requests (success or failure) followed by the one
still recorded are EXACTLY the read requests that `Memory.read` accepted (returned True), in order: none lost, none
twice, none invented.  (`Memory.read` returns False - and does nothing - while a read of that memory is recorded.) -/
theorem reads_exactly_once (evs : List Ev) (hwf : ∀ e ∈ evs, e.WF) (id : Nat) :
    notifR id (run Variant.fixed St.init evs).2 ++ (run Variant.fixed St.init evs).1.readTags id =
      accR Variant.fixed St.init evs id := by
  simpa [St.readTags, St.init, dget?] using run_reads St.init_ok hwf id

/-- **Link drop at any point.**  After a disconnect no record remains (`quiescent_clean`): every read accepted so
far has been notified exactly once, and every write issued so far has been notified at most once and, unless
explicitly superseded, exactly once (combine with `write_notified_queued_or_superseded`: the queue is empty). -/
theorem disconnect_leaves_no_record (evs : List Ev) (hwf : ∀ e ∈ evs, e.WF) :
    (run Variant.fixed St.init (evs ++ [.disconnect])).1 = St.init ∧
    (∀ id, notifR id (run Variant.fixed St.init (evs ++ [.disconnect])).2 = accR Variant.fixed St.init evs id) := by
  have hs := run_ok St.init_ok hwf
  obtain ⟨h1, _, h3, _⟩ := disconnected_effect hs (r := disconnected (run Variant.fixed St.init evs).1) rfl
  rw [run_append]
  simp only [run, step, List.append_nil]
  refine ⟨h1, fun id => ?_⟩
  rw [notifR_append, h3, reads_exactly_once evs hwf id]

/-- **No exception, no hang.**  On well-formed requests no call into Memory blocks, and a received packet can only
raise before anything was changed (a reply too short to parse): the subsystem state stays well-formed. -/
theorem state_stays_wellformed (evs : List Ev) (hwf : ∀ e ∈ evs, e.WF) : (run Variant.fixed St.init evs).1.Ok :=
  run_ok St.init_ok hwf

/-- **Every transfer is split into messages within the protocol limits** (any history, any replies): a packet handed
to the link has at most 30 payload bytes; a write request carries at most `writeMax = 25 ≤ writeLimit` data bytes
behind its 5-byte head; a read request is 6 bytes and asks for at most `readMax = 20 ≤ readLimit` bytes. -/
theorem packets_within_limits (evs : List Ev) (hwf : ∀ e ∈ evs, e.WF) (c : Nat) (d : List UInt8)
    (h : Out.send c d ∈ (run Variant.fixed St.init evs).2) :
    d.length ≤ crtpMaxPayload ∧
    (c = specChanWrite → d.length ≤ 5 + writeLimit) ∧
    (c = specChanRead → d.length = 6 ∧ ∀ n, d[5]? = some n → n.toNat ≤ readLimit) ∧
    (c = specChanRead ∨ c = specChanWrite) := by
  obtain ⟨h1, h2, h3, h4⟩ := run_fits St.init_ok hwf _ h
  have e1 := gen_chanRead
  have e2 := gen_chanWrite
  have e3 := gen_readMax_le
  have e4 := gen_writeMax_le
  refine ⟨h1, fun hc => ?_, fun hc => ?_, ?_⟩
  · have := h2 (by rw [e2]; exact hc); omega
  · obtain ⟨a, b⟩ := h3 (by rw [e1]; exact hc)
    exact ⟨a, fun n hn => Nat.le_trans (b n hn) e3⟩
  · rw [← e1, ← e2]; exact h4

/-! ## read_exact

Closed system (Spec/C06): the library, the device (one byte image per memory; a request outside the image, to an
unknown memory or forced to fail by `faults` is answered with an error status) and the network, which delivers the
replies in flight in ANY order, ANY number of times (`deliver i keep`), or drops the link (`drop`).
`Act.OkForRead id`: requests are well-formed, nothing is forged (`inject`; assumption A1 - see
`stale_reply_counterexample`), and memory `id` itself is not written during the history (other memories are). -/

/-- **Every successful read returns exactly the bytes the device holds** at `[addr, addr + len)`, for every memory,
address and length (0 included), whatever else goes on (other reads, writes to other memories, error statuses,
duplicated / delayed / reordered replies, link drops). -/
theorem read_exact (d : Device) (faults : List UInt8) (acts : List Act) (id : Nat) (hid : id < 256)
    (hacts : ∀ a ∈ acts, a.OkForRead id) (tag addr : Nat) (data : List UInt8)
    (h : Out.readOk tag id addr data ∈ (runSys Variant.fixed (Sys.init d faults) acts).outs) :
    ∃ len m, Act.read tag id addr len ∈ acts ∧ d[id]? = some m ∧ data = slice m addr len ∧ addr + len ≤ m.length := by
  have := (RInv.run hid acts hacts (RInv.init id d faults)).log tag addr data h
  simpa using this

/-- **Each transfer is split into messages within the protocol limits**: every read request packet sent for memory
`id` is chunk number `j` of a read that was issued: it asks for `min(readMax, len - j*readMax)` bytes at
`addr + j*readMax` (so: at most `readMax ≤ 24` bytes, chunks of one read contiguous and non-overlapping, all inside
the requested range). -/
theorem read_requests_are_chunks (d : Device) (faults : List UInt8) (acts : List Act) (id : Nat) (hid : id < 256)
    (hacts : ∀ a ∈ acts, a.OkForRead id) (bytes : List UInt8)
    (h : Out.send Gen.C06.chanRead bytes ∈ (runSys Variant.fixed (Sys.init d faults) acts).outs)
    (hb : bytes.head? = some (UInt8.ofNat id)) :
    ∃ tag addr len j, Act.read tag id addr len ∈ acts ∧ j * Gen.C06.readMax ≤ len ∧
      bytes = readReqBytes id (addr + j * Gen.C06.readMax) (rdLen (len - j * Gen.C06.readMax)) ∧
      rdLen (len - j * Gen.C06.readMax) ≤ readLimit := by
  obtain ⟨tag, addr, len, h1, j, h2, h3⟩ := (RInv.run hid acts hacts (RInv.init id d faults)).sends bytes h hb
  exact ⟨tag, addr, len, j, by simpa using h1, h2, h3, Nat.le_trans (readLen_le _) gen_readMax_le⟩

/-- A1 is necessary: with a forged / stale reply (here: the reply to an earlier, longer read of the same address
delivered again) a read "succeeds" with bytes that are not `[addr, addr + len)` of the device.  The protocol carries
no request identity, so no implementation of this protocol can exclude it. -/
theorem stale_reply_counterexample :
    Out.readOk 2 0 0 [1, 2, 3] ∈ (runSys Variant.fixed (Sys.init [[1, 2, 3, 4]] [])
      [.read 1 0 0 3, .deliver 0 false, .read 2 0 0 1, .inject 1 [0, 0, 0, 0, 0, 0, 1, 2, 3]]).outs := by
  decide +kernel

/-! ## write_exact, writes_in_order (device level)

Same closed system.  `Act.OkForWrite`: requests are well-formed and nothing is forged (A1); everything else is
allowed: any number of queued writes on every memory with and without `flush_queue`, reads, error statuses
(`faults`, ranges outside the memory), duplicated / delayed / reordered acknowledgements, link drops.
`Entry` (ghost): a write request of memory `id` that was started: `kb` bytes of its `data` - a prefix - are stored
in the device; `ok`: it was notified with success.  `applyEntries m0 S`: `m0` overwritten by the entries of `S`
in order, each at its `addr` with its stored prefix. -/

/-- **The device memory is exactly what the completed writes say, in order, and nothing else.**
There is a list `S` of started write requests such that
* `S`, in order, is: every write of memory `id` notified so far (success or failure, in notification order) followed
  by the one in progress (queue head) - by `writes_once_in_order` a subsequence of the requests in issue order;
* every entry is a request that was issued, with the address and data given by the application;
* every entry notified with SUCCESS is stored completely (`kb = data.length`); a failed / interrupted one is stored
  as a prefix (possibly empty);
* the memory image of the device is the initial image overwritten by these entries in this order - nothing else
  ever changed it (no other range, no other request, no superseded request). -/
theorem write_exact (d : Device) (faults : List UInt8) (acts : List Act) (id : Nat) (hid : id < 256) (m0 : Image)
    (hd : d[id]? = some m0) (hacts : ∀ a ∈ acts, a.OkForWrite) :
    ∃ S : List Entry,
      S.map Entry.note = notesW id (runSys Variant.fixed (Sys.init d faults) acts).outs ++
        (((runSys Variant.fixed (Sys.init d faults) acts).host.queue id).take 1).map (fun w => (w.tag, w.addr, false)) ∧
      (∀ e ∈ S, (∃ f p, Act.write e.tag id e.addr e.data f p ∈ acts) ∧ e.kb ≤ e.data.length ∧
        (e.ok = true → e.kb = e.data.length)) ∧
      (runSys Variant.fixed (Sys.init d faults) acts).dev[id]? = some (applyEntries m0 S) := by
  have := WInv.run hid acts hacts (WInv.init id d faults hd)
  simp only [List.nil_append] at this
  exact write_exact_aux hid this

/-- **A memory that is not written never changes** ("unchanged elsewhere", across memories): whatever is written to
other memories, read anywhere, duplicated, delayed or dropped. -/
theorem unwritten_memory_unchanged (d : Device) (faults : List UInt8) (acts : List Act) (id : Nat) (hid : id < 256)
    (hacts : ∀ a ∈ acts, a.OkForRead id) :
    (runSys Variant.fixed (Sys.init d faults) acts).dev[id]? = d[id]? := by
  have := (RInv.run hid acts hacts (RInv.init id d faults)).dev
  simpa using this

/-- **write_exact for one write**: if `write(tag, id, addr, data)` is the only write to memory `id` in the history
and it was notified with success, the device memory is the old memory with `data` at `[addr, addr + len)` and
unchanged elsewhere (`overwrite m0 addr data = m0.take addr ++ data ++ m0.drop (addr + len)`), for every address,
length (0 included) and content - and no record of it is left. -/
theorem write_exact_single (d : Device) (faults : List UInt8) (acts : List Act) (id : Nat) (hid : id < 256) (m0 : Image)
    (hd : d[id]? = some m0) (hacts : ∀ a ∈ acts, a.OkForWrite)
    (tag addr : Nat) (data : List UInt8) (f p : Bool) (hmem : Act.write tag id addr data f p ∈ acts)
    (honly : accWActs id acts = [tag])
    (hok : Out.writeOk tag id addr ∈ (runSys Variant.fixed (Sys.init d faults) acts).outs) :
    (runSys Variant.fixed (Sys.init d faults) acts).dev[id]? = some (overwrite m0 addr data) ∧
    (runSys Variant.fixed (Sys.init d faults) acts).host.queue id = [] := by
  have hwf : ∀ a ∈ acts, a.WF := by
    intro a ha; have := hacts a ha; cases a <;> first | exact this | exact absurd this (by simp [Act.OkForWrite])
  obtain ⟨evs, he1, he2, he3, he4, _⟩ := runSys_project (Sys.init d faults) acts hwf
  have hsub := run_writes_sublist St.init_ok he1 id
  have he2' : (runSys Variant.fixed (Sys.init d faults) acts).host = (run Variant.fixed St.init evs).1 := he2
  have he3' : (runSys Variant.fixed (Sys.init d faults) acts).outs = (run Variant.fixed St.init evs).2 := he3
  rw [← he2', ← he3', he4 id, honly] at hsub
  have hq0 : St.init.queueTags id = [] := by simp [St.queueTags, St.queue_def, St.init, dget?]
  rw [hq0, List.nil_append] at hsub
  have hnote := mem_notesW hok
  have hlen := hsub.length_le
  simp only [List.length_append, List.length_cons, List.length_nil, notifW_eq_notesW, List.length_map, St.queueTags] at hlen
  have hpos : 0 < (notesW id (runSys Variant.fixed (Sys.init d faults) acts).outs).length :=
    List.length_pos_of_mem hnote
  have hqe : (runSys Variant.fixed (Sys.init d faults) acts).host.queue id = [] := by
    apply List.eq_nil_of_length_eq_zero; omega
  obtain ⟨S, hS, hE, hdev⟩ := write_exact d faults acts id hid m0 hd hacts
  rw [hqe] at hS
  simp only [List.take_nil, List.map_nil, List.append_nil] at hS
  have hn1 : (notesW id (runSys Variant.fixed (Sys.init d faults) acts).outs).length = 1 := by omega
  obtain ⟨x, hx⟩ := List.length_eq_one_iff.1 hn1
  rw [hx] at hnote hS
  simp only [List.mem_singleton] at hnote
  subst hnote
  obtain ⟨e, rfl⟩ : ∃ e, S = [e] := by
    have : S.length = 1 := by rw [← List.length_map (f := Entry.note), hS]; rfl
    exact List.length_eq_one_iff.1 this
  simp only [List.map_cons, List.map_nil, List.cons.injEq, and_true, Entry.note, Prod.mk.injEq] at hS
  obtain ⟨⟨f', p', hact⟩, _, hfull⟩ := hE e (by simp)
  have hsame : Act.write e.tag id e.addr e.data f' p' = Act.write tag id addr data f p :=
    accWActs_unique honly hact hmem
  simp only [Act.write.injEq, true_and] at hsame
  refine ⟨?_, hqe⟩
  rw [hdev]
  simp only [applyEntries, List.foldl_cons, List.foldl_nil]
  rw [hfull hS.2.2, hsame.2.1, hsame.2.2.1]
  simp

/-! ## progress: every accepted reply brings the request closer to its notification

(The liveness half of "completes": together with `read_exact` / `write_exact`, whose invariants say that the reply
to the outstanding chunk is genuine, a transfer of `len` bytes is notified after at most `⌈len/readMax⌉`, resp.
`⌈len/writeMax⌉`, deliveries of the outstanding reply - however many duplicates and stale replies are delivered in
between, and immediately with a failure when an error status arrives or the link drops.) -/

/-- a read reply for the outstanding chunk (right address, status 0, some data - or a zero-length read): the read
completes with a notification, or strictly fewer bytes are left and the next chunk request goes out -/
theorem read_reply_progress {s : St} (hs : s.Ok) {id : Nat} {r : RReq} (hget : dget? s.reads id = some r)
    (data : List UInt8) (hd : 0 < data.length ∨ r.left = 0) :
    (Out.readOk r.tag id r.addr (r.data ++ data) ∈ (onReadReply s id r.cur 0 data).outs ∧
      dget? (onReadReply s id r.cur 0 data).st.reads id = none) ∨
    (∃ r', dget? (onReadReply s id r.cur 0 data).st.reads id = some r' ∧ r'.left < r.left ∧
      ∃ c d, Out.send c d ∈ (onReadReply s id r.cur 0 data).outs) := by
  rw [onReadReply_eq hget (hs.reads id r hget)]
  simp only [↓reduceIte, ne_eq, not_true_eq_false]
  split
  · right
    exact ⟨r.plus data, by simp [dget?_dset_same], by simp only [RReq.plus]; omega, _, _, List.mem_singleton.2 rfl⟩
  · left
    exact ⟨by simp, by simp [dget?_derase_same]⟩

/-- a write acknowledgement for the outstanding chunk (right address, status 0): the write completes with a success
notification and leaves the queue, or strictly fewer bytes are left to send and the next chunk goes out -/
theorem write_ack_progress {s : St} (hs : s.Ok) {id : Nat} {w : WReq} {rest : List WReq}
    (hq : s.queue id = w :: rest) :
    (Out.writeOk w.tag id w.addr ∈ (onWriteReply Variant.fixed s id w.cur 0).outs ∧
      ((onWriteReply Variant.fixed s id w.cur 0).st.queue id).map (·.tag) = rest.map (·.tag)) ∨
    (∃ w', ((onWriteReply Variant.fixed s id w.cur 0).st.queue id) = w' :: rest ∧ w'.tag = w.tag ∧
      w'.rest.length < w.rest.length ∧ ∃ c d, Out.send c d ∈ (onWriteReply Variant.fixed s id w.cur 0).outs) := by
  obtain ⟨w1, po, hsame, _, hres⟩ := onWriteReply_ack hs hq
  rw [hres]
  have hqset : ∀ (q : List WReq), ({ reads := s.reads, writes := dset s.writes id q, lock := false } : St).queue id = q := by
    intro q; simp [St.queue_def, dget?_dset_same]
  split
  · rename_i hr
    right
    refine ⟨_, hqset _, by simp [WReq.afterChunk, hsame.1], ?_, _, _, List.mem_append_right _ (List.mem_singleton.2 rfl)⟩
    have := gen_writeMax_pos
    simp only [WReq.afterChunk, hsame.2.2.2.2.2.1, List.length_drop]
    unfold wrLen; split <;> omega
  · left
    refine ⟨by simp, ?_⟩
    rw [hqset]
    cases rest <;> simp [nextStarted, WReq.afterChunk]

/-! ## next_request_served: afterwards further requests are still served

After ANY history of the closed system (`hwf`: well-formed requests; forged packets, faults, drops, everything else
allowed), a new request on a memory that has no request of that kind recorded is served: there is a continuation -
at most `len + 1` deliveries of the newest packet in flight - after which it has completed with SUCCESS (device
range respected, no error status forced).  Nothing left behind by the history (a lock, a record, a stale packet)
can prevent it.  (That no *adversarial* continuation can do worse than delay it is the content of the safety
theorems above: at most one notification, failure on error/drop, exact data on success.) -/

theorem reachable_state_ok (d : Device) (faults : List UInt8) (acts : List Act) (hwf : ∀ a ∈ acts, a.WF) :
    (runSys Variant.fixed (Sys.init d faults) acts).host.Ok := by
  obtain ⟨evs, h1, h2, _⟩ := runSys_project (Sys.init d faults) acts hwf
  rw [h2]; exact run_ok St.init_ok h1

theorem next_read_served (d : Device) (faults : List UInt8) (acts : List Act) (hwf : ∀ a ∈ acts, a.WF)
    (id : Nat) (hid : id < 256) (m : Image) (tag addr len : Nat)
    (hnone : dget? (runSys Variant.fixed (Sys.init d faults) acts).host.reads id = none)
    (hdev : (runSys Variant.fixed (Sys.init d faults) acts).dev[id]? = some m)
    (hf : ∀ f ∈ (runSys Variant.fixed (Sys.init d faults) acts).faults, f = 0)
    (hreq : (Ev.read tag id addr len).WF) (hin : addr + len ≤ m.length) :
    ∃ more : List Act, more.length ≤ len + 1 ∧ (∀ a ∈ more, ∃ i, a = .deliver i false) ∧
      Out.readOk tag id addr (slice m addr len) ∈
        (runSys Variant.fixed (Sys.init d faults) (acts ++ .read tag id addr len :: more)).outs := by
  have hok := reachable_state_ok d faults acts hwf
  have hs := ReadServing.start hid hok hnone hdev hf hreq hin
  obtain ⟨n, hn, hmem⟩ := ReadServing.complete hid len (Nat.le_refl _) hs
  refine ⟨deliverLastActs n (stepSys Variant.fixed (runSys Variant.fixed (Sys.init d faults) acts) (.read tag id addr len)), ?_, ?_, ?_⟩
  · have : ∀ n y, (deliverLastActs n y).length = n := by
      intro n; induction n with
      | zero => intro y; rfl
      | succ n ih => intro y; simp [deliverLastActs, ih]
    rw [this]; exact hn
  · have : ∀ n y, ∀ a ∈ deliverLastActs n y, ∃ i, a = Act.deliver i false := by
      intro n; induction n with
      | zero => intro y a ha; cases ha
      | succ n ih =>
        intro y a ha
        rcases List.mem_cons.1 ha with rfl | ha
        · exact ⟨_, rfl⟩
        · exact ih _ a ha
    exact this n _
  · rw [deliverLastN_eq_runSys] at hmem
    simp only [runSys, List.foldl_append, List.foldl_cons] at hmem ⊢
    simpa [RReq.new] using hmem

theorem next_write_served (d : Device) (faults : List UInt8) (acts : List Act) (hwf : ∀ a ∈ acts, a.WF)
    (id : Nat) (hid : id < 256) (m : Image) (tag addr : Nat) (data : List UInt8) (flush p : Bool)
    (hempty : (runSys Variant.fixed (Sys.init d faults) acts).host.queue id = [])
    (hdev : (runSys Variant.fixed (Sys.init d faults) acts).dev[id]? = some m)
    (hf : ∀ f ∈ (runSys Variant.fixed (Sys.init d faults) acts).faults, f = 0)
    (hreq : (Ev.write tag id addr data flush p).WF) (hin : addr + data.length ≤ m.length) :
    ∃ more : List Act, more.length ≤ data.length + 1 ∧ (∀ a ∈ more, ∃ i, a = .deliver i false) ∧
      Out.writeOk tag id addr ∈
        (runSys Variant.fixed (Sys.init d faults) (acts ++ .write tag id addr data flush p :: more)).outs ∧
      (runSys Variant.fixed (Sys.init d faults) (acts ++ .write tag id addr data flush p :: more)).host.queue id = [] := by
  have hok := reachable_state_ok d faults acts hwf
  have hs := WriteServing.start hid hok hempty hdev hf hreq hin
  have hrl : ((WReq.new tag id addr data p).afterChunk).rest.length ≤ data.length := by
    simp [WReq.afterChunk, WReq.new]
  obtain ⟨n, hn, hmem, hq⟩ := WriteServing.complete hid data.length hrl hs
  refine ⟨deliverLastActs n (stepSys Variant.fixed (runSys Variant.fixed (Sys.init d faults) acts) (.write tag id addr data flush p)), ?_, ?_, ?_⟩
  · have : ∀ n y, (deliverLastActs n y).length = n := by
      intro n; induction n with
      | zero => intro y; rfl
      | succ n ih => intro y; simp [deliverLastActs, ih]
    rw [this]; exact hn
  · have : ∀ n y, ∀ a ∈ deliverLastActs n y, ∃ i, a = Act.deliver i false := by
      intro n; induction n with
      | zero => intro y a ha; cases ha
      | succ n ih =>
        intro y a ha
        rcases List.mem_cons.1 ha with rfl | ha
        · exact ⟨_, rfl⟩
        · exact ih _ a ha
    exact this n _
  · rw [deliverLastN_eq_runSys] at hmem hq
    simp only [runSys, List.foldl_append, List.foldl_cons] at hmem hq ⊢
    exact ⟨by simpa [WReq.afterChunk, WReq.new] using hmem, hq⟩

/-! ## D9: the code before the repair -/

/-- one 1-byte write, its acknowledgement, the same acknowledgement again -/
def d9Witness : List Ev :=
  [.write 1 0 0 [0x2a] false false, .pkt 2 [0, 0, 0, 0, 0, 0], .pkt 2 [0, 0, 0, 0, 0, 0]]

/-- D9: the duplicated final acknowledgement leaves the lock held ... -/
theorem d9_lock_left_held : (run Variant.live St.init d9Witness).1.lock = true := by decide

/-- ... so the statement of `quiescent_lock_free` is false for the unrepaired code, ... -/
theorem quiescent_lock_free_live_counterexample :
    ¬ (∀ evs, (run Variant.live St.init evs).1.lock = false) := by
  intro h; exact absurd (h d9Witness) (by decide)

/-- ... and every later write and the disconnect handler block forever. -/
theorem d9_wedged :
    (step Variant.live (run Variant.live St.init d9Witness).1 (.write 2 0 0 [0x2b] false false)).res = .hang ∧
    (step Variant.live (run Variant.live St.init d9Witness).1 .disconnect).res = .hang := by decide

/-! ## D17: zero-length write with a progress callback (the code before the repair) -/

def d17Witness : List Ev := [.write 1 0 0 [] false true, .pkt 2 [0, 0, 0, 0, 0, 0]]

/-- D17: the acknowledgement of a zero-length write with a progress callback raises ZeroDivisionError: the request
is never notified, stays at the head of the queue of its memory - and the lock stays held (D9 discipline) -/
theorem d17_never_notified :
    (step Variant.live (run Variant.live St.init [.write 1 0 0 [] false true]).1 (.pkt 2 [0, 0, 0, 0, 0, 0])).res =
      .raised .zeroDiv ∧
    notifW 0 (run Variant.live St.init d17Witness).2 = [] ∧
    (run Variant.live St.init d17Witness).1.queueTags 0 = [1] ∧
    (run Variant.live St.init d17Witness).1.lock = true := by decide

/-- with the D9 repair alone the lock is released but the request still never completes: every further
acknowledgement raises again, every later write to that memory queues behind it -/
theorem d17_without_its_repair :
    let v : Variant := ⟨true, true, true, true, true, false⟩
    (run v St.init (d17Witness ++ [.pkt 2 [0, 0, 0, 0, 0, 0], .write 2 0 0 [7] false false])).1.queueTags 0 = [1, 2] ∧
    notifW 0 (run v St.init (d17Witness ++ [.pkt 2 [0, 0, 0, 0, 0, 0], .write 2 0 0 [7] false false])).2 = [] := by
  decide

/-- the repaired code completes it -/
theorem d17_repaired : (run Variant.fixed St.init d17Witness).2 = [.send 2 [0, 0, 0, 0, 0], .writeOk 1 0 0] := by decide

/-! ## Outside the property (modelled, recorded): requests that are not well-formed -/

/-- a write beyond the 32-bit address space raises `struct.error` inside `Memory.write` (repaired code: the lock is
released) - but the request stays recorded at the head of its queue (`Ev.WF` excludes such requests from the
theorems above; the caller gets the exception) -/
theorem oob_write_raises :
    (step Variant.fixed St.init (.write 1 0 4294967296 [1] false false)).res = .raised .structError ∧
    (step Variant.fixed St.init (.write 1 0 4294967296 [1] false false)).st.queueTags 0 = [1] ∧
    (step Variant.fixed St.init (.write 1 0 4294967296 [1] false false)).st.lock = false := by decide

/-! ## The `MemoryTester` client -/

/-- `write_data(start, size)` hands `Memory.write` exactly the pattern `(start + i) & 0xff`, `i < size`, with
`flush_queue=True`; so by `write_exact_single` a completed tester write leaves that pattern in the device. -/
theorem tester_write_pattern (v : Variant) (s : St) (t : Tester) (tag start size cb : Nat) :
    (testerWrite v s t tag start size cb).2.st =
      (memWrite v s tag t.id start ((List.range size).map fun i => UInt8.ofNat ((start + i) % 256)) true false).st ∧
    (testerWrite v s t tag start size cb).2.outs =
      (memWrite v s tag t.id start ((List.range size).map fun i => UInt8.ofNat ((start + i) % 256)) true false).outs :=
  ⟨rfl, rfl⟩

/-- observation (recorded, client level): `MemoryTester.new_data` calls the finished callback inside its loop over
the data bytes, so a zero-length `read_data` is completed by `Memory` (`mem_read_cb` fires, see `reads_exactly_once`)
but the tester's own callback never runs and every later `read_data` of that tester is silently ignored. -/
theorem tester_zero_length_read_observation :
    let r1 := testerRead St.init (Tester.new 2) 900 0 0 7
    let s2 := step Variant.fixed r1.2.st (.pkt 1 [2, 0, 0, 0, 0, 0])
    let t2 := testerReact r1.1 s2.outs
    s2.outs = [.readOk 900 2 0 []] ∧ t2.2 = [] ∧ (testerRead s2.st t2.1 900 0 2 8).2.outs = [] := by decide

/-! ## The `DeckMemoryManager` client: a layer with its own pending-request records

`CEv`: `query_decks`, `DeckMemory.read`, `DeckMemory.write` (each with or without its optional failure callback),
and ANY `Memory` event with the manager subscribed (`mem`: arbitrary received packets - so success, an error status on
any chunk, duplicates, stale and forged replies -, the disconnect handler, requests on other memories).
`CEv.Dom c`: the domain of the property (well-formed request; the info section is only read by `query_decks`; requests
on the manager's memory go through the manager).  `CEv.Adm dv c`: `Dom` plus, for each defect of the code BEFORE the
repairs D61-D63, the exact side condition that avoids it; for `DeckVariant.fixed` - which is what Tie A finds in the
source (`gen_deck_variant`) - `Adm` = `Dom`.  The `*_any_variant` theorems are the parametric versions. -/

/-- the clearing / notifying discipline of the code before the repairs D61-D63 (`_new_data_failed` does not report a
failed query, `_write_failed` calls `None`, the result of `mem_handler.read` is ignored; the read record IS always
cleared): kept for the counterexample theorems -/
def deckCurrent : DeckVariant := ⟨false, false, false, true⟩

/-- the source has the repaired discipline (fix commits D61, D62, D63): the property theorems below are about
`DeckVariant.fixed`, for which `CEv.Adm` is nothing but the domain of the property (`CEv.Dom`) -/
theorem gen_deck_variant : DeckVariant.code = DeckVariant.fixed := by decide

theorem gen_deck_constants : Gen.C06.deckInfoAddr = 0 ∧ Gen.C06.deckInfoSize = 257 ∧ Gen.C06.deckSupportedVersion = 3 ∧
    Gen.C06.deckMinInfoLen ≤ Gen.C06.deckInfoSize ∧ Gen.C06.deckParseHeadFmt = "<BB" := by decide

/-- the record-keeping statements of the manager: where each record is tested, set, cleared, and which callback is
called with what (pins the ORDER of clearing and calling, and that clearing does not depend on the callback) -/
theorem gen_deck_records :
    Gen.C06.deckQueryDecksBody = [
      "if self._query_complete_cb is not None:", "  raise Exception('Query ongoing')", "self._error = None",
      "self.deck_memories = {}", "self._query_complete_cb = query_complete_cb",
      "self._query_failed_cb = query_failed_cb",
      "if not self.mem_handler.read(self, self.INFO_SECTION_ADDRESS, self.SIZE_OF_INFO_SECTION):",
      "  self._clear_query_cb()", "  raise Exception('Read operation ongoing')"] ∧
    Gen.C06.deckReadBody = [
      "if self._read_complete_cb is not None:", "  raise Exception('Read operation ongoing')",
      "self._read_base_address = base_address", "self._read_complete_cb = read_complete_cb",
      "self._read_failed_cb = read_failed_cb", "mapped_address = address + self._read_base_address",
      "if not self.mem_handler.read(self, mapped_address, length):", "  self._clear_read_cb()",
      "  raise Exception('Read operation ongoing')"] ∧
    Gen.C06.deckWriteBody = [
      "if self._write_complete_cb is not None:", "  raise Exception('Write operation ongoing')",
      "self._write_complete_cb = complete_cb", "self._write_failed_cb = failed_cb",
      "mapped_address = address + base_address",
      "self.mem_handler.write(self, mapped_address, data, flush_queue=True, progress_cb=progress_cb)"] ∧
    Gen.C06.deckNewDataBody = [
      "if mem.id == self.id:", "  if addr == self.INFO_SECTION_ADDRESS:", "    try:",
      "      self.deck_memories = self._parse_info_section(data)", "      tmp_cb = self._query_complete_cb",
      "      self._clear_query_cb()", "      tmp_cb(self.deck_memories)", "    except RuntimeError:",
      "      tmp_cb = self._query_failed_cb", "      self._clear_query_cb()", "      if tmp_cb:",
      "        tmp_cb(str(e))", "  else:", "    tmp_cb = self._read_complete_cb", "    self._clear_read_cb()",
      "    tmp_cb(addr - self._read_base_address, data)"] ∧
    Gen.C06.deckNewDataFailedBody = [
      "if mem.id == self.id:", "  if addr == self.INFO_SECTION_ADDRESS:", "    tmp_cb = self._query_failed_cb",
      "    self._clear_query_cb()", "    if tmp_cb:", "      tmp_cb('Deck memory query failed')", "  else:",
      "    tmp_cb = self._read_failed_cb", "    self._clear_read_cb()", "    if tmp_cb is not None:",
      "      tmp_cb(addr - self._read_base_address)", "    else:"] ∧
    Gen.C06.deckWriteDoneBody = [
      "if mem.id == self.id:", "  tmp_cb = self._write_complete_cb", "  self._clear_write_cb()",
      "  tmp_cb(addr - self._read_base_address)"] ∧
    Gen.C06.deckWriteFailedBody = [
      "if mem.id == self.id:", "  tmp_cb = self._write_failed_cb", "  self._clear_write_cb()",
      "  if tmp_cb is not None:", "    tmp_cb(addr - self._read_base_address)"] ∧
    Gen.C06.deckClearQueryCbBody = [
      "self._query_complete_cb = None", "self._query_failed_cb = None"] ∧
    Gen.C06.deckClearReadCbBody = [
      "self._read_complete_cb = None", "self._read_failed_cb = None"] ∧
    Gen.C06.deckClearWriteCbBody = [
      "self._write_complete_cb = None", "self._write_failed_cb = None"] ∧
    Gen.C06.deckWiring = [
      "self.mem_read_cb.add_callback(mem._new_data)",
      "self.mem_read_failed_cb.add_callback(mem._new_data_failed)",
      "self.mem_write_cb.add_callback(mem._write_done)",
      "self.mem_write_failed_cb.add_callback(mem._write_failed)"] := by decide

/-- **Exactly one notification - or silent completion - per accepted request, over all admissible histories**:
for each kind (0 query, 1 read, 2 write), the requests closed by a callback (or closed silently because no failure
callback had been supplied: ghost `DOut.silent`), in order, followed by the request still recorded, are EXACTLY the
requests the manager accepted, in order.  Nothing closed twice, nothing lost, nothing invented.
(`partial` for the current code only through `CEv.Adm`; at full strength for `DeckVariant.fixed`.) -/
theorem deck_exactly_one_any_variant (dv : DeckVariant) (id : Nat) (evs : List CEv) (ha : CAdm dv ⟨St.init, Deck.new id⟩ evs) (kind : Nat) :
    closed kind (crun dv ⟨St.init, Deck.new id⟩ evs).2 ++ (crun dv ⟨St.init, Deck.new id⟩ evs).1.d.pending kind =
      acceptedAll dv kind ⟨St.init, Deck.new id⟩ evs := by
  have := (crun_inv evs (CInv.init dv id) ha).2 kind
  simpa [Deck.pending, Deck.new, slotRid] using this

/-- **No pending-request record is left behind**: after every admissible history the manager's records follow
`Memory`'s: a query / read record exists only while `Memory` has a read of that memory recorded, the write record
only while `Memory` has that write queued - and by the theorems above `Memory`'s records disappear with the
notification, on an error status, and on disconnect. -/
theorem deck_records_follow_memory_any_variant (dv : DeckVariant) (id : Nat) (evs : List CEv) (ha : CAdm dv ⟨St.init, Deck.new id⟩ evs) :
    let c := (crun dv ⟨St.init, Deck.new id⟩ evs).1
    (dget? c.s.reads c.d.id = none → c.d.query = none ∧ c.d.read = none) ∧
    (c.s.queue c.d.id = [] → c.d.write = none) := by
  have h := (crun_inv evs (CInv.init dv id) ha).1
  refine ⟨fun hn => ?_, fun hq => ?_⟩
  · have := h.reads.1; rw [hn] at this; exact this
  · rcases h.writes.1 with ⟨_, h2⟩ | ⟨w, h1, _⟩
    · exact h2
    · rw [hq] at h1; cases h1

/-- **Afterwards further requests are still served**: after every admissible history, as soon as `Memory` has no
read recorded for the manager's memory, a deck read (and a query) is ACCEPTED - it returns, is recorded and its
first chunk request goes out; likewise a deck write as soon as nothing is queued. -/
theorem deck_next_request_accepted_any_variant (dv : DeckVariant) (id : Nat) (evs : List CEv) (ha : CAdm dv ⟨St.init, Deck.new id⟩ evs)
    (tag base address len rid : Nat) (hf : Bool) :
    let c := (crun dv ⟨St.init, Deck.new id⟩ evs).1
    (dget? c.s.reads c.d.id = none → (Ev.read tag c.d.id (address + base) len).WF →
      (cstep dv c (.dread tag base address len rid hf)).res = .ret none ∧
      (cstep dv c (.dread tag base address len rid hf)).c.d.read = some ⟨rid, hf⟩ ∧
      (cstep dv c (.dread tag base address len rid hf)).outs =
        [.send Gen.C06.chanRead (readReqBytes c.d.id (address + base) (rdLen len))]) ∧
    (dget? c.s.reads c.d.id = none → (Ev.read tag c.d.id Gen.C06.deckInfoAddr Gen.C06.deckInfoSize).WF →
      (cstep dv c (.query tag rid hf)).res = .ret none ∧ (cstep dv c (.query tag rid hf)).c.d.query = some ⟨rid, hf⟩) := by
  have h := (crun_inv evs (CInv.init dv id) ha).1
  have hne : ((Res.ret (some true) : Res) == Res.ret (some false)) = false := by decide
  refine ⟨fun hn hwf => ?_, fun hn hwf => ?_⟩
  · have hr := h.reads.1; rw [hn] at hr
    rcases memRead_cases _ hwf with ⟨r, hget, _⟩ | ⟨_, hm⟩
    · rw [hn] at hget; cases hget
    · simp [cstep, deckRead, hr.2, hm, hne]
  · have hr := h.reads.1; rw [hn] at hr
    rcases memRead_cases _ hwf with ⟨r, hget, _⟩ | ⟨_, hm⟩
    · rw [hn] at hget; cases hget
    · simp [cstep, deckQuery, hr.1, hm, hne]

theorem deck_write_accepted_of_inv {dv : DeckVariant} {c : CSt} (h : CInv dv c)
    (tag base address : Nat) (data : List UInt8) (rid : Nat) (hf p : Bool)
    (hq : c.s.queue c.d.id = []) (hwf : (Ev.write tag c.d.id (address + base) data true p).WF) :
    (cstep dv c (.dwrite tag base address data rid hf p)).res = .ret none ∧
    (cstep dv c (.dwrite tag base address data rid hf p)).c.d.write = some ⟨rid, hf⟩ ∧
    (cstep dv c (.dwrite tag base address data rid hf p)).outs =
      [.send Gen.C06.chanWrite (headBytes c.d.id (address + base) ++ data.take (wrLen data.length))] := by
  have hw : c.d.write = none := by
    rcases h.writes.1 with ⟨_, h2⟩ | ⟨w, h1, _⟩
    · exact h2
    · rw [hq] at h1; cases h1
  have hm := memWrite_eq h.ok hwf
  rw [hq] at hm
  simp only [List.take_nil, ite_self] at hm
  simp [cstep, deckWrite, hw, hm]

/-- ... and a deck write is accepted and started as soon as no write of that memory is queued -/
theorem deck_next_write_accepted_any_variant (dv : DeckVariant) (id : Nat) (evs : List CEv) (ha : CAdm dv ⟨St.init, Deck.new id⟩ evs)
    (tag base address : Nat) (data : List UInt8) (rid : Nat) (hf p : Bool)
    (hq : (crun dv ⟨St.init, Deck.new id⟩ evs).1.s.queue (crun dv ⟨St.init, Deck.new id⟩ evs).1.d.id = [])
    (hwf : (Ev.write tag (crun dv ⟨St.init, Deck.new id⟩ evs).1.d.id (address + base) data true p).WF) :
    (cstep dv (crun dv ⟨St.init, Deck.new id⟩ evs).1 (.dwrite tag base address data rid hf p)).res = .ret none ∧
    (cstep dv (crun dv ⟨St.init, Deck.new id⟩ evs).1 (.dwrite tag base address data rid hf p)).c.d.write = some ⟨rid, hf⟩ :=
  let h := deck_write_accepted_of_inv (crun_inv evs (CInv.init dv id) ha).1 tag base address data rid hf p hq hwf
  ⟨h.1, h.2.1⟩

/-! ### the property theorems for the repaired code: no side conditions beyond the domain -/

/-- **Exactly one notification - or silent completion - per accepted request**, over ALL histories in the domain:
requests with and without each optional callback, overlapping requests (refused with an exception), any received
packets (success, error status on any chunk, duplicates, stale, forged, malformed), disconnect anywhere. -/
theorem deck_exactly_one (id : Nat) (evs : List CEv) (h : CDom ⟨St.init, Deck.new id⟩ evs) (kind : Nat) :
    closed kind (crun DeckVariant.fixed ⟨St.init, Deck.new id⟩ evs).2 ++
      (crun DeckVariant.fixed ⟨St.init, Deck.new id⟩ evs).1.d.pending kind =
      acceptedAll DeckVariant.fixed kind ⟨St.init, Deck.new id⟩ evs :=
  deck_exactly_one_any_variant _ id evs (CAdm_fixed_of_dom evs _ h) kind

/-- **No pending-request record is left behind** -/
theorem deck_records_follow_memory (id : Nat) (evs : List CEv) (h : CDom ⟨St.init, Deck.new id⟩ evs) :
    let c := (crun DeckVariant.fixed ⟨St.init, Deck.new id⟩ evs).1
    (dget? c.s.reads c.d.id = none → c.d.query = none ∧ c.d.read = none) ∧
    (c.s.queue c.d.id = [] → c.d.write = none) :=
  deck_records_follow_memory_any_variant _ id evs (CAdm_fixed_of_dom evs _ h)

/-- **Afterwards further requests are still served** (reads and queries) -/
theorem deck_next_request_accepted (id : Nat) (evs : List CEv) (h : CDom ⟨St.init, Deck.new id⟩ evs)
    (tag base address len rid : Nat) (hf : Bool) :
    let c := (crun DeckVariant.fixed ⟨St.init, Deck.new id⟩ evs).1
    (dget? c.s.reads c.d.id = none → (Ev.read tag c.d.id (address + base) len).WF →
      (cstep DeckVariant.fixed c (.dread tag base address len rid hf)).res = .ret none ∧
      (cstep DeckVariant.fixed c (.dread tag base address len rid hf)).c.d.read = some ⟨rid, hf⟩ ∧
      (cstep DeckVariant.fixed c (.dread tag base address len rid hf)).outs =
        [.send Gen.C06.chanRead (readReqBytes c.d.id (address + base) (rdLen len))]) ∧
    (dget? c.s.reads c.d.id = none → (Ev.read tag c.d.id Gen.C06.deckInfoAddr Gen.C06.deckInfoSize).WF →
      (cstep DeckVariant.fixed c (.query tag rid hf)).res = .ret none ∧
      (cstep DeckVariant.fixed c (.query tag rid hf)).c.d.query = some ⟨rid, hf⟩) :=
  deck_next_request_accepted_any_variant _ id evs (CAdm_fixed_of_dom evs _ h) tag base address len rid hf

/-- **Afterwards further requests are still served** (writes) -/
theorem deck_next_write_accepted (id : Nat) (evs : List CEv) (h : CDom ⟨St.init, Deck.new id⟩ evs)
    (tag base address : Nat) (data : List UInt8) (rid : Nat) (hf p : Bool)
    (hq : (crun DeckVariant.fixed ⟨St.init, Deck.new id⟩ evs).1.s.queue
      (crun DeckVariant.fixed ⟨St.init, Deck.new id⟩ evs).1.d.id = [])
    (hwf : (Ev.write tag (crun DeckVariant.fixed ⟨St.init, Deck.new id⟩ evs).1.d.id (address + base) data true p).WF) :
    (cstep DeckVariant.fixed (crun DeckVariant.fixed ⟨St.init, Deck.new id⟩ evs).1
      (.dwrite tag base address data rid hf p)).res = .ret none ∧
    (cstep DeckVariant.fixed (crun DeckVariant.fixed ⟨St.init, Deck.new id⟩ evs).1
      (.dwrite tag base address data rid hf p)).c.d.write = some ⟨rid, hf⟩ :=
  deck_next_write_accepted_any_variant _ id evs (CAdm_fixed_of_dom evs _ h) tag base address data rid hf p hq hwf

/-! ### the defects of the code before the repairs D61-D63 (each side condition of `CEv.Adm` is necessary) -/

/-- D61: a failed `query_decks` (error status on the info-section read; likewise a link drop) is reported to
nobody: `query_failed_cb` was supplied and is never called (`SyncDeckMemoryManager.query_decks` waits forever) -/
theorem deck_query_failure_unreported_counterexample :
    let evs := [CEv.query 800 1 true, .mem (.pkt 1 [5, 0, 0, 0, 0, 7])]
    acceptedAll deckCurrent 0 ⟨St.init, Deck.new 5⟩ evs = [1] ∧
    (crun deckCurrent ⟨St.init, Deck.new 5⟩ evs).2 = [] ∧
    (crun deckCurrent ⟨St.init, Deck.new 5⟩ evs).1.d.query = none ∧
    (crun DeckVariant.fixed ⟨St.init, Deck.new 5⟩ evs).2 = [.queryFailed 1] := by decide

/-- D62: a failed deck write for which no `write_failed_cb` was supplied (the default of `DeckMemory.write`) makes
`_write_failed` call `None`: the TypeError escapes from `Memory`'s failure dispatch, so on a link drop the failure
notifications of the requests after it are lost (here: the write `9` to memory 0 is never notified) -/
theorem deck_write_failure_without_callback_counterexample :
    let evs := [CEv.dwrite 800 300 0 [1, 2] 1 false false, .mem (.write 9 0 0 [7] false false), .mem .disconnect]
    (cstep deckCurrent (crun deckCurrent ⟨St.init, Deck.new 5⟩ (evs.take 2)).1 (.mem .disconnect)).res = .raised .typeError ∧
    (cstep deckCurrent (crun deckCurrent ⟨St.init, Deck.new 5⟩ (evs.take 2)).1 (.mem .disconnect)).outs = [.writeFail 800 5 300] ∧
    (cstep DeckVariant.fixed (crun DeckVariant.fixed ⟨St.init, Deck.new 5⟩ (evs.take 2)).1 (.mem .disconnect)).outs =
      [.writeFail 800 5 300, .writeFail 9 0 0] := by decide

/-- D63: `query_decks` while a deck read is in progress (or the other way round): `Memory.read` refuses (returns
False), the manager ignores that, records the request and returns normally - the request is never sent, never
notified, and its record stays for ever: every later `query_decks` raises 'Query ongoing' -/
theorem deck_overlapping_requests_counterexample :
    let evs := [CEv.dread 800 300 0 1 1 true, .query 800 2 true,
                .mem (.pkt 1 [5, 44, 1, 0, 0, 0, 9]), .mem .disconnect]
    acceptedAll deckCurrent 0 ⟨St.init, Deck.new 5⟩ evs = [2] ∧
    closed 0 (crun deckCurrent ⟨St.init, Deck.new 5⟩ evs).2 = [] ∧
    (crun deckCurrent ⟨St.init, Deck.new 5⟩ evs).1.d.query = some ⟨2, true⟩ ∧
    dget? (crun deckCurrent ⟨St.init, Deck.new 5⟩ evs).1.s.reads 5 = none ∧
    (cstep deckCurrent (crun deckCurrent ⟨St.init, Deck.new 5⟩ evs).1 (.query 800 3 true)).res = .raised .other ∧
    (cstep DeckVariant.fixed ⟨(crun DeckVariant.fixed ⟨St.init, Deck.new 5⟩ (evs.take 1)).1.s,
      (crun DeckVariant.fixed ⟨St.init, Deck.new 5⟩ (evs.take 1)).1.d⟩ (.query 800 2 true)).res = .raised .other := by
  decide

/-- the clearing of the read record must not depend on the failure callback (a variant that clears only when a
callback was supplied leaves the record behind: every later deck read raises 'Read operation ongoing') -/
theorem deck_read_record_must_always_be_cleared :
    let dv : DeckVariant := ⟨true, true, true, false⟩
    let evs := [CEv.dread 800 300 0 4 1 false, .mem (.pkt 1 [5, 44, 1, 0, 0, 7])]
    (crun dv ⟨St.init, Deck.new 5⟩ evs).1.d.read = some ⟨1, false⟩ ∧
    dget? (crun dv ⟨St.init, Deck.new 5⟩ evs).1.s.reads 5 = none ∧
    (cstep dv (crun dv ⟨St.init, Deck.new 5⟩ evs).1 (.dread 800 300 0 4 2 false)).res = .raised .other := by decide

/-! ## Links that need resending: no retransmission outlives its request

On a `needs_resending` link `Crazyflie.send_packet` records, for every chunk request, the pattern
`(header,) + expected_reply` with a retry timer; a received packet that starts with a recorded pattern cancels it
(before `Memory` sees the packet); a timer that fires while recorded transmits the SAME packet again.
`expected_reply` is the tuple of the first five bytes `id, addr32` of that very chunk packet (`gen_expected_reply`),
so the entry of a chunk is `(channel, packet)` with pattern `(channel, packet[:5])` (`rstep`, `Retry`).
`RAdm`: requests well-formed; received packets ARBITRARY (duplicates, delays, stale, forged) except that a reply
with an error status names the chunk that is outstanding (`Ev.ErrAtCur`: the device answers a retransmitted packet
like the packet itself - `devWrite_idem` - and A1). -/

/-- the expected-reply tuple of a chunk is built from the packet of THAT chunk, and the Crazyflie object matches
received packets against `(header,) + expected_reply` by prefix -/
theorem gen_expected_reply :
    Gen.C06.readExpArgs = ["pk.data[:-1]"] ∧ Gen.C06.writeExpArgs = ["pk.data"] ∧
    Gen.C06.readExpFmt = "<BBBBB" ∧ Gen.C06.writeExpFmt = "<BBBBB" ∧
    Gen.C06.readSend = ["self.cf.send_packet(pk, expected_reply=reply, timeout=1)"] ∧
    Gen.C06.writeSend = ["self.cf.send_packet(pk, expected_reply=reply, timeout=1)"] ∧
    Gen.C06.retryPatternAssigns = ["pattern = (pk.header,) + expected_reply", "pattern = expected_reply",
      "self._answer_patterns[pattern] = new_timer"] ∧
    Gen.C06.retryArmTests = ["len(expected_reply) > 0 and (not resend) and link.needs_resending"] ∧
    Gen.C06.retryMatchCompares = ["len(self._answer_patterns) > 0", "len(p) <= len(data)", "p == data[0:len(p)]",
      "len(match) >= len(longest_match)", "len(longest_match) > 0"] ∧
    Gen.C06.retryMatchAssigns = ["longest_match = ()", "data = (pk.header,) + tuple(pk.data)", "match = data[0:len(p)]",
      "longest_match = match"] ∧
    Gen.C06.retryMatchCalls = ["self._answer_patterns[longest_match].cancel()", "del self._answer_patterns[longest_match]"] ∧
    Gen.C06.retryHooks = ["self.packet_received.add_callback(self._check_for_answers)"] := by decide

/-- **At any time the only retransmissions that can still happen are those of the chunk that is outstanding right
now**: every recorded entry carries the address of the current chunk of a recorded read, or of the head of a write
queue - over all admissible histories, with or without `needs_resending`. -/
theorem retransmissions_only_of_outstanding_chunks (resend : Bool) (evs : List Ev) (ha : RAdm resend ⟨St.init, []⟩ evs) :
    ∀ e ∈ (rrun resend ⟨St.init, []⟩ evs).1.retry, ∃ id, EntryFor (rrun resend ⟨St.init, []⟩ evs).1.s id e :=
  (rrun_inv resend evs RetryInv.init ha).entries

/-- **After completion no retransmission is pending**: once nothing is recorded for a memory (its requests were
notified with success or failure, or the link dropped) no packet of that memory will ever be transmitted again - so a
later write that covers the same range cannot be overwritten by a stale chunk. -/
theorem no_retransmission_pending_after_completion (resend : Bool) (evs : List Ev) (ha : RAdm resend ⟨St.init, []⟩ evs)
    (id : Nat) (hid : id < 256)
    (hr : dget? (rrun resend ⟨St.init, []⟩ evs).1.s.reads id = none)
    (hq : (rrun resend ⟨St.init, []⟩ evs).1.s.queue id = []) :
    ∀ e ∈ (rrun resend ⟨St.init, []⟩ evs).1.retry, e.2.head? ≠ some (UInt8.ofNat id) :=
  (rrun_inv resend evs RetryInv.init ha).none_for_idle hid hr hq

/-- **Every chunk's expected reply is matched by the answer the device sends for it**: the answer comes on the
channel of the request and starts with its five bytes `id, addr32`, so delivering it cancels exactly the entry that
was recorded for that chunk. -/
theorem device_answer_cancels_its_entry (d : Device) (f : UInt8) (c : Nat) (pkt : List UInt8) (rs : Retry)
    (p : Packet) (hp : p ∈ (devHandle d f c pkt).2) (h5 : 5 ≤ p.2.length) :
    (c, pkt) ∉ retryCancel (rs ++ [(c, pkt)]) p.1 p.2 := by
  obtain ⟨h1, h2⟩ := devHandle_echo d f c pkt p hp
  rw [h1]; exact answer_cancels_its_entry rs c pkt p.2 h5 h2

/-- a retransmission of the outstanding write chunk (legitimate: its acknowledgement has not arrived yet) does not
change the device memory beyond the first transmission and is acknowledged with success again -/
theorem retransmitted_write_is_idempotent {d : Device} {id a : Nat} {body : List UInt8} (h : (devWrite d id a body).2 = 0) :
    devWrite (devWrite d id a body).1 id a body = devWrite d id a body := devWrite_idem h

/-- necessity of matching on the address of THAT chunk: if the entry of the second chunk of a write carried the
pattern of the first (start address), its acknowledgement would not cancel it - the entry outlives the request -/
theorem wrong_pattern_outlives_request_counterexample :
    let entry : Nat × List UInt8 := (2, headBytes 1 30 ++ [9])           -- the packet of the chunk at address 30
    let recorded : Retry := [(2, headBytes 1 5 ++ [9])]                  -- ... recorded under the START address 5
    let ack : List UInt8 := headBytes 1 30 ++ [0]                         -- the device's answer for the chunk at 30
    retryCancel recorded 2 ack = recorded ∧ retryCancel [entry] 2 ack = [] := by decide

/-! ## Non-vacuity -/

/-- a 41-byte read at address 3 of memory 1 (45 bytes): three chunks, with duplicated replies on the way -/
example : Out.readOk 7 1 3 ((List.range 41).map fun i => UInt8.ofNat (i + 3)) ∈
    (runSys Variant.fixed (Sys.init [[], (List.range 45).map UInt8.ofNat] [])
      [.read 7 1 3 41, .deliver 0 true, .deliver 0 false, .deliver 0 true, .deliver 0 false, .deliver 0 false]).outs := by
  decide +kernel
example : ∀ a ∈ [Act.read 7 1 3 41, .deliver 0 true, .write 8 0 0 [1] false false, .drop], a.OkForRead 1 := by
  simp [Act.OkForRead, Ev.WF]

/-- a 51-byte write at address 5 (three chunks, one duplicated acknowledgement) with a second write queued behind it:
both notified once, in order; the memory holds the first data overwritten by the second -/
example : (runSys Variant.fixed (Sys.init [List.replicate 60 0] [])
      [.write 1 0 5 ((List.range 51).map fun i => UInt8.ofNat (i + 100)) false true, .write 2 0 10 [9, 9] false false,
       .deliver 0 true, .deliver 0 false, .deliver 0 false, .deliver 0 false, .deliver 0 false]).dev =
    [overwrite (overwrite (List.replicate 60 0) 5 ((List.range 51).map fun i => UInt8.ofNat (i + 100))) 10 [9, 9]] := by
  decide +kernel
example : notesW 0 (runSys Variant.fixed (Sys.init [List.replicate 60 0] [])
      [.write 1 0 5 ((List.range 51).map fun i => UInt8.ofNat (i + 100)) false true, .write 2 0 10 [9, 9] false false,
       .deliver 0 true, .deliver 0 false, .deliver 0 false, .deliver 0 false, .deliver 0 false]).outs =
    [(1, 5, true), (2, 10, true)] := by
  decide +kernel
example : ∀ a ∈ [Act.write 1 0 5 [1, 2] false true, .read 3 0 0 4, .deliver 0 true, .drop], a.OkForWrite := by
  simp [Act.OkForWrite, Act.WF, Ev.WF]

/-- an admissible history for the code before the repairs: a deck read with failure callback that fails on an error status,
a deck write with failure callback, a link drop, a further read -/
example : CAdm deckCurrent ⟨St.init, Deck.new 5⟩
    [.dread 800 300 0 4 1 true, .mem (.pkt 1 [5, 44, 1, 0, 0, 7]), .dwrite 800 300 0 [1] 2 true false,
     .mem .disconnect, .dread 800 300 0 4 3 true] := by decide
example : (crun deckCurrent ⟨St.init, Deck.new 5⟩
    [.dread 800 300 0 4 1 true, .mem (.pkt 1 [5, 44, 1, 0, 0, 7]), .dwrite 800 300 0 [1] 2 true false,
     .mem .disconnect, .dread 800 300 0 4 3 true]).2 = [.readFailed 1 0, .writeFailed 2 0] := by decide
/-- in the domain of the repaired code: requests without failure callbacks, overlapping requests, a disconnect -/
example : CDom ⟨St.init, Deck.new 5⟩
    [.query 800 1 true, .dread 800 300 0 4 2 false, .dwrite 800 300 0 [1] 3 false false, .mem .disconnect] := by decide

/-- an admissible history on a resending link: a 30-byte write (two chunks) acknowledged chunk by chunk, with a
duplicate of the first acknowledgement in between; afterwards nothing is pending -/
example : RAdm true ⟨St.init, []⟩ [.write 1 1 5 (List.replicate 30 7) false false, .pkt 2 [1, 5, 0, 0, 0, 0],
    .pkt 2 [1, 5, 0, 0, 0, 0], .pkt 2 [1, 30, 0, 0, 0, 0]] := by decide
example : (rrun true ⟨St.init, []⟩ [.write 1 1 5 (List.replicate 30 7) false false, .pkt 2 [1, 5, 0, 0, 0, 0]]).1.retry =
    [(2, headBytes 1 30 ++ List.replicate 5 7)] := by decide
example : (rrun true ⟨St.init, []⟩ [.write 1 1 5 (List.replicate 30 7) false false, .pkt 2 [1, 5, 0, 0, 0, 0],
    .pkt 2 [1, 5, 0, 0, 0, 0], .pkt 2 [1, 30, 0, 0, 0, 0]]).1.retry = [] := by decide

example : (run Variant.fixed St.init d9Witness).2 = [.send 2 [0, 0, 0, 0, 0, 0x2a], .writeOk 1 0 0] := by decide

/-! ## Round 4: `write()` / `read()` / `_write_new_chunk()` statement by statement, interleaved with the incoming thread

Model: `cexec` (the host), `cstepSys` (host ∥ device ∥ network).  The calling thread executes one statement per
`stepCall`; between any two statements the incoming thread may handle any packet in flight (`net (deliver ..)`) - in
particular the reply to a packet may be handled before `send_packet` has returned to its caller (synchronous link).
A delivery is impossible (`none`) exactly when the code makes the incoming thread wait: a write reply, or the link-lost
callback, while the caller holds `_write_requests_lock`. -/

/-- Tie A: the lock discipline and the statement order the concurrency model is built on:
`wreq.start()` inside the `with` block; `_handle_chan_write` takes the lock (a `with`) before it looks at the queue;
`_write_new_chunk` cuts the chunk, sends, and only then sets `_addr_add` / `_bytes_left`; `_request_new_chunk` packs
and sends and assigns nothing; `add_data` does all bookkeeping before requesting the next chunk; `read()` registers the
request before `start()`. -/
theorem gen_conc_discipline :
    ConcVariant.code = codeCV ∧ Gen.C06.handleLookupInsideLock = true ∧ Gen.C06.handleLockWith = true ∧
    Gen.C06.writeChunkOrder = ["self._data = self._data[new_len:]", "self.cf.send_packet(", "self._addr_add = len(data)",
      "self._bytes_left -= self._addr_add"] ∧
    Gen.C06.readChunkOrder = ["struct.pack(", "self.cf.send_packet("] ∧
    Gen.C06.addDataOrder = ["self.data += data", "self._bytes_left -= data_len", "self._current_addr += data_len",
      "self._request_new_chunk()"] ∧
    Gen.C06.memReadOrder = ["rreq = _ReadRequest(memory, addr, length, self.cf)", "self._read_requests[memory.id] = rreq",
      "rreq.start()", "return True"] := by decide

/-- **Every interleaving is an atomic history** (library level).  For every schedule of statements of `write()` /
`read()` calls and packet deliveries that the code allows, starting from any reachable state with no call in
progress: the outputs (packets sent, callbacks) are exactly those of the atomic model `run` on the history `l` of
linearisation points, the states agree as soon as no call is in progress, and `l` consists of the delivered packets
in order and of every issued request exactly once (those not yet at their linearisation point - `send_packet`, or
`return False` - are still to come).  Hence every theorem about atomic histories holds for every schedule. -/
theorem every_interleaving_is_atomic {s : St} (hs : s.Ok) (acts : List CAct) (hwf : ∀ x ∈ acts, x.WF)
    {c1 : CState} {o : List Out} {l : List Ev} (h : cexecAll ConcVariant.code ⟨s, none⟩ acts = some (c1, o, l)) :
    (∃ a1, run Variant.fixed s l = (a1, o) ∧ Sim c1 a1 ∧ (c1.call = none → c1.s = a1)) ∧
    l.filter (fun e => !e.isCall) = acts.flatMap CAct.delivered ∧
    l.filter Ev.isCall ++ c1.notYet = acts.flatMap CAct.issued := by
  rw [gen_conc_discipline.1] at h
  obtain ⟨a1, hr, hsim, _⟩ := cexecAll_sim (c := ⟨s, none⟩) (a := s) rfl hs hwf h
  obtain ⟨h1, h2⟩ := cexecAll_lin _ h
  refine ⟨⟨a1, hr, hsim, fun hc => ?_⟩, h2, by simpa [CState.notYet] using h1⟩
  unfold Sim at hsim; rw [hc] at hsim; exact hsim.symm

/-- **Every schedule of the closed system is an atomic history of the closed system**: device image, replies in
flight, pending faults and everything the library did are those of `runSys` on the linearisation `la`, which consists
of the network actions of the schedule in order and of the issued requests, each at most once. -/
theorem every_schedule_is_an_atomic_history (d : Device) (faults : List UInt8) (xs : List SAct)
    (hwf : ∀ x ∈ xs, x.WF) {y : CSys} {la : List Act}
    (h : crunSys ConcVariant.code (CSys.init d faults) xs = some (y, la)) :
    SimSys y (runSys Variant.fixed (Sys.init d faults) la) ∧
    la.filter (fun a => !a.isCall) = xs.flatMap SAct.netActs ∧
    la.filter Act.isCall ++ y.host.notYet.flatMap Ev.toAct = xs.flatMap SAct.issued := by
  rw [gen_conc_discipline.1] at h
  have h0 : SimSys (CSys.init d faults) (Sys.init d faults) := ⟨rfl, St.init_ok, rfl, rfl, rfl, rfl⟩
  obtain ⟨h1, h2⟩ := crunSys_lin _ h
  exact ⟨crunSys_sim h0 hwf h, h2, by simpa [CSys.init, CState.notYet] using h1⟩

/-- schedules allowed by `write_exact_every_schedule`: well-formed requests, nothing forged -/
def SAct.OkForWrite : SAct → Prop
  | .net (.deliver _ _) => True
  | .net .drop => True
  | .net _ => False
  | x => x.WF

/-- schedules allowed by `read_exact_every_schedule` for memory `id` -/
def SAct.OkForRead (id : Nat) : SAct → Prop
  | .begin t i a d f p => (Ev.write t i a d f p).WF ∧ i ≠ id
  | .net (.deliver _ _) => True
  | .net .drop => True
  | .net _ => False
  | x => x.WF

/-- **write_exact for every schedule**: whatever the interleaving of the statements of `write()` /
`_write_new_chunk()` with the handling of replies - the reply to a chunk handled before `send_packet` returned
included - the device memory is exactly what the started writes say, in order, and nothing else (`write_exact`). -/
theorem write_exact_every_schedule (d : Device) (faults : List UInt8) (xs : List SAct) (id : Nat) (hid : id < 256)
    (m0 : Image) (hd : d[id]? = some m0) (hxs : ∀ x ∈ xs, x.OkForWrite) {y : CSys} {la : List Act}
    (h : crunSys ConcVariant.code (CSys.init d faults) xs = some (y, la)) :
    ∃ S : List Entry,
      S.map Entry.note = notesW id y.outs ++
        (((runSys Variant.fixed (Sys.init d faults) la).host.queue id).take 1).map (fun w => (w.tag, w.addr, false)) ∧
      (∀ e ∈ S, (∃ f p, SAct.begin e.tag id e.addr e.data f p ∈ xs) ∧ e.kb ≤ e.data.length ∧
        (e.ok = true → e.kb = e.data.length)) ∧
      y.dev[id]? = some (applyEntries m0 S) := by
  have hwf : ∀ x ∈ xs, x.WF := by
    intro x hx
    have := hxs x hx
    cases x with
    | net a => trivial
    | begin _ _ _ _ _ _ => exact this
    | beginRead _ _ _ _ => exact this
    | stepCall => trivial
  obtain ⟨hsim, _, _⟩ := every_schedule_is_an_atomic_history d faults xs hwf h
  have hmem := fun a (ha : a ∈ la) => crunSys_mem _ h ha
  have hacts : ∀ a ∈ la, a.OkForWrite := by
    intro a ha
    rcases hmem a ha with ⟨x, hx, hax⟩ | ⟨x, hx, hax⟩
    · have := hxs x hx
      cases x <;> simp only [SAct.issued, List.mem_singleton, List.not_mem_nil] at hax
      · subst hax; exact this
      · subst hax; exact this
    · have := hxs x hx
      cases x <;> simp only [SAct.netActs, List.mem_singleton, List.not_mem_nil] at hax
      subst hax
      cases a <;> first | exact this | trivial
  obtain ⟨S, hS, hE, hD⟩ := write_exact d faults la id hid m0 hd hacts
  refine ⟨S, by rw [hsim.outs]; exact hS, fun e he => ?_, by rw [hsim.dev]; exact hD⟩
  obtain ⟨⟨f, p, hin⟩, h2, h3⟩ := hE e he
  refine ⟨?_, h2, h3⟩
  rcases hmem _ hin with ⟨x, hx, hax⟩ | ⟨x, hx, hax⟩
  · cases x <;> simp only [SAct.issued, List.mem_singleton, List.not_mem_nil] at hax
    · cases hax; exact ⟨f, p, hx⟩
    · cases hax
  · have := hxs x hx
    cases x <;> simp only [SAct.netActs, List.mem_singleton, List.not_mem_nil] at hax
    subst hax
    exact absurd this (by simp [SAct.OkForWrite])

/-- **read_exact for every schedule**: every successful read returns exactly the bytes the device holds, whatever the
interleaving of the statements of `read()` / `write()` with the handling of replies. -/
theorem read_exact_every_schedule (d : Device) (faults : List UInt8) (xs : List SAct) (id : Nat) (hid : id < 256)
    (hxs : ∀ x ∈ xs, x.OkForRead id) {y : CSys} {la : List Act}
    (h : crunSys ConcVariant.code (CSys.init d faults) xs = some (y, la))
    (tag addr : Nat) (data : List UInt8) (hout : Out.readOk tag id addr data ∈ y.outs) :
    ∃ len m, SAct.beginRead tag id addr len ∈ xs ∧ d[id]? = some m ∧ data = slice m addr len ∧ addr + len ≤ m.length := by
  have hwf : ∀ x ∈ xs, x.WF := by
    intro x hx
    have := hxs x hx
    cases x with
    | net a => trivial
    | begin _ _ _ _ _ _ => exact this.1
    | beginRead _ _ _ _ => exact this
    | stepCall => trivial
  obtain ⟨hsim, _, _⟩ := every_schedule_is_an_atomic_history d faults xs hwf h
  have hmem := fun a (ha : a ∈ la) => crunSys_mem _ h ha
  have hacts : ∀ a ∈ la, a.OkForRead id := by
    intro a ha
    rcases hmem a ha with ⟨x, hx, hax⟩ | ⟨x, hx, hax⟩
    · have := hxs x hx
      cases x <;> simp only [SAct.issued, List.mem_singleton, List.not_mem_nil] at hax
      · subst hax; exact this
      · subst hax; exact this
    · have := hxs x hx
      cases x <;> simp only [SAct.netActs, List.mem_singleton, List.not_mem_nil] at hax
      subst hax
      cases a <;> first | exact this | trivial
  rw [hsim.outs] at hout
  obtain ⟨len, m, hin, h2, h3, h4⟩ := read_exact d faults la id hid hacts tag addr data hout
  refine ⟨len, m, ?_, h2, h3, h4⟩
  rcases hmem _ hin with ⟨x, hx, hax⟩ | ⟨x, hx, hax⟩
  · cases x <;> simp only [SAct.issued, List.mem_singleton, List.not_mem_nil] at hax
    · cases hax
    · cases hax; exact hx
  · have := hxs x hx
    cases x <;> simp only [SAct.netActs, List.mem_singleton, List.not_mem_nil] at hax
    subst hax
    exact absurd this (by simp [SAct.OkForRead])

/-- a 26-byte write (two chunks) whose first acknowledgement arrives before `_write_new_chunk` has done its
bookkeeping (`begin`, enqueue, prepare, send, DELIVER, book, release, deliver) -/
def syncAckSchedule : List SAct :=
  [.begin 7 0 0 ((List.range 26).map fun i => UInt8.ofNat (i + 1)) false false, .stepCall, .stepCall, .stepCall,
   .net (.deliver 0 false), .stepCall, .stepCall, .net (.deliver 0 false)]

/-- **The lock across `start()` is what the exactness rests on**: with `wreq.start()` AFTER the `with` block
(`ConcVariant ⟨false⟩`) the acknowledgement of the first chunk can be handled between `send_packet` and the
bookkeeping of `_write_new_chunk`; `write_done` then advances by the stale `_addr_add = 0`: the second chunk is written
over the first (byte 0 is 26), the tail is never written, yet the write is notified as successful. -/
theorem start_outside_lock_counterexample :
    (crunSys ⟨false⟩ (CSys.init [List.replicate 30 0] []) syncAckSchedule).map (fun r => (r.1.dev, r.1.outs.getLast?)) =
      some ([[26, 2, 3, 4, 5, 6, 7, 8, 9, 10, 11, 12, 13, 14, 15, 16, 17, 18, 19, 20, 21, 22, 23, 24, 25, 0, 0, 0, 0, 0]],
        some (.writeOk 7 0 0)) := by
  decide +kernel

/-- the code does not allow that schedule: the incoming thread waits for the lock -/
theorem code_blocks_early_ack : crunSys ConcVariant.code (CSys.init [List.replicate 30 0] []) syncAckSchedule = none := by
  decide +kernel

/-- non-vacuity: the synchronous link under the code - the acknowledgement is handled as soon as the lock is free -
writes all 26 bytes; and a read reply handled while `write()` holds the lock (between "prepare" and "send") -/
example : (crunSys ConcVariant.code (CSys.init [List.replicate 30 0] [])
    [.begin 7 0 0 ((List.range 26).map fun i => UInt8.ofNat (i + 1)) false false, .stepCall, .stepCall, .stepCall,
     .stepCall, .stepCall, .net (.deliver 0 false), .net (.deliver 0 false)]).map (fun r => (r.1.dev, r.1.outs.getLast?)) =
    some ([[1, 2, 3, 4, 5, 6, 7, 8, 9, 10, 11, 12, 13, 14, 15, 16, 17, 18, 19, 20, 21, 22, 23, 24, 25, 26, 0, 0, 0, 0]],
      some (.writeOk 7 0 0)) := by
  decide +kernel
example : (crunSys ConcVariant.code (CSys.init [List.replicate 30 9] [])
    [.beginRead 3 0 2 25, .stepCall, .stepCall, .stepCall, .begin 7 0 0 [1, 2] false false, .stepCall, .stepCall,
     .net (.deliver 0 false), .stepCall, .stepCall, .stepCall, .net (.deliver 0 false)]).map (fun r => r.1.outs.getLast?) =
    some (some (.readOk 3 0 2 (List.replicate 25 9))) := by
  decide +kernel

/-! ## Round 5: what the SUBSCRIBERS of the notification Callers observe

"Exactly one success or failure notification" is about the subscribers of `mem_read_cb` / `mem_read_failed_cb` /
`mem_write_cb` / `mem_write_failed_cb`; subscribers may subscribe / unsubscribe (themselves, others) from inside a
notification.  Model: `callerCall` / `fstep` / `frun` (`Caller.add_callback` / `remove_callback` are C07's `callerAdd` /
`callerRemove`). -/

/-- Tie A: `Caller.call` iterates over a copy of the callback list and calls each callback once; `add_callback` does not
register duplicates; `remove_callback` is `list.remove`; `Memory` notifies through these Callers and `_clear_state()`
replaces them. -/
theorem gen_caller_call :
    CallerVariant.code = CallerVariant.fixed ∧ Gen.C06.callerCallLoopBody = ["cb(*args)"] ∧
    Gen.C06.callerCallArgs = "self, *args" ∧
    Gen.C06.callerAddBody = ["if (cb in self.callbacks) is False:\n    self.callbacks.append(cb)"] ∧
    Gen.C06.callerRemoveBody = ["self.callbacks.remove(cb)"] ∧ Gen.C06.callerInitBody = ["self.callbacks = []"] ∧
    Gen.C06.memNotifyCalls = ["self.mem_added_cb.call", "self.mem_read_cb.call", "self.mem_read_failed_cb.call",
      "self.mem_write_cb.call", "self.mem_write_failed_cb.call"] ∧
    Gen.C06.clearStateCallers = ["self.mem_added_cb = Caller()", "self.mem_read_cb = Caller()",
      "self.mem_read_failed_cb = Caller()", "self.mem_write_cb = Caller()", "self.mem_write_failed_cb = Caller()"] := by
  decide

/-- **Every subscriber registered when a notification is issued is told exactly once** - in registration order, nobody
else, for EVERY behaviour of the subscribers inside the notification (unsubscribing themselves - one-shot listeners -,
unsubscribing others, subscribing others, depending on everything told so far). -/
theorem every_registered_subscriber_is_told_exactly_once (beh : SBeh) (o : Out) (k : NKind) (hk : o.kind? = some k)
    (f : Fan) (hn : f.subs.Nodup) :
    (callerCall CallerVariant.code beh o f).told = f.told ++ (f.subs.get k).map (fun c => (c, o)) ∧
    ∀ c, ((f.subs.get k).map (fun c => (c, o))).count (c, o) = if c ∈ f.subs.get k then 1 else 0 := by
  rw [gen_caller_call.1]
  exact ⟨(callerCall_copy beh o k hk f).1, fun c => count_map_pair (hn k) c o⟩

/-- **... over all histories**: whatever requests, packets, link losses and (un)subscriptions happen and whatever the
subscribers do, the log of who was told what equals the log of who was registered when each notification was issued
(`due`), no subscriber is registered twice, and the library itself (state, packets, notifications) behaves as in the
model without subscribers - so every theorem about the notifications of a request (`reads_exactly_once`,
`writes_once_in_order`, `write_notified_queued_or_superseded`, ...) is a theorem about what each registered subscriber
is told. -/
theorem subscribers_are_told_what_is_due (beh : SBeh) (evs : List FEv) :
    (frun CallerVariant.code beh FSt.init evs).1.f.told = (frun CallerVariant.code beh FSt.init evs).1.f.due ∧
    (frun CallerVariant.code beh FSt.init evs).1.f.subs.Nodup ∧
    ((frun CallerVariant.code beh FSt.init evs).1.s, (frun CallerVariant.code beh FSt.init evs).2) =
      run Variant.fixed St.init (evs.filterMap fun | .mem e => some e | .sub _ => none) := by
  rw [gen_caller_call.1]
  have h := frun_ok beh (x := FSt.init) ⟨rfl, Subs.none_nodup⟩ evs
  exact ⟨h.1, h.2, frun_mem _ beh FSt.init evs⟩

/-- a listener that unsubscribes itself when told (one-shot), registered ahead of another listener -/
def oneShotFirst : SBeh := fun _ c o =>
  if c = 1 then (match o.kind? with | some k => [.remove k 1] | none => []) else []

/-- **The copy is what this rests on**: with `Caller.call` iterating over the live list, the listener registered right
after a one-shot listener misses the notification (it is due, it is not told). -/
theorem live_iteration_skips_the_next_subscriber :
    (callerCall { copies := false } oneShotFirst (.readOk 7 0 0 []) ⟨⟨[1, 2], [], [], []⟩, [], []⟩).told =
      [(1, .readOk 7 0 0 [])] ∧
    (callerCall { copies := false } oneShotFirst (.readOk 7 0 0 []) ⟨⟨[1, 2], [], [], []⟩, [], []⟩).due =
      [(1, .readOk 7 0 0 []), (2, .readOk 7 0 0 [])] := by
  decide

/-- the same situation with the code: both are told; the one-shot listener is gone afterwards -/
example : (callerCall CallerVariant.code oneShotFirst (.readOk 7 0 0 []) ⟨⟨[1, 2], [], [], []⟩, [], []⟩).told =
      [(1, .readOk 7 0 0 []), (2, .readOk 7 0 0 [])] ∧
    (callerCall CallerVariant.code oneShotFirst (.readOk 7 0 0 []) ⟨⟨[1, 2], [], [], []⟩, [], []⟩).subs.rOk = [2] := by
  decide
/-- a history: two listeners, the first one-shot; a read of 3 bytes completes; a second read completes -/
example : (frun CallerVariant.code oneShotFirst FSt.init
    [.sub (.add .rOk 1), .sub (.add .rOk 2), .mem (.read 7 0 0 3), .mem (.pkt 1 [0, 0, 0, 0, 0, 0, 9, 9, 9]),
     .mem (.read 8 0 0 1), .mem (.pkt 1 [0, 0, 0, 0, 0, 0, 5])]).1.f.told =
    [(1, .readOk 7 0 0 [9, 9, 9]), (2, .readOk 7 0 0 [9, 9, 9]), (2, .readOk 8 0 0 [5])] := by
  decide

/-! ## Round 7: who owns the data of a write (the caller refills the buffer it passed to `write()`)

"The device memory equals the written data" means the data AT THE TIME OF THE CALL.  Model: `refillSt` / `arun`
(`AEv.refill tag data`: the application overwrites in place, same length, the buffer of `write(tag ..)`). -/

/-- Tie A: the constructor keeps a COPY of the caller's object (`self._data = data[:]`, the repair of D65); every other use of `self._data`:
`_write_new_chunk` measures it, takes a slice as the chunk and REPLACES it by a fresh slice of the rest; `write_done`
tests its length. -/
theorem gen_write_data_ownership :
    AliasVariant.code = ⟨true⟩ ∧
    Gen.C06.writeDataUses = ["new_len = len(self._data)", "data = self._data[:new_len]", "self._data = self._data[new_len:]",
      "len(self._data) > 0"] := by decide

theorem dget?_map_snd {α : Type} (f : α → α) (l : List (Nat × α)) (k : Nat) :
    dget? (l.map fun e => (e.1, f e.2)) k = (dget? l k).map f := by
  induction l with
  | nil => rfl
  | cons e es ih => by_cases h : e.1 == k <;> simp [dget?, h, ih]

/-- **A request that has been started owns its data**: a refill changes neither the read records nor the lock, and in
every queue only the data of WAITING requests that were given that buffer - the head of every queue (the request in
progress: its remaining chunks are what was passed to `write()`), all addresses, lengths, tags and the order are
untouched; with no waiting request of that tag nothing changes at all.  So for every write that starts at once
(`write()` on an empty queue) all exactness theorems hold whatever the caller does to its buffer afterwards. -/
theorem refill_cannot_touch_started_requests (av : AliasVariant) (s : St) (tag : Nat) (data : List UInt8) :
    (refillSt av s tag data).reads = s.reads ∧ (refillSt av s tag data).lock = s.lock ∧
    (∀ id, ((refillSt av s tag data).queue id).head? = (s.queue id).head? ∧
      ((refillSt av s tag data).queue id).map (fun w => (w.tag, w.addr, w.rest.length, w.left)) =
        (s.queue id).map (fun w => (w.tag, w.addr, w.rest.length, w.left))) ∧
    ((∀ e ∈ s.writes, ∀ w ∈ e.2.tail, w.tag ≠ tag) → refillSt av s tag data = s) := by
  unfold refillSt
  cases av.ctorCopies with
  | true => simp
  | false =>
    simp only [Bool.false_eq_true, ↓reduceIte]
    refine ⟨trivial, trivial, fun id => ?_, fun h => ?_⟩
    · simp only [St.queue_def, dget?_map_snd]
      cases dget? s.writes id with
      | none => simp
      | some q =>
        cases q with
        | nil => simp [refillQueue]
        | cons hd tl =>
          simp only [Option.map_some, Option.getD_some, refillQueue, List.head?_cons, List.map_cons, List.map_map, true_and,
            List.cons.injEq]
          apply List.map_congr_left
          intro w _
          simp only [Function.comp]
          split
          · rename_i hw; simp [hw.2]
          · rfl
    · have : (s.writes.map fun e => (e.1, refillQueue tag data e.2)) = s.writes := by
        conv => rhs; rw [← List.map_id s.writes]
        apply List.map_congr_left
        intro e he
        have h1 := h e he
        cases hq : e.2 with
        | nil => simp [refillQueue, ← hq]
        | cons hd tl =>
          rw [hq] at h1
          have : (tl.map fun w => if w.tag = tag ∧ w.rest.length = data.length then { w with rest := data } else w) = tl := by
            conv => rhs; rw [← List.map_id tl]
            apply List.map_congr_left
            intro w hw
            have := h1 w (by simpa using hw)
            simp [this]
          simp only [refillQueue, this, id]
          rw [← hq]
      cases s; simp_all

/-- **With a constructor that copies, refills are invisible**: the run is the run of the `Memory` events alone. -/
theorem copying_constructor_ignores_refills (s : St) (es : List AEv) :
    arun ⟨true⟩ s es = run Variant.fixed s (es.filterMap fun | .mem e => some e | .refill _ _ => none) := by
  induction es generalizing s with
  | nil => rfl
  | cons e es ih =>
    cases e with
    | refill t d => simp only [arun, refillSt, ↓reduceIte, List.filterMap_cons]; exact ih s
    | mem ev => simp only [arun, List.filterMap_cons, run_cons, ih]

/-- **The data of a write are the data at the time of the call**: for the code (copying constructor), whatever the
caller does to its buffers at whatever point, the run is the run of the `Memory` events alone - so every exactness
theorem holds with refills anywhere in the history. -/
theorem refills_are_invisible (s : St) (es : List AEv) :
    arun AliasVariant.code s es = run Variant.fixed s (es.filterMap fun | .mem e => some e | .refill _ _ => none) := by
  rw [gen_write_data_ownership.1]
  exact copying_constructor_ignores_refills s es

/-- **The code before the repair of D65** (`self._data = data`): a write queued behind another one still refers to the
caller's buffer; refilled before it is started, the device is sent the NEW content (`9 9` instead of the `7 7` passed to
`write`). -/
theorem queued_write_aliases_caller_buffer_counterexample :
    (arun ⟨false⟩ St.init [.mem (.write 1 0 0 [1] false false), .mem (.write 2 0 4 [7, 7] false false),
      .refill 2 [9, 9], .mem (.pkt 2 [0, 0, 0, 0, 0, 0])]).2 =
    [.send 2 [0, 0, 0, 0, 0, 1], .send 2 [0, 4, 0, 0, 0, 9, 9], .writeOk 1 0 0] := by decide

/-- a write that started at once: the refill after `write()` returned does not reach the second chunk -/
example : (arun AliasVariant.code St.init [.mem (.write 1 0 0 (List.replicate 26 7) false false),
      .refill 1 (List.replicate 26 9), .mem (.pkt 2 [0, 0, 0, 0, 0, 0])]).2.getLast? =
    some (.send 2 [0, 25, 0, 0, 0, 7]) := by decide

/-- the same history with the code: the queued write sends what was passed to `write` -/
example : (arun AliasVariant.code St.init [.mem (.write 1 0 0 [1] false false), .mem (.write 2 0 4 [7, 7] false false),
      .refill 2 [9, 9], .mem (.pkt 2 [0, 0, 0, 0, 0, 0])]).2 =
    [.send 2 [0, 0, 0, 0, 0, 1], .send 2 [0, 4, 0, 0, 0, 7, 7], .writeOk 1 0 0] := by decide

end CfVerif.C06

/-
Props/C07 — property theorems for C07 (received packets reach exactly the matching callbacks, once, in order).
Helper lemmas are in Proofs/C07.  Every theorem is about Model/C07, whose match condition, header
expressions, iteration disciplines and constants are regenerated from /repo (Gen/C07).
-/
import CfVerif.Proofs.C07
namespace CfVerif.C07

/-! ## Gen obligations: what the hand-written model assumes about the current source -/

/-- the dispatch loop and `remove_header_callback` iterate over a copy of `self.cb` (fix D7) -/
theorem gen_dispatch_snapshot : Gen.C07.dispatchSnapshot = true := by decide
theorem gen_remove_snapshot : Gen.C07.removeSnapshot = true := by decide
/-- the port callback is invoked inside `try: ... except Exception:` whose handler does not leave the loop -/
theorem gen_dispatch_catches : Gen.C07.dispatchCatches = true ∧ Gen.C07.dispatchNoEarlyExit = true := by decide

theorem code_is_fixed : Variant.code = Variant.fixed := by
  simp [Variant.code, Variant.fixed, gen_dispatch_snapshot, gen_remove_snapshot]

/-! ## The property -/

/-- Whatever the callbacks do while the packet is being dispatched, the callbacks invoked for a packet are
exactly the registrations matching its header that were registered when the dispatch started, each once,
in registration order. -/
theorem dispatch_calls (beh : Beh) (hdr : Nat) (st : St) :
    callsOf (dispatch Variant.code beh hdr st).trace = callsOf st.trace ++ st.regs.filter (·.matches hdr) := by
  rw [code_is_fixed]
  exact dispatchSnap_calls Variant.fixed beh hdr st.regs st

/-! ## The code before the fix (D7) -/

def regA : Reg := portReg 9 1
def regB : Reg := portReg 9 2
def regC : Reg := portReg 9 3
/-- callback 1 unregisters itself when called -/
def behSelfRemove : Beh := fun tr => if tr.getLast? = some (.call regA) then [.remove regA] else []

/-- with the live-list iteration `[A, B, C]`, `A` removing itself, delivers to `A` and `C` only -/
theorem live_dispatch_skips :
    callsOf (dispatch Variant.original behSelfRemove 0x90 { St.init with regs := [regA, regB, regC] }).trace
      = [regA, regC] := by decide

end CfVerif.C07

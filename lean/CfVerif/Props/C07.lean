/-
Props/C07 — property theorems for C07 (received packets reach exactly the matching callbacks, once, in order).

The statements are about `Model/C07` run in the variant `Variant.code`, i.e. with the iteration disciplines
that Tie A extracted from the current source (Gen/C07); the specification vocabulary (`specMatches`,
`SpecHolds`, `expectedDeliveries`, `AllPacketCallbacksQuiet`) is in `Spec/C07`, helper lemmas in `Proofs/C07`.
`beh : Beh` is the behaviour of ALL callbacks: an arbitrary function from the history of the run to the list
of actions (register / unregister / raise) the callback being invoked performs, so every theorem below holds
for all scripts, all positions of raising callbacks and all stateful callbacks.
-/
import CfVerif.Proofs.C07
namespace CfVerif.C07

/-! ## Gen obligations: what the hand-written model assumes about the current source -/

/-- the dispatch loop of `run` iterates over a copy of `self.cb` (fix D7) -/
theorem gen_dispatch_snapshot : Gen.C07.dispatchSnapshot = true := by decide
/-- `remove_header_callback` iterates over a copy of `self.cb` while removing (fix D7) -/
theorem gen_remove_snapshot : Gen.C07.removeSnapshot = true := by decide
/-- the port callback is invoked inside `try: ... except Exception:`; neither handler nor loop body leaves the loop -/
theorem gen_dispatch_catches : Gen.C07.dispatchCatches = true ∧ Gen.C07.dispatchNoEarlyExit = true := by decide
/-- `run` is `while True:`; the all-packet callbacks run first, unguarded, through `Caller.call`, which
iterates over a copy and has no exception handling of its own -/
theorem gen_run_shape : Gen.C07.runLoopCond = "True" ∧ Gen.C07.allBeforePort = true ∧
    Gen.C07.allCallGuarded = false ∧ Gen.C07.callerCallSnapshot = true ∧ Gen.C07.callerCallCatches = false ∧
    Gen.C07.callerCallBody = "cb(*args)" := by decide
/-- `Reg`'s fields are the namedtuple's fields, filled from the like-named parameters -/
theorem gen_container : Gen.C07.containerInit =
    ["port=port", "port_mask=port_mask", "channel=channel", "channel_mask=channel_mask", "callback=cb"] := by decide
/-- `Reg.same`: removal compares all five fields with `==` and removes with `list.remove` -/
theorem gen_remove_compares : Gen.C07.removeCompares =
    ["callback==cb", "channel==channel", "channel_mask==channel_mask", "port==port", "port_mask==port_mask"] ∧
    Gen.C07.removeBody = "self.cb.remove(x)" := by decide
/-- positional parameter order assumed by `headerReg` / `portReg` and by the harness -/
theorem gen_params : Gen.C07.addHeaderParams = ["cb", "port", "channel", "port_mask", "channel_mask"] ∧
    Gen.C07.removeHeaderParams = Gen.C07.addHeaderParams ∧
    Gen.C07.addPortParams = ["port", "cb"] ∧ Gen.C07.removePortParams = ["port", "cb"] ∧
    Gen.C07.addPortPass = ["cb=cb", "port=port"] ∧ Gen.C07.removePortPass = ["cb=cb", "port=port"] := by decide
/-- the public `Crazyflie.add_/remove_..._callback` methods pass their arguments through unchanged -/
theorem gen_wrappers :
    Gen.C07.cfAddPortCallback = ["cb=cb", "port=port", "params:port,cb"] ∧
    Gen.C07.cfRemovePortCallback = Gen.C07.cfAddPortCallback ∧
    Gen.C07.cfAddHeaderCallback = ["cb=cb", "channel=channel", "channel_mask=channel_mask", "port=port",
      "port_mask=port_mask", "default:channel_mask=255", "default:port_mask=255",
      "params:cb,port,channel,port_mask,channel_mask"] ∧
    Gen.C07.cfRemoveHeaderCallback = Gen.C07.cfAddHeaderCallback := by decide
/-- the wrapper defaults equal the handler's defaults, for add and for remove -/
theorem gen_defaults : Gen.C07.defaultPortMask = 255 ∧ Gen.C07.defaultChanMask = 255 ∧
    Gen.C07.removeDefaultPortMask = Gen.C07.defaultPortMask ∧
    Gen.C07.removeDefaultChanMask = Gen.C07.defaultChanMask := by decide
/-- `pk.port` / `pk.channel` read the fields computed from the header in the constructor -/
theorem gen_getters : Gen.C07.portGetter = "self._port" ∧ Gen.C07.channelGetter = "self._channel" := by decide
/-- `Caller.add_callback` / `remove_callback` as modelled by `callerAdd` / `callerRemove` -/
theorem gen_caller : Gen.C07.callerAddCond = "(cb in self.callbacks) is False" ∧
    Gen.C07.callerAddBody = "self.callbacks.append(cb)" ∧
    Gen.C07.callerRemoveBody = ["self.callbacks.remove(cb)"] := by decide

/-- no received packet object is skipped by the "no packet" test of `run`: the test is `pk is None`, or
`CRTPPacket` objects are always truthy (no `__len__`/`__bool__`).  Either alone suffices; a truthiness test
together with `__len__` = payload size would drop header-only packets. -/
theorem gen_every_packet_dispatched :
    (Gen.C07.recvSkipIsNone || !Gen.C07.packetTruthyByLen) = true := by decide

/-- the match condition of the dispatch loop uses port and channel read from the packet once, before any
callback was given the packet object (fix D71) -/
theorem gen_match_captured : Gen.C07.matchCapturedHeader = true := by decide

theorem code_is_fixed : Variant.code = Variant.fixed := by
  simp [Variant.code, Variant.fixed, gen_dispatch_snapshot, gen_remove_snapshot, gen_match_captured]

/-! ## 0. Every packet object handed out by the link is dispatched -/

/-- No packet is dropped between `receive_packet` and the callbacks, whatever its header and payload length
(0 = header-only, ..., 30). -/
theorem no_packet_skipped (p : Pkt) : p.skipped = false := by
  have h := gen_every_packet_dispatched
  unfold Pkt.skipped Pkt.truthy
  cases h1 : Gen.C07.recvSkipIsNone <;> cases h2 : Gen.C07.packetTruthyByLen <;> simp_all

/-- ... so one iteration of `run` on a packet object is the dispatch of its header. -/
theorem receive_is_dispatch (beh : Beh) (st : St) (p : Pkt) :
    receive Variant.code beh st p = handlePacket Variant.code beh st p.hdr :=
  receive_eq Variant.code beh st p (no_packet_skipped p)

/-! ## 1. Matching: all 256 header bytes, all patterns and masks -/

/-- A registration matches a header byte iff its port equals the header's port nibble under the port mask
and its channel equals the header's two channel bits under the channel mask. -/
theorem match_iff (r : Reg) (hdr : Nat) (hh : hdr < 256) :
    r.matches hdr = true ↔ r.port = (hdr / 16) &&& r.portMask ∧ r.chan = (hdr % 4) &&& r.chanMask := by
  rw [matches_eq_spec r hh]; simp [specMatches]

/-- The same bit by bit: on every bit the pattern equals the packet's bit where the mask is set and is 0
where it is clear (so bits outside the mask never match a non-zero pattern bit). -/
theorem match_bits (r : Reg) (hdr : Nat) (hh : hdr < 256) :
    r.matches hdr = true ↔
      (∀ i, r.port.testBit i = ((hdr / 16).testBit i && r.portMask.testBit i)) ∧
      (∀ i, r.chan.testBit i = ((hdr % 4).testBit i && r.chanMask.testBit i)) := by
  rw [match_iff r hdr hh]
  constructor
  · rintro ⟨h1, h2⟩
    exact ⟨fun i => by rw [h1, Nat.testBit_and], fun i => by rw [h2, Nat.testBit_and]⟩
  · rintro ⟨h1, h2⟩
    exact ⟨Nat.eq_of_testBit_eq fun i => by rw [h1 i, Nat.testBit_and],
           Nat.eq_of_testBit_eq fun i => by rw [h2 i, Nat.testBit_and]⟩

theorem nibble_and_255 : ∀ h : Fin 256, (h.val / 16) &&& 255 = h.val / 16 := by decide +kernel

/-- A port callback (`add_port_callback(port, cb)`) gets exactly the packets of that port, on every channel. -/
theorem port_callback_matches_iff (port cb hdr : Nat) (hh : hdr < 256) :
    (portReg port cb).matches hdr = true ↔ hdr / 16 = port := by
  rw [match_iff _ _ hh]
  have := nibble_and_255 ⟨hdr, hh⟩
  simp only at this
  simp only [portReg, headerReg, Gen.C07.addPortPortMask, Gen.C07.addPortChannel, Gen.C07.addPortChanMask,
    this, Nat.and_zero, and_true]
  exact eq_comm

/-- `remove_port_callback` / default-mask `remove_header_callback` look for exactly what the corresponding add
registered. -/
theorem remove_pattern_is_add_pattern (port cb chan : Nat) :
    portRegRemove port cb = portReg port cb ∧ headerRegRemove cb port chan = headerReg cb port chan := by
  constructor <;> rfl

/-! ## 2. One packet: exactly once, to exactly the matching registrations, in order -/

/-- Whatever the callbacks do while the packet is being dispatched (register, unregister - themselves
included -, raise), the port callbacks invoked for it are exactly the registrations that were registered
when its dispatch started and match its header, each once, in registration order. -/
theorem dispatch_calls (beh : Beh) (hdr : Nat) (hh : hdr < 256) (st : St) :
    callsOf (newEvents st (dispatch Variant.code beh hdr st)) = st.regs.filter (specMatches · hdr) := by
  rw [code_is_fixed]
  simp only [dispatch, Variant.fixed, if_true]
  obtain ⟨ext, hext⟩ := dispatchSnap_ext Variant.fixed beh hdr st.regs st
  have hc := dispatchSnap_calls Variant.fixed beh hdr st.regs st
  simp only [Variant.fixed] at hext hc
  rw [newEvents_of_ext hext, ← filter_matches_eq_spec _ hh]
  rw [hext, callsOf, List.filterMap_append] at hc
  exact List.append_cancel_left hc

/-- The dispatch specification of DESIGN Appendix A, for all sets of distinct registrations, all scripts,
all 256 headers. -/
theorem dispatch_exactly_once (regs : List Reg) (hnd : regs.Nodup) (beh : Beh) (hdr : Nat) (hh : hdr < 256)
    (st : St) (hregs : st.regs = regs) :
    SpecHolds regs hdr (newEvents st (dispatch Variant.code beh hdr st)) :=
  spec_of_calls hnd (hregs ▸ dispatch_calls beh hdr hh st)

/-- A registration that is not in the registry when the dispatch starts is not called for that packet. -/
theorem not_registered_not_called (beh : Beh) (hdr : Nat) (hh : hdr < 256) (st : St) (r : Reg)
    (hr : r ∉ st.regs) : r ∉ callsOf (newEvents st (dispatch Variant.code beh hdr st)) := by
  rw [dispatch_calls beh hdr hh st]
  exact fun h => hr (List.mem_filter.mp h).1

/-! ## 3. A raising port callback is isolated -/

/-- Which callbacks receive the packet does not depend on what any callback does - in particular not on
whether, where, or how many of them raise: two arbitrary behaviours give the same calls.  And the dispatcher
survives the dispatch whatever the port callbacks do. -/
theorem raise_isolated (beh beh' : Beh) (hdr : Nat) (hh : hdr < 256) (st : St) :
    callsOf (newEvents st (dispatch Variant.code beh hdr st))
      = callsOf (newEvents st (dispatch Variant.code beh' hdr st)) ∧
    (dispatch Variant.code beh hdr st).dead = st.dead := by
  refine ⟨by rw [dispatch_calls beh hdr hh, dispatch_calls beh' hdr hh], ?_⟩
  rw [code_is_fixed]
  exact dispatchSnap_dead Variant.fixed beh hdr st.regs st

/-- ... nor stops processing of later packets: as long as no *all-packet* callback raises (those are
called outside the try/except, see docs), every packet of the sequence is taken from the link and
dispatched, in arrival order, and the thread is alive afterwards - for arbitrary port-callback behaviour. -/
theorem later_packets_processed (beh : Beh) (hq : AllPacketCallbacksQuiet beh) (st : St)
    (halive : st.dead = false) (pkts : List Pkt) :
    (runPkts Variant.code beh st pkts).dead = false ∧
    pktsOf (runPkts Variant.code beh st pkts).trace = pktsOf st.trace ++ pkts.map (·.hdr) := by
  rw [runPkts_eq_run Variant.code beh no_packet_skipped]
  exact run_processes_all Variant.code gen_dispatch_snapshot gen_match_captured beh hq _ st halive

/-! ## 4. Removing a registration stops deliveries for that registration only -/

/-- `remove_header_callback` never raises, removes every copy of exactly that registration and keeps all
others, in order. -/
theorem remove_only_that_registration (l : List Reg) (r : Reg) :
    ∃ l', Variant.code.remove l r = some l' ∧ l' = l.filter (· ≠ r) ∧
      r ∉ l' ∧ (∀ x, x ≠ r → l'.count x = l.count x) ∧ List.Sublist l' l := by
  refine ⟨l.filter (· ≠ r), ?_, rfl, ?_, ?_, ?_⟩
  · simp only [Variant.remove, Variant.code, gen_remove_snapshot, if_true]
    exact removeHeaderCallback_eq_filter l r
  · simp
  · intro x hx; exact List.count_filter (by simpa using hx)
  · exact List.filter_sublist

/-- The deliveries of a later packet are what they would have been, minus the removed registration. -/
theorem dispatch_after_remove (beh : Beh) (hdr : Nat) (hh : hdr < 256) (st : St) (r : Reg) (l' : List Reg)
    (hrm : Variant.code.remove st.regs r = some l') :
    callsOf (newEvents { st with regs := l' } (dispatch Variant.code beh hdr { st with regs := l' }))
      = (st.regs.filter (specMatches · hdr)).filter (· ≠ r) := by
  obtain ⟨l'', h1, h2, _⟩ := remove_only_that_registration st.regs r
  rw [hrm] at h1
  cases h1
  rw [dispatch_calls beh hdr hh]
  simp only [h2, List.filter_filter]
  congr 1; funext x; exact Bool.and_comm _ _

/-! ## 5. Packet sequences: arrival order -/

/-- For every sequence of packet objects (any header, any payload length - header-only packets included) and
all behaviours: the deliveries of the run are, packet by packet in arrival order, the packet followed by the
calls to exactly the registrations matching it at the time its port dispatch starts, in registration order
(`expectedDeliveries`, Spec/C07). -/
theorem packets_in_order (beh : Beh) (st : St) (pkts : List Pkt) (hb : ∀ p ∈ pkts, p.hdr < 256) :
    deliveries (runPkts Variant.code beh st pkts).trace
      = deliveries st.trace ++ expectedDeliveries Variant.code beh st (pkts.map (·.hdr)) := by
  rw [runPkts_eq_run Variant.code beh no_packet_skipped]
  exact run_deliveries Variant.code gen_dispatch_snapshot gen_match_captured beh _ st
    (fun h hh => by obtain ⟨p, hp, rfl⟩ := List.mem_map.mp hh; exact hb p hp)

/-- Closed form when the callbacks do not touch the registry (they may raise, at any position, any number of
them) and there are no all-packet callbacks: every packet, in arrival order, goes to exactly the matching
registrations, in registration order; the registry is unchanged and the dispatcher alive. -/
theorem packets_in_order_static (beh : Beh) (hs : ∀ tr, ∀ a ∈ beh tr, a = Act.raise) (st : St)
    (halive : st.dead = false) (hall : st.all = []) (pkts : List Pkt) (hb : ∀ p ∈ pkts, p.hdr < 256) :
    deliveries (runPkts Variant.code beh st pkts).trace = deliveries st.trace ++
      pkts.flatMap (fun p => Ev.pkt p.hdr :: (st.regs.filter (specMatches · p.hdr)).map Ev.call) ∧
    (runPkts Variant.code beh st pkts).regs = st.regs ∧ (runPkts Variant.code beh st pkts).dead = false := by
  rw [runPkts_eq_run Variant.code beh no_packet_skipped]
  have := run_static Variant.code gen_dispatch_snapshot gen_match_captured beh hs (pkts.map (·.hdr)) st halive hall
    (fun h hh => by obtain ⟨p, hp, rfl⟩ := List.mem_map.mp hh; exact hb p hp)
  rw [List.flatMap_map] at this
  exact this

/-! ## 6. The all-packet callbacks (`Caller`) -/

/-- `Caller.add_callback` never creates a duplicate. -/
theorem caller_add_no_duplicates (l : List Nat) (c : Nat) (h : l.Nodup) : (callerAdd l c).Nodup :=
  callerAdd_nodup l c h

/-- `Caller.remove_callback` removes exactly that callback; removing an unregistered one is a `ValueError`. -/
theorem caller_remove_only_that (l : List Nat) (c : Nat) (h : l.Nodup) :
    (c ∈ l → ∃ l', callerRemove l c = some l' ∧ c ∉ l' ∧ l' = l.filter (· ≠ c)) ∧
    (c ∉ l → callerRemove l c = none) :=
  callerRemove_spec l c h

/-- `Caller.call` iterates over a copy: every callback registered when the call starts is invoked exactly
once, in registration order, whatever the callbacks add or remove meanwhile (as long as none raises). -/
theorem caller_call_snapshot (v : Variant) (beh : Beh) (hq : AllPacketCallbacksQuiet beh) (st : St) :
    allCallsOf (callerCall v beh st).trace = allCallsOf st.trace ++ st.all ∧
    (callerCall v beh st).dead = st.dead :=
  ⟨(callerGo_quiet v beh hq st.all st).2, (callerGo_quiet v beh hq st.all st).1⟩

/-- Every received packet (header-only ones included) is passed to every all-packet callback registered
when it is taken from the link, once, in registration order, before the port callbacks - for arbitrary
behaviour of the port callbacks (as long as no all-packet callback raises). -/
theorem all_packet_callbacks_get_every_packet (beh : Beh) (hq : AllPacketCallbacksQuiet beh) (st : St)
    (halive : st.dead = false) (p : Pkt) :
    allCallsOf (newEvents st (receive Variant.code beh st p)) = st.all ∧
    pktsOf (newEvents st (receive Variant.code beh st p)) = [p.hdr] := by
  rw [receive_is_dispatch]
  obtain ⟨ext, hext⟩ := handlePacket_ext Variant.code gen_dispatch_snapshot gen_match_captured beh st p.hdr
  have h1 := handlePacket_allCalls Variant.code gen_dispatch_snapshot gen_match_captured beh hq st p.hdr halive
  have h2 := handlePacket_pkts Variant.code gen_dispatch_snapshot gen_match_captured beh st p.hdr halive
  rw [newEvents_of_ext hext]
  rw [hext, allCallsOf, List.filterMap_append] at h1
  rw [hext, pktsOf, List.filterMap_append] at h2
  exact ⟨List.append_cancel_left h1, List.append_cancel_left h2⟩

/-! ## 6b. Callbacks that change the packet object they are given -/

/-- Matching is against the header **as received**: the calls for a packet are the same whether or not
callbacks (all-packet or port callbacks, at any position) rewrite port/channel of the packet object while it
is being dispatched - `beh'` is `beh` with arbitrary `setPort`/`setChan` actions (`pk.set_header`,
`pk.port = ..`, `pk.channel = ..`) inserted anywhere.  (Instance of `dispatch_calls`, which holds for every
behaviour; stated separately because it is the clause the pre-D71 code violates.) -/
theorem mutation_isolated (beh beh' : Beh) (hdr : Nat) (hh : hdr < 256) (st st' : St)
    (hregs : st'.regs = st.regs) :
    callsOf (newEvents st' (dispatch Variant.code beh' hdr st'))
      = callsOf (newEvents st (dispatch Variant.code beh hdr st)) := by
  rw [dispatch_calls beh' hdr hh, dispatch_calls beh hdr hh, hregs]

def regP15a : Reg := portReg 15 1
def regP15b : Reg := portReg 15 2
def regP13 : Reg := portReg 13 3
/-- callback 1 (first on port 15) turns the packet around: `pk.set_header(13, 1)` -/
def behTurnAround : Beh := fun tr =>
  if tr.getLast? = some (.call regP15a) then [.setPort 13, .setChan 1] else []

/-- before D71 (match re-reads the live packet object): the second port-15 registration misses a packet
received on port 15 and a port-13 registration gets it -/
theorem live_header_counterexample :
    callsOf (handlePacket Variant.liveHeader behTurnAround
        { St.init with regs := [regP15a, regP15b, regP13] } 0xF1).trace = [regP15a, regP13] ∧
    ¬ SpecHolds [regP15a, regP15b, regP13] 0xF1
        (newEvents St.init (handlePacket Variant.liveHeader behTurnAround
          { St.init with regs := [regP15a, regP15b, regP13] } 0xF1)) := by decide

/-- the repaired code on the same input: both port-15 registrations, nobody else -/
example : callsOf (handlePacket Variant.fixed behTurnAround
    { St.init with regs := [regP15a, regP15b, regP13] } 0xF1).trace = [regP15a, regP15b] := by decide

/-! ## 7. The code before the fix (D7): live-list iteration violates the specification -/

def regA : Reg := portReg 9 1
def regB : Reg := portReg 9 2
def regC : Reg := portReg 9 3
/-- callback 1 unregisters itself when called (a one-shot callback) -/
def behSelfRemove : Beh := fun tr => if tr.getLast? = some (.call regA) then [.remove regA] else []

/-- with live-list iteration, `[A, B, C]` on one port and `A` removing itself delivers to `A` and `C` only -/
theorem live_dispatch_skips :
    callsOf (dispatch Variant.original behSelfRemove 0x90 { St.init with regs := [regA, regB, regC], pk := (9, 0) }).trace
      = [regA, regC] := by decide

/-- the unchanged code does not satisfy the dispatch specification (D7) -/
theorem live_dispatch_counterexample :
    ¬ (∀ (regs : List Reg) (beh : Beh) (hdr : Nat), regs.Nodup → hdr < 256 →
        SpecHolds regs hdr (newEvents { St.init with regs := regs, pk := (pkPort hdr, pkChan hdr) }
          (dispatch Variant.original beh hdr { St.init with regs := regs, pk := (pkPort hdr, pkChan hdr) }))) := by
  intro h
  exact absurd (h [regA, regB, regC] behSelfRemove 0x90 (by decide) (by decide)) (by decide)

/-- the old remove-while-iterating loop skipped the entry following a removed one -/
theorem live_remove_counterexample :
    removeHeaderCallbackLive [regA, regA, regB] regA = some [regA, regB] ∧
    removeHeaderCallback [regA, regA, regB] regA = some [regB] := by decide

/-! ## Non-vacuity: concrete instances of the hypotheses -/

example : [regA, regB, regC].Nodup := by decide
example : (0x93 : Nat) < 256 ∧ regB.matches 0x93 = true ∧ (portReg 8 2).matches 0x93 = false := by decide
/-- the repaired dispatcher on the D7 witness: all three get the packet, then `A` is gone -/
example : callsOf (run Variant.fixed behSelfRemove { St.init with regs := [regA, regB, regC], pk := (9, 0) } [0x90, 0x93]).trace
    = [regA, regB, regC, regB, regC] := by decide
example : SpecHolds [regA, regB, regC] 0x90 (newEvents { St.init with regs := [regA, regB, regC], pk := (9, 0) }
    (dispatch Variant.fixed behSelfRemove 0x90 { St.init with regs := [regA, regB, regC], pk := (9, 0) })) := by decide
/-- a behaviour satisfying `AllPacketCallbacksQuiet` in which port callbacks do raise -/
example : AllPacketCallbacksQuiet (fun tr => match tr.getLast? with | some (.call _) => [.raise] | _ => []) := by
  intro tr c h; simp [h, NoRaise]
/-- ... and a static behaviour (hypothesis of `packets_in_order_static`) that raises in every port callback -/
example : ∀ tr, ∀ a ∈ (fun tr : List Ev => match tr.getLast? with | some (.call _) => [Act.raise] | _ => []) tr,
    a = Act.raise := by
  intro tr a; dsimp only; split <;> simp
example : deliveries (run Variant.fixed (fun tr => match tr.getLast? with | some (.call _) => [.raise] | _ => [])
    { St.init with regs := [regA, portReg 8 7, regC] } [0x90, 0x81]).trace
    = [.pkt 0x90, .call regA, .call regC, .pkt 0x81, .call (portReg 8 7)] := by decide
/-- a header-only packet and a full one are dispatched alike -/
example : callsOf (runPkts Variant.code (fun _ => []) { St.init with regs := [regA, regB], all := [7] }
    [⟨0x90, 0⟩, ⟨0x9F, 30⟩]).trace = [regA, regB, regA, regB] ∧
    allCallsOf (runPkts Variant.code (fun _ => []) { St.init with regs := [regA, regB], all := [7] }
    [⟨0x90, 0⟩, ⟨0x9F, 30⟩]).trace = [7, 7] := by decide
example : (Reg.mk 8 0x0C 1 0x01 5).matches 0xB7 = true ∧ (Reg.mk 8 0x0C 1 0x01 5).matches 0xF6 = false := by decide

end CfVerif.C07

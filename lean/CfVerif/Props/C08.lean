/-
Props/C08 — property theorems for C08: every command packet decodes to the caller's arguments under the
firmware layout.  The model (Model/C08) packs with the format strings, constants and header expression
regenerated from /repo (Gen/C08); the firmware decoder (Spec/C08) is written independently from the firmware's
packed C structs; `expected?` (Proofs/C08Spec) says which firmware command the ARGUMENTS of a call denote.
-/
import CfVerif.Proofs.C08Cmdr
namespace CfVerif.C08
open CfVerif

/-! ## Gen obligations: what the hand-written model assumes about the current source -/

theorem gen_setpoint : Gen.C08.setpoint_args0 = ["roll", "-pitch", "yawrate", "thrust"] ∧
    Gen.C08.setpoint_port = ["CRTPPort.COMMANDER"] ∧ Gen.C08.setpoint_chan = [] ∧
    Gen.C08.setpoint_ifs = ["thrust > 65535 or thrust < 0", "self._x_mode"] ∧ Gen.C08.setpoint_raises = ["ValueError"] ∧
    Gen.C08.setpoint_xmodeAssign = ["(0.707 * (roll - pitch), 0.707 * (roll + pitch))"] := by decide
theorem gen_hover : Gen.C08.hover_args0 = ["TYPE_HOVER_LEGACY", "vx", "vy", "-yawrate", "zdistance"] ∧
    Gen.C08.hover_args1 = ["TYPE_HOVER", "vx", "vy", "yawrate", "zdistance"] ∧
    Gen.C08.hover_port = ["CRTPPort.COMMANDER_GENERIC"] ∧ Gen.C08.hover_chan = ["SET_SETPOINT_CHANNEL"] ∧
    Gen.C08.hover_cmps = ["self._cf.platform.get_protocol_version() <= 8"] := by decide

/-! ## The property -/

/-- the header byte encodes port and channel losslessly, for all 16 x 4 combinations -/
theorem header_lossless : ∀ port < 16, ∀ chan < 4,
    Gen.C08.hdrExpr port chan < 256 ∧ Gen.C08.hdrExpr port chan / 16 % 16 = port ∧ Gen.C08.hdrExpr port chan % 4 = chan := by
  decide

theorem hover_decodes (ver : Int) (vx vy yawrate z : Num) : Sound1 ver (.hover vx vy yawrate z) :=
  sound_hover ver vx vy yawrate z

theorem setpoint_decodes (ver : Int) (xm : Bool) (roll pitch mr mp yaw thrust : Num) :
    Sound1 ver (.setpoint xm roll pitch mr mp yaw thrust) :=
  sound_setpoint ver xm roll pitch mr mp yaw thrust

end CfVerif.C08

/-
Props/C08 — property theorems for C08: every command packet decodes to the caller's arguments under the
firmware layout.

* Model/C08 `emit ver call` : the packets one API call hands to the link (or the exception it raises); it packs with
  the format strings, constants and header expression regenerated from /repo (Gen/C08).
* Spec/C08 `Fw.decode ver header data` : the firmware's decoder, written independently from its packed C structs.
* Proofs/C08Spec `expected? ver call` : the firmware command that the ARGUMENTS of the call denote (none = some
  argument is not representable), `docPortChan`, `wireSize`, `Call.Pre` (side conditions, explained there).
-/
import CfVerif.Proofs.C08HL
import CfVerif.Proofs.C08Full
import CfVerif.Proofs.C08Wire
import CfVerif.Proofs.C08Complete
import CfVerif.Proofs.C08Hist
namespace CfVerif.C08
open CfVerif

/-! ## Gen obligations: what the hand-written model assumes about the current source
(argument order of every struct.pack, port / channel assignments, version and range comparisons) -/

theorem gen_setpoint :
    Gen.C08.setpoint_nPacks = 1 ∧
    Gen.C08.setpoint_args0 = ["roll", "-pitch", "yawrate", "thrust"] ∧
    Gen.C08.setpoint_port = ["CRTPPort.COMMANDER"] ∧
    Gen.C08.setpoint_chan = [] ∧
    Gen.C08.setpoint_cmps = ["thrust > 65535", "thrust < 0"] ∧
    Gen.C08.setpoint_raises = ["ValueError"] := by decide
theorem gen_notifyStop :
    Gen.C08.notifyStop_nPacks = 1 ∧
    Gen.C08.notifyStop_args0 = ["TYPE_META_COMMAND_NOTIFY_SETPOINT_STOP", "remain_valid_milliseconds"] ∧
    Gen.C08.notifyStop_port = ["CRTPPort.COMMANDER_GENERIC"] ∧
    Gen.C08.notifyStop_chan = ["META_COMMAND_CHANNEL"] := by decide
theorem gen_stopSetpoint :
    Gen.C08.stopSetpoint_nPacks = 1 ∧
    Gen.C08.stopSetpoint_args0 = ["TYPE_STOP"] ∧
    Gen.C08.stopSetpoint_port = ["CRTPPort.COMMANDER_GENERIC"] ∧
    Gen.C08.stopSetpoint_chan = [] := by decide
theorem gen_velocityWorld :
    Gen.C08.velocityWorld_nPacks = 2 ∧
    Gen.C08.velocityWorld_args0 = ["TYPE_VELOCITY_WORLD_LEGACY", "vx", "vy", "vz", "-yawrate"] ∧
    Gen.C08.velocityWorld_args1 = ["TYPE_VELOCITY_WORLD", "vx", "vy", "vz", "yawrate"] ∧
    Gen.C08.velocityWorld_port = ["CRTPPort.COMMANDER_GENERIC"] ∧
    Gen.C08.velocityWorld_chan = ["SET_SETPOINT_CHANNEL"] ∧
    Gen.C08.velocityWorld_cmps = ["self._cf.platform.get_protocol_version() <= 8"] := by decide
theorem gen_zdistance :
    Gen.C08.zdistance_nPacks = 2 ∧
    Gen.C08.zdistance_args0 = ["TYPE_ZDISTANCE_LEGACY", "roll", "pitch", "-yawrate", "zdistance"] ∧
    Gen.C08.zdistance_args1 = ["TYPE_ZDISTANCE", "roll", "pitch", "yawrate", "zdistance"] ∧
    Gen.C08.zdistance_port = ["CRTPPort.COMMANDER_GENERIC"] ∧
    Gen.C08.zdistance_chan = ["SET_SETPOINT_CHANNEL"] ∧
    Gen.C08.zdistance_cmps = ["self._cf.platform.get_protocol_version() <= 8"] := by decide
theorem gen_hover :
    Gen.C08.hover_nPacks = 2 ∧
    Gen.C08.hover_args0 = ["TYPE_HOVER_LEGACY", "vx", "vy", "-yawrate", "zdistance"] ∧
    Gen.C08.hover_args1 = ["TYPE_HOVER", "vx", "vy", "yawrate", "zdistance"] ∧
    Gen.C08.hover_port = ["CRTPPort.COMMANDER_GENERIC"] ∧
    Gen.C08.hover_chan = ["SET_SETPOINT_CHANNEL"] ∧
    Gen.C08.hover_cmps = ["self._cf.platform.get_protocol_version() <= 8"] := by decide
theorem gen_fullState :
    Gen.C08.fullState_nPacks = 1 ∧
    Gen.C08.fullState_args0 = ["TYPE_FULL_STATE", "x", "y", "z", "vx", "vy", "vz", "ax", "ay", "az", "orient_comp", "rr", "pr", "yr"] ∧
    Gen.C08.fullState_port = ["CRTPPort.COMMANDER_GENERIC"] ∧
    Gen.C08.fullState_chan = [] := by decide
theorem gen_position :
    Gen.C08.position_nPacks = 1 ∧
    Gen.C08.position_args0 = ["TYPE_POSITION", "x", "y", "z", "yaw"] ∧
    Gen.C08.position_port = ["CRTPPort.COMMANDER_GENERIC"] ∧
    Gen.C08.position_chan = ["SET_SETPOINT_CHANNEL"] := by decide
theorem gen_hlGroupMask :
    Gen.C08.hlGroupMask_nPacks = 1 ∧
    Gen.C08.hlGroupMask_args0 = ["self.COMMAND_SET_GROUP_MASK", "group_mask"] ∧
    Gen.C08.hlGroupMask_port = [] ∧
    Gen.C08.hlGroupMask_chan = [] := by decide
theorem gen_hlTakeoff :
    Gen.C08.hlTakeoff_nPacks = 1 ∧
    Gen.C08.hlTakeoff_args0 = ["self.COMMAND_TAKEOFF_2", "group_mask", "absolute_height_m", "target_yaw", "useCurrentYaw", "duration_s"] ∧
    Gen.C08.hlTakeoff_port = [] ∧
    Gen.C08.hlTakeoff_chan = [] ∧
    Gen.C08.hlTakeoff_cmps = ["yaw is None"] := by decide
theorem gen_hlLand :
    Gen.C08.hlLand_nPacks = 1 ∧
    Gen.C08.hlLand_args0 = ["self.COMMAND_LAND_2", "group_mask", "absolute_height_m", "target_yaw", "useCurrentYaw", "duration_s"] ∧
    Gen.C08.hlLand_port = [] ∧
    Gen.C08.hlLand_chan = [] ∧
    Gen.C08.hlLand_cmps = ["yaw is None"] := by decide
theorem gen_hlStop :
    Gen.C08.hlStop_nPacks = 1 ∧
    Gen.C08.hlStop_args0 = ["self.COMMAND_STOP", "group_mask"] ∧
    Gen.C08.hlStop_port = [] ∧
    Gen.C08.hlStop_chan = [] := by decide
theorem gen_hlGoTo :
    Gen.C08.hlGoTo_nPacks = 2 ∧
    Gen.C08.hlGoTo_args0 = ["self.COMMAND_GO_TO", "group_mask", "relative", "x", "y", "z", "yaw", "duration_s"] ∧
    Gen.C08.hlGoTo_args1 = ["self.COMMAND_GO_TO_2", "group_mask", "relative", "linear", "x", "y", "z", "yaw", "duration_s"] ∧
    Gen.C08.hlGoTo_port = [] ∧
    Gen.C08.hlGoTo_chan = [] ∧
    Gen.C08.hlGoTo_cmps = ["self._cf.platform.get_protocol_version() < 8"] := by decide
theorem gen_hlSpiral :
    Gen.C08.hlSpiral_nPacks = 1 ∧
    Gen.C08.hlSpiral_args0 = ["self.COMMAND_SPIRAL", "group_mask", "sideways", "clockwise", "angle", "r0", "rF", "ascent", "duration_s"] ∧
    Gen.C08.hlSpiral_port = [] ∧
    Gen.C08.hlSpiral_chan = [] ∧
    Gen.C08.hlSpiral_cmps = ["self._cf.platform.get_protocol_version() < 8", "angle > 2 * math.pi", "angle < -2 * math.pi", "r0 < 0", "rF < 0"] := by decide
theorem gen_hlStartTraj :
    Gen.C08.hlStartTraj_nPacks = 1 ∧
    Gen.C08.hlStartTraj_args0 = ["self.COMMAND_START_TRAJECTORY", "group_mask", "relative", "reversed", "trajectory_id", "time_scale"] ∧
    Gen.C08.hlStartTraj_port = [] ∧
    Gen.C08.hlStartTraj_chan = [] := by decide
theorem gen_hlDefineTraj :
    Gen.C08.hlDefineTraj_nPacks = 1 ∧
    Gen.C08.hlDefineTraj_args0 = ["self.COMMAND_DEFINE_TRAJECTORY", "trajectory_id", "self.TRAJECTORY_LOCATION_MEM", "type", "offset", "n_pieces"] ∧
    Gen.C08.hlDefineTraj_port = [] ∧
    Gen.C08.hlDefineTraj_chan = [] := by decide
theorem gen_hlSend :
    Gen.C08.hlSend_nPacks = 0 ∧
    Gen.C08.hlSend_port = ["CRTPPort.SETPOINT_HL"] ∧
    Gen.C08.hlSend_chan = [] ∧
    Gen.C08.hlSend_data = ["data"] ∧
    Gen.C08.hlSend_sends = ["self._cf.send_packet(pk)"] := by decide
theorem gen_extpos :
    Gen.C08.extpos_nPacks = 1 ∧
    Gen.C08.extpos_args0 = ["pos[0]", "pos[1]", "pos[2]"] ∧
    Gen.C08.extpos_port = ["CRTPPort.LOCALIZATION"] ∧
    Gen.C08.extpos_chan = ["self.POSITION_CH"] := by decide
theorem gen_extpose :
    Gen.C08.extpose_nPacks = 1 ∧
    Gen.C08.extpose_args0 = ["self.EXT_POSE", "pos[0]", "pos[1]", "pos[2]", "quat[0]", "quat[1]", "quat[2]", "quat[3]"] ∧
    Gen.C08.extpose_port = ["CRTPPort.LOCALIZATION"] ∧
    Gen.C08.extpose_chan = ["self.GENERIC_CH"] := by decide
theorem gen_shortLpp :
    Gen.C08.shortLpp_nPacks = 1 ∧
    Gen.C08.shortLpp_args0 = ["self.LPS_SHORT_LPP_PACKET", "dest_id"] ∧
    Gen.C08.shortLpp_port = ["CRTPPort.LOCALIZATION"] ∧
    Gen.C08.shortLpp_chan = ["self.GENERIC_CH"] ∧
    Gen.C08.shortLpp_data = ["struct.pack('<BB', self.LPS_SHORT_LPP_PACKET, dest_id) + data"] ∧
    Gen.C08.shortLpp_sends = ["self._cf.send_packet(pk)"] := by decide
theorem gen_emergencyStop :
    Gen.C08.emergencyStop_nPacks = 1 ∧
    Gen.C08.emergencyStop_args0 = ["self.EMERGENCY_STOP"] ∧
    Gen.C08.emergencyStop_port = ["CRTPPort.LOCALIZATION"] ∧
    Gen.C08.emergencyStop_chan = ["self.GENERIC_CH"] := by decide
theorem gen_emergencyWatchdog :
    Gen.C08.emergencyWatchdog_nPacks = 1 ∧
    Gen.C08.emergencyWatchdog_args0 = ["self.EMERGENCY_STOP_WATCHDOG"] ∧
    Gen.C08.emergencyWatchdog_port = ["CRTPPort.LOCALIZATION"] ∧
    Gen.C08.emergencyWatchdog_chan = ["self.GENERIC_CH"] := by decide
theorem gen_lhPersist :
    Gen.C08.lhPersist_nPacks = 1 ∧
    Gen.C08.lhPersist_args0 = ["self.LH_PERSIST_DATA", "mask_geo", "mask_calib"] ∧
    Gen.C08.lhPersist_port = ["CRTPPort.LOCALIZATION"] ∧
    Gen.C08.lhPersist_chan = ["self.GENERIC_CH"] ∧
    Gen.C08.lhPersist_cmps = ["len(geo_list) > 0", "geo_list[0] < 0", "geo_list[-1] > max_bs_nr", "len(calib_list) > 0", "calib_list[0] < 0", "calib_list[-1] > max_bs_nr"] ∧
    Gen.C08.lhPersist_raises = ["Exception", "Exception"] := by decide
theorem gen_extposWrap :
    Gen.C08.extposWrap_nPacks = 0 ∧
    Gen.C08.extposWrap_port = [] ∧
    Gen.C08.extposWrap_chan = [] ∧
    Gen.C08.extposWrap_data = [] ∧
    Gen.C08.extposWrap_sends = ["self._cf.loc.send_extpos([x, y, z])"] := by decide
theorem gen_extposeWrap :
    Gen.C08.extposeWrap_nPacks = 0 ∧
    Gen.C08.extposeWrap_port = [] ∧
    Gen.C08.extposeWrap_chan = [] ∧
    Gen.C08.extposeWrap_data = [] ∧
    Gen.C08.extposeWrap_sends = ["self._cf.loc.send_extpose([x, y, z], [qx, qy, qz, qw])"] := by decide
theorem gen_contWave :
    Gen.C08.contWave_nPacks = 0 ∧
    Gen.C08.contWave_port = [] ∧
    Gen.C08.contWave_chan = [] ∧
    Gen.C08.contWave_setHeader = ["pk.set_header(CRTPPort.PLATFORM, PLATFORM_COMMAND)"] ∧
    Gen.C08.contWave_data = ["(PLATFORM_SET_CONT_WAVE, enabled)"] ∧
    Gen.C08.contWave_sends = ["self._cf.send_packet(pk)"] := by decide
theorem gen_arming :
    Gen.C08.arming_nPacks = 0 ∧
    Gen.C08.arming_port = [] ∧
    Gen.C08.arming_chan = [] ∧
    Gen.C08.arming_setHeader = ["pk.set_header(CRTPPort.PLATFORM, PLATFORM_COMMAND)"] ∧
    Gen.C08.arming_data = ["(PLATFORM_REQUEST_ARMING, do_arm)"] ∧
    Gen.C08.arming_sends = ["self._cf.send_packet(pk)"] := by decide
theorem gen_crashRecovery :
    Gen.C08.crashRecovery_nPacks = 0 ∧
    Gen.C08.crashRecovery_port = [] ∧
    Gen.C08.crashRecovery_chan = [] ∧
    Gen.C08.crashRecovery_setHeader = ["pk.set_header(CRTPPort.PLATFORM, PLATFORM_COMMAND)"] ∧
    Gen.C08.crashRecovery_data = ["(PLATFORM_REQUEST_CRASH_RECOVERY,)"] ∧
    Gen.C08.crashRecovery_sends = ["self._cf.send_packet(pk)"] := by decide
theorem gen_lopoPosition :
    Gen.C08.lopoPosition_nPacks = 1 ∧
    Gen.C08.lopoPosition_args0 = ["LoPoAnchor.LPP_TYPE_POSITION", "x", "y", "z"] ∧
    Gen.C08.lopoPosition_port = [] ∧
    Gen.C08.lopoPosition_chan = [] ∧
    Gen.C08.lopoPosition_sends = ["self.crazyflie.loc.send_short_lpp_packet(anchor_id, data)"] := by decide
theorem gen_lopoReboot :
    Gen.C08.lopoReboot_nPacks = 1 ∧
    Gen.C08.lopoReboot_args0 = ["LoPoAnchor.LPP_TYPE_REBOOT", "mode"] ∧
    Gen.C08.lopoReboot_port = [] ∧
    Gen.C08.lopoReboot_chan = [] ∧
    Gen.C08.lopoReboot_sends = ["self.crazyflie.loc.send_short_lpp_packet(anchor_id, data)"] := by decide
theorem gen_lopoMode :
    Gen.C08.lopoMode_nPacks = 1 ∧
    Gen.C08.lopoMode_args0 = ["LoPoAnchor.LPP_TYPE_MODE", "mode"] ∧
    Gen.C08.lopoMode_port = [] ∧
    Gen.C08.lopoMode_chan = [] ∧
    Gen.C08.lopoMode_sends = ["self.crazyflie.loc.send_short_lpp_packet(anchor_id, data)"] := by decide


/-- the methods of the anchored classes that hand a packet to the link are exactly the ones `emit` models
(plus the two protocol-version handshake requests of PlatformService, which are not commands) -/
theorem gen_emitters :
    Gen.C08.emitters_Commander = ["send_setpoint", "send_notify_setpoint_stop", "send_stop_setpoint", "send_velocity_world_setpoint",
      "send_zdistance_setpoint", "send_hover_setpoint", "send_full_state_setpoint", "send_position_setpoint"] ∧
    Gen.C08.emitters_HighLevelCommander = ["set_group_mask", "takeoff", "land", "stop", "go_to", "spiral", "start_trajectory",
      "define_trajectory", "_send_packet"] ∧
    Gen.C08.emitters_Localization = ["send_extpos", "send_extpose", "send_short_lpp_packet", "send_emergency_stop",
      "send_emergency_stop_watchdog", "send_lh_persist_data_packet"] ∧
    Gen.C08.emitters_Extpos = ["send_extpos", "send_extpose"] ∧
    Gen.C08.emitters_PlatformService = ["set_continous_wave", "send_arming_request", "send_crash_recovery_request",
      "_request_protocol_version", "_crt_service_callback"] ∧
    Gen.C08.emitters_LoPoAnchor = ["set_position", "reboot", "set_mode"] := by decide

/-- **State of the long-lived objects.**  The only attributes the emitting classes ever store are the constructor's,
`Commander._x_mode` (set_client_xmode) and `PlatformService._protocolVersion` / `_callback` (handshake); the modelled
emitting methods read no instance state but `_cf` and `_x_mode`; no decorators (caches), no module-level mutable state;
`get_protocol_version()` returns the attribute as it is at call time.  (The version comparisons themselves are pinned per
method in `gen_hover` ... as `self._cf.platform.get_protocol_version() <= 8` / `< 8`.) -/
theorem gen_object_state :
    Gen.C08.stores_Commander = ["__init__:self._cf", "__init__:self._x_mode", "set_client_xmode:self._x_mode"] ∧
    Gen.C08.stores_HighLevelCommander = ["__init__:self._cf"] ∧
    Gen.C08.stores_Localization = ["__init__:self._cf", "__init__:self.receivedLocationPacket"] ∧
    Gen.C08.stores_Extpos = ["__init__:self._cf"] ∧
    Gen.C08.stores_PlatformService = ["__init__:self._cf", "__init__:self._protocolVersion", "__init__:self._callback", "fetch_platform_informations:self._protocolVersion", "fetch_platform_informations:self._callback", "_crt_service_callback:self._protocolVersion", "_platform_callback:self._protocolVersion", "_platform_info_fetched:self._callback"] ∧
    Gen.C08.stores_LoPoAnchor = ["__init__:self.crazyflie"] ∧
    Gen.C08.selfReads_Commander = ["_cf", "_x_mode"] ∧ Gen.C08.selfReads_HighLevelCommander = ["_cf", "_send_packet"] ∧
    Gen.C08.selfReads_Localization = ["_cf"] ∧ Gen.C08.selfReads_Extpos = ["_cf"] ∧
    Gen.C08.selfReads_PlatformService = ["_cf"] ∧ Gen.C08.selfReads_LoPoAnchor = ["crazyflie"] ∧
    Gen.C08.decorators_Commander = [] ∧ Gen.C08.decorators_HighLevelCommander = [] ∧ Gen.C08.decorators_Localization = [] ∧
    Gen.C08.decorators_Extpos = [] ∧ Gen.C08.decorators_PlatformService = [] ∧ Gen.C08.decorators_LoPoAnchor = [] ∧
    Gen.C08.getProtocolVersion = ["return self._protocolVersion"] ∧
    Gen.C08.moduleState_commander = [] ∧ Gen.C08.moduleState_high_level_commander = [] ∧ Gen.C08.moduleState_extpos = [] ∧
    Gen.C08.moduleState_lopoanchor = [] ∧ Gen.C08.moduleState_encoding = [] ∧
    Gen.C08.moduleState_localization = ["logger = logging.getLogger(__name__)", "LocalizationPacket = collections.namedtuple('localizationPacket', ['type', 'raw_data', 'data'])"] ∧
    Gen.C08.moduleState_platformservice = ["logger = logging.getLogger(__name__)"] := by decide

/-- **A fresh packet object per call.**  Every method that calls `Crazyflie.send_packet` passes the local `pk`, whose only
binding in that method is `pk = CRTPPacket()`; the other emitting methods delegate to one of these and pass no packet
object.  Together with `gen_object_state` (no packet stored on `self`): a packet object handed to the link is never
reachable from, hence never written by, a later call. -/
theorem gen_fresh_packet :
    ([
      Gen.C08.setpoint_sentObject, Gen.C08.notifyStop_sentObject, Gen.C08.stopSetpoint_sentObject,
      Gen.C08.velocityWorld_sentObject, Gen.C08.zdistance_sentObject, Gen.C08.hover_sentObject,
      Gen.C08.fullState_sentObject, Gen.C08.position_sentObject, Gen.C08.hlSend_sentObject, Gen.C08.extpos_sentObject,
      Gen.C08.extpose_sentObject, Gen.C08.shortLpp_sentObject, Gen.C08.emergencyStop_sentObject,
      Gen.C08.emergencyWatchdog_sentObject, Gen.C08.lhPersist_sentObject, Gen.C08.contWave_sentObject,
      Gen.C08.arming_sentObject, Gen.C08.crashRecovery_sentObject].all (· == ["pk"])) = true ∧
    ([
      Gen.C08.setpoint_sentBindings, Gen.C08.notifyStop_sentBindings, Gen.C08.stopSetpoint_sentBindings,
      Gen.C08.velocityWorld_sentBindings, Gen.C08.zdistance_sentBindings, Gen.C08.hover_sentBindings,
      Gen.C08.fullState_sentBindings, Gen.C08.position_sentBindings, Gen.C08.hlSend_sentBindings,
      Gen.C08.extpos_sentBindings, Gen.C08.extpose_sentBindings, Gen.C08.shortLpp_sentBindings,
      Gen.C08.emergencyStop_sentBindings, Gen.C08.emergencyWatchdog_sentBindings, Gen.C08.lhPersist_sentBindings,
      Gen.C08.contWave_sentBindings, Gen.C08.arming_sentBindings, Gen.C08.crashRecovery_sentBindings].all (· == ["pk = CRTPPacket()"])) = true ∧
    ([
      Gen.C08.hlGroupMask_sentObject, Gen.C08.hlTakeoff_sentObject, Gen.C08.hlLand_sentObject,
      Gen.C08.hlStop_sentObject, Gen.C08.hlGoTo_sentObject, Gen.C08.hlSpiral_sentObject,
      Gen.C08.hlStartTraj_sentObject, Gen.C08.hlDefineTraj_sentObject, Gen.C08.extposWrap_sentObject,
      Gen.C08.extposeWrap_sentObject, Gen.C08.lopoPosition_sentObject, Gen.C08.lopoReboot_sentObject,
      Gen.C08.lopoMode_sentObject].all (· == [])) = true := by decide

/-- CRTPPacket: constructor defaults, property setters, header recomputation, size check in Crazyflie.send_packet -/
theorem gen_packet :
    Gen.C08.pktInitParams = ["self", "header=0", "data=None"] ∧
    Gen.C08.set_port_body = ["self._port = port", "self._update_header()"] ∧
    Gen.C08.set_channel_body = ["self._channel = channel", "self._update_header()"] ∧
    Gen.C08.set_header_body = ["self._port = port", "self.channel = channel", "self._update_header()"] ∧
    Gen.C08.pktProperties = ["data=property(_get_data, _set_data)", "port=property(_get_port, _set_port)",
      "channel=property(_get_channel, _set_channel)"] ∧
    Gen.C08.sendPacketFirstStmt = "if not pk.is_data_size_valid(): ;     raise Exception('Data part of packet is too large')" ∧
    Gen.C08.pkt_is_data_size_valid = ["self.available_data_size() >= 0"] ∧
    Gen.C08.pkt_available_data_size = ["self.MAX_DATA_SIZE - self.get_data_size()"] ∧
    Gen.C08.pkt_get_data_size = ["len(self._data)"] ∧
    Gen.C08.maxDataSize = 30 ∧ defaultChan = 0 ∧ defaultPort = 0 := by decide

theorem gen_setpoint_detail :
    Gen.C08.setpoint_ifs = ["thrust > 65535 or thrust < 0", "self._x_mode"] ∧ Gen.C08.thrustMax = 65535 ∧
    Gen.C08.setpoint_xmodeAssign = ["(0.707 * (roll - pitch), 0.707 * (roll + pitch))"] := by decide

theorem gen_fullState_detail :
    Gen.C08.fullState_helper = "vector_to_mm_16bit(vec): return (int(vec[0] * 1000), int(vec[1] * 1000), int(vec[2] * 1000))" ∧
    Gen.C08.fullState_assigns = ["(ax, ay, az) = vector_to_mm_16bit(acc)",
      "(rr, pr, yr) = vector_to_mm_16bit([rollrate, pitchrate, yawrate])", "(vx, vy, vz) = vector_to_mm_16bit(vel)",
      "(x, y, z) = vector_to_mm_16bit(pos)", "orient_comp = compress_quaternion(orientation)"] := by decide

theorem gen_compress_quaternion :
    Gen.C08.cq_quat_n = ["np.array(quat) / np.linalg.norm(quat)"] ∧ Gen.C08.cq_M_SQRT1_2 = ["1.0 / np.sqrt(2)"] ∧
    Gen.C08.cq_i_largest = ["0", "i"] ∧ Gen.C08.cq_fors = ["i in range(1, 4)", "i in range(4)"] ∧
    Gen.C08.cq_ifs = ["abs(quat_n[i]) > abs(quat_n[i_largest])", "i != i_largest"] ∧
    Gen.C08.cq_negate = ["quat_n[i_largest] < 0"] ∧ Gen.C08.cq_negbit = ["int((quat_n[i] < 0) ^ negate)"] ∧
    Gen.C08.cq_mag = ["int(((1 << 9) - 1) * (abs(quat_n[i]) / M_SQRT1_2) + 0.5)"] ∧
    Gen.C08.cq_comp = ["i_largest", "comp << 10 | negbit << 9 | mag"] ∧ Gen.C08.cq_returns = ["comp"] := by decide

theorem gen_takeoff_land_detail :
    Gen.C08.hlTakeoff_ifs = ["yaw is None"] ∧ Gen.C08.hlLand_ifs = ["yaw is None"] ∧
    Gen.C08.hlTakeoff_assigns = ["target_yaw = yaw", "target_yaw = 0.0", "useCurrentYaw = False", "useCurrentYaw = True"] ∧
    Gen.C08.hlLand_assigns = ["target_yaw = yaw", "target_yaw = 0.0", "useCurrentYaw = False", "useCurrentYaw = True"] := by decide

/-- spiral: the clamp assignments; the constants themselves are pinned by `gen_spiral_consts` (Proofs/C08HL) -/
theorem gen_spiral_detail :
    Gen.C08.hlSpiral_assigns = ["angle = 2 * math.pi", "angle = -2 * math.pi", "r0 = 0", "rF = 0"] := by decide

/-- lighthouse persist: sort, validate first/last against 0..15, OR the bits (the REPAIRED code, fixes/D17-c08.patch) -/
theorem gen_lhPersist_detail :
    Gen.C08.lhMaxBs = 15 ∧ Gen.C08.lhPersist_calls = ["geo_list.sort()", "calib_list.sort()"] ∧
    Gen.C08.lhPersist_ifs = ["len(geo_list) > 0", "geo_list[0] < 0 or geo_list[-1] > max_bs_nr", "len(calib_list) > 0",
      "calib_list[0] < 0 or calib_list[-1] > max_bs_nr"] ∧
    Gen.C08.lhPersist_fors = ["bs in geo_list", "bs in calib_list"] ∧
    Gen.C08.lhPersist_maskGeo = ["0", "mask_geo |= 1 << bs"] ∧ Gen.C08.lhPersist_maskCalib = ["0", "mask_calib |= 1 << bs"] := by
  decide

theorem gen_lopoPosition_detail :
    Gen.C08.lopoPosition_assigns = ["x = position[0]", "y = position[1]", "z = position[2]"] := by decide

/-! ## The property -/

/-- **Header byte.**  The header encodes port and channel losslessly, for all 16 x 4 combinations (and sets the two
reserved bits): distinct (port, channel) pairs give distinct bytes and both are recovered from the byte. -/
theorem header_lossless : ∀ port < 16, ∀ chan < 4,
    Gen.C08.hdrExpr port chan < 256 ∧ Gen.C08.hdrExpr port chan / 16 % 16 = port ∧ Gen.C08.hdrExpr port chan % 4 = chan ∧
    Gen.C08.hdrExpr port chan = 16 * port + 12 + chan := by
  decide

/-- **Every command decodes to the caller's arguments.**  Whatever the protocol version and the arguments: if the
call hands anything to the link then it is exactly one packet (nothing at all only for `spiral` before version 8),
the payload is at most 30 bytes, every argument was representable in its field (`expected?` is defined), and the
firmware decodes the packet, under its layout for that protocol version, to exactly the command the arguments
denote: floats bit-for-bit at binary32, fixed-point fields as `int(x*1000)`, sign conventions as documented. -/
theorem emit_decodes (ver : Int) (c : Call) (ps : List Packet) (h : emit ver c = .ok ps) (hpre : c.Pre ver) :
    (∃ p, ps = [p] ∧ p.data.length ≤ 30 ∧ (expected? ver c).isSome ∧ Fw.decode ver p.header p.data = expected? ver c) ∨
    (ps = [] ∧ ver < 8 ∧ ∃ a b c' d e f g h', c = .hlSpiral a b c' d e f g h') := by
  cases c with
  | setpoint xm roll pitch mr mp yaw thrust => exact .inl (sound_setpoint ver xm roll pitch mr mp yaw thrust ps h hpre)
  | notifyStop ms => exact .inl (sound_notifyStop ver ms ps h hpre)
  | stopSetpoint => exact .inl (sound_stopSetpoint ver ps h hpre)
  | velocityWorld a b c d => exact .inl (sound_velocityWorld ver a b c d ps h hpre)
  | zdistance a b c d => exact .inl (sound_zdistance ver a b c d ps h hpre)
  | hover a b c d => exact .inl (sound_hover ver a b c d ps h hpre)
  | fullState pos vel acc quat rates => exact .inl (sound_fullState ver pos vel acc quat rates ps h hpre)
  | position a b c d => exact .inl (sound_position ver a b c d ps h hpre)
  | hlGroupMask gm => exact .inl (sound_hlGroupMask ver gm ps h hpre)
  | hlTakeoff a b c d => exact .inl (sound_hlTakeoff ver a b c d ps h hpre)
  | hlLand a b c d => exact .inl (sound_hlLand ver a b c d ps h hpre)
  | hlStop gm => exact .inl (sound_hlStop ver gm ps h hpre)
  | hlGoTo x y z yaw dur rel lin gm => exact .inl (sound_hlGoTo ver x y z yaw dur rel lin gm ps h hpre)
  | hlSpiral a r0 rf asc dur sw cw gm =>
    by_cases hv : ver < 8
    · rw [spiral_legacy_nothing ver hv] at h
      cases h
      exact .inr ⟨rfl, hv, _, _, _, _, _, _, _, _, rfl⟩
    · exact .inl (sound_hlSpiral ver hv a r0 rf asc dur sw cw gm ps h hpre)
  | hlStartTraj a b c d e => exact .inl (sound_hlStartTraj ver a b c d e ps h hpre)
  | hlDefineTraj a b c d => exact .inl (sound_hlDefineTraj ver a b c d ps h hpre)
  | extpos x y z => exact .inl (sound_extpos ver x y z ps h hpre)
  | extposWrap x y z => exact .inl (sound_extposWrap ver x y z ps h hpre)
  | extpose x y z a b c d => exact .inl (sound_extpose ver x y z a b c d ps h hpre)
  | extposeWrap x y z a b c d => exact .inl (sound_extposeWrap ver x y z a b c d ps h hpre)
  | shortLpp dest data => exact .inl (sound_shortLpp ver dest data ps h hpre)
  | emergencyStop => exact .inl (sound_emergencyStop ver ps h hpre)
  | emergencyWatchdog => exact .inl (sound_emergencyWatchdog ver ps h hpre)
  | lhPersist geo calib => exact .inl (sound_lhPersist ver geo calib ps h hpre)
  | contWave e => exact .inl (sound_contWave ver e ps h hpre)
  | arming e => exact .inl (sound_arming ver e ps h hpre)
  | crashRecovery => exact .inl (sound_crashRecovery ver ps h hpre)
  | lopoPosition id x y z => exact .inl ((sound_lopoPosition ver id x y z).1 ps h hpre)
  | lopoReboot id m => exact .inl ((sound_lopoReboot ver id m).1 ps h hpre)
  | lopoMode id m => exact .inl ((sound_lopoMode ver id m).1 ps h hpre)

/-- **Histories of one long-lived object set.**  `Commander`, `HighLevelCommander`, `Localization`, ... live as long as the
`Crazyflie` object, across connections; between calls the platform service may learn a new protocol version (a new
connection; -1 while the handshake is running) and the client may toggle x-mode.  For EVERY history (any interleaving of
`negotiated v`, `setXmode b` and calls, from any initial state) and every call in it: the call is executed exactly as a
fresh object would execute it under the version negotiated MOST RECENTLY before the call and the x-mode set most recently
before it (nothing older is remembered), and hence whatever it hands to the link is one packet that the firmware of THAT
version decodes to the caller's arguments. -/
theorem history_decodes (s : Objs) (pre : List Ev) (c : Call) (post : List Ev) :
    let ver := lastNegotiated pre s.version
    let c' := c.withXmode (lastXmode pre s.xmode)
    run s (pre ++ .call c :: post) = run s pre ++ { version := ver, call := c', result := emit ver c' } :: run (stateAfter s pre) post ∧
    (∀ ps, emit ver c' = .ok ps → c'.Pre ver →
      (∃ p, ps = [p] ∧ p.data.length ≤ 30 ∧ (expected? ver c').isSome ∧ Fw.decode ver p.header p.data = expected? ver c') ∨
      (ps = [] ∧ ver < 8 ∧ ∃ a b c'' d e f g h', c' = .hlSpiral a b c'' d e f g h')) :=
  ⟨run_call_at s pre c post, fun ps h hpre => emit_decodes _ _ ps h hpre⟩

/-- every entry of a history's outcome list is the stateless `emit` of its (version in force, call as executed) -/
theorem history_results (s : Objs) (evs : List Ev) : ∀ d ∈ run s evs, d.result = emit d.version d.call :=
  run_results s evs

/-- "most recently negotiated": the version in force after a history is the argument of its last `negotiated` event
(the initial -1 of `PlatformService.__init__` if there is none); likewise the x-mode -/
theorem history_version_is_latest (a b : List Ev) (v w : Int) (hb : ∀ e ∈ b, ∀ u, e ≠ .negotiated u) :
    lastNegotiated (a ++ .negotiated v :: b) w = v ∧ lastNegotiated b w = w ∧
    (stateAfter Objs.init b).version = -1 :=
  ⟨lastNegotiated_append_negotiated a b v w hb, lastNegotiated_none b w hb,
   by rw [stateAfter_eq]; exact lastNegotiated_none b _ hb⟩

/-- **What reaches the wire.**  The link driver queues the packet OBJECT and serialises it later, possibly after further API
calls.  For every schedule — any interleaving of calls, version negotiations, x-mode toggles and points where the link's
thread transmits — once the link has drained, the frames on the wire are exactly the packets the successful calls emitted,
one per call and in call order (each of which `history_decodes` shows to decode to its own call's arguments). -/
theorem wire_is_what_was_emitted (s : Objs) (evs : List LEv) :
    (runL (s, LinkSt.init) (evs ++ [.transmit])).2.wire = emitted (run s (apiEvents evs)) := by
  have hwf : LinkSt.init.WF := by intro i hi; cases hi
  obtain ⟨_, _, h3, _⟩ := runL_inv evs s LinkSt.init hwf
  have hsplit : runL (s, LinkSt.init) (evs ++ [.transmit]) = stepL (runL (s, LinkSt.init) evs) .transmit := by
    simp [runL, List.foldl_append]
  rw [hsplit]
  show (runL (s, LinkSt.init) evs).2.wire ++ pending (runL (s, LinkSt.init) evs).2 = _
  rw [h3]; simp [LinkSt.init, pending]

/-- **Packet freshness.**  A packet object that a call handed to the link is never written again: whatever happens later
(any further calls, negotiations, transmissions), every object already in the heap keeps its content. -/
theorem emitted_packet_never_mutated (s : Objs) (l : LinkSt) (hwf : ∀ i ∈ l.queue, i < l.heap.length) (evs : List LEv) :
    ∀ i, i < l.heap.length → (runL (s, l) evs).2.heap[i]? = l.heap[i]? :=
  (runL_inv evs s l hwf).2.2.2

/-- **Unrepresentable arguments raise.**  If some argument cannot be represented in its field (a float beyond binary32,
an int outside the field or thrust outside 0..65535, a float where an int is required, a fixed-point component outside
int16, NaN/inf where an integer is needed, a base-station id outside 0..15, an LPP payload beyond 28 bytes) then nothing
is handed to the link: the call raises (or, for `spiral` before version 8, returns without sending). -/
theorem unrepresentable_raises (ver : Int) (c : Call) (h : expected? ver c = none) (hpre : c.Pre ver) :
    (∃ e, emit ver c = .error e) ∨ emit ver c = .ok [] := by
  cases he : emit ver c with
  | error e => exact .inl ⟨e, rfl⟩
  | ok ps =>
    rcases emit_decodes ver c ps he hpre with ⟨p, _, _, hs, _⟩ | ⟨rfl, _⟩
    · rw [h] at hs; cases hs
    · exact .inr rfl

/-- **Representable arguments are sent**, as exactly one packet (so the decode theorem is not vacuous: a call raises
only when `expected?` is undefined). -/
theorem emit_complete (ver : Int) (c : Call) (h : (expected? ver c).isSome) : ∃ p, emit ver c = .ok [p] := by
  cases c with
  | setpoint xm roll pitch mr mp yaw thrust => exact complete_setpoint ver xm roll pitch mr mp yaw thrust h
  | notifyStop ms => exact complete_notifyStop ver ms h
  | stopSetpoint => exact complete_stopSetpoint ver h
  | velocityWorld a b c d => exact complete_velocityWorld ver a b c d h
  | zdistance a b c d => exact complete_zdistance ver a b c d h
  | hover a b c d => exact complete_hover ver a b c d h
  | fullState pos vel acc quat rates => exact complete_fullState ver pos vel acc quat rates h
  | position a b c d => exact complete_position ver a b c d h
  | hlGroupMask gm => exact complete_hlGroupMask ver gm h
  | hlTakeoff a b c d => exact complete_hlTakeoff ver a b c d h
  | hlLand a b c d => exact complete_hlLand ver a b c d h
  | hlStop gm => exact complete_hlStop ver gm h
  | hlGoTo x y z yaw dur rel lin gm => exact complete_hlGoTo ver x y z yaw dur rel lin gm h
  | hlSpiral a r0 rf asc dur sw cw gm =>
    by_cases hv : ver < 8
    · simp [expected?, hv] at h
    · exact complete_hlSpiral ver hv a r0 rf asc dur sw cw gm h
  | hlStartTraj a b c d e => exact complete_hlStartTraj ver a b c d e h
  | hlDefineTraj a b c d => exact complete_hlDefineTraj ver a b c d h
  | extpos x y z => exact (complete_extpos ver x y z).1 h
  | extposWrap x y z => exact (complete_extpos ver x y z).2 h
  | extpose x y z a b c d => exact (complete_extpose ver x y z a b c d).1 h
  | extposeWrap x y z a b c d => exact (complete_extpose ver x y z a b c d).2 h
  | shortLpp dest data => exact complete_shortLpp ver dest data h
  | emergencyStop => exact (complete_emergency ver).1 h
  | emergencyWatchdog => exact (complete_emergency ver).2 h
  | lhPersist geo calib => exact complete_lhPersist ver geo calib h
  | contWave e => exact (complete_platform ver e).1 h
  | arming e => exact (complete_platform ver e).2.1 h
  | crashRecovery => exact (complete_platform ver (k 0)).2.2 h
  | lopoPosition id x y z => exact (complete_lopo ver id x y z id).1 h
  | lopoReboot id m => exact (complete_lopo ver id m m m m).2.1 h
  | lopoMode id m => exact (complete_lopo ver id m m m m).2.2 h

/-- **Documented port and channel, struct size.**  Every packet handed to the link carries the documented port and
channel of its command in the header byte, and its payload has exactly the size of the firmware's struct for that
command (plus the type byte), which is at most 30. -/
theorem emit_port_channel_size (ver : Int) (c : Call) (ps : List Packet) (h : emit ver c = .ok ps) :
    ∀ p ∈ ps, p.header = 16 * (docPortChan c).1 + 12 + (docPortChan c).2 ∧ p.data.length = wireSize ver c ∧ p.data.length ≤ 30 :=
  wire_all ver c ps h

/-- **LoPoAnchor payloads.**  The three anchor commands are short-LPP packets whose payload the anchor decodes,
under its own layout, to the caller's arguments. -/
theorem lopo_payload_decodes (ver : Int) (id x y z m : Num) :
    SoundLpp ver (.lopoPosition id x y z) ∧ SoundLpp ver (.lopoReboot id m) ∧ SoundLpp ver (.lopoMode id m) :=
  ⟨(sound_lopoPosition ver id x y z).2, (sound_lopoReboot ver id m).2, (sound_lopoMode ver id m).2⟩

/-- **Thrust outside 0..65535 raises** (ValueError), it is never sent wrapped or clipped; x-mode, version and the other
arguments are irrelevant. -/
theorem thrust_out_of_range_raises (ver : Int) (xm : Bool) (roll pitch mr mp yaw : Num) (v : Int) (cv : Conv)
    (hv : v < 0 ∨ 65535 < v) : emit ver (.setpoint xm roll pitch mr mp yaw (.i v cv)) = .error .valueError := by
  have : ((Num.i v cv).gtInt (Gen.C08.thrustMax : Nat) || (Num.i v cv).ltInt 0) = true := by
    have hm : ((Gen.C08.thrustMax : Nat) : Int) = 65535 := rfl
    simp only [Num.gtInt, Num.ltInt, hm, Bool.or_eq_true, decide_eq_true_eq]
    omega
  simp only [emit, this, if_true]

/-- a float thrust (even an integral one such as 1000.0) is never sent: struct.pack('H') rejects it -/
theorem thrust_float_never_sent (ver : Int) (xm : Bool) (roll pitch mr mp yaw : Num) (d : Nat) (cv : Conv) :
    ∀ ps, emit ver (.setpoint xm roll pitch mr mp yaw (.f d cv)) ≠ .ok ps := by
  intro ps h
  simp only [emit] at h
  split at h
  · cases h
  · obtain ⟨dd, hd, _, _⟩ := build_ok h
    rw [fmt_setpoint] at hd
    obtain ⟨_, _, _, ⟨t, cv', ht, _⟩, _⟩ := packNums_allRepr hd
    cases ht

/-- **int16 overflow raises**: if a full-state packet is sent, every one of the twelve fixed-point components had a
finite product and its truncation lies within int16 — a component outside it (or NaN / inf) makes the call raise. -/
theorem int16_overflow_raises (ver : Int) (pos vel acc : Vec3) (quat : QuatN) (rates : Vec3) (ps : List Packet)
    (h : emit ver (.fullState pos vel acc quat rates) = .ok ps) :
    ∀ s ∈ [pos.a, pos.b, pos.c, vel.a, vel.b, vel.c, acc.a, acc.b, acc.c, rates.a, rates.b, rates.c],
      ∃ v : Int, s.mm = .ok v ∧ -32768 ≤ v ∧ v ≤ 32767 :=
  fullState_components_in_range ver pos vel acc quat rates ps h

/-- **Fixed-point resolution.**  `int(x*1000)` on the binary64 product is truncation toward zero: for the finite double
`(-1)^s * mant * 2^(ex-1075)` the result has the sign `s` and magnitude `floor(mant * 2^(ex-1075))`;
NaN and infinities raise. -/
theorem f64ToInt_trunc (d : Nat) (n : Int) (h : f64ToInt d = .ok n) :
    f64Exp d ≠ 2047 ∧
    (n = if f64Sign d = 1 then -(n.natAbs : Int) else (n.natAbs : Int)) ∧
    (if 1075 ≤ f64Ex d then n.natAbs = f64Mant d * 2 ^ (f64Ex d - 1075)
     else n.natAbs * 2 ^ (1075 - f64Ex d) ≤ f64Mant d ∧ f64Mant d < (n.natAbs + 1) * 2 ^ (1075 - f64Ex d)) :=
  f64ToInt_trunc_aux h

theorem f64ToInt_nan_inf_raise (d : Nat) (h : f64Exp d = 2047) :
    f64ToInt d = .error (if f64Frac d = 0 then .overflow else .valueError) := by
  unfold f64ToInt; rw [if_pos h]; split <;> rfl

/-- **Spiral clamp comparisons are exact.**  `angle > 2*pi`, `angle < -2*pi`, `r < 0` are decided on the exact values:
for finite doubles (value * 2^1075 = `f64Scaled`) and for Python ints alike; NaN compares false (and is sent as NaN). -/
theorem spiral_comparisons_exact (d : Nat) (cv : Conv) (v : Int) (c : Nat) (hd : f64Exp d ≠ 2047) (hc : f64Exp c ≠ 2047) :
    ((Num.f d cv).gtF64 c = true ↔ f64Scaled c < f64Scaled d) ∧ ((Num.f d cv).ltF64 c = true ↔ f64Scaled d < f64Scaled c) ∧
    ((Num.i v cv).gtF64 c = true ↔ f64Scaled c < v * ((2 ^ 1075 : Nat) : Int)) ∧
    ((Num.i v cv).ltF64 c = true ↔ v * ((2 ^ 1075 : Nat) : Int) < f64Scaled c) :=
  ⟨gtF64_finite d cv c hd hc, ltF64_finite d cv c hd hc, gtF64_int v cv c hc, ltF64_int v cv c hc⟩

/-- **Quaternion layout.**  When `compress_quaternion` returns `n` (for 9-bit magnitudes): `n` fits 32 bits, and the
firmware's `quatdecompress` bit extraction yields exactly: dropped index = the component of largest magnitude,
and for each other component its 9-bit magnitude and its sign relative to the dropped component. -/
theorem compress_quaternion_layout (qn : QuatN) (n : Nat) (h : compressQuat qn = .ok (n : Int))
    (hpre : ∀ i, i < 4 → i ≠ iLargest qn → ∀ m : Nat, f64ToInt (qn.get i).t = .ok (m : Int) → m < 512) :
    quat? qn = some (Fw.quatDecode n) ∧ n < 2 ^ 32 :=
  compressQuat_layout h hpre

/-- the dropped component is one of largest magnitude: no component is strictly larger (NaN-free input) -/
theorem iLargest_is_max (qn : QuatN) (i : Nat) (hi : i < 4)
    (hnan : ∀ j, j < 4 → f64IsNaN (qn.get j).q = false) : f64AbsGt (qn.get i).q (qn.get (iLargest qn)).q = false :=
  iLargest_max qn i hi hnan

/-- **Lighthouse persist bit fields.**  Bit `b` of the transmitted mask is set iff `b` is in the caller's list. -/
theorem bsMask_testBit (l : List Int) (m : Nat) (h : bsMask? l = some m) (b : Nat) :
    m.testBit b = l.contains (b : Int) :=
  bsMask_testBit_aux h b

/-- ids outside 0..15 raise (never sent masked or wrapped) -/
theorem lh_persist_invalid_raises (ver : Int) (geo calib : List Int) (b : Int)
    (hb : (b ∈ geo ∨ b ∈ calib) ∧ (b < 0 ∨ 15 < b)) : emit ver (.lhPersist geo calib) = .error .other :=
  lhPersist_invalid ver geo calib b hb

/-- D17 (fixed by fixes/D17-c08.patch): the unrepaired `mask += 1 << bs` turns the list [1, 1] into the mask of {2} -/
theorem lh_persist_live_counterexample :
    maskSumLive [1, 1] = 4 ∧ (maskSumLive [1, 1]).testBit 1 = false ∧ (maskSumLive [1, 1]).testBit 2 = true ∧
    maskOr [1, 1] = 2 := by decide

/-- the one place where "bit for bit" needs a footnote (`pitchWire?`, `legacyYaw?` in Proofs/C08Spec): for the Python
int 0 the code's `-x` is again the int 0, so the wire carries +0.0 where the float 0.0 would give -0.0 (and the firmware's
own sign flip of the legacy types then yields -0.0 for the caller's 0): the same number, a different bit pattern -/
theorem neg_int_zero (cv : Conv) : (Num.i 0 cv).neg = Num.i 0 cv ∧ Fw.fneg 0 = 0x80000000 ∧
    pitchWire? (.i 0 (.bits 0)) = some 0 ∧ legacyYaw? (.i 0 (.bits 0)) = some 0x80000000 ∧
    pitchWire? (.f 0 (.bits 0)) = some 0x80000000 ∧ legacyYaw? (.f 0 (.bits 0)) = some 0 := by
  refine ⟨by simp [Num.neg], rfl, by decide, by decide, by decide, by decide⟩

/-! ## Non-vacuity: concrete calls that are sent, with their bytes, and concrete calls that raise -/

-- send_hover_setpoint(0.5, -0.0, 1.0, 0.4), protocol version 10 / 8
example : emit 10 (.hover (.f 0 (.bits 0x3F000000)) (.f 0 (.bits 0x80000000)) (.f 0 (.bits 0x3F800000)) (.f 0 (.bits 0x3ECCCCCD))) =
    .ok [⟨0x7C, [10, 0, 0, 0, 0x3F, 0, 0, 0, 0x80, 0, 0, 0x80, 0x3F, 0xCD, 0xCC, 0xCC, 0x3E]⟩] := by decide
example : emit 8 (.hover (.f 0 (.bits 0x3F000000)) (.f 0 (.bits 0x80000000)) (.f 0 (.bits 0x3F800000)) (.f 0 (.bits 0x3ECCCCCD))) =
    .ok [⟨0x7C, [5, 0, 0, 0, 0x3F, 0, 0, 0, 0x80, 0, 0, 0x80, 0xBF, 0xCD, 0xCC, 0xCC, 0x3E]⟩] := by decide
example : (Call.hover (.f 0 (.bits 0x3F000000)) (.f 0 (.bits 0x80000000)) (.f 0 (.bits 0x3F800000)) (.f 0 (.bits 0x3ECCCCCD))).Pre 8 := trivial
-- the side condition of the full-state decode theorem holds for the identity quaternion below
example : (Call.fullState ⟨.i 0, .i 0, .i 0⟩ ⟨.i 0, .i 0, .i 0⟩ ⟨.i 0, .i 0, .i 0⟩
    ⟨⟨0, 0x3FE0000000000000⟩, ⟨0, 0x3FE0000000000000⟩, ⟨0, 0x3FE0000000000000⟩, ⟨0x3FF0000000000000, 0x4080280000000000⟩⟩
    ⟨.i 0, .i 0, .i 0⟩).Pre 10 := by
  intro i hi hne m hm
  have h3 : iLargest ⟨⟨0, 0x3FE0000000000000⟩, ⟨0, 0x3FE0000000000000⟩, ⟨0, 0x3FE0000000000000⟩, ⟨0x3FF0000000000000, 0x4080280000000000⟩⟩ = 3 := by
    decide
  rw [h3] at hne
  have hcase : i = 0 ∨ i = 1 ∨ i = 2 := by omega
  have h0 : f64ToInt 0x3FE0000000000000 = .ok 0 := by decide
  rcases hcase with rfl | rfl | rfl <;> (simp only [QuatN.get, h0, Except.ok.injEq] at hm; omega)
example : expected? 8 (.hover (.f 0 (.bits 0x3F000000)) (.f 0 (.bits 0x80000000)) (.f 0 (.bits 0x3F800000)) (.f 0 (.bits 0x3ECCCCCD))) =
    some (.hover 0x3F000000 0x80000000 0x3F800000 0x3ECCCCCD) := by decide
-- send_setpoint(roll=1.0, pitch=2.0, yawrate=0.0, thrust=40000): pitch is sent negated
example : emit 10 (.setpoint false (.f 0 (.bits 0x3F800000)) (.f 0 (.bits 0x40000000)) (.f 0 (.bits 0)) (.f 0 (.bits 0)) (.f 0 (.bits 0)) (.i 40000 (.err .other))) =
    .ok [⟨0x3C, [0, 0, 0x80, 0x3F, 0, 0, 0, 0xC0, 0, 0, 0, 0, 0x40, 0x9C]⟩] := by decide
-- thrust 65536 / a float that overflows binary32 / an id beyond a byte: raised, nothing sent
example : emit 10 (.setpoint false (.f 0 (.bits 0)) (.f 0 (.bits 0)) (.f 0 (.bits 0)) (.f 0 (.bits 0)) (.f 0 (.bits 0)) (.i 65536 (.err .other))) =
    .error .valueError := by decide
example : emit 10 (.hover (.f 0 (.err .overflow)) (.f 0 (.bits 0)) (.f 0 (.bits 0)) (.f 0 (.bits 0))) = .error .overflow := by decide
example : emit 10 (.hlStop (.i 256 (.err .other))) = .error .structError := by decide
-- go_to on both sides of the version switch
example : (emit 7 (.hlGoTo (.f 0 (.bits 1)) (.f 0 (.bits 2)) (.f 0 (.bits 3)) (.f 0 (.bits 4)) (.f 0 (.bits 5)) (.i 1 (.err .other)) (.i 1 (.err .other)) (.i 0 (.err .other)))).map
      (·.map (·.data.take 4)) = .ok [[4, 0, 1, 1]] ∧
    (emit 8 (.hlGoTo (.f 0 (.bits 1)) (.f 0 (.bits 2)) (.f 0 (.bits 3)) (.f 0 (.bits 4)) (.f 0 (.bits 5)) (.i 1 (.err .other)) (.i 1 (.err .other)) (.i 0 (.err .other)))).map
      (·.map (·.data.take 4)) = .ok [[12, 0, 1, 1]] := by decide
-- lighthouse persist: the repo's own test vector (even ids / odd ids)
example : emit 10 (.lhPersist [0, 2, 4, 6, 8, 10, 12, 14] [1, 3, 5, 7, 9, 11, 13, 15]) = .ok [⟨0x6D, [11, 0x55, 0x55, 0xAA, 0xAA]⟩] := by decide
example : bsMask? [0, 2, 4, 6, 8, 10, 12, 14] = some 0x5555 := by decide
-- full state: 1.5 m -> 1500 mm (binary64 1500.0 = 0x4097700000000000), identity quaternion (w largest: index 3, magnitudes 0)
example : f64ToInt 0x4097700000000000 = .ok 1500 ∧ f64ToInt 0xC0DFFFC000000000 = .ok (-32767) ∧
    f64ToInt 0x7FF8000000000000 = .error .valueError ∧ f64ToInt 0x7FF0000000000000 = .error .overflow := by decide
example : compressQuat ⟨⟨0, 0x3FE0000000000000⟩, ⟨0, 0x3FE0000000000000⟩, ⟨0, 0x3FE0000000000000⟩, ⟨0x3FF0000000000000, 0x4080280000000000⟩⟩ =
    .ok 0xC0000000 := by decide
example : Fw.quatDecode 0xC0000000 = ⟨3, [(2, 0, 0), (1, 0, 0), (0, 0, 0)]⟩ := by decide

-- a complete full-state call: pos (1.5, -32.767, 0) m, vel/acc ints, identity quaternion, rates 0: sent, 29 payload bytes
example : emit 10 (.fullState ⟨.f 0x4097700000000000, .f 0xC0DFFFC000000000, .i 0⟩ ⟨.i 1, .i (-1), .i 0⟩ ⟨.i 0, .i 0, .i 0⟩
    ⟨⟨0, 0x3FE0000000000000⟩, ⟨0, 0x3FE0000000000000⟩, ⟨0, 0x3FE0000000000000⟩, ⟨0x3FF0000000000000, 0x4080280000000000⟩⟩
    ⟨.i 0, .i 0, .i 0⟩) =
    .ok [⟨0x7C, [6, 0xDC, 0x05, 0x01, 0x80, 0, 0, 0xE8, 0x03, 0x18, 0xFC, 0, 0, 0, 0, 0, 0, 0, 0, 0, 0, 0, 0xC0, 0, 0, 0, 0, 0, 0]⟩] := by
  decide
-- ... and with 32.768 m (product 32768.0 = 0x40E0000000000000) it raises: int16 overflow is never wrapped
example : emit 10 (.fullState ⟨.f 0x40E0000000000000, .i 0, .i 0⟩ ⟨.i 0, .i 0, .i 0⟩ ⟨.i 0, .i 0, .i 0⟩
    ⟨⟨0, 0x3FE0000000000000⟩, ⟨0, 0x3FE0000000000000⟩, ⟨0, 0x3FE0000000000000⟩, ⟨0x3FF0000000000000, 0x4080280000000000⟩⟩
    ⟨.i 0, .i 0, .i 0⟩) = .error .structError := by decide
-- hypotheses of `emit_complete` / `unrepresentable_raises`
example : (expected? 10 (.hlTakeoff (.f 0 (.bits 0x3F800000)) (.f 0 (.bits 0x40000000)) (.i 0 (.err .other)) none)).isSome := by decide
example : expected? 10 (.hlTakeoff (.f 0 (.err .overflow)) (.f 0 (.bits 0x40000000)) (.i 0 (.err .other)) none) = none := by decide
example : expected? 10 (.lhPersist [3, 16] []) = none ∧ expected? 10 (.shortLpp (.i 1 (.err .other)) (List.replicate 29 0)) = none := by decide
-- spiral: 7.0 rad (binary64 0x401C000000000000) is clamped to 2*pi, a negative radius to 0; before version 8 nothing is sent
example : f64Exp twoPi64 ≠ 2047 ∧ f64Exp 0x401C000000000000 ≠ 2047 := by decide
example : expected? 8 (.hlSpiral (.f 0x401C000000000000 (.bits 0x40E00000)) (.f 0xBFF0000000000000 (.bits 0xBF800000)) (.f 0 (.bits 0))
    (.f 0 (.bits 0)) (.f 0 (.bits 0x40000000)) (.i 0 (.err .other)) (.i 1 (.err .other)) (.i 0 (.err .other))) =
    some (.hlSpiral 0 0 1 twoPi32 0 0 0 0x40000000) := by decide +kernel
example : emit 7 (.hlSpiral (.f 0x401C000000000000 (.bits 0x40E00000)) (.f 0 (.bits 0)) (.f 0 (.bits 0)) (.f 0 (.bits 0)) (.f 0 (.bits 0))
    (.i 0 (.err .other)) (.i 1 (.err .other)) (.i 0 (.err .other))) = .ok [] := by decide
-- LoPoAnchor.set_position(7, [1.0, 2.0, 0.0])
example : emit 10 (.lopoPosition (.i 7 (.err .other)) (.f 0 (.bits 0x3F800000)) (.f 0 (.bits 0x40000000)) (.f 0 (.bits 0))) =
    .ok [⟨0x6D, [2, 7, 1, 0, 0, 0x80, 0x3F, 0, 0, 0, 0x40, 0, 0, 0, 0]⟩] := by decide
example : Fw.decodeLpp [1, 0, 0, 0x80, 0x3F, 0, 0, 0, 0x40, 0, 0, 0, 0] = some (.position 0x3F800000 0x40000000 0) := by decide

-- one Commander across two connections: hover under v10 (type 10), then a v8 firmware (type 5, yaw rate negated), then a
-- reconnect whose handshake has not finished (-1: legacy), then v9 again (type 10)
example : (run Objs.init [.negotiated 10, .call (.hover (.f 0 (.bits 1)) (.f 0 (.bits 2)) (.f 0 (.bits 0x3F800000)) (.f 0 (.bits 4))),
      .negotiated 8, .call (.hover (.f 0 (.bits 1)) (.f 0 (.bits 2)) (.f 0 (.bits 0x3F800000)) (.f 0 (.bits 4))),
      .negotiated (-1), .call (.hover (.f 0 (.bits 1)) (.f 0 (.bits 2)) (.f 0 (.bits 0x3F800000)) (.f 0 (.bits 4))),
      .negotiated 9, .call (.hover (.f 0 (.bits 1)) (.f 0 (.bits 2)) (.f 0 (.bits 0x3F800000)) (.f 0 (.bits 4)))]).map
    (fun d => (d.version, d.result.map (·.map (fun p => (p.data.take 1, (p.data.drop 9).take 4))))) =
    [(10, .ok [([10], [0, 0, 0x80, 0x3F])]), (8, .ok [([5], [0, 0, 0x80, 0xBF])]), (-1, .ok [([5], [0, 0, 0x80, 0xBF])]),
     (9, .ok [([10], [0, 0, 0x80, 0x3F])])] := by decide
example : ∀ e ∈ [Ev.setXmode true, .call .stopSetpoint], ∀ u, e ≠ .negotiated u := by
  intro e he u; simp only [List.mem_cons, List.not_mem_nil, or_false] at he; rcases he with rfl | rfl <;> exact fun h => Ev.noConfusion h

-- two high-level commands back to back, the link transmits only afterwards: two frames, stop then set_group_mask
example : (runL (Objs.init, LinkSt.init) [.api (.negotiated 10), .api (.call (.hlStop (.i 0 (.err .other)))),
      .api (.call (.hlGroupMask (.i 5 (.err .other)))), .transmit]).2.wire = [⟨0x8C, [3, 0]⟩, ⟨0x8C, [0, 5]⟩] := by decide

end CfVerif.C08

/-
Props/C09 — property theorems for C09 (lighthouse geometry estimation), PARTIAL by nature:
the logic of the pipeline is proved here; the numerics (IPPE, mirror voting, quaternion averaging, scipy's
least squares) are outside the model and are only TESTED against ground truth (harness/corr/c09.py search()).
Helper lemmas are in Proofs/C09*.  Every theorem is about Model/C09, whose comparison expressions, index
arithmetic and permutation matrix are regenerated from /repo (Gen/C09).
-/
import CfVerif.Proofs.C09Match
namespace CfVerif.C09
open CfVerif

/-! ## Gen obligations: what the hand-written model assumes about the current source -/

theorem gen_match_shape :
    Gen.C09.matchBefore = ["result = []", "current: LhCfPoseSample = None"] ∧
    Gen.C09.matchFor = "for sample in samples" ∧
    Gen.C09.matchLoopBody = ["ts = sample.timestamp", "if current is None:",
      "if ts > current.timestamp + max_time_diff:", "current.angles_calibrated[sample.base_station_id] = sample.angles"] ∧
    Gen.C09.matchNoneBody = ["current = LhCfPoseSample(timestamp=ts)"] ∧
    Gen.C09.matchSplitBody = ["cls._append_result(current, result, min_nr_of_bs_in_match)", "current = LhCfPoseSample(timestamp=ts)"] ∧
    Gen.C09.matchAfter = ["cls._append_result(current, result, min_nr_of_bs_in_match)", "return result"] := by decide
theorem gen_append_shape : Gen.C09.appendGuard = "current is not None" ∧
    Gen.C09.appendCompares = ["current is not None", "len(current.angles_calibrated) >= min_nr_of_bs_in_match"] ∧
    Gen.C09.appendBody = ["result.append(current)"] := by decide
theorem gen_ippe_src : Gen.C09.rCfToIppeSrc = "np.transpose(_R_ippe_to_cf)" ∧
    Gen.C09.vecToIppeSrc = "return np.dot(IppeCf._R_cf_to_ippe, v)" ∧
    Gen.C09.vecToCfSrc = "return np.dot(IppeCf._R_ippe_to_cf, v)" ∧
    Gen.C09.matToCfSrc = "return np.dot(IppeCf._R_ippe_to_cf, np.dot(R, IppeCf._R_cf_to_ippe))" := by decide
theorem gen_ippe_wrapping :
    "U_t[i] = IppeCf._rotate_vector_to_ippe(U_cf[i])" ∈ Gen.C09.cfToIppeAssigns ∧
    "Q_t[i] = np.array((-Q_cf[i][0], -Q_cf[i][1]))" ∈ Gen.C09.cfToIppeAssigns ∧
    Gen.C09.ippeToCfCalls = ["IppeCf._rotate_rot_mat_to_cf(solutions['R1'])", "IppeCf._rotate_rot_mat_to_cf(solutions['R2'])",
      "IppeCf._rotate_vector_to_cf(solutions['t1'])", "IppeCf._rotate_vector_to_cf(solutions['t2'])"] := by decide

/-! ## T1 — sample matcher -/

section T1
variable {T A : Type} [Add T] [LT T] [DecidableLT T]

/-- The window test of the matcher is exactly `ts > first.ts + maxDiff` (so a sample joins the current group iff
`ts ≤ group.ts + maxDiff`, `group.ts` being the time stamp of the group's first measurement), and a group is kept
iff it has at least `min_nr_of_bs_in_match` entries. -/
theorem matcher_conditions (ts cur maxDiff : T) (n minBs : Int) :
    (Gen.C09.splitCond ts cur maxDiff = true ↔ ts > cur + maxDiff) ∧
    (Gen.C09.keepCond n minBs = true ↔ minBs ≤ n) := by
  simp [Gen.C09.splitCond, Gen.C09.keepCond]

/-- **Matcher = segmentation.**  For every measurement stream and every `maxDiff` that cannot make a time stamp
exceed itself (`¬ t > t + maxDiff`, i.e. `maxDiff ≥ 0`): the result of `match` is, in order, the groups of *the*
time-window segmentation of the stream (consecutive runs; a measurement joins the current run iff it is not later
than the run's first time stamp + `maxDiff`), minus exactly the groups that have fewer than `minBs` base stations.
Nothing else is dropped, merged, reordered or invented. -/
theorem matcher_groups (samples : List (Meas T A)) (maxDiff : T) (minBs : Int)
    (hd : ∀ t : T, ¬ t > t + maxDiff) (segs : List (Segment T A)) (hs : Segmentation maxDiff samples segs) :
    matchSamples samples maxDiff minBs =
      (segs.map groupOf).filter (fun g => decide (minBs ≤ (g.angles.length : Int))) := by
  rw [matchSamples_eq maxDiff minBs samples segs hd hs]
  rfl

/-- Every stream has such a segmentation, and a segmentation is a partition of the stream in order. -/
theorem matcher_partition (samples : List (Meas T A)) (maxDiff : T) :
    ∃ segs, Segmentation maxDiff samples segs ∧ (segs.map Segment.toList).flatten = samples := by
  obtain ⟨segs, h⟩ := segmentation_exists maxDiff samples
  exact ⟨segs, h, segmentation_flatten maxDiff samples segs h⟩

omit [Add T] [LT T] [DecidableLT T] in
/-- A group carries the time stamp of its first measurement; for each base station the LAST measurement of the
segment (a later measurement overwrites an earlier one); its keys are exactly the stations measured in the
segment, each once — so `angles.length` is the number of distinct base stations. -/
theorem group_contents (s : Segment T A) :
    (groupOf s).ts = s.1.ts ∧
    (∀ b, (groupOf s).angles.get? b = lastOf s.toList b) ∧
    (groupOf s).angles.keys.Nodup ∧
    (∀ b, b ∈ (groupOf s).angles.keys ↔ ∃ x ∈ s.toList, x.bs = b) := by
  have hg : (groupOf s).angles = foldMeas ([] : Dict A) s.toList := rfl
  refine ⟨rfl, ?_, ?_, ?_⟩
  · intro b
    have := foldMeas_get? s.toList ([] : Dict A) b
    rw [hg, this, lastOf]
    cases (s.toList.reverse.find? fun x => decide (x.bs = b)) <;> simp [Dict.get?]
  · rw [hg]; exact foldMeas_nodup s.toList [] (by simp [Dict.keys])
  · intro b
    have := foldMeas_mem_keys s.toList ([] : Dict A) b
    rw [hg]
    simpa [Dict.keys] using this

end T1

/-- Integer (e.g. microsecond) time stamps: the side condition is `0 ≤ maxDiff` and the window test is `≤`. -/
theorem matcher_window_int (maxDiff : Int) (h : 0 ≤ maxDiff) :
    (∀ t : Int, ¬ t > t + maxDiff) ∧ (∀ ts cur : Int, ¬ ts > cur + maxDiff ↔ ts ≤ cur + maxDiff) := by
  constructor
  · intro t; omega
  · intro ts cur; omega

/-! ## T5 — IPPE <-> CF axis permutations -/

/-- Both permutation matrices are proper rotations (orthogonal, determinant +1) and mutual inverses. -/
theorem ippe_rotations_proper :
    matMul Gen.C09.rIppeToCf rCfToIppe = ident3 ∧ matMul rCfToIppe Gen.C09.rIppeToCf = ident3 ∧
    rCfToIppe = transpose3 Gen.C09.rIppeToCf ∧ transpose3 rCfToIppe = Gen.C09.rIppeToCf ∧
    det3 Gen.C09.rIppeToCf = 1 ∧ det3 rCfToIppe = 1 := by decide

/-- The axis convention: IPPE/OpenCV (x right, y down, z forward) = (−y, −z, x) of the CF/base-station frame
(x forward, y left, z up) — the same sign flip `_cf_to_ippe` applies to the image points (`gen_ippe_wrapping`). -/
theorem ippe_axes (x y z : Int) : vecToIppe [x, y, z] = [-y, -z, x] ∧ vecToCf [x, y, z] = [z, -x, -y] := by
  simp [vecToIppe, vecToCf, matVec, dot, rCfToIppe, transpose3, col, Gen.C09.rIppeToCf]

/-- Vector conversions are mutually inverse. -/
theorem ippe_vec_roundtrip (x y z : Int) :
    vecToCf (vecToIppe [x, y, z]) = [x, y, z] ∧ vecToIppe (vecToCf [x, y, z]) = [x, y, z] := by
  simp [vecToIppe, vecToCf, matVec, dot, rCfToIppe, transpose3, col, Gen.C09.rIppeToCf]

/-- The rotation-matrix conversion `R ↦ P R Pᵀ` loses nothing (conjugating back returns `R`), maps the identity
to the identity and preserves the determinant. -/
theorem ippe_mat_roundtrip (a b c d e f g h i : Int) :
    matToIppe (matToCf [[a, b, c], [d, e, f], [g, h, i]]) = [[a, b, c], [d, e, f], [g, h, i]] ∧
    det3 (matToCf [[a, b, c], [d, e, f], [g, h, i]]) = det3 [[a, b, c], [d, e, f], [g, h, i]] ∧
    matToCf ident3 = ident3 := by
  refine ⟨?_, ?_, by decide⟩
  · simp [matToIppe, matToCf, matMul, dot, rCfToIppe, transpose3, col, Gen.C09.rIppeToCf]
  · simp [matToCf, matMul, dot, rCfToIppe, transpose3, col, Gen.C09.rIppeToCf, det3]
    grind

/-! ## Non-vacuity -/

example : Segmentation (20 : Int) [⟨0, 1, 7⟩, ⟨5, 2, 8⟩, ⟨20, 1, 9⟩, ⟨21, 3, 1⟩]
    [((⟨0, 1, 7⟩ : Meas Int Nat), [⟨5, 2, 8⟩, ⟨20, 1, 9⟩]), (⟨21, 3, 1⟩, [])] :=
  .cons ⟨0, 1, 7⟩ [⟨5, 2, 8⟩, ⟨20, 1, 9⟩] [⟨21, 3, 1⟩] [(⟨21, 3, 1⟩, [])] (by decide) (by decide)
    (.cons ⟨21, 3, 1⟩ [] [] [] (by decide) (by decide) .nil)
example : matchSamples ([⟨0, 1, 7⟩, ⟨5, 2, 8⟩, ⟨20, 1, 9⟩, ⟨21, 3, 1⟩] : List (Meas Int Nat)) 20 2 =
    [{ ts := 0, angles := [(1, 9), (2, 8)] }] := by decide

end CfVerif.C09

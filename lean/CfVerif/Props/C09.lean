/-
Props/C09 — property theorems for C09 (lighthouse geometry estimation), PARTIAL by nature:
the logic of the pipeline is proved here; the numerics (IPPE, mirror voting, quaternion averaging, scipy's
least squares) are outside the model and are only TESTED against ground truth (harness/corr/c09.py search()).
Helper lemmas are in Proofs/C09*.  Every theorem is about Model/C09, whose comparison expressions, index
arithmetic and permutation matrix are regenerated from /repo (Gen/C09).
-/
import CfVerif.Proofs.C09Match
import CfVerif.Proofs.C09Link
namespace CfVerif.C09
open CfVerif

/-! ## Gen obligations: what the hand-written model assumes about the current source -/

theorem gen_match_shape :
    Gen.C09.matchBefore = ["result = []", "current: LhCfPoseSample = None"] ∧
    Gen.C09.matchFor = "for sample in samples" ∧
    Gen.C09.matchLoopBody = ["ts = sample.timestamp", "if current is None:",
      "if ts > current.timestamp + max_time_diff:", "current.angles_calibrated[sample.base_station_id] = sample.angles"] ∧
    Gen.C09.matchNoneBody = ["current = LhCfPoseSample(timestamp=ts)"] ∧
    Gen.C09.matchSplitBody = ["cls._append_result(current, result, min_nr_of_bs_in_match)", "current = LhCfPoseSample(timestamp=ts)"] ∧
    Gen.C09.matchAfter = ["cls._append_result(current, result, min_nr_of_bs_in_match)", "return result"] := by decide
theorem gen_append_shape : Gen.C09.appendGuard = "current is not None" ∧
    Gen.C09.appendCompares = ["current is not None", "len(current.angles_calibrated) >= min_nr_of_bs_in_match"] ∧
    Gen.C09.appendBody = ["result.append(current)"] := by decide
theorem gen_ippe_src : Gen.C09.rCfToIppeSrc = "np.transpose(_R_ippe_to_cf)" ∧
    Gen.C09.vecToIppeSrc = "return np.dot(IppeCf._R_cf_to_ippe, v)" ∧
    Gen.C09.vecToCfSrc = "return np.dot(IppeCf._R_ippe_to_cf, v)" ∧
    Gen.C09.matToCfSrc = "return np.dot(IppeCf._R_ippe_to_cf, np.dot(R, IppeCf._R_cf_to_ippe))" := by decide
theorem gen_ippe_wrapping :
    "U_t[i] = IppeCf._rotate_vector_to_ippe(U_cf[i])" ∈ Gen.C09.cfToIppeAssigns ∧
    "Q_t[i] = np.array((-Q_cf[i][0], -Q_cf[i][1]))" ∈ Gen.C09.cfToIppeAssigns ∧
    Gen.C09.ippeToCfCalls = ["IppeCf._rotate_rot_mat_to_cf(solutions['R1'])", "IppeCf._rotate_rot_mat_to_cf(solutions['R2'])",
      "IppeCf._rotate_vector_to_cf(solutions['t1'])", "IppeCf._rotate_vector_to_cf(solutions['t2'])"] := by decide

theorem gen_link_loop :
    Gen.C09.linkWhileBody = ["buckets: dict[int, list[Pose]] = {}", "for bs_poses_in_sample in bs_poses_ref_cfs:",
      "for bs_id, poses in buckets.items():", "to_find = all_bs - bs_poses.keys()", "if len(to_find) == 0:",
      "if len(to_find) == remaining:", "remaining = len(to_find)"] ∧
    Gen.C09.linkDoneBody = ["break"] ∧
    Gen.C09.linkStuckBody = ["raise LhException('Can not link positions between all base stations')"] ∧
    Gen.C09.linkRaises = ["raise LhException('Can not link positions between all base stations')"] ∧
    Gen.C09.linkCompares = ["remaining > 0", "len(known) > 0", "bs_id not in buckets", "len(to_find) == 0", "len(to_find) == remaining"] ∧
    Gen.C09.linkFors = ["for initial_est_bs_poses in bs_poses_ref_cfs", "for bs_poses_in_sample in bs_poses_ref_cfs",
      "for bs_id in unknown", "for (bs_id, poses) in buckets.items()"] := by decide
theorem gen_link_exprs :
    (∀ e ∈ ["to_find = all_bs - bs_poses.keys()", "remaining = len(to_find)",
        "unknown = to_find.intersection(bs_poses_in_sample.keys())",
        "known = set(bs_poses.keys()).intersection(bs_poses_in_sample.keys())", "known_bs = list(known)[0]",
        "known_global = bs_poses[known_bs]", "known_cf = bs_poses_in_sample[known_bs]",
        "unknown_cf = bs_poses_in_sample[bs_id]",
        "bs_pose = cls._map_pose_to_ref_frame(known_global, known_cf, unknown_cf)",
        "bs_poses[bs_id] = cls._avarage_poses(poses)"], e ∈ Gen.C09.linkAssigns) := by decide
theorem gen_estimate :
    Gen.C09.estimateCompares = ["len(bs_pose_ref_cfs) > 0", "reference_bs_pose is None"] ∧
    Gen.C09.estimateRaises = ["raise LhException('Too little data, no reference')"] ∧
    Gen.C09.estimateFors = ["for bs_pose_ref_cfs in bs_poses_ref_cfs"] ∧
    "bs_id, reference_bs_pose = list(bs_pose_ref_cfs.items())[0]" ∈ Gen.C09.estimateAssigns ∧
    "cf_poses = cls._estimate_cf_poses(bs_poses_ref_cfs, bs_poses)" ∈ Gen.C09.estimateAssigns ∧
    Gen.C09.cfPosesFors = ["for est_ref_cf in bs_poses_ref_cfs", "for (bs_id, pose_cf) in est_ref_cf.items()"] ∧
    Gen.C09.cfPosesAssigns = ["poses = []", "pose_global = bs_poses[bs_id]", "est_ref_global = cls._map_cf_pos_to_cf_pos(pose_global, pose_cf)"] ∧
    Gen.C09.cfPosesCalls = ["poses.append(est_ref_global)", "cf_poses.append(cls._avarage_poses(poses))"] := by decide

/-! ## T1 — sample matcher -/

section T1
variable {T A : Type} [Add T] [LT T] [DecidableLT T]

/-- The window test of the matcher is exactly `ts > first.ts + maxDiff` (so a sample joins the current group iff
`ts ≤ group.ts + maxDiff`, `group.ts` being the time stamp of the group's first measurement), and a group is kept
iff it has at least `min_nr_of_bs_in_match` entries. -/
theorem matcher_conditions (ts cur maxDiff : T) (n minBs : Int) :
    (Gen.C09.splitCond ts cur maxDiff = true ↔ ts > cur + maxDiff) ∧
    (Gen.C09.keepCond n minBs = true ↔ minBs ≤ n) := by
  simp [Gen.C09.splitCond, Gen.C09.keepCond]

/-- **Matcher = segmentation.**  For every measurement stream and every `maxDiff` that cannot make a time stamp
exceed itself (`¬ t > t + maxDiff`, i.e. `maxDiff ≥ 0`): the result of `match` is, in order, the groups of *the*
time-window segmentation of the stream (consecutive runs; a measurement joins the current run iff it is not later
than the run's first time stamp + `maxDiff`), minus exactly the groups that have fewer than `minBs` base stations.
Nothing else is dropped, merged, reordered or invented. -/
theorem matcher_groups (samples : List (Meas T A)) (maxDiff : T) (minBs : Int)
    (hd : ∀ t : T, ¬ t > t + maxDiff) (segs : List (Segment T A)) (hs : Segmentation maxDiff samples segs) :
    matchSamples samples maxDiff minBs =
      (segs.map groupOf).filter (fun g => decide (minBs ≤ (g.angles.length : Int))) := by
  rw [matchSamples_eq maxDiff minBs samples segs hd hs]
  rfl

/-- Every stream has such a segmentation, and a segmentation is a partition of the stream in order. -/
theorem matcher_partition (samples : List (Meas T A)) (maxDiff : T) :
    ∃ segs, Segmentation maxDiff samples segs ∧ (segs.map Segment.toList).flatten = samples := by
  obtain ⟨segs, h⟩ := segmentation_exists maxDiff samples
  exact ⟨segs, h, segmentation_flatten maxDiff samples segs h⟩

omit [Add T] [LT T] [DecidableLT T] in
/-- A group carries the time stamp of its first measurement; for each base station the LAST measurement of the
segment (a later measurement overwrites an earlier one); its keys are exactly the stations measured in the
segment, each once — so `angles.length` is the number of distinct base stations. -/
theorem group_contents (s : Segment T A) :
    (groupOf s).ts = s.1.ts ∧
    (∀ b, (groupOf s).angles.get? b = lastOf s.toList b) ∧
    (groupOf s).angles.keys.Nodup ∧
    (∀ b, b ∈ (groupOf s).angles.keys ↔ ∃ x ∈ s.toList, x.bs = b) := by
  have hg : (groupOf s).angles = foldMeas ([] : Dict A) s.toList := rfl
  refine ⟨rfl, ?_, ?_, ?_⟩
  · intro b
    have := foldMeas_get? s.toList ([] : Dict A) b
    rw [hg, this, lastOf]
    cases (s.toList.reverse.find? fun x => decide (x.bs = b)) <;> simp [Dict.get?]
  · rw [hg]; exact foldMeas_nodup s.toList [] (by simp [Dict.keys])
  · intro b
    have := foldMeas_mem_keys s.toList ([] : Dict A) b
    rw [hg]
    simpa [Dict.keys] using this

end T1

/-- Integer (e.g. microsecond) time stamps: the side condition is `0 ≤ maxDiff` and the window test is `≤`. -/
theorem matcher_window_int (maxDiff : Int) (h : 0 ≤ maxDiff) :
    (∀ t : Int, ¬ t > t + maxDiff) ∧ (∀ ts cur : Int, ¬ ts > cur + maxDiff ↔ ts ≤ cur + maxDiff) := by
  constructor
  · intro t; omega
  · intro ts cur; omega

/-! ## T2 — linking of base stations through shared samples -/

section T2
variable {P : Type}

/-- The loop conditions of `_estimate_remaining_bs_poses` as the model uses them. -/
theorem linking_conditions (n r : Nat) :
    (Gen.C09.loopCond r = true ↔ r > 0) ∧ (Gen.C09.knownCond n = true ↔ n > 0) ∧
    (Gen.C09.doneCond n = true ↔ n = 0) ∧ (Gen.C09.stuckCond n r = true ↔ n = r) := by
  simp [Gen.C09.loopCond, Gen.C09.knownCond, Gen.C09.doneCond, Gen.C09.stuckCond]

/-- **The linking loop terminates with a complete answer or raises — never a partial answer.**
For every co-visibility structure `refCfs` (one dict of per-sample poses per sample), every initial `bs_poses`,
every pose arithmetic `ops` and every way `list(known)[0]` may choose among the known stations (`pick`):
`_estimate_remaining_bs_poses` either returns poses for ALL stations seen in any sample (plus the initial ones, and
nothing else), every one of them linked to an initially known station through shared samples; or it raises
`LhException('Can not link ...')`, and then some station really is not linked.  It never runs out of the model's
loop bound (termination), never hits a KeyError and never returns with a station missing. -/
theorem linking_outcome (ops : PoseOps P) (pick : Nat → Nat → List Nat → Nat) (hp : ∀ r i, PickValid (pick r i))
    (refCfs : List (Dict P)) (bsPoses : Dict P) :
    (∃ poses, estimateRemaining ops pick refCfs bsPoses = .ok poses ∧
        (∀ b, b ∈ poses.keys ↔ b ∈ bsPoses.keys ∨ b ∈ allBs refCfs) ∧
        (∀ b ∈ allBs refCfs, LinkedFrom (keySets refCfs) bsPoses.keys b)) ∨
    (estimateRemaining ops pick refCfs bsPoses = .error .cannotLink ∧
        ∃ b ∈ allBs refCfs, ¬ LinkedFrom (keySets refCfs) bsPoses.keys b) := by
  have h := estimateRemaining_outcome ops pick hp refCfs bsPoses
  generalize estimateRemaining ops pick refCfs bsPoses = res at h
  cases h with
  | ok poses hall hroots hlinked =>
    refine Or.inl ⟨poses, rfl, ?_, fun b hb => hlinked b (hall b hb)⟩
    intro b
    constructor
    · intro hb
      obtain ⟨r, hr, hl⟩ := hlinked b hb
      rcases linked_mem _ _ _ hl with rfl | ⟨s, hs, hbs⟩
      · exact Or.inl hr
      · obtain ⟨d, hd, rfl⟩ := List.mem_map.mp hs
        exact Or.inr ((mem_allBs refCfs b).mpr ⟨d, hd, hbs⟩)
    · rintro (h | h)
      · exact hroots b h
      · exact hall b h
  | cannotLink b hb hnot => exact Or.inr ⟨rfl, b, hb, hnot⟩

/-- A pose for every station **iff** every station is linked to an initially known one. -/
theorem linking_iff (ops : PoseOps P) (pick : Nat → Nat → List Nat → Nat) (hp : ∀ r i, PickValid (pick r i))
    (refCfs : List (Dict P)) (bsPoses : Dict P) :
    (∃ poses, estimateRemaining ops pick refCfs bsPoses = .ok poses) ↔
      ∀ b ∈ allBs refCfs, LinkedFrom (keySets refCfs) bsPoses.keys b := by
  rcases linking_outcome ops pick hp refCfs bsPoses with ⟨poses, h, _, hl⟩ | ⟨h, b, hb, hnot⟩
  · exact ⟨fun _ => hl, fun _ => ⟨poses, h⟩⟩
  · constructor
    · rintro ⟨poses, hp'⟩; rw [h] at hp'; cases hp'
    · intro hall; exact absurd (hall b hb) hnot

/-- Systems that cannot be linked are rejected with the error, whatever the numerics compute. -/
theorem unlinked_rejected (ops : PoseOps P) (pick : Nat → Nat → List Nat → Nat) (hp : ∀ r i, PickValid (pick r i))
    (refCfs : List (Dict P)) (bsPoses : Dict P)
    (h : ¬ ∀ b ∈ allBs refCfs, LinkedFrom (keySets refCfs) bsPoses.keys b) :
    estimateRemaining ops pick refCfs bsPoses = .error .cannotLink := by
  rcases linking_outcome ops pick hp refCfs bsPoses with ⟨_, _, _, hl⟩ | ⟨h', _⟩
  · exact absurd hl h
  · exact h'

/-- `estimate` (from the per-sample poses on), every sample seen by at least one station pair (no empty dict):
the reference is the first station of the first sample; if every station is linked to it the result has a pose for
exactly the stations seen and one CF pose per sample; otherwise `estimate` raises the linking error.  With no
sample at all it raises 'no reference'. -/
theorem estimate_outcome (ops : PoseOps P) (pick : Nat → Nat → List Nat → Nat) (hp : ∀ r i, PickValid (pick r i))
    (refCfs : List (Dict P)) (hne : ∀ s ∈ refCfs, s ≠ []) :
    (refCfs = [] ∧ estimate ops pick refCfs = .error .noReference) ∨
    ∃ ref p rest tail, refCfs = ((ref, p) :: rest) :: tail ∧
      ((∀ b ∈ allBs refCfs, Linked (keySets refCfs) ref b) →
        ∃ bs cfs, estimate ops pick refCfs = .ok (bs, cfs) ∧ (∀ b, b ∈ bs.keys ↔ b ∈ allBs refCfs) ∧
          cfs.length = refCfs.length) ∧
      ((¬ ∀ b ∈ allBs refCfs, Linked (keySets refCfs) ref b) → estimate ops pick refCfs = .error .cannotLink) := by
  cases refCfs with
  | nil => exact Or.inl ⟨rfl, rfl⟩
  | cons s tail =>
    cases s with
    | nil => exact absurd rfl (hne [] List.mem_cons_self)
    | cons kv rest =>
      obtain ⟨ref, p⟩ := kv
      refine Or.inr ⟨ref, p, rest, tail, rfl, ?_, ?_⟩
      · intro hall
        have hlf : ∀ b ∈ allBs (((ref, p) :: rest) :: tail), LinkedFrom (keySets (((ref, p) :: rest) :: tail)) (Dict.keys [(ref, p)]) b :=
          fun b hb => ⟨ref, by simp [Dict.keys], hall b hb⟩
        obtain ⟨poses, hposes⟩ := (linking_iff ops pick hp _ [(ref, p)]).mpr hlf
        rcases linking_outcome ops pick hp (((ref, p) :: rest) :: tail) [(ref, p)] with ⟨poses', h', hkeys, _⟩ | ⟨h', _⟩
        · rw [hposes] at h'; cases h'
          have hrefall : ref ∈ allBs (((ref, p) :: rest) :: tail) :=
            (mem_allBs _ _).mpr ⟨_, List.mem_cons_self, by simp [Dict.keys]⟩
          have hkeys' : ∀ b, b ∈ poses.keys ↔ b ∈ allBs (((ref, p) :: rest) :: tail) := by
            intro b; rw [hkeys]
            constructor
            · rintro (h | h)
              · simp only [Dict.keys, List.map_cons, List.map_nil, List.mem_singleton] at h; subst h; exact hrefall
              · exact h
            · exact Or.inr
          obtain ⟨cfs, hcfs, hlen⟩ := estimateCfPoses_ok ops poses (((ref, p) :: rest) :: tail)
            (fun s hs b hb => (hkeys' b).mpr ((mem_allBs _ _).mpr ⟨s, hs, hb⟩)) hne
          exact ⟨poses, cfs, by simp only [estimate, findReference, hposes, hcfs], hkeys', hlen⟩
        · rw [hposes] at h'; cases h'
      · intro hnot
        have : ¬ ∀ b ∈ allBs (((ref, p) :: rest) :: tail), LinkedFrom (keySets (((ref, p) :: rest) :: tail)) (Dict.keys [(ref, p)]) b := by
          intro hlf; apply hnot
          intro b hb
          obtain ⟨r, hr, hl⟩ := hlf b hb
          simp only [Dict.keys, List.map_cons, List.map_nil, List.mem_singleton] at hr
          subst hr; exact hl
        have := unlinked_rejected ops pick hp _ [(ref, p)] this
        simp only [estimate, findReference, this]

end T2

/-! ## T5 — IPPE <-> CF axis permutations -/

/-- Both permutation matrices are proper rotations (orthogonal, determinant +1) and mutual inverses. -/
theorem ippe_rotations_proper :
    matMul Gen.C09.rIppeToCf rCfToIppe = ident3 ∧ matMul rCfToIppe Gen.C09.rIppeToCf = ident3 ∧
    rCfToIppe = transpose3 Gen.C09.rIppeToCf ∧ transpose3 rCfToIppe = Gen.C09.rIppeToCf ∧
    det3 Gen.C09.rIppeToCf = 1 ∧ det3 rCfToIppe = 1 := by decide

/-- The axis convention: IPPE/OpenCV (x right, y down, z forward) = (−y, −z, x) of the CF/base-station frame
(x forward, y left, z up) — the same sign flip `_cf_to_ippe` applies to the image points (`gen_ippe_wrapping`). -/
theorem ippe_axes (x y z : Int) : vecToIppe [x, y, z] = [-y, -z, x] ∧ vecToCf [x, y, z] = [z, -x, -y] := by
  simp [vecToIppe, vecToCf, matVec, dot, rCfToIppe, transpose3, col, Gen.C09.rIppeToCf]

/-- Vector conversions are mutually inverse. -/
theorem ippe_vec_roundtrip (x y z : Int) :
    vecToCf (vecToIppe [x, y, z]) = [x, y, z] ∧ vecToIppe (vecToCf [x, y, z]) = [x, y, z] := by
  simp [vecToIppe, vecToCf, matVec, dot, rCfToIppe, transpose3, col, Gen.C09.rIppeToCf]

/-- The rotation-matrix conversion `R ↦ P R Pᵀ` loses nothing (conjugating back returns `R`), maps the identity
to the identity and preserves the determinant. -/
theorem ippe_mat_roundtrip (a b c d e f g h i : Int) :
    matToIppe (matToCf [[a, b, c], [d, e, f], [g, h, i]]) = [[a, b, c], [d, e, f], [g, h, i]] ∧
    det3 (matToCf [[a, b, c], [d, e, f], [g, h, i]]) = det3 [[a, b, c], [d, e, f], [g, h, i]] ∧
    matToCf ident3 = ident3 := by
  refine ⟨?_, ?_, by decide⟩
  · simp [matToIppe, matToCf, matMul, dot, rCfToIppe, transpose3, col, Gen.C09.rIppeToCf]
  · simp [matToCf, matMul, dot, rCfToIppe, transpose3, col, Gen.C09.rIppeToCf, det3]
    grind

/-! ## Non-vacuity -/

example : Segmentation (20 : Int) [⟨0, 1, 7⟩, ⟨5, 2, 8⟩, ⟨20, 1, 9⟩, ⟨21, 3, 1⟩]
    [((⟨0, 1, 7⟩ : Meas Int Nat), [⟨5, 2, 8⟩, ⟨20, 1, 9⟩]), (⟨21, 3, 1⟩, [])] :=
  .cons ⟨0, 1, 7⟩ [⟨5, 2, 8⟩, ⟨20, 1, 9⟩] [⟨21, 3, 1⟩] [(⟨21, 3, 1⟩, [])] (by decide) (by decide)
    (.cons ⟨21, 3, 1⟩ [] [] [] (by decide) (by decide) .nil)
example : matchSamples ([⟨0, 1, 7⟩, ⟨5, 2, 8⟩, ⟨20, 1, 9⟩, ⟨21, 3, 1⟩] : List (Meas Int Nat)) 20 2 =
    [{ ts := 0, angles := [(1, 9), (2, 8)] }] := by decide

/-- a chain 7 - 1 - 5 - 0 (the estimator test's structure) is linked; with the middle sample missing it is not -/
example : ∀ b ∈ allBs ([[(7, ()), (1, ())], [(1, ()), (5, ())], [(5, ()), (0, ())]] : List (Dict Unit)),
    Linked (keySets ([[(7, ()), (1, ())], [(1, ()), (5, ())], [(5, ()), (0, ())]] : List (Dict Unit))) 7 b := by
  have l7 : Linked [[7, 1], [1, 5], [5, 0]] 7 7 := .ref
  have l1 : Linked [[7, 1], [1, 5], [5, 0]] 7 1 := .step l7 (s := [7, 1]) (by decide) (by decide) (by decide)
  have l5 : Linked [[7, 1], [1, 5], [5, 0]] 7 5 := .step l1 (s := [1, 5]) (by decide) (by decide) (by decide)
  have l0 : Linked [[7, 1], [1, 5], [5, 0]] 7 0 := .step l5 (s := [5, 0]) (by decide) (by decide) (by decide)
  intro b hb
  have : b = 7 ∨ b = 1 ∨ b = 5 ∨ b = 0 := by simpa [allBs, dedup, Dict.keys] using hb
  rcases this with rfl | rfl | rfl | rfl <;> assumption
example : estimate (P := Nat) ⟨fun a _ c => a + c, fun a _ => a, fun l => l.length⟩ (fun _ _ l => l.headD 0)
    [[(7, 1), (1, 2)], [(5, 3), (0, 4)]] = .error .cannotLink := by rfl
example : PickValid (fun l => l.headD 0) := by
  intro l hl; cases l with
  | nil => exact absurd rfl hl
  | cons a r => simp

end CfVerif.C09

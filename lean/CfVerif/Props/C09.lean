/-
Props/C09 — property theorems for C09 (lighthouse geometry estimation), PARTIAL by nature:
the logic of the pipeline is proved here; the numerics (IPPE, mirror voting, quaternion averaging, scipy's
least squares) are outside the model and are only TESTED against ground truth (harness/corr/c09.py search()).
Helper lemmas are in Proofs/C09*.  Every theorem is about Model/C09, whose comparison expressions, index
arithmetic and permutation matrix are regenerated from /repo (Gen/C09).
-/
import CfVerif.Proofs.C09Match
import CfVerif.Proofs.C09Link
import CfVerif.Proofs.C09Layout
import CfVerif.Proofs.C09Exact
import CfVerif.Proofs.C09Resid
import CfVerif.Proofs.C09Avg
namespace CfVerif.C09
open CfVerif

/-! ## Gen obligations: what the hand-written model assumes about the current source -/

theorem gen_match_shape :
    Gen.C09.matchBefore = ["result = []", "current: LhCfPoseSample = None"] ∧
    Gen.C09.matchFor = "for sample in samples" ∧
    Gen.C09.matchLoopBody = ["ts = sample.timestamp", "if current is None:",
      "if ts > current.timestamp + max_time_diff:", "current.angles_calibrated[sample.base_station_id] = sample.angles"] ∧
    Gen.C09.matchNoneBody = ["current = LhCfPoseSample(timestamp=ts)"] ∧
    Gen.C09.matchSplitBody = ["cls._append_result(current, result, min_nr_of_bs_in_match)", "current = LhCfPoseSample(timestamp=ts)"] ∧
    Gen.C09.matchAfter = ["cls._append_result(current, result, min_nr_of_bs_in_match)", "return result"] := by decide
theorem gen_append_shape : Gen.C09.appendGuard = "current is not None" ∧
    Gen.C09.appendCompares = ["current is not None", "len(current.angles_calibrated) >= min_nr_of_bs_in_match"] ∧
    Gen.C09.appendBody = ["result.append(current)"] := by decide
theorem gen_ippe_src : Gen.C09.rCfToIppeSrc = "np.transpose(_R_ippe_to_cf)" ∧
    Gen.C09.vecToIppeSrc = "return np.dot(IppeCf._R_cf_to_ippe, v)" ∧
    Gen.C09.vecToCfSrc = "return np.dot(IppeCf._R_ippe_to_cf, v)" ∧
    Gen.C09.matToCfSrc = "return np.dot(IppeCf._R_ippe_to_cf, np.dot(R, IppeCf._R_cf_to_ippe))" := by decide
theorem gen_ippe_wrapping :
    "U_t[i] = IppeCf._rotate_vector_to_ippe(U_cf[i])" ∈ Gen.C09.cfToIppeAssigns ∧
    "Q_t[i] = np.array((-Q_cf[i][0], -Q_cf[i][1]))" ∈ Gen.C09.cfToIppeAssigns ∧
    Gen.C09.ippeToCfCalls = ["IppeCf._rotate_rot_mat_to_cf(solutions['R1'])", "IppeCf._rotate_rot_mat_to_cf(solutions['R2'])",
      "IppeCf._rotate_vector_to_cf(solutions['t1'])", "IppeCf._rotate_vector_to_cf(solutions['t2'])"] := by decide

set_option maxRecDepth 20000 in
theorem gen_link_loop :
    Gen.C09.linkWhileBody = ["buckets: dict[int, list[Pose]] = {}", "for bs_poses_in_sample in bs_poses_ref_cfs:",
      "for bs_id, poses in buckets.items():", "to_find = all_bs - bs_poses.keys()", "if len(to_find) == 0:",
      "if len(to_find) == remaining:", "remaining = len(to_find)"] ∧
    Gen.C09.linkDoneBody = ["break"] ∧
    Gen.C09.linkStuckBody = ["raise LhException('Can not link positions between all base stations')"] ∧
    Gen.C09.linkRaises = ["raise LhException('Can not link positions between all base stations')"] ∧
    Gen.C09.linkCompares = ["remaining > 0", "len(known) > 0", "bs_id not in buckets", "len(to_find) == 0", "len(to_find) == remaining"] ∧
    Gen.C09.linkFors = ["for initial_est_bs_poses in bs_poses_ref_cfs", "for bs_poses_in_sample in bs_poses_ref_cfs",
      "for bs_id in unknown", "for (bs_id, poses) in buckets.items()"] := by decide
set_option maxRecDepth 20000 in
theorem gen_link_exprs :
    (∀ e ∈ ["to_find = all_bs - bs_poses.keys()", "remaining = len(to_find)",
        "unknown = to_find.intersection(bs_poses_in_sample.keys())",
        "known = set(bs_poses.keys()).intersection(bs_poses_in_sample.keys())", "known_bs = list(known)[0]",
        "known_global = bs_poses[known_bs]", "known_cf = bs_poses_in_sample[known_bs]",
        "unknown_cf = bs_poses_in_sample[bs_id]",
        "bs_pose = cls._map_pose_to_ref_frame(known_global, known_cf, unknown_cf)",
        "bs_poses[bs_id] = cls._avarage_poses(poses)"], e ∈ Gen.C09.linkAssigns) := by decide
set_option maxRecDepth 20000 in
theorem gen_estimate :
    Gen.C09.estimateCompares = ["len(bs_pose_ref_cfs) > 0", "reference_bs_pose is None"] ∧
    Gen.C09.estimateRaises = ["raise LhException('Too little data, no reference')"] ∧
    Gen.C09.estimateFors = ["for bs_pose_ref_cfs in bs_poses_ref_cfs"] ∧
    "bs_id, reference_bs_pose = list(bs_pose_ref_cfs.items())[0]" ∈ Gen.C09.estimateAssigns ∧
    "cf_poses = cls._estimate_cf_poses(bs_poses_ref_cfs, bs_poses)" ∈ Gen.C09.estimateAssigns ∧
    Gen.C09.cfPosesFors = ["for est_ref_cf in bs_poses_ref_cfs", "for (bs_id, pose_cf) in est_ref_cf.items()"] ∧
    Gen.C09.cfPosesAssigns = ["poses = []", "pose_global = bs_poses[bs_id]", "est_ref_global = cls._map_cf_pos_to_cf_pos(pose_global, pose_cf)"] ∧
    Gen.C09.cfPosesCalls = ["poses.append(est_ref_global)", "cf_poses.append(cls._avarage_poses(poses))"] := by decide

set_option maxRecDepth 20000 in
theorem gen_solver_setup :
    (∀ e ∈ ["solution.n_bss = len(initial_guess.bs_poses)", "solution.n_cfs = len(matched_samples)",
        "solution.n_cfs_in_params = len(matched_samples) - 1", "solution.n_sensors = len(sensor_positions)",
        "x0 = np.hstack((params_bs.ravel(), params_cfs.ravel()))"], e ∈ Gen.C09.solveAssigns) ∧
    Gen.C09.bsMapFors = ["for (index, id) in enumerate(sorted(initial_guess_bs_poses.keys()))"] ∧
    Gen.C09.bsMapAssigns = ["bs_id_to_index = {}", "bs_index_to_id = {}", "bs_id_to_index[id] = index", "bs_index_to_id[index] = id"] := by decide
set_option maxRecDepth 20000 in
theorem gen_jacobian :
    Gen.C09.jacFors = ["for (cf_i, sample) in enumerate(matched_samples)", "for bs_id in sorted(sample.angles_calibrated.keys())",
      "for sensor_i in range(defs.n_sensors)", "for (cf_i, sample) in enumerate(matched_samples)",
      "for bs_id in sorted(sample.angles_calibrated.keys())", "for sensor_i in range(defs.n_sensors * 2)",
      "for i in range(first, first + defs.n_params_per_bs)", "for i in range(first, first + defs.n_params_per_cf)"] ∧
    Gen.C09.jacAppends = ["index_angle_pair_to_cf.append(cf_i)", "index_angle_pair_to_bs.append(bs_index)",
      "index_angle_pair_to_sensor_base.append(sensor_i)"] ∧
    Gen.C09.jacCompares = ["cf_i > 0"] ∧
    Gen.C09.jacMarkBodies = ["jac_sparsity[row_i, i] = 1", "jac_sparsity[row_i, i] = 1"] ∧
    Gen.C09.jacMatrixShape = "scipy.sparse.lil_matrix((len_residual_vec, len_param_vec), dtype=int)" ∧
    (∀ e ∈ ["bs_index = defs.bs_id_to_index[bs_id]", "row_i = 0", "row_i += 1"], e ∈ Gen.C09.jacAssigns) ∧
    Gen.C09.jacReturns = ["return (np.array(index_angle_pair_to_bs), np.array(index_angle_pair_to_cf), np.array(index_angle_pair_to_sensor_base), jac_sparsity)"] := by decide
set_option maxRecDepth 20000 in
theorem gen_residual_gather :
    Gen.C09.paramsToStructAssigns = ["bs_param_count = defs.n_bss * defs.n_params_per_bs",
      "params_bs_poses = params[:bs_param_count].reshape((defs.n_bss, defs.n_params_per_bs))",
      "params_cf_poses = params[bs_param_count:].reshape((defs.n_cfs_in_params, defs.n_params_per_cf))"] ∧
    Gen.C09.paramsToStructReturns = ["return (params_bs_poses, params_cf_poses)"] ∧
    (∀ e ∈ ["bss, cfs = cls._params_to_struct(params, defs)",
        "cfs_full = np.concatenate((np.zeros((1, defs.n_params_per_cf), dtype=float), cfs))",
        "angle_pairs = cls._poses_to_angle_pairs(bss, cfs_full, sensor_positions, index_angle_pair_to_bs, index_angle_pair_to_cf, index_angle_pair_to_sensor_base, defs)",
        "distances_to_cfs = np.repeat(np.linalg.norm(bss[index_angle_pair_to_bs][:, 3:] - cfs_full[index_angle_pair_to_cf][:, 3:], axis=1), 2)"],
      e ∈ Gen.C09.calcResidualAssigns) ∧
    Gen.C09.posesToAnglePairsAssigns = ["pairs = cls._calc_angle_pairs(bss[index_angle_pair_to_bs], cf_poses[index_angle_pair_to_cf], sensor_base_pos[index_angle_pair_to_sensor_base], defs)"] := by decide
set_option maxRecDepth 20000 in
theorem gen_guess_and_condense :
    Gen.C09.initialGuessAssigns = ["params_bs = np.zeros((defs.n_bss, defs.n_params_per_bs))",
      "params_bs[defs.bs_id_to_index[bs_id], :] = cls._pose_to_params(pose)",
      "params_cfs = np.zeros((defs.n_cfs_in_params, defs.n_params_per_cf))",
      "params_cfs[index, :] = cls._pose_to_params(inital_est_pose)"] ∧
    Gen.C09.initialGuessFors = ["for (bs_id, pose) in initial_guess.bs_poses.items()",
      "for (index, inital_est_pose) in enumerate(initial_guess.cf_poses[1:])"] ∧
    Gen.C09.poseToParamsReturns = ["return np.concatenate((pose.rot_vec, pose.translation))"] ∧
    Gen.C09.paramsToPoseAssigns = ["r_vec = params[:defs.len_rot_vec]", "t = params[defs.len_rot_vec:defs.len_pose]"] ∧
    Gen.C09.paramsToPoseReturns = ["return Pose.from_rot_vec(R_vec=r_vec, t_vec=t)"] ∧
    Gen.C09.condenseAppends = ["solution.cf_poses.append(Pose())", "solution.cf_poses.append(cls._params_to_pose(cf_poses[i], solution))"] ∧
    (∀ e ∈ ["bss, cf_poses = cls._params_to_struct(lsq_result.x, solution)", "bs_id = solution.bs_index_to_id[index]",
        "solution.bs_poses[bs_id] = cls._params_to_pose(pose, solution)"], e ∈ Gen.C09.condenseAssigns) ∧
    (∀ e ∈ ["for i in range(len(matched_samples) - 1)", "for (index, pose) in enumerate(bss)"], e ∈ Gen.C09.condenseFors) := by decide

set_option maxRecDepth 20000 in
theorem gen_residual_numerics :
    Gen.C09.rotateTranslateAssigns = ["theta = np.linalg.norm(rot_vecs, axis=1)[:, np.newaxis]", "v = rot_vecs / theta",
      "v = np.nan_to_num(v)", "dot = np.sum(points * v, axis=1)[:, np.newaxis]", "cos_theta = np.cos(theta)", "sin_theta = np.sin(theta)"] ∧
    (∀ kw ∈ Gen.C09.nanToNumKeywords, kw ∈ ["nan=0.0", "posinf=0.0", "neginf=0.0"]) ∧
    Gen.C09.rotateTranslateReturns = ["return cos_theta * points + sin_theta * np.cross(v, points) + dot * (1 - cos_theta) * v + translations"] ∧
    Gen.C09.calcAnglePairsAssigns = ["sensor_points = cls._rotate_translate(sens_pos_p_a, cf_p_a[:, :defs.len_rot_vec], cf_p_a[:, defs.len_rot_vec:])",
      "points_bs_ref = cls._rotate_translate(sensor_points - bs_p_a[:, defs.len_rot_vec:defs.n_params_per_bs], -bs_p_a[:, :defs.len_rot_vec], np.zeros_like(bs_p_a[:, defs.len_rot_vec:defs.n_params_per_bs]))",
      "angle_pair = np.arctan2(points_bs_ref[:, 1:3], points_bs_ref[:, 0, np.newaxis])"] ∧
    Gen.C09.calcAnglePairsReturns = ["return angle_pair"] ∧
    (∀ e ∈ ["angles = np.ravel(angle_pairs)", "diff = angles - target_angles", "residual = np.tan(diff) * distances_to_cfs"],
      e ∈ Gen.C09.calcResidualAssigns) ∧
    Gen.C09.fromCartAssigns = ["lh_v1_horiz_angle = math.atan2(cart_vector[1], cart_vector[0])",
      "lh_v1_vert_angle = math.atan2(cart_vector[2], cart_vector[0])"] ∧
    Gen.C09.fromCartReturns = ["return cls(lh_v1_horiz_angle, lh_v1_vert_angle)"] ∧
    (∀ e ∈ ["result[i * 2] = vector.lh_v1_horiz_angle", "result[i * 2 + 1] = vector.lh_v1_vert_angle"], e ∈ Gen.C09.angleListAssigns) ∧
    Gen.C09.poseRotateTranslateReturns = ["return np.dot(self.rot_matrix, point) + self.translation"] ∧
    Gen.C09.poseInvRotateTranslateReturns = ["return np.dot(np.transpose(self.rot_matrix), point - self.translation)"] := by decide

set_option maxRecDepth 20000 in
theorem gen_averaging :
    Gen.C09.avgEigFunc = "np.linalg.eigh" ∧ Gen.C09.avgEigArg = "Q.T @ Q" ∧
    Gen.C09.avgReturns = ["return eigvecs[:, eigvals.argmax()]", "return Pose.from_quat(R_quat=average_quaternion, t_vec=average_pos)"] ∧
    (∀ e ∈ ["eigvals, eigvecs = np.linalg.eigh(Q.T @ Q)", "quats = map(lambda x: x.rot_quat, poses)",
        "average_quaternion = q_average(np.array(list(quats)))", "positions = map(lambda x: x.translation, poses)",
        "average_pos = np.average(np.array(list(positions)), axis=0)"], e ∈ Gen.C09.avgAssigns) := by decide

/-- no statement of the entry points mutates an object owned by the caller (the session model rests on this) -/
theorem gen_entry_points_pure : Gen.C09.callerArgMutations = [] ∧
    (∀ f ∈ ["LighthouseSampleMatcher.match", "LighthouseInitialEstimator.estimate", "LighthouseGeometrySolver.solve",
        "LighthouseGeometrySolver._populate_initial_guess", "LighthouseGeometrySolver._populate_indexes_and_jacobian",
        "LighthouseGeometrySolver._condense_results"], f ∈ Gen.C09.callerArgFunctions) := by decide

/-! ## T1 — sample matcher -/

section T1
variable {T A : Type} [Add T] [LT T] [DecidableLT T]

/-- The window test of the matcher is exactly `ts > first.ts + maxDiff` (so a sample joins the current group iff
`ts ≤ group.ts + maxDiff`, `group.ts` being the time stamp of the group's first measurement), and a group is kept
iff it has at least `min_nr_of_bs_in_match` entries. -/
theorem matcher_conditions (ts cur maxDiff : T) (n minBs : Int) :
    (Gen.C09.splitCond ts cur maxDiff = true ↔ ts > cur + maxDiff) ∧
    (Gen.C09.keepCond n minBs = true ↔ minBs ≤ n) := by
  simp [Gen.C09.splitCond, Gen.C09.keepCond]

/-- **Matcher = segmentation.**  For every measurement stream and every `maxDiff` that cannot make a time stamp
exceed itself (`¬ t > t + maxDiff`, i.e. `maxDiff ≥ 0`): the result of `match` is, in order, the groups of *the*
time-window segmentation of the stream (consecutive runs; a measurement joins the current run iff it is not later
than the run's first time stamp + `maxDiff`), minus exactly the groups that have fewer than `minBs` base stations.
Nothing else is dropped, merged, reordered or invented. -/
theorem matcher_groups (samples : List (Meas T A)) (maxDiff : T) (minBs : Int)
    (hd : ∀ t : T, ¬ t > t + maxDiff) (segs : List (Segment T A)) (hs : Segmentation maxDiff samples segs) :
    matchSamples samples maxDiff minBs =
      (segs.map groupOf).filter (fun g => decide (minBs ≤ (g.angles.length : Int))) := by
  rw [matchSamples_eq maxDiff minBs samples segs hd hs]
  rfl

/-- Every stream has such a segmentation, and a segmentation is a partition of the stream in order. -/
theorem matcher_partition (samples : List (Meas T A)) (maxDiff : T) :
    ∃ segs, Segmentation maxDiff samples segs ∧ (segs.map Segment.toList).flatten = samples := by
  obtain ⟨segs, h⟩ := segmentation_exists maxDiff samples
  exact ⟨segs, h, segmentation_flatten maxDiff samples segs h⟩

omit [Add T] [LT T] [DecidableLT T] in
/-- A group carries the time stamp of its first measurement; for each base station the LAST measurement of the
segment (a later measurement overwrites an earlier one); its keys are exactly the stations measured in the
segment, each once — so `angles.length` is the number of distinct base stations. -/
theorem group_contents (s : Segment T A) :
    (groupOf s).ts = s.1.ts ∧
    (∀ b, (groupOf s).angles.get? b = lastOf s.toList b) ∧
    (groupOf s).angles.keys.Nodup ∧
    (∀ b, b ∈ (groupOf s).angles.keys ↔ ∃ x ∈ s.toList, x.bs = b) := by
  have hg : (groupOf s).angles = foldMeas ([] : Dict A) s.toList := rfl
  refine ⟨rfl, ?_, ?_, ?_⟩
  · intro b
    have := foldMeas_get? s.toList ([] : Dict A) b
    rw [hg, this, lastOf]
    cases (s.toList.reverse.find? fun x => decide (x.bs = b)) <;> simp [Dict.get?]
  · rw [hg]; exact foldMeas_nodup s.toList [] (by simp [Dict.keys])
  · intro b
    have := foldMeas_mem_keys s.toList ([] : Dict A) b
    rw [hg]
    simpa [Dict.keys] using this

end T1

/-- Integer (e.g. microsecond) time stamps: the side condition is `0 ≤ maxDiff` and the window test is `≤`. -/
theorem matcher_window_int (maxDiff : Int) (h : 0 ≤ maxDiff) :
    (∀ t : Int, ¬ t > t + maxDiff) ∧ (∀ ts cur : Int, ¬ ts > cur + maxDiff ↔ ts ≤ cur + maxDiff) := by
  constructor
  · intro t; omega
  · intro ts cur; omega

/-! ## T2 — linking of base stations through shared samples -/

section T2
variable {P : Type}

/-- The loop conditions of `_estimate_remaining_bs_poses` as the model uses them. -/
theorem linking_conditions (n r : Nat) :
    (Gen.C09.loopCond r = true ↔ r > 0) ∧ (Gen.C09.knownCond n = true ↔ n > 0) ∧
    (Gen.C09.doneCond n = true ↔ n = 0) ∧ (Gen.C09.stuckCond n r = true ↔ n = r) := by
  simp [Gen.C09.loopCond, Gen.C09.knownCond, Gen.C09.doneCond, Gen.C09.stuckCond]

/-- **The linking loop terminates with a complete answer or raises — never a partial answer.**
For every co-visibility structure `refCfs` (one dict of per-sample poses per sample), every initial `bs_poses`,
every pose arithmetic `ops` and every way `list(known)[0]` may choose among the known stations (`pick`):
`_estimate_remaining_bs_poses` either returns poses for ALL stations seen in any sample (plus the initial ones, and
nothing else), every one of them linked to an initially known station through shared samples; or it raises
`LhException('Can not link ...')`, and then some station really is not linked.  It never runs out of the model's
loop bound (termination), never hits a KeyError and never returns with a station missing. -/
theorem linking_outcome (ops : PoseOps P) (pick : Nat → Nat → List Nat → Nat) (hp : ∀ r i, PickValid (pick r i))
    (refCfs : List (Dict P)) (bsPoses : Dict P) :
    (∃ poses, estimateRemaining ops pick refCfs bsPoses = .ok poses ∧
        (∀ b, b ∈ poses.keys ↔ b ∈ bsPoses.keys ∨ b ∈ allBs refCfs) ∧
        (∀ b ∈ allBs refCfs, LinkedFrom (keySets refCfs) bsPoses.keys b)) ∨
    (estimateRemaining ops pick refCfs bsPoses = .error .cannotLink ∧
        ∃ b ∈ allBs refCfs, ¬ LinkedFrom (keySets refCfs) bsPoses.keys b) := by
  have h := estimateRemaining_outcome ops pick hp refCfs bsPoses
  generalize estimateRemaining ops pick refCfs bsPoses = res at h
  cases h with
  | ok poses hall hroots hlinked =>
    refine Or.inl ⟨poses, rfl, ?_, fun b hb => hlinked b (hall b hb)⟩
    intro b
    constructor
    · intro hb
      obtain ⟨r, hr, hl⟩ := hlinked b hb
      rcases linked_mem _ _ _ hl with rfl | ⟨s, hs, hbs⟩
      · exact Or.inl hr
      · obtain ⟨d, hd, rfl⟩ := List.mem_map.mp hs
        exact Or.inr ((mem_allBs refCfs b).mpr ⟨d, hd, hbs⟩)
    · rintro (h | h)
      · exact hroots b h
      · exact hall b h
  | cannotLink b hb hnot => exact Or.inr ⟨rfl, b, hb, hnot⟩

/-- A pose for every station **iff** every station is linked to an initially known one. -/
theorem linking_iff (ops : PoseOps P) (pick : Nat → Nat → List Nat → Nat) (hp : ∀ r i, PickValid (pick r i))
    (refCfs : List (Dict P)) (bsPoses : Dict P) :
    (∃ poses, estimateRemaining ops pick refCfs bsPoses = .ok poses) ↔
      ∀ b ∈ allBs refCfs, LinkedFrom (keySets refCfs) bsPoses.keys b := by
  rcases linking_outcome ops pick hp refCfs bsPoses with ⟨poses, h, _, hl⟩ | ⟨h, b, hb, hnot⟩
  · exact ⟨fun _ => hl, fun _ => ⟨poses, h⟩⟩
  · constructor
    · rintro ⟨poses, hp'⟩; rw [h] at hp'; cases hp'
    · intro hall; exact absurd (hall b hb) hnot

/-- Systems that cannot be linked are rejected with the error, whatever the numerics compute. -/
theorem unlinked_rejected (ops : PoseOps P) (pick : Nat → Nat → List Nat → Nat) (hp : ∀ r i, PickValid (pick r i))
    (refCfs : List (Dict P)) (bsPoses : Dict P)
    (h : ¬ ∀ b ∈ allBs refCfs, LinkedFrom (keySets refCfs) bsPoses.keys b) :
    estimateRemaining ops pick refCfs bsPoses = .error .cannotLink := by
  rcases linking_outcome ops pick hp refCfs bsPoses with ⟨_, _, _, hl⟩ | ⟨h', _⟩
  · exact absurd hl h
  · exact h'

/-- `estimate` (from the per-sample poses on), every sample seen by at least one station pair (no empty dict):
the reference is the first station of the first sample; if every station is linked to it the result has a pose for
exactly the stations seen and one CF pose per sample; otherwise `estimate` raises the linking error.  With no
sample at all it raises 'no reference'. -/
theorem estimate_outcome (ops : PoseOps P) (pick : Nat → Nat → List Nat → Nat) (hp : ∀ r i, PickValid (pick r i))
    (refCfs : List (Dict P)) (hne : ∀ s ∈ refCfs, s ≠ []) :
    (refCfs = [] ∧ estimate ops pick refCfs = .error .noReference) ∨
    ∃ ref p rest tail, refCfs = ((ref, p) :: rest) :: tail ∧
      ((∀ b ∈ allBs refCfs, Linked (keySets refCfs) ref b) →
        ∃ bs cfs, estimate ops pick refCfs = .ok (bs, cfs) ∧ (∀ b, b ∈ bs.keys ↔ b ∈ allBs refCfs) ∧
          cfs.length = refCfs.length) ∧
      ((¬ ∀ b ∈ allBs refCfs, Linked (keySets refCfs) ref b) → estimate ops pick refCfs = .error .cannotLink) := by
  cases refCfs with
  | nil => exact Or.inl ⟨rfl, rfl⟩
  | cons s tail =>
    cases s with
    | nil => exact absurd rfl (hne [] List.mem_cons_self)
    | cons kv rest =>
      obtain ⟨ref, p⟩ := kv
      refine Or.inr ⟨ref, p, rest, tail, rfl, ?_, ?_⟩
      · intro hall
        have hlf : ∀ b ∈ allBs (((ref, p) :: rest) :: tail), LinkedFrom (keySets (((ref, p) :: rest) :: tail)) (Dict.keys [(ref, p)]) b :=
          fun b hb => ⟨ref, by simp [Dict.keys], hall b hb⟩
        obtain ⟨poses, hposes⟩ := (linking_iff ops pick hp _ [(ref, p)]).mpr hlf
        rcases linking_outcome ops pick hp (((ref, p) :: rest) :: tail) [(ref, p)] with ⟨poses', h', hkeys, _⟩ | ⟨h', _⟩
        · rw [hposes] at h'; cases h'
          have hrefall : ref ∈ allBs (((ref, p) :: rest) :: tail) :=
            (mem_allBs _ _).mpr ⟨_, List.mem_cons_self, by simp [Dict.keys]⟩
          have hkeys' : ∀ b, b ∈ poses.keys ↔ b ∈ allBs (((ref, p) :: rest) :: tail) := by
            intro b; rw [hkeys]
            constructor
            · rintro (h | h)
              · simp only [Dict.keys, List.map_cons, List.map_nil, List.mem_singleton] at h; subst h; exact hrefall
              · exact h
            · exact Or.inr
          obtain ⟨cfs, hcfs, hlen⟩ := estimateCfPoses_ok ops poses (((ref, p) :: rest) :: tail)
            (fun s hs b hb => (hkeys' b).mpr ((mem_allBs _ _).mpr ⟨s, hs, hb⟩)) hne
          exact ⟨poses, cfs, by simp only [estimate, findReference, hposes, hcfs], hkeys', hlen⟩
        · rw [hposes] at h'; cases h'
      · intro hnot
        have : ¬ ∀ b ∈ allBs (((ref, p) :: rest) :: tail), LinkedFrom (keySets (((ref, p) :: rest) :: tail)) (Dict.keys [(ref, p)]) b := by
          intro hlf; apply hnot
          intro b hb
          obtain ⟨r, hr, hl⟩ := hlf b hb
          simp only [Dict.keys, List.map_cons, List.map_nil, List.mem_singleton] at hr
          subst hr; exact hl
        have := unlinked_rejected ops pick hp _ [(ref, p)] this
        simp only [estimate, findReference, this]

/-- **Linking and averaging are exact on consistent data.**  Let the per-sample poses be error free: sample `i`
holds, for each of its stations `k`, the true pose `B k` expressed in the frame of the true Crazyflie pose `X i`
(`rel (X i) (B k)`), the global frame being the frame of the first sample (`rel (X 0) u = u`).  Then, for ANY pose
arithmetic satisfying the three laws of `PoseLaws` (rigid-transform algebra; averaging equal poses returns that
pose) and any choices of `list(known)[0]`, whatever `estimate` returns is the truth: every base-station pose is
`B k` and the CF pose of sample `i` is `X i` — chaining through intermediate stations, the choice of the known
station and the bucket averaging introduce no error of their own.  (That IPPE + mirror selection deliver such
consistent per-sample poses is numerics, outside the model.) -/
theorem estimate_exact_on_consistent_data (ops : PoseOps P) (rel : P → P → P) (laws : PoseLaws ops rel)
    (pick : Nat → Nat → List Nat → Nat) (B X : Nat → P) (refCfs : List (Dict P))
    (hn : ∀ s ∈ refCfs, s.keys.Nodup)
    (hdata : ∀ i s, refCfs[i]? = some s → ∀ k p, s.get? k = some p → p = rel (X i) (B k))
    (hframe : ∀ u, rel (X 0) u = u) (hfirst : refCfs.head? ≠ some [])
    (bs : Dict P) (cfs : List P) (h : estimate ops pick refCfs = .ok (bs, cfs)) :
    (∀ k p, bs.get? k = some p → p = B k) ∧ (∀ i c, cfs[i]? = some c → c = X i) := by
  cases refCfs with
  | nil => simp [estimate, findReference] at h
  | cons s tail =>
    cases s with
    | nil => exact absurd rfl hfirst
    | cons kv rest =>
      obtain ⟨ref, p⟩ := kv
      simp only [estimate, findReference] at h
      cases hr : estimateRemaining ops pick (((ref, p) :: rest) :: tail) [(ref, p)] with
      | error e => rw [hr] at h; cases h
      | ok bsPoses =>
        rw [hr] at h
        simp only [] at h
        cases hc : estimateCfPoses ops bsPoses (((ref, p) :: rest) :: tail) with
        | error e => rw [hc] at h; cases h
        | ok cfPoses =>
          rw [hc] at h
          simp only [Except.ok.injEq, Prod.mk.injEq] at h
          obtain ⟨rfl, rfl⟩ := h
          have hp : p = B ref := by
            have := hdata 0 ((ref, p) :: rest) rfl ref p (by simp [Dict.get?])
            rw [hframe] at this; exact this
          have hgs : ∀ j s', (((ref, p) :: rest) :: tail)[j]? = some s' → GoodSample rel B (X j) s' :=
            fun j s' hj => hdata j s' hj
          have hgd0 : GoodDict B [(ref, p)] := by
            intro k q hk
            simp only [Dict.get?] at hk
            split at hk
            · rename_i e; subst e; simp only [Option.some.injEq] at hk; rw [← hk]; exact hp
            · cases hk
          have hgd : GoodDict B bsPoses :=
            linkLoop_good ops rel laws B pick X _ hgs _ _ _ _ _ _ _ hgd0 hr
          refine ⟨hgd, ?_⟩
          have := estimateCfPoses_good ops rel laws B X bsPoses hgd _ 0 hn (by simpa using hgs) cfPoses hc
          simpa using this

/-- **The quaternion average does not depend on the sign each quaternion is written with.**  `q` and `−q` are the
same rotation and scipy's `as_quat()` returns either; `_avarage_poses` takes the dominant eigenvector of
`Q.T @ Q = Σ qᵢqᵢᵀ` (`gen_averaging` pins that route), and that matrix is unchanged when any subset of the rows is
negated — so, whatever the eigen-solver computes from it, estimates of one pose cannot cancel each other. -/
theorem average_sign_invariant {α : Type} [Ring α] (domEig : List (List α) → List α) (qs : List (Bool × List α)) :
    gram 4 (qs.map fun p => flipSign p.1 p.2) = gram 4 (qs.map fun p => p.2) ∧
    qAverage domEig (qs.map fun p => flipSign p.1 p.2) = qAverage domEig (qs.map fun p => p.2) := by
  have h := gram_flipSign 4 qs
  exact ⟨h, by simp only [qAverage, h]⟩

end T2

/-! ## T4 — parameter layout of the geometry solver and Jacobian sparsity -/

/-- A pose is 6 parameters: 3 rotation-vector components then 3 position components. -/
theorem layout_constants : Gen.C09.lenRotVec = 3 ∧ Gen.C09.lenPose = 6 ∧ Gen.C09.nParamsPerBs = 6 ∧ Gen.C09.nParamsPerCf = 6 := by decide

/-- `6·n_bs + 6·(n_cf − 1)` parameters; an empty sample list is rejected (numpy ValueError). -/
theorem layout_length (bsIds : List Nat) (nSamples nSensors : Nat) :
    (nSamples = 0 → mkDefs bsIds nSamples nSensors = .error .valueError) ∧
    (0 < nSamples → ∃ defs, mkDefs bsIds nSamples nSensors = .ok defs ∧ defs.nBss = bsIds.length ∧
      defs.nCfs = nSamples ∧ defs.nCfsInParams = nSamples - 1 ∧ defs.nSensors = nSensors ∧
      defs.idToIndex = (createBsMap bsIds).1 ∧ defs.indexToId = (createBsMap bsIds).2 ∧
      Gen.C09.lenParamVec defs.nBss defs.nCfsInParams = 6 * bsIds.length + 6 * (nSamples - 1)) := by
  constructor
  · rintro rfl; rfl
  · intro h
    obtain ⟨n, rfl⟩ : ∃ n, nSamples = n + 1 := ⟨nSamples - 1, by omega⟩
    have e : Gen.C09.nCfsInParamsOf ((n + 1 : Nat) : Int) = Int.ofNat n := by
      simp only [Gen.C09.nCfsInParamsOf, Int.ofNat_eq_natCast]; omega
    refine ⟨{ nBss := bsIds.length, nCfs := n + 1, nCfsInParams := n, nSensors := nSensors,
              idToIndex := (createBsMap bsIds).1, indexToId := (createBsMap bsIds).2 },
      by simp only [mkDefs, e], rfl, rfl, rfl, rfl, rfl, rfl, ?_⟩
    simp only [Gen.C09.lenParamVec, Gen.C09.nParamsPerBs, Gen.C09.nParamsPerCf]; omega

/-- Base stations are indexed in sorted-id order: index `k` ↔ the `k`-th smallest id, both ways. -/
theorem bsmap_sorted (ids : List Nat) (hn : ids.Nodup) :
    (sortIds ids).Pairwise (· ≤ ·) ∧ (sortIds ids).Perm ids ∧
    (∀ b k, (createBsMap ids).1.get? b = some k ↔ (sortIds ids)[k]? = some b) ∧
    (∀ k, (createBsMap ids).2.get? k = (sortIds ids)[k]?) := by
  refine ⟨sortIds_sorted ids, sortIds_perm ids, ?_, ?_⟩
  · intro b k
    have := get?_invEnum (sortIds ids) 0 b k ((sortIds_perm ids).nodup_iff.mpr hn)
    simpa [createBsMap] using this
  · intro k
    have := get?_enumFrom (sortIds ids) 0 k
    simpa [createBsMap] using this

/-- The columns marked in the sparsity row of (base-station index `k`, sample `c`): the 6 parameters of base
station `k` at offset `6k`, and — for every sample but the first — the 6 parameters of CF pose `c` at offset
`6·n_bs + 6·(c−1)`.  All marks lie inside the parameter vector. -/
theorem sparsity_columns (defs : Defs) (k c col : Nat) :
    (col ∈ markRow defs k c ↔
      (6 * k ≤ col ∧ col < 6 * k + 6) ∨ (0 < c ∧ 6 * defs.nBss + 6 * (c - 1) ≤ col ∧ col < 6 * defs.nBss + 6 * (c - 1) + 6)) ∧
    (k < defs.nBss → c ≤ defs.nCfsInParams → col ∈ markRow defs k c →
      col < Gen.C09.lenParamVec defs.nBss defs.nCfsInParams) := by
  have h := mem_markRow defs k c col
  simp only [Gen.C09.nParamsPerBs, Gen.C09.nParamsPerCf] at h
  refine ⟨h, ?_⟩
  intro hk hc hm
  simp only [Gen.C09.lenParamVec, Gen.C09.nParamsPerBs, Gen.C09.nParamsPerCf]
  rcases h.mp hm with ⟨_, h2⟩ | ⟨h0, _, h2⟩ <;> omega

/-- The index arrays and the sparsity rows are aligned: `jac_sparsity` has `len_residual_vec = 2·(number of angle
pairs)` rows, and rows `2j` and `2j+1` carry the marks of the (base station, sample) of angle pair `j`; the
index arrays stay inside the base-station table, the sample list and the sensor list. -/
theorem sparsity_rows (ids : List Nat) (nSensors : Nat) (defs : Defs) (samples : List (List Nat))
    (pairs : List (Nat × Nat × Nat)) (hd : mkDefs ids samples.length nSensors = .ok defs) (hn : ids.Nodup)
    (hp : pairIndexes defs samples = .ok pairs) :
    ∃ rows, jacSparsity defs samples = .ok rows ∧ rows.length = (jacShape defs pairs.length).1 ∧
      (∀ j a, a < 2 → rows[2 * j + a]? = (pairs[j]?).map (fun t => markRow defs t.1 t.2.1)) ∧
      (∀ t ∈ pairs, t.1 < defs.nBss ∧ t.2.1 < samples.length ∧ t.2.1 ≤ defs.nCfsInParams ∧ t.2.2 < nSensors) := by
  refine ⟨_, allRowsFrom_eq defs 0 samples pairs hp, ?_, fun j a ha => getElem?_flatMap_pairRows defs pairs j a ha, ?_⟩
  · simp only [length_flatMap_pairRows, jacShape, Gen.C09.lenResidualVec]; omega
  · intro t ht
    obtain ⟨_, h2, h3, b, hb⟩ := allPairsFrom_mem defs 0 samples pairs hp t ht
    rcases Nat.eq_zero_or_pos samples.length with h0 | hpos
    · omega
    · obtain ⟨defs', hd', e1, _, e3, e4, e5, _, _⟩ := (layout_length ids samples.length nSensors).2 hpos
      rw [hd] at hd'; cases hd'
      have hk := ((bsmap_sorted ids hn).2.2.1 b t.1).mp (by rw [← e5]; exact hb)
      have hlt := (List.getElem?_eq_some_iff.mp hk).1
      rw [(sortIds_perm ids).length_eq] at hlt
      exact ⟨by omega, by omega, by omega, by omega⟩

/-- **Reading the answer back (`_condense_results`).**  For a parameter vector of the right length: the returned
`cf_poses` has one entry per sample, entry 0 is the identity pose `Pose()` ("the frame of the first sample"), entry
`i ≥ 1` is built from the 6 parameters at offset `6·n_bs + 6·(i−1)`; the pose stored under base-station id `b` is built
from the 6 parameters at offset `6k` where `k` is the rank of `b` among the sorted ids — so poses are attributed to
the right ids whatever the ids are; ids that are not in the system get no pose. -/
theorem condense_layout {α P : Type} (toPose : List α → P) (ident : P) (ids : List Nat) (nSamples nSensors : Nat)
    (defs : Defs) (hd : mkDefs ids nSamples nSensors = .ok defs) (hn : ids.Nodup) (x : List α)
    (hx : x.length = 6 * ids.length + 6 * (nSamples - 1)) :
    ∃ bs cfs, condense toPose ident defs x = .ok (bs, cfs) ∧ cfs.length = nSamples ∧ cfs[0]? = some ident ∧
      (∀ i, 1 ≤ i → i < nSamples → cfs[i]? = some (toPose ((x.drop (6 * ids.length + 6 * (i - 1))).take 6))) ∧
      (∀ k b, (sortIds ids)[k]? = some b → bs.get? b = some (toPose ((x.drop (6 * k)).take 6))) ∧
      (∀ b, b ∉ ids → bs.get? b = none) := by
  rcases Nat.eq_zero_or_pos nSamples with h0 | hpos
  · subst h0; rw [(layout_length ids 0 nSensors).1 rfl] at hd; cases hd
  obtain ⟨defs', hd', e1, e2, e3, _, _, e6, e7⟩ := (layout_length ids nSamples nSensors).2 hpos
  rw [hd] at hd'; cases hd'
  obtain ⟨bss, cfs, hps⟩ := paramsToStruct_ok defs x (by rw [e7]; exact hx)
  obtain ⟨_, hbl, hcl, hbs, _⟩ := paramsToStruct_rows defs x bss cfs hps
  have hS := (sortIds_perm ids).nodup_iff.mpr hn
  have hSlen : (sortIds ids).length = ids.length := (sortIds_perm ids).length_eq
  obtain ⟨cfPoses, hcf, hcflen, hcfrows⟩ := condenseCfs_ok toPose cfs (List.range (Gen.C09.condenseCfCount defs.nCfs))
    (by intro i hi; simp only [List.mem_range, Gen.C09.condenseCfCount] at hi; omega)
  obtain ⟨bsPoses, hbsd, hba, hbb⟩ := condenseBs_spec toPose defs (sortIds ids) hS
    (by intro k; rw [e6]; exact (bsmap_sorted ids hn).2.2.2 k) bss 0 [] (by omega)
  refine ⟨bsPoses, ident :: cfPoses, by simp only [condense, hps, hcf, hbsd], ?_, rfl, ?_, ?_, ?_⟩
  · simp only [List.length_cons, hcflen, List.length_range, Gen.C09.condenseCfCount]; omega
  · intro i h1 h2
    obtain ⟨j, rfl⟩ : ∃ j, i = j + 1 := ⟨i - 1, by omega⟩
    simp only [List.getElem?_cons_succ, Nat.add_sub_cancel]
    obtain ⟨row, hrow, hl⟩ := hcfrows j j (List.getElem?_range (by simp only [Gen.C09.condenseCfCount]; omega))
    rw [paramsToStruct_cfs defs x bss cfs hps j (by omega)] at hrow
    simp only [Option.some.injEq] at hrow
    rw [hl, ← hrow, e1]
    rfl
  · intro k b hk
    have hklt : k < defs.nBss := by
      have := (List.getElem?_eq_some_iff.mp hk).1; omega
    have hrow := hbs k hklt
    have := hba k _ b hrow (by simpa using hk)
    rw [this]; rfl
  · intro b hb
    rw [hbb b]
    · rfl
    · intro j _ e
      simp only [Nat.zero_add] at e
      exact hb ((sortIds_perm ids).mem_iff.mp (List.mem_of_getElem? e))

/-- **Writing the initial guess (`_populate_initial_guess` + `np.hstack`).**  `x0` has `6·n_bs + 6·(n_cf−1)` entries; the 6
parameters of the base station with id `b` are written at offset `6k`, `k` the rank of `b` among the sorted ids (whatever
the order of the `bs_poses` dict); CF pose `i ≥ 1` is written at offset `6·n_bs + 6·(i−1)`; CF pose 0 is not written
anywhere (it is the origin).  Together with `residual_row_reads` and `condense_layout`: writer, objective function and
reader agree on one layout. -/
theorem initial_guess_layout {α P : Type} (toParams : P → List α) (zero : α) (h6 : ∀ p, (toParams p).length = 6)
    (bsPoses : Dict P) (hn : bsPoses.keys.Nodup) (nSamples nSensors : Nat) (defs : Defs)
    (hd : mkDefs bsPoses.keys nSamples nSensors = .ok defs) (cfPoses : List P) (hcf : cfPoses.length ≤ nSamples) :
    ∃ x0, initialX0 toParams zero defs bsPoses cfPoses = .ok x0 ∧ x0.length = 6 * bsPoses.length + 6 * (nSamples - 1) ∧
      (∀ k b p, (sortIds bsPoses.keys)[k]? = some b → (b, p) ∈ bsPoses → (x0.drop (6 * k)).take 6 = toParams p) ∧
      (∀ i p, 1 ≤ i → cfPoses[i]? = some p → (x0.drop (6 * bsPoses.length + 6 * (i - 1))).take 6 = toParams p) := by
  rcases Nat.eq_zero_or_pos nSamples with h0 | hpos
  · subst h0; rw [(layout_length _ 0 nSensors).1 rfl] at hd; cases hd
  obtain ⟨defs', hd', e1, e2, e3, _, e5, _, _⟩ := (layout_length bsPoses.keys nSamples nSensors).2 hpos
  rw [hd] at hd'; cases hd'
  have hkl : bsPoses.keys.length = bsPoses.length := Dict.length_keys bsPoses
  obtain ⟨_, hperm, hmap, _⟩ := bsmap_sorted bsPoses.keys hn
  have hSlen : (sortIds bsPoses.keys).length = bsPoses.keys.length := hperm.length_eq
  have hw0 : ∀ (n : Nat) (r : List α), r ∈ List.replicate n (List.replicate 6 zero) → r.length = 6 := by
    intro n r hr; rw [(List.mem_replicate.mp hr).2]; simp
  obtain ⟨pb, hpb, hpbl, hpbw, hpba, _⟩ := fillBs_spec toParams 6 h6 defs
    (by intro b b' k h1 h2
        rw [e5] at h1 h2
        have a1 := (hmap b k).mp h1
        have a2 := (hmap b' k).mp h2
        rw [a1] at a2; exact Option.some.inj a2)
    bsPoses hn (List.replicate defs.nBss (List.replicate 6 zero)) (hw0 _)
    (by intro b hb
        obtain ⟨k, hk⟩ := List.getElem?_of_mem (hperm.mem_iff.mpr hb)
        refine ⟨k, by rw [e5]; exact (hmap b k).mpr hk, ?_⟩
        have := (List.getElem?_eq_some_iff.mp hk).1
        simp only [List.length_replicate]; omega)
  obtain ⟨pc, hpc, hpcl, hpcw, hpca, _⟩ := fillCfs_spec toParams 6 h6 (cfPoses.drop 1) 0
    (List.replicate defs.nCfsInParams (List.replicate 6 zero)) (hw0 _)
    (by simp only [List.length_drop, List.length_replicate]; omega)
  have hlb := length_flatten_uniform 6 pb hpbw
  have hlc := length_flatten_uniform 6 pc hpcw
  simp only [List.length_replicate] at hpbl hpcl
  refine ⟨pb.flatten ++ pc.flatten, ?_, ?_, ?_, ?_⟩
  · simp only [initialX0]
    rw [show Gen.C09.nParamsPerBs = 6 from rfl, show Gen.C09.nParamsPerCf = 6 from rfl, hpb, hpc]
  · simp only [List.length_append, hlb, hlc, hpbl, hpcl]; omega
  · intro k b p hk hmem
    have hidx := (hmap b k).mpr hk
    have hrow := hpba b p k hmem (by rw [e5]; exact hidx)
    have hklt : k < pb.length := (List.getElem?_eq_some_iff.mp hrow).1
    rw [List.drop_append_of_le_length (by rw [hlb]; omega), List.take_append_of_le_length (by rw [List.length_drop, hlb]; omega),
      Nat.mul_comm 6 k]
    exact flatten_window 6 pb hpbw k _ hrow
  · intro i p hi hp
    obtain ⟨j, rfl⟩ : ∃ j, i = j + 1 := ⟨i - 1, by omega⟩
    have hrow := hpca j p (by rw [List.getElem?_drop, Nat.add_comm]; exact hp)
    simp only [Nat.zero_add, Nat.add_sub_cancel] at hrow ⊢
    rw [show 6 * bsPoses.length + 6 * j = pb.flatten.length + j * 6 by rw [hlb, hpbl, e1, hkl]; omega, List.drop_append,
      List.drop_of_length_le (by omega), Nat.add_sub_cancel_left, List.nil_append]
    exact flatten_window 6 pc hpcw j _ hrow

/-- **`solve` is repeatable and leaves the caller's objects alone.**  Any number of consecutive `solve` calls on the same
`initial_guess` / `matched_samples` objects (retry, re-solve): the objects are unchanged afterwards and every call
starts the optimiser from the same `x0` — the one `initial_guess_layout` describes.  (By construction of the session
model, whose only assumption — no entry point mutates a caller object — is the obligation `gen_entry_points_pure`; the
correspondence and search() call the real entry points repeatedly on the same objects.) -/
theorem solve_repeatable {α P : Type} (toParams : P → List α) (zero : α) (defs : Defs) (n : Nat) (a : SolveArgs P) :
    (solveSession toParams zero defs n a).1 = a ∧
    ∀ r ∈ (solveSession toParams zero defs n a).2, r = initialX0 toParams zero defs a.guessBs a.guessCf := by
  induction n with
  | zero => exact ⟨rfl, by simp [solveSession]⟩
  | succ n ih =>
    simp only [solveSession, solveCall]
    refine ⟨ih.1, ?_⟩
    intro r hr
    rcases List.mem_cons.mp hr with rfl | h
    · rfl
    · exact ih.2 r h

section T4dep
variable {α β : Type}

/-- **What a residual row reads.**  Row `2j+a` of `_calc_residual` is computed (by whatever row-wise numerics
`rowFn`) from: the 6 parameters at offset `6k` (`k` = sorted index of the row's base station), the pose of the
row's sample — the ZERO pose for sample 0 (CF 0 is pinned: "the frame of the first sample"), the 6 parameters at
offset `6·n_bs + 6·(c−1)` for sample `c ≥ 1` — and the row's sensor. -/
theorem residual_row_reads (rowFn : Nat → List α → List α → Nat → Nat → β) (zero : α) (defs : Defs)
    (pairs : List (Nat × Nat × Nat)) (params : List α) (res : List β)
    (h : calcResidual rowFn zero defs pairs params = .ok res) :
    params.length = 6 * defs.nBss + 6 * defs.nCfsInParams ∧ res.length = 2 * pairs.length ∧
    ∀ j k c s, pairs[j]? = some (k, c, s) →
      res[2 * j]? = some (rowFn (2 * j) ((params.drop (6 * k)).take 6)
        (if c = 0 then List.replicate 6 zero else (params.drop (6 * defs.nBss + 6 * (c - 1))).take 6) s 0) ∧
      res[2 * j + 1]? = some (rowFn (2 * j + 1) ((params.drop (6 * k)).take 6)
        (if c = 0 then List.replicate 6 zero else (params.drop (6 * defs.nBss + 6 * (c - 1))).take 6) s 1) := by
  obtain ⟨h1, h2, h3⟩ := calcResidual_reads rowFn zero defs pairs params res h
  refine ⟨by simpa [Gen.C09.lenParamVec, Gen.C09.nParamsPerBs, Gen.C09.nParamsPerCf, Nat.mul_comm] using h1, h2, ?_⟩
  intro j k c s hj
  obtain ⟨_, _, r0, r1⟩ := h3 j k c s hj
  exact ⟨r0, r1⟩

/-- **The Jacobian sparsity pattern marks every parameter a residual row depends on.**  For the index arrays
and sparsity rows built from the same samples: if two parameter vectors agree on every column marked in row `r`
of `jac_sparsity`, then row `r` of the residual is the same for both — for ANY row-wise residual numerics.
(So scipy's grouped finite differences, which perturb unmarked columns together, cannot corrupt a row.) -/
theorem sparsity_covers_dependencies (rowFn : Nat → List α → List α → Nat → Nat → β) (zero : α) (defs : Defs)
    (samples : List (List Nat)) (pairs : List (Nat × Nat × Nat)) (rows : List (List Nat))
    (hp : pairIndexes defs samples = .ok pairs) (hr : jacSparsity defs samples = .ok rows)
    (params params' : List α) (res res' : List β)
    (h1 : calcResidual rowFn zero defs pairs params = .ok res)
    (h2 : calcResidual rowFn zero defs pairs params' = .ok res')
    (r : Nat) (cols : List Nat) (hrow : rows[r]? = some cols)
    (hagree : ∀ c ∈ cols, params[c]? = params'[c]?) :
    res[r]? = res'[r]? ∧ rows.length = res.length := by
  have hrows := allRowsFrom_eq defs 0 samples pairs hp
  simp only [jacSparsity] at hr
  rw [hrows] at hr
  simp only [Except.ok.injEq] at hr
  subst hr
  obtain ⟨_, l1, rd1⟩ := calcResidual_reads rowFn zero defs pairs params res h1
  obtain ⟨_, l2, rd2⟩ := calcResidual_reads rowFn zero defs pairs params' res' h2
  refine ⟨?_, by rw [length_flatMap_pairRows, l1]⟩
  have hr2 : r = 2 * (r / 2) + r % 2 := by omega
  have hlt : r % 2 < 2 := Nat.mod_lt _ (by decide)
  rw [hr2, getElem?_flatMap_pairRows defs pairs (r / 2) (r % 2) hlt] at hrow
  cases hpj : pairs[r / 2]? with
  | none => rw [hpj] at hrow; cases hrow
  | some t =>
    obtain ⟨k, c, s⟩ := t
    rw [hpj] at hrow
    simp only [Option.map_some, Option.some.injEq] at hrow
    subst hrow
    obtain ⟨_, _, a0, a1⟩ := rd1 (r / 2) k c s hpj
    obtain ⟨_, _, b0, b1⟩ := rd2 (r / 2) k c s hpj
    obtain ⟨e1, e2⟩ := slices_agree zero defs k c params params' hagree
    rw [hr2]
    rcases (show r % 2 = 0 ∨ r % 2 = 1 by omega) with hm | hm
    · rw [hm, Nat.add_zero, a0, b0, e1, e2]
    · rw [hm, a1, b1, e1, e2]

end T4dep

/-! ## T3 — the residual vanishes at the truth (over any field; numpy's primitives abstract) -/

section T3
variable {α : Type} [Field α]

/-- `-rotation vector == inverse rotation` (comment in `_calc_angle_pairs`): as `_rotate_translate` computes it, the
rotation by `-r` is the TRANSPOSE of the rotation by `r` (`⟨R(r) p, q⟩ = ⟨p, R(-r) q⟩`), and the zero rotation
vector (CF sample 0, `nan_to_num` branch) is the identity. -/
theorem negated_rotvec_is_transpose (tr : Trig α) (h : TrigLaws tr) (r p q : V3 α) :
    (rotBy tr r p).dot q = p.dot (rotBy tr r.neg q) ∧ rotBy tr V3.zero p = p :=
  ⟨rotBy_adjoint tr h r p q, rotBy_zero tr h p⟩

/-- **Zero residual at the truth.**  Let a sensor be measured without error the way the physical model (and the
repo's test fixture) says: sensor position in the room `R(r_cf)·s + t_cf` (`Pose.rotate_translate`), seen from the
base station `R(r_bs)ᵀ·(that − t_bs)` (`Pose.inv_rotate_translate`, `RT` = any transpose of the base station's
rotation), sweep angles `(atan2(y, x), atan2(z, x))` (`from_cart`, `angle_list` order).  Then the two residual
rows of that sensor at the TRUE parameters are 0 — for every base-station and CF pose, every sensor, in any
field, for any `norm/cos/sin/atan2/tan` satisfying `TrigLaws`.  With `cf = (0, 0)` this is the pinned first sample. -/
theorem zero_residual_at_truth (tr : Trig α) (h : TrigLaws tr) (bs cf : V3 α × V3 α) (sens : V3 α)
    (RT : V3 α → V3 α) (hRT : ∀ p q, (rotBy tr bs.1 p).dot q = p.dot (RT q)) (target : α × α)
    (htarget : target = fromCartAngles tr (RT ((poseApply (rotBy tr cf.1) cf.2 sens).sub bs.2))) :
    residualPair tr bs cf sens target = (0, 0) := by
  rw [htarget, transpose_unique tr h bs.1 RT hRT, ← calcAnglePair_eq]
  exact residualPair_zero tr h bs cf sens

end T3

/-! ## T5 — IPPE <-> CF axis permutations -/

/-- Both permutation matrices are proper rotations (orthogonal, determinant +1) and mutual inverses. -/
theorem ippe_rotations_proper :
    matMul Gen.C09.rIppeToCf rCfToIppe = ident3 ∧ matMul rCfToIppe Gen.C09.rIppeToCf = ident3 ∧
    rCfToIppe = transpose3 Gen.C09.rIppeToCf ∧ transpose3 rCfToIppe = Gen.C09.rIppeToCf ∧
    det3 Gen.C09.rIppeToCf = 1 ∧ det3 rCfToIppe = 1 := by decide

/-- The axis convention: IPPE/OpenCV (x right, y down, z forward) = (−y, −z, x) of the CF/base-station frame
(x forward, y left, z up) — the same sign flip `_cf_to_ippe` applies to the image points (`gen_ippe_wrapping`). -/
theorem ippe_axes (x y z : Int) : vecToIppe [x, y, z] = [-y, -z, x] ∧ vecToCf [x, y, z] = [z, -x, -y] := by
  simp [vecToIppe, vecToCf, matVec, dot, rCfToIppe, transpose3, col, Gen.C09.rIppeToCf]

/-- Vector conversions are mutually inverse. -/
theorem ippe_vec_roundtrip (x y z : Int) :
    vecToCf (vecToIppe [x, y, z]) = [x, y, z] ∧ vecToIppe (vecToCf [x, y, z]) = [x, y, z] := by
  simp [vecToIppe, vecToCf, matVec, dot, rCfToIppe, transpose3, col, Gen.C09.rIppeToCf]

/-- The rotation-matrix conversion `R ↦ P R Pᵀ` loses nothing (conjugating back returns `R`), maps the identity
to the identity and preserves the determinant. -/
theorem ippe_mat_roundtrip (a b c d e f g h i : Int) :
    matToIppe (matToCf [[a, b, c], [d, e, f], [g, h, i]]) = [[a, b, c], [d, e, f], [g, h, i]] ∧
    det3 (matToCf [[a, b, c], [d, e, f], [g, h, i]]) = det3 [[a, b, c], [d, e, f], [g, h, i]] ∧
    matToCf ident3 = ident3 := by
  refine ⟨?_, ?_, by decide⟩
  · simp [matToIppe, matToCf, matMul, dot, rCfToIppe, transpose3, col, Gen.C09.rIppeToCf]
  · simp [matToCf, matMul, dot, rCfToIppe, transpose3, col, Gen.C09.rIppeToCf, det3]
    grind

/-! ## Non-vacuity -/

example : Segmentation (20 : Int) [⟨0, 1, 7⟩, ⟨5, 2, 8⟩, ⟨20, 1, 9⟩, ⟨21, 3, 1⟩]
    [((⟨0, 1, 7⟩ : Meas Int Nat), [⟨5, 2, 8⟩, ⟨20, 1, 9⟩]), (⟨21, 3, 1⟩, [])] :=
  .cons ⟨0, 1, 7⟩ [⟨5, 2, 8⟩, ⟨20, 1, 9⟩] [⟨21, 3, 1⟩] [(⟨21, 3, 1⟩, [])] (by decide) (by decide)
    (.cons ⟨21, 3, 1⟩ [] [] [] (by decide) (by decide) .nil)
example : matchSamples ([⟨0, 1, 7⟩, ⟨5, 2, 8⟩, ⟨20, 1, 9⟩, ⟨21, 3, 1⟩] : List (Meas Int Nat)) 20 2 =
    [{ ts := 0, angles := [(1, 9), (2, 8)] }] := by decide

/-- a chain 7 - 1 - 5 - 0 (the estimator test's structure) is linked; with the middle sample missing it is not -/
example : ∀ b ∈ allBs ([[(7, ()), (1, ())], [(1, ()), (5, ())], [(5, ()), (0, ())]] : List (Dict Unit)),
    Linked (keySets ([[(7, ()), (1, ())], [(1, ()), (5, ())], [(5, ()), (0, ())]] : List (Dict Unit))) 7 b := by
  have l7 : Linked [[7, 1], [1, 5], [5, 0]] 7 7 := .ref
  have l1 : Linked [[7, 1], [1, 5], [5, 0]] 7 1 := .step l7 (s := [7, 1]) (by decide) (by decide) (by decide)
  have l5 : Linked [[7, 1], [1, 5], [5, 0]] 7 5 := .step l1 (s := [1, 5]) (by decide) (by decide) (by decide)
  have l0 : Linked [[7, 1], [1, 5], [5, 0]] 7 0 := .step l5 (s := [5, 0]) (by decide) (by decide) (by decide)
  intro b hb
  have : b = 7 ∨ b = 1 ∨ b = 5 ∨ b = 0 := by simpa [allBs, dedup, Dict.keys] using hb
  rcases this with rfl | rfl | rfl | rfl <;> assumption
example : estimate (P := Nat) ⟨fun a _ c => a + c, fun a _ => a, fun l => l.length⟩ (fun _ _ l => l.headD 0)
    [[(7, 1), (1, 2)], [(5, 3), (0, 4)]] = .error .cannotLink := by rfl
/-- the laws of `estimate_exact_on_consistent_data` are satisfiable: 1-D poses (translations) -/
example : PoseLaws (P := Int) ⟨fun g c u => g - c + u, fun g c => g - c, fun l => l.headD 0⟩ (fun x u => u - x) :=
  ⟨by intro g x u; show g - (g - x) + (u - x) = u; omega, by intro g x; show g - (g - x) = x; omega, by
    intro p l hl h
    cases l with
    | nil => exact absurd rfl hl
    | cons a r => simpa using h a (by simp)⟩
/-- `TrigLaws` is satisfiable (a degenerate instance over ℚ; the real functions satisfy the same five facts) -/
example : TrigLaws (α := ℚ) ⟨fun _ => 0, fun _ => 1, fun _ => 0, fun _ _ => 0, fun a => a, fun a => decide (a = 0)⟩ :=
  ⟨fun _ => rfl, rfl, fun a => by simp, rfl, rfl⟩
example : gram 4 ([[1, 2, 3, 4], [-1, -2, -3, -4]] : List (List Int)) = gram 4 [[1, 2, 3, 4], [1, 2, 3, 4]] := by decide
example : PickValid (fun l => l.headD 0) := by
  intro l hl; cases l with
  | nil => exact absurd rfl hl
  | cons a r => simp

end CfVerif.C09

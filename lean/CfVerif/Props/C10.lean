/-
Props/C10 — property theorems for C10 (unanswered requests are retried until answered, and only then).
Helper lemmas are in Proofs/C10.  Every theorem is about Model/C10, whose decisions inside `send_packet`, whose
handling of the pending timers in `close_link` / `_link_error_cb` / `open_link` and whose constants are regenerated
from /repo (Gen/C10) and packaged as `srcCfg`.
-/
import CfVerif.Proofs.C10
namespace CfVerif.C10

/-! ## Gen obligations: what the model assumes about the current source -/

/-- The decisions of `send_packet`: the packet is handed to the link iff a link is open and - on a resend - the timer
whose callback asks for it is still the one registered for the pattern; a retry timer is armed on a first transmission
iff a reply is expected and the link needs resending, and on a resend iff the packet is transmitted.  The retry hands the
request's own timeout back.  `close_link`, `_link_error_cb` and `open_link` cancel the registered timers and forget the
patterns. -/
theorem src_repaired : srcCfg.Repaired := by
  constructor <;> decide

theorem gen_retry_args : Gen.C10.retryPk = "pk" ∧ Gen.C10.retryPattern = "pattern" ∧
    Gen.C10.retryTimer = Gen.C10.timerVar ∧ Gen.C10.timerIntervals = ["timeout"] := by decide
theorem gen_patterns : Gen.C10.freshPattern = "(pk.header,) + expected_reply" ∧
    Gen.C10.resendPattern = "expected_reply" := by decide
theorem gen_size_check : Gen.C10.sizeCheck = "not pk.is_data_size_valid()" ∧
    Gen.C10.sizeValidCompares = ["self.available_data_size() >= 0", "return self.MAX_DATA_SIZE - self.get_data_size()"] := by decide
theorem gen_check_for_answers :
    Gen.C10.checkCompares = ["len(self._answer_patterns) > 0", "len(p) <= len(data)", "p == data[0:len(p)]",
      "len(match) >= len(longest_match)", "len(longest_match) > 0"] ∧
    Gen.C10.checkData = "(pk.header,) + tuple(pk.data)" ∧ Gen.C10.checkMatch = "data[0:len(p)]" ∧
    Gen.C10.checkLoop = "for p in list(self._answer_patterns.keys())" ∧
    Gen.C10.checkFinalCond = "len(longest_match) > 0" ∧
    Gen.C10.checkFinalBody = ["self._answer_patterns[longest_match].cancel()", "del self._answer_patterns[longest_match]"] ∧
    Gen.C10.checkRegistered = true := by decide
theorem gen_setpoint : Gen.C10.setpointSendArgs = ["pk"] ∧ Gen.C10.setpointSize ≤ Gen.C10.maxDataSize := by decide

/-! ## longest-prefix cancellation -/

/-- An incoming packet cancels only the pending request whose pattern is its longest matching prefix: that pattern is
forgotten and the timer registered for it is cancelled; every other timer, every other registration and the
transmission log are untouched.  A packet no pending pattern is a prefix of changes nothing.
(For every state, i.e. every set of simultaneously pending patterns, whatever prefixes they share.) -/
theorem longest_prefix_only (c : Cfg) (s : State) (h : Nat) (d : List Nat) :
    (∀ p, LongestPending s.patterns (h :: d) p → p ≠ [] →
      ∃ i, dget s.patterns p = some i ∧
        step c s (.recv h d) = .ok { s with timers := s.timers.modify i cancelT, patterns := ddel s.patterns p }) ∧
    ((∀ q ∈ keys s.patterns, ¬ q <+: h :: d) → step c s (.recv h d) = .ok s) := by
  constructor
  · intro p hp hne
    have hlm := longestMatch_of_longestPending hp hne
    have hsome : (dget s.patterns p).isSome := (dget_isSome_iff _ _).mpr hp.1
    obtain ⟨i, hi⟩ := Option.isSome_iff_exists.mp hsome
    refine ⟨i, hi, ?_⟩
    have hpos : p.length > 0 := List.length_pos_iff.mpr hne
    simp only [step, checkForAnswers, hlm, hpos, if_true, hi]
  · intro hnone
    simp only [step, checkForAnswers, longestMatch_nil_of_none hnone, List.length_nil, Nat.lt_irrefl, if_false]

/-- what "untouched" means for the other registrations and timers -/
theorem longest_prefix_only_frame (ts : List Timer) (pats : Dict) (p q : Pattern) (i j : Nat) (hq : q ≠ p) (hj : j ≠ i) :
    dget (ddel pats p) q = dget pats q ∧ (ts.modify i cancelT)[j]? = ts[j]? := by
  constructor
  · rw [dget_ddel]; simp [Ne.symm hq]
  · rw [List.getElem?_modify]; simp [Ne.symm hj]

example : LongestPending [([93, 1], 0), ([93, 1, 2], 1), ([93, 1, 2, 3], 2)] [93, 1, 2, 9] [93, 1, 2] := by
  refine ⟨by decide, by decide, ?_⟩
  intro q hq hpre
  simp only [keys, List.map_cons, List.map_nil, List.mem_cons, List.not_mem_nil, or_false] at hq
  rcases hq with rfl | rfl | rfl
  · decide
  · decide
  · exact absurd hpre (by decide)

/-! ## the code before the repair (D10): concrete counterexamples -/

/-- D10, face 1: the timer has fired, the answer arrives, the callback runs afterwards - and transmits. -/
theorem live_retry_after_answer_counterexample :
    (run liveCfg init [.openLink true, .send ⟨1, 93, 2⟩ [3, 7] 200, .advance 200, .expire 0,
        .recv 93 [3, 7, 0], .run 0]).log.map (fun t => (t.time, t.sid, t.pk.id, t.retry))
      = [(200, 0, 1, some 0), (0, 0, 1, none)] := by decide

/-- D10, face 2: close + reopen within the timeout puts the session-0 request on the session-1 link. -/
theorem live_cross_session_counterexample :
    (run liveCfg init [.openLink true, .send ⟨1, 93, 2⟩ [3, 7] 1000, .advance 300, .closeSetpoint, .closeRest,
        .openLink true, .advance 700, .expire 0, .run 0]).log.map (fun t => (t.time, t.sid, t.pk.id))
      = [(1000, 1, 1), (300, 0, 0), (0, 0, 1)] := by decide

end CfVerif.C10

/-
Props/C10 — property theorems for C10 (unanswered requests are retried until answered, and only then).
Helper lemmas are in Proofs/C10.  Every theorem is about Model/C10, whose decisions inside `send_packet`, whose
handling of the pending timers in `close_link` / `_link_error_cb` / `open_link` and whose constants are regenerated
from /repo (Gen/C10) and packaged as `srcCfg`.
-/
import CfVerif.Proofs.C10
namespace CfVerif.C10

/-! ## Gen obligations: what the model assumes about the current source -/

/-- The decisions of `send_packet`: the packet is handed to the link iff a link is open and - on a resend - the timer
whose callback asks for it is still the one registered for the pattern; a retry timer is armed on a first transmission
iff a reply is expected and the link needs resending, and on a resend iff the packet is transmitted.  The retry hands the
request's own timeout back.  `close_link`, `_link_error_cb` and `open_link` cancel the registered timers and forget the
patterns. -/
theorem src_repaired : srcCfg.Repaired := by
  constructor <;> decide

theorem gen_retry_args : Gen.C10.retryPk = "pk" ∧ Gen.C10.retryPattern = "pattern" ∧
    Gen.C10.retryTimer = Gen.C10.timerVar ∧ Gen.C10.timerIntervals = ["timeout"] := by decide
theorem gen_patterns : Gen.C10.freshPattern = "(pk.header,) + expected_reply" ∧
    Gen.C10.resendPattern = "expected_reply" := by decide
theorem gen_size_check : Gen.C10.sizeCheck = "not pk.is_data_size_valid()" ∧
    Gen.C10.sizeValidCompares = ["self.available_data_size() >= 0", "return self.MAX_DATA_SIZE - self.get_data_size()"] := by decide
theorem gen_check_for_answers :
    Gen.C10.checkCompares = ["len(self._answer_patterns) > 0", "len(p) <= len(data)", "p == data[0:len(p)]",
      "len(longest_match) > 0"] ∧
    Gen.C10.checkData = "(pk.header,) + tuple(pk.data)" ∧ Gen.C10.checkMatch = "data[0:len(p)]" ∧
    Gen.C10.checkLoop = "for p in list(self._answer_patterns.keys())" ∧
    Gen.C10.checkFinalCond = "len(longest_match) > 0" ∧
    Gen.C10.checkFinalBody = ["self._answer_patterns[longest_match].cancel()", "del self._answer_patterns[longest_match]"] ∧
    Gen.C10.checkRegistered = true := by decide
/-- `send_packet` reads `self.link` once under the lock.  The model's steps are atomic, so this is not used by the theorems;
it is what keeps a link error + reconnect in ANOTHER thread, in the middle of a `send_packet`, from diverting the packet to the
new link (found with real threads under the virtual-time scheduler, see docs/C10.md). -/
theorem gen_link_read_once : Gen.C10.sendReadsLinkOnce = true := by decide
/-- the match comparison of `_check_for_answers` (translated, `Gen.C10.checkBetter`) prefers the strictly longer match -/
theorem gen_check_better (a b : Nat) :
    (b < a → Gen.C10.checkBetter a b = true) ∧ (a < b → Gen.C10.checkBetter a b = false) := checkBetter_spec a b
/-- `close_link` / `_link_error_cb` forget the patterns before they run the user callbacks (which may open a new link), and
`open_link` forgets them before the new link object is installed: the model's `closeRest` / `linkError` / `openLink` steps do it in
that order. -/
theorem gen_forget_order : Gen.C10.closeForgetsBeforeCallbacks = true ∧ Gen.C10.errorForgetsBeforeCallbacks = true ∧
    Gen.C10.openForgetsBeforeLink = true := by decide
/-- The wrapper around the critical section: the lock is released in a `finally`; `_link_error_cb` only records an error that
the driver reports to the thread that is inside `send_packet`, and `send_packet` runs it after the release
(`stepReportingError` in the model). -/
theorem gen_deferred_link_error : Gen.C10.errorCbDefersInsideSend = true ∧ Gen.C10.sendRunsDeferredErrorAfterRelease = true ∧
    Gen.C10.sendLockReleasedInFinally = true ∧ Gen.C10.sendOwnerTracked = true := by decide
theorem gen_setpoint : Gen.C10.setpointSendArgs = ["pk"] ∧ Gen.C10.setpointSize ≤ Gen.C10.maxDataSize := by decide

/-! ## longest-prefix cancellation -/

/-- An incoming packet cancels only the pending request whose pattern is its longest matching prefix: that pattern is
forgotten and the timer registered for it is cancelled; every other timer, every other registration and the
transmission log are untouched.  A packet no pending pattern is a prefix of changes nothing.
(For every state, i.e. every set of simultaneously pending patterns, whatever prefixes they share.) -/
theorem longest_prefix_only (c : Cfg) (s : State) (h : Nat) (d : List Nat) :
    (∀ p, LongestPending s.patterns (h :: d) p → p ≠ [] →
      ∃ i, dget s.patterns p = some i ∧
        step c s (.recv h d) = .ok { s with timers := s.timers.modify i cancelT, patterns := ddel s.patterns p }) ∧
    ((∀ q ∈ keys s.patterns, ¬ q <+: h :: d) → step c s (.recv h d) = .ok s) := by
  constructor
  · intro p hp hne
    have hlm := longestMatch_of_longestPending hp hne
    have hsome : (dget s.patterns p).isSome := (dget_isSome_iff _ _).mpr hp.1
    obtain ⟨i, hi⟩ := Option.isSome_iff_exists.mp hsome
    refine ⟨i, hi, ?_⟩
    have hpos : p.length > 0 := List.length_pos_iff.mpr hne
    simp only [step, checkForAnswers, hlm, hpos, if_true, hi]
  · intro hnone
    simp only [step, checkForAnswers, longestMatch_nil_of_none hnone, List.length_nil, Nat.lt_irrefl, if_false]

/-- what "untouched" means for the other registrations and timers -/
theorem longest_prefix_only_frame (ts : List Timer) (pats : Dict) (p q : Pattern) (i j : Nat) (hq : q ≠ p) (hj : j ≠ i) :
    dget (ddel pats p) q = dget pats q ∧ (ts.modify i cancelT)[j]? = ts[j]? := by
  constructor
  · rw [dget_ddel]; simp [Ne.symm hq]
  · rw [List.getElem?_modify]; simp [Ne.symm hj]

example : LongestPending [([93, 1], 0), ([93, 1, 2], 1), ([93, 1, 2, 3], 2)] [93, 1, 2, 9] [93, 1, 2] := by
  refine ⟨by decide, by decide, ?_⟩
  intro q hq hpre
  simp only [keys, List.map_cons, List.map_nil, List.mem_cons, List.not_mem_nil, or_false] at hq
  rcases hq with rfl | rfl | rfl
  · decide
  · decide
  · exact absurd hpre (by decide)

/-! ## The property clauses, as predicates of the code variant `c` (so that they can be proved of the current
source `srcCfg` and refuted of the unrepaired code `liveCfg`).  Throughout, `evs₁` is an arbitrary history (any
schedule of sends, replies, timer expiries, timer callbacks, closes, link errors, re-opens) leading to the state `s`,
and `evs₂` an arbitrary continuation. -/

/-- Request `r` (packet `pk`, pattern `p`, timeout `T`) is outstanding: its pattern is registered to a live retry timer
(armed, or fired with its callback pending) on the open link, and that timer is due exactly one timeout after the
latest transmission of the request, which carried `pk` and went to the open link. -/
def Outstanding (s : State) (r : Nat) (pk : Pk) (p : Pattern) (T : Nat) : Prop :=
  ∃ j t l last, s.timers[j]? = some t ∧ dget s.patterns p = some j ∧ s.link = some l ∧
    t.req = r ∧ t.pk = pk ∧ t.pattern = p ∧ t.interval = T ∧ (t.st = .armed ∨ t.st = .expired) ∧
    s.log.find? (fun x => x.req == r) = some last ∧ last.pk = pk ∧ last.sid = l.sid ∧ last.time + T = t.deadline

/-- "retransmitted at its timeout interval for as long as the link is open until a matching packet is received":
a request sent with an expected reply on an open link that needs resending is transmitted at once and stays
`Outstanding` through every continuation in which the link is not closed / lost / replaced, no packet arrives whose
longest pending prefix is the request's pattern, and the same pattern is not requested again. -/
def RetriesUntilAnswered (c : Cfg) : Prop :=
  ∀ (evs₁ : List Ev) (l : Link) (pk : Pk) (ex : Pattern) (T : Nat) (evs₂ : List Ev),
    let s := run c init evs₁
    s.link = some l → l.needsResending = true → ex ≠ [] → pk.size ≤ Gen.C10.maxDataSize →
    let s1 := stepT c s (.send pk ex T)
    (∃ tx, s1.log = tx :: s.log ∧ tx.pk = pk ∧ tx.sid = l.sid ∧ tx.time = s.now ∧ tx.req = s.nextReq ∧ tx.retry = none) ∧
    (QuietRun c s1 (pk.header :: ex) evs₂ → Outstanding (run c s1 evs₂) s.nextReq pk (pk.header :: ex) T)

/-- ... and the outstanding retry does happen: once the timer is due its thread can take its two steps, and the
callback retransmits the same packet on the open link and schedules the next retry one timeout later. -/
def RetryFires (c : Cfg) : Prop :=
  ∀ (evs : List Ev) (r : Nat) (pk : Pk) (p : Pattern) (T j : Nat) (t : Timer) (l : Link),
    let s := run c init evs
    s.timers[j]? = some t → dget s.patterns p = some j → s.link = some l →
    t.req = r → t.pk = pk → t.pattern = p → t.interval = T →
    (t.st = .armed → t.deadline ≤ s.now →
      step c s (.expire j) = .ok { s with timers := s.timers.modify j (setSt .expired) }) ∧
    (t.st = .expired →
      ∃ s', step c s (.run j) = .ok s' ∧
        s'.log = { time := s.now, sid := l.sid, pk := pk, req := r, retry := some j, due := t.deadline, interval := T,
                   onClosed := false } :: s.log ∧
        Outstanding s' r pk p T)

/-- consecutive transmissions of one request: the later one is a retry, on the same link, of the same packet, due
exactly one timeout (the interval the request was sent with) after the earlier one, and not sent before it is due -/
def RetryGap (a b : Tx) : Prop :=
  b.time + a.interval = a.due ∧ a.due ≤ a.time ∧ b.pk = a.pk ∧ b.sid = a.sid ∧ b.interval = a.interval ∧ a.retry.isSome

/-- "at its timeout interval": in every run the transmissions of every request are spaced by `RetryGap`. -/
def RetriesAtTimeout (c : Cfg) : Prop :=
  ∀ (evs : List Ev) (r : Nat), GapsOf RetryGap (txOf r (run c init evs).log)

/-- "and is not retransmitted after that": once a packet arrives whose longest pending prefix is the request's
pattern, the request is never transmitted again. -/
def NoRetryAfterAnswer (c : Cfg) : Prop :=
  ∀ (evs₁ : List Ev) (h : Nat) (d : List Nat) (evs₂ : List Ev) (j : Nat) (t : Timer),
    let s := run c init evs₁
    s.timers[j]? = some t → LongestPending s.patterns (h :: d) t.pattern →
    ∀ tx ∈ (run c (stepT c s (.recv h d)) evs₂).log, tx.req = t.req → tx ∈ s.log

/-- "nothing is ever transmitted on a closed link": while no link is open no step transmits; a step transmits at most
one packet, to the link that is open when it runs; and that link object has never been closed. -/
def NothingOnClosedLink (c : Cfg) : Prop :=
  ∀ (evs : List Ev) (e : Ev),
    let s := run c init evs
    (s.link = none → (stepT c s e).log = s.log) ∧
    (∀ l, s.link = some l → (stepT c s e).log = s.log ∨ ∃ tx, (stepT c s e).log = tx :: s.log ∧ tx.sid = l.sid) ∧
    (∀ tx ∈ s.log, tx.onClosed = false)

/-- "a request from one session is never transmitted in a later session": all transmissions of a request go to one
link object; link objects are never reused (`sid` of a new link is larger than that of every earlier transmission);
and after `close_link`, a link error or `open_link` no request made before is ever transmitted again. -/
def NoCrossSessionTx (c : Cfg) : Prop :=
  (∀ (evs : List Ev), ∀ a ∈ (run c init evs).log, ∀ b ∈ (run c init evs).log, a.req = b.req → a.sid = b.sid) ∧
  (∀ (evs : List Ev), ∀ tx ∈ (run c init evs).log, tx.sid < (run c init evs).nextSid) ∧
  (∀ (evs₁ : List Ev) (e : Ev) (evs₂ : List Ev), (e = .closeRest ∨ e = .linkError ∨ ∃ nr, e = .openLink nr) →
    let s := run c init evs₁
    ∀ tx ∈ (run c (stepT c s e) evs₂).log, tx.req < s.nextReq → tx ∈ s.log)

/-- "on links that guarantee delivery no retransmission happens": a request sent while the open link does not need
resending is transmitted exactly once, no timer is created for it, and it is never transmitted again. -/
def ReliableLinkNoRetry (c : Cfg) : Prop :=
  ∀ (evs₁ : List Ev) (l : Link) (pk : Pk) (ex : Pattern) (T : Nat) (evs₂ : List Ev),
    let s := run c init evs₁
    s.link = some l → l.needsResending = false → pk.size ≤ Gen.C10.maxDataSize →
    let s1 := stepT c s (.send pk ex T)
    s1.timers = s.timers ∧ s1.patterns = s.patterns ∧
    (∃ tx, s1.log = tx :: s.log ∧ tx.pk = pk ∧ tx.sid = l.sid ∧ tx.req = s.nextReq ∧ tx.retry = none) ∧
    ∀ tx ∈ (run c s1 evs₂).log, tx.req = s.nextReq → tx ∈ s1.log

/-! ## The theorems (about the current source) -/

theorem outstanding_of_sched {s : State} (hI : Inv s) {r : Nat} {pk : Pk} {p : Pattern} {T j : Nat}
    (hs : Sched s r pk p T j) : Outstanding s r pk p T := by
  obtain ⟨t', l', last, ht', hl', hf, h1, h2, _, h4⟩ := sched_last hI hs
  obtain ⟨t, l, ht, hent, hl, hreq, hpk, hpat, hint, hst⟩ := hs
  have e1 : t' = t := Option.some.inj (ht'.symm.trans ht)
  have e2 : l' = l := Option.some.inj (hl'.symm.trans hl)
  subst e1; subst e2
  exact ⟨j, t', l', last, ht, hent, hl, hreq, hpk, hpat, hint, hst, hf, h1, h2, h4⟩

theorem retries_until_answered : RetriesUntilAnswered srcCfg := by
  intro evs₁ l pk ex T evs₂ s hl hnr hex hsz s1
  have hc := src_repaired
  have hI : Inv s := inv_reach hc evs₁
  have heq := stepT_of_ok (send_arms_eq hc hl hnr pk ex T hex hsz)
  have hI1 : Inv s1 := inv_stepT hc hI _
  refine ⟨⟨mkTx s l pk s.nextReq none s.now T, by show (stepT srcCfg s _).log = _; rw [heq], rfl, rfl, rfl, rfl, rfl⟩, fun hq => ?_⟩
  have hs1 : Sched s1 s.nextReq pk (pk.header :: ex) T s.timers.length := by
    show Sched (stepT srcCfg s _) _ _ _ _ _
    rw [heq]
    exact ⟨mkTimer s pk (pk.header :: ex) T s.nextReq, l, by simp, by simp [dget_dset], hl, rfl, rfl, rfl, rfl, Or.inl rfl⟩
  obtain ⟨j', hs'⟩ := sched_run hc hI1 hs1 evs₂ hq
  exact outstanding_of_sched (inv_run hc hI1 evs₂) hs'

theorem retry_fires : RetryFires srcCfg := by
  intro evs r pk p T j t l s ht hent hl hreq hpk hpat hint
  have hc := src_repaired
  have hI : Inv s := inv_reach hc evs
  refine ⟨fun ha hd => expire_eq _ ht ha hd, fun he => ?_⟩
  have hent' : dget s.patterns t.pattern = some j := by rw [hpat]; exact hent
  have hstep := run_retry_eq hc ht he hl hent'
  refine ⟨_, hstep, ?_, ?_⟩
  · simp only [mkTx, hpk, hreq, hint, List.cons.injEq, and_true]
    have := (hI.linkFresh l hl).2
    simp [this]
  · have hI' : Inv (stepT srcCfg s (.run j)) := inv_stepT hc hI _
    rw [stepT_of_ok hstep] at hI'
    refine outstanding_of_sched hI' (j := s.timers.length) ?_
    refine ⟨mkTimer s t.pk t.pattern t.interval t.req, l, ?_, ?_, hl, hreq, hpk, hpat, hint, Or.inl rfl⟩
    · rw [List.getElem?_append_right (by simp)]; simp
    · simp [dget_dset, hpat]

theorem retries_at_timeout : RetriesAtTimeout srcCfg := by
  intro evs r
  exact gaps_of_spaced (inv_reach src_repaired evs).spaced r

/-- Closed form for punctual timers: if every retry of request `r` is sent when it is due, its `k`-th transmission
(counted from the first, `k = 0`) happens at `t0 + k * T`, where `T` is the timeout the request was sent with. -/
theorem retries_at_t0_plus_kT (evs : List Ev) (r : Nat)
    (hp : ∀ tx ∈ (run srcCfg init evs).log, tx.req = r → tx.retry.isSome → tx.time = tx.due)
    (k : Nat) (x first : Tx) (hk : (txOf r (run srcCfg init evs).log).reverse[k]? = some x)
    (h0 : (txOf r (run srcCfg init evs).log).reverse[0]? = some first) :
    x.time = first.time + k * first.interval ∧ x.pk = first.pk ∧ x.sid = first.sid := by
  have hI := inv_reach src_repaired evs
  have hmem : ∀ y, y ∈ txOf r (run srcCfg init evs).log → y ∈ (run srcCfg init evs).log ∧ y.req = r := by
    intro y hy; simp only [txOf, List.mem_filter, beq_iff_eq] at hy; exact hy
  have hx := hmem x (List.mem_reverse.mp (List.mem_of_getElem? hk))
  have hf := hmem first (List.mem_reverse.mp (List.mem_of_getElem? h0))
  have hsame := hI.sameReq x hx.1 first hf.1 (hx.2.trans hf.2.symm)
  refine ⟨?_, hsame.2.1, hsame.1⟩
  have hg := retries_at_timeout evs r
  have hg' : GapsOf (fun a b => a.time = b.time + first.interval) (txOf r (run srcCfg init evs).log) := by
    generalize txOf r (run srcCfg init evs).log = L at hg hmem
    clear hk h0 hx hsame
    induction L with
    | nil => trivial
    | cons a rest ih =>
      cases rest with
      | nil => trivial
      | cons b rest' =>
        obtain ⟨hab, hrest⟩ := hg
        have ha := hmem a (by simp)
        refine ⟨?_, ih hrest (fun y hy => hmem y (List.mem_cons_of_mem _ hy))⟩
        have hint := (hI.sameReq a ha.1 first hf.1 (ha.2.trans hf.2.symm)).2.2
        have := hp a ha.1 ha.2 hab.2.2.2.2.2
        show a.time = b.time + first.interval
        rw [this, ← hab.1, hint]
  exact arith_of_gaps _ hg' k x first hk h0

theorem no_retry_after_answer : NoRetryAfterAnswer srcCfg := by
  intro evs₁ h d evs₂ j t s ht hp tx htx hreq
  have hc := src_repaired
  have hI : Inv s := inv_reach hc evs₁
  obtain ⟨i, hi⟩ := Option.isSome_iff_exists.mp ((dget_isSome_iff _ _).mpr hp.1)
  have hne := hI.keyNe _ i hi
  have hdead := answered_dead hc hI h d ht hp hne
  have hsh := step_shape hc s (.recv h d)
  have hr : t.req < (stepT srcCfg s (.recv h d)).nextReq :=
    Nat.lt_of_lt_of_le (hI.treq j t ht) (shape_nextReq_le hsh)
  have h1 := (dead_run hc (inv_shape hI hsh) hr hdead evs₂).2 tx htx hreq
  rwa [shape_log_noTx hsh (by simp [NoTxEv])] at h1

theorem nothing_on_closed_link : NothingOnClosedLink srcCfg := by
  intro evs e s
  have hc := src_repaired
  have hI : Inv s := inv_reach hc evs
  have hsh := step_shape hc s e
  refine ⟨fun hn => ?_, fun l hl => ?_, hI.noClosedTx⟩
  · rcases shape_log hsh with h | ⟨l, _, hl, _⟩
    · exact h
    · rw [hn] at hl; cases hl
  · rcases shape_log hsh with h | ⟨l', tx, hl', h, hs, _⟩
    · exact Or.inl h
    · rw [hl] at hl'; cases hl'; exact Or.inr ⟨tx, h, hs⟩

theorem no_cross_session_tx : NoCrossSessionTx srcCfg := by
  have hc := src_repaired
  refine ⟨fun evs a ha b hb hreq => ((inv_reach hc evs).sameReq a ha b hb hreq).1,
    fun evs => (inv_reach hc evs).lsid, ?_⟩
  intro evs₁ e evs₂ he s tx htx hr
  have hI : Inv s := inv_reach hc evs₁
  have hsh := step_shape hc s e
  have hdead := session_end_dead hc s e he tx.req
  have hr' : tx.req < (stepT srcCfg s e).nextReq := Nat.lt_of_lt_of_le hr (shape_nextReq_le hsh)
  have h1 := (dead_run hc (inv_shape hI hsh) hr' hdead evs₂).2 tx htx rfl
  have hno : NoTxEv e := by rcases he with rfl | rfl | ⟨nr, rfl⟩ <;> simp [NoTxEv]
  rwa [shape_log_noTx hsh hno] at h1

theorem reliable_link_no_retry : ReliableLinkNoRetry srcCfg := by
  intro evs₁ l pk ex T evs₂ s hl hnr hsz s1
  have hc := src_repaired
  have hI : Inv s := inv_reach hc evs₁
  have heq : s1 = _ := stepT_of_ok (send_plain_eq hc hl pk ex T (Or.inr hnr) hsz)
  have hI1 : Inv s1 := inv_stepT hc hI _
  refine ⟨by rw [heq], by rw [heq], ⟨mkTx s l pk s.nextReq none s.now T, by rw [heq], rfl, rfl, rfl, rfl⟩, ?_⟩
  have hdead : ReqDead s1 s.nextReq := by
    rw [heq]
    intro i t ht hreq
    have := hI.treq i t ht
    omega
  exact (dead_run hc hI1 (by rw [heq]; exact Nat.lt_succ_self _) hdead evs₂).2

/-- A link error that the driver reports from inside a `send_packet` (first transmission or retry) takes effect right after that
critical section: the section itself is unaffected (same transmission, to the link that was open), then the link is closed and
forgotten, every pending pattern is dropped, and no request made so far - including the one just sent - is ever transmitted again. -/
theorem driver_error_inside_send (evs : List Ev) (e : Ev) (evs₂ : List Ev) :
    let s := run srcCfg init evs
    let s1 := stepT srcCfg s e
    let s2 := stepReportingError srcCfg s e
    s2.log = s1.log ∧
    (s1.log.length > s.log.length → s2 = stepT srcCfg s1 .linkError ∧ s2.link = none ∧ s2.patterns = [] ∧
      ∀ tx ∈ (run srcCfg s2 evs₂).log, tx.req < s1.nextReq → tx ∈ s1.log) := by
  intro s s1 s2
  have hc := src_repaired
  have hs1 : s1 = run srcCfg init (evs ++ [e]) := by rw [run_append]; rfl
  have hlog : (stepT srcCfg s1 .linkError).log = s1.log :=
    shape_log_noTx (step_shape hc s1 .linkError) (by simp [NoTxEv])
  by_cases h : s1.log.length > s.log.length
  · have hend : ∀ x, stepT srcCfg x .linkErrorEnd = x := by
      intro x; simp [stepT, step, hc.errorEarly, forget_ff]
    have h2 : s2 = stepT srcCfg s1 .linkError := by
      show stepReportingError srcCfg s e = _
      unfold stepReportingError; rw [if_pos h, hend]
    refine ⟨by rw [h2, hlog], fun _ => ⟨h2, ?_, ?_, ?_⟩⟩
    · rw [h2]; simp [stepT, step, forget]
    · rw [h2]; simp [stepT, step, forget, hc.errorClears, hc.errorEarly]
    · intro tx htx hr
      have := no_cross_session_tx.2.2 (evs ++ [e]) .linkError evs₂ (Or.inr (Or.inl rfl)) tx
        (by rw [← hs1, ← h2]; exact htx) (by rw [← hs1]; exact hr)
      rwa [← hs1] at this
  · refine ⟨?_, fun h' => absurd h' h⟩
    show (stepReportingError srcCfg s e).log = _
    unfold stepReportingError; exact congrArg State.log (if_neg h)

/-! ### application callbacks that call back into the library

`_link_error_cb` and `close_link` call the application (`connection_failed` / `disconnected` / `connection_lost` / …) in the
middle; `open_link` starts the connection set-up.  Whatever the application does from inside such a callback - `open_link`,
`send_packet`, `close_link`, … - is the event list between `linkError` and `linkErrorEnd` (`closeRest` … `closeEnd`, `openLink` …
`openEnd`).  All theorems above quantify over all event lists and therefore cover these nested histories; what makes that true is
the ORDER pinned by `src_repaired` (`closeEarly`, `errorEarly`, `openEarly`): everything is cancelled and forgotten before the
callbacks run, so the steps after them do nothing. -/

/-- after the application callbacks (the connection set-up) returned, `_link_error_cb` / `close_link` / `open_link` do nothing
more to the retry mechanism -/
theorem after_callbacks_nothing (s : State) (e : Ev) (he : e = .linkErrorEnd ∨ e = .closeEnd ∨ e = .openEnd) :
    stepT srcCfg s e = s := by
  have hc := src_repaired
  rcases he with rfl | rfl | rfl
  · simp [stepT, step, hc.errorEarly, forget_ff]
  · simp [stepT, step, hc.closeEarly, forget_ff]
  · simp [stepT, step, hc.openEarly, forget_ff]

/-- Reconnect + request from inside a callback: after any history, a link error (or `close_link`) whose callback - after any
nested steps - calls `open_link` on a link that needs resending and then sends a request with an expected reply: the request is
transmitted at once and stays outstanding through the rest of the callback (`nested₂`), the return into `_link_error_cb` /
`close_link` (`fin`) and every later quiet continuation. -/
theorem retries_until_answered_reentrant (evs₁ nested₁ nested₂ evs₂ : List Ev) (teardown fin : Ev)
    (hpair : (teardown = .linkError ∧ fin = .linkErrorEnd) ∨ (teardown = .closeRest ∧ fin = .closeEnd))
    (pk : Pk) (ex : Pattern) (T : Nat) (hex : ex ≠ []) (hsz : pk.size ≤ Gen.C10.maxDataSize) :
    let s := run srcCfg init (evs₁ ++ [teardown] ++ nested₁ ++ [.openLink true])
    let s1 := stepT srcCfg s (.send pk ex T)
    QuietRun srcCfg s1 (pk.header :: ex) nested₂ →
    QuietRun srcCfg (run srcCfg s1 (nested₂ ++ [fin])) (pk.header :: ex) evs₂ →
    (∃ tx, s1.log = tx :: s.log ∧ tx.pk = pk ∧ tx.time = s.now ∧ tx.retry = none) ∧
    Outstanding (run srcCfg s1 (nested₂ ++ [fin] ++ evs₂)) s.nextReq pk (pk.header :: ex) T := by
  intro s s1 hq2 hq3
  have hc := src_repaired
  have hl : s.link = some ⟨(run srcCfg init (evs₁ ++ [teardown] ++ nested₁)).nextSid, true⟩ := by
    show (run srcCfg init (evs₁ ++ [teardown] ++ nested₁ ++ [.openLink true])).link = _
    rw [run_append]
    simp [run, stepT, step, forget]
  have h := retries_until_answered (evs₁ ++ [teardown] ++ nested₁ ++ [.openLink true]) _ pk ex T (nested₂ ++ [fin] ++ evs₂)
    hl rfl hex hsz
  obtain ⟨⟨tx, h1, h2, _, h4, _, h6⟩, hout⟩ := h
  refine ⟨⟨tx, h1, h2, h4, h6⟩, hout ?_⟩
  have hfin : Quiet (run srcCfg s1 nested₂) (pk.header :: ex) fin := by
    rcases hpair with ⟨_, rfl⟩ | ⟨_, rfl⟩ <;> trivial
  exact (quietRun_append srcCfg s1 _ (nested₂ ++ [fin]) evs₂).mpr
    ⟨(quietRun_append srcCfg s1 _ nested₂ [fin]).mpr ⟨hq2, hfin, trivial⟩, hq3⟩

/-- ... and nothing of the old session survives such a callback: no request made before the link error / `close_link` is
transmitted during the nested history, after the return, or later. -/
theorem no_cross_session_tx_reentrant (evs₁ nested evs₂ : List Ev) (teardown fin : Ev)
    (ht : teardown = .linkError ∨ teardown = .closeRest) :
    let s := run srcCfg init evs₁
    ∀ tx ∈ (run srcCfg init (evs₁ ++ [teardown] ++ nested ++ [fin] ++ evs₂)).log, tx.req < s.nextReq → tx ∈ s.log := by
  intro s tx htx hr
  have he : teardown = .closeRest ∨ teardown = .linkError ∨ ∃ nr, teardown = .openLink nr := by
    rcases ht with h | h
    · exact Or.inr (Or.inl h)
    · exact Or.inl h
  have := no_cross_session_tx.2.2 evs₁ teardown (nested ++ [fin] ++ evs₂) he tx
    (by
      have e : evs₁ ++ [teardown] ++ nested ++ [fin] ++ evs₂ = evs₁ ++ (teardown :: (nested ++ [fin] ++ evs₂)) := by simp
      rw [e, run_append, run_cons] at htx
      exact htx) hr
  exact this

/-- The order is essential: with the cancelling of `_link_error_cb` moved behind the callbacks, the request sent on the link
that `connection_lost` re-opened loses its retry timer when the callback returns, although its link stays open. -/
theorem late_forget_counterexample : ¬ RetriesUntilAnswered lateErrorCfg := by
  intro h
  have h1 := (h [.openLink true, .send ⟨1, 93, 2⟩ [3, 7] 200, .linkError, .openLink true] ⟨1, true⟩ ⟨2, 93, 2⟩ [3, 8] 200
    [.linkErrorEnd] (by decide) rfl (by decide) (by decide)).2 ⟨trivial, trivial⟩
  obtain ⟨j, t, l, last, _, hent, _⟩ := h1
  have hp : (run lateErrorCfg (stepT lateErrorCfg (run lateErrorCfg init [.openLink true, .send ⟨1, 93, 2⟩ [3, 7] 200,
      .linkError, .openLink true]) (.send ⟨2, 93, 2⟩ [3, 8] 200)) [.linkErrorEnd]).patterns = [] := by decide
  rw [hp] at hent
  simp [dget] at hent

/-! ### sends that raise

The driver's `send_packet` and the subscribers of `packet_sent` may raise out of the critical section (`LEv.sendRaise`,
`LEv.runRaise`; `LState` adds `_send_lock` to the state, a step that needs a lock that is held for ever is `blocked`). -/

/-- Gen obligation: the lock is released in a `finally`, i.e. on every exit of the critical section -/
theorem gen_lock_released : srcCfg.releasesOnRaise = true := by decide

/-- For every history, with any number of raising sends and raising timer callbacks anywhere in it: the send lock is never left
held, and the retry state is exactly the one of the same history with those steps returning normally.  So every theorem above
(`retries_until_answered`, `no_retry_after_answer`, `no_cross_session_tx`, …) holds for such histories as well. -/
theorem raising_sends_transparent (evs : List LEv) :
    (lrun srcCfg linit evs).locked = false ∧ (lrun srcCfg linit evs).st = run srcCfg init (evs.map LEv.erase) :=
  lrun_transparent gen_lock_released linit rfl evs

/-- No deadlock of the timers: after any such history a due timer's thread can always take its steps (it never waits for the
send lock for ever), whether or not its own retransmission raises. -/
theorem timers_never_block (evs : List LEv) (j : Nat) (t : Timer) :
    let ls := lrun srcCfg linit evs
    ls.st.timers[j]? = some t →
    (t.st = .armed → t.deadline ≤ ls.st.now → ∃ ls', lstep srcCfg ls (.ev (.expire j)) = .ok ls') ∧
    (t.st = .expired → (∃ ls', lstep srcCfg ls (.ev (.run j)) = .ok ls') ∧ (∃ ls', lstep srcCfg ls (.runRaise j) = .ok ls')) := by
  intro ls ht
  have hl : ls.locked = false := (raising_sends_transparent evs).1
  have hc := src_repaired
  refine ⟨fun ha hd => ?_, fun he => ?_⟩
  · unfold lstep
    simp only [LEv.erase, expire_eq srcCfg ht ha hd, hl, Bool.false_and, Bool.false_eq_true, if_false, LEv.raises]
    exact ⟨_, rfl⟩
  · have hstep : ∃ s', step srcCfg ls.st (.run j) = .ok s' := by
      simp only [step, ht, he, if_true, sendCore_retry hc]; exact ⟨_, rfl⟩
    obtain ⟨s', hs'⟩ := hstep
    constructor
    · unfold lstep
      simp only [LEv.erase, hs', hl, Bool.false_and, Bool.false_eq_true, if_false, LEv.raises]
      exact ⟨_, rfl⟩
    · unfold lstep
      simp only [LEv.erase, hs', hl, Bool.false_and, Bool.false_eq_true, if_false, LEv.raises, Bool.true_and]
      split <;> exact ⟨_, rfl⟩

/-- `retries_until_answered` for histories with raising sends - the request's own first transmission may be one of them. -/
theorem retries_until_answered_with_raising_sends (evs₁ : List LEv) (l : Link) (pk : Pk) (ex : Pattern) (T : Nat)
    (first : LEv) (hfirst : first = .ev (.send pk ex T) ∨ first = .sendRaise pk ex T) (evs₂ : List LEv) :
    let ls := lrun srcCfg linit evs₁
    ls.st.link = some l → l.needsResending = true → ex ≠ [] → pk.size ≤ Gen.C10.maxDataSize →
    let ls1 := lstepT srcCfg ls first
    ls1.locked = false ∧
    (QuietRun srcCfg ls1.st (pk.header :: ex) (evs₂.map LEv.erase) →
      Outstanding (lrun srcCfg ls1 evs₂).st ls.st.nextReq pk (pk.header :: ex) T) := by
  intro ls hl hnr hex hsz ls1
  obtain ⟨h0, h1⟩ := raising_sends_transparent evs₁
  obtain ⟨h2, h3⟩ := lstepT_unlocked gen_lock_released ls first h0
  have herase : first.erase = .send pk ex T := by rcases hfirst with rfl | rfl <;> rfl
  obtain ⟨_, h5⟩ := lrun_transparent gen_lock_released ls1 h2 evs₂
  refine ⟨h2, fun hq => ?_⟩
  have hmain := (retries_until_answered (evs₁.map LEv.erase) l pk ex T (evs₂.map LEv.erase)
    (by rw [← h1]; exact hl) hnr hex hsz).2
  have e1 : ls1.st = stepT srcCfg (run srcCfg init (evs₁.map LEv.erase)) (.send pk ex T) := by
    show (lstepT srcCfg ls first).st = _
    rw [h3, herase, h1]
  rw [h5, e1, show ls.st = run srcCfg init (evs₁.map LEv.erase) from h1]
  rw [e1] at hq
  exact hmain hq

/-- The `finally` is essential: with the release only on the normal exit, one raising send (of any packet) leaves the lock held;
the timer of the still unanswered request then blocks for ever and nothing is transmitted any more although the link stays open. -/
theorem flat_send_lock_counterexample :
    let ls := lrun flatSendCfg linit [.ev (.openLink true), .ev (.send ⟨1, 93, 2⟩ [3, 7] 200), .sendRaise ⟨2, 60, 14⟩ [] 200,
      .ev (.advance 200), .ev (.expire 0)]
    ls.locked = true ∧ ls.st.link.isSome = true ∧ ls.st.patterns = [([93, 3, 7], 0)] ∧
    (match lstep flatSendCfg ls (.ev (.run 0)) with | .error .blocked => true | _ => false) = true ∧
    ∀ evs, (lrun flatSendCfg ls evs).st.log = ls.st.log := by
  intro ls
  have h1 : ls.locked = true := by decide
  exact ⟨h1, by decide, by decide, by decide, fun evs => (locked_forever flatSendCfg ls h1 evs).2⟩

/-- If every link that is ever opened guarantees delivery, no retry timer is ever created. -/
theorem reliable_links_no_timers (evs : List Ev) (h : ∀ e ∈ evs, ReliableOnly e) :
    (run srcCfg init evs).timers = [] :=
  reliable_run src_repaired (by simp [init]) rfl evs h

/-- Which links guarantee delivery according to the drivers: USB does; the radio link does once safelink has been
negotiated and does not otherwise (nor before the negotiation has finished); the `CRTPDriver` default is "does not". -/
theorem driver_needs_resending :
    driverNeedsResending .usb = false ∧ driverNeedsResending (.radio true true) = false ∧
    driverNeedsResending (.radio true false) = true ∧ (∀ sl, driverNeedsResending (.radio false sl) = true) ∧
    driverNeedsResending .base = true := by decide

/-! ## the code before the repair (D10): the same clauses are false, with concrete witnesses
(replayed on the real code by `harness/corpus/c10/d10-*.json`) -/

/-- D10, face 1: the timer has fired, the answer arrives, the callback runs afterwards - and transmits. -/
theorem live_no_retry_after_answer_counterexample : ¬ NoRetryAfterAnswer liveCfg := by
  intro h
  have hp : LongestPending [([93, 3, 7], 0)] [93, 3, 7, 0] [93, 3, 7] := by
    refine ⟨by decide, by decide, ?_⟩
    intro q hq _
    simp only [keys, List.map_cons, List.map_nil, List.mem_cons, List.not_mem_nil, or_false] at hq
    subst hq; decide
  have := h [.openLink true, .send ⟨1, 93, 2⟩ [3, 7] 200, .advance 200, .expire 0] 93 [3, 7, 0] [.run 0] 0
    ⟨⟨1, 93, 2⟩, [93, 3, 7], 200, 200, 0, .expired⟩ (by decide) hp
    ⟨200, 0, ⟨1, 93, 2⟩, 0, some 0, 200, 200, false⟩ (by decide) (by decide)
  revert this
  decide

/-- D10, faces 2 and 3: close + reopen within the timeout puts the session-0 request on the session-1 link. -/
theorem live_no_cross_session_tx_counterexample : ¬ NoCrossSessionTx liveCfg := by
  intro h
  have := h.1 [.openLink true, .send ⟨1, 93, 2⟩ [3, 7] 1000, .advance 300, .closeSetpoint, .closeRest,
      .openLink true, .advance 700, .expire 0, .run 0]
    ⟨1000, 1, ⟨1, 93, 2⟩, 0, some 0, 1000, 200, false⟩ (by decide)
    ⟨0, 0, ⟨1, 93, 2⟩, 0, none, 0, 1000, false⟩ (by decide) (by decide)
  revert this
  decide

/-- ... and after a link error + reopen the old request is re-armed on the new link again and again. -/
theorem live_link_error_rearm_counterexample :
    (run liveCfg init [.openLink true, .send ⟨1, 93, 2⟩ [3, 7] 200, .linkError, .openLink true,
        .advance 200, .expire 0, .run 0, .advance 200, .expire 1, .run 1, .advance 200, .expire 2, .run 2]).log.map
        (fun t => (t.time, t.sid, t.pk.id, t.retry))
      = [(600, 1, 1, some 2), (400, 1, 1, some 1), (200, 1, 1, some 0), (0, 0, 1, none)] := by decide

/-- D10, face 4: a request sent with timeout 1000 ms is retried after 1000 ms and then every 200 ms. -/
theorem live_retries_at_timeout_counterexample : ¬ RetriesAtTimeout liveCfg := by
  intro h
  have h1 := h [.openLink true, .send ⟨1, 77, 4⟩ [1, 2] 1000, .advance 1000, .expire 0, .run 0,
      .advance 200, .expire 1, .run 1] 0
  have hlog : txOf 0 (run liveCfg init [.openLink true, .send ⟨1, 77, 4⟩ [1, 2] 1000, .advance 1000, .expire 0,
      .run 0, .advance 200, .expire 1, .run 1]).log =
      [⟨1200, 0, ⟨1, 77, 4⟩, 0, some 1, 1200, 200, false⟩, ⟨1000, 0, ⟨1, 77, 4⟩, 0, some 0, 1000, 200, false⟩,
       ⟨0, 0, ⟨1, 77, 4⟩, 0, none, 0, 1000, false⟩] := by decide
  rw [hlog] at h1
  have := h1.2.1.1
  revert this
  decide

/-! ## Non-vacuity: concrete instances of the hypotheses -/

/-- a history after which a request is outstanding on an open link that needs resending, with a second,
prefix-sharing request pending, and a quiet continuation in which the first timer fires and re-arms -/
example : QuietRun srcCfg (stepT srcCfg (run srcCfg init [.openLink true, .send ⟨1, 93, 2⟩ [3] 200])
      (.send ⟨2, 93, 2⟩ [3, 7] 1000)) [93, 3, 7]
    [.advance 200, .expire 0, .run 0, .recv 93 [3, 9], .advance 800, .expire 1, .run 1] := by
  refine ⟨trivial, trivial, trivial, ?_, trivial, trivial, trivial, trivial⟩
  intro h
  exact absurd h.2.1 (by decide)

example : (run srcCfg init [.openLink true, .send ⟨1, 93, 2⟩ [3] 200]).link = some ⟨0, true⟩ := by decide
example : (run srcCfg init [.openLink true, .send ⟨1, 93, 2⟩ [3] 200, .send ⟨2, 93, 2⟩ [3, 7] 1000, .advance 1000,
    .expire 1]).timers[1]? = some ⟨⟨2, 93, 2⟩, [93, 3, 7], 1000, 1000, 1, .expired⟩ := by decide
/-- the repaired code on the D10 witnesses: no retransmission after the answer, none in the next session -/
example : (run srcCfg init [.openLink true, .send ⟨1, 93, 2⟩ [3, 7] 200, .advance 200, .expire 0,
    .recv 93 [3, 7, 0], .run 0]).log.map (fun t => (t.time, t.sid, t.pk.id, t.retry)) = [(0, 0, 1, none)] := by decide
example : (run srcCfg init [.openLink true, .send ⟨1, 93, 2⟩ [3, 7] 1000, .advance 300, .closeSetpoint, .closeRest,
    .openLink true, .advance 700, .expire 0, .run 0]).log.map (fun t => (t.time, t.sid, t.pk.id)) =
    [(300, 0, 0), (0, 0, 1)] := by decide
/-- a request retried twice, punctually: transmissions at 0, 1000, 2000 -/
example : (txOf 0 (run srcCfg init [.openLink true, .send ⟨1, 77, 4⟩ [1, 2] 1000, .advance 1000, .expire 0, .run 0,
    .advance 1000, .expire 1, .run 1]).log).map (fun t => (t.time, t.due)) = [(2000, 2000), (1000, 1000), (0, 0)] := by
  decide
example : ReliableOnly (.openLink false) ∧ ReliableOnly (.send ⟨1, 93, 2⟩ [3] 200) := ⟨rfl, trivial⟩

end CfVerif.C10

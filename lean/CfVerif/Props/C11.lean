/-
Props/C11 — property theorems for C11 (the TOC cache never yields a wrong table, even after a crash).
Helper lemmas are in Proofs/C11*.  Every theorem is about Model/C11, whose file-name patterns, indent,
encoder/decoder keys and class names are regenerated from /repo (Gen/C11).
-/
import CfVerif.Base.Struct
import CfVerif.Proofs.C11Cache
import CfVerif.Proofs.C11Hist
import CfVerif.Proofs.C11Wire
namespace CfVerif.C11
open CfVerif

/-! ## Gen obligations: what the hand-written model assumes about the current source -/

theorem gen_init : Gen.C11.initGlobs = ["ro_cache + '/*.json'", "rw_cache + '/*.json'"] ∧
    Gen.C11.initGlobTargets = ["self._cache_files Add", "self._cache_files Add"] ∧
    Gen.C11.initTests = ["ro_cache", "rw_cache", "not os.path.exists(rw_cache)"] ∧
    Gen.C11.initMkdirs = ["os.makedirs(rw_cache)"] ∧ Gen.C11.initRwAssign = "rw_cache" := by decide
theorem gen_fetch_lookup : Gen.C11.fetchPatternArg = "crc" ∧ Gen.C11.fetchLoop = "for name in self._cache_files" ∧
    Gen.C11.fetchMatch = "name.endswith(pattern)" ∧ Gen.C11.fetchMatchBody = "hit = name" ∧
    Gen.C11.fetchHitInit = "None" ∧ Gen.C11.fetchDataInit = "None" ∧ Gen.C11.fetchReturns = ["cache_data"] := by decide
theorem gen_fetch_load : Gen.C11.fetchOpen = ["open(hit)"] ∧
    Gen.C11.fetchLoad = "json.load(cache, object_hook=self._decoder)" ∧ Gen.C11.fetchExcept = "Exception" ∧
    Gen.C11.fetchTryAssigns = ["cache", "cache_data"] ∧ Gen.C11.fetchHandlerStmts = ["Expr:logger.warning"] := by decide
theorem gen_insert : Gen.C11.insertPatternArgs = ["self._rw_cache", "crc"] ∧ Gen.C11.insertGuard = "self._rw_cache" ∧
    Gen.C11.insertOpen = ["open(filename, 'w')"] ∧ Gen.C11.insertDumpFn = "json.dumps" ∧
    Gen.C11.insertDumpArgs = ["toc", "default=self._encoder"] ∧ Gen.C11.insertWrites = ["cache.write(json)"] ∧
    Gen.C11.insertAppends = ["self._cache_files += [filename]"] ∧ Gen.C11.insertExcept = "Exception" ∧
    Gen.C11.insertHandlerStmts = ["Expr:logger.warning"] := by decide
theorem gen_encoder : Gen.C11.encoderExprs = ["obj.__class__.__name__", "obj.ident", "obj.group", "obj.name",
      "obj.ctype", "obj.pytype", "obj.access"] ∧ Gen.C11.encoderParamTest = "isinstance(obj, ParamTocElement)" ∧
    Gen.C11.encoderParamExprs = ["obj.extended"] ∧ Gen.C11.encoderReturns = ["encoded"] := by decide
theorem gen_decoder : Gen.C11.decoderTest = "'__class__' in obj" ∧ Gen.C11.decoderElse = "return obj" ∧
    Gen.C11.decoderCtor = "elem = eval(obj['__class__'])()" ∧ Gen.C11.decoderReturn = "return elem" ∧
    Gen.C11.decoderAssigns = ["elem.ident = obj['ident']", "elem.group = str(obj['group'])",
      "elem.name = str(obj['name'])", "elem.ctype = str(obj['ctype'])", "elem.pytype = str(obj['pytype'])",
      "elem.access = obj['access']"] ∧ Gen.C11.decoderStrWrapped = [0, 1, 1, 1, 1, 0] ∧
    Gen.C11.decoderParamTest = "isinstance(elem, ParamTocElement)" ∧
    Gen.C11.decoderParamAssigns = ["elem.extended = obj['extended']"] := by decide
theorem gen_fetcher : Gen.C11.infoFmts = ["<HI", "<BI"] ∧
    Gen.C11.infoTargets = ["[self.nbr_of_items, self._crc]", "[self.nbr_of_items, self._crc]"] ∧
    Gen.C11.fetcherCacheCalls = ["self._toc_cache.fetch(self._crc)", "self._toc_cache.insert(self._crc, self.toc.toc)",
      "self._toc_cache.insert(self._crc, self.toc.toc)"] ∧
    Gen.C11.fetcherFetchAssign = "self._toc_cache.fetch(self._crc)" ∧
    Gen.C11.fetcherHitBody = ["self.toc.toc = cache_data", "self._toc_fetch_finished()"] ∧
    Gen.C11.fetcherMissBody = ["self.state = GET_TOC_ELEMENT", "self.requested_index = 0", "if self.nbr_of_items > 0:"] ∧
    Gen.C11.fetcherCompares = ["chan != 0", "self.state == GET_TOC_INFO", "self.nbr_of_items > 0",
      "self.state == GET_TOC_ELEMENT", "ident != self.requested_index",
      "self.requested_index < self.nbr_of_items - 1"] := by decide

/-! ## Clause 1: a cached table is used only when the announced checksum equals the one it was stored under -/

/-- Whatever `fetch crc` returns other than `None` was decoded from a cached path whose name ends in
`'%08X.json' % crc` (no assumption on the directory contents). -/
theorem fetch_reads_only_matching_name (fs : FS) (c : Cache) (crc : Nat) (v : JVal)
    (h : c.fetch fs crc = .ok v) (hv : v ≠ .null) :
    ∃ p bs, p ∈ c.files ∧ endsWith p (hex08 crc ++ dotJson) = true ∧ fs.read p = some bs ∧ loadBytes bs = .ok v :=
  fetch_reads_matching fs c crc v h hv

/-- When the cached paths are files written by `insert` (under 32-bit checksums, as unpacked from the
`I` field of the TOC info packet), a table returned for `crc` was read from the file stored under exactly `crc`. -/
theorem used_only_on_crc_match (fs : FS) (c : Cache) (crc : Nat) (v : JVal) (hs : c.Stored)
    (hcrc : crc < 4294967296) (h : c.fetch fs crc = .ok v) (hv : v ≠ .null) :
    ∃ d bs, storedName d crc ∈ c.files ∧ fs.read (storedName d crc) = some bs ∧ loadBytes bs = .ok v := by
  obtain ⟨p, bs, hm, he, hr, hl⟩ := fetch_reads_matching fs c crc v h hv
  obtain ⟨d, crc', hc', hp⟩ := hs p hm
  subst hp
  have := storedName_endsWith hc' hcrc he
  subst this
  exact ⟨d, bs, hm, hr, hl⟩

theorem insert_keeps_stored (fs : FS) (c : Cache) (crc : Nat) (toc : Toc) (hc : crc < 4294967296) (hs : c.Stored) :
    (c.insert fs crc toc).2.Stored := insert_stored fs c crc toc hc hs

/-- The checksum handed to `fetch`/`insert` by `TocFetcher` is the `I` (u32) field of the info packet. -/
theorem gen_crc_is_u32 : Gen.C11.infoFmts.map (fun f => (parseFmt f).map fun l => l.getLast?) =
    [some (some .I), some (some .I)] := by decide

/-! ## Clause 2: what is loaded is entry-for-entry what was stored (log and parameter elements) -/

theorem gen_keys : Gen.C11.encoderKeys = ["__class__", "ident", "group", "name", "ctype", "pytype", "access"] ∧
    Gen.C11.encoderParamKeys = ["extended"] ∧
    Gen.C11.decoderKeys = ["ident", "group", "name", "ctype", "pytype", "access"] ∧
    Gen.C11.decoderParamKeys = ["extended"] ∧
    Gen.C11.logClassName = "LogTocElement" ∧ Gen.C11.paramClassName = "ParamTocElement" ∧
    Gen.C11.fetchPattern = "%08X.json" ∧ Gen.C11.insertPattern = "%s/%08X.json" ∧ 0 < Gen.C11.indent := by decide

/-- every ctype / pytype string of the two element classes' type tables is printable ASCII (so `Core.Valid` holds
for the type fields of every element a device can announce) -/
theorem gen_type_strings_valid :
    ∀ s ∈ Gen.C11.logCTypes ++ Gen.C11.logPyTypes ++ Gen.C11.paramCTypes ++ Gen.C11.paramPyTypes, ValidStr (ofString s) := by
  decide

/-- `_decoder (_encoder e) = e` for a log element (ident, group, name, ctype, pytype, access) and for a parameter
element (the same and `extended`): the dict the encoder emits is rebuilt into an element with identical fields. -/
theorem decoder_encoder_id (e : Elem) : loadObj loadLeaf (encoder e) = .ok e.toVal := loadElem_eq e

/-- two typed elements with the same in-memory value agree on class and on every stored field -/
theorem elem_toVal_injective (e e' : Elem) (h : e.toVal = e'.toVal) : e = e' := by
  cases e with
  | log c =>
    cases e' with
    | log c' =>
      obtain ⟨a1, a2, a3, a4, a5, a6⟩ := c
      obtain ⟨b1, b2, b3, b4, b5, b6⟩ := c'
      simp only [Elem.toVal, JVal.elem.injEq, JVal.int.injEq, true_and, and_true] at h
      obtain ⟨h1, h2, h3, h4, h5, h6⟩ := h
      subst h1 h2 h3 h4 h5 h6; rfl
    | param c' x => simp [Elem.toVal] at h
  | param c x =>
    cases e' with
    | log c' => simp [Elem.toVal] at h
    | param c' x' =>
      obtain ⟨a1, a2, a3, a4, a5, a6⟩ := c
      obtain ⟨b1, b2, b3, b4, b5, b6⟩ := c'
      simp only [Elem.toVal, JVal.elem.injEq, JVal.int.injEq, true_and, Option.some.injEq, JVal.bool.injEq] at h
      obtain ⟨h1, h2, h3, h4, h5, h6, h7⟩ := h
      subst h1 h2 h3 h4 h5 h6 h7; rfl

/-- **load = store.**  For every table that is a dict of dicts (duplicate-free keys) of elements whose strings are
sequences of Unicode scalar values and that has no group or variable called `__class__`:
`json.loads(json.dumps(toc, indent=2, default=_encoder), object_hook=_decoder)` is the table itself, group for group,
name for name, element for element. -/
theorem load_eq_store (t : Toc) (hv : TocValid t) (hwf : TocWF t) (hc : NoClassKey t) :
    loads (printToc t) = .ok (tocVal t) := by
  rw [loads_printToc t hv, loadToc_plain t hwf hc]

/-- Without the `__class__` restriction the file still never loads as anything else: it loads as the stored table or
`json.load` raises (the hook runs `eval` on a non-string), which `fetch` turns into a miss. -/
theorem load_never_wrong (t : Toc) (hv : TocValid t) (hwf : TocWF t) :
    loads (printToc t) = .ok (tocVal t) ∨ loads (printToc t) = .error .exc := by
  rw [loads_printToc t hv]; exact loadToc_cases t hwf

/-- ... at the level of `TocCache`: `insert(crc, toc)` into a writable rw directory followed by `fetch(crc)` returns the
stored table (or `None` when a key is `__class__`): never another table, never an exception.
(`openW = some _`: the directory is writable and the name is not occupied by a directory / an unwritable entry.) -/
theorem fetch_after_insert_eq_store (fs fs' : FS) (c : Cache) (crc : Nat) (t : Toc) (d : Path) (hrw : c.rw = some d)
    (ho : fs.openW d (storedName d crc) = some fs') (hv : TocValid t) (hwf : TocWF t) :
    ((c.insert fs crc t).2.fetch (c.insert fs crc t).1 crc = .ok (tocVal t) ∨
     (c.insert fs crc t).2.fetch (c.insert fs crc t).1 crc = .ok .null) ∧
    (NoClassKey t → (c.insert fs crc t).2.fetch (c.insert fs crc t).1 crc = .ok (tocVal t)) := by
  rw [fetch_after_insert fs fs' c crc t d hrw ho, loadBytes_printToc t hv]
  constructor
  · rcases loadToc_cases t hwf with h | h <;> rw [h] <;> simp
  · intro hc; rw [loadToc_plain t hwf hc]

/-- a downloaded table is such a dict: `Toc.add_element` keeps group names and the names inside a group unique -/
theorem downloaded_table_is_dict (es : List Elem) : TocWF (addAll [] es) := wf_addAll [] es wf_nil

/-! ## Clause 3: missing, truncated or unparsable file = miss; the table is then downloaded -/

/-- **Prefix lemma (general).**  Whatever text ending in `}` `json.loads` accepts, it rejects every proper prefix of it. -/
theorem json_proper_prefix_rejected (text : Str) (v : JVal) (h : loads (text ++ [125]) = .ok v) (k : Nat)
    (hk : k ≤ text.length) : loads ((text ++ [125]).take k) = .error .exc :=
  loads_proper_prefix text v h k hk

/-- **Truncation is a miss.**  For EVERY table (a dict of dicts of elements with valid strings - also one with a group or
variable called `__class__`) and every proper prefix of the bytes `insert` writes for it, `json.load` raises.
(Complete text loads: prefix lemma.  Hook raises somewhere in it: shorter prefixes end inside a container, longer ones
contain the raising `}`.) -/
theorem truncation_is_miss (t : Toc) (hv : TocValid t) (hwf : TocWF t) (k : Nat)
    (hk : k < (encodeText (printToc t)).length) :
    loadBytes ((encodeText (printToc t)).take k) = .error .exc :=
  loadBytes_truncated_all t hv hwf k hk

/-- ... hence `fetch` returns `None` when the file it hits is such a truncated file -/
theorem truncated_file_is_miss (fs : FS) (c : Cache) (crc : Nat) (p : Path) (t : Toc) (hv : TocValid t) (hwf : TocWF t)
    (k : Nat) (hk : k < (encodeText (printToc t)).length)
    (hh : findHit c.files (hex08 crc ++ dotJson) = some p) (hr : fs.read p = some ((encodeText (printToc t)).take k)) :
    c.fetch fs crc = .ok .null := by
  rw [fetch_of_hit fs c crc p _ hh hr, truncation_is_miss t hv hwf k hk]

/-- no matching cached path, or the matching entry cannot be opened - it vanished after the directory scan, or it is a
directory, a dangling link or an unreadable file (`FS.ghosts`: listed by `glob`, never readable): `None` -/
theorem missing_file_is_miss (fs : FS) (c : Cache) (crc : Nat) :
    (findHit c.files (hex08 crc ++ dotJson) = none → c.fetch fs crc = .ok .null) ∧
    (∀ p, findHit c.files (hex08 crc ++ dotJson) = some p → fs.read p = none → c.fetch fs crc = .ok .null) :=
  ⟨fetch_no_hit fs c crc, fun p => fetch_vanished fs c crc p⟩

/-- any file on which `json.load(.., object_hook=_decoder)` raises an `Exception` (bad UTF-8, bad JSON, missing key,
`eval` of a non-string): `None`, no exception leaves `fetch` -/
theorem unparsable_file_is_miss (fs : FS) (c : Cache) (crc : Nat) (p : Path) (bs : List UInt8)
    (hh : findHit c.files (hex08 crc ++ dotJson) = some p) (hr : fs.read p = some bs) (hb : loadBytes bs = .error .exc) :
    c.fetch fs crc = .ok .null := by
  rw [fetch_of_hit fs c crc p bs hh hr, hb]

/-- **Crash during the write.**  `insert` is cut after any `k` bytes (process killed, or `write` raised); the next
process builds a new `TocCache` over the same directories; provided no foreign file in the rw directory has a name
ending in the same pattern, `fetch` of that checksum is a miss. -/
theorem crash_then_restart_is_miss (fs fs' : FS) (c : Cache) (crc : Nat) (t : Toc) (k : Nat) (d : Path) (ro : Option Path)
    (hrw : c.rw = some d) (ho : fs.openW d (storedName d crc) = some fs') (hcrc : crc < 4294967296)
    (hv : TocValid t) (hwf : TocWF t) (hk : k < (encodeText (printToc t)).length)
    (fs2 : FS) (c2 : Cache) (hinit : Cache.init (c.insertCut fs crc t k).1 ro (some d) = .ok (fs2, c2))
    (huniq : ∀ q ∈ glob (c.insertCut fs crc t k).1 d, endsWith q (hex08 crc ++ dotJson) = true → q = storedName d crc) :
    c2.fetch fs2 crc = .ok .null :=
  crash_restart_aux fs fs' c crc t k d ro hrw ho hcrc hv hwf hk fs2 c2 hinit huniq

/-- **A miss is downloaded.**  When `fetch` returns something falsy (`None` for every case above, or an empty table) the
fetcher requests element 0 (and with an empty device table stores `{}` and finishes) ... -/
theorem miss_starts_download (w : World) (nbr crc : Nat) (hs : w.f.state = .getInfo) (v : JVal)
    (hf : w.cache.fetch w.fs crc = .ok v) (ht : truthy v = .ok false) (hn : 0 < nbr) :
    fetcherStep w (.info nbr crc) =
      .ok ({ w with f := { w.f with nbr := nbr, crc := crc, state := .getElem, requested := 0 } }, [.request 0]) :=
  fetcher_info_miss w nbr crc hs v hf ht hn

/-- ... and the element replies, in index order, are all added, each next index requested, and after the last one the
table is stored under the announced checksum and completion reported: the table is the device's, entry for entry -/
theorem miss_download_completes (es : List Elem) (hne : es ≠ []) (w : World) (t : Toc) (i : Nat)
    (hs : w.f.state = .getElem) (hr : w.f.requested = i) (hn : w.f.nbr = i + es.length) (ht : w.f.toc = .typed t) :
    ∃ w', runEvents w (elemEvents i es) = .ok (w', requestsFrom (i + 1) (es.length - 1) ++ [.finished]) ∧
      w'.f.toc = .typed (addAll t es) ∧ w'.f.state = .done ∧
      (w'.fs, w'.cache) = w.cache.insert w.fs w.f.crc (addAll t es) :=
  download_completes es hne w t i hs hr hn ht

/-- a hit yields the cached value as the table and completes without requesting any element -/
theorem hit_uses_cache (w : World) (nbr crc : Nat) (hs : w.f.state = .getInfo) (v : JVal)
    (hf : w.cache.fetch w.fs crc = .ok v) (ht : truthy v = .ok true) :
    fetcherStep w (.info nbr crc) =
      .ok ({ w with f := { w.f with nbr := nbr, crc := crc, toc := .loaded v, state := .done } }, [.finished]) :=
  fetcher_info_hit w nbr crc hs v hf ht

/-! ## All clauses together, over histories -/

/-- **Never a wrong table.**  Start from an empty writable cache directory `d`.  After ANY sequence of `insert`s
(completed, cut short at any byte by a crash / write error, or failing because the name is occupied), restarts (a new
`TocCache` in a new process) and outside interference (the file of a checksum removed behind the live cache's back, or
replaced by a directory, a dangling link or an unreadable file), for every 32-bit checksum `fetch` returns `None` or exactly
the table whose write was LAST started under that checksum - never a partial table, never a table written under another
checksum, never an older table, never an exception.  (Tables are dicts of dicts of elements with valid strings: `Op.Ok`.) -/
theorem never_wrong_table (d : Path) (ops : List Op) (hok : ∀ op ∈ ops, op.Ok) (crc : Nat) (hc : crc < 4294967296) :
    let r := applyOps d ((⟨[], [], [d], false⟩, ⟨[], some d⟩), fun _ => none) ops
    r.1.2.fetch r.1.1 crc = .ok .null ∨ ∃ t, r.2 crc = some t ∧ r.1.2.fetch r.1.1 crc = .ok (tocVal t) := by
  intro r
  have h0 : Inv d (fun _ => none) (⟨[], [], [d], false⟩, ⟨[], some d⟩) := by
    refine ⟨by simp [FS.canWrite], rfl, ?_, ?_, ?_, ?_⟩
    · intro p hp; cases hp
    · intro p hp; cases hp
    · intro crc' _ bs hr; cases hr
    · intro p hp; cases hp
  exact inv_fetch d _ r.1 (inv_ops d _ ops hok h0) crc hc

/-- the tracked table is the syntactically last write when nothing blocks the names (no `block` in the history) -/
theorem tracked_is_last_insert (d : Path) (s : HSt) (crc : Nat) (t : Toc) (fs' : FS)
    (ho : s.1.1.openW d (storedName d crc) = some fs') :
    (applyOp d s (.insert crc t)).2 crc = some t ∧ ∀ k, (applyOp d s (.insertCut crc t k)).2 crc = some t := by
  simp [applyOp, ho, setH]

/-! ## The checksum that keys the cache is the announced one, on both protocol generations -/

theorem gen_info_unpack : Gen.C11.infoFmts = ["<HI", "<BI"] ∧ Gen.C11.infoArgs = ["payload[:6]", "payload[:5]"] ∧
    parseFmt! (infoFmt true) = [.H, .I] ∧ parseFmt! (infoFmt false) = [.B, .I] := by decide

/-- The firmware's info reply (item count, then CRC-32 little-endian, possibly more bytes) is decoded to the announced
count and checksum by the legacy (`<BI`, 5 bytes) and by the V2 (`<HI`, 6 bytes) reader alike. -/
theorem info_reply_decodes_to_announced_crc (v2 : Bool) (n crc : Nat) (extra : List UInt8)
    (hn : n < (if v2 then 65536 else 256)) (hc : crc < 4294967296) :
    decodeInfo v2 (infoPayload v2 n crc extra) = .ok (n, crc) :=
  decodeInfo_spec v2 n crc extra hn hc

/-- Hence every theorem about `fetcherStep w (.info n crc)` (`hit_uses_cache`, `miss_starts_download`, ...) is about the
packet-level fetcher of either generation: the cache is consulted under the announced checksum. -/
theorem fetcher_uses_announced_crc (w : World) (v2 : Bool) (n crc : Nat) (extra : List UInt8)
    (hn : n < (if v2 then 65536 else 256)) (hc : crc < 4294967296) :
    fetcherInfoPkt w v2 (infoPayload v2 n crc extra) = fetcherStep w (.info n crc) :=
  info_packet_uses_announced_crc w v2 n crc extra hn hc

/-- Mixed generations on one cache: a table stored under checksum `c1` (by a device of any generation) is never a hit for
a device of any generation announcing `c2 ≠ c1` - whatever byte permutation relates the two numbers; its download starts. -/
theorem other_crc_any_generation_downloads (fs fs' : FS) (d : Path) (c1 c2 n2 : Nat) (t1 : Toc) (v2 : Bool)
    (extra : List UInt8) (f : Fetcher) (hs : f.state = .getInfo)
    (ho : fs.openW d (storedName d c1) = some fs') (h1 : c1 < 4294967296) (h2 : c2 < 4294967296) (hne : c1 ≠ c2)
    (hn : n2 < (if v2 then 65536 else 256)) (hpos : 0 < n2) :
    let s := (⟨[], some d⟩ : Cache).insert fs c1 t1
    fetcherInfoPkt ⟨s.1, s.2, f⟩ v2 (infoPayload v2 n2 c2 extra) =
      .ok (⟨s.1, s.2, { f with nbr := n2, crc := c2, state := .getElem, requested := 0 }⟩, [.request 0]) :=
  other_crc_other_generation_is_miss fs fs' d c1 c2 n2 t1 v2 extra f hs ho h1 h2 hne hn hpos

example : decodeInfo false [3, 0x44, 0x33, 0x22, 0x11, 9] = .ok (3, 0x11223344) ∧
    decodeInfo true [3, 0, 0x44, 0x33, 0x22, 0x11] = .ok (3, 0x11223344) ∧ decodeInfo true [3, 0, 1] = .error .exc := by decide

/-! ## Clause 4: the read-only cache directory is never written -/

/-- `insert` (complete or cut short) changes no file directly inside a directory other than the rw directory;
`__init__` changes no file at all. -/
theorem ro_never_written (fs : FS) (c : Cache) (crc : Nat) (toc : Toc) (ro name : Str)
    (hro : c.rw ≠ some ro) (hname : 47 ∉ name) :
    (c.insert fs crc toc).1.read (ro ++ 47 :: name) = fs.read (ro ++ 47 :: name) ∧
    ∀ k, (c.insertCut fs crc toc k).1.read (ro ++ 47 :: name) = fs.read (ro ++ 47 :: name) := by
  have hne : ∀ d, c.rw = some d → ro ++ 47 :: name ≠ storedName d crc := fun d hd =>
    storedName_ne_of_dir_ne (fun e => hro (by rw [hd, e])) hname
  exact ⟨insert_read fs c crc toc _ hne, fun k => insertCut_read fs c crc toc k _ hne⟩

theorem init_never_writes_files (fs fs' : FS) (ro rw : Option Path) (c : Cache)
    (h : Cache.init fs ro rw = .ok (fs', c)) (p : Path) : fs'.read p = fs.read p :=
  (init_read fs ro rw fs' c h p).1

/-! ## Known finding D24: the cache key is the checksum alone -/

def cxDir : Path := ofString "/rw"
def cxLogToc : Toc := [([103], [([110], .log ⟨0, [103], [110], [99], [112], 0⟩)])]

theorem cxLogToc_ok : TocValid cxLogToc ∧ TocWF cxLogToc ∧ NoClassKey cxLogToc := by
  refine ⟨?_, ⟨by decide, ?_⟩, ⟨by decide, ?_⟩⟩
  · intro g hg
    simp only [cxLogToc, List.mem_singleton] at hg
    subst hg
    refine ⟨by decide, ?_⟩
    intro m hm
    simp only [List.mem_singleton] at hm
    subst hm
    exact ⟨by decide, by decide, by decide, by decide, by decide⟩
  · intro g hg
    simp only [cxLogToc, List.mem_singleton] at hg
    subst hg; decide
  · intro g hg
    simp only [cxLogToc, List.mem_singleton] at hg
    subst hg; decide

/-- A log table is stored under checksum 7; a fetcher for the PARAMETER table that is told checksum 7 by the device
takes that file as a hit: its table is the log table (LogTocElements), nothing is downloaded.  (`TocFetcher` never looks at
its `element_class` on the cache path; the file name carries the checksum only.) -/
theorem collision_counterexample :
    let fs0 : FS := ⟨[], [], [cxDir], false⟩
    let c0 : Cache := ⟨[], some cxDir⟩
    let paramFetcher : Fetcher := ⟨.getInfo, 0, 0, 0, .typed []⟩
    ∃ w', fetcherStep ⟨(c0.insert fs0 7 cxLogToc).1, (c0.insert fs0 7 cxLogToc).2, paramFetcher⟩ (.info 1 7) = .ok (w', [.finished]) ∧
      w'.f.toc = .loaded (tocVal cxLogToc) ∧ (∀ g ∈ cxLogToc, ∀ m ∈ g.2, m.2.cls = .log) := by
  intro fs0 c0 paramFetcher
  have hf := (fetch_after_insert_eq_store fs0 fs0 c0 7 cxLogToc cxDir rfl (openW_clean fs0 cxDir _ (by decide) rfl) cxLogToc_ok.1 cxLogToc_ok.2.1).2 cxLogToc_ok.2.2
  refine ⟨_, fetcher_info_hit ⟨_, _, paramFetcher⟩ 1 7 rfl (tocVal cxLogToc) hf (by simp [tocVal, cxLogToc, truthy]), rfl, ?_⟩
  intro g hg m hm
  simp only [cxLogToc, List.mem_singleton] at hg
  subst hg
  simp only [List.mem_singleton] at hm
  subst hm; rfl

/-! ## Non-vacuity -/

example : fetchPattern 0xBEEF = some (ofString "0000BEEF.json") := by
  rw [fetchPattern_eq, hex08_lt _ (by decide)]; decide
example : insertName (ofString "/rw") 0xDEADBEEF = some (ofString "/rw/DEADBEEF.json") := by
  rw [insertName_eq, hex08_lt _ (by decide)]; decide
example : endsWith (ofString "/rw/DEADBEEF.json") (ofString "DEADBEEF.json") = true := by decide
example : (⟨[ofString "/rw/0000BEEF.json"], some (ofString "/rw")⟩ : Cache).Stored := by
  intro p hp
  simp only [List.mem_singleton] at hp
  exact ⟨ofString "/rw", 0xBEEF, by decide, by rw [hp, storedName, hex08_lt _ (by decide)]; decide⟩

example : TocValid cxLogToc ∧ TocWF cxLogToc ∧ NoClassKey cxLogToc := cxLogToc_ok
-- a table with a variable called `__class__`: covered by load_never_wrong / truncation_is_miss, excluded from load_eq_store
example : TocWF [([103], [(kClass, Elem.log ⟨0, [103], kClass, [99], [112], 0⟩)])] ∧
    ¬ NoClassKey [([103], [(kClass, Elem.log ⟨0, [103], kClass, [99], [112], 0⟩)])] := by
  refine ⟨⟨by decide, ?_⟩, ?_⟩
  · intro g hg; simp only [List.mem_singleton] at hg; subst hg; decide
  · intro h; exact h.2 _ (List.mem_singleton.2 rfl) (by simp [keys])
example : (0 : Nat) < (encodeText (printToc [])).length ∧ (encodeText (printToc [])).take 1 = [123] := by decide
example : (⟨[], some (ofString "/rw")⟩ : Cache).rw ≠ some (ofString "/ro") ∧ 47 ∉ ofString "0000BEEF.json" := by decide
example : findHit [ofString "/ro/0000BEEF.json", ofString "/rw/0000BEEF.json", ofString "/rw/0000BEE0.json"]
    (ofString "0000BEEF.json") = some (ofString "/rw/0000BEEF.json") := by decide
example : loads (ofString "{\"a\": [1, true]}") = .ok (.obj [(ofString "a", .arr [.int 1, .bool true])]) := by rfl
example : loads (ofString "{\"a\": [1, tr") = .error .exc := by rfl
set_option maxRecDepth 16384 in
example : loads (ofString "{\"g\": {\"n\": {\"__class__\": \"LogTocElement\", \"ident\": 3, \"group\": \"g\", \"name\": \"n\", \"ctype\": \"c\", \"pytype\": \"p\", \"access\": 0}}}")
    = .ok (tocVal [([103], [([110], .log ⟨3, [103], [110], [99], [112], 0⟩)])]) := by rfl
example : (Op.insertCut 7 cxLogToc 12).Ok := ⟨by decide, cxLogToc_ok.1, cxLogToc_ok.2.1⟩
example : (Op.block 7 .dir).Ok ∧ (Op.unlink 7).Ok := ⟨(by decide : 7 < 4294967296), (by decide : 7 < 4294967296)⟩
example : (⟨[], [(ofString "/rw/0000BEEF.json", .dir)], [ofString "/rw"], false⟩ : FS).openW (ofString "/rw") (ofString "/rw/0000BEEF.json") = none := by decide
example : glob ⟨[], [(ofString "/rw/0000BEEF.json", .dangling)], [ofString "/rw"], false⟩ (ofString "/rw") = [ofString "/rw/0000BEEF.json"] := by decide
example : truthy .null = .ok false ∧ truthy (.obj []) = .ok false := ⟨rfl, rfl⟩
example : TocWF (addAll [] [.log ⟨0, [103], [110], [99], [112], 0⟩, .param ⟨1, [103], [110], [99], [112], 1⟩ true]) :=
  downloaded_table_is_dict _

end CfVerif.C11

/-
Props/C11 — property theorems for C11 (the TOC cache never yields a wrong table, even after a crash).
Helper lemmas are in Proofs/C11*.  Every theorem is about Model/C11, whose file-name patterns, indent,
encoder/decoder keys and class names are regenerated from /repo (Gen/C11).
-/
import CfVerif.Proofs.C11
namespace CfVerif.C11
open CfVerif

/-! ## Gen obligations: what the hand-written model assumes about the current source -/

theorem gen_init : Gen.C11.initGlobs = ["ro_cache + '/*.json'", "rw_cache + '/*.json'"] ∧
    Gen.C11.initGlobTargets = ["self._cache_files Add", "self._cache_files Add"] ∧
    Gen.C11.initTests = ["ro_cache", "rw_cache", "not os.path.exists(rw_cache)"] ∧
    Gen.C11.initMkdirs = ["os.makedirs(rw_cache)"] ∧ Gen.C11.initRwAssign = "rw_cache" := by decide
theorem gen_fetch_lookup : Gen.C11.fetchPatternArg = "crc" ∧ Gen.C11.fetchLoop = "for name in self._cache_files" ∧
    Gen.C11.fetchMatch = "name.endswith(pattern)" ∧ Gen.C11.fetchMatchBody = "hit = name" ∧
    Gen.C11.fetchHitInit = "None" ∧ Gen.C11.fetchDataInit = "None" ∧ Gen.C11.fetchReturns = ["cache_data"] := by decide
theorem gen_fetch_load : Gen.C11.fetchOpen = ["open(hit)"] ∧
    Gen.C11.fetchLoad = "json.load(cache, object_hook=self._decoder)" ∧ Gen.C11.fetchExcept = "Exception" ∧
    Gen.C11.fetchTryAssigns = ["cache", "cache_data"] ∧ Gen.C11.fetchHandlerStmts = ["Expr:logger.warning"] := by decide
theorem gen_insert : Gen.C11.insertPatternArgs = ["self._rw_cache", "crc"] ∧ Gen.C11.insertGuard = "self._rw_cache" ∧
    Gen.C11.insertOpen = ["open(filename, 'w')"] ∧ Gen.C11.insertDumpFn = "json.dumps" ∧
    Gen.C11.insertDumpArgs = ["toc", "default=self._encoder"] ∧ Gen.C11.insertWrites = ["cache.write(json)"] ∧
    Gen.C11.insertAppends = ["self._cache_files += [filename]"] ∧ Gen.C11.insertExcept = "Exception" ∧
    Gen.C11.insertHandlerStmts = ["Expr:logger.warning"] := by decide
theorem gen_encoder : Gen.C11.encoderExprs = ["obj.__class__.__name__", "obj.ident", "obj.group", "obj.name",
      "obj.ctype", "obj.pytype", "obj.access"] ∧ Gen.C11.encoderParamTest = "isinstance(obj, ParamTocElement)" ∧
    Gen.C11.encoderParamExprs = ["obj.extended"] ∧ Gen.C11.encoderReturns = ["encoded"] := by decide
theorem gen_decoder : Gen.C11.decoderTest = "'__class__' in obj" ∧ Gen.C11.decoderElse = "return obj" ∧
    Gen.C11.decoderCtor = "elem = eval(obj['__class__'])()" ∧ Gen.C11.decoderReturn = "return elem" ∧
    Gen.C11.decoderAssigns = ["elem.ident = obj['ident']", "elem.group = str(obj['group'])",
      "elem.name = str(obj['name'])", "elem.ctype = str(obj['ctype'])", "elem.pytype = str(obj['pytype'])",
      "elem.access = obj['access']"] ∧ Gen.C11.decoderStrWrapped = [0, 1, 1, 1, 1, 0] ∧
    Gen.C11.decoderParamTest = "isinstance(elem, ParamTocElement)" ∧
    Gen.C11.decoderParamAssigns = ["elem.extended = obj['extended']"] := by decide
theorem gen_fetcher : Gen.C11.infoFmts = ["<HI", "<BI"] ∧
    Gen.C11.infoTargets = ["[self.nbr_of_items, self._crc]", "[self.nbr_of_items, self._crc]"] ∧
    Gen.C11.fetcherCacheCalls = ["self._toc_cache.fetch(self._crc)", "self._toc_cache.insert(self._crc, self.toc.toc)",
      "self._toc_cache.insert(self._crc, self.toc.toc)"] ∧
    Gen.C11.fetcherFetchAssign = "self._toc_cache.fetch(self._crc)" ∧
    Gen.C11.fetcherHitBody = ["self.toc.toc = cache_data", "self._toc_fetch_finished()"] ∧
    Gen.C11.fetcherMissBody = ["self.state = GET_TOC_ELEMENT", "self.requested_index = 0", "if self.nbr_of_items > 0:"] ∧
    Gen.C11.fetcherCompares = ["chan != 0", "self.state == GET_TOC_INFO", "self.nbr_of_items > 0",
      "self.state == GET_TOC_ELEMENT", "ident != self.requested_index",
      "self.requested_index < self.nbr_of_items - 1"] := by decide

/-! ## Clause 1: a cached table is used only when the announced checksum equals the one it was stored under -/

/-- Whatever `fetch crc` returns other than `None` was decoded from a cached path whose name ends in
`'%08X.json' % crc` (no assumption on the directory contents). -/
theorem fetch_reads_only_matching_name (fs : FS) (c : Cache) (crc : Nat) (v : JVal)
    (h : c.fetch fs crc = .ok v) (hv : v ≠ .null) :
    ∃ p bs, p ∈ c.files ∧ endsWith p (hex08 crc ++ dotJson) = true ∧ fs.read p = some bs ∧ loadBytes bs = .ok v :=
  fetch_reads_matching fs c crc v h hv

/-- When the cached paths are files written by `insert` (under 32-bit checksums, as unpacked from the
`I` field of the TOC info packet), a table returned for `crc` was read from the file stored under exactly `crc`. -/
theorem used_only_on_crc_match (fs : FS) (c : Cache) (crc : Nat) (v : JVal) (hs : c.Stored)
    (hcrc : crc < 4294967296) (h : c.fetch fs crc = .ok v) (hv : v ≠ .null) :
    ∃ d bs, storedName d crc ∈ c.files ∧ fs.read (storedName d crc) = some bs ∧ loadBytes bs = .ok v := by
  obtain ⟨p, bs, hm, he, hr, hl⟩ := fetch_reads_matching fs c crc v h hv
  obtain ⟨d, crc', hc', hp⟩ := hs p hm
  subst hp
  have := storedName_endsWith hc' hcrc he
  subst this
  exact ⟨d, bs, hm, hr, hl⟩

/-! ## Clause 4: the read-only cache directory is never written -/

/-- `insert` (complete or cut short) changes no file directly inside a directory other than the rw directory;
`__init__` changes no file at all. -/
theorem ro_never_written (fs : FS) (c : Cache) (crc : Nat) (toc : Toc) (ro name : Str)
    (hro : c.rw ≠ some ro) (hname : 47 ∉ name) :
    (c.insert fs crc toc).1.read (ro ++ 47 :: name) = fs.read (ro ++ 47 :: name) ∧
    ∀ k, (c.insertCut fs crc toc k).1.read (ro ++ 47 :: name) = fs.read (ro ++ 47 :: name) := by
  have hne : ∀ d, c.rw = some d → ro ++ 47 :: name ≠ storedName d crc := fun d hd =>
    storedName_ne_of_dir_ne (fun e => hro (by rw [hd, e])) hname
  exact ⟨insert_read fs c crc toc _ hne, fun k => insertCut_read fs c crc toc k _ hne⟩

theorem init_never_writes_files (fs fs' : FS) (ro rw : Option Path) (c : Cache)
    (h : Cache.init fs ro rw = .ok (fs', c)) (p : Path) : fs'.read p = fs.read p :=
  (init_read fs ro rw fs' c h p).1

/-! ## Non-vacuity -/

example : fetchPattern 0xBEEF = some (ofString "0000BEEF.json") := by
  rw [fetchPattern_eq, hex08_lt _ (by decide)]; decide
example : insertName (ofString "/rw") 0xDEADBEEF = some (ofString "/rw/DEADBEEF.json") := by
  rw [insertName_eq, hex08_lt _ (by decide)]; decide
example : endsWith (ofString "/rw/DEADBEEF.json") (ofString "DEADBEEF.json") = true := by decide
example : (⟨[ofString "/rw/0000BEEF.json"], some (ofString "/rw")⟩ : Cache).Stored := by
  intro p hp
  simp only [List.mem_singleton] at hp
  exact ⟨ofString "/rw", 0xBEEF, by decide, by rw [hp, storedName, hex08_lt _ (by decide)]; decide⟩

end CfVerif.C11

/-
Props/C12 — property theorems for C12 (flashing writes exactly the image, nowhere else).
-/
import CfVerif.Proofs.C12
namespace CfVerif.C12
open CfVerif

variable {σ : Type}

/-- An image that does not fit between the EFFECTIVE start page (the override when given) and the end of the
flash is refused before anything is transmitted, whatever the peer. -/
theorem refused_if_too_big (P : Peer σ) (L : Link σ) (g : Geom) (image : List UInt8) (ov : Option Int)
    (term : List Bool) (hlen : 0 < image.length)
    (h : ((g.flashPages : Int) - effStart g ov) * g.pageSize < image.length) :
    internalFlash P L g image ov term = (L, .notEnoughSpace) :=
  refused_aux P L g image ov term hlen h

end CfVerif.C12

/-
Props/C12 — property theorems for C12 (flashing writes exactly the image, nowhere else).

Model (Model/C12): `Bootloader._internal_flash`, `Cloader.upload_buffer`, `Cloader.write_flash` over an abstract
link whose far end is a parameter.  Environment (Spec/C12): the bootloader target (buffers + flash as byte maps,
firmware-side decoder) behind a link with one `Outcome` per flash-write transmission (command lost / executed,
any reply packet or none, reply in time or late).  Helper lemmas: Proofs/C12, C12Write, C12Flash, C12Retry.
-/
import CfVerif.Proofs.C12Flash
import CfVerif.Proofs.C12Retry
import CfVerif.Proofs.C12Abort
import CfVerif.Proofs.C12Loader
import CfVerif.Proofs.C12Alias
namespace CfVerif.C12
open CfVerif

variable {σ : Type}

/-! ## Gen obligations: what the hand-written model assumes about the current source -/

/-- `upload_buffer`: header layout and argument order of both `struct.pack` calls, the running address, the
loop shape, where the packets are sent. -/
theorem gen_upload :
    Gen.C12.uploadFmt = "=BBHH" ∧
    Gen.C12.uploadArgs0 = ["target_id", "20", "page", "address"] ∧
    Gen.C12.uploadArgs1 = ["target_id", "20", "page", "i + address + 1"] ∧
    Gen.C12.uploadLoopIter = "i in range(0, len(buff))" ∧ Gen.C12.uploadAppendArgs = ["buff[i]"] ∧
    Gen.C12.uploadCountUpdates = ["count = 0", "count += 1", "count = 0"] ∧
    Gen.C12.uploadSends = ["self.link.send_packet(pk)", "self.link.send_packet(pk)"] ∧
    Gen.C12.uploadHeaderArgs = ["255"] := by decide

/-- a full packet (6 header bytes + `uploadFlushAt + 1` data bytes) fits the 31 bytes after the CRTP header -/
theorem gen_upload_room : Gen.C12.uploadFlushAt + 1 + 6 ≤ 31 ∧
    (∀ c, Gen.C12.uploadFull c = decide (c > Gen.C12.uploadFlushAt)) := ⟨by decide, fun _ => rfl⟩

/-- `write_flash`: the downlink flush polls with timeout 0 until `None`; the retry loop's test, its blocking
receive, the counter; the command layout; how the result is read from the reply. -/
theorem gen_write_flash :
    Gen.C12.flushRecvPolls = true ∧ Gen.C12.retryRecvBlocks = true ∧ Gen.C12.flushLoopTest = "pk is not None" ∧
    Gen.C12.flushLoopBody = ["pk = self.link.receive_packet(0)"] ∧
    Gen.C12.retryCounterUpdates = ["retry_counter -= 1"] ∧
    Gen.C12.replyArgs = ["pk.data[0:2]"] ∧
    Gen.C12.writeFmt = "<BBHHH" ∧ Gen.C12.writeArgs = ["addr", "24", "page_buffer", "target_page", "page_count"] ∧
    Gen.C12.writeIfTests = ["retry_counter < 0"] ∧ Gen.C12.writeReturns = ["False", "pk.data[2] == 1"] ∧
    Gen.C12.writeErrorCode = ["-1", "pk.data[3]"] ∧ Gen.C12.writeSends = ["self.link.send_packet(pk)"] ∧
    Gen.C12.writeHeaderArgs = ["255"] := by decide

/-- the test of the retry loop, exactly as the model's `needRetry` / `retryLoop` read it -/
theorem gen_retry_test : Gen.C12.retryLoopTest =
    "(not pk or pk.header != 255 or len(pk.data) < 2 or (struct.unpack('<BB', pk.data[0:2]) != (addr, 24))) and retry_counter >= 0" := rfl

/-- `_internal_flash`: start-page override, the division that raises for an empty image, call arguments of
`upload_buffer` / `write_flash`, counter updates, both flush failures raise. -/
theorem gen_internal_flash :
    Gen.C12.flashAssigns = ["image = artifact.content", "t_data = target_info", "start_page = target_info.start_page",
      "factor = 100.0 * t_data.page_size / len(image)", "start_page = page_override"] ∧
    Gen.C12.terminateTest = "self.terminate_flashing_cb and self.terminate_flashing_cb()" ∧
    Gen.C12.uploadCallArgs0 = ["t_data.addr", "ctr", "0"] ∧ Gen.C12.uploadCallArgs1 = ["t_data.addr", "ctr", "0"] ∧
    Gen.C12.ctrUpdates = ["ctr = 0", "ctr += 1", "ctr = 0"] ∧
    Gen.C12.flushCallArgs0 = ["t_data.addr", "0", "start_page + i - (ctr - 1)", "ctr"] ∧
    Gen.C12.flushCallArgs1 = ["t_data.addr", "0", "start_page + int((len(image) - 1) / t_data.page_size) - (ctr - 1)", "ctr"] ∧
    Gen.C12.flushFailAction = ["raise", "raise"] := ⟨rfl, rfl, rfl, rfl, rfl, rfl, rfl, rfl⟩

/-- constants the proofs rely on: CRTP header of the bootloader port, command bytes as the target decodes them,
reply recognition.  The number of attempts (`retryInit + 1`, currently 6) is only required to be a small bound:
every theorem below is generic in it. -/
theorem gen_constants :
    bootHdr = 0xFF ∧ Gen.C12.uploadCmd = 0x14 ∧ Gen.C12.uploadCmd1 = 0x14 ∧ Gen.C12.writeCmd = 0x18 ∧
    Gen.C12.replyCmd = 0x18 ∧ Gen.C12.replyHeader = 0xFF ∧ Gen.C12.replyMinLen = 2 ∧
    Gen.C12.retryInit + 1 ≤ 16 := by decide

/-- The geometry cache is state of the Cloader OBJECT: no class-level attributes, `self.link` / `self.targets` /
`self.protocol_version` are created in `__init__`; besides `__init__` only `open_bootloader_uri` rebinds `targets`,
and it does so unconditionally BEFORE it creates the new link (`self.targets = {}`, `self.mapping = None`: repair D26);
`request_info_update` queries only uncached ids; `_internal_flash` reads the cache of the loader it is called on. -/
theorem gen_loader_state :
    Gen.C12.cloaderClassAttrs = [] ∧
    Gen.C12.cloaderInit = ["self.link = None", "self.targets = {}", "self.protocol_version = 255"] ∧
    Gen.C12.targetsRebinds = ["__init__", "open_bootloader_uri"] ∧
    Gen.C12.openLinkAssigns = ["self.link", "self.mapping", "self.targets"] ∧
    Gen.C12.openLinkResets = ["self.targets = {}", "self.mapping = None"] ∧
    Gen.C12.requestInfoBody = ["if target_id not in self.targets:\n    self._update_info(target_id)",
      "if self._info_cb:\n    self._info_cb.call(self.targets[target_id])", "return self.targets[target_id]"] ∧
    Gen.C12.checkLinkTests = ["self._update_info(target_id)", "self._in_boot_cb", "self._info_cb"] ∧
    Gen.C12.checkLinkDefaults = ["255"] ∧
    Gen.C12.flashTargetInfo = ["self._cload.targets[TargetTypes.from_string(artifact.target.target)]"] :=
  ⟨rfl, rfl, rfl, rfl, rfl, rfl, rfl, rfl, rfl⟩

/-- `_update_info`: request `(target_id, 0x10)`, resend on every timed-out receive, virtual time budget, reply test,
layout of the reply and which field goes where, the mapping query. -/
theorem gen_update_info :
    Gen.C12.infoRequestData = ["(target_id, 16)"] ∧ Gen.C12.infoCmd = 0x10 ∧
    Gen.C12.infoLoopTest = "time.time() - ts < timeout" ∧ 0 < Gen.C12.infoRecvWait ∧
    Gen.C12.infoSends = ["self.link.send_packet(pk)", "self.link.send_packet(pk)"] ∧
    Gen.C12.infoMatchFmt = "<BB" ∧ Gen.C12.infoMatchArgs = ["answer.data[0:2]"] ∧
    Gen.C12.infoFmt = "BBHHHH" ∧ Gen.C12.infoArgs = ["answer.data[0:10]"] ∧
    Gen.C12.infoCpuidArgs = ["answer.data[10:22]"] ∧ Gen.C12.infoCpuidFmt = "'B' * 12" ∧
    Gen.C12.infoFields = ["addr = target_id", "page_size = tab[2]", "buffer_pages = tab[3]", "flash_pages = tab[4]",
      "start_page = tab[5]", "protocol_version = answer.data[22]"] ∧
    Gen.C12.infoReturns = ["True", "False"] ∧
    Gen.C12.mappingIO = ["self.link.send_packet(pk)", "self.link.receive_packet(2)"] ∧
    Gen.C12.targetSTM32 = 0xFF ∧ Gen.C12.targetNRF51 = 0xFE := by
  refine ⟨rfl, rfl, rfl, by decide, rfl, rfl, rfl, rfl, rfl, rfl, rfl, rfl, rfl, rfl, rfl, rfl⟩

theorem gen_update_info_tests : Gen.C12.infoIfTests.take 4 = ["answer is None",
    "answer and answer.header == 255 and (struct.unpack('<BB', answer.data[0:2]) == (target_id, 16))",
    "target_id not in self.targets", "len(answer.data) > 22"] ∧
    Gen.C12.infoIfTests.getLast? = some "self.protocol_version == 16 and target_id == TargetTypes.STM32" := ⟨rfl, rfl⟩

/-- packet objects are never reused after they were handed to the link: `upload_buffer` creates a new `CRTPPacket`
after every send inside its loop, `write_flash` builds a new one for every attempt -/
theorem gen_fresh_packets : Gen.C12.uploadFreshPacket = true ∧ Gen.C12.writeFreshPacket = true := ⟨rfl, rfl⟩

/-! ## The property -/

/-- **Refused if too big.**  An image that does not fit between the EFFECTIVE start page (the override when one is
given) and the end of the flash is refused before anything is transmitted — for every peer, geometry and image. -/
theorem refused_if_too_big (P : Peer σ) (L : Link σ) (g : Geom) (image : List UInt8) (ov : Option Int)
    (term : List Bool) (hlen : 0 < image.length)
    (h : ((g.flashPages : Int) - effStart g ov) * g.pageSize < image.length) :
    internalFlash P L g image ov term = (L, .notEnoughSpace) :=
  refused_aux P L g image ov term hlen h

/-- **Upload covers every byte exactly once.**  For every peer: `upload_buffer` succeeds and transmits `buff` cut into
consecutive load-buffer packets (all but the last carry exactly `uploadFlushAt + 1 = 25` bytes, the last the
remaining 0..24); every packet has the bootloader header and at most 31 data bytes; and the byte writes the target
performs are exactly `buff[0]` at `address`, `buff[1]` at `address + 1`, ... — each byte once, at its offset. -/
theorem upload_covers_once (P : Peer σ) (L : Link σ) (tid page address : Nat) (buff : List UInt8)
    (ht : tid < 256) (hp : page < 65536) (hfit : address + buff.length < 65536) :
    ∃ chunks : List (List UInt8),
      uploadBuffer P L tid page address buff = (sendAll P L (loadPkts tid page address chunks), .ok ()) ∧
      chunks.flatten = buff ∧
      (∀ c ∈ chunks.dropLast, c.length = Gen.C12.uploadFlushAt + 1) ∧
      (∀ c ∈ chunks.getLast?, c.length ≤ Gen.C12.uploadFlushAt) ∧
      (∀ p ∈ loadPkts tid page address chunks, p.hdr = 0xFF ∧ p.data.length ≤ 31) ∧
      byteWrites tid (loadPkts tid page address chunks) = (buff.zipIdx address).map fun x => (page, x.2, x.1) := by
  obtain ⟨chunks, hfl, _, hlen, hinit, hlast, hrun⟩ := uploadBuffer_spec P L tid page address buff ht hp hfit
  refine ⟨chunks, hrun, hfl, hinit, hlast, ?_, ?_⟩
  · exact loadPkts_hdr_len tid page chunks hlen address
  · rw [byteWrites_loadPkts tid page ht hp chunks address (by rw [hfl]; exact hfit), hfl]

/-- **No aliasing with the link.**  Against a link that keeps the packet OBJECT it is handed and reads its data only
later (one-slot out-queue of the radio driver; `ObjLink`), for every buffer, every arguments, whatever already waits
in the slot: `upload_buffer` puts exactly the same data on the air, in the same order, as the value-level model
transmits against any peer - the model all other theorems are about - and returns the same result.  So
`upload_covers_once` and `flash_exact` do not depend on when the link serialises. -/
theorem upload_no_aliasing (P : Peer σ) (L : Link σ) (o : ObjLink) (tid : Int) (page address : Nat)
    (buff : List UInt8) (hs : ∀ id, o.slot = some id → id < o.heap.length) :
    ∃ new : List (List UInt8),
      (uploadBuffer P L tid page address buff).1.sent = L.sent ++ new.map (fun d => ⟨0xFF, d⟩) ∧
      (uploadBufferObj o tid page address buff).1.flush.air = o.flush.air ++ new ∧
      (uploadBuffer P L tid page address buff).2 = (uploadBufferObj o tid page address buff).2 := by
  obtain ⟨new, h1, h2, h3⟩ := uploadBufferObj_eq P L o tid page address buff hs
  exact ⟨new, by rw [h1, bootHdr_eq], h2, h3⟩

/-- **Flash exact.**  Environment: the Spec target behind a link with ANY outcome script whose positive replies are
genuine, ANY stale content in the receive queue, no reply still in flight.  Geometry: positive page size and buffer
count, fields fit 16 bits, target id a byte; image of ≥ 1 byte that fits from the effective start page `S`.
Then, with `n` the number of pages of the image:
(1) whatever the result, flash pages outside `[S, S+n)` are untouched, `S + n ≤ flash_pages`, and every packet
    transmitted is a command within the page buffers and within `[S, S+n)` (load packets ≤ 31 bytes);
(2) if the run returns normally, flash holds the image: byte `k` at page `S + k / page_size`, offset `k % page_size`. -/
theorem flash_exact (g : Geom) (tid : Nat) (image : List UInt8) (ov : Option Int) (term : List Bool) (L : Link Env)
    (haddr : g.addr = (tid : Int)) (htid : tid < 256)
    (hps : 0 < g.pageSize ∧ g.pageSize < 65536) (hbp : 0 < g.bufferPages ∧ g.bufferPages < 65536)
    (hfp : g.flashPages < 65536) (hlen : 0 < image.length) (hS : 0 ≤ effStart g ov)
    (hfit : (image.length : Int) ≤ ((g.flashPages : Int) - effStart g ov) * g.pageSize)
    (hlate : L.st.lateQ = []) (hgen : ScriptGenuine tid L.st.script) :
    let S := (effStart g ov).toNat
    let n := nPages image.length g.pageSize
    let R := internalFlash (targetPeer tid) L g image ov term
    (∀ q, q < S ∨ S + n ≤ q → R.1.st.tgt.flash q = L.st.tgt.flash q) ∧ S + n ≤ g.flashPages ∧
    (∃ new, R.1.sent = L.sent ++ new ∧ ∀ p ∈ new, CmdWithin g tid S n p) ∧
    (R.2 = .done → ∀ k (hk : k < image.length),
      R.1.st.tgt.flash (S + k / g.pageSize) (k % g.pageSize) = image[k]) := by
  intro S n R
  have hSe : effStart g ov = (S : Int) := by simp only [S]; omega
  have hf : Fits g tid S image := fits_of_guard g tid S image haddr htid hps hbp hfp hlen (by rw [← hSe]; exact hfit)
  obtain ⟨L', r, hrun, hsafe, hok⟩ := internalFlash_env hf ov hSe term L hlate hgen
  have hR : R = (L', r) := hrun
  rw [hR]
  refine ⟨hsafe.out, hf.room, hsafe.sent, ?_⟩
  intro hd k hk
  rw [hok hd k hk]
  simp [hk]

/-- **Bounded retries.**  For every peer and all arguments, `write_flash` transmits its command at most
`retryInit + 1` (currently 6, and ≤ 16 by `gen_constants`) times and transmits nothing else. -/
theorem write_flash_attempts_bounded (P : Peer σ) (L : Link σ) (addr pb tp pc : Int) :
    ∃ k, k ≤ Gen.C12.retryInit + 1 ∧ k ≤ 16 ∧ ((writeFlash P L addr pb tp pc).1).sent =
      L.sent ++ List.replicate k ⟨0xFF, writeDataOr addr pb tp pc⟩ := by
  obtain ⟨k, hk, hs⟩ := writeFlash_sent P L addr pb tp pc
  exact ⟨k, hk, by have := gen_constants.2.2.2.2.2.2.2; omega, by rw [hs, bootHdr_eq]⟩

/-- **Failure when unanswered.**  Against the Spec environment with ANY script (no assumption): `write_flash` returns
True only if one of the first `retryInit` (5) transmissions of this call met an outcome whose reply passes for a
positive flash-write reply.  Hence a command whose first five transmissions are lost, unanswered, answered negatively
or answered by unrelated packets is reported as failed (also when a positive reply to the sixth arrives). -/
theorem write_flash_ok_only_if_acked (tid bp fp cnt : Nat) (ht : tid < 256) (hb : bp < 65536) (hf : fp < 65536)
    (hn : cnt < 65536) (L : Link Env) (hlate : L.st.lateQ = []) (L' : Link Env) (c : Int)
    (h : writeFlash (targetPeer tid) L (tid : Int) (bp : Int) (fp : Int) (cnt : Int) = (L', .ok (true, c))) :
    ∃ i p, i < Gen.C12.retryInit ∧ (outcomeAt tid L.st.script i).reply = some p ∧ Positive tid p :=
  writeFlash_acked tid bp fp cnt ht hb hf hn L hlate L' c h

/-- **Abort on failure.**  Environment as in `flash_exact`, but the script carries no unrelated traffic (every packet
that comes back is a flash-write reply of this target, with any status: `ScriptClean`); no terminate callback.
Then the run IS the reference run `refRun` of Spec/C12, for every pattern of lost commands, lost / late / negative /
positive replies: the transmitted packets are exactly the reference's and the result is `done` iff the reference
completes, else `flashFailed code`.  In the reference (read its definition): each flush transmits its command
`(refLoop ..).1 ≤ retryInit + 1` times (`ref_attempts_le`), succeeds iff a status-1 reply reaches the client within the first
5 attempts, and a flush that does not succeed ENDS the run — the trace stops after its last attempt. -/
theorem abort_on_failure (g : Geom) (tid : Nat) (image : List UInt8) (ov : Option Int) (L : Link Env)
    (haddr : g.addr = (tid : Int)) (htid : tid < 256)
    (hps : 0 < g.pageSize ∧ g.pageSize < 65536) (hbp : 0 < g.bufferPages ∧ g.bufferPages < 65536)
    (hfp : g.flashPages < 65536) (hlen : 0 < image.length) (hS : 0 ≤ effStart g ov)
    (hfit : (image.length : Int) ≤ ((g.flashPages : Int) - effStart g ov) * g.pageSize)
    (hlate : L.st.lateQ = []) (hclean : ScriptClean tid L.st.script) :
    let S := (effStart g ov).toNat
    let ref := refRun tid (Gen.C12.retryInit + 1) Gen.C12.uploadFlushAt g S image
      (nPages image.length g.pageSize) 0 0 L.st.script
    let R := internalFlash (targetPeer tid) L g image ov []
    R.1.sent = L.sent ++ ref.1 ∧
    R.2 = (match ref.2 with | none => .done | some code => .flashFailed code) := by
  intro S ref R
  have hSe : effStart g ov = (S : Int) := by simp only [S]; omega
  have hf : Fits g tid S image := fits_of_guard g tid S image haddr htid hps hbp hfp hlen (by rw [← hSe]; exact hfit)
  obtain ⟨h1, h2⟩ := internalFlash_ref hf ov hSe L hlate hclean
  refine ⟨h1, ?_⟩
  rw [h2]
  cases (refRun tid (Gen.C12.retryInit + 1) Gen.C12.uploadFlushAt g S image
      (nPages image.length g.pageSize) 0 0 L.st.script).2 <;> rfl

/-! ### where the geometry comes from: several loader objects, several connections, several copters -/

/-- the world at the start of a history: copters that answer get-info genuinely (scripts may lose, delay or
interleave unrelated packets), no loader objects yet -/
structure StartOk (w0 : World) : Prop where
  noLoaders : w0.loaders = []
  copters : ∀ cop ∈ w0.copters, CopterOk cop.geomOf cop.proto cop

theorem startOk_worldOk (rp : Bool) (w0 : World) (h0 : StartOk w0) :
    WorldOk rp (fun c t => (w0.copters[c]?).bind (·.geomOf t)) (fun c => (w0.copters[c]?).bind (·.proto)) w0 := by
  refine ⟨?_, (by rw [h0.noLoaders]; intro ls hls; cases hls), ?_⟩
  · intro c cop hc
    have := h0.copters cop (List.mem_of_getElem? hc)
    simpa [hc] using this
  · intro c t g hgt
    cases hc : w0.copters[c]? with
    | none => simp [hc] at hgt
    | some cop =>
      simp only [hc, Option.bind_some] at hgt
      have hwf := (h0.copters cop (List.mem_of_getElem? hc)).wf
      simp only [Copter.geomOf, Option.map_eq_some_iff] at hgt
      obtain ⟨ct, hf, rfl⟩ := hgt
      obtain ⟨hm, ht, _⟩ := find_some hf
      have := hwf ct hm
      rw [ht] at this
      exact ⟨this.1, this.2.2.1, this.2.2.2.1, this.2.2.2.2.1, this.2.2.2.2.2⟩

/-- **Every cached geometry was reported on one of the loader's own connections** (holds for the repaired code and
for the code before the repair D26).  For EVERY history of operations (new loader objects, opening / closing links
to any copter, `_update_info`, `request_info_update`, `check_link_and_get_info`, `_internal_flash`, in any order and
interleaving over any number of loaders and copters): every geometry a loader holds for a target id is exactly what
the copter recorded for that cache entry (the copter this loader was connected to when it read the entry) reports for
that id.  No entry ever comes from another loader object or from a copter this loader was not connected to. -/
theorem geometry_from_own_connection (repaired : Bool) (w0 : World) (h0 : StartOk w0) (fuel : Nat) (ops : List HOp)
    (hops : ∀ op ∈ ops, op.TidOk) (k : Nat) (ls : LoaderSt)
    (hk : (World.run repaired fuel w0 ops).1.loaders[k]? = some ls) (key : Nat) (g : Geom)
    (hg : lookupT ls.ld.targets key = some g) :
    ∃ c cop, lookupN ls.readFrom key = some c ∧ w0.copters[c]? = some cop ∧ cop.geomOf key = some g := by
  have hw := run_ok fuel ops w0 (startOk_worldOk repaired w0 h0) hops
  obtain ⟨c, hc, hgc⟩ := (hw.loaders ls (List.mem_of_getElem? hk)).aligned.lookup key g hg
  cases hcop : w0.copters[c]? with
  | none => simp [hcop] at hgc
  | some cop => exact ⟨c, cop, hc, hcop, by simpa [hcop] using hgc⟩

/-- **The geometry `_internal_flash` reads is the one reported on the CURRENT connection** (the code as it is now,
with the repaired `open_bootloader_uri`).  After ANY history, for any loader that is connected to copter `c`: whatever
geometry it holds for a target id - so whatever `_internal_flash` would use - is what copter `c` reports for that id.
No stale entry survives a reconnect; no side condition on how or when the entry was read. -/
theorem flash_uses_geometry_of_this_connection (w0 : World) (h0 : StartOk w0) (fuel : Nat) (ops : List HOp)
    (hops : ∀ op ∈ ops, op.TidOk) (k : Nat) (ls : LoaderSt)
    (hk : (World.run true fuel w0 ops).1.loaders[k]? = some ls) (key : Nat) (g : Geom)
    (hg : lookupT ls.ld.targets key = some g) (c : Nat) (hconn : ls.conn = some c) :
    ∃ cop, w0.copters[c]? = some cop ∧ cop.geomOf key = some g := by
  have hw := run_ok fuel ops w0 (startOk_worldOk true w0 h0) hops
  have hls := hw.loaders ls (List.mem_of_getElem? hk)
  obtain ⟨c', hc', hgc⟩ := hls.aligned.lookup key g hg
  have := hls.fresh rfl (key, c') (lookupN_mem hc') c hconn
  simp only at this
  subst this
  cases hcop : w0.copters[c']? with
  | none => simp [hcop] at hgc
  | some cop => exact ⟨cop, rfl, by simpa [hcop] using hgc⟩

/-! ### the reference semantics says what the clause says -/

/-- a flush transmits its command at most `tries` times -/
theorem ref_attempts_le (tid : Nat) : ∀ (n : Nat) (pending : Option Pkt) (s : List Outcome),
    (refLoop tid n pending s).1 ≤ n := by
  intro n
  induction n with
  | zero => intro p s; simp [refLoop]
  | succ n ih =>
    intro p s
    unfold refLoop
    cases p with
    | some r => simp
    | none =>
      simp only
      split
      · simp
      · have := ih (if (nextOutcome tid s).1.late = true then (nextOutcome tid s).1.reply else none) (nextOutcome tid s).2
        simp only; omega

/-- a command whose `n` transmissions all remain without reply uses all `n` attempts and fails -/
theorem ref_unanswered (tid : Nat) : ∀ (n : Nat) (s : List Outcome),
    (∀ i, i < n → (outcomeAt tid s i).reply = none) → refLoop tid n none s = (n, none) := by
  intro n
  induction n with
  | zero => intro s _; rfl
  | succ n ih =>
    intro s h
    have h0 : (nextOutcome tid s).1.reply = none := by simpa [outcomeAt] using h 0 (by omega)
    have hrest : ∀ i, i < n → (outcomeAt tid (nextOutcome tid s).2 i).reply = none := by
      intro i hi
      have := h (i + 1) (by omega)
      have e : (nextOutcome tid s).2 = s.drop 1 := by cases s <;> rfl
      simpa [outcomeAt, e, List.drop_drop, Nat.add_comm] using this
    unfold refLoop
    simp only [h0, ite_self, ih _ hrest]

/-- a positive reply in time to the first transmission: one attempt, success -/
theorem ref_answered_at_once (tid : Nat) (n : Nat) (s : List Outcome) :
    refLoop tid (n + 2) none (Outcome.okNow tid :: s) = (1, some (wfReply tid 1 0)) := by
  simp [refLoop, nextOutcome, Outcome.okNow]

/-! ## Non-vacuity: concrete instances of the hypotheses and of the conclusions

Page size 4, 3 buffers, 20 flash pages, start page 2, a 17-byte image (5 pages: one full buffer round and a final
partial flush with a 1-byte last page); a stale positive reply sits in the receive queue at the start; the first
flush meets: command lost, executed with a late reply, executed with the reply lost (the third attempt receives
the late reply of the second); the second flush is answered at once. -/

def exTarget : Target := { buf := fun _ _ => 0, flash := fun q o => UInt8.ofNat (q + o) }
def exGeom : Geom := { addr := 255, pageSize := 4, bufferPages := 3, flashPages := 20, startPage := 2 }
def exImage : List UInt8 := (List.range 17).map fun k => UInt8.ofNat (100 + k)
def exScript : List Outcome := [.cmdLost, .okLate 255, .replyLost]
def exLink : Link Env :=
  { st := { tgt := exTarget, script := exScript, lateQ := [] }, inbox := [wfReply 255 1 0], sent := [] }

example : ScriptGenuine 255 exScript := by decide
example : (exImage.length : Int) ≤ ((exGeom.flashPages : Int) - effStart exGeom none) * exGeom.pageSize := by decide
example : (exImage.length : Int) ≤ ((exGeom.flashPages : Int) - effStart exGeom (some 15)) * exGeom.pageSize ∧
    ((exGeom.flashPages : Int) - effStart exGeom (some 16)) * exGeom.pageSize < exImage.length := by decide
set_option maxRecDepth 100000 in
example : (internalFlash (targetPeer 255) exLink exGeom exImage none []).2 = .done ∧
    (internalFlash (targetPeer 255) exLink exGeom exImage none []).1.sent.length = 9 ∧
    (internalFlash (targetPeer 255) exLink exGeom exImage none []).1.st.tgt.flash 6 0 = 116 ∧
    (internalFlash (targetPeer 255) exLink exGeom exImage none []).1.st.tgt.flash 7 0 = 7 := by decide
set_option maxRecDepth 100000 in
example : (internalFlash (targetPeer 255) exLink exGeom exImage (some 16) []).2 = .notEnoughSpace := by decide
/-- all permitted transmissions unanswered: the first flush fails with error code -1 after exactly `retryInit + 1`
attempts, nothing follows -/
example : (internalFlash (targetPeer 255)
      { exLink with st := { tgt := exTarget, script := List.replicate (Gen.C12.retryInit + 1) .replyLost, lateQ := [] } }
      exGeom exImage none []).2 = .flashFailed (-1) ∧
    ((internalFlash (targetPeer 255)
      { exLink with st := { tgt := exTarget, script := List.replicate (Gen.C12.retryInit + 1) .replyLost, lateQ := [] } }
      exGeom exImage none []).1.sent.drop 3) = List.replicate (Gen.C12.retryInit + 1) (writePkt 255 0 2 3) := by decide
/-- the quirk: a positive reply to the last permitted attempt is reported as a failure -/
example : (writeFlash (targetPeer 255)
      { exLink with st := { tgt := exTarget, script := List.replicate Gen.C12.retryInit .cmdLost ++ [.okNow 255], lateQ := [] } }
      255 0 2 3).2 = .ok (false, -1) := by decide
/-- 60 bytes through a link whose slot already holds an older packet object: three chunks, each serialised late -/
example : ((uploadBufferObj ⟨[[9, 9]], some 0, []⟩ 255 1 0 ((List.range 60).map UInt8.ofNat)).1.flush.air.map List.length) =
    [2, 31, 31, 16] := by decide

example : ScriptClean 255 exScript := by
  intro o ho p hp
  simp only [exScript, List.mem_cons, List.not_mem_nil, or_false] at ho
  rcases ho with rfl | rfl | rfl
  · cases hp
  · exact ⟨1, 0, by cases hp; rfl⟩
  · cases hp
example : (refRun 255 (Gen.C12.retryInit + 1) 24 exGeom 2 exImage 5 0 0 exScript).2 = none ∧
    (refRun 255 (Gen.C12.retryInit + 1) 24 exGeom 2 exImage 5 0 0 (List.replicate (Gen.C12.retryInit + 1) .replyLost)).2 = some (-1) ∧
    (refRun 255 (Gen.C12.retryInit + 1) 24 exGeom 2 exImage 5 0 0 [.okNow 255, .negLate 255 9, .cmdLost]).2 = some 9 := by decide
example : ((uploadBuffer (targetPeer 255) exLink 255 1 0 (List.replicate 50 7)).1.sent.map (·.data.length)).all (· ≤ 31) ∧
    ((uploadBuffer (targetPeer 255) exLink 255 1 0 (List.replicate 50 7)).1.sent.map (·.data.length - 6)).sum = 50 := by
  decide

/-! ### several loaders and the known finding D26 -/

def exCopter (nrfStart : Nat) : Copter :=
  { targets := [⟨255, ⟨255, 8, 2, 40, 3⟩, exTarget⟩, ⟨254, ⟨254, 8, 1, 30, nrfStart⟩, exTarget⟩],
    proto := some 16, infoScript := [], lateQ := [] }
def exWorld : World := { copters := [exCopter 10, exCopter 14], loaders := [] }

example : StartOk exWorld := by
  refine ⟨rfl, ?_⟩
  intro cop h
  simp only [exWorld, List.mem_cons, List.not_mem_nil, or_false] at h
  rcases h with rfl | rfl <;>
  · refine ⟨rfl, rfl, ?_, (by intro o ho; cases ho), (by intro p hp; cases hp)⟩
    intro ct hct
    simp only [exCopter, List.mem_cons, List.not_mem_nil, or_false] at hct
    rcases hct with rfl | rfl <;> decide

/-- two loader objects, one per copter: each reads and uses its own copter's nRF51 geometry -/
example : (World.run true 50 exWorld [.new, .openLink 0 0, .check 0, .request 0 254, .new, .openLink 1 1, .check 1,
      .request 1 254]).2 =
    [.unit, .unit, .bool true, .geom ⟨254, 8, 1, 30, 10⟩, .unit, .unit, .bool true, .geom ⟨254, 8, 1, 30, 14⟩] := by decide

/-- ONE loader object re-connected to a copter whose nRF51 geometry differs: the repaired code re-reads (start page 14) -/
example : (World.run true 50 exWorld [.new, .openLink 0 0, .check 0, .request 0 254, .closeLink 0, .openLink 0 1, .check 0,
      .request 0 254]).2.getLast? = some (.geom ⟨254, 8, 1, 30, 14⟩) := by decide

/-- **Finding D26 (fixed by c1a3150), the code as it was.**  With `open_bootloader_uri` keeping the cache
(`repaired := false`), `check_link_and_get_info` refreshes the STM32 entry after the reconnect but
`request_info_update(0xFE)` answers from the cache: the geometry `_internal_flash` would use (start page 10) is not
the one the connected copter reports (14).  So `flash_uses_geometry_of_this_connection` fails for the old code. -/
theorem stale_cache_counterexample :
    (World.run false 50 exWorld [.new, .openLink 0 0, .check 0, .request 0 254, .closeLink 0, .openLink 0 1, .check 0,
      .request 0 254]).2.getLast? = some (.geom ⟨254, 8, 1, 30, 10⟩) ∧
    (exCopter 14).geomOf 254 = some ⟨254, 8, 1, 30, 14⟩ := by decide

end CfVerif.C12

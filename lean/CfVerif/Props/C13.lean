/-
Props/C13 — property theorems for C13 (numeric wire codecs are exact or within their stated resolution).
Helper lemmas are in Proofs/C13*.  Specs (IEEE value of a bit pattern, firmware encoders) are in Spec/C13.
-/
import CfVerif.Proofs.C13
namespace CfVerif.C13
open CfVerif CfVerif.C13.Spec

/-! ## Half precision -/

/-- Half-precision decoding returns (a float holding) the IEEE-754 binary16 value for every one of the
65 536 bit patterns, including signed zeros, subnormals, infinities and NaN.
`fp16ToFloat` is the translation of the current source (Gen/C13); `halfValue`/`singleValue` are the IEEE
value specs; `same` is equality of the denoted values (sign-sensitive on zeros, NaN ~ NaN). -/
theorem fp16_exact (h : Nat) (hh : h < 65536) :
    ∃ bits, fp16ToFloat (h : Int) = .ok (.f32 bits) ∧ bits < 2 ^ 32 ∧
      (singleValue bits).same (halfValue h) = true :=
  fp16_exact_aux h hh

/-- The lighthouse angle decoder passes the 16 bits as a *signed* integer (`struct` code `h`): the decoder
gives the same result as for the unsigned reading of the same bits. -/
theorem fp16_signed_arg (v : Int) (h1 : -32768 ≤ v) (h2 : v < 0) :
    fp16ToFloat v = fp16ToFloat (v + 65536) :=
  fp16_signed_arg_aux v h1 h2

/-- D11, the code at /repo HEAD before the repair: negative zero decodes to the *integer* 2147483648. -/
theorem fp16_live_counterexample :
    ¬ (∀ h : Nat, h < 65536 → ∃ bits, fp16ToFloatLive (h : Int) = .ok (.f32 bits) ∧
        (singleValue bits).same (halfValue h) = true) := by
  intro hall
  obtain ⟨bits, hb, _⟩ := hall 0x8000 (by decide)
  have : fp16ToFloatLive ((0x8000 : Nat) : Int) = .ok (.int 2147483648) := by decide
  rw [this] at hb
  cases hb

/-! ## Non-vacuity -/
example : fp16ToFloat 0x3C00 = .ok (.f32 0x3F800000) := by decide     -- 1.0
example : fp16ToFloat 0x0001 = .ok (.f32 0x33800000) := by decide     -- smallest subnormal 2^-24
example : fp16ToFloat (-32768) = .ok (.f32 0x80000000) := by decide   -- -0.0 from the signed reading
example : halfValue 0xC000 = .fin true (1024 * 2 ^ 16) 25 := by decide  -- -2.0

end CfVerif.C13

/-
Props/C13 — property theorems for C13 (numeric wire codecs are exact or within their stated resolution).

Helper lemmas are in Proofs/C13*.  Specs (IEEE value of a bit pattern, device-side packet encoders) are in Spec/C13.
Every theorem is about Model/C13, whose bit expressions, scale factors and formats are regenerated from /repo
(Gen/C13); `fp16_to_float` is entirely the translation of the source.
-/
import CfVerif.Proofs.C13
import CfVerif.Proofs.C13Val
import CfVerif.Proofs.C13Traj
import CfVerif.Proofs.C13Led
import CfVerif.Proofs.C13Loc
import CfVerif.Proofs.C13QuatInt
import CfVerif.Proofs.C13Hist
import CfVerif.Proofs.C13Ring
namespace CfVerif.C13
open CfVerif CfVerif.C13.Spec

/-! ## Gen obligations: what the hand-written parts of the model assume about the current source -/

theorem gen_quat_compress :
    Gen.C13.cqNormalise = "np.array(quat) / np.linalg.norm(quat)" ∧ Gen.C13.cqSqrtHalf = "1.0 / np.sqrt(2)" ∧
    Gen.C13.cqCompares = ["abs(quat_n[i]) > abs(quat_n[i_largest])", "quat_n[i_largest] < 0", "i != i_largest", "quat_n[i] < 0"] ∧
    Gen.C13.cqRanges = ["range(1, 4)", "range(4)"] ∧ Gen.C13.cqNegate = "quat_n[i_largest] < 0" ∧
    Gen.C13.cqNegbit = "int((quat_n[i] < 0) ^ negate)" ∧ Gen.C13.cqMagOperand = "abs(quat_n[i]) / M_SQRT1_2" ∧
    Gen.C13.cqMagRounding = "0.5" ∧ Gen.C13.cqCompAssigns = ["i_largest", "comp << 10 | negbit << 9 | mag"] ∧
    Gen.C13.cqReturn = "comp" := by decide
theorem gen_quat_decompress :
    Gen.C13.dqCompares = ["i != i_largest", "negbit == 1"] ∧ Gen.C13.dqRanges = ["range(3, -1, -1)"] ∧
    Gen.C13.dqComponent = ["mag / mask / np.sqrt(2)", "-q[i]"] ∧ Gen.C13.dqLargestComponent = "np.sqrt(1.0 - sum_squares)" ∧
    Gen.C13.dqAugAssigns = ["sum_squares += q[i] * q[i]"] ∧ Gen.C13.dqReturn = "q" := by decide
theorem gen_trajectory :
    Gen.C13.spatialOperand = "coordinate" ∧ Gen.C13.yawOperand = "math.degrees(angle_rad)" ∧
    Gen.C13.spatialElement = "map(self._encode_spatial, element)" ∧ Gen.C13.yawElement = "map(self._encode_yaw, element)" ∧
    Gen.C13.startArgs = ["self._encode_spatial(self.x)", "self._encode_spatial(self.y)", "self._encode_spatial(self.z)",
      "self._encode_yaw(self.yaw)"] ∧
    Gen.C13.segHeadArgs = ["element_types", "duration_ms"] ∧ Gen.C13.durationOperand = "self.duration" ∧
    Gen.C13.segElementCalls = ["struct.pack('<BH', element_types, duration_ms)",
      "self._pack_element(self._encode_spatial_element(self.x))", "self._pack_element(self._encode_spatial_element(self.y))",
      "self._pack_element(self._encode_spatial_element(self.z))", "self._pack_element(self._encode_yaw_element(self.yaw))"] ∧
    Gen.C13.segElemArgs = ["part"] ∧
    Gen.C13.segValidateCompares = ["length != 0", "length != 1", "length != 3", "length != 7"] ∧
    Gen.C13.segInitValidates = ["self._validate(element_x)", "self._validate(element_y)", "self._validate(element_z)",
      "self._validate(element_yaw)"] := by decide
/-- millimetres and tenths of a degree -/
theorem gen_units : Gen.C13.spatialScale = 1000 ∧ Gen.C13.yawScale = 10 := by decide
theorem gen_led :
    Gen.C13.ledR5Intensity = "led.intensity" ∧ Gen.C13.ledG6Intensity = "led.intensity" ∧ Gen.C13.ledB5Intensity = "led.intensity" ∧
    0 < Gen.C13.ledR5Divisor ∧ 0 < Gen.C13.ledG6Divisor ∧ 0 < Gen.C13.ledB5Divisor ∧
    Gen.C13.ledRanges = ["self.leds"] ∧ Gen.C13.ledInitRanges = ["range(12)"] := by decide
theorem gen_incoming :
    Gen.C13.incArgs = ["packet.data[:1]", "raw_data[:5]"] ∧
    Gen.C13.incCompares = ["len(packet.data) < 1", "pk_type == self.RANGE_STREAM_REPORT", "len(data) % 5 != 0",
      "pk_type == self.LH_PERSIST_DATA", "pk_type == self.LH_ANGLE_STREAM"] ∧
    Gen.C13.incRanges = ["range(int(len(data) / 5))"] ∧
    (∀ s ∈ ["data = packet.data[1:]", "raw_data = data", "decoded_data[anchor_id] = distance", "raw_data = raw_data[5:]",
        "decoded_data = bool(data[0])", "decoded_data = self._decode_lh_angle(data)",
        "pk = LocalizationPacket(pk_type, data, decoded_data)"], s ∈ Gen.C13.incAssigns) := by decide
theorem gen_lh_angle :
    Gen.C13.lhArgs = ["data"] ∧ Gen.C13.lhFp16Import = ["from cflib.utils.encoding import fp16_to_float"] ∧
    Gen.C13.lhAssigns = ["decoded_data = {}", "decoded_data['basestation'] = raw_data[0]", "decoded_data['x'] = [0, 0, 0, 0]",
      "decoded_data['x'][0] = raw_data[1]", "decoded_data['x'][1] = raw_data[1] - fp16_to_float(raw_data[2])",
      "decoded_data['x'][2] = raw_data[1] - fp16_to_float(raw_data[3])", "decoded_data['x'][3] = raw_data[1] - fp16_to_float(raw_data[4])",
      "decoded_data['y'] = [0, 0, 0, 0]", "decoded_data['y'][0] = raw_data[5]",
      "decoded_data['y'][1] = raw_data[5] - fp16_to_float(raw_data[6])", "decoded_data['y'][2] = raw_data[5] - fp16_to_float(raw_data[7])",
      "decoded_data['y'][3] = raw_data[5] - fp16_to_float(raw_data[8])"] := by decide

/-- objects used more than once: the constructors keep the raw arguments (nothing derived, in particular no lazy
`map()` iterator), the serialisers compute from those attributes and store nothing but callbacks, `_incoming` stores nothing -/
theorem gen_objects :
    Gen.C13.startInitAssigns = ["self.x = x", "self.y = y", "self.z = z", "self.yaw = yaw"] ∧ Gen.C13.startInitDerived = [] ∧
    Gen.C13.segInitAssigns = ["self.duration = duration", "self.x = element_x", "self.y = element_y", "self.z = element_z",
      "self.yaw = element_yaw"] ∧ Gen.C13.segInitDerived = [] ∧
    Gen.C13.startPackStores = [] ∧ Gen.C13.segPackStores = [] ∧
    Gen.C13.trajWriteLoops = ["for element in self.trajectory: data += element.pack()"] ∧
    Gen.C13.trajWriteCalls = ["self.mem_handler.write(self, start_addr, data, flush_queue=True)"] ∧
    (∀ s ∈ Gen.C13.trajWriteStores, s ∈ ["self._write_finished_cb = write_finished_cb", "self._write_failed_cb = write_failed_cb"]) ∧
    Gen.C13.ledObjInit = ["self.r = 0", "self.g = 0", "self.b = 0", "self.intensity = 100"] ∧
    Gen.C13.ledSetStores = ["self.r = r", "self.g = g", "self.b = b", "self.intensity = intensity"] ∧
    Gen.C13.ledSetTests = ["intensity"] ∧
    (∀ s ∈ Gen.C13.ledWriteStores, s = "self._write_finished_cb = write_finished_cb") ∧
    Gen.C13.ledWriteCalls = ["self.mem_handler.write(self, 0, data, flush_queue=True)"] ∧
    (∀ s ∈ Gen.C13.ledtWriteStores, s = "self._write_finished_cb = write_finished_cb") ∧
    Gen.C13.ledtWriteLoops = ["self.timings"] ∧
    Gen.C13.ledtAddStores = ["self.timings.append({'time': time, 'rgb': rgb, 'leds': leds, 'fade': fade, 'rotate': rotate})"] ∧
    Gen.C13.ledtWriteCalls = ["self.mem_handler.write(self, 0, bytearray(data), flush_queue=True)"] ∧
    Gen.C13.incStores = [] ∧
    Gen.C13.incCalls = ["self.receivedLocationPacket.call(pk)", "self._decode_lh_angle(data)"] := by decide

/-- the write loops treat every LED / timing on its own: an iteration reads its own item only — no local carried in from
before the loop or from an earlier iteration (a cache, a "previous" value), no object attribute, no helper beyond `int` /
`bytearray`; the only outer name touched is the output being appended to -/
theorem gen_led_loops :
    Gen.C13.ledLoopCarried = [] ∧ Gen.C13.ledLoopAccumulators = ["data"] ∧ Gen.C13.ledLoopSelfReads = [] ∧
    Gen.C13.ledLoopCalls = ["bytearray", "int"] ∧
    Gen.C13.ledtLoopCarried = [] ∧ Gen.C13.ledtLoopAccumulators = ["data"] ∧ Gen.C13.ledtLoopSelfReads = [] ∧
    Gen.C13.ledtLoopCalls = ["int"] := by decide

/-! ## Half precision -/

/-- Half-precision decoding returns (a float holding) the IEEE-754 binary16 value for every one of the
65 536 bit patterns, including signed zeros, subnormals, infinities and NaN.
`fp16ToFloat` is the translation of the current source; `halfValue`/`singleValue` are the IEEE value specs;
`same` is equality of the denoted values (sign-sensitive on zeros, NaN ~ NaN; see `same_fin_iff`). -/
theorem fp16_exact (h : Nat) (hh : h < 65536) :
    ∃ bits, fp16ToFloat (h : Int) = .ok (.f32 bits) ∧ bits < 2 ^ 32 ∧
      (singleValue bits).same (halfValue h) = true :=
  fp16_exact_aux h hh

/-- The lighthouse angle decoder passes the 16 bits as a *signed* integer (`struct` code `h`): the decoder
gives the same result as for the unsigned reading of the same bits. -/
theorem fp16_signed_arg (v : Int) (h1 : -32768 ≤ v) (h2 : v < 0) :
    fp16ToFloat v = fp16ToFloat (v + 65536) :=
  fp16_signed_arg_aux v h1 h2

/-- D11, the code at /repo HEAD before the repair: negative zero decodes to the *integer* 2147483648. -/
theorem fp16_live_counterexample :
    ¬ (∀ h : Nat, h < 65536 → ∃ bits, fp16ToFloatLive (h : Int) = .ok (.f32 bits) ∧
        (singleValue bits).same (halfValue h) = true) := by
  intro hall
  obtain ⟨bits, hb, _⟩ := hall 0x8000 (by decide)
  have : fp16ToFloatLive ((0x8000 : Nat) : Int) = .ok (.int 2147483648) := by decide
  rw [this] at hb
  cases hb

example : fp16ToFloat 0x3C00 = .ok (.f32 0x3F800000) := by decide     -- 1.0
example : fp16ToFloat 0x0001 = .ok (.f32 0x33800000) := by decide     -- smallest subnormal 2^-24
example : fp16ToFloat (-32768) = .ok (.f32 0x80000000) := by decide   -- -0.0 from the signed reading
example : halfValue 0xC000 = .fin true (1024 * 2 ^ 16) 25 := by decide  -- -2.0
example : halfValue 0x8000 = .fin true 0 25 ∧ halfValue 0xFC00 = .inf true ∧ halfValue 0x7E01 = .nan := by decide

/-! ## Quaternion compression

`compressR`/`decompressR` (Proofs/C13Quat) are the code's functions over ℝ: same scan, same bit packing (Gen), real
`/ sqrt abs`, `int()` as floor.  `compressInt` is the executable model run against the real code. -/

/-- Compressing and decompressing any non-zero quaternion yields the same rotation (`q` or `-q`: one common sign)
with every component within two quantisation steps `2 · (1/511 · 1/√2)`, and the compressed word fits 32 bits. -/
theorem quat_roundtrip (q : Fin 4 → ℝ) (hq : q ≠ 0) :
    ∃ w : Nat, compressR q = (w : Int) ∧ w < 2 ^ 32 ∧
      ∃ s : ℝ, (s = 1 ∨ s = -1) ∧ ∀ j, |s * (q j / qnorm q) - decompressR w j| ≤ 2 * (1 / (511 * Real.sqrt 2)) :=
  quat_roundtrip_aux q hq

/-- The executable model (integer quaternion = any float quaternion after scaling) is the real-number compressor. -/
theorem quat_model_is_compressR (v : Fin 4 → Int) (hv : v ≠ 0) :
    compressInt v = .ok (compressR (fun i => (v i : ℝ))) :=
  compressInt_eq v hv

/-- Integer part alone: index, sign bits and 9-bit magnitudes survive packing and unpacking; the word is < 2^32. -/
theorem quat_fields_roundtrip (iL : Fin 4) (neg : Fin 4 → Bool) (mag : Fin 4 → Nat) (hm : ∀ i, mag i ≤ 511) :
    ∃ w : Nat, assemble iL neg mag = (w : Int) ∧ w < 2 ^ 32 ∧
      decompressParts w = .ok (iL.val, (stored iL).reverse.map (fun i => ⟨i.val, neg i, mag i⟩)) :=
  decompress_assemble iL neg mag hm

/-- the zero quaternion is refused (`int(nan)` raises `ValueError`); a word with index ≥ 4 raises `IndexError` -/
theorem quat_errors : compressInt (fun _ => 0) = .error .valueError ∧ decompressParts (2 ^ 32) = .error .indexError := by
  decide

example : compressInt (fun i => [1, 1, 1, 1].getD i.val 0) = .ok 0x1695A569 := by decide +kernel
example : decompressParts 0x1695A569 = .ok (0, [⟨3, false, 361⟩, ⟨2, false, 361⟩, ⟨1, false, 361⟩]) := by decide
example : (fun i : Fin 4 => ([0, -3, 0, 4] : List ℝ).getD i.val 0) ≠ 0 := by
  intro h; have := congrFun h 3; simp at this

/-! ## Compressed trajectories: millimetres and tenths of a degree -/

/-- `_encode_spatial`: the encoded value is less than one unit (1 mm) away from `1000·x`
(`|e·den - 1000·num| < den`) for every coordinate `x = num/den` whose encoding is below 2^52 in magnitude —
in particular for everything that can be packed. -/
theorem coordinate_error_lt_one (x : Q) (hd : 0 < x.den) (e : Int) (he : encodeSpatial x = .ok e)
    (hfit : e.natAbs < 2 ^ 52) :
    (e * x.den - x.num * Gen.C13.spatialScale).natAbs < x.den :=
  truncRn_error (x.scale Gen.C13.spatialScale) hd e he hfit

/-- `_encode_yaw` on the value `deg` of `math.degrees(angle_rad)`: less than one unit (0.1°) away from `10·deg` -/
theorem yaw_error_lt_one (deg : Q) (hd : 0 < deg.den) (e : Int) (he : encodeYawDeg deg = .ok e)
    (hfit : e.natAbs < 2 ^ 52) :
    (e * deg.den - deg.num * Gen.C13.yawScale).natAbs < deg.den :=
  truncRn_error (deg.scale Gen.C13.yawScale) hd e he hfit

/-- `CompressedStart.pack`: when all four encoded values fit int16 the 8 bytes decode to exactly those values;
otherwise `struct.error` is raised — overflow raises rather than wraps. -/
theorem start_packs_or_raises (x y z w : Q) (ex ey ez ew : Int)
    (hx : encodeSpatial x = .ok ex) (hy : encodeSpatial y = .ok ey) (hz : encodeSpatial z = .ok ez)
    (hw : encodeYawDeg w = .ok ew) :
    ((∀ v ∈ [ex, ey, ez, ew], fitsInt16 v) →
      ∃ bs, packStart x y z w = .ok bs ∧ bs.length = 8 ∧
        unpack (parseFmt! Gen.C13.startFmt) bs = .ok [.int ex, .int ey, .int ez, .int ew]) ∧
    ((∃ v ∈ [ex, ey, ez, ew], ¬ fitsInt16 v) → packStart x y z w = .error .structError) :=
  packStart_spec x y z w ex ey ez ew hx hy hz hw

/-- every polynomial element of a `CompressedSegment` (spatial or yaw, any number of parts): same statement -/
theorem element_packs_or_raises (enc : Q → Except PyErr Int) (f : Q → Int) (ps : List Q) (h : ∀ p ∈ ps, enc p = .ok (f p)) :
    ((∀ p ∈ ps, fitsInt16 (f p)) →
      ∃ bs, packElement enc ps = .ok bs ∧ bs.length = 2 * ps.length ∧
        unpack (List.replicate ps.length Code.h) bs = .ok (ps.map (fun p => Val.int (f p)))) ∧
    ((∃ p ∈ ps, ¬ fitsInt16 (f p)) → packElement enc ps = .error .structError) :=
  packElement_spec enc f ps h

example : encodeSpatial ⟨-1001, 1000⟩ = .ok (-1001) ∧ encodeSpatial ⟨12345, 10000⟩ = .ok 1234 := by decide
example : packStart ⟨1, 1⟩ ⟨-2, 1⟩ ⟨32767, 1000⟩ ⟨1, 3⟩ = .ok [0xe8, 3, 0x30, 0xf8, 0xff, 0x7f, 3, 0] := by decide
example : packStart ⟨32768, 1000⟩ ⟨0, 1⟩ ⟨0, 1⟩ ⟨0, 1⟩ = .error .structError := by decide
example : fitsInt16 32767 ∧ ¬ fitsInt16 32768 := by decide

/-! ### every call, not only the first -/

/-- `pack()` is idempotent: in any number of calls on one `CompressedStart`/`CompressedSegment` object every call returns
what the first returns — the same bytes, or the same exception (an overflow raises every time) — and leaves the object
as constructed.  So `start_packs_or_raises` / `element_packs_or_raises` / `coordinate_error_lt_one` hold for every call. -/
theorem pack_idempotent (e : TrajElem) (n : Nat) : packN e n = (e, List.replicate n e.pack.2) :=
  packN_idem e n

/-- the same trajectory list uploaded any number of times (to any memories or addresses) yields the same data each time -/
theorem upload_idempotent (els : List TrajElem) (n : Nat) : uploadN els n = (els, List.replicate n (writeTraj els).2) :=
  uploadN_idem els n

/-- and that data is the concatenation of the elements' `pack()` results, or the first exception among them -/
theorem upload_is_concatenation (els : List TrajElem) : (writeTraj els).2 = (packAll els).map List.flatten :=
  writeTraj_eq els

example : packN (.seg ⟨⟨1, 1⟩, [⟨40, 1⟩], [], [], []⟩) 2 =
    (.seg ⟨⟨1, 1⟩, [⟨40, 1⟩], [], [], []⟩, [.error .structError, .error .structError]) := by decide
example : (uploadN [.start ⟨⟨1, 1⟩, ⟨0, 1⟩, ⟨0, 1⟩, ⟨0, 1⟩⟩, .seg ⟨⟨1, 2⟩, [⟨1, 2⟩], [], [], [⟨9, 1⟩]⟩] 2).2 =
    [.ok [0xe8, 3, 0, 0, 0, 0, 0, 0, 0x41, 0xf4, 1, 0xf4, 1, 90, 0], .ok [0xe8, 3, 0, 0, 0, 0, 0, 0, 0x41, 0xf4, 1, 0xf4, 1, 90, 0]] := by
  decide

/-! ## LED ring: RGB888 → RGB565 -/

/-- For 8-bit levels and an intensity of 0..100 the word sent for one LED is `r5·2048 + g6·32 + b5` with
`r5 ≤ 31`, `g6 ≤ 63`, `b5 ≤ 31` (so it is below 2^16, fields do not overlap), transmitted big-endian. -/
theorem led_rgb565 (r g b i : Nat) (hr : r < 256) (hg : g < 256) (hb : b < 256) (hi : i ≤ 100) :
    let w := ledChanR r i * 2048 + ledChanG g i * 32 + ledChanB b i
    ledChanR r i ≤ 31 ∧ ledChanG g i ≤ 63 ∧ ledChanB b i ≤ 31 ∧ w < 2 ^ 16 ∧
    led565 ⟨r, g, b, i⟩ = .ok (w : Int) ∧
    ledBytes ⟨r, g, b, i⟩ = .ok [UInt8.ofNat (w / 256), UInt8.ofNat (w % 256)] := by
  intro w
  obtain ⟨l1, _, _⟩ := ledChan_le r i hr hi
  obtain ⟨_, l2, _⟩ := ledChan_le g i hg hi
  obtain ⟨_, _, l3⟩ := ledChan_le b i hb hi
  obtain ⟨h1, h2⟩ := led565_eq r g b i hr hg hb hi
  exact ⟨l1, l2, l3, by omega, h1, h2⟩

/-- each channel is monotone in the colour level (and in the intensity) -/
theorem led_monotone (c c' i i' : Nat) (hc : c ≤ c') (hc' : c' < 256) (hi : i ≤ i') :
    ledChanR c i ≤ ledChanR c' i' ∧ ledChanG c i ≤ ledChanG c' i' ∧ ledChanB c i ≤ ledChanB c' i' :=
  ledChan_mono c c' i i' hc hc' hi

/-- black maps to 0 at every intensity, white to full scale (31/63/31, word 0xFFFF) at full intensity -/
theorem led_black_white :
    (∀ i, ledChanR 0 i = 0 ∧ ledChanG 0 i = 0 ∧ ledChanB 0 i = 0) ∧
    ledChanR 255 100 = 31 ∧ ledChanG 255 100 = 63 ∧ ledChanB 255 100 = 31 ∧
    led565 ⟨255, 255, 255, 100⟩ = .ok 0xFFFF ∧ led565 ⟨0, 0, 0, 100⟩ = .ok 0 := by
  refine ⟨?_, by decide, by decide, by decide, by decide, by decide⟩
  intro i
  have h : (Gen.C13.ledR5 (0 : Nat)).toNat = 0 ∧ (Gen.C13.ledG6 (0 : Nat)).toNat = 0 ∧ (Gen.C13.ledB5 (0 : Nat)).toNat = 0 := by decide
  unfold ledChanR ledChanG ledChanB
  rw [h.1, h.2.1, h.2.2]
  simp

/-- The timings driver (no intensity) satisfies the same clauses on its own expressions: word `r5·2048 + g6·32 + b5`
with in-range fields, each channel monotone in the level, black ↦ 0, white ↦ 31/63/31. -/
theorem led_timing_rgb565 (t : Timing) (r g b : Nat) (hr : r < 256) (hg : g < 256) (hb : b < 256)
    (htr : t.r = r) (htg : t.g = g) (htb : t.b = b) :
    ledtChanR r ≤ 31 ∧ ledtChanG g ≤ 63 ∧ ledtChanB b ≤ 31 ∧
    timing565 t = ((ledtChanR r * 2048 + ledtChanG g * 32 + ledtChanB b : Nat) : Int) :=
  timing565_eq t r g b hr hg hb htr htg htb

theorem led_timing_monotone (c c' : Nat) (hc : c ≤ c') (hc' : c' < 256) :
    ledtChanR c ≤ ledtChanR c' ∧ ledtChanG c ≤ ledtChanG c' ∧ ledtChanB c ≤ ledtChanB c' :=
  ledtChan_mono c c' hc hc'

theorem led_timing_black_white :
    ledtChanR 0 = 0 ∧ ledtChanG 0 = 0 ∧ ledtChanB 0 = 0 ∧ ledtChanR 255 = 31 ∧ ledtChanG 255 = 63 ∧ ledtChanB 255 = 31 := by
  decide

example : ledWriteData [⟨255, 255, 255, 100⟩, ⟨0, 0, 0, 100⟩, ⟨128, 64, 32, 50⟩] = .ok [0xff, 0xff, 0, 0, 0x41, 0x02] := by decide
example : ledBytes ⟨255, 255, 255, 1000⟩ = .error .valueError := by decide    -- intensity beyond 100: bytearray() refuses
example : timingsWriteData [⟨5, 255, 0, 0, 3, true, 2⟩, ⟨0, 0, 0, 0, 0, false, 0⟩] = .ok [5, 0xf8, 0, 0x53, 0, 0, 0, 0] := by decide

/-! ### the whole ring / sequence: a map over the items, no cross-item dependence -/

/-- For EVERY ring content the written image is the concatenation of the per-LED encodings `ledBytes` (or the first
per-LED exception): LED i's bytes do not depend on any other LED. -/
theorem led_ring_is_map (ring : List Led) : ledWriteData ring = (ledBytesAll ring).map List.flatten :=
  ledWriteData_is_map ring

/-- For every ring of in-range LEDs — repeated colours at different intensities, gradients, anything — word i of the image
is the RGB565 word of LED i (`Led.word` = the per-LED function of `led_rgb565`, for which monotonicity, black and white are
proved), big-endian at bytes 2i, 2i+1. -/
theorem led_ring_image (ring : List Led) (h : ∀ l ∈ ring, l.InRange) :
    ledWriteData ring = .ok (ring.flatMap Led.bytes) ∧
    ∀ k (hk : k < ring.length),
      (ring.flatMap Led.bytes)[2 * k]? = some (UInt8.ofNat (ring[k].word / 256)) ∧
      (ring.flatMap Led.bytes)[2 * k + 1]? = some (UInt8.ofNat (ring[k].word % 256)) :=
  ⟨ledWriteData_inRange ring h,
   fun k hk => flatMap_pair_getElem? (fun l : Led => (UInt8.ofNat (l.word / 256), UInt8.ofNat (l.word % 256))) ring k hk⟩

/-- the timing sequence likewise: each timing contributes its own entry (or nothing when all-zero), then the terminator -/
theorem led_timing_is_map (ts : List Timing) : timingInts ts = ts.flatMap timingEntry ++ Gen.C13.ledtTerminator :=
  timingInts_is_map ts

example : (⟨255, 255, 255, 100⟩ : Led).InRange ∧ (⟨255, 255, 255, 4⟩ : Led).InRange := by decide
example : ledWriteData [⟨255, 255, 255, 4⟩, ⟨255, 255, 255, 100⟩, ⟨255, 255, 255, 4⟩] = .ok [0x08, 0x41, 0xff, 0xff, 0x08, 0x41] := by decide

/-- One ring object over any history of colour/intensity changes and writes: a write changes nothing, so repeated writes
send the same data, and the data of every write is `ledWriteData` of the state produced by the `set`/intensity operations
before it alone (`led_rgb565` etc. therefore hold for every write). -/
theorem led_write_idempotent (s : List Led) (n : Nat) :
    ledRun s (List.replicate n LedOp.write) = List.replicate n (ledWriteData s) :=
  ledRun_writes s n

theorem led_writes_see_only_sets (s : List Led) (before after : List LedOp) :
    ledRun s (before ++ LedOp.write :: after) =
      ledRun s before ++ ledWriteData (ledFinal s (before.filter (· ≠ LedOp.write))) ::
        ledRun (ledFinal s (before.filter (· ≠ LedOp.write))) after := by
  rw [ledRun_append, ← ledFinal_ignores_writes]
  rfl

/-- the timings object: writes leave the list alone; a write after further `add`s sends the extended list -/
theorem timing_write_idempotent (s : List Timing) (n : Nat) :
    timingRun s (List.replicate n TimingOp.write) = List.replicate n (timingsWriteData s) :=
  timingRun_writes s n

theorem timing_write_after_adds (s adds : List Timing) (ops : List TimingOp) :
    timingRun s (adds.map TimingOp.add ++ TimingOp.write :: ops) =
      timingsWriteData (s ++ adds) :: timingRun (s ++ adds) ops :=
  timingRun_append_write s adds ops

example : ledRun ledInit [.set 0 255 255 255 none, .write, .set 0 255 255 255 (some 0), .write, .intensity 0 0, .write] =
    [.ok (0xff :: 0xff :: List.replicate 22 0), .ok (0xff :: 0xff :: List.replicate 22 0), .ok (List.replicate 24 0)] := by decide

/-! ## Localization stream packets -/

/-- one `Localization` object, any stream of packets: what the callback receives for the i-th packet depends on that packet
alone (so the two decoding theorems below hold for every packet of a stream) -/
theorem incoming_memoryless (before : List (List UInt8)) (p : List UInt8) (after : List (List UInt8)) :
    incomingAll (before ++ p :: after) = incomingAll before ++ incoming p :: incomingAll after := by
  simp [incomingAll]


/-- A range report decodes to exactly the reported anchor distances: the dict built by assigning each
`(anchor id, binary32 distance)` in order — for any number of anchors. -/
theorem range_report_decodes (anchors : List (Nat × Nat)) (h : ∀ a ∈ anchors, a.1 < 256 ∧ a.2 < 2 ^ 32) :
    incoming (encodeRangeReport anchors) =
      .ok (.packet 0 ((encodeRangeReport anchors).drop 1) (.ranges (dictOf anchors))) :=
  incoming_range anchors h

/-- with pairwise distinct anchor ids that dict is the reported list itself -/
theorem range_report_distinct (anchors : List (Nat × Nat)) (hn : (anchors.map (·.1)).Nodup) : dictOf anchors = anchors :=
  dictOf_nodup anchors hn

/-- in general each anchor id maps to the last distance reported for it in the packet -/
theorem range_report_last_wins (anchors : List (Nat × Nat)) (id : Nat) :
    (dictOf anchors).lookup id = anchors.reverse.lookup id :=
  dictOf_lookup anchors id

/-- A lighthouse angle-stream packet decodes, per axis, to the base sweep angle and `base - offsetₖ` where each
offset is (a float holding) the IEEE binary16 value of the transmitted 16 bits — including ±0, subnormals, ±inf, NaN. -/
theorem lh_angle_decodes (bs bx x1 x2 x3 by_ y1 y2 y3 : Nat) (hbs : bs < 256) (hbx : bx < 2 ^ 32) (hby : by_ < 2 ^ 32)
    (hx1 : x1 < 65536) (hx2 : x2 < 65536) (hx3 : x3 < 65536) (hy1 : y1 < 65536) (hy2 : y2 < 65536) (hy3 : y3 < 65536) :
    incoming (encodeLhAngle bs bx x1 x2 x3 by_ y1 y2 y3) =
      .ok (.packet 10 ((encodeLhAngle bs bx x1 x2 x3 by_ y1 y2 y3).drop 1)
        (.lhAngle bs
          [.base bx, .sub bx (.f32 (halfAsSingle x1)), .sub bx (.f32 (halfAsSingle x2)), .sub bx (.f32 (halfAsSingle x3))]
          [.base by_, .sub by_ (.f32 (halfAsSingle y1)), .sub by_ (.f32 (halfAsSingle y2)), .sub by_ (.f32 (halfAsSingle y3))])) ∧
    ∀ h ∈ [x1, x2, x3, y1, y2, y3], halfAsSingle h < 2 ^ 32 ∧ (singleValue (halfAsSingle h)).same (halfValue h) = true := by
  refine ⟨incoming_lh bs bx x1 x2 x3 by_ y1 y2 y3 hbs hbx hby hx1 hx2 hx3 hy1 hy2 hy3, ?_⟩
  intro h hm
  have hh : h < 65536 := by
    simp only [List.mem_cons, List.mem_nil_iff, or_false] at hm
    rcases hm with rfl | rfl | rfl | rfl | rfl | rfl <;> assumption
  exact (halfAsSingle_spec h hh).2

/-- malformed packets: a range report whose length is not a multiple of 5 is dropped, an angle packet of the wrong
size raises `struct.error`, an empty packet is dropped -/
theorem incoming_malformed :
    incoming [0, 1, 2, 3] = .ok .dropped ∧ incoming [10, 1, 2, 3] = .error .structError ∧ incoming [] = .ok .dropped := by
  decide

example : incoming (encodeRangeReport [(1, 0x40800000), (2, 0x40A00000)]) =
    .ok (.packet 0 [1, 0, 0, 0x80, 0x40, 2, 0, 0, 0xA0, 0x40] (.ranges [(1, 0x40800000), (2, 0x40A00000)])) := by decide
example : halfAsSingle 0x8000 = 0x80000000 ∧ halfAsSingle 0x3C00 = 0x3F800000 := by decide

end CfVerif.C13

/-
Props/C14 — property theorems for C14 (stored configuration images round-trip; validity follows the checksum).
Helper lemmas are in Proofs/C14*.  Every theorem here is about Model/C14, whose formats, token, read
addresses, checksum modulus and bit expressions are regenerated from /repo (Gen/C14).
-/
import CfVerif.Proofs.C14
namespace CfVerif.C14
open CfVerif

/-! ## Gen obligations: what the hand-written model assumes about the current source -/

theorem gen_i2c_new_data : Gen.C14.i2cNewDataCompares =
    ["mem.id == self.id", "addr == 0", "data[0:4] == EEPROM_TOKEN", "self.elements['version'] == 0",
     "self.elements['version'] == 1", "addr == 16", "self._checksum256(data[:len(data) - 1]) == data[len(data) - 1]"] ∧
    Gen.C14.i2cHdrArgs = ["data[4:15]"] ∧ Gen.C14.i2cAddrArgs = ["self.datav0[15:16] + data[0:4]"] ∧
    Gen.C14.i2cHdrTargets = ["self.elements['version']", "self.elements['radio_channel']", "self.elements['radio_speed']",
      "self.elements['pitch_trim']", "self.elements['roll_trim']"] ∧
    Gen.C14.i2cAddrTargets = ["radio_address_upper", "radio_address_lower"] ∧
    Gen.C14.i2cFullDataSrc = "self.datav0 + data" ∧
    Gen.C14.i2cChecksumSumSrc = "reduce(lambda x, y: x + y, list(st))" := by decide
theorem gen_i2c_write : Gen.C14.i2cWriteCompares = ["self.elements['version'] == 0", "self.elements['version'] == 1"] ∧
    Gen.C14.i2cW0Args = ["*data"] ∧ Gen.C14.i2cW1Args = ["*data"] ∧ Gen.C14.i2cWckArgs = ["self._checksum256(image)"] ∧
    Gen.C14.i2cW0Data = ["0", "self.elements['radio_channel']", "self.elements['radio_speed']",
      "self.elements['pitch_trim']", "self.elements['roll_trim']"] ∧
    Gen.C14.i2cW1Data = ["1", "self.elements['radio_channel']", "self.elements['radio_speed']",
      "self.elements['pitch_trim']", "self.elements['roll_trim']", "self.elements['radio_address'] >> 32",
      "self.elements['radio_address'] & 4294967295"] ∧
    Gen.C14.i2cImageSrc = "EEPROM_TOKEN + image" ∧
    Gen.C14.i2cWriteCall = ["self", "0", "struct.unpack('B' * len(image), image)"] := by decide

/-! ## EEPROM radio configuration -/

/-- Round trip, version 0: whatever image `write_data` produces for the elements (it produces one exactly for
channel/speed in 0..255) is parsed back, from any EEPROM it was written into, to the same five fields, valid. -/
theorem i2c_roundtrip_v0 (e : I2CElems) (hv : e.version = 0) (img : List UInt8) (h : i2cImage e = .ok img)
    (m : Mem) (hm : 21 ≤ m.length) :
    i2cUpdate (m.write 0 img) = .ok { fields := some (0, e.channel, e.speed, e.pitch, e.roll), address := none,
                                        valid := true, called := true } :=
  CfVerif.C14.i2c_roundtrip_v0_aux e hv img h m hm

/-- Round trip, version 1 (with the 5-byte radio address). -/
theorem i2c_roundtrip_v1 (e : I2CElems) (hv : e.version = 1) (img : List UInt8) (h : i2cImage e = .ok img)
    (m : Mem) (hm : 21 ≤ m.length) :
    ∃ a : Nat, e.address = some (a : Int) ∧
    i2cUpdate (m.write 0 img) = .ok { fields := some (1, e.channel, e.speed, e.pitch, e.roll), address := some a,
                                        valid := true, called := true } :=
  CfVerif.C14.i2c_roundtrip_v1_aux e hv img h m hm

example : i2cImage { version := 1, channel := 80, speed := 2, pitch := 0, roll := 0x3f800000, address := some 0xE7E7E7E7E7 } =
    .ok [48, 120, 66, 67, 1, 80, 2, 0, 0, 0, 0, 0, 0, 128, 63, 231, 231, 231, 231, 231, 194] := by decide

end CfVerif.C14

/-
Props/C14 — property theorems for C14 (stored configuration images round-trip; validity follows the checksum).
Helper lemmas are in Proofs/C14*.  Every theorem here is about Model/C14, whose formats, token, read
addresses, checksum modulus and bit expressions are regenerated from /repo (Gen/C14).
-/
import CfVerif.Proofs.C14
import CfVerif.Proofs.C14Ow
import CfVerif.Proofs.C14Lh
import CfVerif.Proofs.C14Deck
import CfVerif.Proofs.C14Misc
import CfVerif.Proofs.C14Yaml
import CfVerif.Proofs.C14State
import CfVerif.Proofs.C14Helper
namespace CfVerif.C14
open CfVerif

/-! ## Gen obligations: what the hand-written model assumes about the current source -/

theorem gen_i2c_new_data : Gen.C14.i2cNewDataCompares =
    ["mem.id == self.id", "addr == 0", "data[0:4] == EEPROM_TOKEN", "self.elements['version'] == 0",
     "self.elements['version'] == 1", "addr == 16", "self._checksum256(data[:len(data) - 1]) == data[len(data) - 1]"] ∧
    Gen.C14.i2cHdrArgs = ["data[4:15]"] ∧ Gen.C14.i2cAddrArgs = ["self.datav0[15:16] + data[0:4]"] ∧
    Gen.C14.i2cHdrTargets = ["self.elements['version']", "self.elements['radio_channel']", "self.elements['radio_speed']",
      "self.elements['pitch_trim']", "self.elements['roll_trim']"] ∧
    Gen.C14.i2cAddrTargets = ["radio_address_upper", "radio_address_lower"] ∧
    Gen.C14.i2cFullDataSrc = "self.datav0 + data" ∧
    Gen.C14.i2cChecksumSumSrc = "reduce(lambda x, y: x + y, list(st))" := by decide
theorem gen_i2c_write : Gen.C14.i2cWriteCompares = ["self.elements['version'] == 0", "self.elements['version'] == 1"] ∧
    Gen.C14.i2cW0Args = ["*data"] ∧ Gen.C14.i2cW1Args = ["*data"] ∧ Gen.C14.i2cWckArgs = ["self._checksum256(image)"] ∧
    Gen.C14.i2cW0Data = ["0", "self.elements['radio_channel']", "self.elements['radio_speed']",
      "self.elements['pitch_trim']", "self.elements['roll_trim']"] ∧
    Gen.C14.i2cW1Data = ["1", "self.elements['radio_channel']", "self.elements['radio_speed']",
      "self.elements['pitch_trim']", "self.elements['roll_trim']", "self.elements['radio_address'] >> 32",
      "self.elements['radio_address'] & 4294967295"] ∧
    Gen.C14.i2cImageSrc = "EEPROM_TOKEN + image" ∧
    Gen.C14.i2cWriteCall = ["self", "0", "struct.unpack('B' * len(image), image)"] := by decide

theorem gen_ow_write : Gen.C14.owWHdrArgs = ["235", "self.pins", "self.vid", "self.pid"] ∧
    Gen.C14.owWHdrCrcArgs = ["header_crc"] ∧ Gen.C14.owWKeyLenArgs = ["key_encoding", "len(elem_string)"] ∧
    Gen.C14.owWAreaArgs = ["0", "len(elem)"] ∧ Gen.C14.owWAreaCrcArgs = ["elem_crc"] ∧
    Gen.C14.owWCrcArgs = ["header_data", "elem_data"] ∧
    Gen.C14.owWLoopIter = "reversed(list(self.elements.keys()))" ∧
    Gen.C14.owWAssigns = ["self.elements[element]", "self._rev_element_mapping[element]", "header_data + elem_data"] ∧
    Gen.C14.owWAug = ["elem += bytearray(elem_string.encode('ISO-8859-1'))", "elem += struct.pack('BB', key_encoding, len(elem_string))",
      "elem_data += elem", "elem_data += struct.pack('B', elem_crc)", "header_data += struct.pack('B', header_crc)"] ∧
    Gen.C14.owWriteCall = ["self", "0", "struct.unpack('B' * len(data), data)"] := by decide
/-- the read path of the REPAIRED `OWElement.new_data` (fixes/D12-c14.patch): on the unrepaired tree these fail -/
theorem gen_ow_new_data : Gen.C14.owNewDataTests = ["mem.id == self.id", "addr == 0", "self._parse_and_check_header(data[0:8])",
      "elem_len == 0 and self._parse_and_check_elements(data[8:11])", "self._update_finished_cb", "addr == 8",
      "self._parse_and_check_elements(data)", "self._update_finished_cb"] ∧
    Gen.C14.owLenArgs = ["data[8:10]"] ∧ Gen.C14.owLenTargets = ["elem_ver", "elem_len"] ∧
    Gen.C14.owHdrCallArgs = ["data[0:8]"] ∧ Gen.C14.owElemCallArgs = ["data[8:11]", "data"] := by decide
theorem gen_ow_parse : Gen.C14.owRHdrArgs = ["data"] ∧ Gen.C14.owRHdrTargets = ["start", "self.pins", "self.vid", "self.pid", "crc"] ∧
    Gen.C14.owRHdrCrcArgs = ["data[:-1]"] ∧ Gen.C14.owRHdrCompares = ["start == 235", "crc == test_crc"] ∧
    Gen.C14.owRTlvArgs = ["elem_data[:2]"] ∧ Gen.C14.owRTlvTargets = ["eid", "elen"] ∧
    Gen.C14.owRElemCrcArgs = ["data[:-1]"] ∧ Gen.C14.owRElemCompares = ["test_crc == crc", "len(elem_data) > 0"] ∧
    Gen.C14.owRElemAssigns = ["data[-1]", "data[2:-1]", "elem_data[2 + elen:]", "elem_data[2:2 + elen].decode('ISO-8859-1')"] ∧
    Gen.C14.owRLoopCond = "len(elem_data) > 0" ∧
    Gen.C14.owNames = ["Board name", "Board revision", "Custom"] := by decide

theorem gen_lh_geo : Gen.C14.lhGeoReadVectorArgs = ["data[0 * self.SIZE_VECTOR:1 * self.SIZE_VECTOR]",
      "data[1 * self.SIZE_VECTOR:2 * self.SIZE_VECTOR]", "data[2 * self.SIZE_VECTOR:3 * self.SIZE_VECTOR]",
      "data[3 * self.SIZE_VECTOR:4 * self.SIZE_VECTOR]"] ∧
    Gen.C14.lhGeoValidRArgs = ["data[4 * self.SIZE_VECTOR:]"] ∧
    Gen.C14.lhGeoAddVectorArgs = ["self.origin", "self.rotation_matrix[0]", "self.rotation_matrix[1]", "self.rotation_matrix[2]"] ∧
    Gen.C14.lhGeoValidWArgs = ["self.valid"] ∧ Gen.C14.lhVecWArgs = ["vector[0]", "vector[1]", "vector[2]"] ∧
    Gen.C14.lhVecRArgs = ["data"] ∧ Gen.C14.lhVecRTargets = ["x", "y", "z"] ∧ Gen.C14.lhVecRReturn = ["[x, y, z]"] := by decide
theorem gen_lh_calib : Gen.C14.lhCalibUnpackSweepArgs = ["data[0:self.SIZE_SWEEP]", "data[self.SIZE_SWEEP:self.SIZE_SWEEP * 2]"] ∧
    Gen.C14.lhCalibTailRArgs = ["data[self.SIZE_SWEEP * 2:]"] ∧ Gen.C14.lhCalibTailRTargets = ["self.uid", "self.valid"] ∧
    Gen.C14.lhSweepRArgs = ["data"] ∧
    Gen.C14.lhSweepRTargets = ["result.phase", "result.tilt", "result.curve", "result.gibmag", "result.gibphase",
      "result.ogeemag", "result.ogeephase"] ∧
    Gen.C14.lhCalibPackSweepArgs = ["self.sweeps[0]", "self.sweeps[1]"] ∧ Gen.C14.lhCalibTailWArgs = ["self.uid", "self.valid"] ∧
    Gen.C14.lhSweepWArgs = ["sweep_calib.phase", "sweep_calib.tilt", "sweep_calib.curve", "sweep_calib.gibmag",
      "sweep_calib.gibphase", "sweep_calib.ogeemag", "sweep_calib.ogeephase"] := by decide
theorem gen_lh_memory : Gen.C14.lhNewDataCompares = ["mem.id == self.id", "addr < self.CALIB_START_ADDR"] ∧
    Gen.C14.lhGeoReadAddrLenSrc = "LighthouseBsGeometry.SIZE_GEOMETRY" ∧
    Gen.C14.lhCalibReadAddrLenSrc = "LighthouseBsCalibration.SIZE_CALIBRATION" ∧
    Gen.C14.lhGeoWriteAddrCall = ["self", "geo_addr", "data"] ∧ Gen.C14.lhCalibWriteAddrCall = ["self", "calib_addr", "data"] ∧
    Gen.C14.lhGeoWriteAddrAddMem = ["geo_data.add_mem_data(data)"] ∧
    Gen.C14.lhCalibWriteAddrAddMem = ["calibration_data.add_mem_data(data)"] := by decide
/-- layout facts the theorems need: the two containers fit their pages and every geometry page lies below the
calibration area (so `new_data` picks the right parser) -/
theorem gen_lh_pages : Gen.C14.lhSizeGeometry ≤ Gen.C14.lhPageSize ∧ Gen.C14.lhSizeCalibration ≤ Gen.C14.lhPageSize ∧
    Gen.C14.lhGeoStart + Gen.C14.lhNrOfChannels * Gen.C14.lhPageSize ≤ Gen.C14.lhCalibStart := by decide

theorem gen_deck : Gen.C14.deckProps = ["is_valid: self._bit_field1 & self.MASK_IS_VALID != 0",
      "is_started: self._bit_field1 & self.MASK_IS_STARTED != 0", "supports_read: self._bit_field1 & self.MASK_SUPPORTS_READ != 0",
      "supports_write: self._bit_field1 & self.MASK_SUPPORTS_WRITE != 0",
      "supports_fw_upgrade: self._bit_field1 & self.MASK_SUPPORTS_UPGRADE != 0",
      "is_fw_upgrade_required: self._bit_field1 & self.MASK_UPGRADE_REQUIRED != 0",
      "is_bootloader_active: self._bit_field1 & self.MASK_BOOTLOADER_ACTIVE != 0",
      "supports_reset_to_fw: self._bit_field2 & self.MASK_SUPPORTS_RESET_TO_FW != 0",
      "supports_reset_to_bootloader: self._bit_field2 & self.MASK_SUPPORTS_RESET_TO_BOOTLOADER != 0"] ∧
    Gen.C14.deckBitsArgs = ["data[0:2]"] ∧ Gen.C14.deckRecArgs = ["data[2:]"] ∧
    Gen.C14.deckBitsTargets = ["self._bit_field1", "self._bit_field2"] ∧
    Gen.C14.deckRecTargets = ["self.required_hash", "self.required_length", "self._base_address", "_name"] ∧
    Gen.C14.deckNameSrc = "_name.split(b'\\x00')[0].decode()" ∧ Gen.C14.deckParseExcept = "Exception" ∧
    Gen.C14.deckParseHandler = ["self._bit_field1 = 0", "self._bit_field2 = 0"] ∧
    Gen.C14.deckParseTests = ["self.is_valid"] := by decide
theorem gen_deck_info : Gen.C14.deckVersionArgs = ["data[0:1]"] ∧ Gen.C14.deckInfoCompares = ["version != self.SUPPORTED_VERSION"] ∧
    Gen.C14.deckLoopIter = "range(self.MAX_NR_OF_DECK_MEM_INFOS)" ∧ Gen.C14.deckParseCall = ["data[start:end]"] ∧
    Gen.C14.deckInfoTests = ["version != self.SUPPORTED_VERSION", "deck_memory.is_valid"] ∧
    Gen.C14.deckNewDataCompares = ["mem.id == self.id", "addr == self.INFO_SECTION_ADDRESS"] ∧
    Gen.C14.deckNewDataExcept = ["RuntimeError"] ∧
    Gen.C14.deckQueryRead = ["self", "self.INFO_SECTION_ADDRESS", "self.SIZE_OF_INFO_SECTION"] ∧
    Gen.C14.deckSizeOfInfoSection = Gen.C14.deckSizeOfVersion + Gen.C14.deckMaxNrOfDeckMemInfos * Gen.C14.deckSizeOfDeckMemInfo := by
  decide

theorem gen_loco : Gen.C14.locoAnchorArgs = ["data"] ∧ Gen.C14.locoAnchorTargets = ["x", "y", "z", "self.is_valid"] ∧
    Gen.C14.locoNewDataCompares = ["mem.id == self.id", "addr == LocoMemory.MEM_LOCO_INFO", "self.nr_of_anchors == 0",
      "next_page < self.nr_of_anchors"] ∧
    Gen.C14.locoNewDataAssigns = ["data[0]", "page + 1", "[AnchorData() for _ in range(self.nr_of_anchors)]"] ∧
    Gen.C14.locoSetCall = ["self.anchor_data[page].set_from_mem_data(data)"] ∧ Gen.C14.locoRequestCalls = ["0", "next_page"] ∧
    Gen.C14.locoRequestRead = ["self", "addr", "LocoMemory.MEM_LOCO_PAGE_LEN"] ∧
    Gen.C14.locoUpdateRead = ["self", "LocoMemory.MEM_LOCO_INFO", "LocoMemory.MEM_LOCO_INFO_LEN"] := by decide
theorem gen_loco2 : Gen.C14.loco2AnchorArgs = ["data"] ∧ Gen.C14.loco2AnchorTargets = ["x", "y", "z", "self.is_valid"] ∧
    Gen.C14.loco2NewDataCompares = ["mem.id == self.id", "addr == LocoMemory2.ADR_ID_LIST", "addr == LocoMemory2.ADR_ACTIVE_ID_LIST"] ∧
    Gen.C14.loco2IdListSrc = ["self.nr_of_anchors = data[0]",
      "for i in range(self.nr_of_anchors):\n    self.anchor_ids.append(data[1 + i])", "self.ids_valid = True"] ∧
    Gen.C14.loco2ActiveIdListSrc = ["count = data[0]", "for i in range(count):\n    self.active_anchor_ids.append(data[1 + i])",
      "self.active_ids_valid = True"] ∧
    Gen.C14.loco2AnchorSrc = ["anchor = AnchorData2()", "anchor.set_from_mem_data(data)", "self.anchor_data[id] = anchor",
      "self._currently_fetching_index += 1"] ∧
    Gen.C14.loco2AnchorCompares = ["self._currently_fetching_index < self.nr_of_anchors"] ∧
    Gen.C14.loco2AnchorRequests = ["self.anchor_ids[self._currently_fetching_index]"] ∧
    Gen.C14.loco2UpdateDataRequests = ["self.anchor_ids[self._currently_fetching_index]"] ∧
    Gen.C14.loco2RequestRead = ["self", "addr", "LocoMemory2.PAGE_LEN"] ∧
    Gen.C14.loco2IdListRead = ["self", "LocoMemory2.ADR_ID_LIST", "LocoMemory2.ID_LIST_LEN"] ∧
    Gen.C14.loco2ActiveIdListRead = ["self", "LocoMemory2.ADR_ACTIVE_ID_LIST", "LocoMemory2.ID_LIST_LEN"] := by decide
theorem gen_poly : Gen.C14.polyArgs = ["*self.x.values", "*self.y.values", "*self.z.values", "*self.yaw.values", "self.duration"] ∧
    Gen.C14.trajWriteCall = ["self", "start_addr", "data"] ∧ Gen.C14.trajWriteAug = ["data += element.pack()"] := by decide
theorem gen_led : Gen.C14.ledFilterSrc = "timing['time'] & 255 != 0 or led != 0 or extra != 0" ∧
    Gen.C14.ledAug = ["data += [timing['time'] & 255, led >> 8, led & 255, extra]", "data += [0, 0, 0, 0]"] ∧
    Gen.C14.ledWriteCall = ["self", "0", "bytearray(data)"] ∧
    Gen.C14.ledLedSrc = "int(R5) << 11 | int(G6) << 5 | int(B5) << 0" := by decide

theorem gen_lh_file : Gen.C14.lhfWriteData = ["LighthouseConfigFileManager.TYPE_ID: LighthouseConfigFileManager.TYPE",
      "LighthouseConfigFileManager.VERSION_ID: LighthouseConfigFileManager.VERSION",
      "LighthouseConfigFileManager.SYSTEM_TYPE_ID: system_type", "LighthouseConfigFileManager.GEOS_ID: file_geos",
      "LighthouseConfigFileManager.CALIBS_ID: file_calibs"] ∧
    Gen.C14.lhfWriteTests = ["geo.valid", "calib.valid"] ∧
    Gen.C14.lhfWriteLoops = ["(id, geo) in geos.items()", "(id, calib) in calibs.items()"] ∧
    Gen.C14.lhfWriteAssigns = ["geo.as_file_object()", "calib.as_file_object()"] ∧
    Gen.C14.lhfDump = ["yaml.dump(data, file)"] ∧ Gen.C14.lhfLoad = ["yaml.safe_load(file)"] ∧
    Gen.C14.lhfReadChecks = ["LighthouseConfigFileManager.TYPE_ID not in data",
      "data[LighthouseConfigFileManager.TYPE_ID] != LighthouseConfigFileManager.TYPE",
      "LighthouseConfigFileManager.VERSION_ID not in data",
      "data[LighthouseConfigFileManager.VERSION_ID] != LighthouseConfigFileManager.VERSION"] ∧
    Gen.C14.lhfReadTests = Gen.C14.lhfReadChecks ++ ["LighthouseConfigFileManager.SYSTEM_TYPE_ID in data",
      "LighthouseConfigFileManager.GEOS_ID in data", "LighthouseConfigFileManager.CALIBS_ID in data"] ∧
    Gen.C14.lhfReadLoops = ["(id, geo) in data[LighthouseConfigFileManager.GEOS_ID].items()",
      "(id, calib) in data[LighthouseConfigFileManager.CALIBS_ID].items()"] ∧
    Gen.C14.lhfReadAssigns = ["data[LighthouseConfigFileManager.SYSTEM_TYPE_ID]", "LighthouseBsGeometry.from_file_object(geo)",
      "LighthouseBsCalibration.from_file_object(calib)"] ∧
    Gen.C14.lhfReadReturn = ["(result_geos, result_calibs, result_system_type)"] := by decide
theorem gen_lh_file_objects : Gen.C14.lhfGeoAsFile = ["self.FILE_ID_ORIGIN: self.origin", "self.FILE_ID_ROTATION: self.rotation_matrix"] ∧
    Gen.C14.lhfGeoFromFile = ["result = cls()", "result.origin = file_object[cls.FILE_ID_ORIGIN]",
      "result.rotation_matrix = file_object[cls.FILE_ID_ROTATION]", "result.valid = True"] ∧
    Gen.C14.lhfSweepAsFile = ["self.FILE_ID_PHASE: self.phase", "self.FILE_ID_TILT: self.tilt", "self.FILE_ID_CURVE: self.curve",
      "self.FILE_ID_GIBMAG: self.gibmag", "self.FILE_ID_GIBPHASE: self.gibphase", "self.FILE_ID_OGEEMAG: self.ogeemag",
      "self.FILE_ID_OGEEPHASE: self.ogeephase"] ∧
    Gen.C14.lhfSweepFromFile = ["result = cls()", "result.phase = file_object[cls.FILE_ID_PHASE]",
      "result.tilt = file_object[cls.FILE_ID_TILT]", "result.curve = file_object[cls.FILE_ID_CURVE]",
      "result.gibmag = file_object[cls.FILE_ID_GIBMAG]", "result.gibphase = file_object[cls.FILE_ID_GIBPHASE]",
      "result.ogeemag = file_object[cls.FILE_ID_OGEEMAG]", "result.ogeephase = file_object[cls.FILE_ID_OGEEPHASE]"] ∧
    Gen.C14.lhfCalibAsFile = ["self.FILE_ID_SWEEPS: [self.sweeps[0].as_file_object(), self.sweeps[1].as_file_object()]",
      "self.FILE_ID_UID: self.uid"] ∧
    Gen.C14.lhfCalibFromFile = ["result = cls()", "sweeps = file_object[cls.FILE_ID_SWEEPS]",
      "result.sweeps[0] = LighthouseCalibrationSweep.from_file_object(sweeps[0])",
      "result.sweeps[1] = LighthouseCalibrationSweep.from_file_object(sweeps[1])", "result.uid = file_object[cls.FILE_ID_UID]",
      "result.valid = True"] := by decide
theorem gen_param_file : Gen.C14.pfWriteData = ["ParamFileManager.TYPE_ID: ParamFileManager.TYPE",
      "ParamFileManager.VERSION_ID: ParamFileManager.VERSION", "ParamFileManager.PARAMS_ID: file_params"] ∧
    Gen.C14.pfWriteEntry = "{'is_stored': param.is_stored, 'default_value': param.default_value, 'stored_value': param.stored_value}" ∧
    Gen.C14.pfWriteLoops = ["(id, param) in params.items()"] ∧ Gen.C14.pfDump = ["yaml.dump(data, file)"] ∧
    Gen.C14.pfLoad = ["yaml.safe_load(file)"] ∧
    Gen.C14.pfReadChecks = ["ParamFileManager.TYPE_ID not in data", "data[ParamFileManager.TYPE_ID] != ParamFileManager.TYPE",
      "ParamFileManager.VERSION_ID not in data", "data[ParamFileManager.VERSION_ID] != ParamFileManager.VERSION"] ∧
    Gen.C14.pfReadTests = Gen.C14.pfReadChecks ++ ["ParamFileManager.PARAMS_ID in data"] ∧
    Gen.C14.pfGetData = ["persistent_params = {}",
      "persistent_params[id] = PersistentParamState(param['is_stored'], param['default_value'], param['stored_value'])",
      "(id, param) in input_data.items()"] ∧
    Gen.C14.pfReadReturn = ["persistent_params", "get_data(data[ParamFileManager.PARAMS_ID])", "{}"] ∧
    Gen.C14.pfStateType = ["namedtuple('PersistentParamState', 'is_stored default_value stored_value')"] := by decide

/-- what a long-lived element object re-initialises when an update starts, what `disconnect` clears and where
`valid` is assigned while a reply is handled (the stateful model `i2cStep` / `owStep` reads the `*UpdateInit` lists) -/
theorem gen_state_i2c : Gen.C14.i2cUpdateGuard = "not self._update_finished_cb" ∧
    Gen.C14.i2cUpdateInit = ["self._update_finished_cb = update_finished_cb", "self.valid = False"] ∧
    Gen.C14.i2cDisconnect = ["self._update_finished_cb = None", "self._write_finished_cb = None"] ∧
    Gen.C14.i2cNewDataTests = ["mem.id == self.id", "addr == 0", "data[0:4] == EEPROM_TOKEN", "self.elements['version'] == 0",
      "self.elements['version'] == 1", "self._update_finished_cb", "self._update_finished_cb", "addr == 16", "done",
      "self._checksum256(data[:len(data) - 1]) == data[len(data) - 1]", "self._update_finished_cb"] ∧
    Gen.C14.i2cNewDataStateAssigns = ["done = False", "done = True", "self.datav0 = data", "self.valid = False",
      "self._update_finished_cb = None", "self.valid = False", "self._update_finished_cb = None", "done = True",
      "self.valid = True", "self._update_finished_cb = None"] ∧
    Gen.C14.i2cInit = ["self._update_finished_cb = None", "self._write_finished_cb = None", "self.elements = {}", "self.valid = False"] := by
  decide
theorem gen_state_ow : Gen.C14.owUpdateGuard = "not self._update_finished_cb" ∧
    Gen.C14.owUpdateInit = ["self._update_finished_cb = update_finished_cb", "self.valid = False", "self.elements = {}"] ∧
    Gen.C14.owDisconnect = ["self._update_finished_cb = None", "self._write_finished_cb = None"] ∧
    Gen.C14.owNewDataStateAssigns = ["self.valid = True", "self._update_finished_cb = None", "self._update_finished_cb = None",
      "self.valid = True", "self._update_finished_cb = None"] ∧
    Gen.C14.owElemStateAssigns = ["self.elements[self.element_mapping[eid]]"] := by decide
set_option maxRecDepth 16384 in
/-- lifecycle: on EVERY path of a reply handler where the update-finished callback is called the pending record is cleared
(the two lists of `if`-chains are equal), and the paths the model names are among them -/
theorem gen_lifecycle : Gen.C14.i2cCbCalls = Gen.C14.i2cCbClears ∧ Gen.C14.i2cCbCalls = [i2cPathUnknown, i2cPathBadToken, i2cPathDone] ∧
    Gen.C14.owCbCalls = Gen.C14.owCbClears ∧ Gen.C14.owCbCalls = [owPathShortcut, owPathBadHeader, owPathSection] ∧
    Gen.C14.locoCbCalls = Gen.C14.locoCbClears ∧ Gen.C14.locoCbCalls = ["done > self._update_finished_cb"] ∧
    Gen.C14.loco2IdsCbCalls = Gen.C14.loco2IdsCbClears ∧ Gen.C14.loco2IdsCbCalls = ["self._update_ids_finished_cb"] ∧
    Gen.C14.loco2ActiveCbCalls = Gen.C14.loco2ActiveCbClears ∧ Gen.C14.loco2ActiveCbCalls = ["self._update_active_ids_finished_cb"] ∧
    Gen.C14.loco2DataCbCalls = Gen.C14.loco2DataCbClears ∧
    Gen.C14.loco2DataCbCalls = ["self._currently_fetching_index < self.nr_of_anchors/else > self._update_data_finished_cb"] ∧
    Gen.C14.deckClearQuery = ["self._query_complete_cb = None", "self._query_failed_cb = None"] := by decide
theorem gen_lifecycle_deck : Gen.C14.deckNewDataStmts = ["if mem.id == self.id:", "if addr == self.INFO_SECTION_ADDRESS:", "try:",
      "self.deck_memories = self._parse_info_section(data)", "tmp_cb = self._query_complete_cb", "self._clear_query_cb()",
      "tmp_cb(self.deck_memories)", "except RuntimeError:", "tmp_cb = self._query_failed_cb", "self._clear_query_cb()", "if tmp_cb:",
      "tmp_cb(str(e))", "else:", "tmp_cb = self._read_complete_cb", "self._clear_read_cb()",
      "tmp_cb(addr - self._read_base_address, data)"] := by decide

/-- the other parsed elements that keep results between reads re-initialise them when a read starts -/
theorem gen_state_others : Gen.C14.locoUpdateInit = ["not self._update_finished_cb", "self._update_finished_cb = update_finished_cb",
      "self.anchor_data = []", "self.nr_of_anchors = 0", "self.valid = False"] ∧
    Gen.C14.loco2IdListInit = ["not self._update_ids_finished_cb", "self._update_ids_finished_cb = update_ids_finished_cb",
      "self.anchor_ids = []", "self.active_anchor_ids = []", "self.anchor_data = {}", "self.nr_of_anchors = 0",
      "self.ids_valid = False", "self.data_valid = False"] ∧
    Gen.C14.loco2ActiveIdListInit = ["not self._update_active_ids_finished_cb",
      "self._update_active_ids_finished_cb = update_active_ids_finished_cb", "self.active_anchor_ids = []",
      "self.active_ids_valid = False"] ∧
    Gen.C14.loco2DataInit = ["not self._update_data_finished_cb and self.nr_of_anchors > 0",
      "self._update_data_finished_cb = update_data_finished_cb", "self.anchor_data = {}", "self.data_valid = False",
      "self._nr_of_anchors_to_fetch = self.nr_of_anchors", "self._currently_fetching_index = 0"] ∧
    Gen.C14.deckQueryInit = ["self._error = None", "self.deck_memories = {}", "self._query_complete_cb = query_complete_cb",
      "self._query_failed_cb = query_failed_cb"] := by decide

/-- `LighthouseMemHelper._ObjectWriter/_ObjectReader`: the writer works on a COPY of the caller's dict (the model reads
`lhWriterQueueSrc`), pops the first entry, finishes by resetting its state; the reader walks the channels in order -/
theorem gen_lh_helper : Gen.C14.lhWriterQueueSrc = "dict(object_dict)" ∧
    Gen.C14.lhWriterWrite = ["if self._objects_to_write is not None:", "raise", "self._write_done_cb = write_done_cb",
      "self._objects_to_write = dict(object_dict)", "self._write_failed_for_one_or_more_objects = False", "self._write_next_object()"] ∧
    Gen.C14.lhWriterNext = ["if len(self._objects_to_write) > 0:", "id = list(self._objects_to_write.keys())[0]",
      "data = self._objects_to_write.pop(id)", "self._write_fcn(id, data, self._data_written, write_failed_cb=self._write_failed)",
      "else:", "tmp_cb = self._write_done_cb", "is_sucess = not self._write_failed_for_one_or_more_objects",
      "self._objects_to_write = None", "self._write_done_cb = None", "self._write_failed_for_one_or_more_objects = False",
      "tmp_cb(is_sucess)"] ∧
    Gen.C14.lhWriterDataWritten = ["self._write_next_object()"] ∧
    Gen.C14.lhWriterWriteFailed = ["self._write_failed_for_one_or_more_objects = True", "self._write_next_object()"] ∧
    Gen.C14.lhReaderReadAll = ["if self._read_done_cb is not None:", "raise", "self._result = {}", "self._next_id = 0",
      "self._read_done_cb = read_done_cb", "self._get_object(0)"] ∧
    Gen.C14.lhReaderDataUpdated = ["self._result[self._next_id] = data", "self._next_id += 1", "self._get_object(self._next_id)"] ∧
    Gen.C14.lhReaderUpdateFailed = ["self._next_id += 1", "self._get_object(self._next_id)"] ∧
    Gen.C14.lhReaderGetObject = ["if channel < self.NR_OF_CHANNELS:",
      "self._read_fcn(channel, self._data_updated, update_failed_cb=self._update_failed)", "else:", "tmp_cb = self._read_done_cb",
      "tmp_result = self._result", "self._read_done_cb = None", "self._result = None", "self._next_id = None", "tmp_cb(tmp_result)"] ∧
    Gen.C14.lhHelperInit = ["self.geo_reader = self._ObjectReader(lh_mem.read_geo_data)",
      "self.geo_writer = self._ObjectWriter(lh_mem.write_geo_data)", "self.calib_reader = self._ObjectReader(lh_mem.read_calib_data)",
      "self.calib_writer = self._ObjectWriter(lh_mem.write_calib_data)"] ∧
    Gen.C14.lhHelperCalls = ["self.geo_reader.read_all(read_done_cb)", "self.geo_writer.write(geometry_dict, write_done_cb)",
      "self.calib_reader.read_all(read_done_cb)", "self.calib_writer.write(calibration_dict, write_done_cb)"] := by decide
theorem gen_lh_memory_callbacks : Gen.C14.lhMemWriteGeo = ["if self._write_finished_cb:", "raise", "data = bytearray()",
      "geo_data.add_mem_data(data)", "self._write_finished_cb = write_finished_cb", "self._write_failed_cb = write_failed_cb",
      "geo_addr = self.GEO_START_ADDR + bs_id * self.PAGE_SIZE", "self.mem_handler.write(self, geo_addr, data, flush_queue=True)"] ∧
    Gen.C14.lhMemWriteCalib = ["if self._write_finished_cb:", "raise", "data = bytearray()", "calibration_data.add_mem_data(data)",
      "self._write_finished_cb = write_finished_cb", "self._write_failed_cb = write_failed_cb",
      "calib_addr = self.CALIB_START_ADDR + bs_id * self.PAGE_SIZE", "self.mem_handler.write(self, calib_addr, data, flush_queue=True)"] ∧
    Gen.C14.lhMemReadGeo = ["if self._update_finished_cb:", "raise", "self._update_finished_cb = update_finished_cb",
      "self._update_failed_cb = update_failed_cb",
      "self.mem_handler.read(self, self.GEO_START_ADDR + bs_id * self.PAGE_SIZE, LighthouseBsGeometry.SIZE_GEOMETRY)"] ∧
    Gen.C14.lhMemReadCalib = ["if self._update_finished_cb:", "raise", "self._update_finished_cb = update_finished_cb",
      "self._update_failed_cb = update_failed_cb",
      "self.mem_handler.read(self, self.CALIB_START_ADDR + bs_id * self.PAGE_SIZE, LighthouseBsCalibration.SIZE_CALIBRATION)"] ∧
    Gen.C14.lhMemNewDataFailed = ["if mem.id == self.id:", "tmp_update_failed_cb = self._update_failed_cb", "self._clear_update_cb()",
      "if tmp_update_failed_cb:", "tmp_update_failed_cb(self)"] ∧
    Gen.C14.lhMemWriteDone = ["if mem.id == self.id:", "tmp_cb = self._write_finished_cb", "self._clear_write_cb()", "if tmp_cb:",
      "tmp_cb(self, addr)"] ∧
    Gen.C14.lhMemWriteFailed = ["if mem.id == self.id:", "tmp_cb = self._write_failed_cb", "self._clear_write_cb()", "if tmp_cb:",
      "tmp_cb(self, addr)"] ∧
    Gen.C14.lhMemNewData = ["if mem.id == self.id:", "tmp_update_finished_cb = self._update_finished_cb", "self._clear_update_cb()",
      "if addr < self.CALIB_START_ADDR:", "geo_data = LighthouseBsGeometry()", "geo_data.set_from_mem_data(data)",
      "if tmp_update_finished_cb:", "tmp_update_finished_cb(self, geo_data)", "else:", "calibration_data = LighthouseBsCalibration()",
      "calibration_data.set_from_mem_data(data)", "if tmp_update_finished_cb:", "tmp_update_finished_cb(self, calibration_data)"] := by
  decide
/-- `LighthouseConfigWriter` hands its OWN padded copies to the helper -/
theorem gen_lh_config_writer : Gen.C14.lhCfgPrepareGeos = ["result = None", "if geos is not None:", "result = dict(geos)",
      "empty_geo = LighthouseBsGeometry()"] ∧
    Gen.C14.lhCfgPrepareCalibs = ["result = None", "if calibs is not None:", "result = dict(calibs)",
      "empty_calib = LighthouseBsCalibration()"] ∧
    Gen.C14.lhCfgNextCalls = ["self._helper.write_geos(self._geos_to_write, self._upload_done)",
      "self._helper.write_calibs(self._calibs_to_write, self._upload_done)"] := by decide

/-! ## EEPROM radio configuration -/

/-- Round trip, version 0: whatever image `write_data` produces for the elements (it produces one exactly for
channel/speed in 0..255) is parsed back, from any EEPROM it was written into, to the same five fields, valid. -/
theorem i2c_roundtrip_v0 (e : I2CElems) (hv : e.version = 0) (img : List UInt8) (h : i2cImage e = .ok img)
    (m : Mem) (hm : 21 ≤ m.length) :
    i2cUpdate (m.write 0 img) = .ok { fields := some (0, e.channel, e.speed, e.pitch, e.roll), address := none,
                                        valid := true, called := true } :=
  CfVerif.C14.i2c_roundtrip_v0_aux e hv img h m hm

/-- Round trip, version 1 (with the 5-byte radio address). -/
theorem i2c_roundtrip_v1 (e : I2CElems) (hv : e.version = 1) (img : List UInt8) (h : i2cImage e = .ok img)
    (m : Mem) (hm : 21 ≤ m.length) :
    ∃ a : Nat, e.address = some (a : Int) ∧
    i2cUpdate (m.write 0 img) = .ok { fields := some (1, e.channel, e.speed, e.pitch, e.roll), address := some a,
                                        valid := true, called := true } :=
  CfVerif.C14.i2c_roundtrip_v1_aux e hv img h m hm

/-- `write_data` produces an image for EVERY representable content: version 0 or 1, channel and speed bytes, any
two float32 trims, any 40-bit address. -/
theorem i2c_image_total (e : I2CElems) (hv : e.version = 0 ∨ e.version = 1)
    (hc : 0 ≤ e.channel ∧ e.channel < 256) (hs : 0 ≤ e.speed ∧ e.speed < 256) (hp : e.pitch < 2 ^ 32) (hr : e.roll < 2 ^ 32)
    (ha : e.version = 1 → ∃ a : Nat, e.address = some (a : Int) ∧ a < 2 ^ 40) :
    ∃ img, i2cImage e = .ok img ∧ img.length = (if e.version = 0 then 16 else 21) :=
  i2c_image_total_aux e hv hc hs hp hr ha

/-- The parser reads the EEPROM exactly as the firmware lays it out (positional decoder `i2cDecode` of Spec/C14),
for every memory content. -/
theorem i2c_update_is_layout (m : Mem) (hm : 21 ≤ m.length) : i2cUpdate m = .ok (i2cDecode m) :=
  i2cUpdate_eq_decode m hm

/-- Validity follows the checksum: for EVERY memory content the image is reported valid exactly when the token is
present, the version is 0 or 1 and the stored checksum byte equals the sum modulo 256 of all bytes before it. -/
theorem i2c_valid_iff_checksum (m : Mem) (hm : 21 ≤ m.length) :
    ∃ r, i2cUpdate m = .ok r ∧
      (r.valid = true ↔
        m.take 4 = [0x30, 0x78, 0x42, 0x43] ∧
          ((m.getD 4 0 = 0 ∧ byteSum (m.take 15) % 256 = (m.getD 15 0).toNat) ∨
           (m.getD 4 0 = 1 ∧ byteSum (m.take 20) % 256 = (m.getD 20 0).toNat))) :=
  ⟨_, i2cUpdate_eq_decode m hm, i2cDecode_valid m⟩

/-- Any single corrupted byte of a valid image, other than the version byte, is detected: for every EEPROM content
that parses as valid, every position `i ≠ 4` inside the image (16 bytes for version 0, 21 for version 1) and every
different byte value, the corrupted memory is reported not valid.
(Full statement, without `i ≠ 4`, is FALSE: see `i2c_version_corruption_iff` and the D13 witness below.) -/
theorem i2c_single_corruption_detected_partial (m : Mem) (hm : 21 ≤ m.length) (r : I2CParsed)
    (hr : i2cUpdate m = .ok r) (hvalid : r.valid = true)
    (i : Nat) (b : UInt8) (hi : i ≠ 4)
    (hrange : (m.getD 4 0 = 0 → i < 16) ∧ (m.getD 4 0 = 1 → i < 21)) (hlen : i < m.length) (hb : b ≠ m.getD i 0) :
    ∃ r', i2cUpdate (m.set i b) = .ok r' ∧ r'.valid = false := by
  rw [i2cUpdate_eq_decode m hm] at hr
  cases hr
  exact ⟨_, i2cUpdate_eq_decode _ (by simpa using hm), i2c_corruption_aux m i b hvalid hi hlen hrange hb⟩

/-- The version byte: a corrupted version byte changes the range the checksum covers.  The corruption is reported
valid exactly when the new version is 0/1 and the byte that now sits in the checksum position happens to equal the
sum of the new range (D13, a weakness of the format itself, shared with the firmware). -/
theorem i2c_version_corruption_iff (m : Mem) (hm : 21 ≤ m.length) (b : UInt8) :
    ∃ r', i2cUpdate (m.set 4 b) = .ok r' ∧
      (r'.valid = true ↔ m.take 4 = [0x30, 0x78, 0x42, 0x43] ∧
        ((b = 0 ∧ byteSum ((m.set 4 b).take 15) % 256 = (m.getD 15 0).toNat) ∨
         (b = 1 ∧ byteSum ((m.set 4 b).take 20) % 256 = (m.getD 20 0).toNat))) := by
  refine ⟨_, i2cUpdate_eq_decode _ (by simpa using hm), ?_⟩
  rw [i2cDecode_valid, take_set_of_le _ _ _ _ (by omega), getD_set_eq _ _ _ (by omega),
    getD_set_ne _ _ _ _ (by omega), getD_set_ne _ _ _ _ (by omega)]

/-- D13 witness: channel 80, speed 2, zero trims, address 0x7FE7E7E7E7.  Flipping the version byte 1 -> 0 yields a
memory that is reported VALID (as a version-0 block) although one byte is corrupted. -/
def d13Elems : I2CElems := { version := 1, channel := 80, speed := 2, pitch := 0, roll := 0, address := some 0x7FE7E7E7E7 }
def d13Image : List UInt8 := [48, 120, 66, 67, 1, 80, 2, 0, 0, 0, 0, 0, 0, 0, 0, 127, 231, 231, 231, 231, 155]
theorem d13_image : i2cImage d13Elems = .ok d13Image := by decide
theorem i2c_single_corruption_detected_counterexample :
    ¬ (∀ (i : Nat) (b : UInt8), i < d13Image.length → b ≠ d13Image.getD i 0 →
        ∃ r', i2cUpdate (d13Image.set i b) = .ok r' ∧ r'.valid = false) := by
  intro h
  obtain ⟨r', h1, h2⟩ := h 4 0 (by decide) (by decide)
  have : i2cUpdate (d13Image.set 4 0) = .ok { fields := some (0, 80, 2, 0, 0), address := none, valid := true, called := true } := by
    decide
  rw [this] at h1
  cases h1
  cases h2

/-! ## 1-wire deck identity (the REPAIRED parser; the parser of the unrepaired tree is `owUpdateLive`) -/

/-- Round trip: whatever image `write_data` produces for pins/vid/pid and an element dict (distinct keys, as in any
Python dict) parses back, from any memory it was written into, to the same pins/vid/pid and to exactly the written
elements (in the order they were written = reversed dict order), valid.  Every section length, every first id. -/
theorem ow_roundtrip (o : OWData) (img : List UInt8) (h : owImage o = .ok img)
    (hnd : (o.elements.map (·.1)).Nodup) (m : Mem) :
    owUpdate (m.write 0 img) =
      .ok ⟨o.pins.toNat, o.vid.toNat, o.pid.toNat, owExpect o.elements.reverse, true, true⟩ :=
  ow_roundtrip_aux o img h hnd m

/-- `write_data` produces an image for EVERY representable content: 32-bit pins, byte vid/pid, elements with ids of the
mapping and Latin-1 strings, as long as the element section fits its length byte. -/
theorem ow_image_total (o : OWData) (hp : 0 ≤ o.pins ∧ o.pins < 2 ^ 32) (hv : 0 ≤ o.vid ∧ o.vid < 256) (hi : 0 ≤ o.pid ∧ o.pid < 256)
    (he : ∀ p ∈ o.elements, p.1 ∈ Gen.C14.owIds ∧ p.2.length < 256 ∧ ∀ c ∈ p.2, c < 256)
    (hs : owSectLenOf o.elements < 256) :
    ∃ img, owImage o = .ok img ∧ img.length = 11 + owSectLenOf o.elements := ow_image_total_aux o hp hv hi he hs

/-- ... and so every element reads back with the written value (dict equality does not depend on the order). -/
theorem ow_roundtrip_lookup (o : OWData) (k : Nat) (v : List Nat) (hkv : (k, v) ∈ o.elements) :
    (k, v.map UInt8.ofNat) ∈ owExpect o.elements.reverse := by
  unfold owExpect
  exact List.mem_map.mpr ⟨(k, v), by simpa using hkv, rfl⟩

/-- The parser reads the memory as the firmware lays it out: header 0xEB, pins u32, vid, pid, CRC; section version,
length, TLVs, CRC (positional decoder `owDecode`), for every memory that holds the announced section. -/
theorem ow_update_is_layout (m : Mem) (hL : 11 + owSectLen m ≤ m.length) : owUpdate m = owDecode m :=
  owUpdate_eq_decode m hL

/-- Validity follows the CRCs: for EVERY memory content on which the parse completes, the image is reported valid
exactly when the header starts with 0xEB, the header CRC byte equals the low byte of CRC-32 over the 7 header bytes
and the section CRC byte equals the low byte of CRC-32 over version, length and element bytes. -/
theorem ow_valid_iff_crc (m : Mem) (hL : 11 + owSectLen m ≤ m.length) (r : OWParsed) (h : owUpdate m = .ok r) :
    r.valid = true ↔
      ((m.getD 0 0).toNat = 0xEB ∧ (m.getD 7 0).toNat = crc32 (m.take 7) % 256) ∧
      crc32 (slice m 8 (10 + owSectLen m)) % 256 = (m.getD (10 + owSectLen m) 0).toNat := by
  rw [ow_valid_iff_aux m hL r h]
  simp [owHdrOK, owSectOK]

/-- The parse completes (no exception escapes `new_data`) exactly when the TLV walk over the section does: an
unknown element id (KeyError) or a dangling byte (struct.error) inside a CRC-correct section is not reported at all. -/
theorem ow_completes_iff (m : Mem) (hL : 11 + owSectLen m ≤ m.length)
    (hh : (m.getD 0 0).toNat = 0xEB ∧ (m.getD 7 0).toNat = crc32 (m.take 7) % 256)
    (hs : crc32 (slice m 8 (10 + owSectLen m)) % 256 = (m.getD (10 + owSectLen m) 0).toNat) :
    (∃ r, owUpdate m = .ok r) ↔ ∃ d, owTlv (owSectLen m) (slice m 10 (10 + owSectLen m)) [] = .ok d := by
  rw [owUpdate_eq_decode m hL]
  unfold owDecode
  have h1 : owHdrOK m = true := by unfold owHdrOK; rw [decide_eq_true hh.1, decide_eq_true hh.2]; rfl
  have h2 : owSectOK m = true := by unfold owSectOK; exact decide_eq_true hs
  simp only [h1, h2, if_true]
  cases owTlv (owSectLen m) (slice m 10 (10 + owSectLen m)) [] <;> simp

/-- D12 (the code as it is in /repo today): elements = {'Board revision': 'abc'}, pins 0x0C, vid 0xBC, pid 1.
The section is 5 bytes long and starts with id 2; crc32([5]) & 0xff = 2, so the two-byte shortcut `data[9:11]`
accepts and the image is reported VALID WITH NO ELEMENTS. -/
def d12Data : OWData := { pins := 0x0C, vid := 0xBC, pid := 1, elements := [(2, [97, 98, 99])] }
def d12Image : List UInt8 := [0xeb, 0x0c, 0, 0, 0, 0xbc, 0x01, 0xca, 0x00, 0x05, 0x02, 0x03, 0x61, 0x62, 0x63, 0x93]
theorem d12_image : owImage d12Data = .ok d12Image := by decide +kernel
theorem ow_roundtrip_live_counterexample :
    ¬ (∀ (o : OWData) (img : List UInt8), owImage o = .ok img → (o.elements.map (·.1)).Nodup → ∀ m : Mem,
        owUpdateLive (m.write 0 img) =
          .ok ⟨o.pins.toNat, o.vid.toNat, o.pid.toNat, owExpect o.elements.reverse, true, true⟩) := by
  intro h
  have h1 := h d12Data d12Image d12_image (by decide) []
  have h2 : owUpdateLive (Mem.write [] 0 d12Image) = .ok ⟨12, 188, 1, [], true, true⟩ := by decide +kernel
  rw [h2] at h1
  exact absurd h1 (by decide)
/-- the repaired parser on the same image -/
example : owUpdate (Mem.write [] 0 d12Image) = .ok ⟨12, 188, 1, [(2, [97, 98, 99])], true, true⟩ := by decide +kernel
/-- D12 also breaks "valid exactly when the CRC matches": with the last element byte corrupted (section CRC wrong)
the unrepaired parser still reports valid. -/
theorem ow_valid_iff_crc_live_counterexample :
    owUpdateLive (d12Image.set 14 0x64) = .ok ⟨12, 188, 1, [], true, true⟩ ∧
    owUpdate (d12Image.set 14 0x64) = .ok ⟨12, 188, 1, [], false, true⟩ := by decide +kernel

/-! ## Lighthouse geometry and calibration, memory layout -/

/-- Geometry container: every image `add_mem_data` produces (one is produced for all float32 contents) is 49 bytes
and `set_from_mem_data` returns the same origin, rotation rows and valid flag. -/
theorem lh_geo_container_roundtrip (g : Geo) (img : List UInt8) (h : geoImage g = .ok img) :
    geoParse img = .ok g ∧ img.length = 49 := geo_roundtrip_aux h

/-- Calibration container: 61 bytes; both sweeps (7 float32 each), uid and valid flag come back. -/
theorem lh_calib_container_roundtrip (c : Calib) (img : List UInt8) (h : calibImage c = .ok img) :
    calibParse img = .ok c ∧ img.length = 61 := calib_roundtrip_aux h

/-- Through `LighthouseMemory`: geometry written for base station `bs` (< 16) into any memory is what
`read_geo_data(bs)` delivers (same page address, the geometry parser is chosen). -/
theorem lh_geo_roundtrip (m : Mem) (bs : Nat) (hbs : bs < Gen.C14.lhNrOfChannels) (g : Geo) (m' : Mem)
    (h : lhWriteGeo m bs g = .ok m') : lhReadGeo m' bs = .ok (.geo g) := lh_geo_roundtrip_aux m bs hbs g m' h

/-- ... and calibration data for any base station. -/
theorem lh_calib_roundtrip (m : Mem) (bs : Nat) (c : Calib) (m' : Mem)
    (h : lhWriteCalib m bs c = .ok m') : lhReadCalib m' bs = .ok (.calib c) := lh_calib_roundtrip_aux m bs c m' h

/-- Any subset of base stations: geometries for any set of distinct base stations (< 16) and then calibrations
for any set of distinct base stations, written one after the other as `LighthouseMemHelper` does, all read back
unchanged - no page overlaps another. -/
theorem lh_config_roundtrip (gs : List (Nat × Geo)) (cs : List (Nat × Calib)) (m mg mc : Mem)
    (hg : lhWriteGeos m gs = .ok mg) (hc : lhWriteCalibs mg cs = .ok mc)
    (hgn : (gs.map (·.1)).Nodup) (hcn : (cs.map (·.1)).Nodup) (hlt : ∀ p ∈ gs, p.1 < Gen.C14.lhNrOfChannels) :
    (∀ p ∈ gs, lhReadGeo mc p.1 = .ok (.geo p.2)) ∧ (∀ p ∈ cs, lhReadCalib mc p.1 = .ok (.calib p.2)) :=
  lh_config_roundtrip_aux gs cs m mg mc hg hc hgn hcn hlt

/-! ### every USE of the helper's writer / reader objects (LighthouseMemHelper) -/

/-- A completed `write_geos(d)` / `write_calibs(d)`: for EVERY prior state of the writer in which no upload is pending, every
dict `d`, every memory and every accept/refuse pattern of the device, the memory afterwards is the layout of `d`
(`lhWriteSpec`: object after object at its page, refused objects not stored), the reported success says whether all were
accepted, the writer is idle again, and THE CALLER'S DICT IS UNCHANGED. -/
theorem lh_write_completes_with_layout (k : LhKind) (s : LhW) (hq : s.queue = none) (hb : s.lhBusy = false)
    (d : Dict LhObj) (m : Mem) (acks : List Bool) :
    lhRunWrite k s d m acks = (lhWriteSpec k m d acks false).map fun r => (⟨none, false, false, d⟩, r.1, some r.2) :=
  lhRunWrite_spec k s hq hb d m acks

/-- ... so the same dict object can be uploaded again (second Crazyflie, after a power cycle): the second upload,
given the caller's dict as the first upload left it, writes the layout of the ORIGINAL `d` into the second memory. -/
theorem lh_repeated_upload (k : LhKind) (s : LhW) (hq : s.queue = none) (hb : s.lhBusy = false)
    (d : Dict LhObj) (m1 m2 : Mem) (acks1 acks2 : List Bool) (s1 : LhW) (m1' : Mem) (r1 : Option Bool)
    (h1 : lhRunWrite k s d m1 acks1 = .ok (s1, m1', r1)) :
    s1.caller = d ∧
    lhRunWrite k s1 s1.caller m2 acks2 = (lhWriteSpec k m2 d acks2 false).map fun r => (⟨none, false, false, d⟩, r.1, some r.2) := by
  rw [lhRunWrite_spec k s hq hb] at h1
  cases hs : lhWriteSpec k m1 d acks1 false with
  | error e => rw [hs] at h1; cases h1
  | ok r =>
    rw [hs] at h1
    simp only [Except.map, Except.ok.injEq, Prod.mk.injEq] at h1
    obtain ⟨rfl, _, _⟩ := h1
    exact ⟨rfl, lhRunWrite_spec k _ rfl rfl d m2 acks2⟩

/-- with every write accepted the geometry upload is exactly the page layout `lhWriteGeos` of the theorems above
(`lh_config_roundtrip`), and reports success -/
theorem lh_write_geos_is_layout (s : LhW) (hq : s.queue = none) (hb : s.lhBusy = false) (d : List (Nat × Geo)) (m : Mem) :
    lhRunWrite .geo s (d.map fun p => (p.1, LhObj.geo p.2)) m [] =
      (lhWriteGeos m d).map fun m' => (⟨none, false, false, d.map fun p => (p.1, LhObj.geo p.2)⟩, m', some true) := by
  rw [lhRunWrite_spec .geo s hq hb, lhWriteSpec_geos]
  cases lhWriteGeos m d <;> rfl

theorem lh_write_calibs_is_layout (s : LhW) (hq : s.queue = none) (hb : s.lhBusy = false) (d : List (Nat × Calib)) (m : Mem) :
    lhRunWrite .calib s (d.map fun p => (p.1, LhObj.calib p.2)) m [] =
      (lhWriteCalibs m d).map fun m' => (⟨none, false, false, d.map fun p => (p.1, LhObj.calib p.2)⟩, m', some true) := by
  rw [lhRunWrite_spec .calib s hq hb, lhWriteSpec_calibs]
  cases lhWriteCalibs m d <;> rfl

/-- A completed `read_all_geos()` / `read_all_calibs()`: for every prior state with no read pending, the result holds, for
each of the 16 channels the device serves, in order, exactly the parsed content of its page; the reader is idle again. -/
theorem lh_read_all_spec (k : LhKind) (s : LhR) (hn : s.next = none) (hb : s.lhBusy = false) (m : Mem) (fails : List Nat) :
    lhRunRead k s m fails = (lhReadSpec k m fails 0 16 []).map fun r => (⟨none, [], false⟩, some r) :=
  lhRunRead_spec k s hn hb m fails

/-- Write then read back through the helper: geometries for any set of distinct base stations (< 16) uploaded with
`write_geos` come back from `read_all_geos` under their base station ids (for every channel the device serves). -/
theorem lh_write_then_read_all (w : LhW) (hq : w.queue = none) (hwb : w.lhBusy = false) (r : LhR) (hn : r.next = none)
    (hrb : r.lhBusy = false) (d : List (Nat × Geo)) (hnd : (d.map (·.1)).Nodup) (hlt : ∀ p ∈ d, p.1 < Gen.C14.lhNrOfChannels)
    (m : Mem) (w' : LhW) (m' : Mem) (ok : Option Bool)
    (hw : lhRunWrite .geo w (d.map fun p => (p.1, LhObj.geo p.2)) m [] = .ok (w', m', ok))
    (fails : List Nat) (r' : LhR) (res : Dict LhObj) (hr : lhRunRead .geo r m' fails = .ok (r', some res)) :
    ∀ p ∈ d, fails.contains p.1 = false → (p.1, LhObj.geo p.2) ∈ res := by
  rw [lh_write_geos_is_layout w hq hwb] at hw
  rw [lhRunRead_spec .geo r hn hrb] at hr
  cases hwg : lhWriteGeos m d with
  | error e => rw [hwg] at hw; cases hw
  | ok mm =>
    rw [hwg] at hw
    simp only [Except.map, Except.ok.injEq, Prod.mk.injEq] at hw
    obtain ⟨_, rfl, _⟩ := hw
    cases hrs : lhReadSpec .geo mm fails 0 16 [] with
    | error e => rw [hrs] at hr; cases hr
    | ok res' =>
      rw [hrs] at hr
      simp only [Except.map, Except.ok.injEq, Prod.mk.injEq, Option.some.injEq] at hr
      obtain ⟨_, rfl⟩ := hr
      exact lh_write_then_read_aux d hnd hlt m mm hwg fails res' hrs

/-- `LighthouseConfigWriter._prepare_geos/_prepare_calibs`: the dict handed to the helper is the caller's entries plus
an empty (invalid) object for every base station below `nr` the caller did not mention - a new dict, never the caller's. -/
theorem lh_prepare_pads (d : Dict LhObj) (empty : LhObj) (nr : Nat) (p : Nat × LhObj) :
    p ∈ lhPrepare d empty nr ↔ p ∈ d ∨ (p.1 < nr ∧ (∀ q ∈ d, q.1 ≠ p.1) ∧ p.2 = empty) := lhPrepare_mem d empty nr p

example : geoImage ⟨⟨0x3F800000, 0, 0xBF800000⟩, ⟨0x7F7FFFFF, 1, 0x80000000⟩, ⟨0, 0, 0⟩, ⟨0x7FC00000, 0x7F800000, 0xFF800000⟩, true⟩ =
    .ok [0,0,128,63, 0,0,0,0, 0,0,128,191,  255,255,127,127, 1,0,0,0, 0,0,0,128,  0,0,0,0, 0,0,0,0, 0,0,0,0,
         0,0,192,127, 0,0,128,127, 0,0,128,255,  1] := by decide

/-! ## Deck memory info section -/

/-- An info section produced by the device (version 3, eight 32-byte records; Spec/C14 `deckSection`) parses to
exactly the records whose valid bit is set, under their indices, each with the bit fields, required hash and length,
base address, name and command base address the device encoded - whatever follows the section in the buffer. -/
theorem deck_info_parse (recs : List DeckRec) (hlen : recs.length = 8) (hwf : ∀ r ∈ recs, r.WF) (post : List UInt8) :
    deckParseInfo (deckSection recs ++ post) = .ok (.decks (deckExpected recs 0)) :=
  deck_info_parse_aux recs hlen hwf post

/-- All 2^7 x 2^2 bit-field combinations: each of the nine boolean properties of a listed deck is exactly the flag the
device encoded at the firmware's bit position. -/
theorem deck_flags (r : DeckRec) (i : Nat) :
    (r.info i).flags = [r.isValid, r.isStarted, r.supportsRead, r.supportsWrite, r.supportsUpgrade, r.upgradeRequired,
      r.bootloaderActive, r.resetToFw, r.resetToBootloader] :=
  (deck_flags_all r.isValid r.isStarted r.supportsRead r.supportsWrite r.supportsUpgrade r.upgradeRequired
    r.bootloaderActive r.resetToFw r.resetToBootloader).1

/-- Any other version byte is reported through the failure path, whatever follows. -/
theorem deck_info_version_rejected (v : UInt8) (hv : v.toNat ≠ Gen.C14.deckSupportedVersion) (rest : List UInt8) :
    deckParseInfo (v :: rest) = .ok (.unsupported v.toNat) := deck_unsupported_aux v hv rest

example : (⟨true, true, false, true, false, false, true, false, true, 0xDEADBEEF, 1234, 0x10000000, [0x62, 0x63, 0x41, 0x49]⟩ : DeckRec).WF := by
  refine ⟨by decide, by decide, by decide, by decide, ?_⟩
  intro b hb
  simp at hb
  rcases hb with rfl | rfl | rfl | rfl <;> decide

/-! ## Loco positioning anchor lists -/

/-- LocoMemory: for any device memory whose info byte holds the number of anchors and whose anchor pages
(0x1000 + 0x100 * i, 13 bytes) hold the encoded anchors, `update()` delivers exactly those anchors, in order, valid. -/
theorem loco_parse (m : Mem) (as : List Anchor) (hn : as.length < 256)
    (h0 : m.read 0 1 = [UInt8.ofNat as.length])
    (hp : ∀ i (h : i < as.length), m.read (0x1000 + 0x100 * i) 13 = as[i].encode) (hw : ∀ a ∈ as, a.WF) :
    locoUpdate m = .ok ⟨as.length, as, true⟩ := loco_parse_aux m as hn h0 hp hw

/-- LocoMemory2 id lists: a list read as count byte, the ids, padding parses to exactly the ids. -/
theorem loco2_id_list (m : Mem) (ids pad : List UInt8) (hn : ids.length < 256)
    (h : m.read 0 17 = UInt8.ofNat ids.length :: (ids ++ pad)) : loco2IdList m = .ok (ids.map UInt8.toNat) :=
  loco2_ids_aux _ ids pad h hn
theorem loco2_active_id_list (m : Mem) (ids pad : List UInt8) (hn : ids.length < 256)
    (h : m.read 0x1000 17 = UInt8.ofNat ids.length :: (ids ++ pad)) : loco2ActiveIdList m = .ok (ids.map UInt8.toNat) :=
  loco2_ids_aux _ ids pad h hn

/-- LocoMemory2 anchor data: the pages of the listed (distinct) ids are fetched and stored under exactly those ids. -/
theorem loco2_anchor_data (m : Mem) (a : Nat → Anchor) (ids : List Nat) (hnd : ids.Nodup)
    (hp : ∀ id ∈ ids, m.read (0x2000 + 0x100 * id) 13 = (a id).encode ∧ (a id).WF) :
    loco2Fetch m ids [] = .ok (ids.map fun id => (id, a id)) := by
  have := loco2Fetch_spec m a ids [] hp hnd (by simp)
  simpa using this

/-! ## Write-only images -/

/-- `Poly4D.pack` produces the firmware's `struct poly4d`: 33 consecutive little-endian float32 (x, y, z, yaw
coefficients, duration), 132 bytes, for all float32 contents. -/
theorem poly4d_layout (x y z yaw : List Nat) (d : Nat) (hx : x.length = 8) (hy : y.length = 8) (hz : z.length = 8)
    (hw : yaw.length = 8) (hv : ∀ v ∈ x ++ y ++ z ++ yaw ++ [d], v < 2 ^ 32) :
    poly4dPack x y z yaw d = .ok (poly4dLayout x y z yaw d) ∧ (poly4dLayout x y z yaw d).length = 132 :=
  poly4d_layout_aux x y z yaw d hx hy hz hw hv

/-- LED timing image: the emitted records followed by the all-zero terminator; never an exception. -/
theorem ledtiming_image (ts : List LedTiming) :
    ledImage ts = .ok (((ts.map LedTiming.record).flatten ++ [0, 0, 0, 0]).map UInt8.ofNat) := ledImage_ok ts

/-- LED timing record layout: duration byte, RGB565 big-endian (red bits 15..11, green 10..5, blue 4..0), then
leds in bits 3..0, fade in bit 4, rotate in bits 7..5; an emitted record is never the terminator, and a timing is
dropped only when its record would be all zero. -/
theorem ledtiming_layout (t : LedTiming) :
    ((t.record = [t.time % 256, t.word / 256, t.word % 256, t.extra] ∧ t.record ≠ [0, 0, 0, 0]) ∨
     (t.record = [] ∧ t.time % 256 = 0 ∧ t.word = 0 ∧ t.extra = 0)) ∧
    t.word = Gen.C14.ledR5 (t.r &&& 255) * 2048 + Gen.C14.ledG6 (t.g &&& 255) * 32 + Gen.C14.ledB5 (t.b &&& 255) ∧
    Gen.C14.ledR5 (t.r &&& 255) < 32 ∧ Gen.C14.ledG6 (t.g &&& 255) < 64 ∧ Gen.C14.ledB5 (t.b &&& 255) < 32 ∧
    t.extra = t.leds % 16 + 16 * (t.fade % 2) + 32 * (t.rotate % 8) :=
  ⟨led_record_cases t, ledWord_eq _ _ _ (ledG6_lt _) (ledB5_lt _), ledR5_lt _, ledG6_lt _, ledB5_lt _, ledExtra_eq _ _ _⟩

example : ledImage [⟨10, 255, 0, 128, 3, 1, 2⟩, ⟨0, 0, 0, 0, 0, 0, 0⟩] = .ok [10, 0xF8, 0x10, 0x53, 0, 0, 0, 0] := by decide

/-! ## YAML files.  TRUSTED: `yaml.safe_load(yaml.dump(v))` = `v.canon` (every dict sorted by key) on plain values -/

/-- Lighthouse configuration file round trip: what `read` returns for the file `write` produced is, for every set
of base stations, exactly the VALID geometries and calibrations (keyed by base station, in key order), each with
the origin / rotation / sweep / uid values that were written, valid, and the written system type. -/
theorem lh_file_roundtrip (geos : List (Int × FGeo)) (calibs : List (Int × FCalib)) (st : Y)
    (h7 : ∀ p ∈ calibs, p.2.s0.f.length = 7 ∧ p.2.s1.f.length = 7) :
    lhFileRead (lhFileDoc geos calibs st).canon =
      .ok (sortEntries (geoEntries geos), sortEntries (calibEntries calibs), st.canon) :=
  lh_file_roundtrip_aux geos calibs st h7

/-- ... nothing is lost or invented: the returned entries are exactly the valid written ones. -/
theorem lh_file_roundtrip_mem (geos : List (Int × FGeo)) (p : Key × FGeo) :
    p ∈ sortEntries (geoEntries geos) ↔
      ∃ q ∈ geos, q.2.valid = true ∧ p = (Key.int q.1, ⟨q.2.origin.canon, q.2.rotation.canon, true⟩) := by
  rw [mem_sortEntries]
  unfold geoEntries
  simp only [List.mem_map, List.mem_filter]
  constructor
  · rintro ⟨q, ⟨hq, hv⟩, rfl⟩; exact ⟨q, hq, hv, rfl⟩
  · rintro ⟨q, hq, hv, rfl⟩; exact ⟨q, ⟨hq, hv⟩, rfl⟩

/-- Persistent-parameter file round trip: every parameter comes back with its three fields. -/
theorem param_file_roundtrip (params : List (String × PState)) :
    paramFileRead (paramFileDoc params).canon = .ok (sortEntries (paramEntries params)) :=
  param_file_roundtrip_aux params

/-- Rejection branches, proved outright for EVERY loaded dict: a missing or different type / version is refused with
the corresponding message, by both readers, before anything else is looked at. -/
theorem lh_file_rejects (l : List (Key × Y)) :
    (dlookup l (.str "type") = none → lhFileRead (.dict l) = .error (.msg "Type field missing")) ∧
    (∀ x, dlookup l (.str "type") = some x → x.isStr "lighthouse_system_configuration" = false →
      lhFileRead (.dict l) = .error (.msg "Unsupported file type")) ∧
    (∀ x, dlookup l (.str "type") = some x → x.isStr "lighthouse_system_configuration" = true →
      dlookup l (.str "version") = none → lhFileRead (.dict l) = .error (.msg "Version field missing")) ∧
    (∀ x y, dlookup l (.str "type") = some x → x.isStr "lighthouse_system_configuration" = true →
      dlookup l (.str "version") = some y → y.isStr "1" = false →
      lhFileRead (.dict l) = .error (.msg "Unsupported file version")) := by
  refine ⟨fun h => ?_, fun x h hx => ?_, fun x h hx hv => ?_, fun x y h hx hv hy => ?_⟩
  · exact lhFileRead_of_envelope_error _ _ (envelope_type_missing l _ _ _ _ _ h)
  · exact lhFileRead_of_envelope_error _ _ (envelope_type_wrong l _ _ _ _ _ x h hx)
  · exact lhFileRead_of_envelope_error _ _ (envelope_version_missing l _ _ _ _ _ x h hx hv)
  · exact lhFileRead_of_envelope_error _ _ (envelope_version_wrong l _ _ _ _ _ x y h hx hv hy)

theorem param_file_rejects (l : List (Key × Y)) :
    (dlookup l (.str "type") = none → paramFileRead (.dict l) = .error (.msg "Type field missing")) ∧
    (∀ x, dlookup l (.str "type") = some x → x.isStr "persistent_param_state" = false →
      paramFileRead (.dict l) = .error (.msg "Unsupported file type")) ∧
    (∀ x, dlookup l (.str "type") = some x → x.isStr "persistent_param_state" = true →
      dlookup l (.str "version") = none → paramFileRead (.dict l) = .error (.msg "Version field missing")) ∧
    (∀ x y, dlookup l (.str "type") = some x → x.isStr "persistent_param_state" = true →
      dlookup l (.str "version") = some y → y.isStr "1" = false →
      paramFileRead (.dict l) = .error (.msg "Unsupported file version")) := by
  refine ⟨fun h => ?_, fun x h hx => ?_, fun x h hx hv => ?_, fun x y h hx hv hy => ?_⟩
  · exact paramFileRead_of_envelope_error _ _ (envelope_type_missing l _ _ _ _ _ h)
  · exact paramFileRead_of_envelope_error _ _ (envelope_type_wrong l _ _ _ _ _ x h hx)
  · exact paramFileRead_of_envelope_error _ _ (envelope_version_missing l _ _ _ _ _ x h hx hv)
  · exact paramFileRead_of_envelope_error _ _ (envelope_version_wrong l _ _ _ _ _ x y h hx hv hy)

/-! ## Long-lived element objects: a completed update() reports the memory it just read, whatever happened before -/

/-- EEPROM, ALL prior states (hence all op histories, see the corollary): for every object with no update pending and
every memory content at the first and at the second read, whether the callback fires, the validity and - for a valid
image - the fields of its version are the same as on a brand-new object. -/
theorem i2c_update_history_free (s : I2CObj) (hs : s.pending = false) (m0 m1 : Mem) :
    (i2cRunUpdate s m0 m1).map I2CObj.report = (i2cRunUpdate I2CObj.fresh m0 m1).map I2CObj.report := by
  rw [i2cRunUpdate_eq s hs, i2cRunUpdate_eq I2CObj.fresh rfl]
  exact i2cAfter_report s I2CObj.fresh _ _

/-- ... in particular after ANY sequence of update / new_data (any address, any data) / write_data / disconnect calls -/
theorem i2c_update_all_histories (ops : List I2COp) (s : I2CObj) (_h : i2cRunOps I2CObj.fresh ops = .ok s)
    (hs : s.pending = false) (m0 m1 : Mem) :
    (i2cRunUpdate s m0 m1).map I2CObj.report = (i2cRunUpdate I2CObj.fresh m0 m1).map I2CObj.report :=
  i2c_update_history_free s hs m0 m1

/-- the single-shot parser of the theorems above IS the update of a brand-new object -/
theorem i2c_update_is_single_shot (m : Mem) : (i2cRunUpdate I2CObj.fresh m m).map I2CObj.parsed = i2cUpdate m := by
  rw [i2cRunUpdate_eq I2CObj.fresh rfl]; exact i2cAfter_fresh m

/-- Validity follows the checksum on EVERY re-read: whatever the object went through, an update against memory `m`
completes exactly when the firmware layout says so, reports valid exactly when token, version and checksum of `m` match,
and then reports the fields (and for version 1 the address) stored in `m`. -/
theorem i2c_reupdate_valid_iff_checksum (s : I2CObj) (hs : s.pending = false) (m : Mem) (hm : 21 ≤ m.length) :
    ∃ r, i2cRunUpdate s m m = .ok r ∧ r.2 = (i2cDecode m).called ∧
      (r.1.valid = true ↔
        m.take 4 = [0x30, 0x78, 0x42, 0x43] ∧
          ((m.getD 4 0 = 0 ∧ byteSum (m.take 15) % 256 = (m.getD 15 0).toNat) ∨
           (m.getD 4 0 = 1 ∧ byteSum (m.take 20) % 256 = (m.getD 20 0).toNat))) ∧
      (r.1.valid = true → r.1.fields = (i2cDecode m).fields ∧
        (∀ f, r.1.fields = some f → f.1 = 1 → r.1.address.map Int.toNat = (i2cDecode m).address)) := by
  obtain ⟨r, h1, h2, h3, h4⟩ := i2c_reupdate_aux s hs m hm
  exact ⟨r, h1, h3, by rw [h2]; exact i2cDecode_valid m, h4⟩

/-- Every terminating path of `update()` + `new_data()` clears the pending record: whatever the prior state and whatever the
memory holds at each read - bad token, bad checksum, unknown version (D141 repaired), any version - an update that
returns at all has called its callback and left the element ready for the next `update()`. -/
theorem i2c_update_ok_completes (s : I2CObj) (hs : s.pending = false) (m0 m1 : Mem) (s' : I2CObj) (c : Bool)
    (h : i2cRunUpdate s m0 m1 = .ok (s', c)) : c = true ∧ s'.pending = false := by
  rw [i2cRunUpdate_eq s hs] at h
  exact i2cAfter_ok_completes s _ _ s' c h

/-- ... and for an EEPROM of at least 21 bytes it always returns: every memory content yields a completed update. -/
theorem i2c_update_always_completes (s : I2CObj) (hs : s.pending = false) (m : Mem) (hm : 21 ≤ m.length) :
    ∃ s', i2cRunUpdate s m m = .ok (s', true) ∧ s'.pending = false := by
  obtain ⟨r, h1, _, _, _⟩ := i2c_reupdate_aux s hs m hm
  obtain ⟨s', c⟩ := r
  obtain ⟨rfl, hp⟩ := i2c_update_ok_completes s hs m m s' c h1
  exact ⟨s', h1, hp⟩

/-- ... so an invalid read of ANY kind followed by `write_data` of a representable content and another `update()` reports
that content, valid: the second update is never ignored. -/
theorem i2c_invalid_then_rewrite_then_update (s : I2CObj) (hs : s.pending = false) (m : Mem) (hm : 21 ≤ m.length)
    (e : I2CElems) (hv : e.version = 0 ∨ e.version = 1) (img : List UInt8) (hi : i2cImage e = .ok img) :
    ∃ s1, i2cRunUpdate s m m = .ok (s1, true) ∧
      ∃ r, i2cRunUpdate s1 (m.write 0 img) (m.write 0 img) = .ok (r, true) ∧ r.valid = true ∧
        r.fields = some (e.version, e.channel, e.speed, e.pitch, e.roll) := by
  obtain ⟨s1, h1, hp1⟩ := i2c_update_always_completes s hs m hm
  refine ⟨s1, h1, ?_⟩
  have hm' : 21 ≤ (m.write 0 img).length := Nat.le_trans hm (Mem.write_zero_length m img)
  obtain ⟨r, hr, hv2, hc, hf⟩ := i2c_reupdate_aux s1 hp1 (m.write 0 img) hm'
  obtain ⟨r1, c⟩ := r
  obtain ⟨rfl, _⟩ := i2c_update_ok_completes s1 hp1 _ _ r1 c hr
  have hdec : (i2cDecode (m.write 0 img)).valid = true ∧
      (i2cDecode (m.write 0 img)).fields = some (e.version, e.channel, e.speed, e.pitch, e.roll) := by
    rcases hv with h0 | h1v
    · have := i2c_roundtrip_v0_aux e h0 img hi m hm
      rw [i2cUpdate_eq_decode _ hm'] at this
      have hd := Except.ok.inj this
      rw [hd, h0]; exact ⟨rfl, rfl⟩
    · obtain ⟨a, _, this⟩ := i2c_roundtrip_v1_aux e h1v img hi m hm
      rw [i2cUpdate_eq_decode _ hm'] at this
      have hd := Except.ok.inj this
      rw [hd, h1v]; exact ⟨rfl, rfl⟩
  have hval : r1.valid = true := by simp only at hv2; rw [hv2]; exact hdec.1
  exact ⟨r1, hr, hval, by rw [(hf hval).1]; exact hdec.2⟩

/-- 1-wire: every update that returns has called its callback and left the element ready (invalid header, invalid
section CRC, empty section, any element set). -/
theorem ow_update_ok_completes (s : OWObj) (hs : s.pending = false) (m0 m1 : Mem) (s' : OWObj) (c : Bool)
    (h : owRunUpdate s m0 m1 = .ok (s', c)) : c = true ∧ s'.pending = false := by
  rw [ow_update_history_free_aux s hs] at h
  exact ow_fresh_ok_completes m0 m1 s' c h

/-- an update that does not return (an exception escapes `new_data`) leaves the object pending: further update()
calls are ignored until `disconnect()`, which always makes the object ready again -/
theorem i2c_pending_blocks_and_disconnect_clears (s : I2CObj) :
    (s.pending = true → i2cStep s .update = .ok (s, [])) ∧
    (∃ s', i2cStep s .disconnect = .ok (s', []) ∧ s'.pending = false) := by
  refine ⟨fun h => by simp [i2cStep, h], ⟨_, rfl, rfl⟩⟩

/-- 1-wire (with fixes/D121-c14.patch: `update()` also re-initialises `elements`): for ALL prior states and memory
contents the WHOLE object after the read - pins, vid, pid, elements, validity, pending flag - and whether the callback
fired are those of a brand-new object. -/
theorem ow_update_history_free (s : OWObj) (hs : s.pending = false) (m0 m1 : Mem) :
    owRunUpdate s m0 m1 = owRunUpdate OWObj.fresh m0 m1 := ow_update_history_free_aux s hs m0 m1

theorem ow_update_all_histories (ops : List OWOp) (s : OWObj) (_h : owRunOps OWObj.fresh ops = .ok s)
    (hs : s.pending = false) (m0 m1 : Mem) : owRunUpdate s m0 m1 = owRunUpdate OWObj.fresh m0 m1 :=
  ow_update_history_free_aux s hs m0 m1

/-- ... and it is the single-shot parser of the 1-wire theorems above: round trip, layout and validity <=> CRCs hold
for every re-read on a long-lived object. -/
theorem ow_reupdate_is_single_shot (s : OWObj) (hs : s.pending = false) (m : Mem) :
    (owRunUpdate s m m).map OWObj.parsed = owUpdate m := ow_reupdate_aux s hs m

/-- D121 (the code as it is in /repo today: `update()` does not touch `elements`): a valid read of
{'Board name': 'N', 'Board revision': 'R'} followed by a valid read of a memory holding only {'Board name': 'M'}
would need `elements` to start empty; with the prior elements kept the TLV walk yields both. -/
theorem ow_stale_elements_counterexample :
    owTlv 3 [1, 1, 0x4D] [(1, [0x4E]), (2, [0x52])] = .ok [(1, [0x4D]), (2, [0x52])] ∧
    owTlv 3 [1, 1, 0x4D] [] = .ok [(1, [0x4D])] := by decide

set_option maxRecDepth 16384 in
example : i2cRunUpdate ⟨some (1, 80, 2, 0, 0), some 5, true, false, none⟩
    ([48, 120, 66, 67, 0, 80, 2, 0, 0, 0, 0, 0, 0, 0, 0, 0x80] ++ List.replicate 8 0) [] =
    .ok (⟨some (0, 80, 2, 0, 0), some 5, false, false, none⟩, true) := by decide

example : i2cImage { version := 1, channel := 80, speed := 2, pitch := 0, roll := 0x3f800000, address := some 0xE7E7E7E7E7 } =
    .ok [48, 120, 66, 67, 1, 80, 2, 0, 0, 0, 0, 0, 0, 128, 63, 231, 231, 231, 231, 231, 194] := by decide

end CfVerif.C14

/-
Props/C15 — property theorems for C15 (Lighthouse angle, vector and pose conversions are mutually consistent).

All theorems are about Model/C15 — assembled from the expressions regenerated from /repo in Gen/C15 —
instantiated at the real numbers (Proofs/C15Real: `RealOps ℝ`).  Helper lemmas: Proofs/C15{Real,Angles,Pose,Solver,Ippe}.
Angles are in radians; `deg d = d·π/180`.
-/
import CfVerif.Proofs.C15Angles
import CfVerif.Proofs.C15Solver
import CfVerif.Proofs.C15Ippe
import CfVerif.Proofs.C15Quat
import CfVerif.Proofs.C15Heap
namespace CfVerif.C15
open CfVerif

/-! ## Gen obligations: what the hand-written sequencing in Model/C15 assumes about the current source
(the arithmetic expressions themselves are *translated* into Gen/C15 and used by the model directly) -/

theorem gen_tilt : (Gen.C15.tilt : ℝ) = Real.pi / 6 := by simp [Gen.C15.tilt]
theorem gen_bsv_init : Gen.C15.initArgs = ["self", "lh_v1_horiz_angle", "lh_v1_vert_angle"] ∧
    Gen.C15.initAssigns = ["self._lh_v1_horiz_angle = lh_v1_horiz_angle", "self._lh_v1_vert_angle = lh_v1_vert_angle"] := by decide
theorem gen_bsv_props : Gen.C15.prop_lh_v1_horiz_angle = "self._lh_v1_horiz_angle" ∧
    Gen.C15.prop_lh_v1_vert_angle = "self._lh_v1_vert_angle" ∧
    Gen.C15.prop_lh_v1_angle_pair = "(self._lh_v1_horiz_angle, self._lh_v1_vert_angle)" := by decide
theorem gen_bsv_ctor_calls : Gen.C15.fromLh2Return = "cls(lh_v1_horiz_angle, lh_v1_vert_angle)" ∧
    Gen.C15.fromCartReturn = "cls(lh_v1_horiz_angle, lh_v1_vert_angle)" ∧
    Gen.C15.fromProjReturn = "cls(lh_v1_horiz_angle, lh_v1_vert_angle)" := by decide
theorem gen_cart_return : Gen.C15.cartReturn = "v / np.linalg.norm(v)" := by decide
theorem gen_pose_init : Gen.C15.poseInitArgs = ["self", "R_matrix", "t_vec"] ∧
    Gen.C15.poseInitAssigns = ["self._R_matrix = np.array(R_matrix)", "self._t_vec = np.array(t_vec)"] ∧
    Gen.C15.poseRotMatrixProp = "self._R_matrix" ∧ Gen.C15.poseTranslationProp = "self._t_vec" := by decide
/-- the copy discipline the heap model rests on: the ONLY attribute stores of class Pose are the two `np.array(...)` copies
in `__init__` and the rebinding `self._t_vec = self._t_vec * scale` in `scale`; no Pose method contains an augmented
assignment, a subscript/slice store, an `out=` argument or a mutating call on its arrays -/
theorem gen_pose_copy_discipline :
    Gen.C15.poseAttrStores = ["__init__: self._R_matrix = np.array(R_matrix)", "__init__: self._t_vec = np.array(t_vec)",
      "scale: self._t_vec = self._t_vec * scale"] ∧ Gen.C15.poseInPlaceWrites = [] := by decide
theorem gen_pose_returns : Gen.C15.poseRtpReturn = "Pose(R_matrix=R, t_vec=t)" ∧
    Gen.C15.poseIrtpReturn = "Pose(R_matrix=R, t_vec=t)" := by decide
theorem gen_pose_scipy : Gen.C15.poseFromRotVecReturn = "Pose(Rotation.from_rotvec(R_vec).as_matrix(), t_vec)" ∧
    Gen.C15.poseFromQuatReturn = "Pose(Rotation.from_quat(R_quat).as_matrix(), t_vec)" ∧
    Gen.C15.poseRotVecProp = "Rotation.from_matrix(self._R_matrix).as_rotvec()" ∧
    Gen.C15.poseRotQuatProp = "Rotation.from_matrix(self._R_matrix).as_quat()" := by decide
theorem gen_rodrigues_order :
    Gen.C15.rtAssignOrder = ["theta", "v", "v", "dot", "cos_theta", "sin_theta"] := by decide
theorem gen_calc_angle_pairs : Gen.C15.capAssigns =
    ["sensor_points = cls._rotate_translate(sens_pos_p_a, cf_p_a[:, :defs.len_rot_vec], cf_p_a[:, defs.len_rot_vec:])",
     "points_bs_ref = cls._rotate_translate(sensor_points - bs_p_a[:, defs.len_rot_vec:defs.n_params_per_bs], -bs_p_a[:, :defs.len_rot_vec], np.zeros_like(bs_p_a[:, defs.len_rot_vec:defs.n_params_per_bs]))",
     "angle_pair = np.arctan2(points_bs_ref[:, 1:3], points_bs_ref[:, 0, np.newaxis])"] ∧
    Gen.C15.capReturn = "angle_pair" := ⟨rfl, rfl⟩
theorem gen_param_layout : Gen.C15.len_rot_vec = 3 ∧ Gen.C15.len_pose = 6 ∧
    Gen.C15.n_params_per_bs = "self.len_pose" ∧ Gen.C15.n_params_per_cf = "self.len_pose" ∧
    Gen.C15.paramsToPoseAssigns = ["r_vec = params[:defs.len_rot_vec]", "t = params[defs.len_rot_vec:defs.len_pose]"] ∧
    Gen.C15.paramsToPoseReturn = "Pose.from_rot_vec(R_vec=r_vec, t_vec=t)" ∧
    Gen.C15.poseToParamsReturn = "np.concatenate((pose.rot_vec, pose.translation))" := by decide
theorem gen_ippe_loop : Gen.C15.ippeCfToIppeLoop =
    ["U_t[i] = IppeCf._rotate_vector_to_ippe(U_cf[i])", "Q_t[i] = np.array((-Q_cf[i][0], -Q_cf[i][1]))"] := by decide

theorem gen_angle_list : Gen.C15.angleListAssigns =
    ["result = np.empty(len(self) * 2, dtype=float)", "result[i * 2] = vector.lh_v1_horiz_angle",
     "result[i * 2 + 1] = vector.lh_v1_vert_angle"] := by decide

/-! ## The real-number reading of `math.atan2` (sanity of the trusted instance in Proofs/C15Real) -/

/-- `atan2R y x` is the angle of the point (x, y): with r = √(x² + y²), r·cos θ = x, r·sin θ = y and −π < θ ≤ π -/
theorem atan2_is_the_angle (y x : ℝ) (h : x ≠ 0 ∨ y ≠ 0) :
    √(x ^ 2 + y ^ 2) * Real.cos (RealOps.atan2 y x) = x ∧ √(x ^ 2 + y ^ 2) * Real.sin (RealOps.atan2 y x) = y ∧
    -Real.pi < RealOps.atan2 y x ∧ RealOps.atan2 y x ≤ Real.pi := atan2R_spec y x h

/-! ## Field of view -/

noncomputable def deg (d : ℝ) : ℝ := d * Real.pi / 180

/-- a direction in a base station's field of view: horizontal angle within ±80°, vertical within ±55° -/
def InFov (h v : ℝ) : Prop := |h| < deg 80 ∧ |v| < deg 55

theorem InFov.horiz {h v : ℝ} (hf : InFov h v) : |h| < Real.pi / 2 := by
  have := hf.1; unfold deg at this; linarith [Real.pi_pos]

theorem InFov.vert {h v : ℝ} (hf : InFov h v) : |v| < Real.pi / 2 - tilt := by
  have := hf.2; unfold deg at this; rw [tilt_real]; linarith [Real.pi_pos]

theorem InFov.vert' {h v : ℝ} (hf : InFov h v) : |v| < Real.pi / 2 := by
  have := hf.2; unfold deg at this; linarith [Real.pi_pos]

/-! ## Clause 1: V1 / V2 / cartesian / projection conversions are mutual inverses in the field of view;
the cartesian form is a unit vector -/

/-- V1 -> V2 -> V1: for every direction in the field of view both V2 sweep angles exist (no `math.asin`
domain error) and `from_lh2` of them returns the V1 angles. -/
theorem v1_of_v2_of_v1 (h v : ℝ) (hf : InFov h v) :
    ∃ a1 a2, (BsVec.mk h v).v2 = .ok (a1, a2) ∧ BsVec.fromLh2 a1 a2 = ⟨h, v⟩ := by
  obtain ⟨a1, a2, h1, h2, _⟩ := fromLh2_of_v2 hf.horiz hf.vert
  exact ⟨a1, a2, h1, h2⟩

/-- V2 -> V1 -> V2: for every pair of sweep angles with `|a1 + a2| < π` and `|a2 - a1| < π` (the sweeps cross in
front of the base station), the V2 angles of `from_lh2(a1, a2)` exist and are `(a1, a2)`. -/
theorem v2_of_v1_of_v2 (a1 a2 : ℝ) (h1 : |a1 + a2| < Real.pi) (h2 : |a2 - a1| < Real.pi) :
    (BsVec.fromLh2 a1 a2).v2 = .ok (a1, a2) :=
  v2_of_fromLh2 h1 h2

/-- ... in particular for the V2 angles of every direction in the field of view. -/
theorem v2_of_v1_of_v2_fov (h v a1 a2 : ℝ) (hf : InFov h v) (hv2 : (BsVec.mk h v).v2 = .ok (a1, a2)) :
    (BsVec.fromLh2 a1 a2).v2 = .ok (a1, a2) := by
  obtain ⟨b1, b2, e, _, d1, d2⟩ := fromLh2_of_v2 hf.horiz hf.vert
  rw [e] at hv2
  injection hv2 with hv2
  injection hv2 with e1 e2
  subst e1; subst e2
  exact v2_of_fromLh2 d1 d2

/-- where the second sweep does not exist (`|tan v · cos h · tan T| > 1`) the model raises `ValueError`
exactly as `math.asin` does — the domain restriction of the property is the code's own. -/
theorem v2_domain_error (h v : ℝ) (hh : |h| < Real.pi / 2)
    (hs : 1 < Real.tan v * Real.cos h * Real.tan (Real.pi / 6) ∨ Real.tan v * Real.cos h * Real.tan (Real.pi / 6) < -1) :
    (BsVec.mk h v).v2 = .error .valueError := by
  rw [← tilt_real] at hs
  exact v2_err (cos_pos_of_abs_lt hh) hs

/-- the cartesian form is a unit vector (for every pair of angles) -/
theorem cart_unit (h v : ℝ) : V3.dot (BsVec.mk h v).cart (BsVec.mk h v).cart = 1 :=
  cart_unit_real h v

/-- V1 -> cartesian -> V1 -/
theorem cart_of_from_cart (h v : ℝ) (hf : InFov h v) : BsVec.fromCart (BsVec.mk h v).cart = ⟨h, v⟩ :=
  fromCart_cart hf.horiz hf.vert'

/-- cartesian -> V1 -> cartesian normalises: every vector with x > 0 comes back divided by its length -/
theorem from_cart_normalises (c : V3 ℝ) (hx : 0 < c.x) :
    (BsVec.fromCart c).cart = ⟨c.x / V3.norm c, c.y / V3.norm c, c.z / V3.norm c⟩ := cart_fromCart hx

/-- cartesian -> V1 -> cartesian, for every unit vector pointing into the front half space -/
theorem from_cart_of_cart (c : V3 ℝ) (hx : 0 < c.x) (hu : V3.dot c c = 1) : (BsVec.fromCart c).cart = c := by
  have hn : V3.norm c = 1 := by
    simp only [V3.norm, sqrt_real]
    simp only [V3.dot] at hu
    rw [hu, Real.sqrt_one]
  rw [cart_fromCart hx, hn]
  ext <;> simp

/-- V1 -> projection -> V1 -/
theorem proj_of_from_proj (h v : ℝ) (hf : InFov h v) :
    BsVec.fromProjection (BsVec.mk h v).projection.1 (BsVec.mk h v).projection.2 = ⟨h, v⟩ := by
  rw [projection_real, fromProjection_real]
  have hh := hf.horiz; have hv := hf.vert'
  ext
  · exact Real.arctan_tan (abs_lt.mp hh).1 (abs_lt.mp hh).2
  · exact Real.arctan_tan (abs_lt.mp hv).1 (abs_lt.mp hv).2

/-- projection -> V1 -> projection, for every image point -/
theorem from_proj_of_proj (y z : ℝ) : (BsVec.fromProjection y z).projection = (y, z) := by
  rw [fromProjection_real, projection_real, Real.tan_arctan, Real.tan_arctan]

/-- the projection is the cartesian direction scaled to the plane x = 1 -/
theorem proj_eq_cart_scaled (h v : ℝ) :
    (BsVec.mk h v).projection = ((BsVec.mk h v).cart.y / (BsVec.mk h v).cart.x, (BsVec.mk h v).cart.z / (BsVec.mk h v).cart.x) := by
  have hn := (cart_norm_pos h v).ne'
  rw [projection_real, cart_real]
  ext <;> simp <;> field_simp

/-! ## Clause 2: rigid-motion laws of Pose (R orthogonal: `Rᵀ R = I`) -/

/-- inverse undoes forward (points) -/
theorem inv_rotate_translate_of_rotate_translate (P : Pose ℝ) (hP : P.IsRigid) (p : V3 ℝ) :
    P.invRotateTranslate (P.rotateTranslate p) = p := inv_rt_rt hP p

/-- forward undoes inverse (points) -/
theorem rotate_translate_of_inv_rotate_translate (P : Pose ℝ) (hP : P.IsRigid) (p : V3 ℝ) :
    P.rotateTranslate (P.invRotateTranslate p) = p := rt_inv_rt hP p

/-- inverse undoes forward and forward undoes inverse (poses) -/
theorem inv_pose_of_pose (P Q : Pose ℝ) (hP : P.IsRigid) :
    P.invRotateTranslatePose (P.rotateTranslatePose Q) = Q ∧
    P.rotateTranslatePose (P.invRotateTranslatePose Q) = Q := ⟨inv_rtp_rtp hP Q, rtp_inv_rtp hP Q⟩

/-- composition is associative (any matrices) -/
theorem compose_assoc (P Q S : Pose ℝ) :
    (P.rotateTranslatePose Q).rotateTranslatePose S = P.rotateTranslatePose (Q.rotateTranslatePose S) := rtp_assoc P Q S

/-- composition matches sequential application, also for the inverse composition -/
theorem compose_eq_sequential (P Q : Pose ℝ) (p : V3 ℝ) :
    (P.rotateTranslatePose Q).rotateTranslate p = P.rotateTranslate (Q.rotateTranslate p) ∧
    (P.invRotateTranslatePose Q).rotateTranslate p = P.invRotateTranslate (Q.rotateTranslate p) :=
  ⟨rtp_rt P Q p, inv_rtp_rt P Q p⟩

/-- the default pose is the identity of composition and leaves points unchanged -/
theorem identity_laws (P : Pose ℝ) (p : V3 ℝ) :
    (Pose.identity : Pose ℝ).rotateTranslatePose P = P ∧ P.rotateTranslatePose Pose.identity = P ∧
    (Pose.identity : Pose ℝ).rotateTranslate p = p ∧ (Pose.identity : Pose ℝ).IsRigid :=
  ⟨identity_rtp P, rtp_identity P, identity_rt p, identity_rigid⟩

/-- rigid poses are closed under composition and inverse composition, and preserve distances -/
theorem rigid_closed (P Q : Pose ℝ) (hP : P.IsRigid) (hQ : Q.IsRigid) :
    (P.rotateTranslatePose Q).IsRigid ∧ (P.invRotateTranslatePose Q).IsRigid := ⟨rtp_rigid hP hQ, inv_rtp_rigid hP hQ⟩

theorem rigid_preserves_distance (P : Pose ℝ) (hP : P.IsRigid) (p q : V3 ℝ) :
    V3.dot (V3.sub (P.rotateTranslate p) (P.rotateTranslate q)) (V3.sub (P.rotateTranslate p) (P.rotateTranslate q)) =
      V3.dot (V3.sub p q) (V3.sub p q) := rt_dist hP p q

/-- `scale` — the only mutator of a Pose — multiplies the translation by the factor, leaves the rotation untouched and
keeps the pose rigid; so every law above holds again in the object's new state (the laws are stated for all poses) -/
theorem scale_state (P : Pose ℝ) (k : ℝ) :
    (P.scale k).R = P.R ∧ (P.scale k).t = V3.smul k P.t ∧ (P.IsRigid → (P.scale k).IsRigid) :=
  ⟨rfl, rfl, fun h => scale_rigid h k⟩

/-- in particular the inverse transform after `scale` uses the scaled translation -/
theorem inv_after_scale (P : Pose ℝ) (hP : P.IsRigid) (k : ℝ) (p : V3 ℝ) :
    (P.scale k).invRotateTranslate ((P.scale k).rotateTranslate p) = p ∧
    (P.scale k).invRotateTranslate p = P.R.transpose.mulVec (V3.sub p (V3.smul k P.t)) :=
  ⟨inv_rt_rt (scale_rigid hP k) p, rfl⟩

/-- a pose built from ANY rotation vector (the matrix scipy computes: Rodrigues) is rigid, and a proper rotation -/
theorem from_rot_vec_rigid (r t : V3 ℝ) :
    (Pose.fromRotVec r t).IsRigid ∧ M3.det (Pose.fromRotVec r t).R = 1 := ⟨fromRotVec_rigid r t, rotVecMatrix_det r⟩

/-! ### Pose VALUES are independent of object sharing (heap / aliasing view, Model/C15: `Heap`)

Events: the caller creates ndarrays and overwrites its own arrays in place; `Pose(R, t)` from any arrays — the caller's or
another pose's `rot_matrix` / `translation`; `copy.copy(pose)` (shares both arrays); `scale`; both compositions; both point
transforms.  All theorems are for every number type and every history. -/

/-- every history from the empty heap keeps the invariant "each Pose object refers to arrays that only poses own" -/
theorem heap_invariant {α : Type} [Add α] [Sub α] [Mul α] (ops : List (HOp α)) (h : Heap α)
    (hr : (Heap.empty : Heap α).run ops = .ok h) : h.WF := run_wf Heap.empty_wf hr

/-- an operation on one Pose never changes the observable value of another: after ANY construction/sharing history `ops1`,
object `q` keeps its value through ANY further history `ops2` that does not call `scale` on `q` itself — whatever is
scaled (including shallow copies of `q` and poses built from `q.rot_matrix`/`q.translation` or from the same ndarrays as
`q`), composed, transformed, or overwritten by the caller (including the arrays `q` was constructed from) -/
theorem pose_value_independent {α : Type} [Add α] [Sub α] [Mul α] (ops1 ops2 : List (HOp α)) (h1 h2 : Heap α)
    (hr1 : (Heap.empty : Heap α).run ops1 = .ok h1) (hr2 : h1.run ops2 = .ok h2)
    (q : Nat) (hq : q < h1.objs.length) (hn : ∀ op ∈ ops2, ¬ op.scales q) : h2.deref q = h1.deref q :=
  run_deref_frame (run_wf Heap.empty_wf hr1) hr2 hq hn

/-- ... nor of the caller's arrays: through any history a cell changes only by the caller's own write to that cell; and
the arrays a Pose holds are never written at all -/
theorem caller_arrays_untouched {α : Type} [Add α] [Sub α] [Mul α] (ops : List (HOp α)) (h h' : Heap α)
    (hr : h.run ops = .ok h') (i : Nat) (c : Owner × Arr α) (hc : h.cells[i]? = some c)
    (hn : ∀ op ∈ ops, ¬ op.writesCell i) : h'.cells[i]? = some c := run_cells_frame hr hc hn

theorem pose_arrays_never_written {α : Type} [Add α] [Sub α] [Mul α] (op : HOp α) (h h' : Heap α)
    (hs : h.step op = .ok h') (i : Nat) (a : Arr α) (hc : h.cells[i]? = some (.pose, a)) :
    h'.cells[i]? = some (.pose, a) := step_pose_cells hs hc

/-- the events act on the object they target exactly as the value-level model says, so every law above applies to the
values of the objects at every point of every history -/
theorem heap_refines_values {α : Type} [Add α] [Sub α] [Mul α] (h h' : Heap α) (hw : h.WF) :
    (∀ p k, h.step (.scale p k) = .ok h' → ∃ P, h.deref p = some P ∧ h'.deref p = some (P.scale k)) ∧
    (∀ r t, h.step (.construct r t) = .ok h' →
      ∃ m v, h.mat? r = some m ∧ h.vec? t = some v ∧ h'.deref h.objs.length = some ⟨m, v⟩) ∧
    (∀ p q, h.step (.compose p q) = .ok h' →
      ∃ P Q, h.deref p = some P ∧ h.deref q = some Q ∧ h'.deref h.objs.length = some (P.rotateTranslatePose Q)) ∧
    (∀ p q, h.step (.invCompose p q) = .ok h' →
      ∃ P Q, h.deref p = some P ∧ h.deref q = some Q ∧ h'.deref h.objs.length = some (P.invRotateTranslatePose Q)) ∧
    (∀ p, h.step (.copyObj p) = .ok h' → h'.deref h.objs.length = h.deref p) :=
  ⟨fun _ _ hs => step_scale_deref hw hs, fun _ _ hs => step_construct_deref hs, fun _ _ hs => step_compose_deref hs,
   fun _ _ hs => step_invCompose_deref hs, fun _ hs => step_copy_deref hs⟩

/-- why the copy discipline matters: with a constructor that keeps the caller's arrays and an in-place `scale`, two poses
built from the same ndarrays alias — scaling pose 0 changes the value of the untouched pose 1 -/
theorem aliasing_counterexample :
    let h0 : Heap Int := ⟨[(.caller, .mat ⟨⟨1, 0, 0⟩, ⟨0, 1, 0⟩, ⟨0, 0, 1⟩⟩), (.caller, .vec ⟨1, 2, 3⟩)], []⟩
    let h1 := (h0.constructNoCopy 0 1).constructNoCopy 0 1
    let h2 := h1.scaleInPlace 0 2
    (h1.deref 1).map (·.t.x) = some 1 ∧ (h2.deref 1).map (·.t.x) = some 2 := by decide

/-! ### Views of one rotation (PARTIAL: about the specification of the scipy conversions, see docs/C15.md)

`Pose.from_rot_vec` / `Pose.from_quat` / `rot_vec` / `rot_quat` delegate to scipy's `Rotation`.  The model contains the
textbook specification of the forward conversions (`rotVecMatrix`, `quatMatrix`, `rotVecQuat`), validated against scipy
by the correspondence; the theorems below show these specifications agree with each other and produce rigid poses.
Full statement NOT proved: for every pose P built by the library, `Pose.from_rot_vec(P.rot_vec)` and
`Pose.from_quat(P.rot_quat)` have P's matrix — the matrix -> vector/quaternion direction (scipy's `from_matrix`,
`as_rotvec`, `as_quat`) is outside the model and is only sampled (search()). -/

/-- the matrix stored by `Pose.from_quat(q)` is orthogonal for every non-zero quaternion (scipy normalises it) -/
theorem views_quat_rigid_partial (q : Quat ℝ) (hq : 0 < q.normSq) : (quatMatrix q).IsOrthogonal :=
  quatMatrix_orthogonal q hq

/-- `q` and `-q` are views of the same pose -/
theorem views_quat_sign_partial (q : Quat ℝ) : quatMatrix ⟨-q.x, -q.y, -q.z, -q.w⟩ = quatMatrix q := quatMatrix_neg q

/-- the quaternion view `(axis·sin(θ/2), cos(θ/2))` of a rotation vector is a unit quaternion with the same rotation
matrix as the rotation vector — for every rotation vector, including zero and half turns -/
theorem views_rotvec_quat_agree_partial (r : V3 ℝ) :
    (rotVecQuat r).normSq = 1 ∧ quatMatrix (rotVecQuat r) = rotVecMatrix r :=
  ⟨rotVecQuat_unit r, quatMatrix_rotVecQuat r⟩

/-! ## Clause 3: the solver's vectorised projection equals the projection defined by the types -/

/-- zero rotation vector — the `0/0 -> nan_to_num -> 0` path of `_rotate_translate`: pure translation -/
theorem rodrigues_zero (p t : V3 ℝ) : rodrigues p ⟨0, 0, 0⟩ t = V3.add p t := rodrigues_zero_real p t

/-- `_rotate_translate(points, r, t)` is `Pose.from_rot_vec(r, t).rotate_translate(points)` for every rotation vector -/
theorem rodrigues_eq_pose (p r t : V3 ℝ) : rodrigues p r t = (Pose.fromRotVec r t).rotateTranslate p := by
  rw [rodrigues_eq_matrix]; rfl

/-- "-rotation vector == inverse rotation": the matrix of `-r` is the transpose of the matrix of `r` -/
theorem rodrigues_neg_eq_transpose (r : V3 ℝ) : rotVecMatrix (V3.neg r) = (rotVecMatrix r).transpose :=
  rotVecMatrix_neg r

/-- `_calc_angle_pairs` (one row) = V1 angle pair of `LighthouseBsVector.from_cart` of the sensor position moved by the
Crazyflie pose and then into the base-station frame by `Pose.inv_rotate_translate` — for ALL rotation vectors
(zero, tiny, half turns, ...), translations and sensor positions. -/
theorem solver_projection_eq_types (bs cf : Params ℝ) (sens : V3 ℝ) :
    calcAnglePair bs cf sens =
      (let bsPose := Pose.fromRotVec bs.rotVec bs.trans
       let cfPose := Pose.fromRotVec cf.rotVec cf.trans
       let b := BsVec.fromCart (bsPose.invRotateTranslate (cfPose.rotateTranslate sens))
       (b.h, b.v)) := calcAnglePair_eq_types bs cf sens

/-- `solver_projection_eq_types` has no side condition: it covers sensors in front of, beside (x = 0) and BEHIND the base
station.  Behind it (x < 0 in the base-station frame) both paths return the full-circle angle `atan2(y, x)`, which is
`arctan(y/x) ± π` — never the projection-plane angle `arctan(y/x)`; so replacing `arctan2(y, x)` by `arctan(y / x)` in either
path breaks the equality exactly there. -/
theorem angle_behind_base_station (y x : ℝ) (hx : x < 0) :
    (RealOps.atan2 y x : ℝ) = (if 0 ≤ y then Real.arctan (y / x) + Real.pi else Real.arctan (y / x) - Real.pi) ∧
    (RealOps.atan2 y x : ℝ) ≠ Real.arctan (y / x) := by
  have hpi := Real.pi_pos
  have e : (RealOps.atan2 y x : ℝ) = (if 0 ≤ y then Real.arctan (y / x) + Real.pi else Real.arctan (y / x) - Real.pi) := by
    simp [atan2R, not_lt.mpr hx.le, hx]
  refine ⟨e, ?_⟩
  rw [e]
  split <;> intro h <;> linarith

/-! ## D18: a zero *computed* angle with a non-zero rotation vector

In binary64 `theta = np.linalg.norm(rot_vecs)` underflows to 0 for non-zero vectors with |r| < 2.2e-162; then
`rot_vecs / theta` is ±inf, which the unrepaired `np.nan_to_num(v)` turned into ±1.8e308, and `0 * inf` made the whole
projection NaN.  Over ℝ this cannot happen (theta = 0 only for r = 0), so the clause is stated for EVERY number
system with the operations of `RealOps` — it is about the generated expression `Gen.C15.rtAxis` itself. -/

/-- whenever the computed angle is zero, the computed rotation axis is the zero vector (hence `_rotate_translate`
returns `points + translations`), whatever the rotation vector's components are -/
theorem axis_zero_when_theta_zero {α : Type} [Add α] [Sub α] [Mul α] [Div α] [Neg α] [RealOps α] (r : V3 α) (θ : α)
    (h : isZero θ = true) : Gen.C15.rtAxis r θ = ⟨nat 0, nat 0, nat 0⟩ := by
  simp only [Gen.C15.rtAxis, V3.divNanToNum, npDiv, h, if_true]
  cases isZero r.x <;> cases isZero r.y <;> cases isZero r.z <;>
    cases ltb r.x (nat 0) <;> cases ltb r.y (nat 0) <;> cases ltb r.z (nat 0) <;> rfl

section Toy
/-- a toy number system (the integers, with junk trigonometry) in which a zero angle can come with a non-zero
vector — as it does in binary64 through underflow -/
@[instance_reducible] def toyOps : RealOps Int :=
  { nat := fun n => n, pi := 3, sin := id, cos := id, tan := id, atan := id, asin := id, sqrt := id,
    atan2 := fun a _ => a, pow := fun x n => x ^ n, f32 := id, isZero := fun x => x == 0,
    ltb := fun a b => decide (a < b), fmax := 1000 }
attribute [local instance] toyOps

/-- the unrepaired expression `np.nan_to_num(rot_vecs / theta)` (infinities ↦ ± the largest float) does NOT have
that property: with a zero angle and the vector (1, 0, 0) the axis is (fmax, 0, 0) -/
theorem live_axis_counterexample :
    ¬ (∀ (r : V3 Int) (θ : Int), isZero θ = true → V3.divNanToNum (fmax : Int) (-fmax) r θ = ⟨nat 0, nat 0, nat 0⟩) := by
  intro h
  have := congrArg V3.x (h ⟨1, 0, 0⟩ 0 rfl)
  revert this
  decide
end Toy

/-! ## IppeCf axis permutation -/

/-- CF -> IPPE -> CF and back are the identity; the permutation is a proper rotation -/
theorem ippe_axes (v : V3 ℝ) :
    ippeVecToCf (ippeVecToIppe v) = v ∧ ippeVecToIppe (ippeVecToCf v) = v ∧
    (Gen.C15.ippeToCf : M3 ℝ).IsOrthogonal ∧ M3.det (Gen.C15.ippeToCf : M3 ℝ) = 1 := by
  refine ⟨?_, ?_, ippeToCf_orthogonal, ippeToCf_det⟩
  · rw [ippeVecToIppe_real, ippeVecToCf_real]; ext <;> simp
  · rw [ippeVecToCf_real, ippeVecToIppe_real]; ext <;> simp

/-- the pinhole image (x/z, y/z) of a point in IPPE axes is the negated CF projection (y/x, z/x),
which is what `_cf_to_ippe` feeds to IPPE -/
theorem ippe_image_consistent (p : V3 ℝ) :
    ((ippeVecToIppe p).x / (ippeVecToIppe p).z, (ippeVecToIppe p).y / (ippeVecToIppe p).z) =
      ippeImgToIppe (p.y / p.x, p.z / p.x) := by
  rw [ippeVecToIppe_real]; simp [ippeImgToIppe, neg_div]

/-- a rotation converted to CF axes acts on converted vectors as the original acts on the originals,
and stays orthogonal -/
theorem ippe_rotation_consistent (R : M3 ℝ) (v : V3 ℝ) :
    (ippeRotToCf R).mulVec (ippeVecToCf v) = ippeVecToCf (R.mulVec v) ∧
    (R.IsOrthogonal → (ippeRotToCf R).IsOrthogonal) := by
  constructor
  · rw [ippeVecToCf_real, ippeVecToCf_real]
    ext <;> simp [ippeRotToCf, Gen.C15.ippeRotToCf, Gen.C15.cfToIppe, Gen.C15.ippeToCf, M3.mulVec, M3.mul, M3.transpose,
      M3.col0, M3.col1, M3.col2, V3.dot] <;> ring
  · intro hR
    rw [ippeRotToCf_real]
    exact M3.IsOrthogonal.mul ippeToCf_orthogonal (M3.IsOrthogonal.mul hR (M3.IsOrthogonal.transpose ippeToCf_orthogonal))

/-! ## Non-vacuity: concrete instances of the hypotheses -/

example : InFov (deg 79) (deg (-54)) := by
  unfold InFov deg
  have := Real.pi_pos
  constructor
  · rw [abs_of_pos (by positivity)]; linarith
  · rw [abs_of_neg (by linarith)]; linarith
example : InFov 0 0 := by
  unfold InFov deg
  constructor <;> · rw [abs_zero]; positivity
example : |(0.3 : ℝ) + 0.5| < Real.pi ∧ |(0.5 : ℝ) - 0.3| < Real.pi := by
  have := Real.two_le_pi
  constructor <;> rw [abs_of_pos (by norm_num)] <;> linarith
/-- a half turn about the x axis is a rigid pose that is not the identity -/
example : (⟨⟨⟨1, 0, 0⟩, ⟨0, -1, 0⟩, ⟨0, 0, -1⟩⟩, ⟨1, 2, 3⟩⟩ : Pose ℝ).IsRigid := by
  unfold Pose.IsRigid M3.IsOrthogonal
  ext <;> simp [M3.mul, M3.transpose, M3.one, M3.col0, M3.col1, M3.col2, V3.dot]
/-- a sharing history that runs: two poses from the same ndarrays, a shallow copy, scale of one, a composition -/
example : ((Heap.empty : Heap Int).run [.newArr (.mat ⟨⟨1, 0, 0⟩, ⟨0, 1, 0⟩, ⟨0, 0, 1⟩⟩), .newArr (.vec ⟨1, 2, 3⟩),
    .construct 0 1, .construct 0 1, .copyObj 0, .scale 0 2, .callerWrite 1 (.vec ⟨9, 9, 9⟩), .compose 0 1]).toOption.map
      (fun h => ((h.deref 0).map (·.t.x), (h.deref 1).map (·.t.x), (h.deref 2).map (·.t.x), (h.deref 3).map (·.t.x))) =
    some (some 2, some 1, some 1, some 3) := by decide
example : 0 < (⟨1, -2, 0, 2⟩ : Quat ℝ).normSq := by norm_num [Quat.normSq]
example : (0 : ℝ) < (⟨3 / 5, 0, 4 / 5⟩ : V3 ℝ).x ∧ V3.dot (⟨3 / 5, 0, 4 / 5⟩ : V3 ℝ) ⟨3 / 5, 0, 4 / 5⟩ = 1 := by
  constructor <;> norm_num [V3.dot]

end CfVerif.C15

/-
Props/C16 — property theorems for C16 (system alignment is rigid and exact; scaling is uniform).  PARTIAL by nature:
that scipy's `least_squares` reaches a zero residual from the zero start within `max_nfev` evaluations is numerical
convergence of a library routine — validated by sampling in harness/corr/c16.py (and violated in ~0.3 % of in-domain
cases, known finding D17), not proved.  Everything below is about Model/C16 instantiated with ℝ.
-/
import CfVerif.Proofs.C16
namespace CfVerif.C16
open CfVerif

/-! ## Gen obligations: what the hand-written model assumes about the current source -/

theorem gen_residual_slices : Gen.C16.xSliceLo = 1 ∧ Gen.C16.xSliceHi = 3 ∧ Gen.C16.planeIdx = 2 := by decide
theorem gen_residual_flow : Gen.C16.residualFlow =
    ["transform = cls._Pose_from_params(params)", "origin_diff = transform.rotate_translate(origin)",
     "x_axis_diff = map(lambda x: transform.rotate_translate(x), x_axis)",
     "xy_plane_diff = map(lambda x: transform.rotate_translate(x), xy_plane)", "residual_origin = origin_diff"] ∧
    Gen.C16.xResidualSrc = "x_axis_diff" ∧ Gen.C16.planeResidualSrc = "xy_plane_diff" ∧
    Gen.C16.residualParts = ["np.ravel(residual_origin)", "np.ravel(x_axis_residual)", "np.ravel(xy_plane_residual)"] ∧
    Gen.C16.residualReturns = ["residual"] := by decide

/-! ## The property -/

/-- The residual handed to the optimiser is zero exactly when the transformation maps the origin sample to (0,0,0),
every x-axis sample to a point with y = z = 0 and every plane sample to a point with z = 0 (and it never raises). -/
theorem residual_zero_iff_aligned (T : Pose ℝ) (origin : Vec3 ℝ) (xAxis xyPlane : List (Vec3 ℝ)) :
    (∃ r, calcResidualOf T origin xAxis xyPlane = .ok r ∧ ∀ c ∈ r, c = 0) ↔ Aligned T origin xAxis xyPlane :=
  residual_zero_iff_aux gen_residual_slices.1 gen_residual_slices.2.1 gen_residual_slices.2.2 T origin xAxis xyPlane

end CfVerif.C16

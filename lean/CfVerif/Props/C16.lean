/-
Props/C16 — property theorems for C16 (system alignment is rigid and exact; scaling is uniform).

PARTIAL by nature.  NOT proved (validated by sampling in harness/corr/c16.py, and in fact violated by the unchanged code in
about 0.3 % of in-domain cases — known finding D161): that scipy's `least_squares` reaches a zero residual from the zero start
within `max_nfev` evaluations whenever the misalignment is below 30° / 3 m.  The optimiser is a PARAMETER of the model
(`lsq : Lsq ℝ`): the structural theorems hold for every optimiser; the exactness theorems take "the residual at the
optimiser's answer is zero" (`Aligned raw …`, equivalent by `residual_zero_iff_aligned`) as their hypothesis.

Everything is about Model/C16 instantiated with ℝ; helper lemmas are in Proofs/C16*.lean, the vocabulary (`IsProper`,
`Aligned`, `dist3`, `relOrientation`) in Spec/C16.lean.  `Rotation.from_rotvec(..).as_matrix()` is the Rodrigues stand-in
`rotVecToMat` (trusted: scipy implements it up to rounding).
-/
import CfVerif.Proofs.C16Unique
import CfVerif.Proofs.C16Scale
import CfVerif.Proofs.C16Heap
import CfVerif.Proofs.C16Flight
namespace CfVerif.C16
open CfVerif

/-! ## Gen obligations: what the hand-written model assumes about the current source -/

theorem gen_residual_slices : Gen.C16.xSliceLo = 1 ∧ Gen.C16.xSliceHi = 3 ∧ Gen.C16.planeIdx = 2 := by decide
theorem gen_residual_flow : Gen.C16.residualFlow =
    ["transform = cls._Pose_from_params(params)", "origin_diff = transform.rotate_translate(origin)",
     "x_axis_diff = map(lambda x: transform.rotate_translate(x), x_axis)",
     "xy_plane_diff = map(lambda x: transform.rotate_translate(x), xy_plane)", "residual_origin = origin_diff"] ∧
    Gen.C16.xResidualSrc = "x_axis_diff" ∧ Gen.C16.planeResidualSrc = "xy_plane_diff" ∧
    Gen.C16.residualParts = ["np.ravel(residual_origin)", "np.ravel(x_axis_residual)", "np.ravel(xy_plane_residual)"] ∧
    Gen.C16.residualReturns = ["residual"] := by decide
theorem gen_params_split : Gen.C16.rotHi = 3 ∧ Gen.C16.transLo = 3 ∧ Gen.C16.nParams = 6 := by decide
/-- the optimiser is called on `_calc_residual` with the three sample sets, and its answer is turned into the pose;
the evaluation cap is the one the convergence sampling (and finding D161) was characterised with -/
theorem gen_find_transformation : Gen.C16.lsqPositional = ["cls._calc_residual", "x0"] ∧
    Gen.C16.lsqArgs = "(origin, x_axis, xy_plane)" ∧ Gen.C16.lsqArgsKw = "args" ∧
    Gen.C16.findReturns = ["cls._Pose_from_params(result.x)"] ∧ 10 ≤ Gen.C16.maxNfev := by decide
theorem gen_deflip : Gen.C16.deflip1Idx = 0 ∧ Gen.C16.flip1Axis = 2 ∧ Gen.C16.deflip2Idx = 2 ∧ Gen.C16.flip2Axis = 0 := by decide
theorem gen_deflip_flow : Gen.C16.deflipFlow = ["transformation = raw_transformation", "x_axis_mean = np.mean(x_axis, axis=0)",
      "bs_pose = list(bs_poses.values())[0]"] ∧
    Gen.C16.deflip1Test = "raw_transformation.rotate_translate(x_axis_mean) < 0.0" ∧
    Gen.C16.deflip2Test = "raw_transformation.rotate_translate(bs_pose.translation) < 0.0" ∧
    Gen.C16.deflipReturns = ["transformation"] := by decide
theorem gen_align_flow : Gen.C16.alignFlow = ["raw_transformation = cls._find_transformation(origin, x_axis, xy_plane)",
      "transformation = cls._de_flip_transformation(raw_transformation, x_axis, bs_poses)",
      "result[bs_id] = transformation.rotate_translate_pose(pose)"] ∧
    Gen.C16.alignLoop = "for (bs_id, pose) in bs_poses.items()" ∧ Gen.C16.alignReturns = ["(result, transformation)"] := by decide
/-- the aligner writes to nothing but its own fresh `result` dict and calls no method on its arguments except dict views -/
theorem gen_aligner_pure : Gen.C16.alignerStores = ["result[bs_id]"] ∧
    Gen.C16.alignerCallsOnInputs = ["bs_poses.items", "bs_poses.values"] := by decide
/-- **no shared state.**  Neither class has class-level statements other than its methods, neither module has module-level
state, and no method declares `global`/`nonlocal`, stores into `cls.…`, into an argument object or any non-local, reads a
`cls.` attribute that is not a method, or reads a free name other than builtins and the module's imports/classes: all data
flows through arguments, locals and return values.  The reference points reach the residual through `least_squares(args=…)`
(`gen_find_transformation`) into the parameters of `_calc_residual`. -/
theorem gen_no_shared_state : Gen.C16.alignerClassState = [] ∧ Gen.C16.alignerModuleState = [] ∧
    Gen.C16.alignerSharedStateUses = [] ∧ Gen.C16.scalerClassState = [] ∧ Gen.C16.scalerModuleState = [] ∧
    Gen.C16.scalerSharedStateUses = [] ∧
    Gen.C16.calcResidualParams = ["cls", "params", "origin", "x_axis", "xy_plane"] ∧
    Gen.C16.findTransformationParams = ["cls", "origin", "x_axis", "xy_plane"] := by decide
theorem gen_pose : Gen.C16.poseInit = ["self._R_matrix = np.array(R_matrix)", "self._t_vec = np.array(t_vec)"] ∧
    Gen.C16.poseFromRotVec = ["Pose(Rotation.from_rotvec(R_vec).as_matrix(), t_vec)"] ∧
    Gen.C16.poseAccessors = ["self._R_matrix", "self._t_vec"] ∧
    Gen.C16.poseRotateTranslate = ["np.dot(self.rot_matrix, point) + self.translation"] ∧
    Gen.C16.poseRotateTranslatePose = ["t = np.dot(self.rot_matrix, pose.translation) + self.translation",
      "R = np.dot(self.rot_matrix, pose.rot_matrix)", "Pose(R_matrix=R, t_vec=t)"] := by decide
/-- `Pose.scale` REBINDS `_t_vec` to a new array (it is not `*=`), and no other Pose method writes an attribute -/
theorem gen_pose_scale_rebinds : Gen.C16.poseScale = ["self._t_vec = self._t_vec * scale"] ∧
    Gen.C16.poseStores = ["scale: self._t_vec"] := by decide
/-- how Pose stores its arrays: `np.array(<argument>)` with the dtype as given (ints stay ints, float32 stays float32 — so
every dtype reaches `scale`), and `scale` assigns the PRODUCT (a new array of the product's floating dtype) to the
attribute; it does not write through a slice / element / augmented assignment, which would cast back to the stored dtype -/
theorem gen_pose_storage : Gen.C16.poseStorage = ["self._R_matrix <- np.array(R_matrix) dtype=as-given",
      "self._t_vec <- np.array(t_vec) dtype=as-given"] ∧
    Gen.C16.poseScaleKind = ["rebind-attribute", "self._t_vec", "self._t_vec * scale"] := by decide
theorem gen_scale_system : Gen.C16.scaleSystemFlow = ["bs_scaled = {bs_id: copy.copy(pose) for bs_id, pose in bs_poses.items()}",
      "cf_scaled = [copy.copy(pose) for pose in cf_poses]", "(bs_scaled, cf_scaled, scale_factor)"] ∧
    Gen.C16.scaleSystemLoops = ["for pose in bs_scaled.values(): pose.scale(scale_factor)",
      "for pose in cf_scaled: pose.scale(scale_factor)"] ∧ Gen.C16.scalerStores = [] := by decide
theorem gen_scale_factors : Gen.C16.fixedPointFlow = ["expected_distance = np.linalg.norm(expected)",
      "actual_distance = np.linalg.norm(actual.translation)", "scale_factor = expected_distance / actual_distance",
      "cls._scale_system(bs_poses, cf_poses, scale_factor)"] ∧
    Gen.C16.diagonalsFlow = ["estimated_diagonal = cls._calculate_mean_diagonal(bs_poses, cf_poses, matched_samples)",
      "scale_factor = expected_diagonal / estimated_diagonal", "cls._scale_system(bs_poses, cf_poses, scale_factor)"] := by decide
theorem gen_mean_diagonal : Gen.C16.meanDiagonalLoops = ["for (cf_pose, sample) in zip(cf_poses, matched_samples)",
      "for (bs_id, vectors) in sample.angles_calibrated.items()"] ∧
    Gen.C16.diagPoseArgs = ["bs_poses[bs_id], cf_pose", "bs_poses[bs_id], cf_pose"] ∧
    Gen.C16.meanDiagonalFlow = ["estimated_diagonal = np.mean(diagonals)", "estimated_diagonal"] ∧
    Gen.C16.intersectionDistanceFlow = ["intersection1 = cls.calc_intersection_point(vector1, bs_pose, cf_pose)",
      "intersection2 = cls.calc_intersection_point(vector2, bs_pose, cf_pose)",
      "distance = np.linalg.norm(intersection1 - intersection2)", "distance"] := by decide
/-- the sensor pairs whose ray intersections are measured are the two DIAGONALS of the deck's sensor rectangle: opposite
corners in x and in y according to `LhDeck4SensorPositions.positions` -/
theorem gen_diag_pairs_are_diagonals : Gen.C16.diagPairs.length = 2 ∧
    Gen.C16.diagPairs.all (fun ij =>
      match Gen.C16.sensorCorners[ij.1]?, Gen.C16.sensorCorners[ij.2]? with
      | some a, some b => a.1 == -b.1 && a.2 == -b.2
      | _, _ => false) = true := by decide
theorem gen_intersection : Gen.C16.deckNormal = [0, 0, 1] ∧
    Gen.C16.intersectionFlow = ["plane_base = cf_pose.translation", "line_base = bs_pose.translation",
      "line_vector = np.dot(bs_pose.rot_matrix, vector.cart)",
      "dist_on_line = np.dot(plane_base - line_base, plane_normal) / np.dot(line_vector, plane_normal)",
      "line_base + line_vector * dist_on_line"] := by decide

/-! ## Alignment: one proper rigid transformation, for every optimiser -/

/-- **align applies one proper rigid map.**  Whatever `least_squares` returns (the optimiser `lsq` is arbitrary), if
`align` returns `(result, T)` then `T` is a proper rotation plus translation, and `result` has exactly the ids of the
input in the same order, each with the pose `T ∘ pose` (`rotate_translate_pose`). -/
theorem align_applies_one_rigid_map (lsq : Lsq ℝ) (origin : Vec3 ℝ) (xAxis xyPlane : List (Vec3 ℝ))
    (bsPoses result : List (Nat × Pose ℝ)) (T : Pose ℝ)
    (h : align lsq origin xAxis xyPlane bsPoses = .ok (result, T)) :
    T.IsProperRigid ∧ result = bsPoses.map (fun kv => (kv.1, T.rotateTranslatePose kv.2)) := by
  obtain ⟨raw, x, xs', k, b, bs', _, hp, _, _, hT, hres⟩ :=
    align_ok gen_deflip.1 gen_deflip.2.1 gen_deflip.2.2.1 gen_deflip.2.2.2 h
  exact ⟨by rw [hT]; exact deFlipSpec_isProper hp _ _, hres⟩

/-- `align` returns (does not raise) whenever there is at least one x-axis sample, at least one base station and the
optimiser answers with six numbers; with no x-axis sample it raises ValueError, with no base station IndexError. -/
theorem align_returns (lsq : Lsq ℝ) (origin x : Vec3 ℝ) (xs xyPlane : List (Vec3 ℝ)) (k : Nat) (b : Pose ℝ)
    (bs : List (Nat × Pose ℝ))
    (hlen : ∃ a b c d e f, lsq (fun p => calcResidual p origin (x :: xs) xyPlane) (List.replicate Gen.C16.nParams 0) = [a, b, c, d, e, f]) :
    ∃ res T, align lsq origin (x :: xs) xyPlane ((k, b) :: bs) = .ok (res, T) :=
  align_total gen_deflip.1 gen_deflip.2.1 gen_deflip.2.2.1 gen_deflip.2.2.2 gen_params_split.1 gen_params_split.2.1
    lsq origin x xs xyPlane k b bs hlen

/-- the two exceptions of `align` on well-shaped input: no x-axis sample → ValueError (numpy's ambiguous truth value on
the nan mean); no base station → IndexError (`list(bs_poses.values())[0]`) -/
theorem align_raises (lsq : Lsq ℝ) (origin x : Vec3 ℝ) (xs xyPlane : List (Vec3 ℝ)) (bs : List (Nat × Pose ℝ))
    (h0 : ∃ a b c d e f, lsq (fun p => calcResidual p origin [] xyPlane) (List.replicate Gen.C16.nParams 0) = [a, b, c, d, e, f])
    (h1 : ∃ a b c d e f, lsq (fun p => calcResidual p origin (x :: xs) xyPlane) (List.replicate Gen.C16.nParams 0) = [a, b, c, d, e, f]) :
    align lsq origin [] xyPlane bs = .error .valueError ∧ align lsq origin (x :: xs) xyPlane [] = .error .indexError := by
  obtain ⟨a, b, c, d, e, f, hl0⟩ := h0
  obtain ⟨a', b', c', d', e', f', hl1⟩ := h1
  constructor
  · unfold align findTransformation
    rw [hl0, poseFromParams_six gen_params_split.1 gen_params_split.2.1]
    simp only [bind, Except.bind, alignWith, deFlip_no_x]
  · unfold align findTransformation
    rw [hl1, poseFromParams_six gen_params_split.1 gen_params_split.2.1]
    simp only [bind, Except.bind, alignWith, deFlip_no_bs gen_deflip.1]

/-- **distances are preserved**: between the positions of any two aligned base stations (indeed of any two points). -/
theorem align_preserves_distances (lsq : Lsq ℝ) (origin : Vec3 ℝ) (xAxis xyPlane : List (Vec3 ℝ))
    (bsPoses result : List (Nat × Pose ℝ)) (T : Pose ℝ)
    (h : align lsq origin xAxis xyPlane bsPoses = .ok (result, T)) (p q : Pose ℝ) :
    dist3 (T.rotateTranslatePose p).t (T.rotateTranslatePose q).t = dist3 p.t q.t := by
  have hp := (align_applies_one_rigid_map lsq origin xAxis xyPlane bsPoses result T h).1
  exact dist_preserved hp.1 p.t q.t

/-- **relative orientations are preserved**: `R_pᵀ R_q` is the same before and after, for any two base stations. -/
theorem align_preserves_relative_orientation (lsq : Lsq ℝ) (origin : Vec3 ℝ) (xAxis xyPlane : List (Vec3 ℝ))
    (bsPoses result : List (Nat × Pose ℝ)) (T : Pose ℝ)
    (h : align lsq origin xAxis xyPlane bsPoses = .ok (result, T)) (p q : Pose ℝ) :
    relOrientation (T.rotateTranslatePose p) (T.rotateTranslatePose q) = relOrientation p q := by
  have hp := (align_applies_one_rigid_map lsq origin xAxis xyPlane bsPoses result T h).1
  exact relOrientation_preserved hp.1 p q

/-! ## Several calls in flight do not interfere -/

/-- **align calls do not communicate.**  Put any number of `align` calls in flight (each with its own arguments), let ANY
optimiser strategy drive them, and interleave their residual evaluations by ANY schedule, next to ANY shared state.  Then
the shared state is unchanged, and every call whose optimiser is done returns exactly what `align` returns for its own
arguments when run alone — so every alignment theorem of this file holds for each of the overlapping calls. -/
theorem align_calls_do_not_interfere (o : Optimiser ℝ) (G : Type) (g : G) (fuel : Nat)
    (calls : List (Vec3 ℝ × List (Vec3 ℝ) × List (Vec3 ℝ) × List (Nat × Pose ℝ))) (schedule : List Nat) :
    let w0 : World ℝ o G := ⟨g, calls.map fun c => Flight.start o fuel c.1 c.2.1 c.2.2.1 c.2.2.2⟩
    (w0.run schedule).shared = g ∧ (w0.run schedule).flights.length = calls.length ∧
    ∀ (i : Nat) (c : Vec3 ℝ × List (Vec3 ℝ) × List (Vec3 ℝ) × List (Nat × Pose ℝ)), calls[i]? = some c →
      ∃ fl : Flight ℝ o, (w0.run schedule).flights[i]? = some fl ∧
        (fl.done = true → fl.result = align (o.lsq fuel) c.1 c.2.1 c.2.2.1 c.2.2.2) := by
  intro w0
  obtain ⟨hs, hl, hf⟩ := World.run_inv schedule w0
  refine ⟨hs, by rw [hl]; simp [w0], ?_⟩
  intro i c hc
  have h0 : w0.flights[i]? = some (Flight.start o fuel c.1 c.2.1 c.2.2.1 c.2.2.2) := by
    simp [w0, List.getElem?_map, hc]
  obtain ⟨fl, hfl, hfin, _⟩ := hf i _ h0
  exact ⟨fl, hfl, fun hd => by rw [Flight.result_of_done fl hd, hfin, Flight.finish_start]⟩

/-! ## Exactness, given a zero residual -/

/-- **residual_zero_iff_aligned.**  The residual handed to the optimiser is zero exactly when the transformation maps the
origin sample to (0,0,0), every x-axis sample to a point with y = z = 0 and every plane sample to a point with z = 0
(and computing it never raises). -/
theorem residual_zero_iff_aligned (T : Pose ℝ) (origin : Vec3 ℝ) (xAxis xyPlane : List (Vec3 ℝ)) :
    (∃ r, calcResidualOf T origin xAxis xyPlane = .ok r ∧ ∀ c ∈ r, c = 0) ↔ Aligned T origin xAxis xyPlane :=
  residual_zero_iff_aux gen_residual_slices.1 gen_residual_slices.2.1 gen_residual_slices.2.2 T origin xAxis xyPlane

/-- **deflip_correct.**  For EVERY raw transformation that is a proper rigid map, the de-flipped one is a proper rigid
map, sends the mean of the x-axis samples to X ≥ 0 and the first base station to Z ≥ 0; and if the raw one had zero
residual (`Aligned`), so has the de-flipped one. -/
theorem deflip_correct (raw : Pose ℝ) (hraw : raw.IsProperRigid) (origin x : Vec3 ℝ) (xs xyPlane : List (Vec3 ℝ)) (k : Nat)
    (b : Pose ℝ) (bs : List (Nat × Pose ℝ)) :
    ∃ T, deFlip raw (x :: xs) ((k, b) :: bs) = .ok T ∧ T.IsProperRigid ∧
      0 ≤ (T.rotateTranslate (meanVec (x :: xs))).x ∧ 0 ≤ (T.rotateTranslate b.t).z ∧
      (Aligned raw origin (x :: xs) xyPlane → Aligned T origin (x :: xs) xyPlane) :=
  ⟨_, deFlip_eq gen_deflip.1 gen_deflip.2.1 gen_deflip.2.2.1 gen_deflip.2.2.2 raw x xs k b bs,
    deFlipSpec_isProper hraw _ _, (deFlipSpec_signs raw _ _).1, (deFlipSpec_signs raw _ _).2,
    fun h => deFlipSpec_aligned h _ _⟩

/-- **align is exact when the optimiser converged.**  If the residual at the optimiser's answer is zero, the returned
transformation maps the origin sample to (0,0,0), x-axis samples to y = z = 0 with their mean at X ≥ 0, plane samples
to z = 0, and puts the first base station at Z ≥ 0. -/
theorem align_exact_of_zero_residual (lsq : Lsq ℝ) (origin : Vec3 ℝ) (xAxis xyPlane : List (Vec3 ℝ))
    (bsPoses result : List (Nat × Pose ℝ)) (T raw : Pose ℝ)
    (h : align lsq origin xAxis xyPlane bsPoses = .ok (result, T))
    (hraw : findTransformation lsq origin xAxis xyPlane = .ok raw)
    (hconv : ∃ r, calcResidualOf raw origin xAxis xyPlane = .ok r ∧ ∀ c ∈ r, c = 0) :
    Aligned T origin xAxis xyPlane ∧ 0 ≤ (T.rotateTranslate (meanVec xAxis)).x ∧
      ∀ kb ∈ bsPoses.head?, 0 ≤ (T.rotateTranslate kb.2.t).z := by
  obtain ⟨raw', x, xs', k, b, bs', hr, _, hxs, hbs, hT, _⟩ :=
    align_ok gen_deflip.1 gen_deflip.2.1 gen_deflip.2.2.1 gen_deflip.2.2.2 h
  rw [hraw] at hr
  injection hr with hr
  subst hr
  rw [hT]
  refine ⟨deFlipSpec_aligned ((residual_zero_iff_aligned raw origin xAxis xyPlane).1 hconv) _ _,
    (deFlipSpec_signs raw _ _).1, ?_⟩
  intro kb hkb
  rw [hbs] at hkb
  simp only [List.head?_cons, Option.mem_def, Option.some.injEq] at hkb
  subst hkb
  exact (deFlipSpec_signs raw _ _).2

/-- **approximate convergence is enough.**  If every component of the residual at the optimiser's answer is at most `ε`
in magnitude, so is every component of the residual of the transformation `align` returns (the de-flip only changes signs):
origin sample within `ε` of (0,0,0) per coordinate, x-axis samples within `ε` of the X axis, plane samples within `ε` of Z = 0. -/
theorem align_residual_bound (ε : ℝ) (lsq : Lsq ℝ) (origin : Vec3 ℝ) (xAxis xyPlane : List (Vec3 ℝ))
    (bsPoses result : List (Nat × Pose ℝ)) (T raw : Pose ℝ)
    (h : align lsq origin xAxis xyPlane bsPoses = .ok (result, T))
    (hraw : findTransformation lsq origin xAxis xyPlane = .ok raw)
    (hconv : ∃ r, calcResidualOf raw origin xAxis xyPlane = .ok r ∧ ∀ c ∈ r, |c| ≤ ε) :
    ∃ r, calcResidualOf T origin xAxis xyPlane = .ok r ∧ ∀ c ∈ r, |c| ≤ ε := by
  obtain ⟨raw', x, xs', k, b, bs', hr, _, _, _, hT, _⟩ :=
    align_ok gen_deflip.1 gen_deflip.2.1 gen_deflip.2.2.1 gen_deflip.2.2.2 h
  rw [hraw] at hr
  injection hr with hr
  subst hr
  rw [hT]
  exact deFlipSpec_residual_bound gen_residual_slices.1 gen_residual_slices.2.1 gen_residual_slices.2.2 ε raw origin
    xAxis xyPlane _ _ hconv

/-- **x-axis samples land on the positive X axis.**  If the x-axis samples were taken on one ray from the origin sample
(`origin + c·u`, `c > 0`), any rigid transformation with zero residual that puts their mean at X ≥ 0 — in particular the
one `align` returns after convergence — maps each of them to `(its distance from the origin sample, 0, 0)`. -/
theorem x_samples_on_positive_axis (T : Pose ℝ) (hT : T.IsProperRigid) (origin u : Vec3 ℝ) (cs : List ℝ) (hne : cs ≠ [])
    (hpos : ∀ c ∈ cs, 0 < c) (xyPlane : List (Vec3 ℝ))
    (hal : Aligned T origin (cs.map fun c => origin.add (u.smul c)) xyPlane)
    (hmean : 0 ≤ (T.rotateTranslate (meanVec (cs.map fun c => origin.add (u.smul c)))).x) :
    ∀ c ∈ cs, T.rotateTranslate (origin.add (u.smul c)) = ⟨dist3 origin (origin.add (u.smul c)), 0, 0⟩ :=
  x_samples_image hT.1 origin u cs hne hpos xyPlane hal hmean

/-- **the alignment is unique.**  Two proper rigid transformations with zero residual on the same samples, which both
put the mean of the x-axis samples on the non-negative X axis (one of them strictly) and a point `g` (the first base
station) at Z ≥ 0 (one of them strictly), are EQUAL — provided some plane sample is off the X axis. -/
theorem aligned_unique (T1 T2 : Pose ℝ) (hT1 : T1.IsProperRigid) (hT2 : T2.IsProperRigid) (origin : Vec3 ℝ)
    (xAxis xyPlane : List (Vec3 ℝ)) (hne : xAxis ≠ []) (hA1 : Aligned T1 origin xAxis xyPlane)
    (hA2 : Aligned T2 origin xAxis xyPlane)
    (hx1 : 0 < (T1.rotateTranslate (meanVec xAxis)).x) (hx2 : 0 ≤ (T2.rotateTranslate (meanVec xAxis)).x)
    (p : Vec3 ℝ) (hp : p ∈ xyPlane) (hp1 : (T1.rotateTranslate p).y ≠ 0)
    (g : Vec3 ℝ) (hg1 : 0 < (T1.rotateTranslate g).z) (hg2 : 0 ≤ (T2.rotateTranslate g).z) : T1 = T2 := by
  have m1 := mean_on_axis (xAxis.map T1.rotateTranslate)
    (by intro v hv; obtain ⟨x, hx, rfl⟩ := List.mem_map.mp hv; exact hA1.2.1 x hx)
  have m2 := mean_on_axis (xAxis.map T2.rotateTranslate)
    (by intro v hv; obtain ⟨x, hx, rfl⟩ := List.mem_map.mp hv; exact hA2.2.1 x hx)
  rw [← mean_image T1 xAxis hne] at m1
  rw [← mean_image T2 xAxis hne] at m2
  exact aligned_unique_aux hT1 hT2 hA1.1 hA2.1 m1 hx1 m2 hx2 (hA1.2.2 p hp) hp1 (hA2.2.2 p hp) hg1 hg2

/-- **after convergence `align` returns THE alignment** (so every base station gets its true pose, above the floor if it
truly is).  If the residual at the optimiser's answer is zero and there is a true alignment `Tstar` of the solved system —
a proper rigid map with zero residual that has all x-axis samples at X > 0, some plane sample off the X axis and the
first base station above the floor — then the transformation returned by `align` IS `Tstar`, whether or not the raw
answer was mirror-flipped. -/
theorem align_recovers_true_alignment (lsq : Lsq ℝ) (origin : Vec3 ℝ) (xAxis xyPlane : List (Vec3 ℝ))
    (bsPoses result : List (Nat × Pose ℝ)) (T raw Tstar : Pose ℝ)
    (h : align lsq origin xAxis xyPlane bsPoses = .ok (result, T))
    (hraw : findTransformation lsq origin xAxis xyPlane = .ok raw)
    (hconv : ∃ r, calcResidualOf raw origin xAxis xyPlane = .ok r ∧ ∀ c ∈ r, c = 0)
    (hTs : Tstar.IsProperRigid) (hAs : Aligned Tstar origin xAxis xyPlane)
    (hxs : ∀ x ∈ xAxis, 0 < (Tstar.rotateTranslate x).x)
    (hp : ∃ p ∈ xyPlane, (Tstar.rotateTranslate p).y ≠ 0)
    (hb : ∀ kb ∈ bsPoses.head?, 0 < (Tstar.rotateTranslate kb.2.t).z) :
    T = Tstar ∧ result = bsPoses.map (fun kv => (kv.1, Tstar.rotateTranslatePose kv.2)) := by
  obtain ⟨hTp, hres⟩ := align_applies_one_rigid_map lsq origin xAxis xyPlane bsPoses result T h
  obtain ⟨hTa, hTx, hTz⟩ := align_exact_of_zero_residual lsq origin xAxis xyPlane bsPoses result T raw h hraw hconv
  obtain ⟨_, x, xs', k, b, bs', _, _, hxs', hbs', _, _⟩ :=
    align_ok gen_deflip.1 gen_deflip.2.1 gen_deflip.2.2.1 gen_deflip.2.2.2 h
  have hne : xAxis ≠ [] := by rw [hxs']; simp
  obtain ⟨p, hpm, hpy⟩ := hp
  have hmean : 0 < (Tstar.rotateTranslate (meanVec xAxis)).x := by
    rw [mean_image Tstar xAxis hne]
    apply mean_x_pos _ (by simpa using hne)
    intro v hv; obtain ⟨x', hx', rfl⟩ := List.mem_map.mp hv; exact hxs x' hx'
  have hb' : (k, b) ∈ bsPoses.head? := by rw [hbs']; simp
  have e : Tstar = T := aligned_unique Tstar T hTs hTp origin xAxis xyPlane hne hAs hTa hmean hTx p hpm hpy b.t
    (hb _ hb') (hTz _ hb')
  exact ⟨e.symm, by rw [hres, e]⟩

/-! ## Scaling -/

/-- **scale_uniform.**  `_scale_system` returns, for every base station id (same ids, same order) and every Crazyflie pose,
the pose with the SAME rotation and the translation multiplied by the one factor; the factor is returned unchanged. -/
theorem scale_uniform (bsPoses : List (Nat × Pose ℝ)) (cfPoses : List (Pose ℝ)) (f : ℝ) :
    scaleSystem bsPoses cfPoses f =
      (bsPoses.map (fun kv => (kv.1, (⟨kv.2.R, kv.2.t.smul f⟩ : Pose ℝ))), cfPoses.map (fun p => ⟨p.R, p.t.smul f⟩), f) := rfl

/-- `scale_fixed_point` scales by `|expected| / |actual.translation|`, and that factor makes the reference distance exact:
the scaled reference position is at distance `|expected|` from the origin. -/
theorem scale_fixed_point_exact (bsPoses : List (Nat × Pose ℝ)) (cfPoses : List (Pose ℝ)) (expected : Vec3 ℝ) (actual : Pose ℝ)
    (hne : actual.t.norm ≠ 0) :
    scaleFixedPoint bsPoses cfPoses expected actual = scaleSystem bsPoses cfPoses (expected.norm / actual.t.norm) ∧
    (actual.scale (expected.norm / actual.t.norm)).t.norm = expected.norm :=
  ⟨rfl, reference_distance_exact expected actual.t hne⟩

/-- `scale_diagonals` scales by `expected / estimated mean diagonal`, and the mean sensor diagonal recomputed on the scaled
system (same samples) is exactly the expected one. -/
theorem scale_diagonals_exact (bsPoses : List (Nat × Pose ℝ)) (cfPoses : List (Pose ℝ))
    (samples : List (List (Nat × List (Vec3 ℝ)))) (expected est : ℝ)
    (hest : calculateMeanDiagonal bsPoses cfPoses samples = .ok est) (hpos : 0 < est) (hexp : 0 ≤ expected) :
    ∃ bs' cf', scaleDiagonals bsPoses cfPoses samples expected = .ok (bs', cf', expected / est) ∧
      (bs', cf', expected / est) = scaleSystem bsPoses cfPoses (expected / est) ∧
      calculateMeanDiagonal bs' cf' samples = .ok expected := by
  obtain ⟨bs', cf', h1, h2⟩ := scaleDiagonals_exact gen_intersection.1 bsPoses cfPoses samples expected est hest hpos hexp
  refine ⟨bs', cf', h1, ?_, h2⟩
  unfold scaleDiagonals at h1
  rw [hest] at h1
  injection h1 with h1
  exact h1.symm

/-- **intersection_on_plane_and_ray.**  `calc_intersection_point` never raises; its result is the point
`bs.t + s·(R_bs·cart)` of the base station's ray line with `s = dist_on_line`; when the ray is not parallel to the deck it
lies in the deck plane (through the Crazyflie position, normal = the deck's z axis), and it is the only such point. -/
theorem intersection_on_plane_and_ray (cart : Vec3 ℝ) (bs cf : Pose ℝ) :
    calcIntersectionPoint cart bs cf = .ok (bs.t.add ((bs.R.mulVec cart).smul (distOnLine cart bs cf))) ∧
    ((bs.R.mulVec cart).dot (deckNormalOf cf) ≠ 0 →
      ((bs.t.add ((bs.R.mulVec cart).smul (distOnLine cart bs cf))).sub cf.t).dot (deckNormalOf cf) = 0 ∧
      ∀ s, ((bs.t.add ((bs.R.mulVec cart).smul s)).sub cf.t).dot (deckNormalOf cf) = 0 → s = distOnLine cart bs cf) :=
  ⟨calcIntersectionPoint_eq gen_intersection.1 cart bs cf,
    fun h => ⟨intersection_on_plane cart bs cf h, fun s hs => intersection_unique cart bs cf h s hs⟩⟩

/-! ## Neither operation modifies its inputs -/

/-- **inputs_unmodified (scaler, object level).**  Run `_scale_system` on ANY heap of Pose objects and arrays, with any
sharing between them (the same Pose passed twice, two Poses sharing an array, …).  Then every array that existed before
is still there with the same content, every Pose object that existed before still refers to the same two arrays
(the old heap is a prefix of the new one: copy-then-REBIND never writes into existing storage), and every returned Pose
is a fresh object. -/
theorem scale_inputs_unmodified (h h' : Heap ℝ) (bs rb : List (Nat × Nat)) (cf rc : List Nat) (f : ℝ)
    (hs : scaleSystemH h bs cf f = .ok (h', rb, rc)) :
    Heap.Extends h h' ∧ (∀ q ∈ rb.map (·.2) ++ rc, h.objs.length ≤ q) ∧
    (∀ p pose, h.deref p = some pose → h'.deref p = some pose) := by
  obtain ⟨hf, _, _, _, hfresh, _, hval⟩ := scaleSystemH_spec hs
  refine ⟨prefix_of_frame hf, hfresh, ?_⟩
  intro p pose hd
  obtain ⟨o, ho, _, _⟩ := deref_some hd
  have hp : p < h.objs.length := by
    rcases Nat.lt_or_ge p h.objs.length with hlt | hge
    · exact hlt
    · rw [List.getElem?_eq_none_iff.mpr hge] at ho; exact absurd ho (by simp)
  exact hval p hp pose hd

/-- the object-level model refines the value-level one: the returned objects carry the ids of the input in order, and the
value of each returned Pose is the input Pose with the same rotation and the translation times the factor -/
theorem scale_heap_refines_value (h h' : Heap ℝ) (bs rb : List (Nat × Nat)) (cf rc : List Nat) (f : ℝ)
    (hs : scaleSystemH h bs cf f = .ok (h', rb, rc)) :
    rb.map (·.1) = bs.map (·.1) ∧ rb.length = bs.length ∧ rc.length = cf.length ∧
    ∀ pq ∈ (bs.map (·.2)).zip (rb.map (·.2)) ++ cf.zip rc, ∀ pose, h.deref pq.1 = some pose →
      h'.deref pq.2 = some (pose.scale f) := by
  obtain ⟨_, hk, hl1, hl2, _, hv, _⟩ := scaleSystemH_spec hs
  exact ⟨hk, hl1, hl2, hv⟩

/- `align`: at the value level the model is a pure function of its arguments; at the source level the aligner stores into
nothing but its fresh `result` dict and calls no mutating method on its arguments (`gen_aligner_pure`), and the Pose methods
it uses build new arrays (`gen_pose`), so there is nothing for a heap model to add.  search() checks it on the real objects. -/

/-- CONTRAST (not the code): had `Pose.scale` been the in-place `self._t_vec *= scale`, the shallow `copy.copy` would not
protect the caller — scaling the copy changes the value of the input Pose.  The heap model distinguishes the two. -/
theorem inplace_scale_would_modify_input :
    ∃ h1 q h2, (⟨[.mat Mat3.one, .vec ⟨1, 2, 3⟩], [⟨0, 1⟩]⟩ : Heap ℝ).copyPose 0 = .ok (h1, q) ∧
      h1.scalePoseInPlace q 2 = .ok h2 ∧ h2.deref 0 = some ⟨Mat3.one, ⟨1 * 2, 2 * 2, 3 * 2⟩⟩ :=
  ⟨_, _, _, rfl, rfl, rfl⟩

/-! ## Non-vacuity: concrete instances of the hypotheses -/

/-- the identity has zero residual on samples that are already aligned -/
example : Aligned (⟨Mat3.one, Vec3.zero⟩ : Pose ℝ) ⟨0, 0, 0⟩ [⟨1, 0, 0⟩] [⟨1, 1, 0⟩] := by
  refine ⟨?_, ?_, ?_⟩ <;> simp [Pose.rotateTranslate, Mat3.mulVec, Mat3.one, Vec3.add, Vec3.zero]
/-- a mirror-flipped raw answer (half turn about Z) also has zero residual: the de-flip is needed -/
example : Aligned flipZ ⟨0, 0, 0⟩ [⟨-1, 0, 0⟩] [⟨1, 1, 0⟩] := by
  refine ⟨?_, ?_, ?_⟩ <;> simp [flipZ, Pose.rotateTranslate, Mat3.mulVec, Vec3.add, Vec3.zero]
example : (⟨Mat3.one, Vec3.zero⟩ : Pose ℝ).IsProperRigid := Mat3.one_isProper
/-- an optimiser that answers six zeros makes `align` return -/
example : ∃ res T, align (fun _ _ => [0, 0, 0, 0, 0, 0]) (⟨0, 0, 0⟩ : Vec3 ℝ) [⟨1, 0, 0⟩] [⟨1, 1, 0⟩]
    [(7, ⟨Mat3.one, ⟨0, 0, 1⟩⟩)] = .ok (res, T) :=
  align_returns _ _ _ _ _ _ _ _ ⟨0, 0, 0, 0, 0, 0, rfl⟩
example : (⟨3, 4, 0⟩ : Vec3 ℝ).norm ≠ 0 := by
  have h : (⟨3, 4, 0⟩ : Vec3 ℝ).norm = 5 := by
    show Real.sqrt (3 * 3 + 4 * 4 + 0 * 0) = 5
    rw [show (3 : ℝ) * 3 + 4 * 4 + 0 * 0 = 5 * 5 by norm_num]
    exact Real.sqrt_mul_self (by norm_num)
  rw [h]; norm_num
/-- a ray straight down from 2 m onto a level deck is not parallel to it -/
example : ((⟨Mat3.one, ⟨0, 0, 2⟩⟩ : Pose ℝ).R.mulVec ⟨0, 0, -1⟩).dot (deckNormalOf ⟨Mat3.one, Vec3.zero⟩) ≠ 0 := by
  simp [Mat3.mulVec, Mat3.one, Vec3.dot, deckNormalOf]

/-- two Crazyflie entries that are the SAME Pose object, which also shares its translation array with a base station:
`_scale_system` returns three fresh objects with three fresh translation arrays and the old heap is untouched -/
example : scaleSystemH (⟨[.mat Mat3.one, .vec ⟨1, 2, 3⟩], [⟨0, 1⟩, ⟨0, 1⟩]⟩ : Heap ℝ) [(7, 0)] [1, 1] 2 =
    .ok (⟨[.mat Mat3.one, .vec ⟨1, 2, 3⟩, .vec ⟨1 * 2, 2 * 2, 3 * 2⟩, .vec ⟨1 * 2, 2 * 2, 3 * 2⟩, .vec ⟨1 * 2, 2 * 2, 3 * 2⟩],
      [⟨0, 1⟩, ⟨0, 1⟩, ⟨0, 2⟩, ⟨0, 3⟩, ⟨0, 4⟩]⟩, [(7, 2)], [3, 4]) := rfl

end CfVerif.C16

/-
Props/C17 — property theorems for C17 (flight helpers always end on the ground command and track motion).
Helper lemmas are in Proofs/C17*.  Every theorem here is about Model/C17, whose constants, direction tables, height
formula, distance expressions and try/finally flags are regenerated from /repo (Gen/C17).

Reading guide.  `machine st` is the two-thread machine (commanding thread, set-point thread, clock);
`run (machine st) c sch = some c'` says that the interleaving `sch : List Nat` is executable from `c` and leads to `c'`
- so "for all sch c'" is "for every interleaving".  `initWith body` is `with MotionCommander(cf, default_height) as mc:
body`, where `body : List Prim` may contain `Prim.raise` at any position (an exception raised by the body).
`c.code = []` says that the commanding thread has left the `with` statement (normally or with `c.exc`).
Traces are newest first.
-/
import CfVerif.Proofs.C17Period
import CfVerif.Proofs.C17Motion
import CfVerif.Proofs.C17HL
import CfVerif.Proofs.C17Wire
namespace CfVerif.C17
open CfVerif CfVerif.Sched

/-! ## Gen obligations: what the hand-written model assumes about the current source -/

/-- the cleanup of `land` runs in a `finally`, and `take_off` lands when its ascent raises (the D15 repair) -/
theorem gen_mc_protected : Gen.C17.mcLandFinally = true ∧ Gen.C17.mcTakeoffGuarded = true := by decide
theorem gen_mc_land : Gen.C17.mcLandGuard = "self._is_flying" ∧
    Gen.C17.mcLandDescent = ["self.down(self._thread.get_height(), velocity)"] ∧
    Gen.C17.mcLandCleanup = ["self._thread.stop()", "self._thread = None", "self._cf.commander.send_stop_setpoint()",
      "self._cf.commander.send_notify_setpoint_stop()", "self._is_flying = False"] := by decide
theorem gen_mc_takeoff : Gen.C17.mcTakeoffPre =
      ["if self._is_flying:\n    raise Exception('Already flying')",
       "if not self._cf.is_connected():\n    raise Exception('Crazyflie is not connected')",
       "self._is_flying = True", "self._reset_position_estimator()", "self._thread = _SetPointThread(self._cf)",
       "self._thread.start()", "if height is None:\n    height = self.default_height"] ∧
    Gen.C17.mcTakeoffTry = ["self.up(height, velocity)"] ∧
    Gen.C17.mcTakeoffHandler = ["except Exception", "self.land()", "raise"] := by decide
theorem gen_mc_context : Gen.C17.mcEnter = ["self.take_off()", "return self"] ∧ Gen.C17.mcExit = ["self.land()"] := by decide
theorem gen_mc_reset : Gen.C17.mcResetShape = ["self._cf.param.set_value", "time.sleep", "self._cf.param.set_value", "time.sleep"] ∧
    Gen.C17.mcResetParams = ["'kalman.resetEstimation'='1'", "'kalman.resetEstimation'='0'"] := by decide
theorem gen_mc_defaults : Gen.C17.mcVelocityDefaults = ["VELOCITY"] ∧ Gen.C17.mcRateDefaults = ["RATE"] ∧
    Gen.C17.startLinearYawDefault = "0.0" ∧ Gen.C17.threadPeriodDefault = "UPDATE_PERIOD" := by decide
theorem gen_mc_set_vel : Gen.C17.mcSetVel =
      ["if not self._is_flying:\n    raise Exception('Can not move on the ground. Take off first!')",
       "self._thread.set_vel_setpoint(velocity_x, velocity_y, velocity_z, rate_yaw)"] ∧
    Gen.C17.startLinearArgs = ["velocity_x_m", "velocity_y_m", "velocity_z_m", "rate_yaw"] := by decide
theorem gen_mc_move : Gen.C17.mcMoveBody =
      ["flight_time = distance / velocity", "velocity_x = velocity * distance_x_m / distance",
       "velocity_y = velocity * distance_y_m / distance", "velocity_z = velocity * distance_z_m / distance",
       "self.start_linear_motion(velocity_x, velocity_y, velocity_z)", "time.sleep(flight_time)", "self.stop()"] := by decide
theorem gen_mc_turn : Gen.C17.mcTurn_left = ["flight_time = angle_degrees / rate", "self.start_turn_left(rate)", "time.sleep(flight_time)", "self.stop()"] ∧
    Gen.C17.mcTurn_right = ["flight_time = angle_degrees / rate", "self.start_turn_right(rate)", "time.sleep(flight_time)", "self.stop()"] := by decide
theorem gen_mc_circle : Gen.C17.mcCircle_left = ["flight_time = distance / velocity", "self.start_circle_left(radius_m, velocity)", "time.sleep(flight_time)", "self.stop()"] ∧
    Gen.C17.mcCircle_right = ["flight_time = distance / velocity", "self.start_circle_right(radius_m, velocity)", "time.sleep(flight_time)", "self.stop()"] := by decide
/-- the set-point thread: loop shape, the hover list `[vx, vy, yawrate, z]`, height index 3, the unsynchronised height read -/
theorem gen_thread : Gen.C17.spRunTry = ["event = self._queue.get(block=True, timeout=self.update_period)",
        "if event == self.TERMINATE_EVENT:\n    return", "self._new_setpoint(*event)"] ∧
    Gen.C17.spRunHandler = "Empty: pass" ∧
    Gen.C17.spRunTail = ["self._update_z_in_setpoint()", "self._cf.commander.send_hover_setpoint(*self._hover_setpoint)"] ∧
    Gen.C17.spNewSetpoint = ["self._z_base = self._current_z()", "self._z_velocity = velocity_z", "self._z_base_time = time.time()",
        "self._hover_setpoint = [velocity_x, velocity_y, rate_yaw, self._z_base]"] ∧
    Gen.C17.spUpdateZ = ["self._hover_setpoint[self.ABS_Z_INDEX] = self._current_z()"] ∧
    Gen.C17.spGetHeight = ["return self._hover_setpoint[self.ABS_Z_INDEX]"] ∧ Gen.C17.ABS_Z_INDEX = 3 ∧
    Gen.C17.spStop = ["self._queue.put(self.TERMINATE_EVENT)", "self.join()"] ∧
    Gen.C17.spSetVel = ["self._queue.put((velocity_x, velocity_y, velocity_z, rate_yaw))"] ∧
    Gen.C17.threadInit = ["self.update_period = update_period", "self._queue = Queue()", "self._cf = cf",
        "self._hover_setpoint = [0.0, 0.0, 0.0, 0.0]", "self._z_base = 0.0", "self._z_velocity = 0.0", "self._z_base_time = 0.0"] := by decide
/-- `_new_setpoint` consists of four unconditional top-level assignments (no branch, loop, try or early return anywhere in it):
base height, vertical velocity and base time are re-based for EVERY set-point, whether or not its vertical velocity changed -/
theorem gen_new_setpoint : Gen.C17.spNewSetpointTargets = ["self._z_base", "self._z_velocity", "self._z_base_time", "self._hover_setpoint"] ∧
    Gen.C17.spNewSetpointBranches = 0 := by decide
/-- **Per-object state.**  The theorems below are about ONE commander; they apply to every commander of a process (several
Crazyflies commanded alternately, consecutive sessions) because nothing mutable is shared between the objects: no class-level
list / dict / set / object in `MotionCommander`, `_SetPointThread`, `PositionHlCommander`; `_hover_setpoint` is only ever bound to a
FRESH list literal (in `__init__` and for every new set-point), and the only element write goes to that list's height slot. -/
theorem gen_no_shared_state : Gen.C17.mcClassMutables = [] ∧ Gen.C17.hlClassMutables = [] ∧
    Gen.C17.spHoverRebinds = ["self._hover_setpoint = List", "self._hover_setpoint = List"] ∧
    Gen.C17.spHoverElementWrites = ["self._hover_setpoint[self.ABS_Z_INDEX]"] := by decide
theorem gen_period_pos : 0 < Gen.C17.UPDATE_PERIOD := by decide +kernel
/-- the directions are the documented ones: x forward, y left, z up -/
theorem gen_axes (d : Q) :
    goVec .left d = (0, d, 0) ∧ goVec .right d = (0, -d, 0) ∧ goVec .forward d = (d, 0, 0) ∧ goVec .back d = (-d, 0, 0) ∧
    goVec .up d = (0, 0, d) ∧ goVec .down d = (0, 0, -d) ∧
    startVec .left d = (0, d, 0) ∧ startVec .right d = (0, -d, 0) ∧ startVec .forward d = (d, 0, 0) ∧ startVec .back d = (-d, 0, 0) ∧
    startVec .up d = (0, 0, d) ∧ startVec .down d = (0, 0, -d) ∧
    hlGoVec .left d = (0, d, 0) ∧ hlGoVec .right d = (0, -d, 0) ∧ hlGoVec .forward d = (d, 0, 0) ∧ hlGoVec .back d = (-d, 0, 0) ∧
    hlGoVec .up d = (0, 0, d) ∧ hlGoVec .down d = (0, 0, -d) := by
  refine ⟨rfl, rfl, rfl, rfl, rfl, rfl, rfl, rfl, rfl, rfl, rfl, rfl, rfl, rfl, rfl, rfl, rfl, rfl⟩
theorem gen_setpoints (r v : Q) : stopSP = ⟨0, 0, 0, 0⟩ ∧ startTurnSP .left r = ⟨0, 0, 0, r⟩ ∧ startTurnSP .right r = ⟨0, 0, 0, -r⟩ ∧
    startCircleSP .left v r = ⟨v, 0, 0, r⟩ ∧ startCircleSP .right v r = ⟨v, 0, 0, -r⟩ := ⟨rfl, rfl, rfl, rfl, rfl⟩
theorem gen_formulas (a b c d pi : Q) (s : Side) :
    Gen.C17.spCurrentZ a b c d = a + b * (d - c) ∧ Gen.C17.mcMoveNorm2 a b c = a * a + b * b + c * c ∧
    circumference s a pi = 2 * a * pi ∧ circleRateNum s a = 360 * a ∧ circleDistance s a pi b = 2 * a * pi * b / 360 ∧
    Gen.C17.hlNorm2 a b c = a * a + b * b + c * c := by
  cases s <;> exact ⟨rfl, rfl, rfl, rfl, rfl, rfl⟩
/-- PositionHlCommander: the stop in `land` runs in a `finally` (the D14 repair); context manager; go_to / take_off shape -/
theorem gen_hl_protected : Gen.C17.hlLandFinally = true := by decide
theorem gen_hl_land : Gen.C17.hlLandGuard = "self._is_flying" ∧
    Gen.C17.hlLandCleanup = ["self._hl_commander.stop()", "self._is_flying = False"] ∧
    Gen.C17.hlLandDescent.length = 5 ∧ Gen.C17.hlLandDescent[0]! = "landing_height = self._landing_height(landing_height)" ∧
    Gen.C17.hlLandDescent.drop 2 = ["self._hl_commander.land(landing_height, duration_s)", "time.sleep(duration_s)", "self._z = landing_height"] := by decide
theorem gen_hl_context : Gen.C17.hlEnter = ["self.take_off()", "return self"] ∧ Gen.C17.hlExit = ["self.land()"] := by decide
theorem gen_hl_goto : Gen.C17.hlGoTo = ["z = self._height(z)", "dx = x - self._x", "dy = y - self._y", "dz = z - self._z",
      "distance = math.sqrt(dx * dx + dy * dy + dz * dz)",
      "if distance > 0.0:\n    duration_s = distance / self._velocity(velocity)\n    self._hl_commander.go_to(x, y, z, 0, duration_s)\n    time.sleep(duration_s)\n    self._x = x\n    self._y = y\n    self._z = z"] ∧
    Gen.C17.hlMoveCall = ["self.go_to(x, y, z, velocity)"] := by decide +kernel
theorem gen_hl_takeoff : Gen.C17.hlTakeoff = ["if self._is_flying:\n    raise Exception('Already flying')",
      "if not self._cf.is_connected():\n    raise Exception('Crazyflie is not connected')", "now = time.time()",
      "hold_back = self._init_time + 1.0 - now", "if hold_back > 0.0:\n    time.sleep(hold_back)", "self._is_flying = True",
      "height = self._height(height)", "duration_s = height / self._velocity(velocity)",
      "self._hl_commander.takeoff(height, duration_s)", "time.sleep(duration_s)", "self._z = height"] := by decide
theorem gen_hl_defaults : Gen.C17.hlVelocity = ["if velocity is self.DEFAULT:\n    return self._default_velocity", "return velocity"] ∧
    Gen.C17.hlHeight = ["if height is self.DEFAULT:\n    return self._default_height", "return height"] ∧
    Gen.C17.hlLandingHeight = ["if landing_height is self.DEFAULT:\n    return self._default_landing_height", "return landing_height"] ∧
    Gen.C17.hlSetDefaultVelocity = ["self._default_velocity = velocity"] ∧ Gen.C17.hlSetDefaultHeight = ["self._default_height = height"] ∧
    Gen.C17.hlSetLandingHeight = ["self._default_landing_height = landing_height"] ∧
    Gen.C17.hlGetPosition = ["return (self._x, self._y, self._z)"] := by decide

/-- the Commander / HighLevelCommander API as the helpers call it: parameter order of the hover set-point, defaults of the rest
(`mcCall` / `hlCall` in Proofs/C17Wire translate trace entries into C08 calls under exactly these conventions) -/
theorem gen_api : Gen.C17.apiHover = ["vx", "vy", "yawrate", "zdistance"] ∧ Gen.C17.apiStop = [] ∧
    Gen.C17.apiNotify = ["remain_valid_milliseconds=0"] ∧
    Gen.C17.apiTakeoff = ["absolute_height_m", "duration_s", "group_mask=ALL_GROUPS", "yaw=0.0"] ∧
    Gen.C17.apiLand = ["absolute_height_m", "duration_s", "group_mask=ALL_GROUPS", "yaw=0.0"] ∧
    Gen.C17.apiGoTo = ["x", "y", "z", "yaw", "duration_s", "relative=False", "linear=False", "group_mask=ALL_GROUPS"] ∧
    Gen.C17.apiHlStop = ["group_mask=ALL_GROUPS"] ∧ Gen.C17.apiAllGroups = 0 := by decide

/-- the model of the current source is the protected one -/
theorem ofGen_fixed (sqrt : Q → Q) (pi dh : Q) (conn : Bool) : Fixed (Static.ofGen sqrt pi dh conn) := gen_mc_protected

/-! ## MotionCommander: always ends on the ground command -/

/-- **mc_ends_stopped.**  For every body (any primitives, any arguments, an exception raised at any position), every
default height, connected or not, and EVERY interleaving of the set-point thread with the commanding thread:
once the commanding thread has left the `with` statement - normally or through an exception, also one raised by
`take_off` inside `__enter__` or by `land` inside `__exit__` - the set-point thread has terminated, the commander trace is
empty (nothing was ever sent) or ends `..., stop, notify_setpoint_stop` (so no hover set-point follows the stop),
and nothing can happen any more (no set-point is streamed afterwards). -/
theorem mc_ends_stopped (st : Static) (hfix : Fixed st) (body : List Prim) (sch : List Nat) (c : Cfg)
    (hrun : run (machine st) (initWith body) sch = some c) (hleft : c.code = []) :
    c.thr.alive = false ∧
    (c.trace = [] ∨ ∃ t t' rest, c.trace = (t', Cmd.notify) :: (t, Cmd.stop) :: rest) ∧
    Stuck (machine st) c := by
  have inv := inv_run st hfix body sch c hrun
  obtain ⟨hd, he⟩ := finished_of_inv c inv hleft
  exact ⟨hd, he, quiescent st c hleft hd⟩

/-- the same for the model instantiated from the current source (any `math.sqrt`, any `math.pi`) -/
theorem mc_ends_stopped_current (sqrt : Q → Q) (pi dh : Q) (conn : Bool) (body : List Prim) (sch : List Nat) (c : Cfg)
    (hrun : run (machine (Static.ofGen sqrt pi dh conn)) (initWith body) sch = some c) (hleft : c.code = []) :
    c.thr.alive = false ∧ (c.trace = [] ∨ ∃ t t' rest, c.trace = (t', Cmd.notify) :: (t, Cmd.stop) :: rest) ∧
    Stuck (machine (Static.ofGen sqrt pi dh conn)) c :=
  mc_ends_stopped _ (ofGen_fixed sqrt pi dh conn) body sch c hrun hleft

/-- while it is running the commanding thread can never be stuck for good: whenever it has not left, some step
(its own, the set-point thread's, or the passage of time) is possible -/
theorem mc_no_deadlock (st : Static) (c : Cfg) (hc : c.code ≠ []) : ¬ Stuck (machine st) c :=
  no_deadlock_aux st c hc

/-- **The unrepaired code violates the clause (D15).**  Model with `land` / `take_off` unprotected, `default_height = 0`:
`take_off` divides by zero inside `__enter__` after the set-point thread was started; the commanding thread leaves
with ZeroDivisionError while the thread is still alive (and nothing was sent to stop it). -/
def unrepaired (defaultHeight : Q) : Static :=
  { sqrt := fun x => if x = 1 / 4 then 1 / 2 else 0, pi := 3, period := Gen.C17.UPDATE_PERIOD, defaultHeight, connected := true,
    landFinally := false, takeoffGuarded := false }

theorem mc_unrepaired_counterexample_takeoff :
    (run (machine (unrepaired 0)) (initWith []) [0, 0, 0, 2, 0, 0, 2, 0, 0, 0]).map (fun c => (c.code, c.exc, c.thr.alive, c.trace))
      = some ([], some .zeroDiv, true, []) := by decide +kernel

/-- **D15, second witness**: take off to 0.5 m, `down(0.5, 0.25)`, leave the context: the height is exactly 0, `land`
divides by zero before the set-point thread is stopped; the last commander call is a hover set-point, not stop. -/
theorem mc_unrepaired_counterexample_land :
    (run (machine (unrepaired (1 / 2))) (initWith [.go .down (1 / 2) (some (1 / 4))])
      [0, 0, 0, 2, 0, 0, 2, 0, 0, 0, 0, 1, 2, 1, 2, 1, 2, 1, 2, 1, 2, 1, 2, 1, 2, 1, 2, 1, 2, 1, 2, 1, 2, 1, 2, 1, 2, 0, 0, 1,
       0, 0, 0, 1, 2, 1, 2, 1, 2, 1, 2, 1, 2, 1, 2, 1, 2, 1, 2, 1, 2, 1, 2, 1, 0, 0, 1, 0, 0, 0, 0]).map
      (fun c => (c.code, c.exc, c.thr.alive, c.trace.head?))
      = some ([], some .zeroDiv, true, some (33 / 5, Cmd.hover 0 0 0 0)) := by decide +kernel

/-! ## MotionCommander: hover set-points are streamed at least every update period -/

/-- **hover_stream_period.**  `GapOK p trace` says: every commander call that directly follows a hover set-point (the next
hover set-point, or the final stop) comes at most `p` later; `gapHead p t trace` says: if the last call so far is a hover
set-point, `t` is at most `p` after it.  For every body, every interleaving and every reachable configuration (not only
final ones): the trace so far satisfies `GapOK period`, and while the set-point thread is alive the clock has not passed
the thread's deadline, which is at most one period after the last hover set-point (and after the thread's start) - so
time cannot advance more than one period beyond the last hover set-point without a new one being sent. -/
theorem hover_stream_period (st : Static) (hfix : Fixed st) (hp : 0 ≤ st.period) (body : List Prim) (sch : List Nat) (c : Cfg)
    (hrun : run (machine st) (initWith body) sch = some c) :
    GapOK st.period c.trace ∧
    (c.thr.alive = true → c.now ≤ c.thr.deadline ∧ gapHead st.period c.thr.deadline c.trace) := by
  obtain ⟨_, pi⟩ := pinv_run st hfix hp body sch c hrun
  exact ⟨pi.gaps, pi.dl⟩

theorem hover_stream_period_current (sqrt : Q → Q) (pi dh : Q) (conn : Bool) (body : List Prim) (sch : List Nat) (c : Cfg)
    (hrun : run (machine (Static.ofGen sqrt pi dh conn)) (initWith body) sch = some c) :
    GapOK Gen.C17.UPDATE_PERIOD c.trace ∧
    (c.thr.alive = true → c.now ≤ c.thr.deadline ∧ gapHead Gen.C17.UPDATE_PERIOD c.thr.deadline c.trace) :=
  hover_stream_period _ (ofGen_fixed sqrt pi dh conn) (le_of_lt gen_period_pos) body sch c hrun

/-- what the two predicates say on a concrete trace (newest first): 0.2 s after a hover set-point is fine, 0.3 s is not -/
example : GapOK (1 / 5) [(12 / 5, Cmd.stop), (11 / 5, Cmd.hover 0 0 0 1), (2, Cmd.hover 0 0 0 1)] ∧
    ¬ GapOK (1 / 5) [(23 / 10, Cmd.hover 0 0 0 1), (2, Cmd.hover 0 0 0 1)] := by
  simp only [GapOK, gapHead]
  refine ⟨⟨by decide +kernel, by decide +kernel, trivial, trivial⟩, fun h => absurd h.1 (by decide +kernel)⟩

/-! ## MotionCommander: the height integrates the commanded vertical velocity -/

/-- **height_integrates.**  Write `H c = curZ c.thr c.now` for the thread's height (`z_base + v_z (now - t_base)`) and
`V c = cmdVz ..` for the vertical velocity commanded last (newest queued set-point, else the one in force).  In every step
of every interleaving:
 * clock: the queue is empty, and `H` grows by `V x elapsed time`;
 * set-point thread: `H` and `V` do not change, and a hover set-point it sends carries exactly `H` (and the set-point in force);
 * commanding thread: no time passes and `H` does not change; queueing a set-point sets `V` to its vertical component;
   starting a thread resets it (height 0, velocity 0).
So the streamed height is the integral over time of the commanded vertical velocity. -/
theorem height_integrates (st : Static) (c c' : Cfg) :
    (stepClock c = some c' → c.thr.alive = true →
        c.thr.queue = [] ∧ curZ c'.thr c'.now = curZ c.thr c.now + cmdVz c.thr.queue c.thr.zVel * (c'.now - c.now)) ∧
    (stepThr st c = some c' →
        c'.now = c.now ∧ curZ c'.thr c'.now = curZ c.thr c.now ∧ cmdVz c'.thr.queue c'.thr.zVel = cmdVz c.thr.queue c.thr.zVel ∧
        (c'.trace = c.trace ∨
         c'.trace = (c.now, Cmd.hover c'.thr.hvx c'.thr.hvy c'.thr.hyaw (curZ c'.thr c'.now)) :: c.trace ∧ c'.thr.hz = curZ c'.thr c'.now)) ∧
    (stepMain st c = some c' →
        c'.now = c.now ∧
        ((∃ rest, c.code = .startThread :: rest ∧ c'.thr = Thr.fresh true (c.now + st.period)) ∨
         (curZ c'.thr c'.now = curZ c.thr c.now ∧
          ((∃ s rest, c.code = .setVel s :: rest ∧ c.flying = true ∧ cmdVz c'.thr.queue c'.thr.zVel = s.vz) ∨
           cmdVz c'.thr.queue c'.thr.zVel = cmdVz c.thr.queue c.thr.zVel)))) :=
  ⟨fun h ha => let r := height_clock c c' h ha; ⟨r.1, r.2.2⟩, height_thr st c c', height_main st c c'⟩

/-- **setpoint_rebases_unconditionally.**  `height_integrates` holds for ARBITRARY consecutive set-points because the thread
re-bases on every one of them: whatever the set-point `s` taken from the queue - in particular when `s.vz` EQUALS the vertical
velocity already in force (repeated `start_up`, `start_linear_motion` with the same `vz`, no `stop` in between) - the new base
height is the current height, the new velocity is `s.vz`, the new base time is now, the hover set-point sent carries the current
height, and from then on the height is (height now) + `s.vz` x (time since): nothing climbed so far is dropped. -/
theorem setpoint_rebases_unconditionally (st : Static) (c c' : Cfg) (s : SP) (q : List Ev) (ha : c.thr.alive = true)
    (hq : c.thr.queue = .sp s :: q) (h : stepThr st c = some c') :
    c'.thr.zBase = curZ c.thr c.now ∧ c'.thr.zVel = s.vz ∧ c'.thr.zT = c.now ∧ c'.thr.hz = curZ c.thr c.now ∧
    ∀ t, curZ c'.thr t = curZ c.thr c.now + s.vz * (t - c.now) :=
  new_setpoint_rebases st c c' s q ha hq h

/-- non-vacuity, equal vertical velocities: climbing at 1/4 m/s since t = 0 from height 0, a second set-point with the SAME
vz = 1/4 taken at t = 2 re-bases at height 1/2 (not 0), and 1 s later the height is 3/4 -/
example : (stepThr (unrepaired 0)
      { Cfg.start [] with now := 2, thr := { Thr.fresh true 2 with queue := [.sp ⟨1 / 8, 0, 1 / 4, 0⟩], zVel := 1 / 4 } }).map
      (fun c => ([c.thr.zBase, c.thr.zVel, c.thr.zT, curZ c.thr 3], c.trace))
    = some ([1 / 2, 1 / 4, 2, 3 / 4], [(2, Cmd.hover (1 / 8) 0 0 (1 / 2))]) := by decide +kernel

/-! ## MotionCommander: each blocking primitive commands velocity x duration = requested displacement -/

/-- **primitive_displacement.**  `move_distance(dx, dy, dz, v)` with `v ≠ 0` and non-zero distance commands one set-point
`s`, sleeps `T`, then commands the zero set-point; `s x T` is exactly `(dx, dy, dz)` with no yaw, `s` is `k (dx, dy, dz)`
with `k = v / distance`, and `k, T > 0` when `v` and the distance are positive (the requested direction). -/
theorem primitive_displacement (st : Static) (dx dy dz v : Q) (hv : v ≠ 0)
    (hd : st.sqrt (Gen.C17.mcMoveNorm2 dx dy dz) ≠ 0) :
    ∃ (s : SP) (T k : Q), moveInstrs st dx dy dz v = .ok [.setVel s, .sleep T, .setVel ⟨0, 0, 0, 0⟩] ∧
      s.vx * T = dx ∧ s.vy * T = dy ∧ s.vz * T = dz ∧ s.yaw = 0 ∧
      s.vx = k * dx ∧ s.vy = k * dy ∧ s.vz = k * dz ∧ k * T = 1 ∧
      (0 < v → 0 < st.sqrt (Gen.C17.mcMoveNorm2 dx dy dz) → 0 < k ∧ 0 < T) := by
  refine ⟨_, _, v / st.sqrt (Gen.C17.mcMoveNorm2 dx dy dz), moveInstrs_ok st dx dy dz v hv hd,
    scaled_product v dx _ hv hd, scaled_product v dy _ hv hd, scaled_product v dz _ hv hd, rfl,
    scaled_direction v dx _, scaled_direction v dy _, scaled_direction v dz _, ?_, ?_⟩
  · field_simp
  · intro h1 h2; exact ⟨div_pos h1 h2, div_pos h2 h1⟩

/-- **sleep_is_exact.**  The duration a blocking primitive sleeps IS the time that elapses between its two set-points: in
every reachable configuration (any program, any interleaving) in which the commanding thread is sleeping `d ≥ 0`, the
clock has not passed `tMain + d` (`tMain` = the instant of its previous instruction, i.e. of the motion set-point's
`queue.put`), and the sleep can only complete once `tMain + d ≤ now` - so it completes exactly at `tMain + d`. -/
theorem sleep_is_exact (st : Static) (code : List Instr) (sch : List Nat) (c : Cfg) (d : Q) (rest : List Instr)
    (hrun : run (machine st) (Cfg.start code) sch = some c) (hc : c.code = .sleep d :: rest) (hd : 0 ≤ d) :
    c.now ≤ c.tMain + d ∧ (∀ c', stepMain st c = some c' → c'.now = c.tMain + d ∧ c'.code = rest) := by
  have h1 := sleepOK_run st code sch c hrun d rest hc hd
  refine ⟨h1, ?_⟩
  intro c' h
  simp only [stepMain, hc] at h
  split at h
  · rename_i hneg; exact absurd hd (not_le.mpr hneg)
  · split at h
    · rename_i hle
      cases h
      exact ⟨le_antisymm h1 hle, rfl⟩
    · cases h

/-- **blocking_primitive_tracks.**  End to end, for every interleaving: let `c` be the configuration right after a blocking
primitive queued its motion set-point (the commanding thread is about to sleep `T ≥ 0`; by `height_integrates` the commanded
vertical velocity `cmdVz ..` is that set-point's `vz`).  However the set-point thread's iterations and the clock interleave
while the commanding thread sleeps, when the sleep returns exactly `T` has elapsed and the streamed height has changed by exactly
`vz x T` - by `primitive_displacement` the requested vertical displacement. -/
theorem blocking_primitive_tracks (st : Static) (c : Cfg) (T : Q) (rest : List Instr) (hc : c.code = .sleep T :: rest) (hT : 0 ≤ T)
    (htm : c.tMain = c.now) (ha : c.thr.alive = true) (hq : Ev.term ∉ c.thr.queue)
    (sch : List Nat) (hsch : ∀ t ∈ sch, t = 1 ∨ t = 2) (c' c'' : Cfg)
    (hrun : run (machine st) c sch = some c') (hwake : stepMain st c' = some c'') :
    c''.code = rest ∧ c''.now = c.now + T ∧
    curZ c''.thr c''.now = curZ c.thr c.now + cmdVz c.thr.queue c.thr.zVel * T :=
  sleep_segment st c T rest hc hT htm ha hq sch hsch c' c'' hrun hwake

/-- the directional primitives are `move_distance` along the documented axis, with the default velocity when omitted;
with zero velocity or zero distance the primitive raises ZeroDivisionError before commanding anything -/
theorem go_is_move (st : Static) (fl : Bool) (dir : Dir) (d : Q) (v : Option Q) :
    expand st fl (.go dir d v) = moveInstrs st (goVec dir d).1 (goVec dir d).2.1 (goVec dir d).2.2 (v.getD Gen.C17.VELOCITY) ∧
    moveInstrs st (goVec dir d).1 (goVec dir d).2.1 (goVec dir d).2.2 0 = .error .zeroDiv ∧
    (st.sqrt (Gen.C17.mcMoveNorm2 (goVec dir d).1 (goVec dir d).2.1 (goVec dir d).2.2) = 0 →
      ∀ w, moveInstrs st (goVec dir d).1 (goVec dir d).2.1 (goVec dir d).2.2 w = .error .zeroDiv) :=
  ⟨rfl, moveInstrs_zero_velocity _ _ _ _, fun h w => moveInstrs_zero_distance _ _ _ _ w h⟩

/-- `turn_left / turn_right(angle, rate)`: yaw rate x duration = the requested angle, to the requested side, no translation -/
theorem turn_displacement (s : Side) (a r : Q) (hr : r ≠ 0) :
    ∃ (sp : SP) (T : Q), turnInstrs s a r = .ok [.setVel sp, .sleep T, .setVel ⟨0, 0, 0, 0⟩] ∧
      sp.vx = 0 ∧ sp.vy = 0 ∧ sp.vz = 0 ∧ sp.yaw * T = (match s with | .left => a | .right => -a) := by
  refine ⟨_, _, turnInstrs_ok s a r hr, ?_⟩
  cases s
  · refine ⟨rfl, rfl, rfl, ?_⟩
    show r * (a / r) = a
    field_simp
  · refine ⟨rfl, rfl, rfl, ?_⟩
    show -r * (a / r) = -a
    field_simp

/-- `circle_left / circle_right(radius, velocity, angle)`: forward speed x duration = the arc `2 pi r angle / 360`,
yaw rate x duration = the angle, to the requested side -/
theorem circle_displacement (st : Static) (s : Side) (r v a : Q) (hv : v ≠ 0) (hr : r ≠ 0) (hpi : st.pi ≠ 0) :
    ∃ (sp : SP) (T : Q), circleInstrs st s r v a = .ok [.setVel sp, .sleep T, .setVel ⟨0, 0, 0, 0⟩] ∧
      sp.vx = v ∧ sp.vy = 0 ∧ sp.vz = 0 ∧ sp.vx * T = 2 * r * st.pi * a / 360 ∧
      sp.yaw * T = (match s with | .left => a | .right => -a) := by
  have hc : circumference s r st.pi ≠ 0 := by
    cases s <;> (show 2 * r * st.pi ≠ 0; exact mul_ne_zero (mul_ne_zero (by norm_num) hr) hpi)
  refine ⟨_, _, circleInstrs_ok st s r v a hv hc, ?_⟩
  cases s
  · refine ⟨rfl, rfl, rfl, ?_, ?_⟩
    · show v * (2 * r * st.pi * a / 360 / v) = 2 * r * st.pi * a / 360
      field_simp
    · show 360 * v / (2 * r * st.pi) * (2 * r * st.pi * a / 360 / v) = a
      field_simp
  · refine ⟨rfl, rfl, rfl, ?_, ?_⟩
    · show v * (2 * r * st.pi * a / 360 / v) = 2 * r * st.pi * a / 360
      field_simp
    · show -(360 * v / (2 * r * st.pi)) * (2 * r * st.pi * a / 360 / v) = -a
      field_simp

/-! ## PositionHlCommander -/

/-- **hl_goto_targets_position_with_duration.**  Whatever `go_to(x, y, z, velocity)` adds to the trace is exactly one go-to
command, issued now, for the target `(x, y, z or the default height)` with yaw 0 and duration `distance / velocity`, where
the distance is taken from the dead-reckoned position; when it returns normally the reported position IS that target
(and the clock advanced by the duration); with non-positive distance nothing is sent and nothing changes. -/
theorem hl_goto_targets_position_with_duration (st : HStatic) (s : HL) (x y : Q) (z v : Option Q) :
    let zt := z.getD s.defHeight
    let dist := st.sqrt (Gen.C17.hlNorm2 (x - s.x) (y - s.y) (zt - s.z))
    let vel := v.getD s.defVel
    let r := hlGoTo st s x y z v
    (r.1.trace = s.trace ∨ r.1.trace = (s.now, HCmd.goTo x y zt 0 (dist / vel)) :: s.trace) ∧
    (0 < dist → vel ≠ 0 → r.1.trace = (s.now, HCmd.goTo x y zt 0 (dist / vel)) :: s.trace ∧
        (0 ≤ dist / vel → r.2 = none ∧ r.1.x = x ∧ r.1.y = y ∧ r.1.z = zt ∧ r.1.now = s.now + dist / vel)) ∧
    (¬ 0 < dist → r = (s, none)) :=
  ⟨hlGoTo_trace st s x y z v,
   fun hd hv => ⟨(hlGoTo_moves st s x y z v hd hv).1, (hlGoTo_moves st s x y z v hd hv).2.1⟩,
   fun hd => hlGoTo_still st s x y z v hd⟩

/-- every relative move and every directional primitive is a `go_to` of (position + requested vector) -/
theorem hl_move_is_goto (st : HStatic) (s : HL) (dx dy dz d : Q) (dir : Dir) (v : Option Q) :
    hlPrim st s (.move dx dy dz v) = hlGoTo st s (s.x + dx) (s.y + dy) (some (s.z + dz)) v ∧
    hlPrim st s (.go dir d v) = hlGoTo st s (s.x + (hlGoVec dir d).1) (s.y + (hlGoVec dir d).2.1) (some (s.z + (hlGoVec dir d).2.2)) v :=
  ⟨rfl, rfl⟩

/-- **hl_position_is_sum.**  For every body of relative moves / default changes / waits that returns normally (with
`math.sqrt` positive on positive numbers), the reported position is the start position plus the sum of the requested
displacements. -/
theorem hl_position_is_sum (st : HStatic) (hsqrt : ∀ a, 0 < a → 0 < st.sqrt a) (ps : List HPrim) (s s' : HL)
    (hrel : ∀ p ∈ ps, p.relative = true) (h : hlBody st s ps = (s', none)) :
    s'.x = s.x + (sumDisp ps).1 ∧ s'.y = s.y + (sumDisp ps).2.1 ∧ s'.z = s.z + (sumDisp ps).2.2 :=
  hlBody_sum st hsqrt ps s s' hrel h

/-- **hl_ends_stopped.**  With the stop in a `finally`: if `take_off` succeeded in `__enter__`, then for every body built
from motion primitives, go-to's, default changes and waits (no explicit `land`; any arguments; an exception raised at any
position) the context is left - normally or through an exception, also one raised by the landing itself - with
`_is_flying` cleared and `stop` as the last command sent. -/
theorem hl_ends_stopped (st : HStatic) (hfin : st.landFinally = true) (s s1 : HL) (body : List HPrim)
    (hin : hlTakeOff st s none none = (s1, none)) (hbody : ∀ p ∈ body, p.isLand = false) :
    (hlWith st s body).1.flying = false ∧ ∃ rest, (hlWith st s body).1.trace = ((hlWith st s body).1.now, HCmd.stop) :: rest :=
  hlWith_stops st hfin s s1 body hin hbody

theorem hl_ends_stopped_current (sqrt : Q → Q) (conn : Bool) (s s1 : HL) (body : List HPrim)
    (hin : hlTakeOff (HStatic.ofGen sqrt conn) s none none = (s1, none)) (hbody : ∀ p ∈ body, p.isLand = false) :
    (hlWith (HStatic.ofGen sqrt conn) s body).1.flying = false ∧
    ∃ rest, (hlWith (HStatic.ofGen sqrt conn) s body).1.trace = ((hlWith (HStatic.ofGen sqrt conn) s body).1.now, HCmd.stop) :: rest :=
  hl_ends_stopped _ gen_hl_protected s s1 body hin hbody

/-- **The unrepaired code violates the clause (D14).**  `down(1.0)` from the default 0.5 m, then leaving the context:
the landing duration `(z - landing_height) / velocity` is negative, `time.sleep` raises ValueError, `stop` is never
sent (the last command is `land` with duration -1) and `_is_flying` stays set. -/
def hlUnrepaired : HStatic :=
  { sqrt := fun x => if x = 1 then 1 else 0, connected := true, landFinally := false, landNumer := fun z lh => z - lh }

theorem hl_unrepaired_counterexample :
    (fun r : HL × Option Err => (r.2, r.1.flying, r.1.trace.head?))
      (hlWith hlUnrepaired (HL.new 0 0 0 0 (1 / 2) (1 / 2) 0 none) [.go .down 1 none])
      = (some .valueError, true, some (4, HCmd.land 0 (-1))) := by decide +kernel

/-! ## On the wire: the trace theorems composed with C08's packet theorems

The clauses above are about the calls made to `Commander` / `HighLevelCommander`.  What the Crazyflie does is decided by what its
firmware decodes from the packets those objects emit, which depends on the negotiated protocol version.  `C08.emit ver call` is
C08's model of the real emitting method (formats and argument expressions regenerated from commander.py / high_level_commander.py),
`C08.Fw.decode` the firmware-side decoder, `C08.expected?` what the arguments denote.  `enc` is the Python number object carrying a
model rational (binary64 rounding is outside both models). -/

/-- **mc_wire_decodes.**  Every entry of every MotionCommander trace (hover set-point, stop, notify), for every protocol
version: whatever the real `Commander` hands to the link for it is exactly one packet (≤ 30 bytes) that the firmware of that
version decodes to the command the arguments denote. -/
theorem mc_wire_decodes (enc : Q → C08.Num) (ver : Int) (cmd : Cmd) (ps : List C08.Packet)
    (h : C08.emit ver (mcCall enc cmd) = .ok ps) :
    ∃ p, ps = [p] ∧ p.data.length ≤ 30 ∧ (C08.expected? ver (mcCall enc cmd)).isSome ∧
      C08.Fw.decode ver p.header p.data = C08.expected? ver (mcCall enc cmd) :=
  mc_emit_decodes enc ver cmd ps h

/-- **mc_wire_direction.**  ... and what a hover set-point denotes does not depend on the side of the protocol switch: the
firmware uses the binary32 values of the caller's `vx, vy`, height and YAW RATE - sign included - for legacy (≤ 8) and current
protocol versions alike (float yaw rate; the MotionCommander's own yaw rates are floats).  With `turn_displacement` /
`circle_displacement`: the decoded yaw rate x duration is the requested angle to the requested side. -/
theorem mc_wire_direction (enc : Q → C08.Num) (ver : Int) (vx vy yaw z : Q) (hy : (enc yaw).isIntZero = false) :
    C08.expected? ver (mcCall enc (.hover vx vy yaw z)) =
      (do pure (C08.Fw.Cmd.hover (← C08.f32? (enc vx)) (← C08.f32? (enc vy)) (← C08.f32? (enc yaw)) (← C08.f32? (enc z)))) :=
  hover_expected ver _ _ _ _ hy

/-- **mc_ends_stopped_on_the_wire.**  `mc_ends_stopped` composed with the packet theorems: under its hypotheses, if anything
was sent at all, the last two calls are `stop, notify_setpoint_stop`, and for every protocol version each of them is emitted as one
packet that the firmware decodes as `stop`, resp. `notifySetpointsStop` with validity 0. -/
theorem mc_ends_stopped_on_the_wire (st : Static) (hfix : Fixed st) (body : List Prim) (sch : List Nat) (c : Cfg)
    (hrun : run (machine st) (initWith body) sch = some c) (hleft : c.code = []) (hsent : c.trace ≠ []) (ver : Int) (enc : Q → C08.Num) :
    ∃ t t' rest, c.trace = (t', Cmd.notify) :: (t, Cmd.stop) :: rest ∧
      (∃ p, C08.emit ver (mcCall enc Cmd.stop) = .ok [p] ∧ C08.Fw.decode ver p.header p.data = some .stop) ∧
      (∃ p, C08.emit ver (mcCall enc Cmd.notify) = .ok [p] ∧ C08.Fw.decode ver p.header p.data = some (.notifySetpointsStop 0)) := by
  obtain ⟨_, he, _⟩ := mc_ends_stopped st hfix body sch c hrun hleft
  rcases he with he | ⟨t, t', rest, he⟩
  · exact absurd he hsent
  · exact ⟨t, t', rest, he, (stop_notify_wire ver).1, (stop_notify_wire ver).2⟩

/-- **hl_wire_decodes.**  Every commander entry of every PositionHlCommander trace (take-off, go-to, land, stop), for every
protocol version: one packet, decoded by that firmware to what the arguments denote ... -/
theorem hl_wire_decodes (enc : Q → C08.Num) (ver : Int) (cmd : HCmd) (call : C08.Call) (hcall : hlCall enc cmd = some call)
    (ps : List C08.Packet) (h : C08.emit ver call = .ok ps) :
    ∃ p, ps = [p] ∧ p.data.length ≤ 30 ∧ (C08.expected? ver call).isSome ∧ C08.Fw.decode ver p.header p.data = C08.expected? ver call :=
  hl_emit_decodes enc ver cmd call hcall ps h

/-- ... namely: an absolute, non-linear go-to to the binary32 values of the target `(x, y, z)` with yaw 0 and the duration (the
legacy layout without the `linear` field before protocol version 8, the current one from 8 on); take-off / landing to the height
with yaw 0.0 and the duration; stop; all for group mask 0 (all groups).  With `hl_goto_targets_position_with_duration`: the
decoded go-to targets the dead-reckoned position with duration distance / velocity on both sides of the switch. -/
theorem hl_wire_expected (enc : Q → C08.Num) (ver : Int) (x y z w dur h : Q) :
    C08.expected? ver (.hlGoTo (enc x) (enc y) (enc z) intZeroF (enc dur) (C08.ki 0) (C08.ki 0) (C08.ki 0)) =
      (if ver < 8 then (do pure (C08.Fw.Cmd.hlGoTo 0 0 (← C08.f32? (enc x)) (← C08.f32? (enc y)) (← C08.f32? (enc z)) 0 (← C08.f32? (enc dur))))
       else (do pure (C08.Fw.Cmd.hlGoTo2 0 0 0 (← C08.f32? (enc x)) (← C08.f32? (enc y)) (← C08.f32? (enc z)) 0 (← C08.f32? (enc dur))))) ∧
    C08.expected? ver (.hlTakeoff (enc h) (enc dur) (C08.ki 0) (some (enc w))) =
      (do pure (C08.Fw.Cmd.hlTakeoff2 0 (← C08.f32? (enc h)) (← C08.f32? (enc w)) false (← C08.f32? (enc dur)))) ∧
    C08.expected? ver (.hlLand (enc h) (enc dur) (C08.ki 0) (some (enc w))) =
      (do pure (C08.Fw.Cmd.hlLand2 0 (← C08.f32? (enc h)) (← C08.f32? (enc w)) false (← C08.f32? (enc dur)))) ∧
    C08.expected? ver (.hlStop (C08.ki 0)) = some (.hlStop 0) :=
  hl_expected enc ver x y z w dur h

/-- non-vacuity: a left turn at 72 deg/s (binary64 0x4052000000000000, binary32 0x42900000) is emitted and decoded with yaw rate
+72 by a protocol-7 (legacy packet type) and by a protocol-10 firmware -/
example : let enc : Q → C08.Num := fun q => if q = 72 then .f 0x4052000000000000 (.bits 0x42900000) else .f 0 (.bits 0)
    (C08.emit 7 (mcCall enc (.hover 0 0 72 0))).toOption.map (fun ps => ps.map (fun p => C08.Fw.decode 7 p.header p.data)) =
      some [some (.hover 0 0 0x42900000 0)] ∧
    (C08.emit 10 (mcCall enc (.hover 0 0 72 0))).toOption.map (fun ps => ps.map (fun p => C08.Fw.decode 10 p.header p.data)) =
      some [some (.hover 0 0 0x42900000 0)] := by decide +kernel

/-! ## Non-vacuity: concrete instances of the hypotheses -/

/-- a schedule of the protected model for `with MotionCommander(cf, default_height=0): pass` is executable, leaves the
`with` statement with ZeroDivisionError and the trace `stop, notify` -/
example : (run (machine { unrepaired 0 with landFinally := true, takeoffGuarded := true }) (initWith [])
      [0, 0, 0, 2, 0, 0, 2, 0, 0, 0, 0, 0, 0, 0, 1, 0, 0, 0, 0, 0]).map (fun c => (c.code, c.exc, c.thr.alive, c.trace))
    = some ([], some .zeroDiv, false, [(21 / 10, .notify), (21 / 10, .stop)]) := by decide +kernel
example : Fixed { unrepaired 0 with landFinally := true, takeoffGuarded := true } := ⟨rfl, rfl⟩
/-- the hypotheses of `blocking_primitive_tracks` hold right after take_off queued its set-point (sleep 2.5 s pending) -/
example : (run (machine (unrepaired (1 / 2))) (initWith []) [0, 0, 0, 2, 0, 0, 2, 0, 0, 0, 0]).map
      (fun c => (c.code.head?, decide (c.tMain = c.now), c.thr.alive, decide (Ev.term ∈ c.thr.queue), cmdVz c.thr.queue c.thr.zVel))
    = some (some (.sleep (5 / 2)), true, true, false, 1 / 5) := by decide +kernel
example : moveInstrs (unrepaired 0) 0 0 (1 / 2) (1 / 4) =
    .ok [.setVel ⟨0, 0, 1 / 4, 0⟩, .sleep 2, .setVel ⟨0, 0, 0, 0⟩] := by decide +kernel
example : (hlTakeOff hlUnrepaired (HL.new 0 0 0 0 (1 / 2) (1 / 2) 0 none) none none).2 = none := by decide +kernel
example : (hlBody hlUnrepaired (HL.new 0 0 0 0 (1 / 2) (1 / 2) 0 none) [.go .forward 1 none, .go .up 1 (some 1)]).2 = none ∧
    sumDisp [.go .forward 1 none, .go .up 1 (some 1)] = (1, 0, 1) := by decide +kernel
example : ∀ a : Q, 0 < a → 0 < (fun x : Q => x) a := fun _ h => h

end CfVerif.C17

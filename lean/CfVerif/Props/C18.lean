/-
Props/C18 — property theorems for C18 (CPX framing and routing under any stream fragmentation).
Helper lemmas are in Proofs/C18.  Every theorem here is about Model/C18, whose header expressions,
enum values and formats are regenerated from /repo (Gen/C18).
-/
import CfVerif.Proofs.C18
namespace CfVerif.C18
open CfVerif

/-! ## Gen obligations: what the hand-written model assumes about the current source -/

theorem gen_wire_args : Gen.C18.wireArgs = ["targetsAndFlags", "functionAndVersion"] := by decide
theorem gen_unwire_args : Gen.C18.unwireArgs = ["data[0:2]"] := by decide
theorem gen_sock_write_args : Gen.C18.sockWriteArgs = ["packet.length + 2"] := by decide
theorem gen_sock_loop : Gen.C18.sockLoopCond = "len(data) < size and self._socket is not None" := by decide
theorem gen_sock_recv_arg : Gen.C18.sockRecvArg = "size - len(data)" := by decide
theorem gen_sock_read : Gen.C18.sockReadArgs = ["self._readData(2)"] ∧
    Gen.C18.sockReadDataCalls = ["self._readData(2)", "self._readData(size)"] := by decide
theorem gen_router : Gen.C18.routerRunCompares = ["packet.function.value not in self._rxQueues"] ∧
    Gen.C18.routerReceiveCompares = ["function.value not in self._rxQueues"] := by decide
theorem gen_tunnel_send : Gen.C18.tunnelSendRaw = "(pk.header,) + struct.unpack('B' * len(pk.data), pk.data)" ∧
    Gen.C18.tunnelSendKw = ["data=raw", "destination=CPXTarget.STM32", "function=CPXFunction.CRTP"] := by decide
theorem gen_tunnel_recv : Gen.C18.tunnelRecvCompares = ["len(data) > 0"] ∧
    Gen.C18.tunnelRecvCtorArgs = ["data[0]", "list(data[1:])"] := by decide
theorem gen_enum_members : cpxTargetSTM32 ∈ Gen.C18.targetValues ∧ cpxTargetHOST ∈ Gen.C18.targetValues ∧
    cpxFunctionCRTP ∈ Gen.C18.functionValues := by decide

/-- the transport object keeps no receive state: the only attribute its methods store is the socket itself (set by
`connect`, cleared by `disconnect`), `_readData` accumulates in a local; so a new connection starts from an empty
buffer and `readPackets` on the new stream (theorem `reassembly`) is the whole story after a reconnect -/
theorem gen_sock_object_state : Gen.C18.sockObjectState =
    ["__init__: self._host,self._port", "connect: self._socket", "disconnect: self._socket", "writePacket: -",
     "_readData: -", "readPacket: -"] ∧ Gen.C18.sockClassLevel = [] := by decide

/-- the router decides per packet, by looking the packet's function up in the live queue table: nothing about
earlier packets is remembered across loop iterations (a cached "no queue" would go stale when a receiver registers) -/
theorem gen_router_stateless : Gen.C18.routerStateOutsideLoop = [] ∧
    Gen.C18.routerQueueReads = ["packet.function.value not in self._rxQueues", "self._rxQueues[packet.function.value]"] := by decide

theorem gen_router_loop : Gen.C18.routerHandlers = ["Exception"] ∧ Gen.C18.routerHandlerLeavesLoop = false ∧
    Gen.C18.routerTryInsideLoop = true := by decide

/-- every router object creates its own, empty queue table: nothing is passed in or shared through a default
argument or a class attribute, so two links alive in one process (two TcpDriver connections) have disjoint tables and
`links_isolated` below describes them -/
theorem gen_router_object_state : Gen.C18.routerInitParams = ["self", "transport"] ∧
    Gen.C18.routerInitQueues = ["self._rxQueues = {}"] ∧ Gen.C18.routerClassLevel = [] ∧
    Gen.C18.routerCtorCalls = ["CPXRouter(transport)"] := by decide

/-! ## The property -/

/-- A packet whose enum-typed fields hold members of the enums (the only packets Python can build). -/
def Packet.Valid (p : Packet) : Prop :=
  p.src ∈ Gen.C18.targetValues ∧ p.dst ∈ Gen.C18.targetValues ∧ p.fn ∈ Gen.C18.functionValues

instance (p : Packet) : Decidable p.Valid := by unfold Packet.Valid; infer_instance

/-- Encoding then decoding returns source, destination, function, last-packet flag and payload intact,
for every combination and every payload. -/
theorem unwire_wire (p : Packet) (hv : p.Valid) :
    ∃ bs, wire p Gen.C18.cpxVersion = .ok bs ∧ bs.length = p.data.length + 2 ∧ unwire bs = .ok p :=
  unwire_wire_aux p hv.1 hv.2.1 hv.2.2

/-- Packets of an unsupported version are rejected, whatever the rest of the packet. -/
theorem version_rejected (a b : UInt8) (rest : List UInt8)
    (hver : Gen.C18.verExpr b.toNat ≠ Gen.C18.cpxVersion) :
    unwire (a :: b :: rest) = .error .version :=
  version_rejected_aux a b rest hver

/-- A byte stream carrying any sequence of packets is re-assembled into exactly that sequence however
it is cut into non-empty receive chunks; nothing is left over and nothing beyond is consumed. -/
theorem reassembly (ps : List Packet) (hv : ∀ p ∈ ps, p.Valid)
    (frames : List (List UInt8)) (hf : Framed ps frames)
    (chunks : Sock) (hne : ∀ c ∈ chunks, c ≠ []) (rest : List UInt8)
    (hcat : chunks.flatten = frames.flatten ++ rest) :
    ∃ s', readPackets ps.length chunks = .ok (ps, s') ∧ s'.flatten = rest :=
  reassembly_aux ps hv frames hf chunks hne rest hcat

/-- Received packets are queued per function in arrival order and handed only to that function. -/
theorem router_fifo_per_function (ops : List ROp) (f : Nat) :
    (routerRun ops).get f = expectedQueue f ops := by
  have := router_inv ops f []
  simpa [routerRun, Queues.has] using this

/-- Several CPX links alive in one process do not see each other: after any interleaving of the registrations and
packet arrivals of all links, link `i`'s queues are exactly what its own operations alone produce (so by
`router_fifo_per_function` each of its functions holds its own packets in arrival order, and nothing of another link). -/
theorem links_isolated (ops : List (Nat × ROp)) (i : Nat) :
    worldRun ops i = routerRun (opsOf i ops) :=
  worldFold_link ops i (fun _ => [])

theorem links_fifo_per_function (ops : List (Nat × ROp)) (i f : Nat) :
    (worldRun ops i).get f = expectedQueue f (opsOf i ops) := by
  rw [links_isolated]; exact router_fifo_per_function _ f

/-- what the obligation `gen_router_object_state` rules out: with one table shared by the router objects, link 0's
receiver of function 3 is handed link 1's packet -/
example : (sharedRun [(0, .reg 3), (1, .reg 3), (1, .pkt 3 7)]).get 3 = [7] ∧
    (worldRun [(0, .reg 3), (1, .reg 3), (1, .pkt 3 7)] 0).get 3 = [] ∧
    (worldRun [(0, .reg 3), (1, .reg 3), (1, .pkt 3 7)] 1).get 3 = [7] := by decide

/-- A packet the transport rejects (unsupported version, unknown target/function, short header) neither
kills the router thread nor stops the routing of the packets that follow it: whatever `readPacket` raises,
the queues end up exactly as if only the good packets had been read, and the thread is alive. -/
theorem router_survives_rejected_packets (reads : List (Except Err Packet)) (q : Queues) :
    routerReads Gen.C18.routerHandlers reads q = ((okOps reads).foldl routerStep q, true) :=
  routerReads_all_caught _ (by decide) reads q

/-- with a handler that does not catch the version error the thread dies there (what the obligation
`gen_router_loop` rules out) -/
example : routerReads ["OSError", "ValueError", "struct.error"]
    [.ok ⟨3, 3, 3, false, [1]⟩, .error .version, .ok ⟨3, 3, 3, false, [2]⟩] [(3, [])] = ([(3, [1])], false) := by decide

/-- Uplink tunnelling: the CPX payload is the CRTP header byte followed by the unchanged data, addressed to
the STM32 on the CRTP function; the far end recovers header and data, and the packet survives the wire. -/
theorem crtp_uplink_id (h : UInt8) (d : List UInt8) :
    let p := tunnelUp h.toNat d
    p.data = h :: d ∧ p.dst = cpxTargetSTM32 ∧ p.fn = cpxFunctionCRTP ∧ p.Valid := by
  refine ⟨?_, rfl, rfl, ?_⟩
  · simp [tunnelUp]
  · exact ⟨(show cpxTargetHOST ∈ _ by decide), (show cpxTargetSTM32 ∈ _ by decide), (show cpxFunctionCRTP ∈ _ by decide)⟩

/-- Downlink tunnelling: port, channel and data are those of the tunnelled packet; the header byte is
unchanged except that the two reserved bits 2-3 are set (as `CRTPPacket` does on every link);
a CPX packet with no CRTP header byte yields no CRTP packet. -/
theorem crtp_downlink_id (h : UInt8) (d : List UInt8) :
    tunnelDown (h :: d) = some { header := h.toNat ||| 0x0C, port := h.toNat / 16, chan := h.toNat % 4, data := d } ∧
    tunnelDown [] = none := by
  obtain ⟨h1, h2, h3⟩ := crtp_fields ⟨h.toNat, h.toNat_lt⟩
  simp only at h1 h2 h3
  exact ⟨by simp only [tunnelDown, h1, h2, h3], rfl⟩

/-! ## Non-vacuity: concrete instances of the hypotheses -/

example : (⟨3, 1, 3, true, [1, 2, 3]⟩ : Packet).Valid := by decide
example : frame ⟨3, 1, 3, true, [1, 2, 3]⟩ = .ok [5, 0, 0x59, 3, 1, 2, 3] := by decide
example : readPackets 2 [[4, 0], [0x19], [3, 0xaa, 0xbb, 2], [0], [0x19, 3]] =
    .ok ([⟨3, 1, 3, false, [0xaa, 0xbb]⟩, ⟨3, 1, 3, false, []⟩], []) := by decide
example : Gen.C18.verExpr (0x43 : UInt8).toNat ≠ Gen.C18.cpxVersion := by decide
example : expectedQueue 3 [.pkt 3 1, .reg 3, .pkt 3 5, .pkt 2 9, .pkt 3 6] = [5, 6] := by decide
example : routerStream [3] [[3, 0, 0x19, 3, 7], [3, 0, 0x19, 0x43, 8, 3, 0], [0x19, 3, 9]] = ([(3, [7, 9])], true) := by decide
example : Framed [⟨3, 1, 3, true, [1, 2, 3]⟩] [[5, 0, 0x59, 3, 1, 2, 3]] := .cons (by decide) .nil

end CfVerif.C18

/-
Props/C19 — property theorems for C19 (swarm-wide actions).  Helper lemmas are in Proofs/C19.
Every theorem is about Model/C19 (whose constants are regenerated from /repo, Gen/C19) and quantifies over ALL
swarms `cfs`, argument dictionaries, action outcomes and ALL interleavings `sch` of the member threads
(`exec p st sch = some c`: `c` is the configuration after the schedule `sch`; proofs are by induction on `sch`).
-/
import CfVerif.Proofs.C19
namespace CfVerif.C19
open CfVerif CfVerif.Sched

/-- parallel_safe has returned or raised only when every member's action (thread) has finished. -/
theorem parallel_safe_returns_after_all (p : Params) (hargs : ArgsOk p) (st : SwarmState) (sch : List Nat) (c : Cfg)
    (r : Option Exc) (h : exec p st sch = some c) (hf : c.main = .finished r) : AllDone p c := by
  rcases (shape_exec h).after (by rw [hf]; trivial) with hall | hno
  · exact hall
  · exact absurd hargs hno

end CfVerif.C19

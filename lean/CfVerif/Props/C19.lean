/-
Props/C19 — property theorems for C19 (swarm-wide actions).  Helper lemmas are in Proofs/C19*.

Every theorem is about Model/C19 (whose constants are regenerated from /repo, Gen/C19) and quantifies over ALL
swarms `cfs`, ALL argument dictionaries, ALL action outcomes / failing subsets (the action function `f`, the
connection outcome `conn`, the initial link flags `st.mem`) and ALL interleavings of the member threads:
`exec p st sch = some c` says that `c` is the configuration after the schedule `sch : List Nat` (thread 0 = caller,
thread i+1 = the thread of the i-th member); the proofs are inductions on `sch` (`Sched.run_invariant`).
`c.main = .finished r` says that the swarm-wide call has returned (`r = none`) or raised (`r = some x`).
-/
import CfVerif.Proofs.C19All
namespace CfVerif.C19
open CfVerif CfVerif.Sched

/-! ## Gen obligations: what the hand-written model assumes about the current source -/

/-- parallel_safe: one thread per entry of `_cfs`, started inside the loop, with `[func, reporter] + own args` -/
theorem gen_spawn_loop : Gen.C19.psSpawnIter = "self._cfs.items()" ∧ Gen.C19.psSpawnTarget = "(uri, scf)" ∧
    Gen.C19.psSpawnBody = ["args = [func, reporter] + self._process_args_dict(scf, uri, args_dict)",
      "thread = Thread(target=self._thread_function_wrapper, args=args)", "threads.append(thread)", "thread.start()"] ∧
    Gen.C19.psBeforeSpawn = ["threads = []", "reporter = self.Reporter()"] := by decide
/-- parallel_safe: every started thread is joined, unconditionally, before the reporter is inspected -/
theorem gen_join_loop : Gen.C19.psJoinIter = "threads" ∧ Gen.C19.psJoinTarget = "thread" ∧
    Gen.C19.psJoinBody = ["thread.join()"] ∧ Gen.C19.psBetween = [] := by decide
/-- parallel_safe: raises the generic exception chained from `reporter.errors[errIndex]` iff an error was reported -/
theorem gen_raise : Gen.C19.psRaiseCond = "reporter.is_error_reported()" ∧ Gen.C19.psRaiseClass = "Exception" ∧
    Gen.C19.psRaiseCause = "first_error" ∧ Gen.C19.psCauseList = "reporter.errors" ∧
    Gen.C19.psIfBody = ["first_error = reporter.errors[0]"] := by decide
/-- the thread wrapper calls `func(*args[2:])` and reports any `Exception` -/
theorem gen_wrapper : Gen.C19.wrapTry = ["func = args[0]", "reporter = args[1]", "func(*args[2:])"] ∧
    Gen.C19.wrapHandlerType = "Exception" ∧
    Gen.C19.wrapHandlerBody = ["if reporter:\n    reporter.report_error(e)"] := by decide
/-- the Reporter is per call (instance attributes only) and reports by flag-then-append -/
theorem gen_reporter : Gen.C19.reporterClassAttrs = [] ∧
    Gen.C19.reporterInit = ["self.error_reported = False", "self._errors = []"] ∧
    Gen.C19.reportBody = ["self.error_reported = True", "self._errors.append(e)"] ∧
    Gen.C19.reporterIsErr = ["return self.error_reported"] ∧ Gen.C19.reporterErrors = ["return self._errors"] := by decide
theorem gen_process_args : Gen.C19.procArgs = ["args = [scf]", "if args_dict:\n    args += args_dict[uri]", "return args"] := by decide
/-- _process_args_dict changes in place only lists it created itself - never the caller's dictionary or its lists -/
theorem gen_process_args_no_alias : Gen.C19.procMutatedCaller = [] ∧
    Gen.C19.procMutated.all (fun x => Gen.C19.procFresh.contains x) = true := by decide
theorem gen_sequential : Gen.C19.seqIter = "self._cfs.items()" ∧ Gen.C19.seqTarget = "(uri, cf)" ∧
    Gen.C19.seqBody = ["args = self._process_args_dict(cf, uri, args_dict)", "func(*args)"] := by decide
theorem gen_parallel : Gen.C19.parTry = ["self.parallel_safe(func, args_dict)"] ∧ Gen.C19.parHandlerType = "Exception" ∧
    Gen.C19.parHandlerBody = ["pass"] := by decide
/-- open_links: the 'Already opened' guard is evaluated BEFORE the try (its raise must not run the failure clean-up) -/
theorem gen_open_guard_position : Gen.C19.openGuardInTry = false ∧ Gen.C19.openShape = ["If", "Try"] ∧
    Gen.C19.openAfterTry = [] := by decide
theorem gen_open_links : Gen.C19.openGuard = "self._is_open" ∧ Gen.C19.openGuardBody = ["raise Exception('Already opened')"] ∧
    Gen.C19.openTry = ["self.parallel_safe(lambda scf: scf.open_link())", "self._is_open = True"] ∧
    Gen.C19.openHandler = "Exception as e" ∧ Gen.C19.openHandlerBody = ["self.close_links()", "raise e"] := by decide
theorem gen_close_links : Gen.C19.closeIter = "self._cfs.items()" ∧ Gen.C19.closeTarget = "(uri, cf)" ∧
    Gen.C19.closeBody = ["cf.close_link()"] ∧ Gen.C19.closeTail = ["self._is_open = False"] := by decide
theorem gen_ctor : Gen.C19.ctorLoop = "for uri in uris: self._cfs[uri] = factory.construct(uri)" ∧
    Gen.C19.ctorCfsInit = ["self._cfs = {}"] ∧ Gen.C19.initIsOpen = false := by decide
/-- SyncCrazyflie: open refuses an open link, raises when the connection failed; close acts only on an open link -/
theorem gen_sync_crazyflie : Gen.C19.scfOpenGuard = "self.is_link_open()" ∧
    Gen.C19.scfOpenGuardBody = ["raise Exception('Link already open')"] ∧
    Gen.C19.scfOpenFailCond = "not self._is_link_open" ∧ Gen.C19.scfOpenFailRaise = ["raise Exception(self._error_message)"] ∧
    Gen.C19.scfCloseGuard = "self.is_link_open()" ∧ Gen.C19.scfIsOpen = ["return self._is_link_open"] ∧
    Gen.C19.scfInitIsOpen = false := by decide
/-- the constants the proofs depend on (see Proofs/C19: gen_errIndex ... gen_scfDisconnectedSets) -/
theorem gen_constants : Gen.C19.errIndex = 0 ∧ Gen.C19.reporterInitFlag = false ∧ Gen.C19.reportFlagValue = true ∧
    Gen.C19.openSetsFlag = true ∧ Gen.C19.closeSetsFlag = false ∧ Gen.C19.scfConnectedSets = true ∧
    Gen.C19.scfFailedSets = false ∧ Gen.C19.scfDisconnectedSets = false := by decide

/-! ## Vocabulary -/

/-- `_cfs` is a dictionary: one entry per URI (guaranteed by `Swarm.__init__`, see `mkSwarm_nodup`) -/
def KeysNodup (cfs : List (Uri × Member)) : Prop := (cfs.map Prod.fst).Nodup

/-- the swarm-wide call with a user action `f` -/
def userCall (cfs : List (Uri × Member)) (kind : Kind) (d : ArgsDict) (f : Uri → List Arg → Option Err) : Params :=
  ⟨cfs, kind, d, .user f⟩

/-- open_links: `parallel_safe(lambda scf: scf.open_link())`; member u connects iff `conn u` -/
def openCall (cfs : List (Uri × Member)) (conn : Uri → Bool) : Params := ⟨cfs, .openLinks, none, .openLink conn⟩

/-- "its own entry of the argument dictionary": no extra arguments without a dictionary, else the entry for that URI -/
theorem own_entry (p : Params) (u : Uri) :
    (p.args = none → argsOf p u = []) ∧
    (∀ kvs a, p.args = some kvs → kvs ≠ [] → kvs.lookup u = some a → argsOf p u = a) := by
  constructor
  · intro h; simp [argsOf, processArgs, h]
  · intro kvs a h hne hl
    cases kvs with
    | nil => exact absurd rfl hne
    | cons kv rest => simp [argsOf, processArgs, h, hl]

theorem argsOk_open (cfs : List (Uri × Member)) (conn : Uri → Bool) : ArgsOk (openCall cfs conn) := by
  intro u m _; exact ⟨[], rfl⟩

/-! ## The property -/

/-- **Exactly once per Crazyflie, with its own connection and its own arguments.**  When the call has finished, the
action events of each member `(u, m)` in the trace are exactly: one call `func(m, *args_dict[u])` followed by its
return or its raise - under every interleaving; and nothing else was called. -/
theorem each_once_with_own_args (p : Params) (hnd : KeysNodup p.cfs) (hargs : ArgsOk p) (st : SwarmState)
    (sch : List Nat) (c : Cfg) (r : Option Exc) (h : exec p st sch = some c) (hf : c.main = .finished r) :
    (∀ (i : Nat) (u : Uri) (m : Member), p.cfs[i]? = some (u, m) →
      actEvents u c.trace = [.call u m (argsOf p u), .ret u] ∨
      ∃ e, actEvents u c.trace = [.call u m (argsOf p u), .raised u e]) ∧
    (∀ ev, ev ∈ c.trace → ∃ (i : Nat) (m : Member), p.cfs[i]? = some (ev.uri, m)) := by
  refine ⟨?_, trace_uris_exec h⟩
  intro i u m hi
  have L := loc_exec hnd h i u m hi
  have I := allInv_exec hargs h
  obtain ⟨ri, hri⟩ := allDone_of_past hargs I.shape (by rw [hf]; trivial) i (lt_of_getElem?_eq_some hi)
  rw [hri] at L
  cases ri with
  | none => exact .inl L
  | some e => exact .inr ⟨e, L⟩

/-- **Sequential actions run one at a time in the iteration order of the URIs.**  The trace of `sequential` is the
concatenation, in `_cfs` order, of complete `[call, ret]` blocks for the first `j` members (each with its own
connection and arguments); either `j` is the whole swarm and nothing is raised, or member `j`'s action raised `e`:
its `[call, raised]` block ends the trace and `e` itself propagates. -/
theorem sequential_in_order (cfs : List (Uri × Member)) (d : ArgsDict) (f : Uri → List Arg → Option Err)
    (hargs : ∀ kv, kv ∈ cfs → ∃ a, processArgs d kv.1 = .ok a) :
    ∃ j, j ≤ cfs.length ∧ (∀ i kv, i < j → cfs[i]? = some kv → f kv.1 (argsOfD d kv.1) = none) ∧
      ((j = cfs.length ∧ sequential cfs d f = (((cfs.take j).map (okBlock d)).flatten, none)) ∨
       (∃ u m e, cfs[j]? = some (u, m) ∧ f u (argsOfD d u) = some e ∧
          sequential cfs d f = (((cfs.take j).map (okBlock d)).flatten ++ [.call u m (argsOfD d u), .raised u e], some (.user e)))) := by
  have := sequentialGo_spec d f cfs [] hargs
  simpa [sequential] using this

/-- **parallel_safe returns only after every action has finished**: whenever the call has returned or raised, every
member thread is done (its action returned or raised and its error, if any, is in the reporter). -/
theorem parallel_safe_returns_after_all (p : Params) (hargs : ArgsOk p) (st : SwarmState) (sch : List Nat) (c : Cfg)
    (r : Option Exc) (h : exec p st sch = some c) (hf : c.main = .finished r) : AllDone p c :=
  allDone_of_past hargs (shape_exec h) (by rw [hf]; trivial)

/-- **parallel_safe raises iff at least one action raised, chaining one of the raised errors.**  For every action
function `f` (= every failing subset): it returns normally iff `f` fails for no member on its own arguments, and what it
raises is the generic exception whose cause `e` is the error that some member's action raised in this very call. -/
theorem raises_iff_some_failed (cfs : List (Uri × Member)) (d : ArgsDict) (f : Uri → List Arg → Option Err)
    (hargs : ArgsOk (userCall cfs .parallelSafe d f)) (st : SwarmState) (sch : List Nat) (c : Cfg) (r : Option Exc)
    (h : exec (userCall cfs .parallelSafe d f) st sch = some c) (hf : c.main = .finished r) :
    (r = none ↔ ∀ u m, (u, m) ∈ cfs → f u (argsOfD d u) = none) ∧
    (∀ x, r = some x → ∃ e u m, x = .chained e ∧ (u, m) ∈ cfs ∧ f u (argsOfD d u) = some e) := by
  have I := allInv_exec hargs h
  have hall := allDone_of_past hargs I.shape (by rw [hf]; trivial)
  have hcor : Correct c r := I.res.finished r hf (by simp [userCall])
  have hout : ∀ i u m ri, cfs[i]? = some (u, m) → c.thr i = .done ri → f u (argsOfD d u) = ri := by
    intro i u m ri hi hd
    have := I.out.res i u m ri hi (by rw [hd]; rfl)
    simpa [userCall, Action.finish, argsOf_eq_argsOfD] using this
  have hlt : ∀ i e, c.thr i = .done (some e) → i < cfs.length := by
    intro i e hd
    rcases Nat.lt_or_ge i cfs.length with hlt | hge
    · exact hlt
    · have := I.shape.beyond i hge; rw [this] at hd; cases hd
  constructor
  · constructor
    · intro hr u m hmem
      subst hr
      obtain ⟨i, hi⟩ := List.getElem?_of_mem hmem
      obtain ⟨ri, hri⟩ := hall i (lt_of_getElem?_eq_some hi)
      cases ri with
      | none => exact hout i u m none hi hri
      | some e => exact absurd hri (hcor i e)
    · intro hnone
      cases r with
      | none => rfl
      | some x =>
        obtain ⟨e, i, _, hd⟩ := hcor
        have hi := hlt i e hd
        have hget : cfs[i]? = some cfs[i] := List.getElem?_eq_getElem hi
        have := hout i cfs[i].1 cfs[i].2 (some e) hget hd
        rw [hnone cfs[i].1 cfs[i].2 (List.getElem_mem hi)] at this
        cases this
  · intro x hx
    subst hx
    obtain ⟨e, i, hxe, hd⟩ := hcor
    have hi := hlt i e hd
    have hget : cfs[i]? = some cfs[i] := List.getElem?_eq_getElem hi
    exact ⟨e, cfs[i].1, cfs[i].2, hxe, List.getElem_mem hi, hout i cfs[i].1 cfs[i].2 (some e) hget hd⟩

/-- the chained cause was raised by one of this call's actions: its `raised` event is in the trace -/
theorem cause_in_trace (p : Params) (hk : p.kind ≠ .parallel) (hnd : KeysNodup p.cfs) (hargs : ArgsOk p) (st : SwarmState)
    (sch : List Nat) (c : Cfg) (x : Exc) (h : exec p st sch = some c) (hf : c.main = .finished (some x)) :
    ∃ e u, x = .chained e ∧ Ev.raised u e ∈ c.trace := by
  have I := allInv_exec hargs h
  obtain ⟨e, i, hxe, hd⟩ := I.res.finished (some x) hf hk
  have hi : i < p.cfs.length := by
    rcases Nat.lt_or_ge i p.cfs.length with hlt | hge
    · exact hlt
    · have := I.shape.beyond i hge; rw [this] at hd; cases hd
  have hget : p.cfs[i]? = some (p.cfs[i].1, p.cfs[i].2) := List.getElem?_eq_getElem hi
  have L := loc_exec hnd h i _ _ hget
  rw [hd] at L
  refine ⟨e, p.cfs[i].1, hxe, ?_⟩
  have : Ev.raised p.cfs[i].1 e ∈ actEvents p.cfs[i].1 c.trace := by rw [L]; simp [localTrace]
  exact (List.mem_filter.mp this).1

/-- **parallel never raises** - for every argument dictionary (even one that lacks members), every action function and
every interleaving. -/
theorem parallel_never_raises (cfs : List (Uri × Member)) (d : ArgsDict) (f : Uri → List Arg → Option Err)
    (st : SwarmState) (sch : List Nat) (c : Cfg) (r : Option Exc)
    (h : exec (userCall cfs .parallel d f) st sch = some c) (hf : c.main = .finished r) : r = none :=
  par_exec (p := userCall cfs .parallel d f) rfl h r hf

/-- what `SyncCrazyflie.open_link` of member `i` (URI `u`) does: it fails iff the link is already open or the
connection attempt fails -/
def openFails (st : SwarmState) (conn : Uri → Bool) (i : Nat) (u : Uri) : Prop := st.mem i = true ∨ conn u = false

theorem open_finish_fst (conn : Uri → Bool) (u : Uri) (a : List Arg) (b : Bool) :
    ((Action.openLink conn).finish u a b).1 = none ↔ (b = false ∧ conn u = true) := by
  simp only [Action.finish]
  cases b <;> cases conn u <;> simp

/-- **If opening any link fails, every link is closed again and the failure is raised** - and otherwise every link is
open and the swarm is marked open.  For every connection outcome `conn`, all initial link states and all interleavings. -/
theorem open_failure_closes_all_and_raises (cfs : List (Uri × Member)) (conn : Uri → Bool) (st : SwarmState)
    (sch : List Nat) (c : Cfg) (r : Option Exc) (h : exec (openCall cfs conn) st sch = some c) (hf : c.main = .finished r) :
    ((∃ i u m, cfs[i]? = some (u, m) ∧ openFails st conn i u) →
        (∃ e i u m, r = some (.chained e) ∧ cfs[i]? = some (u, m) ∧ openFails st conn i u ∧
            e = (if st.mem i then Err.linkAlreadyOpen u else Err.connFailed u)) ∧
        (∀ i, i < cfs.length → c.mem i = false) ∧ c.swarmOpen = false) ∧
    ((∀ i u m, cfs[i]? = some (u, m) → ¬ openFails st conn i u) →
        r = none ∧ (∀ i, i < cfs.length → c.mem i = true) ∧ c.swarmOpen = true) := by
  have hargs := argsOk_open cfs conn
  have I := allInv_exec hargs h
  have hall := allDone_of_past hargs I.shape (by rw [hf]; trivial)
  have hcor : Correct c r := I.res.finished r hf (by simp [openCall])
  have hout : ∀ i u m ri, cfs[i]? = some (u, m) → c.thr i = .done ri →
      ((Action.openLink conn).finish u (argsOf (openCall cfs conn) u) (st.mem i)).1 = ri := by
    intro i u m ri hi hd
    exact I.out.res i u m ri hi (by rw [hd]; rfl)
  have hlt : ∀ i e, c.thr i = .done (some e) → i < cfs.length := by
    intro i e hd
    rcases Nat.lt_or_ge i cfs.length with hlt | hge
    · exact hlt
    · have := I.shape.beyond i hge; rw [this] at hd; cases hd
  constructor
  · rintro ⟨i, u, m, hi, hfail⟩
    -- member i's open_link raised, so the result cannot be `none`
    obtain ⟨ri, hri⟩ := hall i (lt_of_getElem?_eq_some hi)
    have hne : ri ≠ none := by
      intro hn; subst hn
      have := (open_finish_fst conn u _ (st.mem i)).mp (hout i u m none hi hri)
      rcases hfail with hf1 | hf1 <;> simp_all
    cases r with
    | none =>
      cases ri with
      | none => exact absurd rfl hne
      | some e => exact absurd hri (hcor i e)
    | some x =>
      obtain ⟨e, j, hxe, hd⟩ := hcor
      have hj := hlt j e hd
      have hget : cfs[j]? = some (cfs[j].1, cfs[j].2) := List.getElem?_eq_getElem hj
      have hfin := hout j _ _ (some e) hget hd
      have hcl := I.cl.closed x hf rfl
      refine ⟨⟨e, j, cfs[j].1, cfs[j].2, by rw [hxe], hget, ?_, ?_⟩, hcl.1, hcl.2⟩
      · simp only [Action.finish] at hfin
        unfold openFails
        cases hm : st.mem j
        · rw [hm] at hfin
          cases hc : conn cfs[j].1
          · exact .inr rfl
          · rw [hc] at hfin; simp at hfin
        · exact .inl rfl
      · simp only [Action.finish] at hfin
        cases hm : st.mem j <;> rw [hm] at hfin
        · cases hc : conn cfs[j].1 <;> rw [hc] at hfin <;> simp_all
        · simp_all
  · intro hnofail
    have hnone : ∀ i u m, cfs[i]? = some (u, m) → c.thr i = .done none := by
      intro i u m hi
      obtain ⟨ri, hri⟩ := hall i (lt_of_getElem?_eq_some hi)
      have hfin := hout i u m ri hi hri
      have hnf := hnofail i u m hi
      have : ((Action.openLink conn).finish u (argsOf (openCall cfs conn) u) (st.mem i)).1 = none := by
        rw [open_finish_fst]
        unfold openFails at hnf
        constructor
        · cases hm : st.mem i
          · rfl
          · exact absurd (.inl hm) hnf
        · cases hc : conn u
          · exact absurd (.inr hc) hnf
          · rfl
      rw [this] at hfin; rw [hri, ← hfin]
    have hr : r = none := by
      cases r with
      | none => rfl
      | some x =>
        obtain ⟨e, j, _, hd⟩ := hcor
        have hj := hlt j e hd
        have := hnone j cfs[j].1 cfs[j].2 (List.getElem?_eq_getElem hj)
        rw [this] at hd; cases hd
    subst hr
    refine ⟨rfl, ?_, I.cl.opened hf rfl⟩
    intro i hi
    have hget : cfs[i]? = some (cfs[i].1, cfs[i].2) := List.getElem?_eq_getElem hi
    have hd := hnone i _ _ hget
    have hpost := I.out.post (by rw [hf]; trivial) i _ _ none hget (by rw [hd]; rfl)
    rw [hpost]
    have hnf := hnofail i _ _ hget
    unfold openFails at hnf
    simp only [openCall, Action.finish]
    cases hm : st.mem i
    · cases hc : conn cfs[i].1
      · exact absurd (.inr hc) hnf
      · simp [gen_scfConnectedSets]
    · exact absurd (.inl hm) hnf

/-- **A swarm cannot be opened twice**: while `_is_open` is set, `open_links` raises 'Already opened' without starting
a thread, calling a member or changing any state (under every schedule) ... -/
theorem no_double_open (cfs : List (Uri × Member)) (st : SwarmState) (conn : Uri → Bool) (sch : List Nat)
    (hopen : st.isOpen = true) : runOp cfs st (.openLinks conn) sch = some (st, [], some .alreadyOpened) := by
  simp [runOp, hopen, gen_openGuardInTry]

/-- ... and every successful `open_links` sets `_is_open`; so a second `open_links` after a successful one raises. -/
theorem open_twice_raises (cfs : List (Uri × Member)) (st st' : SwarmState) (conn conn' : Uri → Bool) (sch sch' : List Nat)
    (tr : List Ev) (h : runOp cfs st (.openLinks conn) sch = some (st', tr, none)) :
    runOp cfs st' (.openLinks conn') sch' = some (st', [], some .alreadyOpened) := by
  apply no_double_open
  unfold runOp at h
  simp only at h
  split at h
  · cases h
  · next hno =>
    split at h
    · next c hc =>
      split at h
      · next r hm =>
        simp only [Option.some.injEq, Prod.mk.injEq] at h
        obtain ⟨hst, _, hr⟩ := h
        subst hr
        have I := allInv_exec (argsOk_open cfs conn) hc
        have := I.cl.opened hm rfl
        rw [← hst]; exact this
      · cases h
    · cases h

/-! ### Histories of calls on one Swarm object -/

/-- every link of the swarm is in the state the swarm's own `_is_open` flag says (true of a fresh Swarm, `fresh_wf`) -/
def Wf (cfs : List (Uri × Member)) (st : SwarmState) : Prop := ∀ i, i < cfs.length → st.mem i = st.isOpen

/-- the specification of `_is_open` after one call, from its value before and the call's result: a successful open
sets it, a failed open and a close clear it, an open on an open swarm (rejected) and every other call leave it -/
def specStep (flag : Bool) : Op → Option Exc → Bool
  | .openLinks _, r => if flag then true else r.isNone
  | .closeLinks, _ => false
  | _, _ => flag

/-- ... and after a history: "open iff the last successful open was not followed by a close (or a failed open)" -/
def specFlag : Bool → List Op → List (Option Exc) → Bool
  | flag, op :: ops, r :: rs => specFlag (specStep flag op r) ops rs
  | flag, _, _ => flag

theorem fresh_wf (cfs : List (Uri × Member)) : Wf cfs fresh ∧ fresh.isOpen = false := by
  refine ⟨fun i _ => ?_, gen_initIsOpen⟩
  simp [fresh, gen_initIsOpen, gen_scfInitIsOpen]

/-- **One call of a history**, under every schedule: the links stay consistent with `_is_open`, `_is_open` follows the
specification, an `open_links` is rejected ('Already opened') iff the swarm is open, and a rejected open is the
identity on the whole state and calls nothing. -/
theorem call_state (cfs : List (Uri × Member)) (st st' : SwarmState) (op : Op) (sch : List Nat) (tr : List Ev)
    (r : Option Exc) (hwf : Wf cfs st) (h : runOp cfs st op sch = some (st', tr, r)) :
    Wf cfs st' ∧ st'.isOpen = specStep st.isOpen op r ∧
    (∀ conn, op = .openLinks conn → (r = some .alreadyOpened ↔ st.isOpen = true) ∧
        (st.isOpen = true → st' = st ∧ tr = [])) := by
  cases op with
  | closeLinks =>
    simp only [runOp, Option.some.injEq, Prod.mk.injEq] at h
    obtain ⟨hst, _, _⟩ := h
    obtain ⟨ho, hm⟩ := closeLinks_spec cfs st
    subst hst
    exact ⟨fun i hi => by rw [hm i hi, ho], by simp [specStep, ho], fun conn hc => by cases hc⟩
  | sequential a f =>
    simp only [runOp, Option.some.injEq, Prod.mk.injEq] at h
    obtain ⟨hst, _, _⟩ := h
    subst hst
    exact ⟨hwf, rfl, fun conn hc => by cases hc⟩
  | parallelSafe a f =>
    simp only [runOp] at h
    split at h
    · next c hc =>
      split at h
      · next r' hm =>
        simp only [Option.some.injEq, Prod.mk.injEq] at h
        obtain ⟨hst, _, _⟩ := h
        obtain ⟨ho, hmem⟩ := user_exec_state (by simp) hc
        subst hst
        exact ⟨fun i hi => by simp only [hmem i, ho]; exact hwf i hi, by simp [specStep, ho], fun conn hc' => by cases hc'⟩
      · cases h
    · cases h
  | parallel a f =>
    simp only [runOp] at h
    split at h
    · next c hc =>
      split at h
      · next r' hm =>
        simp only [Option.some.injEq, Prod.mk.injEq] at h
        obtain ⟨hst, _, _⟩ := h
        obtain ⟨ho, hmem⟩ := user_exec_state (by simp) hc
        subst hst
        exact ⟨fun i hi => by simp only [hmem i, ho]; exact hwf i hi, by simp [specStep, ho], fun conn hc' => by cases hc'⟩
      · cases h
    · cases h
  | openLinks conn =>
    cases hopen : st.isOpen with
    | true =>
      rw [no_double_open cfs st conn sch hopen] at h
      simp only [Option.some.injEq, Prod.mk.injEq] at h
      obtain ⟨hst, htr, hr⟩ := h
      subst hst; subst htr; subst hr
      refine ⟨hwf, by simp [specStep, hopen], fun conn' _ => ⟨by simp, fun _ => ⟨rfl, rfl⟩⟩⟩
    | false =>
      simp only [runOp, hopen, Bool.false_eq_true, if_false] at h
      split at h
      · next c hc =>
        split at h
        · next r' hm =>
          simp only [Option.some.injEq, Prod.mk.injEq] at h
          obtain ⟨hst, _, hr⟩ := h
          subst hr
          have hclosed : ∀ i, i < cfs.length → st.mem i = false := fun i hi => by rw [hwf i hi, hopen]
          obtain ⟨hfail, hok⟩ := open_failure_closes_all_and_raises cfs conn st sch c r' hc hm
          by_cases hex : ∃ i u m, cfs[i]? = some (u, m) ∧ openFails st conn i u
          · obtain ⟨⟨e, _, _, _, hre, _⟩, hmem, hso⟩ := hfail hex
            subst hst
            refine ⟨fun i hi => by simp only [hmem i hi, hso], by simp [specStep, hre, hso], fun conn' _ => ⟨by simp [hre], fun hh => by cases hh⟩⟩
          · have hno : ∀ i u m, cfs[i]? = some (u, m) → ¬ openFails st conn i u := fun i u m hi hf => hex ⟨i, u, m, hi, hf⟩
            obtain ⟨hre, hmem, hso⟩ := hok hno
            subst hst
            refine ⟨fun i hi => by simp only [hmem i hi, hso], by simp [specStep, hre, hso], fun conn' _ => ⟨by simp [hre], fun hh => by cases hh⟩⟩
        · cases h
      · cases h

/-- **Any history of swarm-wide calls on one Swarm** (opens with any connection outcomes, closes, actions; any schedule
for each call): at the end every link is open iff `_is_open`, and `_is_open` is what the specification says - the swarm
is open iff the last successful `open_links` was not followed by a close or a failed open; rejected opens in between
do not change anything. -/
theorem history_state (cfs : List (Uri × Member)) :
    ∀ (hist : List (Op × List Nat)) (st0 st : SwarmState) (rs : List (Option Exc)), Wf cfs st0 →
      runHist cfs st0 hist = some (st, rs) →
      Wf cfs st ∧ st.isOpen = specFlag st0.isOpen (hist.map Prod.fst) rs ∧ rs.length = hist.length := by
  intro hist
  induction hist with
  | nil =>
    intro st0 st rs hwf h
    simp only [runHist, Option.some.injEq, Prod.mk.injEq] at h
    obtain ⟨h1, h2⟩ := h
    subst h1; subst h2
    exact ⟨hwf, rfl, rfl⟩
  | cons hd rest ih =>
    intro st0 st rs hwf h
    obtain ⟨op, sch⟩ := hd
    simp only [runHist] at h
    split at h
    · cases h
    · next st1 tr r hop =>
      split at h
      · cases h
      · next st2 rs' hrest =>
        simp only [Option.some.injEq, Prod.mk.injEq] at h
        obtain ⟨h1, h2⟩ := h
        subst h1; subst h2
        obtain ⟨hwf1, hflag1, _⟩ := call_state cfs st0 st1 op sch tr r hwf hop
        obtain ⟨hwf2, hflag2, hlen⟩ := ih st1 st2 rs' hwf1 hrest
        refine ⟨hwf2, ?_, by simp [hlen]⟩
        simp only [List.map_cons, specFlag]
        rw [← hflag1]; exact hflag2

/-! ### One argument dictionary re-used for several actions -/

/-- **The caller's dictionary is left as it was** by a swarm-wide action. -/
theorem args_dict_unchanged (d : ArgsDict) : dictAfterCall d = some d := by
  simp [dictAfterCall, gen_process_args_no_alias.1]

/-- the calls of a history were each executed with dictionary `d` (from some swarm state) and produced these outputs -/
inductive RanWith (cfs : List (Uri × Member)) (d : ArgsDict) :
    List (ActKind × (Uri → List Arg → Option Err) × List Nat) → List (List Ev × Option Exc) → Prop
  | nil : RanWith cfs d [] []
  | cons (k f sch st st' tr r rest outs) : runOp cfs st (actOp d f k) sch = some (st', tr, r) → RanWith cfs d rest outs →
      RanWith cfs d ((k, f, sch) :: rest) ((tr, r) :: outs)

/-- **Any history of actions re-using one dictionary object** (any mix of sequential / parallel / parallel_safe, any
failing subsets, any schedules): the dictionary is unchanged at the end, and EVERY call - not only the first - was
executed with the original dictionary `d`, so `each_once_with_own_args` / `sequential_in_order` /
`raises_iff_some_failed` apply to each of them with `d`'s own entries. -/
theorem shared_dict_history (cfs : List (Uri × Member)) (d : ArgsDict) :
    ∀ (calls : List (ActKind × (Uri → List Arg → Option Err) × List Nat)) (st : SwarmState) (dd : ArgsDict)
      (outs : List (List Ev × Option Exc)), runActs cfs st d calls = some (dd, outs) → dd = d ∧ RanWith cfs d calls outs := by
  intro calls
  induction calls with
  | nil =>
    intro st dd outs h
    simp only [runActs, Option.some.injEq, Prod.mk.injEq] at h
    obtain ⟨h1, h2⟩ := h
    subst h1; subst h2
    exact ⟨rfl, .nil⟩
  | cons hd rest ih =>
    intro st dd outs h
    obtain ⟨k, f, sch⟩ := hd
    simp only [runActs, args_dict_unchanged] at h
    split at h
    · next st' tr r _ hop hd' =>
      simp only [Option.some.injEq] at hd'
      subst hd'
      split at h
      · next dd' outs' hrest =>
        simp only [Option.some.injEq, Prod.mk.injEq] at h
        obtain ⟨h1, h2⟩ := h
        subst h1; subst h2
        obtain ⟨hdd, hran⟩ := ih st' dd' outs' hrest
        exact ⟨hdd, .cons k f sch st st' tr r rest outs' hop hran⟩
      · cases h
    · cases h

/-- **The join and the error collection are race-free: no interleaving deadlocks** - as long as the call has not
finished some thread can step ... -/
theorem no_deadlock (p : Params) (st : SwarmState) (sch : List Nat) (c : Cfg) (h : exec p st sch = some c)
    (hf : ∀ r, c.main ≠ .finished r) : ∃ t c', (machine p).step c t = some c' :=
  no_deadlock_aux h hf

/-- ... and no interleaving is longer than `8 * members + 7` steps: the call always finishes (given that the actions do). -/
theorem schedule_bounded (p : Params) (st : SwarmState) (sch : List Nat) (c : Cfg) (h : exec p st sch = some c) :
    sch.length ≤ 8 * p.cfs.length + 7 := by
  have := run_length_le (machine p) (measure p) (measure_decreases p) sch (init st) c h
  rw [measure_init] at this
  omega

/-- `reporter.errors[0]` never fails: the IndexError exit of the model is unreachable. -/
theorem never_index_error (p : Params) (hargs : ArgsOk p) (st : SwarmState) (sch : List Nat) (c : Cfg)
    (h : exec p st sch = some c) : c.main ≠ .psDone (some .indexError) := by
  intro hm
  obtain ⟨e, i, hx, _⟩ := (allInv_exec hargs h).res.psDone _ hm
  cases hx

/-- `Swarm.__init__` builds a dictionary: one entry per distinct URI ... -/
theorem mkSwarm_nodup (uris : List Uri) : KeysNodup (mkSwarm uris) := mkSwarm_nodup_aux uris
/-- ... and for distinct URIs the iteration order is the given order, member `k` being the k-th constructed object. -/
theorem mkSwarm_of_nodup (uris : List Uri) (h : uris.Nodup) : mkSwarm uris = uris.zipIdx := mkSwarm_of_nodup_aux uris h

/-! ## Non-vacuity: concrete instances -/

/-- two members, member 7 fails with error 4; arguments from the dictionary -/
def exF : Uri → List Arg → Option Err := fun u _ => if u = 7 then some (.user 4) else none
def exD : ArgsDict := some [(5, [1, 2]), (7, [])]
def exSt : SwarmState := ⟨false, fun _ => false⟩

example : ArgsOk (userCall (mkSwarm [5, 7]) .parallelSafe exD exF) := by
  intro u m hm
  have : (u, m) = (5, 0) ∨ (u, m) = (7, 1) := by simpa [userCall, mkSwarm, mkSwarmGo, dictSet] using hm
  rcases this with h | h <;> (cases h; exact ⟨_, rfl⟩)
example : KeysNodup (mkSwarm [5, 7, 5]) := by unfold KeysNodup; decide
example : mkSwarm [5, 7, 5] = [(5, 2), (7, 1)] := by decide
/-- an interleaving in which the failing member is overtaken: the call raises, chained from error 4, after both finished -/
example : ((exec (userCall (mkSwarm [5, 7]) .parallelSafe exD exF) exSt [0, 0, 0, 2, 1, 2, 1, 2, 0, 2, 0, 0, 0, 0]).map
    fun c => (c.main, c.trace)) =
    some (.finished (some (.chained (.user 4))), [.call 7 1 [], .call 5 0 [1, 2], .raised 7 (.user 4), .ret 5]) := by decide
/-- main cannot pass the join of a running thread: that schedule is not an execution -/
example : exec (userCall (mkSwarm [5, 7]) .parallelSafe exD exF) exSt [0, 0, 0, 0] = none := by decide
example : (sequential (mkSwarm [5, 7]) exD exF) =
    ([.call 5 0 [1, 2], .ret 5, .call 7 1 [], .raised 7 (.user 4)], some (.user (.user 4))) := by decide
/-- open_links with member 7 failing to connect: both closed again, not open, chained from the connection failure -/
example : ((runOp (mkSwarm [5, 7]) exSt (.openLinks fun u => u != 7) [0, 0, 0, 1, 2, 1, 2, 2, 2, 0, 0, 0, 0, 0, 0, 0, 0]).map
    fun r => (r.1.isOpen, r.1.mem 0, r.1.mem 1, r.2.2)) = some (false, false, false, some (.chained (.connFailed 7))) := by decide
/-- a history on one swarm: open, rejected open (identity), rejected open, close, failed open, open, rejected open -/
example : (runHist (mkSwarm [5]) fresh
    [(.openLinks fun _ => true, [0, 0, 1, 1, 0, 0, 0, 0]), (.openLinks fun _ => true, []), (.openLinks fun _ => false, []), (.closeLinks, []),
     (.openLinks fun _ => false, [0, 0, 1, 1, 1, 1, 0, 0, 0, 0, 0, 0]), (.openLinks fun _ => true, [0, 0, 1, 1, 0, 0, 0, 0]), (.openLinks fun _ => true, [])]).map
    (fun r => (r.1.isOpen, r.1.mem 0, r.2)) =
    some (true, true, [none, some .alreadyOpened, some .alreadyOpened, none, some (.chained (.connFailed 5)), none, some .alreadyOpened]) := by
  decide
/-- one dictionary for a sequential call, a failing parallel_safe call and a sequential retry: unchanged, same arguments each time -/
example : (runActs (mkSwarm [5]) fresh exD
    [(.sequential, fun _ _ => none, []), (.parallelSafe, fun _ _ => some (.user 9), [0, 0, 1, 1, 1, 1, 0, 0, 0, 0]),
     (.sequential, fun _ _ => none, [])]).map (fun r => (r.1 == exD, r.2.map (·.1))) =
    some (true, [[.call 5 0 [1, 2], .ret 5], [.call 5 0 [1, 2], .raised 5 (.user 9)], [.call 5 0 [1, 2], .ret 5]]) := by decide
example : openFails exSt (fun u => u != 7) 1 7 := .inr (by decide)
/-- outside the property (malformed dictionary): with a missing entry parallel_safe raises KeyError while the thread it
already started is still running - `ArgsOk` is a real hypothesis of `parallel_safe_returns_after_all` -/
example : ((exec (userCall (mkSwarm [5, 7]) .parallelSafe (some [(5, [1])]) exF) exSt [0, 0, 0]).map
    fun c => (c.main, c.thr 0)) = some (.finished (some (.keyError 7)), .ready [1]) := by decide

end CfVerif.C19

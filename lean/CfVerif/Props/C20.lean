/-
Props/C20 — property theorems for C20 (link URIs select the right driver and parse to the right radio settings).
Every theorem is about Model/C20 (`parseUri` = the REPAIRED `RadioDriver.parse_uri`, see fixes/D16-c20.patch), whose
constants, format strings, guard texts and class list are regenerated from /repo (Gen/C20).  URIs are written with the
printers of Spec/C20 (`mkUri`, `printUri`); helper lemmas are in Proofs/C20*.
-/
import CfVerif.Proofs.C20Link
namespace CfVerif.C20
open CfVerif

/-! ## Gen obligations: what the hand-written model assumes about the current source -/

theorem gen_parsed_path : Gen.C20.parsedPathExpr = "[part for part in parsed_uri.path.split('/') if part]" := by decide
theorem gen_urlparse : Gen.C20.parsedUriExpr = "urlparse(uri)" ∧ Gen.C20.parsedQueryExpr = "parse_qs(parsed_uri.query)" := by decide
theorem gen_parse_tests : Gen.C20.parseUriTests = ["not uri.startswith('radio://')",
    "len(parsed_uri.netloc) < 10 and parsed_uri.netloc.isdigit()", "len(parsed_path) > 0", "len(parsed_path) > 1",
    "len(parsed_path) > 2", "'rate_limit' in parsed_query"] := by decide
theorem gen_devid : Gen.C20.devidExprs = ["int(parsed_uri.netloc)", "crazyradio.get_serials().index(parsed_uri.netloc.upper())"] ∧
    Gen.C20.devidHandlers = ["ValueError: raise Exception"] ∧ Gen.C20.netlocLenBound = 10 := by decide
theorem gen_channel : Gen.C20.channelExpr = "int(parsed_path[0])" ∧ Gen.C20.channelDefault = 2 := by decide
theorem gen_rates : Gen.C20.rateTable = [("250K", 0), ("1M", 1), ("2M", 2)] ∧ Gen.C20.datarateDefault = 2 := by decide
theorem gen_address : Gen.C20.addressExpr = "new_addr" ∧ Gen.C20.addrPadArg = "parsed_path[2]" ∧
    Gen.C20.newAddrExpr = "struct.unpack('<BBBBB', binascii.unhexlify(addr))" ∧
    Gen.C20.addrUnpackArgs = ["binascii.unhexlify(addr)"] ∧ Gen.C20.addressDefault = [0xE7, 0xE7, 0xE7, 0xE7, 0xE7] := by decide
theorem gen_address_formats : parseFormat Gen.C20.addrPadFmt = some [.field { fill := '0', align := some '>', width := 10 }] ∧
    parseFmt Gen.C20.addrUnpackFmt = some [.B, .B, .B, .B, .B] := by decide
theorem gen_rate_limit : Gen.C20.rateLimitKey = "rate_limit" ∧ Gen.C20.rateLimitExpr = "int(parsed_query['rate_limit'][0])" := by decide
theorem gen_return : Gen.C20.parseUriReturn = "(devid, channel, datarate, address, rate_limit)" := by decide

/-! ## Well-formed radio URIs -/

/-- **parse_print.**  A radio URI names exactly one dongle, channel, data rate, 5-byte address and optional rate limit,
and parsing returns them: for every dongle id (index below 10^9 or serial number in either case, `Dongle`), channel
0..125, each of the three rates, address of 1..10 hex digits in either case (zero-padded on the left, bytes most
significant first) and optional rate limit. -/
theorem parse_print (serials : List Str) (dongle : Str) (devid : Nat) (hd : Dongle serials dongle devid)
    (ch : Nat) (hch : ch ≤ 125) (rate : Rate)
    (A : Str) (hA1 : 1 ≤ A.length) (hA10 : A.length ≤ 10) (hhex : ∀ c ∈ A, IsHex c)
    (limit : Option Nat) (hl : ∀ l, limit = some l → l < 10 ^ 4300) :
    parseUri serials (printUri dongle ch rate A limit) =
      .ok ⟨devid, ch, rate.value, beBytes5 (hexValue A), limit.map Int.ofNat⟩ :=
  parse_print_aux serials dongle devid hd ch hch rate A hA1 hA10 hhex limit hl

/-- **Shortened addresses are zero-padded on the left**: an address of fewer than ten hex digits parses exactly like the
same address written out with leading zeros. -/
theorem short_address_zero_padded (serials : List Str) (dongle : Str) (devid : Nat) (hd : Dongle serials dongle devid)
    (ch : Nat) (hch : ch ≤ 125) (rate : Rate)
    (A : Str) (hA1 : 1 ≤ A.length) (hA10 : A.length ≤ 10) (hhex : ∀ c ∈ A, IsHex c)
    (limit : Option Nat) (hl : ∀ l, limit = some l → l < 10 ^ 4300) :
    parseUri serials (printUri dongle ch rate A limit) =
      parseUri serials (printUri dongle ch rate (List.replicate (10 - A.length) '0' ++ A) limit) :=
  short_address_aux serials dongle devid hd ch hch rate A hA1 hA10 hhex limit hl

/-- **Query options.**  Other options may surround the rate limit (`?a=b&rate_limit=100&c=d`); the first `rate_limit`
counts.  Options are written without escapes (`OptOk`: no `& = + % #`, non-empty value). -/
theorem parse_print_query_options (serials : List Str) (dongle : Str) (devid : Nat) (hd : Dongle serials dongle devid)
    (ch : Nat) (hch : ch ≤ 125) (rate : Rate)
    (A : Str) (hA1 : 1 ≤ A.length) (hA10 : A.length ≤ 10) (hhex : ∀ c ∈ A, IsHex c)
    (pre post : List (Str × Str)) (hpre : ∀ kv ∈ pre, OptOk kv ∧ kv.1 ≠ "rate_limit".toList) (hpost : ∀ kv ∈ post, OptOk kv)
    (l : Nat) (hl : l < 10 ^ 4300) :
    parseUri serials (mkUri dongle [natStr ch, rate.text, A] false
        (some (queryText (pre ++ ("rate_limit".toList, natStr l) :: post)))) =
      .ok ⟨devid, ch, rate.value, beBytes5 (hexValue A), some l⟩ :=
  parse_print_query_options_aux serials dongle devid hd ch hch rate A hA1 hA10 hhex pre post hpre hpost l hl

/-- Options other than `rate_limit` leave the rate limit unset. -/
theorem parse_print_other_options (serials : List Str) (dongle : Str) (devid : Nat) (hd : Dongle serials dongle devid)
    (ch : Nat) (hch : ch ≤ 125) (rate : Rate)
    (A : Str) (hA1 : 1 ≤ A.length) (hA10 : A.length ≤ 10) (hhex : ∀ c ∈ A, IsHex c)
    (opts : List (Str × Str)) (hopts : ∀ kv ∈ opts, OptOk kv ∧ kv.1 ≠ "rate_limit".toList) :
    parseUri serials (mkUri dongle [natStr ch, rate.text, A] false (some (queryText opts))) =
      .ok ⟨devid, ch, rate.value, beBytes5 (hexValue A), none⟩ :=
  no_rate_limit_aux serials dongle devid hd ch hch rate A hA1 hA10 hhex opts hopts

/-- **defaults_when_omitted.**  Omitted trailing fields default: no channel → channel 2, 2M, E7E7E7E7E7; no rate → 2M,
E7E7E7E7E7; no address → E7E7E7E7E7 — with or without a trailing slash and with or without a rate limit. -/
theorem defaults_when_omitted (serials : List Str) (dongle : Str) (devid : Nat) (hd : Dongle serials dongle devid)
    (ch : Nat) (hch : ch ≤ 125) (rate : Rate) (limit : Option Nat) (hl : ∀ l, limit = some l → l < 10 ^ 4300) (trailing : Bool) :
    parseUri serials (mkUri dongle [] trailing (limitQuery limit)) =
      .ok ⟨devid, 2, Rate.r2M.value, [0xE7, 0xE7, 0xE7, 0xE7, 0xE7], limit.map Int.ofNat⟩ ∧
    parseUri serials (mkUri dongle [natStr ch] trailing (limitQuery limit)) =
      .ok ⟨devid, ch, Rate.r2M.value, [0xE7, 0xE7, 0xE7, 0xE7, 0xE7], limit.map Int.ofNat⟩ ∧
    parseUri serials (mkUri dongle [natStr ch, rate.text] trailing (limitQuery limit)) =
      .ok ⟨devid, ch, rate.value, [0xE7, 0xE7, 0xE7, 0xE7, 0xE7], limit.map Int.ofNat⟩ :=
  defaults_aux serials dongle devid hd ch hch rate limit hl trailing

/-- A trailing slash after the address changes nothing. -/
theorem trailing_slash_ignored (serials : List Str) (dongle : Str) (devid : Nat) (hd : Dongle serials dongle devid)
    (ch : Nat) (hch : ch ≤ 125) (rate : Rate)
    (A : Str) (hA1 : 1 ≤ A.length) (hA10 : A.length ≤ 10) (hhex : ∀ c ∈ A, IsHex c)
    (limit : Option Nat) (hl : ∀ l, limit = some l → l < 10 ^ 4300) :
    parseUri serials (mkUri dongle [natStr ch, rate.text, A] true (limitQuery limit)) =
      .ok ⟨devid, ch, rate.value, beBytes5 (hexValue A), limit.map Int.ofNat⟩ :=
  trailing_slash_aux serials dongle devid hd ch hch rate A hA1 hA10 hhex limit hl

/-- D16: the code as it is in the unrepaired tree does NOT default the omitted channel: `radio://0` and `radio://0/`
raise ValueError (`''.split('/') == ['']`), so `defaults_when_omitted` is false of `parseUriLive`. -/
theorem defaults_when_omitted_live_counterexample :
    parseUriLive [] (mkUri (natStr 0) [] false none) = .error .valueError ∧
    parseUriLive [] (mkUri (natStr 0) [] true none) = .error .valueError ∧
    ¬ (∀ trailing, parseUriLive [] (mkUri (natStr 0) [] trailing (limitQuery none)) =
        .ok ⟨0, 2, Rate.r2M.value, [0xE7, 0xE7, 0xE7, 0xE7, 0xE7], none⟩) := by
  refine ⟨by decide, by decide, fun h => ?_⟩
  have := h false
  revert this
  decide

/-- the repaired parser agrees with the live one wherever a channel is given (same concrete inputs) -/
example : parseUriLive [] "radio://0/80".toList = parseUri [] "radio://0/80".toList := by decide

/-! ## Malformed radio URIs are rejected (the error reaches `open_link`, see below) -/

/-- An address of 11 or more hex digits is rejected (odd length: `binascii.Error`; even: `struct.error`). -/
theorem long_address_rejected (serials : List Str) (dongle : Str) (devid : Nat) (hd : Dongle serials dongle devid)
    (ch : Nat) (hch : ch ≤ 125) (rate : Rate) (A : Str) (h11 : 11 ≤ A.length) (hhex : ∀ c ∈ A, IsHex c)
    (limit : Option Nat) (hl : ∀ l, limit = some l → l < 10 ^ 4300) :
    parseUri serials (printUri dongle ch rate A limit) = .error (if A.length % 2 = 1 then .valueError else .structError) :=
  long_address_aux serials dongle devid hd ch hch rate A h11 hhex limit hl

/-- A channel field that `int()` does not accept is rejected with that error, whatever follows it. -/
theorem bad_channel_rejected (serials : List Str) (dongle : Str) (devid : Nat) (hd : Dongle serials dongle devid)
    (segs : List Str) (hs : ∀ s ∈ segs, s ≠ [] ∧ ∀ c ∈ s, FieldChar c) (trailing : Bool)
    (limit : Option Nat) (hl : ∀ l, limit = some l → l < 10 ^ 4300)
    (C : Str) (hC : C ≠ [] ∧ ∀ c ∈ C, FieldChar c) (e : Err) (hbad : pyInt C = .error e) :
    parseUri serials (mkUri dongle (C :: segs) trailing (limitQuery limit)) = .error e :=
  bad_channel_aux serials dongle devid hd segs hs trailing limit hl C hC e hbad

/-- A dongle id that is neither a short index nor the serial number of an attached dongle (this includes the missing
dongle of `radio:///80`) is rejected with `Exception('Cannot find radio with serial ...')`. -/
theorem unknown_dongle_rejected (serials : List Str) (N : Str) (hN : ∀ c ∈ N, NetlocChar c)
    (hnot : ¬ (N.length < 10 ∧ N ≠ [] ∧ ∀ c ∈ N, isDigit c = true)) (hidx : indexOf? (N.map upperAscii) serials = none)
    (segs : List Str) (hs : ∀ s ∈ segs, s ≠ [] ∧ ∀ c ∈ s, FieldChar c) (trailing : Bool)
    (limit : Option Nat) (hl : ∀ l, limit = some l → l < 10 ^ 4300) :
    parseUri serials (mkUri N segs trailing (limitQuery limit)) = .error .exception :=
  unknown_dongle_aux serials N hN hnot hidx segs hs trailing limit hl

/-! ## Scanning -/

theorem gen_scan : Gen.C20.scanPlainTest = "address is None or address == DEFAULT_ADDR" ∧ Gen.C20.defaultAddrInt = 0xE7E7E7E7E7 ∧
    Gen.C20.scanAddrUnpackArgs = ["binascii.unhexlify(addr)"] ∧ Gen.C20.scanAddrPadArg = "address" ∧
    Gen.C20.scanNewAddrExpr = "struct.unpack('<BBBBB', binascii.unhexlify(addr))" ∧
    Gen.C20.scanSetAddressCalls = ["self._radio.set_address(new_addr)"] ∧
    Gen.C20.scanPlain.map (fun e => (e.1, e.2.2)) = [(0, ["chan"]), (1, ["chan"]), (2, ["chan"])] ∧
    Gen.C20.scanAddressed.map (fun e => (e.1, e.2.2)) = [(0, ["chan", "address"]), (1, ["chan", "address"]), (2, ["chan", "address"])] := by
  decide
theorem gen_scan_selected : Gen.C20.scanSelRegex = "^radio://([0-9]+)((/([0-9]+))(/(250K|1M|2M))?)?" ∧
    Gen.C20.scanSelChannelExpr = "int(uri_data.group(4))" ∧ Gen.C20.scanSelFmtArgs = ["f['channel']", "dr_string"] ∧
    Gen.C20.scanSelRateTable.map (fun e => e.1) = ["uri_data.group(6)", "uri_data.group(6)", "uri_data.group(6)"] := by decide

/-- **scan_results_parse_back (scan_interface).**  `scan_interface(address)` makes one pass per data rate; it reports, for
the channels `f0 f1 f2` that answered in the three passes, exactly the URIs `scanUri address rate channel`; with an
address it programs that address (most significant byte first) into the radio; and every reported URI parses back to
dongle 0, the scanned channel, the scanned rate and the scanned address. -/
theorem scan_results_parse_back (serials : List Str) (address : Option Nat) (ha : ∀ a, address = some a → a < 2 ^ 40)
    (f0 f1 f2 : List Nat) :
    scanInterface (address.map Int.ofNat) [f0.map Int.ofNat, f1.map Int.ofNat, f2.map Int.ofNat] =
      .ok [(Rate.r250K.value, f0.map (scanUri address .r250K)), (Rate.r1M.value, f1.map (scanUri address .r1M)),
           (Rate.r2M.value, f2.map (scanUri address .r2M))] ∧
    (∀ a, address = some a → scanSetAddress a = .ok (beBytes5 a)) ∧
    ∀ (r : Rate) (c : Nat), c ≤ 125 →
      parseUri serials (scanUri address r c) = .ok ⟨0, c, r.value, scannedAddr address, none⟩ :=
  ⟨scan_interface_aux address ha f0 f1 f2, fun a h => scanSetAddress_spec a (ha a h),
   fun r c hc => scan_parse_back_aux serials address ha r c hc⟩

/-- **scan_results_parse_back (scan_selected).**  A link `radio://<d>/<c>/<rate>` is scanned on channel `c` at that rate, and
the URI reported for it parses back to dongle 0, that channel, that rate and the default address. -/
theorem scan_selected_parse_back (serials : List Str) (d c : Nat) (hc : c ≤ 125) (r : Rate) :
    scanSelEntry (mkUri (natStr d) [natStr c, r.text] false none) = .ok ((c : Int), r.value) ∧
    scanSelReport ((c : Int), r.value) = .ok (scanUri none r c) ∧
    parseUri serials (scanUri none r c) = .ok ⟨0, c, r.value, [0xE7, 0xE7, 0xE7, 0xE7, 0xE7], none⟩ :=
  ⟨scanSelEntry_spec d c hc r, by simpa [scanUri, scanPlainAddr] using scanSelReport_spec c r,
   scan_parse_back_aux serials none (by simp) r c hc⟩

/-! ## Drivers -/

theorem gen_guards : Gen.C20.driverGuards.map (fun e => (e.1, e.2.map (fun g => g.1))) =
    [("RadioDriver", ["startswith"]), ("UsbDriver", ["search", "search"]), ("SerialDriver", ["search"]),
     ("UdpDriver", ["search"]), ("PrrtDriver", ["search"]), ("TcpDriver", ["search"])] ∧
    Gen.C20.radioConnectFirst = "devid, channel, datarate, address, rate_limit = self.parse_uri(uri)" ∧
    Gen.C20.radioConnectSets = ["self._radio.set_address(address)", "self._radio.set_arc(_nr_of_arc_retries)",
      "self._radio.set_channel(channel)", "self._radio.set_data_rate(datarate)"] := by decide
theorem gen_guard_regexes : (Gen.C20.driverGuards.map (fun e => e.2.map (fun g => (parseRe g.2).isSome || g.1 == "startswith"))).flatten.all id = true ∧
    (parseRe Gen.C20.serialUriRegex).isSome = true ∧ Gen.C20.serialDeviceExpr = "uri_data.group(1)" ∧
    Gen.C20.usbOpenExpr = "CfUsb(devid=int(uri_data.group(1)))" := by decide
theorem gen_get_link_driver : Gen.C20.getLinkTry = ["instance = cls()",
      "instance.connect(uri, radio_link_statistics_callback, link_error_callback)", "return instance"] ∧
    Gen.C20.getLinkHandlers = ["WrongUriType: continue"] ∧ Gen.C20.getLinkAfterLoop = ["return None"] := by decide

/-- `init_drivers()`: the class lists with and without the optional serial driver (`USE_CFLINK` not `cpp`). -/
theorem init_drivers_lists : initDrivers false = some [.radio, .usb, .udp, .prrt, .tcp] ∧
    initDrivers true = some [.radio, .usb, .serial, .udp, .prrt, .tcp] := by decide

/-- **one_driver_per_scheme.**  The scheme guards of the registered drivers are pairwise disjoint: no URI is accepted
by two different drivers. -/
theorem one_driver_per_scheme (uri : Str) (d1 d2 : Drv) (h1 : claims d1 uri = true) (h2 : claims d2 uri = true) : d1 = d2 :=
  one_driver_aux uri d1 d2 h1 h2

/-- Each known scheme is claimed by its driver, whatever follows the `scheme://` (for usb: `usb://<index>`); a driver
only claims URIs that start with its own scheme, so an unknown scheme is claimed by no driver. -/
theorem scheme_claimed_by_its_driver (rest : Str) :
    (claims .radio ("radio://".toList ++ rest) = true ∧ claims .serial ("serial://".toList ++ rest) = true ∧
     claims .udp ("udp://".toList ++ rest) = true ∧ claims .prrt ("prrt://".toList ++ rest) = true ∧
     claims .tcp ("tcp://".toList ++ rest) = true ∧ ∀ n : Nat, claims .usb ("usb://".toList ++ natStr n) = true) ∧
    (∀ (d : Drv) (uri : Str), claims d uri = true → isPrefix (schemeOf d) uri = true) :=
  ⟨by
    have e : "radio://".toList = schemeOf .radio ∧ "serial://".toList = schemeOf .serial ∧ "udp://".toList = schemeOf .udp ∧
        "prrt://".toList = schemeOf .prrt ∧ "tcp://".toList = schemeOf .tcp ∧ "usb://".toList = schemeOf .usb := by decide
    rw [e.1, e.2.1, e.2.2.1, e.2.2.2.1, e.2.2.2.2.1, e.2.2.2.2.2]
    exact scheme_claimed_aux rest, claims_prefix⟩

/-- `get_link_driver` returns the answer of THE driver that claims the URI, for every class list that contains it (any
order, with or without the optional drivers, even with duplicates), and `None` when no driver of the list claims it. -/
theorem get_link_driver_picks (env : Env) (cls : List Drv) (uri : Str) :
    (∀ d, d ∈ cls → claims d uri = true → getLinkDriver env cls uri = (connect env d uri).map (fun c => some (d, c))) ∧
    ((∀ d ∈ cls, claims d uri = false) → getLinkDriver env cls uri = .ok none) :=
  ⟨fun d hd hc => getLinkDriver_picks_aux env uri d hc cls hd, getLinkDriver_none_aux env uri cls⟩

/-- The radio settings applied are the parsed ones: a well-formed radio URI whose dongle is present connects the radio
driver with exactly the result of `parse_uri`. -/
theorem radio_uri_connects_with_parsed_settings (env : Env) (cls : List Drv) (hmem : Drv.radio ∈ cls) (uri : Str) (r : Radio)
    (hc : claims .radio uri = true) (hp : parseUri env.serials uri = .ok r) (hpres : env.radioPresent r.devid = true) :
    getLinkDriver env cls uri = .ok (some (.radio, .radio r)) := by
  rw [(get_link_driver_picks env cls uri).1 .radio hmem hc]
  simp [connect, hc, hp, hpres, Except.map]

/-! ## open_link -/

theorem gen_open_link : Gen.C20.openLinkBefore.take 3 = ["self.connection_requested.call(link_uri)", "self.state = State.INITIALIZED",
      "self.link_uri = link_uri"] ∧
    -- further statements before the `try` must be among these non-raising, event-free calls (D10's timer clean-up)
    (Gen.C20.openLinkBefore.drop 3).all (· ∈ ["self._cancel_answer_timers()"]) = true ∧
    Gen.C20.openLinkHandlerTypes = ["Exception"] ∧
    Gen.C20.openLinkAssign = "self.link = cflib.crtp.get_link_driver(link_uri, self.link_statistics.radio_link_statistics_callback, self._link_error_cb)" ∧
    Gen.C20.openLinkNoDriverTest = "not self.link" ∧
    Gen.C20.openLinkNoDriverCalls = ["self.connection_failed.call(link_uri, message)"] ∧
    Gen.C20.openLinkHandlerCalls = ["self.link.close()", "self.connection_failed.call(link_uri, exception_text)"] ∧
    Gen.C20.openLinkNoDriverMsg = "'No driver found or malformed URI: {}'.format(link_uri)" := by decide

/-- **unknown_or_malformed_gives_connection_failed.**  On a Crazyflie without an open link: if no driver of the list
claims the URI (unknown scheme), or the claiming driver raises (malformed URI: any error of `parse_uri`, or any other
exception of `connect`), `open_link` fires `connection_requested` and then exactly one `connection_failed`, no
exception escapes and no link is left open. -/
theorem unknown_or_malformed_gives_connection_failed (env : Env) (cls : List Drv) (setupRaises closeRaises : Bool) (uri : Str) :
    ((∀ d ∈ cls, claims d uri = false) →
      openLink env cls false setupRaises closeRaises uri =
        { events := [.requested uri, .failedNoDriver uri], escaped := none, link := .none }) ∧
    (∀ d e, d ∈ cls → claims d uri = true → connect env d uri = .error e →
      openLink env cls false setupRaises closeRaises uri =
        { events := [.requested uri, .failedException uri], escaped := none, link := .none }) := by
  refine ⟨fun h => openLink_no_driver env cls false _ _ uri (getLinkDriver_none_aux env uri cls h), ?_⟩
  intro d e hd hc he
  have := getLinkDriver_picks_aux env uri d hc cls hd
  rw [he] at this
  exact openLink_driver_raises env cls _ _ uri e this

/-- In particular a malformed radio URI (one on which `parse_uri` raises `e`) gives `connection_failed`. -/
theorem malformed_radio_uri_gives_connection_failed (env : Env) (cls : List Drv) (hmem : Drv.radio ∈ cls)
    (setupRaises closeRaises : Bool) (uri : Str) (hc : claims .radio uri = true) (e : Err) (hp : parseUri env.serials uri = .error e) :
    openLink env cls false setupRaises closeRaises uri =
      { events := [.requested uri, .failedException uri], escaped := none, link := .none } :=
  (unknown_or_malformed_gives_connection_failed env cls setupRaises closeRaises uri).2 .radio e hmem hc
    (by simp [connect, hc, hp])

/-- `open_link` never reports more than one `connection_failed`, and an exception can only escape from a `close()` that
raises inside the handler (closing a link left open by an earlier call, or the new link after a failed setup). -/
theorem open_link_no_escape (env : Env) (cls : List Drv) (prev setupRaises closeRaises : Bool) (uri : Str) :
    failedCount (openLink env cls prev setupRaises closeRaises uri).events ≤ 1 ∧
    ((openLink env cls prev setupRaises closeRaises uri).escaped ≠ none → closeRaises = true ∧ (prev = true ∨ setupRaises = true)) :=
  ⟨openLink_failed_le_one env cls prev setupRaises closeRaises uri, openLink_escape env cls prev setupRaises closeRaises uri⟩

/-! ## uri_helper -/

theorem gen_helper : Gen.C20.helperEnvName = "CFLIB_URI" ∧ Gen.C20.helperAddrEnvName = "CFLIB_URI" ∧
    Gen.C20.helperAddressExpr = "uri.rsplit('/', 1)[-1]" ∧ Gen.C20.helperAddressReturns = ["default", "int(address, 16)", "None"] := by decide

/-- The defaults of `uri_from_env` / `address_from_env` agree with `parse_uri`: the default URI is a well-formed radio
URI for dongle 0, channel 80, 2M, and its address is the default address, most significant byte first. -/
theorem helper_defaults (serials : List Str) :
    uriFromEnv none = printUri (natStr 0) 80 .r2M "E7E7E7E7E7".toList none ∧
    parseUri serials (uriFromEnv none) = .ok ⟨0, 80, Rate.r2M.value, [0xE7, 0xE7, 0xE7, 0xE7, 0xE7], none⟩ ∧
    addressFromEnv none = some 0xE7E7E7E7E7 ∧ beBytes5 0xE7E7E7E7E7 = [0xE7, 0xE7, 0xE7, 0xE7, 0xE7] := by
  have h1 : uriFromEnv none = printUri (natStr 0) 80 .r2M "E7E7E7E7E7".toList none := by decide
  refine ⟨h1, ?_, by decide, by decide⟩
  rw [h1, parse_print serials (natStr 0) 0 (.index 0 (by decide)) 80 (by decide) .r2M "E7E7E7E7E7".toList (by decide) (by decide)
    (by decide) none (by simp)]
  decide

/-! ## Non-vacuity: concrete instances of the hypotheses and of the statements -/

example : printUri (natStr 3) 80 .r250K "a1B2".toList (some 5) = "radio://3/80/250K/a1B2?rate_limit=5".toList := by decide
example : beBytes5 (hexValue "a1B2".toList) = [0, 0, 0, 0xA1, 0xB2] := by decide
example : parseUri [] "radio://3/80/250K/a1B2?rate_limit=5".toList = .ok ⟨3, 80, 0, [0, 0, 0, 0xA1, 0xB2], some 5⟩ := by decide
example : Dongle ["ABCDEF0123".toList, "E7E7E7E7E7".toList] "e7e7e7E7e7".toList 1 := .serial _ _ (by decide) (by decide) (by decide)
example : Dongle [] (natStr 999999999) 999999999 := .index _ (by decide)
example : Dongle [] "007".toList 7 := .digits "007".toList (by decide) (by decide) (by decide)
example : ∀ c ∈ "E7e7".toList, IsHex c := by decide
example : OptOk ("safelink".toList, "1".toList) ∧ "safelink".toList ≠ "rate_limit".toList := by unfold OptOk; decide
example : queryText [("a".toList, "b".toList), ("rate_limit".toList, natStr 100)] = "a=b&rate_limit=100".toList := by decide
example : mkUri (natStr 0) [] true (limitQuery (some 10)) = "radio://0/?rate_limit=10".toList := by decide
example : parseUri [] "radio://0".toList = .ok ⟨0, 2, 2, [0xE7, 0xE7, 0xE7, 0xE7, 0xE7], none⟩ := by decide
example : pyInt "8 0".toList = .error .valueError ∧ (∀ c ∈ "8 0".toList, FieldChar c) := by decide
example : parseUri [] "radio://0/80/2M/E7E7E7E7E7E".toList = .error .valueError ∧
    parseUri [] "radio://0/80/2M/E7E7E7E7E7E7".toList = .error .structError := by decide
example : ¬ ("nosuch".toList.length < 10 ∧ "nosuch".toList ≠ [] ∧ ∀ c ∈ "nosuch".toList, isDigit c = true) ∧
    indexOf? ("nosuch".toList.map upperAscii) ["E7E7E7E7E7".toList] = none := by decide
example : scanUri (some 0xE7E7E7E701) .r1M 40 = "radio://0/40/1M/E7E7E7E701".toList ∧
    scanUri none .r250K 7 = "radio://0/7/250K".toList ∧ scanUri (some 0xE7E7E7E7E7) .r2M 7 = "radio://0/7/2M".toList := by decide
example : scanSetAddress 0xE7E7E7E701 = .ok [0xE7, 0xE7, 0xE7, 0xE7, 0x01] := by decide
example : claims .usb "usb://12".toList = true ∧ claims .usb "usb://12\n".toList = true ∧ claims .usb "usb://x".toList = false ∧
    claims .usb "usb://1/".toList = false ∧ claims .tcp "tcp://192.168.4.1:5000".toList = true := by decide
example : ∀ d ∈ Drv.all, claims d "foo://bar".toList = false := by decide
example : openLink ⟨[], fun _ => true, fun _ => true, [], fun _ _ => true⟩ [.radio, .usb, .udp, .prrt, .tcp] false false false
    "radio://0/80/2M/XYZ".toList = ⟨[.requested "radio://0/80/2M/XYZ".toList, .failedException "radio://0/80/2M/XYZ".toList], none, .none⟩ := by
  decide
example : (openLink ⟨[], fun _ => true, fun _ => true, [], fun _ _ => true⟩ [.radio, .usb] true false true "radio://0/x".toList).escaped =
    some .exception := by decide

end CfVerif.C20

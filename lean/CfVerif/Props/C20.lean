/-
Props/C20 — property theorems for C20 (link URIs select the right driver and parse to the right radio settings).
Every theorem is about Model/C20 (`parseUri` = the REPAIRED `RadioDriver.parse_uri`, see fixes/D16-c20.patch), whose
constants, format strings, guard texts and class list are regenerated from /repo (Gen/C20).  URIs are written with the
printers of Spec/C20 (`mkUri`, `printUri`); helper lemmas are in Proofs/C20*.
-/
import CfVerif.Proofs.C20
namespace CfVerif.C20
open CfVerif

/-! ## Gen obligations: what the hand-written model assumes about the current source -/

theorem gen_parsed_path : Gen.C20.parsedPathExpr = "[part for part in parsed_uri.path.split('/') if part]" := by decide
theorem gen_urlparse : Gen.C20.parsedUriExpr = "urlparse(uri)" ∧ Gen.C20.parsedQueryExpr = "parse_qs(parsed_uri.query)" := by decide
theorem gen_parse_tests : Gen.C20.parseUriTests = ["not uri.startswith('radio://')",
    "len(parsed_uri.netloc) < 10 and parsed_uri.netloc.isdigit()", "len(parsed_path) > 0", "len(parsed_path) > 1",
    "len(parsed_path) > 2", "'rate_limit' in parsed_query"] := by decide
theorem gen_devid : Gen.C20.devidExprs = ["int(parsed_uri.netloc)", "crazyradio.get_serials().index(parsed_uri.netloc.upper())"] ∧
    Gen.C20.devidHandlers = ["ValueError: raise Exception"] ∧ Gen.C20.netlocLenBound = 10 := by decide
theorem gen_channel : Gen.C20.channelExpr = "int(parsed_path[0])" ∧ Gen.C20.channelDefault = 2 := by decide
theorem gen_rates : Gen.C20.rateTable = [("250K", 0), ("1M", 1), ("2M", 2)] ∧ Gen.C20.datarateDefault = 2 := by decide
theorem gen_address : Gen.C20.addressExpr = "new_addr" ∧ Gen.C20.addrPadArg = "parsed_path[2]" ∧
    Gen.C20.addrUnpackArgs = ["binascii.unhexlify(addr)"] ∧ Gen.C20.addressDefault = [0xE7, 0xE7, 0xE7, 0xE7, 0xE7] := by decide
theorem gen_address_formats : parseFormat Gen.C20.addrPadFmt = some [.field { fill := '0', align := some '>', width := 10 }] ∧
    parseFmt Gen.C20.addrUnpackFmt = some [.B, .B, .B, .B, .B] := by decide
theorem gen_rate_limit : Gen.C20.rateLimitKey = "rate_limit" ∧ Gen.C20.rateLimitExpr = "int(parsed_query['rate_limit'][0])" := by decide
theorem gen_return : Gen.C20.parseUriReturn = "(devid, channel, datarate, address, rate_limit)" := by decide

/-! ## Well-formed radio URIs -/

/-- **parse_print.**  A radio URI names exactly one dongle, channel, data rate, 5-byte address and optional rate limit,
and parsing returns them: for every dongle id (index below 10^9 or serial number in either case, `Dongle`), channel
0..125, each of the three rates, address of 1..10 hex digits in either case (zero-padded on the left, bytes most
significant first) and optional rate limit. -/
theorem parse_print (serials : List Str) (dongle : Str) (devid : Nat) (hd : Dongle serials dongle devid)
    (ch : Nat) (hch : ch ≤ 125) (rate : Rate)
    (A : Str) (hA1 : 1 ≤ A.length) (hA10 : A.length ≤ 10) (hhex : ∀ c ∈ A, IsHex c)
    (limit : Option Nat) (hl : ∀ l, limit = some l → l < 10 ^ 4300) :
    parseUri serials (printUri dongle ch rate A limit) =
      .ok ⟨devid, ch, rate.value, beBytes5 (hexValue A), limit.map Int.ofNat⟩ :=
  parse_print_aux serials dongle devid hd ch hch rate A hA1 hA10 hhex limit hl

/-- **Query options.**  Other options may surround the rate limit (`?a=b&rate_limit=100&c=d`); the first `rate_limit`
counts.  Options are written without escapes (`OptOk`: no `& = + % #`, non-empty value). -/
theorem parse_print_query_options (serials : List Str) (dongle : Str) (devid : Nat) (hd : Dongle serials dongle devid)
    (ch : Nat) (hch : ch ≤ 125) (rate : Rate)
    (A : Str) (hA1 : 1 ≤ A.length) (hA10 : A.length ≤ 10) (hhex : ∀ c ∈ A, IsHex c)
    (pre post : List (Str × Str)) (hpre : ∀ kv ∈ pre, OptOk kv ∧ kv.1 ≠ "rate_limit".toList) (hpost : ∀ kv ∈ post, OptOk kv)
    (l : Nat) (hl : l < 10 ^ 4300) :
    parseUri serials (mkUri dongle [natStr ch, rate.text, A] false
        (some (queryText (pre ++ ("rate_limit".toList, natStr l) :: post)))) =
      .ok ⟨devid, ch, rate.value, beBytes5 (hexValue A), some l⟩ :=
  parse_print_query_options_aux serials dongle devid hd ch hch rate A hA1 hA10 hhex pre post hpre hpost l hl

end CfVerif.C20

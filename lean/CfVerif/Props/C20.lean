/-
Props/C20 — property theorems for C20 (link URIs select the right driver and parse to the right radio settings).
-/
import CfVerif.Proofs.C20
namespace CfVerif.C20
open CfVerif

theorem gen_parsed_path : Gen.C20.parsedPathExpr = "[part for part in parsed_uri.path.split('/') if part]" := by decide

end CfVerif.C20

/-
Spec/C01: the environment of the radio driver and the closed system the C01 theorems are about.

ASSUMPTION (the firmware is not in this repository): `Peer` is the Crazyflie 2.x nRF51 ESB receive handler with
safelink, written from protocol knowledge:
  * a 3-byte packet with `(data[0] & 0xf3) == 0xf3` and `data[1] == 0x05` is the safelink control packet: it is echoed
    as the ack payload, `has_safelink := data[2]`, and both one-bit counters are reset to 1; it is not delivered;
  * otherwise the uplink packet is delivered (pushed to the receive queue) iff safelink is off or header bit 3 differs
    from `curr_up << 3` (then `curr_up` flips);
  * if safelink is off or header bit 2 differs from `curr_down << 2`, `curr_down` flips and the NEXT downlink packet is
    sent as ack payload, its header bits 3..2 replaced by `curr_down << 2` (when nothing is queued: the 3-byte idle ack
    `f3|curr_down<<2, 01, rssi`); otherwise the LAST ack payload is sent again.
`Outcome` is the lossy channel: per transmission the uplink frame is lost, or it is processed by the peer and the ack is
lost, or both get through.  The Crazyradio dongle reports this to `Crazyradio.send_packet` as a USB status byte (bit 0 =
acked) followed by the ack payload.
No Mathlib.
-/
import CfVerif.Model.C01
namespace CfVerif.C01
open CfVerif

/-- the peer's test for the safelink control packet -/
def isCtl (f : Bytes) : Bool :=
  match f with
  | [a, b, _] => (a.toNat &&& 0xF3) == 0xF3 && b == 5
  | _ => false

structure Peer where
  safelink : Bool        -- `has_safelink`
  up : Nat               -- `curr_up`
  down : Nat             -- `curr_down`
  rxq : List Bytes       -- every uplink frame handed to the Crazyflie so far, in order (log)
  txq : List Bytes       -- packets the Crazyflie has queued for the host and that were not sent yet
  deq : List Bytes       -- packets taken from `txq` so far, in order (log)
  last : Bytes           -- `lastSentPacket`
  deriving Repr, DecidableEq

/-- a peer at power-up / from an earlier session: any counters, nothing logged yet -/
def Peer.init : Peer := { safelink := false, up := 1, down := 1, rxq := [], txq := [], deq := [], last := [] }

/-- everything the Crazyflie has queued for the host so far, in order -/
def Peer.queued (p : Peer) : List Bytes := p.deq ++ p.txq

/-- `data[0] = (data[0] & 0xf3) | curr_down << 2` -/
def tagDown (f : Bytes) (d : Nat) : Bytes :=
  match f with
  | [] => []
  | h :: t => UInt8.ofNat ((h.toNat &&& 0xF3) ||| (d <<< 2)) :: t

/-- the ack sent when nothing is queued -/
def idleAck (d : Nat) (rssi : UInt8) : Bytes := [UInt8.ofNat (0xF3 ||| (d <<< 2)), 1, rssi]

/-- uplink half of the handler: deliver iff the sequence bit is fresh -/
def Peer.recvUp (p : Peer) (f : Bytes) : Peer :=
  match f with
  | [] => p
  | h :: _ =>
    if !p.safelink || (h.toNat &&& 0x08) ≠ (p.up <<< 3) then { p with rxq := p.rxq ++ [f], up := flip p.up } else p

/-- downlink half of the handler: next packet iff the host's down bit is fresh, else the last one again -/
def Peer.recvDown (p : Peer) (f : Bytes) (rssi : UInt8) : Peer × Bytes :=
  match f with
  | [] => (p, p.last)
  | h :: _ =>
    if !p.safelink || (h.toNat &&& 0x04) ≠ (p.down <<< 2) then
      match p.txq with
      | pk :: rest =>
        let out := if p.safelink then tagDown pk (flip p.down) else pk
        ({ p with down := flip p.down, txq := rest, deq := p.deq ++ [pk], last := out }, out)
      | [] => ({ p with down := flip p.down, last := idleAck (flip p.down) rssi }, idleAck (flip p.down) rssi)
    else (p, p.last)

/-- third byte of the control packet: the requested safelink state -/
def ctlFlag (f : Bytes) : UInt8 :=
  match f with
  | [_, _, c] => c
  | _ => 0

/-- the peer receives frame `f`; returns its new state and the ack payload -/
def Peer.recv (p : Peer) (f : Bytes) (rssi : UInt8) : Peer × Bytes :=
  if isCtl f then
    ({ p with safelink := ctlFlag f ≠ 0, up := 1, down := 1, last := f }, f)
  else (p.recvUp f).recvDown f rssi

inductive Outcome
  | ok | upLost | ackLost
  deriving Repr, DecidableEq

/-- what the dongle returns over USB: status byte (`st` supplies the retry count / power-detector bits) with
bit 0 = acked, followed by the ack payload if acked -/
def usbReply (st : UInt8) (o : Outcome) (payload : Bytes) : Bytes :=
  match o with
  | .ok => (st ||| 1) :: payload
  | _ => [st &&& 0xFE]

/-- the frame the driver thread transmits next -/
def Host.txFrame (h : Host) : Bytes :=
  if h.negLeft ≠ 0 then bytesOfNats Gen.C01.safelinkReq else h.frameOut

inductive SysOp
  | sub (p : Pkt)                               -- the application calls `RadioDriver.send_packet(p)`
  | timeout                                     -- a blocked `send_packet` gives up after its 2 s
  | queue (f : Bytes)                           -- the Crazyflie queues packet `f` for the host
  | xmit (o : Outcome) (st rssi : UInt8)        -- one transmission and what the channel does to it
  deriving Repr, DecidableEq

/-- host ∥ channel ∥ peer, with the log of everything the host did -/
structure Sys where
  host : Host
  peer : Peer
  evs : List Ev
  deriving Repr, DecidableEq

def Sys.init (n : Nat) (p : Peer) : Sys := { host := Host.init n, peer := p, evs := [] }

def Sys.step (s : Sys) : SysOp → Sys
  | .sub p => { s with host := (s.host.apply (.sub p)).1, evs := s.evs ++ (s.host.apply (.sub p)).2 }
  | .timeout => { s with host := (s.host.apply .timeout).1, evs := s.evs ++ (s.host.apply .timeout).2 }
  | .queue f => { s with peer := { s.peer with txq := s.peer.txq ++ [f] } }
  | .xmit o st rssi =>
    if s.host.dead then s else
    let f := s.host.txFrame
    let pr := match o with
      | .upLost => (s.peer, [])
      | _ => s.peer.recv f rssi
    let ans := match decodeUsb (some (usbReply st o pr.2)) 0 with
      | .ok a => a
      | .error _ => .exc
    { host := (s.host.tx ans).1, peer := pr.1, evs := s.evs ++ (s.host.tx ans).2 }

def Sys.run (s : Sys) (ops : List SysOp) : Sys := ops.foldl Sys.step s

/-! ### observables -/

/-- packets for which `RadioDriver.send_packet` returned True, in order -/
def accepted : List Ev → List Pkt
  | [] => []
  | .accepted p :: r => p :: accepted r
  | _ :: r => accepted r

/-- packets that came out of `receive_packet` (header byte as stored by `CRTPPacket`, then the data), in order -/
def received : List Ev → List Bytes
  | [] => []
  | .rx h _ _ d :: r => (UInt8.ofNat h :: d) :: received r
  | _ :: r => received r

/-- `link_error_callback('Too many packets lost')` calls -/
def lossReports : List Ev → Nat
  | [] => 0
  | .err .tooManyLost :: r => lossReports r + 1
  | _ :: r => lossReports r

/-- frames handed to the radio, in order -/
def transmitted : List Ev → List Bytes
  | [] => []
  | .tx f :: r => f :: transmitted r
  | _ :: r => transmitted r

/-- a frame/packet up to the two link-layer bits 3..2 of its header -/
def norm (f : Bytes) : Bytes :=
  match f with
  | [] => []
  | h :: t => UInt8.ofNat (h.toNat &&& 0xF3) :: t

/-- the null packet the loop sends when the application has nothing queued -/
def isNull (g : Bytes) : Bool := g == norm [UInt8.ofNat Gen.C01.nullByte]

/-- the peer's idle ack (port 15, channel 3, first data byte 1) -/
def isIdle (g : Bytes) : Bool :=
  match g with
  | [a, b, _] => a == 0xF3 && b == 1
  | _ => false

/-- uplink payload view: normalised, null packets dropped -/
def upView (l : List Bytes) : List Bytes := (l.map norm).filter (fun g => !isNull g)

/-- downlink payload view: normalised, idle acks dropped -/
def downView (l : List Bytes) : List Bytes := (l.map norm).filter (fun g => !isIdle g)

/-! ### the link-error rule -/

/-- `run` = number of consecutive unacknowledged transmissions so far.  The count restarts at every acknowledgement;
an error is reported exactly at the transmission that makes the run reach `n`. -/
def specErrs (n : Nat) : Nat → List Bool → List Bool
  | _, [] => []
  | _, true :: r => false :: specErrs n 0 r
  | run, false :: r => (run + 1 == n) :: specErrs n (run + 1) r

/-- For every transmission of the data loop in a run of the driver thread: was it acknowledged, and did the loop
call `link_error_callback('Too many packets lost')` while processing it. -/
def dataTrace (h : Host) : List Op → List (Bool × Bool)
  | [] => []
  | op :: ops =>
    (match op with
     | .tx (.resp a) =>
       if h.negLeft = 0 ∧ h.dead = false then [(a.ack, (h.tx (.resp a)).2.contains (.err .tooManyLost))] else []
     | _ => []) ++ dataTrace (h.apply op).1 ops

/-- the radio answered (no USB failure: those are link failures in their own right) -/
def Op.Answered : Op → Prop
  | .tx .none => False
  | .tx .exc => False
  | _ => True

/-- answers the driver thread got to its negotiation requests, in order (at most `Gen.safelinkAttempts`) -/
def negAnswers (h : Host) : List Op → List Ans
  | [] => []
  | op :: ops =>
    (match op with
     | .tx a => if h.negLeft ≠ 0 ∧ h.dead = false then [a] else []
     | _ => []) ++ negAnswers (h.apply op).1 ops

/-- the exact echo of the safelink request -/
def isEcho : Ans → Bool
  | .resp a => a.data == bytesOfNats Gen.C01.safelinkEcho
  | _ => false

/-- the application does not inject safelink control frames -/
def SysOp.WF : SysOp → Prop
  | .sub p => isCtl p.frame = false
  | .queue f => f ≠ []
  | _ => True

instance (op : SysOp) : Decidable op.WF := by
  cases op <;> simp only [SysOp.WF] <;> infer_instance

end CfVerif.C01

/-
Spec/C02 (S1): the well-formedness automaton `WF` for the trace of one `Crazyflie` object, written from the
property statement (not from the code).  The trace alternates user/environment operations and the outputs they
cause; the automaton reads, per operation, the operation marker and then its outputs.

  * every `open_link` is followed by `connection_requested`, then either `connection_failed` or a prefix of
    `link_established, connected, fully_connected` in that order;
  * a link failure (`linkFailed`, the driver's report) before the first packet is followed by exactly
    `connection_failed`; after the first packet by exactly `disconnected` and then `connection_lost`;
  * every `close_link` (a user operation, or `closeCalled`: called from inside a callback while a packet is being
    dispatched) is followed by exactly one `disconnected` of its own;
  * no `disconnected` / `connection_lost` / `connection_failed` without one of these causes, and nothing of an
    attempt after its termination (`Ph.idle`);
  * a blocking `SyncCrazyflie.open_link` returns only when `connected` was signalled and raises only when the
    attempt is over; `close_link` returns only when the attempt is over;
  * all owed outputs are produced within the operation that causes them (`expect = []` at every operation marker).
-/
import CfVerif.Model.C02
namespace CfVerif.C02

/-- phase of the current connection attempt -/
inductive Ph | idle | req | est | con | ful
  deriving DecidableEq, Repr, Inhabited

structure W where
  ph : Ph := .idle
  expect : List Out := []        -- outputs that must come next, in this order
  sync : Bool := false           -- the attempt was started by SyncCrazyflie (its callbacks are registered)
  syncWait : Bool := false       -- SyncCrazyflie.open_link has not returned yet
  deriving DecidableEq, Repr, Inhabited

def Ph.linked : Ph → Bool
  | .idle => false
  | _ => true

def Ph.isConnected : Ph → Bool
  | .con | .ful => true
  | _ => false

/-- effect of an accepted output on the phase -/
def W.advance (w : W) : Out → W
  | .cb .requested => { w with ph := .req }
  | .cb .failed => { w with ph := .idle }
  | .cb .established => { w with ph := .est }
  | .cb .connected => { w with ph := .con }
  | .cb .fully => { w with ph := .ful }
  | .cb .disconnected => { w with ph := .idle, sync := false }
  | .openReturned => { w with syncWait := false }
  | .openRaised => { w with syncWait := false, sync := false }
  | _ => w

/-- may `o` occur when nothing is owed? -/
def W.free (w : W) : Out → Bool
  | .cb .failed => w.ph = .req                       -- no usable driver
  | .cb .established => w.ph = .req
  | .cb .connected => w.ph = .est
  | .cb .fully => w.ph = .con
  | .openReturned => w.syncWait ∧ w.ph.isConnected
  | .openRaised => w.syncWait ∧ w.ph = .idle
  | _ => false

def wfOut (w : W) (o : Out) : Option W :=
  if o = .closeCalled then
    -- `close_link` called from a callback: it owes its one `disconnected`
    some { w with expect := .cb .disconnected :: w.expect }
  else if o = .linkFailed then
    -- the driver reports an error: what is owed depends on whether a packet has arrived in this attempt
    match w.ph with
    | .idle => none
    | .req => some { w with expect := .cb .failed :: w.expect }
    | _ => some { w with expect := .cb .disconnected :: .cb .lost :: w.expect }
  else match w.expect with
    | e :: es => if o = e then some ({ w with expect := es }.advance o) else none
    | [] => if w.free o then some (w.advance o) else none

def wfOp (w : W) (op : Op) : Option W :=
  if w.expect ≠ [] then none else
  match op with
  | .open _ => if w.ph = .idle then some { w with expect := [.cb .requested], sync := false } else none
  | .syncOpen _ =>
      if w.ph = .idle then some { w with expect := [.cb .requested], sync := true, syncWait := true }
      else if w.sync ∧ w.ph.isConnected then some { w with expect := [.openAlreadyOpen] }
      else none
  | .close => some { w with expect := [.cb .disconnected] }
  | .syncClose =>
      if w.sync ∧ w.ph.isConnected then some { w with expect := [.cb .disconnected, .closeReturned] }
      else some { w with expect := [.closeReturned] }
  | _ => some w

def wfOuts : W → List Out → Option W
  | w, [] => some w
  | w, o :: os => (wfOut w o).bind (wfOuts · os)

def wfRun : W → List (Op × List Out) → Option W
  | w, [] => some w
  | w, (op, outs) :: rest => ((wfOp w op).bind (wfOuts · outs)).bind (wfRun · rest)

/-- the trace is well formed: accepted, and nothing is owed at the end -/
def WF (tr : List (Op × List Out)) : Prop :=
  ∃ w, wfRun {} tr = some w ∧ w.expect = []


/-! ### vocabulary of the remaining clauses, over the state of the model -/

/-- phase of the attempt as a function of the `Crazyflie` object's state -/
def phase (s : S) : Ph :=
  if s.link then
    match s.st with
    | .init => .req
    | .conn => if s.stage = .up then (if s.isUpdated then .ful else .con) else .est
    | .disc => .idle
  else .idle


/-- "the log and parameter tables are complete" -/
def complete (d : Dev) (s : S) : Prop := s.logGot = d.nLog ∧ s.parToc = d.nPar ∧ s.extGot = d.extIds.length
/-- "every parameter has a value" -/
def allVals (d : Dev) (s : S) : Prop := ∀ i, i < d.nPar → s.vals.contains i = true


end CfVerif.C02

/-
Spec/C03: the environment the TOC download runs against, written from protocol knowledge (DESIGN.md
Appendix D; Python twin: harness/sim/crazyflie_device.py), NOT from cflib:
* the firmware's TOC server for one table (`Dev`), both protocol generations;
* the firmware's type tables and the meaning of the type byte (`specLog`, `specParam`);
* the adversarial network: every reply generated so far in the session stays in a pool and may be
  delivered at any time, any number of times (duplicates, stale and delayed replies), interleaved with
  arbitrary traffic on the other channels of the port;
* the extended-type server and the same network for `_ExtendedTypeFetcher`.
-/
import CfVerif.Model.C03
namespace CfVerif.C03
open CfVerif

/-- one entry of a device table: type byte and the two C strings -/
structure Item where
  typ : UInt8
  group : Bytes
  name : Bytes
  deriving Repr, DecidableEq

/-- body of an item reply: type, group NUL, name NUL -/
def itemBytes (it : Item) : Bytes := it.typ :: (it.group ++ 0 :: (it.name ++ [0]))

/-- the TOC server for one table -/
structure Dev where
  v2 : Bool            -- protocol generation (16-bit / 8-bit indices)
  items : List Item
  crc : Nat
  extra : Bytes        -- further bytes the firmware appends to the info reply (max blocks/ops for the log)
  deriving Repr, DecidableEq

def Dev.info (d : Dev) : Bytes :=
  if d.v2 then 3 :: (leBytes 2 d.items.length ++ (leBytes 4 d.crc ++ d.extra))
  else 1 :: (leBytes 1 d.items.length ++ (leBytes 4 d.crc ++ d.extra))

def Dev.body (d : Dev) (i : Nat) : Bytes :=
  match d.items[i]? with
  | some it => itemBytes it
  | none => []

def Dev.item (d : Dev) (i : Nat) : Bytes :=
  if d.v2 then 2 :: (leBytes 2 i ++ d.body i) else 0 :: (leBytes 1 i ++ d.body i)

/-- reply to one request on channel 0 (none: the firmware does not answer) -/
def Dev.reply (d : Dev) (req : Bytes) : Option Bytes :=
  if d.v2 then
    match req with
    | [3] => some d.info
    | [2, lo, hi] => some (d.item (lo.toNat + 256 * hi.toNat))
    | _ => none
  else
    match req with
    | [1] => some d.info
    | [0, i] => some (d.item i.toNat)
    | _ => none

/-- the requests a client must send (firmware side of the protocol): info, item `j` -/
def Dev.infoReq (d : Dev) : Bytes := if d.v2 then [3] else [1]
def Dev.itemReq (d : Dev) (j : Nat) : Bytes :=
  if d.v2 then [2, UInt8.ofNat (j % 256), UInt8.ofNat (j / 256)] else [0, UInt8.ofNat j]

/-- largest table the generation can address + 1 -/
def Dev.bound (d : Dev) : Nat := if d.v2 then 65536 else 256

/-! ### what the table means (firmware side) -/

/-- firmware log types: id -> (C type, unpack format) -/
def fwLogType : Nat → Option (String × String)
  | 1 => some ("uint8_t", "<B") | 2 => some ("uint16_t", "<H") | 3 => some ("uint32_t", "<L")
  | 4 => some ("int8_t", "<b") | 5 => some ("int16_t", "<h") | 6 => some ("int32_t", "<i")
  | 7 => some ("float", "<f") | 8 => some ("FP16", "<e")
  | _ => none

/-- firmware parameter types (low nibble of the type byte) -/
def fwParamType : Nat → Option (String × String)
  | 0x08 => some ("uint8_t", "<B") | 0x09 => some ("uint16_t", "<H") | 0x0A => some ("uint32_t", "<L")
  | 0x0B => some ("uint64_t", "<Q") | 0x00 => some ("int8_t", "<b") | 0x01 => some ("int16_t", "<h")
  | 0x02 => some ("int32_t", "<i") | 0x03 => some ("int64_t", "<q") | 0x05 => some ("FP16", "")
  | 0x06 => some ("float", "<f") | 0x07 => some ("double", "<d")
  | _ => none

def NulFree (b : Bytes) : Prop := (0 : UInt8) ∉ b
instance (b : Bytes) : Decidable (NulFree b) := by unfold NulFree; infer_instance

/-- a legal log table entry: C strings, one of the eight log types -/
def Item.WfLog (it : Item) : Prop := NulFree it.group ∧ NulFree it.name ∧ (fwLogType it.typ.toNat).isSome
/-- a legal parameter table entry: C strings, a parameter type in the low nibble (flags 0x10 extended,
0x40 read-only; the other bits are free) -/
def Item.WfParam (it : Item) : Prop := NulFree it.group ∧ NulFree it.name ∧ (fwParamType (it.typ.toNat % 16)).isSome
instance (it : Item) : Decidable it.WfLog := by unfold Item.WfLog; infer_instance
instance (it : Item) : Decidable it.WfParam := by unfold Item.WfParam; infer_instance

/-- the library-side element that entry `i` of a log table must become -/
def specLog (i : Nat) (it : Item) : Elem :=
  let t := (fwLogType it.typ.toNat).getD ("", "")
  { ident := i, group := it.group, name := it.name, ctype := t.1, pytype := t.2,
    access := 0, extended := false, persistent := false }

/-- the library-side element that entry `i` of a parameter table must become (before the extended-type
query): access 1 = read-only, `extended` = flag 0x10 -/
def specParam (i : Nat) (it : Item) : Elem :=
  let t := (fwParamType (it.typ.toNat % 16)).getD ("", "")
  { ident := i, group := it.group, name := it.name, ctype := t.1, pytype := t.2,
    access := if it.typ.toNat / 64 % 2 = 1 then 1 else 0,
    extended := it.typ.toNat / 16 % 2 = 1, persistent := false }

/-- elements of a whole table, by index -/
def specElems (spec : Nat → Item → Elem) (items : List Item) : List Elem := items.mapIdx spec

/-- the dictionary obtained by adding the elements in index order -/
def tocOf (es : List Elem) : Toc := es.foldl Toc.add []

/-- apply `f` to every element object of the dictionary (keys and order unchanged) -/
def Toc.mapElems (f : Elem → Elem) (t : Toc) : Toc :=
  t.map (fun gm => (gm.1, gm.2.map (fun ne => (ne.1, f ne.2))))

/-! ### closed system: fetcher ‖ device ‖ adversarial network -/

structure Sys where
  f : Fetcher
  pool : List Bytes     -- every reply generated so far on channel 0 of this port
  sent : List Bytes     -- requests transmitted, in order
  finished : Nat        -- how often `finished_callback` was called
  deriving Repr, DecidableEq

inductive Choice
  | reply (i : Nat)                      -- deliver pool[i] (again)
  | other (chan : Nat) (data : Bytes)    -- a packet on another channel of the port (settings, data, misc ...)
  | disconnect                           -- the link is lost or closed: `cf.disconnected` is called
  deriving Repr, DecidableEq

/-- dispatch one packet to the fetcher's callback; an exception is swallowed by the dispatcher -/
def Sys.deliver (dec : Nat → Bytes → Except PyErr Elem) (d : Dev) (s : Sys) (chan : Nat) (data : Bytes) : Sys :=
  match s.f.onPacket dec chan data with
  | .error _ => s
  | .ok r => { f := r.f, pool := s.pool ++ r.sends.filterMap d.reply, sent := s.sent ++ r.sends,
               finished := s.finished + (if r.finished then 1 else 0) }

def Sys.step (dec : Nat → Bytes → Except PyErr Elem) (d : Dev) (s : Sys) : Choice → Sys
  | .reply i =>
    match s.pool[i]? with
    | some p => s.deliver dec d 0 p
    | none => s
  | .other chan data => if chan = 0 then s else s.deliver dec d chan data
  | .disconnect => { s with f := s.f.disconnect }

/-- `TocFetcher.start()`: the info request goes out -/
def Sys.init (d : Dev) : Option Sys :=
  match Fetcher.start d.v2 with
  | .ok (f, r) => some { f := f, pool := (d.reply r).toList, sent := [r], finished := 0 }
  | .error _ => none

def Sys.run (dec : Nat → Bytes → Except PyErr Elem) (d : Dev) (s : Sys) (cs : List Choice) : Sys :=
  cs.foldl (Sys.step dec d) s

/-! ### extended types -/

/-- the firmware's answer to `02 id16` on the misc channel: `02 id16 ext`, ext = 1 for persistent -/
def extReply (persistent : Nat → Bool) (req : Bytes) : Option Bytes :=
  match req with
  | [2, lo, hi] => some [2, lo, hi, if persistent (lo.toNat + 256 * hi.toNat) then 1 else 0]
  | _ => none

structure XSys where
  x : ExtF
  pool : List Bytes     -- every extended-type reply generated so far (misc channel)
  sent : List Bytes
  deriving Repr, DecidableEq

inductive XChoice
  | reply (i : Nat)                      -- deliver pool[i] (again) on the misc channel
  | other (chan : Nat) (data : Bytes)    -- any packet on another channel of the param port (e.g. stale TOC replies)
  | worker                               -- the fetcher's thread runs one loop iteration (if enabled)
  | misc (data : Bytes)                  -- any other packet on the misc channel (first byte ≠ 02): an unsolicited
                                         -- value-updated notification `01 id16 value` for the awaited or any other
                                         -- parameter, a persistent-state / default-value answer, an empty packet
  | disconnect                           -- the link is lost or closed: `cf.disconnected` is called
  deriving Repr, DecidableEq

def XSys.deliver (s : XSys) (chan : Nat) (data : Bytes) : XSys :=
  match s.x.onPacket chan data with
  | .error _ => s
  | .ok x' => { s with x := x' }

def XSys.step (persistent : Nat → Bool) (s : XSys) : XChoice → XSys
  | .reply i =>
    match s.pool[i]? with
    | some p => s.deliver 3 p
    | none => s
  | .other chan data => if chan = 3 then s else s.deliver chan data
  | .worker =>
    match s.x.worker with
    | some (x', r) => { x := x', pool := s.pool ++ (extReply persistent r).toList, sent := s.sent ++ [r] }
    | none => s
  | .misc data => if data.head? = some 2 then s else s.deliver 3 data
  | .disconnect => { s with x := s.x.disconnect }

def XSys.run (persistent : Nat → Bool) (s : XSys) (cs : List XChoice) : XSys :=
  cs.foldl (XSys.step persistent) s

end CfVerif.C03

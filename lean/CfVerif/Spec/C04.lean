/-
Spec/C04 - the environment of the parameter subsystem and the closed system the property is stated about.

* `Dev`: the firmware's parameter server (DESIGN Appendix D), written from protocol knowledge, independent of cflib's
  tables: values are raw little-endian byte strings of the width of the parameter's type; one reply per request.
  It is the Lean twin of `harness/sim/crazyflie_device.py` (port 2) and is cross-checked against it by the line protocol.
* `Sys`: host (Model/C04) + device + the FIFO of packets in flight from the device to the host.  Events: an API call
  from some thread, the two steps of the updater thread, delivery of the oldest packet in flight by the incoming-packet
  thread, a firmware-side change of a parameter (with or without its `MISC_VALUE_UPDATED` notification).
  "For every interleaving of requests from any number of threads and every reply delay" = for every event list.
* the vocabulary of the property: `Answers` (Appendix D: which reply answers which request), `encodeInt` (two's-complement
  little-endian bytes of the type's width).
-/
import CfVerif.Model.C04
namespace CfVerif.C04
open CfVerif

/-! ### the device -/

/-- byte width of a firmware parameter type code (firmware `param.h`: bits 0-1 = log2 of the width, bit 2 = float,
bit 3 = unsigned); FP16 (0x05) is two bytes -/
def devWidth : Nat → Option Nat
  | 0x08 | 0x00 => some 1
  | 0x09 | 0x01 | 0x05 => some 2
  | 0x0A | 0x02 | 0x06 => some 4
  | 0x0B | 0x03 | 0x07 => some 8
  | _ => none

structure DevParam where
  tcode : Nat
  value : List UInt8
  ro : Bool
  persistent : Bool
  dflt : List UInt8
  stored : Option (List UInt8)
  deriving DecidableEq, Repr

structure Dev where
  v2 : Bool
  params : List DevParam
  deriving DecidableEq, Repr

def devENOENT : UInt8 := 2

/-- `(id, id bytes)` at the head of a read / write request -/
def Dev.pid (d : Dev) (data : List UInt8) : Option (Nat × List UInt8) :=
  if d.v2 then
    match data with
    | a :: b :: _ => some (a.toNat + 256 * b.toNat, [a, b])
    | _ => none
  else
    match data with
    | a :: _ => some (a.toNat, [a])
    | _ => none

def Dev.setParam (d : Dev) (i : Nat) (f : DevParam → DevParam) : Dev :=
  { d with params := d.params.modify i f }

/-- firmware-side change of a value -/
def Dev.setValue (d : Dev) (i : Nat) (raw : List UInt8) : Dev := d.setParam i (fun p => { p with value := raw })

/-- the reply (at most one) to a request on the PARAM port -/
def Dev.handle (d : Dev) (rq : Pkt) : Dev × List Pkt :=
  if rq.chan = 1 then
    match d.pid rq.data with
    | none => (d, [])
    | some (i, ib) =>
      match d.params[i]? with
      | none => (d, [{ chan := 1, data := if d.v2 then ib ++ [devENOENT] else ib }])
      | some p => (d, [{ chan := 1, data := ib ++ (if d.v2 then [0] else []) ++ p.value }])
  else if rq.chan = 2 then
    match d.pid rq.data with
    | none => (d, [])
    | some (i, ib) =>
      match d.params[i]? with
      | none => (d, [{ chan := 2, data := ib ++ [devENOENT] }])
      | some p =>
        let raw := rq.data.drop ib.length
        if !p.ro && devWidth p.tcode == some raw.length then
          (d.setValue i raw, [{ chan := 2, data := ib ++ raw }])
        else (d, [{ chan := 2, data := ib ++ p.value }])
  else if rq.chan = 3 then
    match rq.data with
    | c :: a :: b :: _ =>
      let i := a.toNat + 256 * b.toNat
      let head := [c, a, b]
      let err : Dev × List Pkt := (d, [{ chan := 3, data := head ++ [devENOENT] }])
      match d.params[i]? with
      | none => if c.toNat = 2 ∨ c.toNat = 3 ∨ c.toNat = 4 ∨ c.toNat = 5 ∨ c.toNat = 6 then err else (d, [])
      | some p =>
        if c.toNat = 2 then (d, [{ chan := 3, data := head ++ [if p.persistent then 1 else 0] }])
        else if c.toNat = 3 then
          if p.persistent then (d.setParam i (fun q => { q with stored := some q.value }), [{ chan := 3, data := head ++ [0] }]) else err
        else if c.toNat = 5 then
          if p.persistent then (d.setParam i (fun q => { q with stored := none }), [{ chan := 3, data := head ++ [0] }]) else err
        else if c.toNat = 4 then
          if p.persistent then
            match p.stored with
            | none => (d, [{ chan := 3, data := head ++ [0] ++ p.dflt }])
            | some s => (d, [{ chan := 3, data := head ++ [1] ++ p.dflt ++ s }])
          else err
        else if c.toNat = 6 then (d, [{ chan := 3, data := head ++ p.dflt }])
        else (d, [])
    | _ => (d, [])
  else (d, [])

/-- the unsolicited `MISC_VALUE_UPDATED` notification for parameter `i`: `01 id16 value` on channel 3 -/
def Dev.notify (d : Dev) (i : Nat) : Option Pkt :=
  (d.params[i]?).map fun p => { chan := 3, data := [1, UInt8.ofNat (i % 256), UInt8.ofNat (i / 256 % 256)] ++ p.value }

/-! ### the closed system -/

inductive Api
  | setValue (cn : List Nat) (v : PyVal) (inCb : Bool)
  | getValue (cn : List Nat) (inCb : Bool)
  | requestUpdate (cn : List Nat) (proto4 : Bool)
  | getDefault (cn : List Nat) (rid : Nat)
  | getState (cn : List Nat) (rid : Nat)
  | store (cn : List Nat) (rid : Option Nat)
  | clear (cn : List Nat) (rid : Option Nat)
  | addCb (g n : Option Nat) (cb : Nat)
  | removeCb (g : Nat) (n : Option Nat) (cb : Nat)
  deriving DecidableEq, Repr

/-- execute one API call on the host -/
def Api.run (S2F : List Char → Except PyErr Nat) (v : Variant) (h : Host) : Api → Host × List Out
  | .setValue cn x c => _root_.CfVerif.C04.setValue S2F h cn x c
  | .getValue cn c => _root_.CfVerif.C04.getValue h cn c
  | .requestUpdate cn p => _root_.CfVerif.C04.requestUpdate h cn p
  | .getDefault cn r => _root_.CfVerif.C04.getDefault v h cn r
  | .getState cn r => _root_.CfVerif.C04.getState v h cn r
  | .store cn r => _root_.CfVerif.C04.store v h cn r
  | .clear cn r => _root_.CfVerif.C04.clear v h cn r
  | .addCb g n cb => (_root_.CfVerif.C04.addCb h g n cb, [])
  | .removeCb g n cb => _root_.CfVerif.C04.removeCb h g n cb

structure Sys where
  host : Host
  dev : Dev
  down : List Pkt          -- device -> host packets in flight, head = next to be delivered
  deriving DecidableEq, Repr

inductive Ev
  | api (thread : Nat) (c : Api)          -- a thread performs an API call
  | updGet                                -- updater thread: `request_queue.get()`
  | updSend                               -- updater thread: `wait_lock.acquire()` and transmit; the device answers
  | deliver                               -- incoming-packet thread dispatches the oldest packet in flight
  | devSet (i : Nat) (raw : List UInt8) (notify : Bool)   -- the firmware changes a parameter [and announces it]
  deriving DecidableEq, Repr

/-- `none`: the event is not enabled in this state -/
def Sys.step (S2F : List Char → Except PyErr Nat) (v : Variant) (s : Sys) : Ev → Option (Sys × List Out)
  | .api _ c =>
    let (h, o) := c.run S2F v s.host
    some ({ s with host := h }, o)
  | .updGet => (updGet s.host).map fun h => ({ s with host := h }, [])
  | .updSend =>
    match updSend s.host with
    | none => none
    | some (h, o) =>
      match o with
      | [.tx p] =>
        let (d, reps) := s.dev.handle p
        some ({ host := h, dev := d, down := s.down ++ reps }, o)
      | _ => some ({ s with host := h }, o)
  | .deliver =>
    match s.down with
    | [] => none
    | p :: rest =>
      let (h, o) := rx v s.host p
      some ({ s with host := h, down := rest }, o)
  | .devSet i raw notify =>
    let d := s.dev.setValue i raw
    some ({ s with dev := d, down := s.down ++ (if notify then (d.notify i).toList else []) }, [])

/-- run an event list; `none` as soon as an event is not enabled.  Outputs are tagged with the index of their event. -/
def Sys.run (S2F : List Char → Except PyErr Nat) (v : Variant) : Sys → List Ev → Option (Sys × List Out)
  | s, [] => some (s, [])
  | s, e :: es =>
    match s.step S2F v e with
    | none => none
    | some (s1, o1) =>
      match Sys.run S2F v s1 es with
      | none => none
      | some (s2, o2) => some (s2, o1 ++ o2)

/-! ### vocabulary of the property -/

/-- two's-complement little-endian bytes of `v` in `k` bytes (the wire form of an integer parameter) -/
def encodeInt (k : Nat) (v : Int) : List UInt8 := leBytes k (v % (256 ^ k : Nat)).toNat

/-- Appendix D: `rep` is the reply the device sends to request `rq` (same channel; same index for read / write,
same command and index for misc) -/
def Answers (v2 : Bool) (rq rep : Pkt) : Bool :=
  rq.chan == rep.chan &&
    (if rq.chan == 3 then rep.data.take 3 == rq.data.take 3 && rq.data.length ≥ 3
     else if v2 then rep.data.take 2 == rq.data.take 2 && rq.data.length ≥ 2
     else rep.data.take 1 == rq.data.take 1 && rq.data.length ≥ 1)

end CfVerif.C04

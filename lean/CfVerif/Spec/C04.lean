/-
Spec/C04 - the environment of the parameter subsystem and the closed system the property is stated about.

* `Dev`: the firmware's parameter server (DESIGN Appendix D), written from protocol knowledge, independent of cflib's
  tables: values are raw little-endian byte strings of the width of the parameter's type; one reply per request.
  It is the Lean twin of `harness/sim/crazyflie_device.py` (port 2) and is cross-checked against it by the line protocol.
* `Sys`: host (Model/C04) + device + the FIFO of packets in flight from the device to the host.  Events: an API call
  from some thread, the two steps of the updater thread, delivery of the oldest packet in flight by the incoming-packet
  thread, a firmware-side change of a parameter (with or without its `MISC_VALUE_UPDATED` notification).
  "For every interleaving of requests from any number of threads and every reply delay" = for every event list.
* the vocabulary of the property: `Answers` (Appendix D: which reply answers which request), `encodeInt` (two's-complement
  little-endian bytes of the type's width).
-/
import CfVerif.Model.C04
namespace CfVerif.C04
open CfVerif

/-! ### the device -/

/-- byte width of a firmware parameter type code (firmware `param.h`: bits 0-1 = log2 of the width, bit 2 = float,
bit 3 = unsigned); FP16 (0x05) is two bytes -/
def devWidth : Nat → Option Nat
  | 0x08 | 0x00 => some 1
  | 0x09 | 0x01 | 0x05 => some 2
  | 0x0A | 0x02 | 0x06 => some 4
  | 0x0B | 0x03 | 0x07 => some 8
  | _ => none

structure DevParam where
  tcode : Nat
  value : List UInt8
  ro : Bool
  persistent : Bool
  dflt : List UInt8
  stored : Option (List UInt8)
  deriving DecidableEq, Repr

structure Dev where
  v2 : Bool
  params : List DevParam
  deriving DecidableEq, Repr

def devENOENT : UInt8 := 2

/-- bytes of a parameter index in the device's protocol generation -/
def Dev.idw (d : Dev) : Nat := if d.v2 then 2 else 1

/-- `(id, id bytes)` at the head of a read / write request; `none`: too short, not answered -/
def Dev.pid (d : Dev) (data : List UInt8) : Option (Nat × List UInt8) :=
  if d.idw ≤ data.length then some (leVal (data.take d.idw), data.take d.idw) else none

def Dev.setParam (d : Dev) (i : Nat) (f : DevParam → DevParam) : Dev :=
  { d with params := d.params.modify i f }

/-- firmware-side change of a value -/
def Dev.setValue (d : Dev) (i : Nat) (raw : List UInt8) : Dev := d.setParam i (fun p => { p with value := raw })

/-- read: `id [status] value`, status only in the current protocol generation -/
def Dev.read (d : Dev) (data : List UInt8) : Dev × List Pkt :=
  match d.pid data with
  | none => (d, [])
  | some (i, ib) =>
    match d.params[i]? with
    | none => (d, [{ chan := 1, data := if d.v2 then ib ++ [devENOENT] else ib }])
    | some p => (d, [{ chan := 1, data := ib ++ (if d.v2 then [0] else []) ++ p.value }])

/-- write: the value is taken when the parameter is writable and the width is right; the reply carries the value now in effect -/
def Dev.write (d : Dev) (data : List UInt8) : Dev × List Pkt :=
  match d.pid data with
  | none => (d, [])
  | some (i, ib) =>
    match d.params[i]? with
    | none => (d, [{ chan := 2, data := ib ++ [devENOENT] }])
    | some p =>
      let raw := data.drop ib.length
      if !p.ro && devWidth p.tcode == some raw.length then (d.setValue i raw, [{ chan := 2, data := ib ++ raw }])
      else (d, [{ chan := 2, data := ib ++ p.value }])

/-- misc command `c` for parameter index `i`: new device state and the reply body after `cmd id16`; `none`: not answered -/
def Dev.miscBody (d : Dev) (c i : Nat) : Option (Dev × List UInt8) :=
  if c = 2 ∨ c = 3 ∨ c = 4 ∨ c = 5 ∨ c = 6 then
    match d.params[i]? with
    | none => some (d, [devENOENT])
    | some p =>
      if c = 2 then some (d, [if p.persistent then 1 else 0])
      else if c = 6 then some (d, p.dflt)
      else if !p.persistent then some (d, [devENOENT])
      else if c = 3 then some (d.setParam i (fun q => { q with stored := some q.value }), [0])
      else if c = 5 then some (d.setParam i (fun q => { q with stored := none }), [0])
      else match p.stored with
        | none => some (d, [0] ++ p.dflt)
        | some s => some (d, [1] ++ p.dflt ++ s)
  else none

def Dev.misc (d : Dev) (data : List UInt8) : Dev × List Pkt :=
  match data with
  | c :: a :: b :: _ =>
    match d.miscBody c.toNat (a.toNat + 256 * b.toNat) with
    | some (d', body) => (d', [{ chan := 3, data := [c, a, b] ++ body }])
    | none => (d, [])
  | _ => (d, [])

/-- the reply (at most one) to a request on the PARAM port -/
def Dev.handle (d : Dev) (rq : Pkt) : Dev × List Pkt :=
  if rq.chan = 1 then d.read rq.data
  else if rq.chan = 2 then d.write rq.data
  else if rq.chan = 3 then d.misc rq.data
  else (d, [])

/-- the unsolicited `MISC_VALUE_UPDATED` notification for parameter `i`: `01 id16 value` on channel 3 -/
def Dev.notify (d : Dev) (i : Nat) : Option Pkt :=
  (d.params[i]?).map fun p => { chan := 3, data := [1, UInt8.ofNat (i % 256), UInt8.ofNat (i / 256 % 256)] ++ p.value }

/-! ### the closed system -/

inductive Api
  | setValue (cn : List Nat) (v : PyVal) (inCb : Bool)
  | getValue (cn : List Nat) (inCb : Bool)
  | requestUpdate (cn : List Nat)
  | getDefault (cn : List Nat) (rid : Nat)
  | getState (cn : List Nat) (rid : Nat)
  | store (cn : List Nat) (rid : Option Nat)
  | clear (cn : List Nat) (rid : Option Nat)
  | addCb (g n : Option Nat) (cb : Nat)
  | removeCb (g : Nat) (n : Option Nat) (cb : Nat)
  deriving DecidableEq, Repr

/-- execute one API call on the host -/
def Api.run (S2F : List Char → Except PyErr Nat) (v : Variant) (proto4 : Bool) (h : Host) : Api → Host × List Out
  | .setValue cn x c => _root_.CfVerif.C04.setValue S2F h cn x c
  | .getValue cn c => _root_.CfVerif.C04.getValue h cn c
  | .requestUpdate cn => _root_.CfVerif.C04.requestUpdate h cn proto4
  | .getDefault cn r => _root_.CfVerif.C04.getDefault v h cn r
  | .getState cn r => _root_.CfVerif.C04.getState v h cn r
  | .store cn r => _root_.CfVerif.C04.store v h cn r
  | .clear cn r => _root_.CfVerif.C04.clear v h cn r
  | .addCb g n cb => (_root_.CfVerif.C04.addCb h g n cb, [])
  | .removeCb g n cb => _root_.CfVerif.C04.removeCb h g n cb

/-! ### re-entrant callbacks: the caller's callback of a misc request may call the API again from inside the dispatch -/

/-- what the callback registered under id `rid` does when it is called: further API calls, in order -/
abbrev Scripts := Nat → List Api

/-- run the API calls of a callback; an exception raised by one of them escapes the callback (the rest is skipped) -/
def runScript (S2F : List Char → Except PyErr Nat) (v : Variant) (proto4 : Bool) : Host → List Api → Host × List Out × Bool
  | h, [] => (h, [], true)
  | h, c :: cs =>
    let r := c.run S2F v proto4 h
    match r.2 with
    | [.raised e] => (r.1, [.cbError e], false)
    | o =>
      let r2 := runScript S2F v proto4 r.1 cs
      (r2.1, o ++ r2.2.1, r2.2.2)

/-- `oneShotCall` with the caller's callback executed where the handler calls it: after the reply was decoded, BEFORE the
handler unregisters itself (source order, `Gen.C04.unregAfterCallback`); an exception escaping the callback skips the unregistration -/
def oneShotCallS (S2F : List Char → Except PyErr Nat) (v : Variant) (proto4 : Bool) (sc : Scripts) (matchId : Bool) (h : Host)
    (e : Pending) (p : Pkt) : Host × List Out :=
  match oneShotMatches matchId e p with
  | .error er => (h, [.cbError er])
  | .ok false => (h, [])
  | .ok true =>
    let hm := handleMisc e p
    match hm.1 with
    | [.misc r cn res] =>
      let rs := runScript S2F v proto4 h (sc r)
      (if hm.2 && (rs.2.2 || !Gen.C04.unregAfterCallback) then { rs.1 with pending := rs.1.pending.erase e } else rs.1,
       [.misc r cn res] ++ rs.2.1)
    | o => (if hm.2 then { h with pending := h.pending.erase e } else h, o)

def oneShotSnapS (S2F : List Char → Except PyErr Nat) (v : Variant) (proto4 : Bool) (sc : Scripts) (matchId : Bool) (p : Pkt) :
    List Pending → Host → List Out → Host × List Out
  | [], h, acc => (h, acc)
  | e :: es, h, acc =>
    let r := oneShotCallS S2F v proto4 sc matchId h e p
    oneShotSnapS S2F v proto4 sc matchId p es r.1 (acc ++ r.2)

def oneShotLiveS (S2F : List Char → Except PyErr Nat) (v : Variant) (proto4 : Bool) (sc : Scripts) (matchId : Bool) (p : Pkt) :
    Nat → Nat → Host → List Out → Host × List Out
  | 0, _, h, acc => (h, acc)
  | fuel + 1, i, h, acc =>
    match h.pending[i]? with
    | none => (h, acc)
    | some e =>
      let r := oneShotCallS S2F v proto4 sc matchId h e p
      oneShotLiveS S2F v proto4 sc matchId p fuel (i + 1) r.1 (acc ++ r.2)

/-- `rx` with re-entrant callbacks (one-shot routings; the FIFO redesign is not landed and keeps inert callbacks) -/
def rxS (S2F : List Char → Except PyErr Nat) (v : Variant) (proto4 : Bool) (sc : Scripts) (h : Host) (p : Pkt) : Host × List Out :=
  let u := updaterRx h p
  let m : Host × List Out :=
    if v.routing = 2 then miscRxFifo u.1 u.2.2
    else if v.snap then oneShotSnapS S2F v proto4 sc (v.routing = 1) u.2.2 u.1.pending u.1 []
    else oneShotLiveS S2F v proto4 sc (v.routing = 1) u.2.2 (u.1.pending.length + 64) 0 u.1 []
  (m.1, .rxd p :: (u.2.1 ++ m.2))

structure Sys where
  host : Host
  dev : Dev
  down : List Pkt          -- device -> host packets in flight, head = next to be delivered
  deriving DecidableEq, Repr

inductive Ev
  | api (thread : Nat) (c : Api)          -- a thread performs an API call
  | updGet                                -- updater thread: `request_queue.get()`
  | updSend                               -- updater thread: `wait_lock.acquire()` and transmit; the device answers
  | deliver                               -- incoming-packet thread dispatches the oldest packet in flight
  | devSet (i : Nat) (raw : List UInt8) (notify : Bool)   -- the firmware changes a parameter [and announces it]
  deriving DecidableEq, Repr

/-- `none`: the event is not enabled in this state -/
def Sys.step (S2F : List Char → Except PyErr Nat) (v : Variant) (s : Sys) : Ev → Option (Sys × List Out)
  | .api _ c =>
    let (h, o) := c.run S2F v s.dev.v2 s.host
    some ({ s with host := h }, o)
  | .updGet => (updGet s.host).map fun h => ({ s with host := h }, [])
  | .updSend =>
    match updSend s.host with
    | none => none
    | some (h, o) =>
      match o with
      | [.tx p] =>
        let (d, reps) := s.dev.handle p
        some ({ host := h, dev := d, down := s.down ++ reps }, o)
      | _ => some ({ s with host := h }, o)
  | .deliver =>
    match s.down with
    | [] => none
    | p :: rest =>
      let (h, o) := rx v s.host p
      some ({ s with host := h, down := rest }, o)
  | .devSet i raw notify =>
    let d := s.dev.setValue i raw
    some ({ s with dev := d, down := s.down ++ (if notify then (d.notify i).toList else []) }, [])

/-- run an event list; `none` as soon as an event is not enabled.  Outputs are tagged with the index of their event. -/
def Sys.run (S2F : List Char → Except PyErr Nat) (v : Variant) : Sys → List Ev → Option (Sys × List Out)
  | s, [] => some (s, [])
  | s, e :: es =>
    match s.step S2F v e with
    | none => none
    | some (s1, o1) =>
      match Sys.run S2F v s1 es with
      | none => none
      | some (s2, o2) => some (s2, o1 ++ o2)

/-- the closed system with re-entrant callbacks: only the delivery step differs -/
def Sys.stepS (S2F : List Char → Except PyErr Nat) (v : Variant) (sc : Scripts) (s : Sys) : Ev → Option (Sys × List Out)
  | .deliver =>
    match s.down with
    | [] => none
    | p :: rest =>
      let r := rxS S2F v s.dev.v2 sc s.host p
      some ({ s with host := r.1, down := rest }, r.2)
  | e => s.step S2F v e

def Sys.runS (S2F : List Char → Except PyErr Nat) (v : Variant) (sc : Scripts) : Sys → List Ev → Option (Sys × List Out)
  | s, [] => some (s, [])
  | s, e :: es =>
    match s.stepS S2F v sc e with
    | none => none
    | some (s1, o1) =>
      match Sys.runS S2F v sc s1 es with
      | none => none
      | some (s2, o2) => some (s2, o1 ++ o2)

/-! ### the open system: the link may also hand the host packets that are not (or no longer) the answer to anything -/

/-- every event of the closed system, plus `inject p`: the incoming-packet thread dispatches an arbitrary packet `p` - a
duplicate of an earlier reply (a request retransmitted on a `needs_resending` link is answered twice), a reply delayed past
later traffic, or garbage.  Its position in the event list is arbitrary, so every lateness is covered. -/
inductive EvX
  | ev (e : Ev)
  | inject (p : Pkt)
  deriving DecidableEq, Repr

def Sys.stepX (S2F : List Char → Except PyErr Nat) (v : Variant) (s : Sys) : EvX → Option (Sys × List Out)
  | .ev e => s.step S2F v e
  | .inject p =>
    let (h, o) := rx v s.host p
    some ({ s with host := h }, o)

def Sys.runX (S2F : List Char → Except PyErr Nat) (v : Variant) : Sys → List EvX → Option (Sys × List Out)
  | s, [] => some (s, [])
  | s, e :: es =>
    match s.stepX S2F v e with
    | none => none
    | some (s1, o1) =>
      match Sys.runX S2F v s1 es with
      | none => none
      | some (s2, o2) => some (s2, o1 ++ o2)

/-! ### vocabulary of the property -/

/-- the unsolicited `MISC_VALUE_UPDATED` notifications (`01 id16 value` on the misc channel); every other packet the
device sends on the PARAM port is the reply to a request -/
def isNotif (p : Pkt) : Bool := p.chan == 3 && p.data.head? == some 1 && decide (3 ≤ p.data.length)

/-- the replies among a list of device -> host packets -/
def solicited (l : List Pkt) : List Pkt := l.filter (fun p => !isNotif p)

/-- projections of the outputs of a run -/
def enqsOf (outs : List Out) : List (Pkt × Option Pending) :=
  outs.filterMap fun | .enq p e => some (p, e) | _ => none
def txsOf (outs : List Out) : List Pkt := outs.filterMap fun | .tx p => some p | _ => none
def rxdsOf (outs : List Out) : List Pkt := outs.filterMap fun | .rxd p => some p | _ => none
def miscCallsOf (outs : List Out) : List Out := outs.filter fun | .misc .. => true | _ => false
def updatesOf (outs : List Out) : List Out := outs.filter fun | .update .. => true | _ => false

/-- transmissions and lock releases, in order -/
inductive Obs
  | tx (p : Pkt)
  | rel (p : Pkt)
  deriving DecidableEq, Repr

def obsOf (outs : List Out) : List Obs :=
  outs.filterMap fun | .tx p => some (.tx p) | .released p => some (.rel p) | _ => none


/-- two's-complement little-endian bytes of `v` in `k` bytes (the wire form of an integer parameter) -/
def encodeInt (k : Nat) (v : Int) : List UInt8 := leBytes k (v % (256 ^ k : Nat)).toNat

/-- Appendix D: `rep` is the reply the device sends to request `rq` (same channel; same index for read / write,
same command and index for misc) -/
def Answers (v2 : Bool) (rq rep : Pkt) : Bool :=
  rq.chan == rep.chan &&
    (if rq.chan == 3 then rep.data.take 3 == rq.data.take 3 && rq.data.length ≥ 3
     else if v2 then rep.data.take 2 == rq.data.take 2 && rq.data.length ≥ 2
     else rep.data.take 1 == rq.data.take 1 && rq.data.length ≥ 1)

/-- "one at a time, each answered before the next is sent": a transmission only when nothing is outstanding, a release
only by a packet that answers the outstanding request.  State: the outstanding request. -/
def altStep (v2 : Bool) : Option Pkt → Obs → Option (Option Pkt)
  | none, .tx p => some (some p)
  | some r, .rel p => if Answers v2 r p then some none else none
  | _, _ => none

def altRun (v2 : Bool) : Option Pkt → List Obs → Option (Option Pkt)
  | st, [] => some st
  | st, o :: os => match altStep v2 st o with
    | none => none
    | some st' => altRun v2 st' os

/-- what the updater compares: the packet carries the index (misc: command and index) the outstanding request armed -/
def Matches (v2 : Bool) (rq rep : Pkt) : Bool :=
  lockPatternOf v2 rq == (if rep.chan = 3 then rep.data.take 3 else relPattern v2 rep)

/-- the lock discipline in the open system: a transmission only when nothing is outstanding; a release only while handling a
packet that `Matches` the outstanding request - so every transmitted request is accepted as answered at most once -/
def altStepM (v2 : Bool) : Option Pkt → Obs → Option (Option Pkt)
  | none, .tx p => some (some p)
  | some r, .rel p => if Matches v2 r p then some none else none
  | _, _ => none

def altRunM (v2 : Bool) : Option Pkt → List Obs → Option (Option Pkt)
  | st, [] => some st
  | st, o :: os => match altStepM v2 st o with
    | none => none
    | some st' => altRunM v2 st' os

/-- the k-th delivered reply answers the k-th transmitted request -/
def answersZip (v2 : Bool) : List Pkt → List Pkt → Bool
  | _, [] => true
  | [], _ :: _ => false
  | q :: qs, r :: rs => Answers v2 q r && answersZip v2 qs rs

/-- what must reach the callers of misc requests: the handler registered with the k-th issued request runs on the k-th
delivered reply (and on nothing else) -/
def expectedMisc : List (Pkt × Option Pending) → List Pkt → List Out
  | (_, some e) :: qs, r :: rs => miscCallsOf (handleMisc e r).1 ++ expectedMisc qs rs
  | (_, none) :: qs, _ :: rs => expectedMisc qs rs
  | _, _ => []

/-- the three bytes of a misc request (and the head of its reply): command, parameter index little-endian -/
def miscKey (cmd ident : Nat) : List UInt8 := leBytes 1 cmd ++ leBytes 2 ident

/-- the (command, index) a registered reply callback waits for -/
def Pending.key (e : Pending) : List UInt8 := miscKey e.kind.cmd e.ident

/-- (command, index) of the registered one-shot reply callbacks -/
def regKeys (pending : List Pending) : List (List UInt8) := (pending.filter (fun e => !e.noElem)).map Pending.key

/-- (command, index) of the misc requests among `G` that were issued without a callback (`persistent_store/clear(name)`) -/
def cblessKeys (G : List (Pkt × Option Pending)) : List (List UInt8) :=
  (G.filter (fun x => x.1.chan == 3 && x.2.isNone)).map (·.1.data)

/-- the requests issued so far whose reply has not been delivered yet, oldest first -/
def unanswered (outs : List Out) : List (Pkt × Option Pending) :=
  (enqsOf outs).drop (solicited (rxdsOf outs)).length

/-- the side condition of `reply_attribution_partial` (the repaired code still fails without it: finding D5b): the registered
reply callbacks and the callback-less unanswered misc requests have pairwise distinct (command, parameter index) -/
def KeysDistinct (pending : List Pending) (G : List (Pkt × Option Pending)) : Prop :=
  (regKeys pending ++ cblessKeys G).Nodup

/-- `KeysDistinct` holds in every state the run visits (`pre`: outputs so far) -/
def DistinctAlong (S2F : List Char → Except PyErr Nat) (v : Variant) : Sys → List Out → List Ev → Prop
  | s, pre, [] => KeysDistinct s.host.pending (unanswered pre)
  | s, pre, e :: es =>
    KeysDistinct s.host.pending (unanswered pre) ∧
      match s.step S2F v e with
      | none => True
      | some (s1, o1) => DistinctAlong S2F v s1 (pre ++ o1) es

/-! ### typed systems: host table and device agree, device values have the width of their type -/

/-- every value the device holds for a parameter has the width of the parameter's type -/
def DevWF (d : Dev) : Prop :=
  ∀ (i : Nat) (dp : DevParam), d.params[i]? = some dp → ∀ w, devWidth dp.tcode = some w →
    dp.value.length = w ∧ dp.dflt.length = w ∧ ∀ st, dp.stored = some st → st.length = w

/-- the parameter is one of the ten numeric firmware types -/
def numericCode (tc : Nat) : Prop := ∃ w, devWidth tc = some w ∧ 0 < w ∧ tc ≠ 5

/-- every element of the host's table is known to the device under the same index (< 2^16) with the same numeric type -/
def TocOK (toc : List Elem) (d : Dev) : Prop :=
  ∀ el ∈ toc, el.ident < 65536 ∧ numericCode el.tcode ∧ ∃ dp, d.params[el.ident]? = some dp ∧ dp.tcode = el.tcode

/-- firmware-side changes keep the width of the value, at every point of the run -/
def TypedSetsAlong (S2F : List Char → Except PyErr Nat) (v : Variant) : Sys → List Ev → Prop
  | _, [] => True
  | s, e :: es =>
    (∀ i raw n, e = Ev.devSet i raw n → ∀ dp, s.dev.params[i]? = some dp → devWidth dp.tcode = some raw.length) ∧
      match s.step S2F v e with
      | none => True
      | some (s1, _) => TypedSetsAlong S2F v s1 es

/-- the registered reply handlers (the leftovers of `get_default_value(<unknown name>)`, which can never fire, aside) -/
def handlersOf (pending : List Pending) : List Pending := pending.filter (fun e => !e.noElem)

/-- `KeysDistinct` in every state a run with re-entrant callbacks visits -/
def DistinctAlongS (S2F : List Char → Except PyErr Nat) (v : Variant) (sc : Scripts) : Sys → List Out → List Ev → Prop
  | s, pre, [] => KeysDistinct s.host.pending (unanswered pre)
  | s, pre, e :: es =>
    KeysDistinct s.host.pending (unanswered pre) ∧
      match s.stepS S2F v sc e with
      | none => True
      | some (s1, o1) => DistinctAlongS S2F v sc s1 (pre ++ o1) es

/-- nothing queued, nothing outstanding, nothing in flight but notifications; host and device agree on the protocol -/
structure Sys.Idle (s : Sys) : Prop where
  queue : s.host.queue = []
  cur : s.host.cur = none
  lock : s.host.lockHeld = false
  pattern : s.host.pattern = none
  pending : s.host.pending = []
  down : solicited s.down = []
  useV2 : s.host.useV2 = s.dev.v2
  updV2 : s.host.updV2 = s.dev.v2

/-! ### several connections of one `Crazyflie` object

The `Param` object outlives a connection; its `Toc` does not.  A LIFE is a first connection and then any number of
`close_link` / `open_link` pairs, each to a device of its own (other table, other values), each followed by a history. -/

/-- `close_link()` then `open_link()` up to `connected`: the packets in flight on the old link are gone -/
def Sys.reconnect (s : Sys) (toc : List Elem) (d : Dev) : Sys :=
  { host := s.host.reconnect toc d.v2, dev := d, down := [] }

/-- run a life: the observations of every connection separately, and the states in which the connections were closed -/
def Sys.runLife (S2F : List Char → Except PyErr Nat) (v : Variant) :
    Sys → List Ev → List (List Elem × Dev × List Ev) → Option (List (Sys × Sys × List Out))
  | s, evs, [] => (Sys.run S2F v s evs).map fun r => [(s, r.1, r.2)]
  | s, evs, (toc, d, evs') :: rest =>
    match Sys.run S2F v s evs with
    | none => none
    | some r => (Sys.runLife S2F v (r.1.reconnect toc d) evs' rest).map fun l => (s, r.1, r.2) :: l

/-! ### the retransmission path: `Crazyflie.send_packet` on a `needs_resending` link

What a param request is armed with when it is transmitted, and what a fired retry timer may put on the wire.  The timer is
split in two steps, as a `threading.Timer` thread: `expire` (it woke up and can no longer be cancelled) and `timerRun` (its
callback runs `send_packet(resend=True, retry_timer=<itself>)`) - the answer, and the next request, may come in between. -/

/-- `(pk.header,) + expected_reply`; the header of a PARAM packet is determined by its channel -/
abbrev Pat := Nat × List UInt8

def patOf (updV2 : Bool) (p : Pkt) : Pat := (p.chan, lockPatternOf updV2 p)

/-- `_check_for_answers`: `len(p) <= len(data) and p == data[0:len(p)]` with `data = (pk.header,) + tuple(pk.data)` -/
def patMatches (P : Pat) (q : Pkt) : Bool :=
  P.1 == q.chan && decide (P.2.length ≤ q.data.length) && q.data.take P.2.length == P.2

inductive TState
  | armed | expired | done | cancelled
  deriving DecidableEq, Repr

structure RTimer where
  pk : Pkt
  pat : Pat
  state : TState
  deriving DecidableEq, Repr

/-- `self._answer_patterns[P] = timer` (dict: an existing key keeps its place) -/
def setPat (pats : List (Pat × Nat)) (P : Pat) (i : Nat) : List (Pat × Nat) :=
  if pats.any (·.1 == P) then pats.map (fun e => if e.1 == P then (P, i) else e) else pats ++ [(P, i)]

def getPat (pats : List (Pat × Nat)) (P : Pat) : Option Nat := (pats.find? (·.1 == P)).map (·.2)

/-- the loop of `_check_for_answers`: the last of the longest matching patterns -/
def longestMatch (q : Pkt) : List (Pat × Nat) → Option (Pat × Nat) → Option (Pat × Nat)
  | [], best => best
  | e :: es, best =>
    if patMatches e.1 q then
      match best with
      | some b => if e.1.2.length ≥ b.1.2.length then longestMatch q es (some e) else longestMatch q es best
      | none => longestMatch q es (some e)
    else longestMatch q es best

/-- `Timer.cancel()`: no effect once the timer thread has woken up -/
def cancelTimer (ts : List RTimer) (i : Nat) : List RTimer :=
  ts.modify i (fun t => if t.state = .armed then { t with state := .cancelled } else t)

structure SysR where
  base : Sys
  nr : Bool                        -- `link.needs_resending`
  pats : List (Pat × Nat)          -- `Crazyflie._answer_patterns`: pattern -> timer (index into `timers`)
  timers : List RTimer
  deriving DecidableEq, Repr

/-- `_check_for_answers(pk)`, an all-packet callback: runs before the port callbacks of the same packet -/
def SysR.onReceive (s : SysR) (q : Pkt) : SysR :=
  match longestMatch q s.pats none with
  | none => s
  | some (P, i) => { s with timers := cancelTimer s.timers i, pats := s.pats.filter (fun e => !(e.1 == P)) }

inductive EvR
  | x (e : EvX)               -- an event of the open system
  | expire (i : Nat)          -- timer `i` wakes up
  | timerRun (i : Nat)        -- its callback runs
  deriving DecidableEq, Repr

/-- transmissions, releases and retransmissions, in order -/
inductive ObsR
  | tx (p : Pkt)
  | rel (p : Pkt)
  | retx (p : Pkt)
  deriving DecidableEq, Repr

def liftObs : Obs → ObsR
  | .tx p => .tx p
  | .rel p => .rel p

/-- one step: new state, outputs of the param subsystem, and what the step put on / took as answer from the wire -/
def SysR.step (S2F : List Char → Except PyErr Nat) (v : Variant) (s : SysR) : EvR → Option (SysR × List Out × List ObsR)
  | .x (.ev .updSend) =>
    match s.base.step S2F v .updSend with
    | none => none
    | some (b, o) =>
      match o with
      | [.tx p] =>
        let P := patOf s.base.host.updV2 p
        if Gen.C04.sendArms true (!P.2.isEmpty) false s.nr (getPat s.pats P).isSome false then
          some ({ s with base := b, pats := setPat s.pats P s.timers.length, timers := s.timers ++ [⟨p, P, .armed⟩] }, o, [.tx p])
        else some ({ s with base := b }, o, [.tx p])
      | _ => some ({ s with base := b }, o, (obsOf o).map liftObs)
  | .x (.ev .deliver) =>
    match s.base.down with
    | [] => none
    | q :: _ =>
      let s1 := s.onReceive q
      (s1.base.step S2F v .deliver).map fun r => ({ s1 with base := r.1 }, r.2, (obsOf r.2).map liftObs)
  | .x (.inject q) =>
    let s1 := s.onReceive q
    (s1.base.stepX S2F v (.inject q)).map fun r => ({ s1 with base := r.1 }, r.2, (obsOf r.2).map liftObs)
  | .x e => (s.base.stepX S2F v e).map fun r => ({ s with base := r.1 }, r.2, (obsOf r.2).map liftObs)
  | .expire i =>
    match s.timers[i]? with
    | some t =>
      if t.state = .armed then some ({ s with timers := s.timers.modify i (fun t => { t with state := .expired }) }, [], [])
      else none
    | none => none
  | .timerRun i =>
    match s.timers[i]? with
    | some t =>
      if t.state = .expired then
        let ts := s.timers.modify i (fun t => { t with state := .done })
        let pe := (getPat s.pats t.pat).isSome
        let ti := getPat s.pats t.pat == some i
        let he := !t.pat.2.isEmpty
        let s1 : SysR :=
          if Gen.C04.sendArms true he true s.nr pe ti then
            { s with timers := ts ++ [⟨t.pk, t.pat, .armed⟩], pats := setPat s.pats t.pat ts.length }
          else { s with timers := ts }
        if Gen.C04.sendTransmits true he true s.nr pe ti then
          let r := s.base.dev.handle t.pk
          some ({ s1 with base := { s.base with dev := r.1, down := s.base.down ++ r.2 } }, [], [.retx t.pk])
        else some (s1, [], [])
      else none
    | none => none

/-- run an event list: final state, param outputs, wire trace -/
def SysR.run (S2F : List Char → Except PyErr Nat) (v : Variant) : SysR → List EvR → Option (SysR × List Out × List ObsR)
  | s, [] => some (s, [], [])
  | s, e :: es =>
    match s.step S2F v e with
    | none => none
    | some (s1, o1, w1) =>
      match SysR.run S2F v s1 es with
      | none => none
      | some (s2, o2, w2) => some (s2, o1 ++ o2, w1 ++ w2)

/-- the wire discipline including retransmissions.  State: the outstanding request, and whether an answer was ever accepted
from the OTHER channel than the request's (only a stale or forged packet can do that: finding D5c).  A retransmission must
repeat the outstanding request - in particular never an answered one, and never an older request while a newer one with the
same pattern is outstanding. -/
def altStepR (v2 : Bool) : Option Pkt × Bool → ObsR → Option (Option Pkt × Bool)
  | (none, x), .tx p => some (some p, x)
  | (some r, x), .rel q => if Matches v2 r q then some (none, x || !(q.chan == r.chan)) else none
  | (some r, x), .retx p => if x || p == r then some (some r, x) else none
  | (none, x), .retx _ => if x then some (none, x) else none
  | _, _ => none

def altRunR (v2 : Bool) : Option Pkt × Bool → List ObsR → Option (Option Pkt × Bool)
  | st, [] => some st
  | st, o :: os => match altStepR v2 st o with
    | none => none
    | some st' => altRunR v2 st' os

end CfVerif.C04

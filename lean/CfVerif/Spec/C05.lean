/-
Spec/C05: the device side of the log protocol, written from the firmware's point of view (environment
model, independent of cflib's code), and the history-level specifications used by Props/C05.

* A V2 create/append settings message `cmd blk (logType id16)*`: the firmware reads
  `(size - 2) / sizeof(struct ops_setting_v2)` = ⌊(len-2)/3⌋ entries; a trailing partial entry is ignored.
  `logType`: low nibble = type to log (fetch) as, high nibble = storage type.
* A log data packet: `blk ts24 values…`, every value little-endian in its log type.
* Acknowledgements `cmd blk status` act on the block's added/started state as listed in `ackEffect`.
No Mathlib.
-/
import CfVerif.Base.Struct
namespace CfVerif.C05.Spec
open CfVerif

/-- entries of a V2 settings body: groups of three bytes, an incomplete trailing group is ignored -/
def entries3 : List UInt8 → List (Nat × Nat)
  | t :: lo :: hi :: r => (t.toNat, lo.toNat + 256 * hi.toNat) :: entries3 r
  | _ => []

/-- what the firmware adds to block `msg[1]` on receiving the settings message `msg` -/
def fwEntries (msg : List UInt8) : List (Nat × Nat) := entries3 (msg.drop 2)

def fwFetch (logType : Nat) : Nat := logType % 16
def fwStored (logType : Nat) : Nat := logType / 16

/-- struct code of a firmware log type (log.h: 1..8 = uint8, uint16, uint32, int8, int16, int32, float, FP16) -/
def codeOf : Nat → Option Code
  | 1 => some .B | 2 => some .H | 3 => some .I | 4 => some .b | 5 => some .h | 6 => some .i
  | 7 => some .f | 8 => some .e | _ => none

/-- the values of a block as the device puts them on the wire -/
def encodeValues : List (Code × Val) → Except PyErr (List UInt8)
  | [] => .ok []
  | (c, v) :: r =>
    match packOne c v with
    | .error e => .error e
    | .ok a => match encodeValues r with
      | .ok b => .ok (a ++ b)
      | .error e => .error e

/-- a log data packet (port 5, channel 2) for block `blk` at time `ts` (24 bit) -/
def devEncode (blk : UInt8) (ts : Nat) (vals : List (Code × Val)) : Except PyErr (List UInt8) :=
  match encodeValues vals with
  | .ok b => .ok (blk :: leBytes 3 ts ++ b)
  | .error e => .error e

/-- Effect of an acknowledgement `cmd blk status` on the (added, started) state of the block it names.
Commands: 0/6 create, 3 start, 4 stop, 2 delete; status 0 = ok, 17 = EEXIST (block already there),
2 = ENOENT (block already gone).  Everything else (append acks, errors) changes nothing. -/
def ackEffect (cmd status : Nat) (f : Bool × Bool) : Bool × Bool :=
  if cmd = 0 ∨ cmd = 6 then (if status = 0 ∨ status = 17 then (true, f.2) else f)
  else if cmd = 3 then (if status = 0 then (f.1, true) else f)
  else if cmd = 4 then (if status = 0 then (f.1, false) else f)
  else if cmd = 2 then (if status = 0 ∨ status = 2 then (false, false) else f)
  else f

end CfVerif.C05.Spec

/-
Spec/C06 — the environment of the memory subsystem and the closed system host ∥ device ∥ network.

Written from protocol knowledge (DESIGN.md Appendix D: `4:1 id addr32 len -> id addr32 status data`,
`4:2 id addr32 data -> id addr32 status`), not from cflib's tables: channel numbers, the CRTP payload limit and the
layouts are literals here, so that a change of the corresponding constants in the library breaks the theorems.

* `Device`: one byte image per memory id; a read / write outside the image, of an unknown memory or longer than the
  protocol allows is answered with an error status and has no effect; a `fault` makes the device answer the next
  request with an error status without executing it (reply policy "error status").
* Network (device -> library): a bag of replies in flight.  The adversary may deliver any of them at any time
  (delay, reorder), keep a copy in flight (duplicate, any multiplicity), inject arbitrary packets (`inject`: forged,
  stale from anywhere, malformed) and drop the link at any point (`drop`).
  Assumption A1 (freshness), built into `deliver`: once a request has been notified, the replies to ITS packets that
  are still in flight are never delivered (they are purged).  Duplicates and delays *within* a request are
  unrestricted.  Stale replies across requests are still covered by `inject` - and hence by every theorem that does
  not exclude `inject` (the bookkeeping theorems); only the data-exactness theorems exclude them, and
  `stale_reply_counterexample` in Props shows that they must.
* Library -> device: every packet handed to `cf.send_packet` reaches the device once, in order (the guarantee of the
  link layer, properties C01/C10), and is answered immediately; the answer goes in flight.
-/
import CfVerif.Model.C06
namespace CfVerif.C06
open CfVerif

/-! ### protocol constants (literals: protocol knowledge) -/

def crtpMaxPayload : Nat := 30
/-- a read reply is `id addr32 status data`: at most 24 data bytes fit -/
def readLimit : Nat := crtpMaxPayload - 6
/-- a write request is `id addr32 data`: at most 25 data bytes fit -/
def writeLimit : Nat := crtpMaxPayload - 5
def specChanRead : Nat := 1
def specChanWrite : Nat := 2
def statusNoEnt : UInt8 := 2
def statusTooBig : UInt8 := 7

/-! ### the device -/

abbrev Image := List UInt8
/-- one image per memory id -/
abbrev Device := List Image

/-- the bytes of `m` at `[addr, addr + n)` -/
def slice (m : Image) (addr n : Nat) : List UInt8 := (m.drop addr).take n

/-- `m` with `body` stored at `addr` (only used when the range lies inside `m`) -/
def overwrite (m : Image) (addr : Nat) (body : List UInt8) : Image :=
  m.take addr ++ body ++ m.drop (addr + body.length)

/-- `(status, data)` of a read request -/
def devRead (d : Device) (id addr n : Nat) : UInt8 × List UInt8 :=
  match d[id]? with
  | none => (statusNoEnt, [])
  | some m =>
    if n > readLimit then (statusTooBig, [])
    else if addr + n > m.length then (statusNoEnt, [])
    else (0, slice m addr n)

/-- device after a write request, and the status -/
def devWrite (d : Device) (id addr : Nat) (body : List UInt8) : Device × UInt8 :=
  match d[id]? with
  | none => (d, statusNoEnt)
  | some m =>
    if body.length > writeLimit then (d, statusTooBig)
    else if addr + body.length > m.length then (d, statusNoEnt)
    else (d.set id (overwrite m addr body), 0)

abbrev Packet := Nat × List UInt8     -- (channel, payload) on port MEM

/-- the device's reaction to one packet on port MEM.  `fault ≠ 0`: it answers with that error status and does
nothing.  Packets that are not well-formed requests are not answered. -/
def devHandle (d : Device) (fault : UInt8) (chan : Nat) (pkt : List UInt8) : Device × List Packet :=
  if chan = specChanRead then
    match pkt with
    | [i, a0, a1, a2, a3, n] =>
      if fault ≠ 0 then (d, [(chan, [i, a0, a1, a2, a3, fault])])
      else
        let r := devRead d i.toNat (leVal [a0, a1, a2, a3]) n.toNat
        (d, [(chan, [i, a0, a1, a2, a3, r.1] ++ r.2)])
    | _ => (d, [])
  else if chan = specChanWrite then
    match pkt with
    | i :: a0 :: a1 :: a2 :: a3 :: body =>
      if fault ≠ 0 then (d, [(chan, [i, a0, a1, a2, a3, fault])])
      else
        let r := devWrite d i.toNat (leVal [a0, a1, a2, a3]) body
        (r.1, [(chan, [i, a0, a1, a2, a3, r.2])])
    | _ => (d, [])
  else (d, [])

/-! ### the closed system -/

structure Sys where
  host : St
  dev : Device
  /-- replies in flight -/
  net : List Packet
  /-- error statuses the device will force on its next requests (0 = answer normally); one is consumed per request -/
  faults : List UInt8
  /-- everything the library did so far (packets sent, callbacks) -/
  outs : List Out
  deriving Repr

def Sys.init (d : Device) (faults : List UInt8) : Sys := ⟨St.init, d, [], faults, []⟩

inductive Act
  | read (tag id addr len : Nat)
  | write (tag id addr : Nat) (data : List UInt8) (flush progressCb : Bool)
  /-- deliver the i-th reply in flight; `keep`: a copy stays in flight (duplicate) -/
  | deliver (i : Nat) (keep : Bool)
  /-- deliver an arbitrary packet -/
  | inject (chan : Nat) (data : List UInt8)
  /-- the link drops: the disconnect callback runs, everything in flight is lost -/
  | drop
  deriving DecidableEq, Repr

/-- the call into `Memory` an action amounts to (`none`: nothing to deliver) -/
def Act.toEv (net : List Packet) : Act → Option Ev
  | .read t i a l => some (.read t i a l)
  | .write t i a d f p => some (.write t i a d f p)
  | .deliver i _ => net[i]?.map fun p => .pkt p.1 p.2
  | .inject c d => some (.pkt c d)
  | .drop => some .disconnect

/-- does notification `o` finish the request that reply `p` belongs to (same channel kind, same memory id)? -/
def Out.finishes (o : Out) (p : Packet) : Bool :=
  match o with
  | .readOk _ id _ _ | .readFail _ id _ _ => p.1 == specChanRead && p.2.head? == some (UInt8.ofNat id)
  | .writeOk _ id _ | .writeFail _ id _ => p.1 == specChanWrite && p.2.head? == some (UInt8.ofNat id)
  | _ => false

/-- A1: replies belonging to requests that were just notified leave the network -/
def purge (net : List Packet) (outs : List Out) : List Packet :=
  net.filter fun p => !outs.any (·.finishes p)

/-- the packets sent by the library reach the device in order; its answers go in flight -/
def feed (dev : Device) (faults : List UInt8) (net : List Packet) : List Out → Device × List UInt8 × List Packet
  | [] => (dev, faults, net)
  | .send c d :: os =>
    let r := devHandle dev (faults.headD 0) c d
    feed r.1 faults.tail (net ++ r.2) os
  | _ :: os => feed dev faults net os

/-- what is still in flight when the action starts: a delivered reply leaves the network unless a copy is kept;
a link drop loses everything -/
def Act.netBefore (a : Act) (net : List Packet) : List Packet :=
  match a with
  | .deliver i false => net.eraseIdx i
  | .drop => []
  | _ => net

def stepSys (v : Variant) (y : Sys) (a : Act) : Sys :=
  match a.toEv y.net with
  | none => y
  | some ev =>
    let r := step v y.host ev
    let f := feed y.dev y.faults (purge (a.netBefore y.net) r.outs) r.outs
    { host := r.st, dev := f.1, net := f.2.2, faults := f.2.1, outs := y.outs ++ r.outs }

def runSys (v : Variant) (y : Sys) (acts : List Act) : Sys := acts.foldl (stepSys v) y

/-! ### chunking (what the property calls "split into messages within the protocol limits") -/

/-- `(address, length)` of the read requests for `len` bytes at `addr`, at most `max` bytes each (`fuel` ≥ number of
chunks; a zero-length read is one request of length 0) -/
def readChunks (max : Nat) : Nat → Nat → Nat → List (Nat × Nat)
  | 0, _, _ => []
  | fuel + 1, addr, len =>
    if len ≤ max then [(addr, len)] else (addr, max) :: readChunks max fuel (addr + max) (len - max)

/-- `(address, bytes)` of the write requests for `data` at `addr`, at most `max` bytes each -/
def writeChunks (max : Nat) : Nat → Nat → List UInt8 → List (Nat × List UInt8)
  | 0, _, _ => []
  | fuel + 1, addr, data =>
    if data.length ≤ max then [(addr, data)]
    else (addr, data.take max) :: writeChunks max fuel (addr + max) (data.drop max)

/-! ### the closed system with the calling thread and the incoming thread interleaved statement by statement

The host is the statement-level machine `cexec` (Model): the application calls take several steps, the network actions
(`deliver`, `inject`, `drop`) are the incoming thread.  Every packet a step hands to `send_packet` reaches the device
in that step - in particular the reply to a request can be delivered before the sending call has executed its next
statement (the synchronous link is the schedule that always does this). -/

inductive SAct
  | begin (tag id addr : Nat) (data : List UInt8) (flush progressCb : Bool)
  | beginRead (tag id addr len : Nat)
  /-- the calling thread executes its next statement -/
  | stepCall
  /-- the network / the incoming thread: `deliver`, `inject` or `drop` -/
  | net (a : Act)
  deriving DecidableEq, Repr

structure CSys where
  host : CState
  dev : Device
  net : List Packet
  faults : List UInt8
  outs : List Out
  deriving Repr

def CSys.init (d : Device) (faults : List UInt8) : CSys := ⟨⟨St.init, none⟩, d, [], faults, []⟩

def SAct.toCAct (net : List Packet) : SAct → Option CAct
  | .begin t i a d f p => some (.begin t i a d f p)
  | .beginRead t i a l => some (.beginRead t i a l)
  | .stepCall => some .stepCall
  | .net (.read ..) => none
  | .net (.write ..) => none
  | .net a => (a.toEv net).map CAct.env

/-- the application request an atomic event is -/
def Ev.toAct : Ev → List Act
  | .read t i a l => [.read t i a l]
  | .write t i a d f p => [.write t i a d f p]
  | _ => []

/-- one step; also the atomic actions this step is the linearisation point of.  `none`: the action is not possible
now (a thread is blocked on the lock, nothing to deliver, ...) -/
def cstepSys (cv : ConcVariant) (y : CSys) (x : SAct) : Option (CSys × List Act) :=
  match x.toCAct y.net with
  | none => none
  | some ca =>
    match cexec cv y.host ca with
    | none => none
    | some (c1, o1, l1) =>
      let nb := match x with
        | .net a => a.netBefore y.net
        | _ => y.net
      let f := feed y.dev y.faults (purge nb o1) o1
      some ({ host := c1, dev := f.1, net := f.2.2, faults := f.2.1, outs := y.outs ++ o1 },
            match x with
            | .net a => [a]
            | _ => l1.flatMap Ev.toAct)

def crunSys (cv : ConcVariant) : CSys → List SAct → Option (CSys × List Act)
  | y, [] => some (y, [])
  | y, x :: xs =>
    match cstepSys cv y x with
    | none => none
    | some (y1, l1) =>
      match crunSys cv y1 xs with
      | none => none
      | some (y2, l2) => some (y2, l1 ++ l2)

end CfVerif.C06

/-
Spec/C07 — the property in its own vocabulary (independent of how the dispatcher iterates).

* `specMatches`: CRTP header byte = port in the high nibble, channel in the two low bits; a registration
  matches when its port/channel equal the packet's port/channel under the registration's masks.
* `SpecHolds`: what one dispatch must have done (DESIGN Appendix A).  Deliberately loose ONLY for
  registrations added, or removed, during the same dispatch (0 or 1 delivery is allowed for those, so both
  snapshot and live iteration are admissible there); exact for everything else.
* `expectedDeliveries`: what a run over a packet sequence must deliver: packet by packet, in arrival order,
  to exactly the registrations matching at the time the port dispatch of that packet starts, in
  registration order.
-/
import CfVerif.Model.C07
namespace CfVerif.C07

/-- independent matcher: `hdr / 16` is the port nibble, `hdr % 4` the channel of a CRTP header byte -/
def specMatches (r : Reg) (hdr : Nat) : Bool :=
  r.port == ((hdr / 16) &&& r.portMask) && r.chan == ((hdr % 4) &&& r.chanMask)

/-- `regs`: the registry when the dispatch of a packet with header `hdr` starts; `ev`: the events of that
dispatch.
1. every registration present at the start and not removed during the dispatch is called once if it
   matches and not at all otherwise; 2. nobody is called twice; 3. only matching registrations are called;
4. the registrations present at the start are served in registration order. -/
def SpecHolds (regs : List Reg) (hdr : Nat) (ev : List Ev) : Prop :=
  (∀ r ∈ regs, Ev.removed r ∉ ev → (callsOf ev).count r = if specMatches r hdr then 1 else 0) ∧
  (callsOf ev).Nodup ∧
  (∀ r ∈ callsOf ev, specMatches r hdr = true) ∧
  List.Sublist ((callsOf ev).filter (· ∈ regs)) regs

instance (regs : List Reg) (hdr : Nat) (ev : List Ev) : Decidable (SpecHolds regs hdr ev) := by
  unfold SpecHolds; infer_instance

/-- the events appended between two states of the same run -/
def newEvents (before after : St) : List Ev := after.trace.drop before.trace.length

/-- what a dispatcher that is alive in state `st` must deliver for the packets `hdrs` -/
def expectedDeliveries (v : Variant) (beh : Beh) : St → List Nat → List Ev
  | _, [] => []
  | st, h :: hs =>
    if st.dead then [] else
    let st1 := afterAll v beh st h          -- the all-packet callbacks have run (they may change the registry)
    (Ev.pkt h :: if st1.dead then [] else (st1.regs.filter (specMatches · h)).map Ev.call)
      ++ expectedDeliveries v beh (handlePacket v beh st h) hs

/-- a callback body that cannot raise: no `raise`, and no `Caller.remove_callback` (ValueError if absent) -/
def NoRaise (acts : List Act) : Prop := ∀ a ∈ acts, a ≠ .raise ∧ ∀ c, a ≠ .removeAll c

/-- no all-packet callback raises (an exception in `cf.packet_received` callbacks escapes `run`; that is
outside C07's wording, which is about port callbacks - see docs/C07.md) -/
def AllPacketCallbacksQuiet (beh : Beh) : Prop :=
  ∀ tr c, tr.getLast? = some (Ev.callAll c) → NoRaise (beh tr)

end CfVerif.C07

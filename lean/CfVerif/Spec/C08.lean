/-
Spec/C08 — the firmware side: an independent decoder for the command packets, written from the packed C
structs of the Crazyflie firmware (NOT from the Python format strings; no import of Gen or Model):

  crtp_commander.c / crtp_commander_rpyt.c   port 3  ch 0   struct CommanderCrtpLegacyValues {float roll, pitch, yaw; uint16_t thrust;}
  crtp_commander_generic.c                   port 7  ch 0   data[0] = packet type, then the packed struct of that type
                                             port 7  ch 1   data[0] = meta command, then its struct
  crtp_commander_high_level.c                port 8  ch 0   data[0] = command, then struct data_<command>
  crtp_localization_service.c                port 6  ch 0   struct CrtpExtPosition {float x, y, z;}
                                             port 6  ch 1   data[0] = type; EXT_POSE, LPS_SHORT_LPP_PACKET, EMERGENCY_STOP(_WATCHDOG), LH_PERSIST_DATA
  platformservice.c                          port 13 ch 0   data[0] = command (setContinousWave, armSystem, recoverSystem), data[1] = argument
  lps-node-firmware lpp.c (the anchor)       short LPP payload: data[0] = type; position {float x,y,z}, reboot {uint8 mode}, mode {uint8 mode}
  quatcompress.h                             the integer part of quatdecompress()

ASSUMPTION (trusted base): these layouts, type numbers, the protocol versions at which packet types exist
(generic types 8/9/10 from version 9; high-level GO_TO_2 and SPIRAL from version 8) and the sign conventions
(legacy generic types 1/2/5 negate the received yaw rate; the RPYT pitch is used as received) are the
firmware's.  C types: float = IEEE binary32 little-endian (carried as bit pattern), packed structs, no padding.
-/
import CfVerif.Base.Struct
namespace CfVerif.C08.Fw
open CfVerif

/-- C `-x` on a binary32 pattern: flips bit 31 -/
def fneg (b : Nat) : Nat := if b < 2 ^ 31 then b + 2 ^ 31 else b - 2 ^ 31

/-- decompressed-quaternion fields: index of the dropped (largest) component and, for the other three components
in DEcreasing index order (the order quatdecompress reads them), (index, negbit, 9-bit magnitude) -/
structure Quat where
  largest : Nat
  fields : List (Nat × Nat × Nat)
  deriving DecidableEq, Repr

/-- integer part of `quatdecompress(uint32_t comp, float q[4])`:
`i_largest = comp >> 30; for (i = 3; i >= 0; --i) if (i != i_largest) { mag = comp & 511; negbit = (comp >> 9) & 1; comp >>= 10; ...}` -/
def quatDecode (comp : Nat) : Quat :=
  let l := comp >>> 30
  let step := fun (acc : Nat × List (Nat × Nat × Nat)) (i : Nat) =>
    if i = l then acc else (acc.1 >>> 10, acc.2 ++ [(i, (acc.1 >>> 9) &&& 1, acc.1 &&& 511)])
  { largest := l, fields := ([3, 2, 1, 0].foldl step (comp, [])).2 }

/-- short LPP payloads understood by the anchor -/
inductive Lpp
  | position (x y z : Nat)
  | reboot (mode : Nat)
  | mode (mode : Nat)
  deriving DecidableEq, Repr

/-- what the firmware understands from one packet.  Floats are binary32 bit patterns; the yaw rates of the
generic setpoints are the values the firmware USES (after its own negation for the legacy types). -/
inductive Cmd
  | rpyt (roll pitch yaw : Nat) (thrust : Nat)
  | stop
  | notifySetpointsStop (remainValidMillisecs : Nat)
  | velocityWorld (vx vy vz yawrate : Nat)
  | zDistance (roll pitch yawrate zDistance : Nat)
  | hover (vx vy yawrate zDistance : Nat)
  | fullState (x y z vx vy vz ax ay az : Int) (quat : Quat) (rateRoll ratePitch rateYaw : Int)
  | position (x y z yaw : Nat)
  | hlSetGroupMask (groupMask : Nat)
  | hlTakeoff2 (groupMask height yaw : Nat) (useCurrentYaw : Bool) (duration : Nat)
  | hlLand2 (groupMask height yaw : Nat) (useCurrentYaw : Bool) (duration : Nat)
  | hlStop (groupMask : Nat)
  | hlGoTo (groupMask relative x y z yaw duration : Nat)
  | hlGoTo2 (groupMask relative linear x y z yaw duration : Nat)
  | hlSpiral (groupMask sideways clockwise phi r0 rf dz duration : Nat)
  | hlStartTrajectory (groupMask relative reversed trajectoryId timescale : Nat)
  | hlDefineTrajectory (trajectoryId location type offset nPieces : Nat)
  | extPosition (x y z : Nat)
  | extPose (x y z qx qy qz qw : Nat)
  | shortLpp (dest : Nat) (payload : List UInt8)
  | emergencyStop
  | emergencyStopWatchdog
  | lhPersist (geoDataBsField calibrationDataBsField : Nat)
  | setContinousWave (enable : Bool)
  | armSystem (doArm : Bool)
  | recoverSystem
  deriving DecidableEq, Repr

/-! C struct layouts as lists of field types (`Code`: B = uint8_t, H = uint16_t, I = uint32_t, h = int16_t,
f = float, bool = bool) -/
abbrev u8 := Code.B
abbrev u16 := Code.H
abbrev u32 := Code.I
abbrev i16 := Code.h
abbrev flt := Code.f
abbrev cbool := Code.bool

def unpackAs (layout : Fmt) (bs : List UInt8) : Option (List Val) :=
  match unpack layout bs with
  | .ok vs => some vs
  | .error _ => none

/-- port 3, channel 0: `struct CommanderCrtpLegacyValues` -/
def decodeRpyt (d : List UInt8) : Option Cmd :=
  match unpackAs [flt, flt, flt, u16] d with
  | some [.flt r, .flt p, .flt y, .int t] => some (.rpyt r p y t.toNat)
  | _ => none

/-- port 7, channel 0: generic setpoints.  `ver` = the firmware's CRTP protocol version. -/
def decodeGeneric (ver : Int) (d : List UInt8) : Option Cmd :=
  match d with
  | [] => none
  | t :: rest =>
    match t.toNat with
    | 0 => if rest = [] then some .stop else none                      -- stopType
    | 1 => match unpackAs [flt, flt, flt, flt] rest with                -- velocityWorldTypeLegacy: struct velocityPacket_s
      | some [.flt vx, .flt vy, .flt vz, .flt yr] => some (.velocityWorld vx vy vz (fneg yr))
      | _ => none
    | 2 => match unpackAs [flt, flt, flt, flt] rest with                -- zDistanceTypeLegacy: struct zDistancePacket_s
      | some [.flt r, .flt p, .flt yr, .flt z] => some (.zDistance r p (fneg yr) z)
      | _ => none
    | 5 => match unpackAs [flt, flt, flt, flt] rest with                -- hoverTypeLegacy: struct hoverPacket_s
      | some [.flt vx, .flt vy, .flt yr, .flt z] => some (.hover vx vy (fneg yr) z)
      | _ => none
    | 6 => match unpackAs [i16, i16, i16, i16, i16, i16, i16, i16, i16, u32, i16, i16, i16] rest with   -- fullStateType
      | some [.int x, .int y, .int z, .int vx, .int vy, .int vz, .int ax, .int ay, .int az, .int q, .int rr, .int pr, .int yr] =>
        some (.fullState x y z vx vy vz ax ay az (quatDecode q.toNat) rr pr yr)
      | _ => none
    | 7 => match unpackAs [flt, flt, flt, flt] rest with                -- positionType: struct positionPacket_s
      | some [.flt x, .flt y, .flt z, .flt yaw] => some (.position x y z yaw)
      | _ => none
    | 8 => if ver < 9 then none else
      match unpackAs [flt, flt, flt, flt] rest with                     -- velocityWorldType
      | some [.flt vx, .flt vy, .flt vz, .flt yr] => some (.velocityWorld vx vy vz yr)
      | _ => none
    | 9 => if ver < 9 then none else
      match unpackAs [flt, flt, flt, flt] rest with                     -- zDistanceType
      | some [.flt r, .flt p, .flt yr, .flt z] => some (.zDistance r p yr z)
      | _ => none
    | 10 => if ver < 9 then none else
      match unpackAs [flt, flt, flt, flt] rest with                     -- hoverType
      | some [.flt vx, .flt vy, .flt yr, .flt z] => some (.hover vx vy yr z)
      | _ => none
    | _ => none

/-- port 7, channel 1: meta commands -/
def decodeMeta (d : List UInt8) : Option Cmd :=
  match d with
  | [] => none
  | t :: rest =>
    match t.toNat with
    | 0 => match unpackAs [u32] rest with                                -- metaNotifySetpointsStop
      | some [.int ms] => some (.notifySetpointsStop ms.toNat)
      | _ => none
    | _ => none

/-- port 8, channel 0: high-level commander -/
def decodeHL (ver : Int) (d : List UInt8) : Option Cmd :=
  match d with
  | [] => none
  | c :: rest =>
    match c.toNat with
    | 0 => match unpackAs [u8] rest with                                 -- COMMAND_SET_GROUP_MASK: struct data_set_group_mask
      | some [.int gm] => some (.hlSetGroupMask gm.toNat)
      | _ => none
    | 3 => match unpackAs [u8] rest with                                 -- COMMAND_STOP: struct data_stop
      | some [.int gm] => some (.hlStop gm.toNat)
      | _ => none
    | 4 => match unpackAs [u8, u8, flt, flt, flt, flt, flt] rest with    -- COMMAND_GO_TO: struct data_go_to
      | some [.int gm, .int rel, .flt x, .flt y, .flt z, .flt yaw, .flt dur] => some (.hlGoTo gm.toNat rel.toNat x y z yaw dur)
      | _ => none
    | 5 => match unpackAs [u8, u8, u8, u8, flt] rest with                -- COMMAND_START_TRAJECTORY: struct data_start_trajectory
      | some [.int gm, .int rel, .int rev, .int id, .flt ts] => some (.hlStartTrajectory gm.toNat rel.toNat rev.toNat id.toNat ts)
      | _ => none
    | 6 => match unpackAs [u8, u8, u8, u32, u8] rest with                -- COMMAND_DEFINE_TRAJECTORY: id + struct trajectoryDescription
      | some [.int id, .int loc, .int ty, .int off, .int n] => some (.hlDefineTrajectory id.toNat loc.toNat ty.toNat off.toNat n.toNat)
      | _ => none
    | 7 => match unpackAs [u8, flt, flt, cbool, flt] rest with           -- COMMAND_TAKEOFF_2: struct data_takeoff_2
      | some [.int gm, .flt h, .flt yaw, .bool ucy, .flt dur] => some (.hlTakeoff2 gm.toNat h yaw ucy dur)
      | _ => none
    | 8 => match unpackAs [u8, flt, flt, cbool, flt] rest with           -- COMMAND_LAND_2: struct data_land_2
      | some [.int gm, .flt h, .flt yaw, .bool ucy, .flt dur] => some (.hlLand2 gm.toNat h yaw ucy dur)
      | _ => none
    | 11 => if ver < 8 then none else
      match unpackAs [u8, u8, u8, flt, flt, flt, flt, flt] rest with     -- COMMAND_SPIRAL: struct data_spiral
      | some [.int gm, .int sw, .int cw, .flt phi, .flt r0, .flt rf, .flt dz, .flt dur] =>
        some (.hlSpiral gm.toNat sw.toNat cw.toNat phi r0 rf dz dur)
      | _ => none
    | 12 => if ver < 8 then none else
      match unpackAs [u8, u8, u8, flt, flt, flt, flt, flt] rest with     -- COMMAND_GO_TO_2: struct data_go_to_2
      | some [.int gm, .int rel, .int lin, .flt x, .flt y, .flt z, .flt yaw, .flt dur] =>
        some (.hlGoTo2 gm.toNat rel.toNat lin.toNat x y z yaw dur)
      | _ => none
    | _ => none

/-- port 6, channel 1: generic localization packets -/
def decodeLocGeneric (d : List UInt8) : Option Cmd :=
  match d with
  | [] => none
  | t :: rest =>
    match t.toNat with
    | 2 => match rest with                                               -- LPS_SHORT_LPP_PACKET: data[1] = destination, data[2..] = payload
      | dest :: payload => some (.shortLpp dest.toNat payload)
      | [] => none
    | 3 => if rest = [] then some .emergencyStop else none                -- EMERGENCY_STOP
    | 4 => if rest = [] then some .emergencyStopWatchdog else none        -- EMERGENCY_STOP_WATCHDOG
    | 8 => match unpackAs [flt, flt, flt, flt, flt, flt, flt] rest with   -- EXT_POSE: struct CrtpExtPose
      | some [.flt x, .flt y, .flt z, .flt qx, .flt qy, .flt qz, .flt qw] => some (.extPose x y z qx qy qz qw)
      | _ => none
    | 11 => match unpackAs [u16, u16] rest with                           -- LH_PERSIST_DATA: LhPersistArgs_t
      | some [.int g, .int c] => some (.lhPersist g.toNat c.toNat)
      | _ => none
    | _ => none

/-- port 13, channel 0: platform commands -/
def decodePlatform (d : List UInt8) : Option Cmd :=
  match d with
  | [c, a] =>
    match c.toNat with
    | 0 => some (.setContinousWave (a.toNat != 0))
    | 1 => some (.armSystem (a.toNat != 0))
    | _ => none
  | [c] => if c.toNat = 2 then some .recoverSystem else none
  | _ => none

/-- the firmware's dispatch on the CRTP header byte (port = bits 7..4, channel = bits 1..0) -/
def decode (ver : Int) (header : Nat) (data : List UInt8) : Option Cmd :=
  let port := header / 16 % 16
  let chan := header % 4
  match port, chan with
  | 3, 0 => decodeRpyt data
  | 7, 0 => decodeGeneric ver data
  | 7, 1 => decodeMeta data
  | 8, 0 => decodeHL ver data
  | 6, 0 => match unpackAs [flt, flt, flt] data with                     -- EXT_POSITION: struct CrtpExtPosition
    | some [.flt x, .flt y, .flt z] => some (.extPosition x y z)
    | _ => none
  | 6, 1 => decodeLocGeneric data
  | 13, 0 => decodePlatform data
  | _, _ => none

/-- the anchor's decoding of a short LPP payload -/
def decodeLpp (payload : List UInt8) : Option Lpp :=
  match payload with
  | [] => none
  | t :: rest =>
    match t.toNat with
    | 1 => match unpackAs [flt, flt, flt] rest with                       -- LPP_SHORT_ANCHORPOS: struct lppShortAnchorPos_s
      | some [.flt x, .flt y, .flt z] => some (.position x y z)
      | _ => none
    | 2 => match unpackAs [u8] rest with                                  -- LPP_SHORT_REBOOT
      | some [.int m] => some (.reboot m.toNat)
      | _ => none
    | 3 => match unpackAs [u8] rest with                                  -- LPP_SHORT_MODE
      | some [.int m] => some (.mode m.toNat)
      | _ => none
    | _ => none

end CfVerif.C08.Fw

/-
Spec/C09: the vocabulary the C09 property theorems are stated in (independent of the model's control flow):
time-window segmentation of a measurement stream, the group a segment collapses into, and linkage of base
stations through shared samples.
-/
import CfVerif.Model.C09
namespace CfVerif.C09

section Matcher
variable {T A : Type} [Add T] [LT T]

/-- A segment is its first measurement and the measurements that joined it. -/
abbrev Segment (T A : Type) := Meas T A × List (Meas T A)

def Segment.toList (s : Segment T A) : List (Meas T A) := s.1 :: s.2

/-- `segs` is *the* time-window segmentation of `samples`: consecutive runs, in order; every member of a run is
within `maxDiff` of the run's FIRST measurement (`¬ ts > first.ts + maxDiff`, i.e. `ts ≤ first.ts + maxDiff`), and
the measurement following a run is not. -/
inductive Segmentation (maxDiff : T) : List (Meas T A) → List (Segment T A) → Prop
  | nil : Segmentation maxDiff [] []
  | cons (m : Meas T A) (tail rest : List (Meas T A)) (segs : List (Segment T A)) :
      (∀ x ∈ tail, ¬ x.ts > m.ts + maxDiff) →
      (∀ y, rest.head? = some y → y.ts > m.ts + maxDiff) →
      Segmentation maxDiff rest segs →
      Segmentation maxDiff (m :: (tail ++ rest)) ((m, tail) :: segs)

/-- the sample a segment collapses into: time stamp of its first measurement; per base station the LAST
measurement of the segment (see `groupOf_get`) -/
def groupOf (s : Segment T A) : Group T A :=
  { ts := s.1.ts, angles := s.toList.foldl (fun d x => d.set x.bs x.ang) [] }

/-- the last measurement of base station `b` in a list -/
def lastOf (l : List (Meas T A)) (b : Nat) : Option A :=
  (l.reverse.find? (fun x => x.bs = b)).map (·.ang)

end Matcher

/-- Base station `b` is linked to `ref` through shared samples: there is a chain of stations from `ref` to `b`
in which consecutive stations are seen together in some sample (`samples` = the key sets). -/
inductive Linked (samples : List (List Nat)) (ref : Nat) : Nat → Prop
  | ref : Linked samples ref ref
  | step {a b : Nat} {s : List Nat} : Linked samples ref a → s ∈ samples → a ∈ s → b ∈ s → Linked samples ref b

end CfVerif.C09

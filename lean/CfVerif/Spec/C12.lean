/-
Spec/C12: the environment the flashing theorems quantify against, written from protocol knowledge
(not from the client code): the bootloader target (page buffers + flash as byte maps, the firmware-side
decoder of the two commands) and the radio link with an outcome script per flash-write transmission.
-/
import CfVerif.Model.C12
namespace CfVerif.C12
open CfVerif

/-- target memory: `buf page offset`, `flash page offset` -/
structure Target where
  buf : Nat → Nat → UInt8
  flash : Nat → Nat → UInt8

/-- little-endian 16-bit field -/
def le16 (a b : UInt8) : Nat := a.toNat + 256 * b.toNat

inductive Cmd
  | load (page addr : Nat) (bytes : List UInt8)     -- 0x14: copy bytes into buffer `page` at offset `addr`
  | write (bufPage flashPage count : Nat)           -- 0x18: program `count` flash pages from the buffers
  deriving Repr, DecidableEq

/-- firmware-side decoding of a packet addressed to target `tid` on the bootloader port (header 0xFF) -/
def decode (tid : Nat) (p : Pkt) : Option Cmd :=
  if p.hdr ≠ 0xFF then none else
  match p.data with
  | t :: c :: rest =>
    if t.toNat ≠ tid then none
    else if c.toNat = 0x14 then
      match rest with
      | p0 :: p1 :: a0 :: a1 :: bytes => some (.load (le16 p0 p1) (le16 a0 a1) bytes)
      | _ => none
    else if c.toNat = 0x18 then
      match rest with
      | [b0, b1, f0, f1, n0, n1] => some (.write (le16 b0 b1) (le16 f0 f1) (le16 n0 n1))
      | _ => none
    else none
  | _ => none

def Target.load (t : Target) (page addr : Nat) (bytes : List UInt8) : Target :=
  { buf := fun q o =>
      if q = page ∧ addr ≤ o ∧ o < addr + bytes.length then bytes.getD (o - addr) 0 else t.buf q o,
    flash := t.flash }

def Target.writeFlash (t : Target) (bp fp n : Nat) : Target :=
  { buf := t.buf,
    flash := fun q o => if fp ≤ q ∧ q < fp + n then t.buf (bp + (q - fp)) o else t.flash q o }

/-- What happens to one transmission of a flash-write command: whether it reaches the target (which then
executes it), which packet (if any) comes back, and whether that packet arrives only after the receive
of this attempt has returned. -/
structure Outcome where
  exec : Bool
  reply : Option Pkt
  late : Bool
  deriving Repr, DecidableEq

/-- the target's reply to a flash-write command: `(tid, 0x18, status, error code)`; status 1 = done -/
def wfReply (tid : Nat) (status code : UInt8) : Pkt := ⟨0xFF, [UInt8.ofNat tid, 0x18, status, code]⟩

def Outcome.cmdLost : Outcome := ⟨false, none, false⟩
def Outcome.replyLost : Outcome := ⟨true, none, false⟩
def Outcome.okNow (tid : Nat) : Outcome := ⟨true, some (wfReply tid 1 0), false⟩
def Outcome.okLate (tid : Nat) : Outcome := ⟨true, some (wfReply tid 1 0), true⟩
def Outcome.negNow (tid : Nat) (code : UInt8) : Outcome := ⟨true, some (wfReply tid 0 code), false⟩
def Outcome.negLate (tid : Nat) (code : UInt8) : Outcome := ⟨true, some (wfReply tid 0 code), true⟩

/-- a packet the client could take for a positive flash-write reply from target `tid` -/
def Positive (tid : Nat) (p : Pkt) : Prop :=
  p.hdr = 0xFF ∧ p.data.take 2 = [UInt8.ofNat tid, 0x18] ∧ p.data[2]? = some 1

instance (tid : Nat) (p : Pkt) : Decidable (Positive tid p) := by unfold Positive; infer_instance

/-- The only assumption on an outcome: a positive flash-write reply is sent by the target only after it has
executed the command.  Anything else may come back (negative replies, unrelated packets, nothing). -/
def Outcome.Genuine (tid : Nat) (o : Outcome) : Prop :=
  ∀ p, o.reply = some p → Positive tid p → o.exec = true

instance (tid : Nat) (o : Outcome) : Decidable (o.Genuine tid) :=
  match h : o.reply with
  | none => isTrue (by intro p hp; rw [h] at hp; cases hp)
  | some r =>
    if hx : Positive tid r → o.exec = true then
      isTrue (by intro p hp hpos; rw [h] at hp; cases hp; exact hx hpos)
    else isFalse (by intro hg; exact hx (hg r h))

/-- every outcome of the script is genuine -/
def ScriptGenuine (tid : Nat) (s : List Outcome) : Prop := ∀ o ∈ s, o.Genuine tid

instance (tid : Nat) (s : List Outcome) : Decidable (ScriptGenuine tid s) := by
  unfold ScriptGenuine; infer_instance

structure Env where
  tgt : Target
  script : List Outcome      -- outcomes of the successive flash-write transmissions; exhausted: `okNow`
  lateQ : List Pkt           -- replies in flight that the current receive will not see

def nextOutcome (tid : Nat) : List Outcome → Outcome × List Outcome
  | [] => (Outcome.okNow tid, [])
  | o :: rest => (o, rest)

/-- Timing assumption built into this peer: a late reply becomes visible as soon as the receive of the
attempt that caused it has returned (in particular before the next `write_flash` call starts). -/
def targetPeer (tid : Nat) : Peer Env where
  onSend e p :=
    match decode tid p with
    | none => (e, [])
    | some (.load page addr bytes) =>
      ({ tgt := e.tgt.load page addr bytes, script := e.script, lateQ := e.lateQ }, [])
    | some (.write bp fp n) =>
      let o := (nextOutcome tid e.script).1
      let rest := (nextOutcome tid e.script).2
      let tgt := if o.exec then e.tgt.writeFlash bp fp n else e.tgt
      match o.reply with
      | none => ({ tgt := tgt, script := rest, lateQ := e.lateQ }, [])
      | some r =>
        if o.late then ({ tgt := tgt, script := rest, lateQ := e.lateQ ++ [r] }, [])
        else ({ tgt := tgt, script := rest, lateQ := e.lateQ }, [r])
  onWaitDone e := ({ tgt := e.tgt, script := e.script, lateQ := [] }, e.lateQ)

/-! ### vocabulary for the theorems -/

/-- transmit a list of packets in order -/
def sendAll {σ : Type} (P : Peer σ) (L : Link σ) (pkts : List Pkt) : Link σ := pkts.foldl (Link.send P) L

/-- the load-buffer packet of the protocol: header 0xFF, `(tid, 0x14, page, addr)` little-endian, then the bytes -/
def loadPkt (tid page addr : Nat) (bytes : List UInt8) : Pkt :=
  ⟨0xFF, [UInt8.ofNat tid, 0x14] ++ leBytes 2 page ++ leBytes 2 addr ++ bytes⟩

/-- consecutive load-buffer packets carrying `chunks` at a running address starting from `addr` -/
def loadPkts (tid page : Nat) : Nat → List (List UInt8) → List Pkt
  | _, [] => []
  | addr, c :: cs => loadPkt tid page addr c :: loadPkts tid page (addr + c.length) cs

/-- the flash-write packet of the protocol: `(tid, 0x18, buffer page, flash page, page count)` -/
def writePkt (tid bp fp n : Nat) : Pkt :=
  ⟨0xFF, [UInt8.ofNat tid, 0x18] ++ leBytes 2 bp ++ leBytes 2 fp ++ leBytes 2 n⟩

/-- the individual buffer-byte writes `(buffer page, offset, byte)` the target performs for a packet sequence -/
def byteWrites (tid : Nat) (pkts : List Pkt) : List (Nat × Nat × UInt8) :=
  pkts.flatMap fun p =>
    match decode tid p with
    | some (.load page addr bytes) => (bytes.zipIdx addr).map fun x => (page, x.2, x.1)
    | _ => []

/-- number of pages an image of `len ≥ 1` bytes occupies -/
def nPages (len pageSize : Nat) : Nat := (len - 1) / pageSize + 1

/-- A transmitted packet is a command the target decodes, and it stays inside the page buffers and inside
the flash pages `[S, S+n)` the image occupies (themselves inside the flash). -/
def CmdWithin (g : Geom) (tid S n : Nat) (p : Pkt) : Prop :=
  match decode tid p with
  | some (.load page addr bytes) =>
      page < g.bufferPages ∧ addr + bytes.length ≤ g.pageSize ∧ p.data.length ≤ 31
  | some (.write bp fp cnt) =>
      bp + cnt ≤ g.bufferPages ∧ S ≤ fp ∧ fp + cnt ≤ S + n ∧ S + n ≤ g.flashPages
  | none => False

/-! ### reference semantics of retrying and aborting (for scripts without unrelated traffic) -/

/-- every packet that comes back is a well-formed flash-write reply of this target (any status, any code) -/
def Outcome.Clean (tid : Nat) (o : Outcome) : Prop :=
  ∀ p, o.reply = some p → ∃ st code, p = wfReply tid st code

def ScriptClean (tid : Nat) (s : List Outcome) : Prop := ∀ o ∈ s, o.Clean tid

/-- "Retry until answered": `refLoop tries pending script` = (number of transmissions, the reply that decided the
call if one reached the client in time).  Per transmission the client sees the reply still pending from the previous
attempt (a late one) or else this attempt's reply if it is not late; the first reply seen ends the retrying, but a
reply seen only after the last permitted transmission counts as no reply. -/
def refLoop (tid : Nat) : Nat → Option Pkt → List Outcome → Nat × Option Pkt
  | 0, _, _ => (0, none)
  | n + 1, pending, s =>
    let o := (nextOutcome tid s).1
    let seen := match pending with
      | some r => some r
      | none => if o.late then none else o.reply
    let pending' := match pending with
      | some _ => none
      | none => if o.late then o.reply else none
    match seen with
    | some r => (1, if n = 0 then none else some r)
    | none => ((refLoop tid n pending' (nextOutcome tid s).2).1 + 1, (refLoop tid n pending' (nextOutcome tid s).2).2)

/-- one flush: the transmissions of the command, whether it succeeded (decided in time by a status-1 reply), the error
code the client records, the outcomes left -/
def refFlush (tid tries bp fp cnt : Nat) (s : List Outcome) : List Pkt × Bool × Int × List Outcome :=
  let r := refLoop tid tries none s
  (List.replicate r.1 (writePkt tid bp fp cnt),
   (match r.2 with | some p => p.data[2]? == some 1 | none => false),
   (match r.2 with | some p => ((p.data.getD 3 0).toNat : Int) | none => -1),
   s.drop r.1)

/-- split into consecutive chunks of `k + 1` bytes; the last chunk holds the remaining `0..k` bytes -/
def chunksOf (k : Nat) : Nat → List UInt8 → List (List UInt8)
  | 0, l => [l]
  | f + 1, l => if l.length ≤ k then [l] else l.take (k + 1) :: chunksOf k f (l.drop (k + 1))

def chunks (k : Nat) (l : List UInt8) : List (List UInt8) := chunksOf k l.length l

/-- the bytes of page `i` of the image -/
def pageBytes (image : List UInt8) (ps i : Nat) : List UInt8 := (image.drop (i * ps)).take ps

/-- Reference run (`k` pages still to upload, `i` uploaded, the last `ctr` of them waiting in buffers `0..ctr-1`):
the packets transmitted, and the result (`none` = completed, `some code` = aborted with that error code).
Upload page `i` into buffer `ctr`; when the buffers are full, flush them to flash pages `S+i-ctr ..`; a flush that
fails ENDS the run: nothing is transmitted after its last attempt.  A final partial flush follows the last page. -/
def refRun (tid tries K : Nat) (g : Geom) (S : Nat) (image : List UInt8) :
    Nat → Nat → Nat → List Outcome → List Pkt × Option Int
  | 0, i, ctr, s =>
    if ctr = 0 then ([], none)
    else
      let f := refFlush tid tries 0 (S + i - ctr) ctr s
      (f.1, if f.2.1 then none else some f.2.2.1)
  | k + 1, i, ctr, s =>
    let loads := loadPkts tid ctr 0 (chunks K (pageBytes image g.pageSize i))
    if ctr + 1 ≥ g.bufferPages then
      let f := refFlush tid tries 0 (S + i - ctr) (ctr + 1) s
      if f.2.1 then
        (loads ++ f.1 ++ (refRun tid tries K g S image k (i + 1) 0 f.2.2.2).1,
          (refRun tid tries K g S image k (i + 1) 0 f.2.2.2).2)
      else (loads ++ f.1, some f.2.2.1)
    else
      (loads ++ (refRun tid tries K g S image k (i + 1) (ctr + 1) s).1,
        (refRun tid tries K g S image k (i + 1) (ctr + 1) s).2)

/-! ### several loader objects, several connections, copters with several targets -/

/-- one target of a copter: what its bootloader reports, and its memory -/
structure CTarget where
  tid : Nat
  geom : Geom
  mem : Target

/-- A Crazyflie in bootloader mode.  `infoScript`: what happens to the successive get-info transmissions
(exhausted: answered at once); the copter's own answer to get-info for a target is `infoPkt`. -/
structure Copter where
  targets : List CTarget
  proto : Option Nat
  infoScript : List Outcome
  lateQ : List Pkt

/-- the get-info reply of the protocol: `(tid, 0x10, page_size, buffer_pages, flash_pages, start_page)` little-endian,
12 bytes cpu id, optionally the protocol version -/
def infoPkt (tid : Nat) (g : Geom) (proto : Option Nat) : Pkt :=
  ⟨0xFF, [UInt8.ofNat tid, 0x10] ++ leBytes 2 g.pageSize ++ leBytes 2 g.bufferPages ++ leBytes 2 g.flashPages ++
    leBytes 2 g.startPage ++ (List.range 12).map UInt8.ofNat ++ (proto.map UInt8.ofNat).toList⟩

def Copter.find (c : Copter) (tid : Nat) : Option CTarget := c.targets.find? (·.tid = tid)

def Copter.setMem (c : Copter) (tid : Nat) (m : Target) : Copter :=
  { c with targets := c.targets.map fun t => if t.tid = tid then { t with mem := m } else t }

/-- the geometry the copter reports for `tid` -/
def Copter.geomOf (c : Copter) (tid : Nat) : Option Geom := (c.find tid).map (·.geom)

def copterPeer : Peer Copter where
  onSend c p :=
    if p.hdr ≠ 0xFF then (c, []) else
    match p.data with
    | t :: cmd :: _ =>
      match c.find t.toNat with
      | none => (c, [])
      | some ct =>
        if cmd.toNat = 0x10 then
          match c.infoScript with
          | [] => (c, [infoPkt ct.tid ct.geom c.proto])
          | o :: rest =>
            match o.reply with
            | none => ({ c with infoScript := rest }, [])
            | some r =>
              if o.late then ({ c with infoScript := rest, lateQ := c.lateQ ++ [r] }, [])
              else ({ c with infoScript := rest }, [r])
        else
          match decode ct.tid p with
          | some (.load page addr bytes) => (c.setMem ct.tid (ct.mem.load page addr bytes), [])
          | some (.write bp fp n) => (c.setMem ct.tid (ct.mem.writeFlash bp fp n), [wfReply ct.tid 1 0])
          | none => (c, [])
    | _ => (c, [])
  onWaitDone c := ({ c with lateQ := [] }, c.lateQ)

/-- One process: copters that can be connected to, loader objects (each with the index of the copter its current
link goes to), and - ghost - for every cache entry of every loader the copter it was read from. -/
structure LoaderSt where
  ld : Loader Copter
  conn : Option Nat
  readFrom : List (Nat × Nat)          -- ghost: target id ↦ copter index the cached entry was read from

structure World where
  copters : List Copter
  loaders : List LoaderSt

inductive HOp
  | new                                   -- a new Cloader object (appended)
  | openLink (k c : Nat)                  -- loader k: open_bootloader_uri to copter c (closes its previous link)
  | closeLink (k : Nat)                   -- Bootloader.close(): link closed, `link = None`
  | update (k tid : Nat)                  -- _update_info(tid)
  | request (k tid : Nat)                 -- request_info_update(tid)
  | check (k : Nat)                       -- check_link_and_get_info()  (target 0xFF)
  | flash (k key : Nat) (image : List UInt8) (ov : Option Int)
  deriving Repr

inductive HRes
  | unit | bool (b : Bool) | geom (g : Geom) | res (r : Res) | err (e : PyErr) | stepBound | badOp
  deriving Repr, DecidableEq

/-- hand the copter state held by loader `k`'s link back to the world (the radio is exclusive: one link per copter) -/
def World.release (w : World) (k : Nat) : World :=
  match w.loaders[k]? with
  | some ls =>
    match ls.ld.link, ls.conn with
    | some L, some c => { w with copters := w.copters.set c L.st }
    | _, _ => w
  | none => w

def lookupN (l : List (Nat × Nat)) (k : Nat) : Option Nat :=
  match l with
  | [] => none
  | (a, b) :: r => if a = k then some b else lookupN r k

/-- record in the ghost map the entries that were (re)read by an operation -/
def noteRead (ls : LoaderSt) (ld' : Loader Copter) : LoaderSt :=
  { ld := ld', conn := ls.conn,
    readFrom := if ld'.targets.length = ls.ld.targets.length then ls.readFrom
      else match ld'.targets.head?, ls.conn with
        | some (tid, _), some c => (tid, c) :: ls.readFrom
        | _, _ => ls.readFrom }

/-- `repaired = false` runs the loader as it was before the repair D26 (cache kept across `open_bootloader_uri`) -/
def World.step (repaired : Bool) (fuel : Nat) (w : World) : HOp → World × HRes
  | .new => ({ w with loaders := w.loaders ++ [⟨Loader.new, none, []⟩] }, .unit)
  | .openLink k c =>
    match w.loaders[k]?, w.copters[c]? with
    | some _, some _ =>
      -- the copter must not be held by another loader's link
      if (w.loaders.zipIdx.any fun (x : LoaderSt × Nat) => x.2 ≠ k ∧ x.1.conn = some c ∧ x.1.ld.link.isSome) then (w, .badOp)
      else
        let w1 := w.release k
        match w1.loaders[k]?, w1.copters[c]? with
        | some ls, some cop =>
          let L0 : Link Copter := { st := { cop with lateQ := [] }, inbox := [], sent := [] }
          let ls' : LoaderSt :=
            if repaired then { ld := ls.ld.openLink L0, conn := some c, readFrom := [] }
            else { ls with ld := ls.ld.openLinkKeep L0, conn := some c }
          ({ w1 with loaders := w1.loaders.set k ls' }, .unit)
        | _, _ => (w, .badOp)
    | _, _ => (w, .badOp)
  | .closeLink k =>
    match w.loaders[k]? with
    | some ls =>
      let w1 := w.release k
      let ls' : LoaderSt := { ls with ld := { ls.ld with link := none }, conn := none }
      ({ w1 with loaders := w1.loaders.set k ls' }, .unit)
    | none => (w, .badOp)
  | .update k tid =>
    match w.loaders[k]? with
    | some ls =>
      let r := updateInfo copterPeer fuel ls.ld tid
      ({ w with loaders := w.loaders.set k (noteRead ls r.1) },
        match r.2 with | none => .stepBound | some (.ok b) => .bool b | some (.error e) => .err e)
    | none => (w, .badOp)
  | .request k tid =>
    match w.loaders[k]? with
    | some ls =>
      let r := requestInfoUpdate copterPeer fuel ls.ld tid
      ({ w with loaders := w.loaders.set k (noteRead ls r.1) },
        match r.2 with | none => .stepBound | some (.ok g) => .geom g | some (.error e) => .err e)
    | none => (w, .badOp)
  | .check k =>
    match w.loaders[k]? with
    | some ls =>
      let r := updateInfo copterPeer fuel ls.ld Gen.C12.targetSTM32
      ({ w with loaders := w.loaders.set k (noteRead ls r.1) },
        match r.2 with | none => .stepBound | some (.ok b) => .bool b | some (.error e) => .err e)
    | none => (w, .badOp)
  | .flash k key image ov =>
    match w.loaders[k]? with
    | some ls =>
      let r := flashOn copterPeer ls.ld key image ov []
      let ls' : LoaderSt := { ls with ld := r.1 }
      ({ w with loaders := w.loaders.set k ls' }, .res r.2)
    | none => (w, .badOp)

def World.run (repaired : Bool) (fuel : Nat) : World → List HOp → World × List HRes
  | w, [] => (w, [])
  | w, op :: ops =>
    let r := w.step repaired fuel op
    let rr := World.run repaired fuel r.1 ops
    (rr.1, r.2 :: rr.2)

end CfVerif.C12

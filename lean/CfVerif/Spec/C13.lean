/-
Spec/C13: independent specifications used by the C13 theorems.  No Mathlib, nothing from the code.

* the VALUE denoted by an IEEE-754 binary16 / binary32 bit pattern, written from the standard
  (sign, biased exponent, trailing significand): a signed dyadic rational, an infinity or NaN;
* the firmware-side encoders of the range-report and lighthouse angle-stream packets.
-/
import CfVerif.Base.Bytes
namespace CfVerif.C13.Spec
open CfVerif

/-- The value of a floating-point datum.  `fin neg num k` denotes `(-1)^neg · num / 2^k`
(signed zeros are distinct values, as in IEEE-754). -/
inductive FpVal
  | nan
  | inf (neg : Bool)
  | fin (neg : Bool) (num : Nat) (k : Nat)
  deriving Repr, DecidableEq

/-- two data denote the same value (`num/2^k = num'/2^k'`, same sign; NaN matches NaN) -/
def FpVal.same : FpVal → FpVal → Bool
  | .nan, .nan => true
  | .inf a, .inf b => a == b
  | .fin a n k, .fin b m l => a == b && n * 2 ^ l == m * 2 ^ k
  | _, _ => false

/-- IEEE-754 binary16: 1 sign bit, 5 exponent bits (bias 15), 10 fraction bits.
normal: `(1 + m/2^10)·2^(e-15) = (2^10+m)·2^e / 2^25`; subnormal: `m/2^10 · 2^-14 = 2m / 2^25`. -/
def halfValue (h : Nat) : FpVal :=
  let s := h / 2 ^ 15 % 2 == 1
  let e := h / 2 ^ 10 % 2 ^ 5
  let m := h % 2 ^ 10
  if e == 31 then (if m == 0 then .inf s else .nan)
  else if e == 0 then .fin s (2 * m) 25
  else .fin s ((2 ^ 10 + m) * 2 ^ e) 25

/-- IEEE-754 binary32: 1 sign bit, 8 exponent bits (bias 127), 23 fraction bits.
normal: `(2^23+m)·2^e / 2^150`; subnormal: `2m / 2^150`. -/
def singleValue (b : Nat) : FpVal :=
  let s := b / 2 ^ 31 % 2 == 1
  let e := b / 2 ^ 23 % 2 ^ 8
  let m := b % 2 ^ 23
  if e == 255 then (if m == 0 then .inf s else .nan)
  else if e == 0 then .fin s (2 * m) 150
  else .fin s ((2 ^ 23 + m) * 2 ^ e) 150

/-! ### device side of the localization stream packets (CRTP port 6, generic channel), written from the
firmware's packet layouts: first byte = packet type, all fields little-endian and packed. -/

/-- `RANGE_STREAM_REPORT` (type 0): for each anchor one byte id and the distance as a binary32 -/
def encodeRangeReport (anchors : List (Nat × Nat)) : List UInt8 :=
  0 :: (anchors.map fun a => UInt8.ofNat a.1 :: leBytes 4 a.2).flatten

/-- `LH_ANGLE_STREAM` (type 10): base station; per sweep axis the angle seen by sensor 0 as a binary32 followed by
the three differences `angle(sensor 0) - angle(sensor k)`, k = 1..3, as binary16 -/
def encodeLhAngle (bs : Nat) (bx x1 x2 x3 : Nat) (by_ y1 y2 y3 : Nat) : List UInt8 :=
  10 :: UInt8.ofNat bs :: (leBytes 4 bx ++ leBytes 2 x1 ++ leBytes 2 x2 ++ leBytes 2 x3 ++
    leBytes 4 by_ ++ leBytes 2 y1 ++ leBytes 2 y2 ++ leBytes 2 y3)

end CfVerif.C13.Spec

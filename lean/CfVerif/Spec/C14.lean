/-
Spec/C14: the stored images as the *device* reads / produces them - independent positional decoders and
encoders written from the firmware's struct layouts, not from the Python code (trusted environment models).
-/
import CfVerif.Model.C14
namespace CfVerif.C14
open CfVerif

/-- EEPROM configuration block as the firmware lays it out (`configblock`): magic `0xBC` (4 ASCII bytes),
version, radio channel, radio speed, pitch trim f32, roll trim f32, [version 1: radio address upper byte,
lower u32], checksum = sum of all preceding bytes modulo 256.  Positional reading of a memory image. -/
def i2cDecode (m : Mem) : I2CParsed :=
  if m.take 4 = [0x30, 0x78, 0x42, 0x43] then
    let f : Int × Int × Int × Nat × Nat :=
      ((m.getD 4 0).toNat, (m.getD 5 0).toNat, (m.getD 6 0).toNat, leVal (slice m 7 11), leVal (slice m 11 15))
    if m.getD 4 0 = 0 then
      { fields := some f, address := none,
        valid := byteSum (m.take 15) % 256 == (m.getD 15 0).toNat, called := true }
    else if m.getD 4 0 = 1 then
      { fields := some f, address := some ((m.getD 15 0).toNat * 2 ^ 32 + leVal (slice m 16 20)),
        valid := byteSum (m.take 20) % 256 == (m.getD 20 0).toNat, called := true }
    else { fields := some f, address := none, valid := false, called := false }
  else { fields := none, address := none, valid := false, called := true }

end CfVerif.C14

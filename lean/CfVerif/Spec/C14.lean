/-
Spec/C14: the stored images as the *device* reads / produces them - independent positional decoders and
encoders written from the firmware's struct layouts, not from the Python code (trusted environment models).
-/
import CfVerif.Model.C14
namespace CfVerif.C14
open CfVerif

/-- EEPROM configuration block as the firmware lays it out (`configblock`): magic `0xBC` (4 ASCII bytes),
version, radio channel, radio speed, pitch trim f32, roll trim f32, [version 1: radio address upper byte,
lower u32], checksum = sum of all preceding bytes modulo 256.  Positional reading of a memory image. -/
def i2cDecode (m : Mem) : I2CParsed :=
  if m.take 4 = [0x30, 0x78, 0x42, 0x43] then
    let f : Int × Int × Int × Nat × Nat :=
      ((m.getD 4 0).toNat, (m.getD 5 0).toNat, (m.getD 6 0).toNat, leVal (slice m 7 11), leVal (slice m 11 15))
    if m.getD 4 0 = 0 then
      { fields := some f, address := none,
        valid := byteSum (m.take 15) % 256 == (m.getD 15 0).toNat, called := true }
    else if m.getD 4 0 = 1 then
      { fields := some f, address := some ((m.getD 15 0).toNat * 2 ^ 32 + leVal (slice m 16 20)),
        valid := byteSum (m.take 20) % 256 == (m.getD 20 0).toNat, called := true }
    else { fields := some f, address := none, valid := false, called := true }     -- unknown version: reported, not valid
  else { fields := none, address := none, valid := false, called := true }

/-! ### deck memory info section, as the firmware (deck_memory.c, version 3) produces it -/

/-- one deck memory info record on the device -/
structure DeckRec where
  isValid : Bool
  isStarted : Bool
  supportsRead : Bool
  supportsWrite : Bool
  supportsUpgrade : Bool
  upgradeRequired : Bool
  bootloaderActive : Bool
  resetToFw : Bool
  resetToBootloader : Bool
  hash : Nat
  len : Nat
  base : Nat
  name : List UInt8
  deriving Repr, DecidableEq

def b2n (b : Bool) : Nat := if b then 1 else 0

def DeckRec.bf1 (r : DeckRec) : Nat :=
  b2n r.isValid + 2 * b2n r.isStarted + 4 * b2n r.supportsRead + 8 * b2n r.supportsWrite +
  16 * b2n r.supportsUpgrade + 32 * b2n r.upgradeRequired + 64 * b2n r.bootloaderActive
def DeckRec.bf2 (r : DeckRec) : Nat := b2n r.resetToFw + 2 * b2n r.resetToBootloader

/-- 32 bytes: two bit fields, required hash, required length, base address (u32 LE), name NUL-padded to 18 -/
def DeckRec.encode (r : DeckRec) : List UInt8 :=
  [UInt8.ofNat r.bf1, UInt8.ofNat r.bf2] ++ (leBytes 4 r.hash ++ (leBytes 4 r.len ++ (leBytes 4 r.base ++ fitBytes 18 r.name)))

/-- representable records: u32 fields, an ASCII name of at most 18 characters without NUL -/
def DeckRec.WF (r : DeckRec) : Prop :=
  r.hash < 2 ^ 32 ∧ r.len < 2 ^ 32 ∧ r.base < 2 ^ 32 ∧ r.name.length ≤ 18 ∧ ∀ b ∈ r.name, b ≠ 0 ∧ b.toNat < 128

/-- the info section: version byte 3 and the records -/
def deckSection (recs : List DeckRec) : List UInt8 := 3 :: (recs.map DeckRec.encode).flatten

/-- what the library must report for record number `i` -/
def DeckRec.info (r : DeckRec) (i : Nat) : DeckInfo :=
  { bf1 := r.bf1, bf2 := r.bf2, requiredHash := r.hash, requiredLength := r.len, baseAddress := r.base,
    name := r.name.map UInt8.toNat, cmdBase := 0x1000 + i * 0x20 }

/-- the decks the library must list: the valid records, by index -/
def deckExpected : List DeckRec → Nat → List (Nat × DeckInfo)
  | [], _ => []
  | r :: rs, i => if r.isValid then (i, r.info i) :: deckExpected rs (i + 1) else deckExpected rs (i + 1)

/-! ### loco positioning memory, as the firmware (locoMemory / lpsTdoa) serves it -/

/-- one anchor page: position as three float32 and the valid flag -/
def Anchor.encode (a : Anchor) : List UInt8 :=
  leBytes 4 a.pos.x ++ (leBytes 4 a.pos.y ++ (leBytes 4 a.pos.z ++ [if a.valid then 1 else 0]))

def Anchor.WF (a : Anchor) : Prop := a.pos.x < 2 ^ 32 ∧ a.pos.y < 2 ^ 32 ∧ a.pos.z < 2 ^ 32

/-! ### write-only images as the firmware reads them -/

/-- `struct poly4d { float p[4][8]; float duration; }`: 33 consecutive little-endian floats -/
def poly4dLayout (x y z yaw : List Nat) (duration : Nat) : List UInt8 :=
  ((x ++ y ++ z ++ yaw ++ [duration]).map (leBytes 4)).flatten

end CfVerif.C14

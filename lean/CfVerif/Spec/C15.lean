/-
Spec/C15 — the "RealLike" interface of DESIGN 3.1, as used by C15.

The lighthouse conversions are written ONCE, generically over a type `α` that has `+ - * /`, unary minus
and the operations of `RealOps` below.  The very same definitions are
  * run with `α := Float` (binary64, instance in Driver/C15.lean) for the correspondence against numpy/math, and
  * reasoned about with `α := ℝ` (instance in Proofs/C15Real.lean) for the theorems.
The gap between ℝ and binary64 arithmetic is a named trusted assumption of C15 (see docs/C15.md).

This file also fixes the meaning of the *partial* Python float operations (`/`, `math.sqrt`, `math.asin`),
whose error branches are explicit `Except` results, the result of a numpy float division followed by
`np.nan_to_num`, and 3-vectors / 3x3 matrices as plain structures.  No Mathlib.
-/
import CfVerif.Base.Struct
namespace CfVerif.C15
open CfVerif

/-- operations on the number type beyond `+ - * /` and unary minus -/
class RealOps (α : Type) where
  /-- exact embedding of a natural-number literal -/
  nat : Nat → α
  pi : α
  sin : α → α
  cos : α → α
  tan : α → α
  atan : α → α
  asin : α → α
  sqrt : α → α
  /-- `math.atan2(y, x)` / `np.arctan2(y, x)` -/
  atan2 : α → α → α
  /-- `x ** n` for a literal natural exponent -/
  pow : α → Nat → α
  /-- `np.float32(x)`: rounding to binary32 (the identity on ℝ; the rounding error is outside the theorems) -/
  f32 : α → α
  /-- `x == 0.0` -/
  isZero : α → Bool
  /-- `a < b` -/
  ltb : α → α → Bool
  /-- `sys.float_info.max`, what `np.nan_to_num` substitutes for an infinity -/
  fmax : α

export RealOps (nat pi sin cos tan atan asin sqrt atan2 pow f32 isZero ltb fmax)

section
variable {α : Type} [Add α] [Sub α] [Mul α] [Div α] [Neg α] [RealOps α]

/-! ## Python float operations that can raise -/

/-- Python `a / b` on floats: `ZeroDivisionError` for a zero divisor -/
def divE (a b : α) : Except PyErr α := if isZero b then .error .zeroDiv else .ok (a / b)

/-- `math.sqrt(a)`: `ValueError` (math domain error) for a negative argument -/
def sqrtE (a : α) : Except PyErr α := if ltb a (nat 0) then .error .valueError else .ok (sqrt a)

/-- `math.asin(a)`: `ValueError` (math domain error) outside [-1, 1] -/
def asinE (a : α) : Except PyErr α :=
  if ltb (nat 1) a || ltb a (-(nat 1)) then .error .valueError else .ok (asin a)

/-! ## numpy float division (never raises) followed by `np.nan_to_num` -/

/-- outcome of a numpy float division: a finite quotient, NaN (0/0), or a signed infinity (x/0, x ≠ 0) -/
inductive NpDiv (α : Type) where
  | fin (q : α)
  | nan
  | inf (negative : Bool)

/-- numpy `a / b` under `np.errstate(invalid='ignore')` -/
def npDiv (a b : α) : NpDiv α :=
  if isZero b then (if isZero a then .nan else .inf (ltb a (nat 0))) else .fin (a / b)

/-- `np.nan_to_num(x, posinf=pinf, neginf=ninf)`: NaN ↦ 0.0, +inf ↦ `pinf`, -inf ↦ `ninf`, finite values unchanged.
(numpy's defaults for `pinf` / `ninf` are `fmax` / `-fmax`, the largest finite floats) -/
def nanToNum (pinf ninf : α) : NpDiv α → α
  | .fin q => q
  | .nan => nat 0
  | .inf false => pinf
  | .inf true => ninf

/-! ## 3-vectors and 3x3 matrices (numpy arrays of shape (3,) and (3, 3)) -/

@[ext] structure V3 (α : Type) where
  x : α
  y : α
  z : α

/-- row-major 3x3 matrix: `r0 r1 r2` are the rows -/
@[ext] structure M3 (α : Type) where
  r0 : V3 α
  r1 : V3 α
  r2 : V3 α

namespace V3
def add (a b : V3 α) : V3 α := ⟨a.x + b.x, a.y + b.y, a.z + b.z⟩
def sub (a b : V3 α) : V3 α := ⟨a.x - b.x, a.y - b.y, a.z - b.z⟩
def neg (a : V3 α) : V3 α := ⟨-a.x, -a.y, -a.z⟩
/-- numpy `a * b` on arrays: elementwise -/
def mul (a b : V3 α) : V3 α := ⟨a.x * b.x, a.y * b.y, a.z * b.z⟩
/-- scalar (shape (n,1) column) times vector -/
def smul (c : α) (a : V3 α) : V3 α := ⟨c * a.x, c * a.y, c * a.z⟩
/-- `np.sum(a, axis=1)` -/
def sum (a : V3 α) : α := a.x + a.y + a.z
/-- `np.dot(a, b)` for 1-D arrays -/
def dot (a b : V3 α) : α := a.x * b.x + a.y * b.y + a.z * b.z
/-- `np.cross(a, b)` -/
def cross (a b : V3 α) : V3 α := ⟨a.y * b.z - a.z * b.y, a.z * b.x - a.x * b.z, a.x * b.y - a.y * b.x⟩
/-- `np.linalg.norm(a)` -/
def norm (a : V3 α) : α := sqrt (a.x * a.x + a.y * a.y + a.z * a.z)
def zero : V3 α := ⟨nat 0, nat 0, nat 0⟩
/-- `np.nan_to_num(a / theta, posinf=pinf, neginf=ninf)`, componentwise -/
def divNanToNum (pinf ninf : α) (a : V3 α) (theta : α) : V3 α :=
  ⟨nanToNum pinf ninf (npDiv a.x theta), nanToNum pinf ninf (npDiv a.y theta), nanToNum pinf ninf (npDiv a.z theta)⟩
end V3

namespace M3
def col0 (m : M3 α) : V3 α := ⟨m.r0.x, m.r1.x, m.r2.x⟩
def col1 (m : M3 α) : V3 α := ⟨m.r0.y, m.r1.y, m.r2.y⟩
def col2 (m : M3 α) : V3 α := ⟨m.r0.z, m.r1.z, m.r2.z⟩
/-- `np.transpose(m)` -/
def transpose (m : M3 α) : M3 α := ⟨m.col0, m.col1, m.col2⟩
/-- `np.dot(m, v)` for a (3,3) and a (3,) array -/
def mulVec (m : M3 α) (v : V3 α) : V3 α := ⟨V3.dot m.r0 v, V3.dot m.r1 v, V3.dot m.r2 v⟩
/-- `np.dot(a, b)` for two (3,3) arrays -/
def mul (a b : M3 α) : M3 α :=
  ⟨⟨V3.dot a.r0 b.col0, V3.dot a.r0 b.col1, V3.dot a.r0 b.col2⟩,
   ⟨V3.dot a.r1 b.col0, V3.dot a.r1 b.col1, V3.dot a.r1 b.col2⟩,
   ⟨V3.dot a.r2 b.col0, V3.dot a.r2 b.col1, V3.dot a.r2 b.col2⟩⟩
/-- `np.identity(3)` -/
def one : M3 α := ⟨⟨nat 1, nat 0, nat 0⟩, ⟨nat 0, nat 1, nat 0⟩, ⟨nat 0, nat 0, nat 1⟩⟩
end M3

end
end CfVerif.C15

/-
Spec/C16 — the vocabulary of the property, independent of the code: what a proper rotation is, what "rigid" means,
distances, relative orientation, "aligned with the reference samples".  Generic in the carrier like the model; the theorems
instantiate it with ℝ.
-/
import CfVerif.Model.C16
namespace CfVerif.C16

section
variable {α : Type} [Add α] [Sub α] [Mul α] [OfNat α 0] [OfNat α 1]

def Mat3.transpose (m : Mat3 α) : Mat3 α := ⟨m.a11, m.a21, m.a31, m.a12, m.a22, m.a32, m.a13, m.a23, m.a33⟩

def Mat3.det (m : Mat3 α) : α :=
  m.a11 * (m.a22 * m.a33 - m.a23 * m.a32) - m.a12 * (m.a21 * m.a33 - m.a23 * m.a31) + m.a13 * (m.a21 * m.a32 - m.a22 * m.a31)

/-- proper orthogonal: `Rᵀ R = I` and `det R = +1` (a rotation, not a mirror image) -/
def Mat3.IsProper (m : Mat3 α) : Prop := m.transpose.mul m = Mat3.one ∧ m.det = 1

/-- a pose used as a map is a proper rigid transformation when its matrix is a proper rotation -/
def Pose.IsProperRigid (p : Pose α) : Prop := p.R.IsProper

/-- relative orientation of `b` seen from `a`: `R_aᵀ R_b` -/
def relOrientation (a b : Pose α) : Mat3 α := a.R.transpose.mul b.R

/-- what the reference samples demand of a transformation `T`: origin ↦ (0,0,0), x-axis samples ↦ (·,0,0), plane samples ↦ (·,·,0) -/
def Aligned (T : Pose α) (origin : Vec3 α) (xAxis xyPlane : List (Vec3 α)) : Prop :=
  T.rotateTranslate origin = Vec3.zero ∧
  (∀ x ∈ xAxis, (T.rotateTranslate x).y = 0 ∧ (T.rotateTranslate x).z = 0) ∧
  (∀ p ∈ xyPlane, (T.rotateTranslate p).z = 0)

end

section
variable {α : Type} [Add α] [Sub α] [Mul α] [HasSqrt α]
/-- Euclidean distance -/
def dist3 (a b : Vec3 α) : α := (a.sub b).norm
end

end CfVerif.C16

/-
Spec/C20: the vocabulary in which property C20 is stated - how a radio URI is written down (`mkUri`, `printUri`),
which characters may occur in its fields, the number a hex string denotes and the five address bytes of a 40-bit
number, most significant first.  Independent of the parser in Model/C20 (only `Str`, `hexVal?` and the character
classes are shared).
-/
import CfVerif.Model.C20
namespace CfVerif.C20
open CfVerif

def IsHex (c : Char) : Prop := (hexVal? c).isSome = true
instance (c : Char) : Decidable (IsHex c) := by unfold IsHex; infer_instance

/-- the number a string of hex digits denotes (most significant digit first; either case) -/
def hexValue (s : Str) : Nat := s.foldl (fun a c => 16 * a + (hexVal? c).getD 0) 0

/-- the 5 bytes of a 40-bit number, most significant first: the order `Crazyradio.set_address` sends to the radio -/
def beBytes5 (n : Nat) : List Nat := [n / 2 ^ 32 % 256, n / 2 ^ 24 % 256, n / 2 ^ 16 % 256, n / 2 ^ 8 % 256, n % 256]

/-- a character that may occur inside a path field or a dongle id: ASCII, not removed by `urlsplit` (tab, CR, LF)
and not one of the delimiters `/ ? #` -/
def FieldChar (c : Char) : Prop := isAscii c = true ∧ unsafeChar c = false ∧ netlocDelim c = false
/-- dongle ids additionally avoid the IPv6 brackets -/
def NetlocChar (c : Char) : Prop := FieldChar c ∧ c ≠ '[' ∧ c ≠ ']'
/-- a character of the query part: anything ASCII that `urlsplit` keeps, except the fragment delimiter -/
def QueryChar (c : Char) : Prop := isAscii c = true ∧ unsafeChar c = false ∧ c ≠ '#'

instance (c : Char) : Decidable (FieldChar c) := by unfold FieldChar; infer_instance
instance (c : Char) : Decidable (NetlocChar c) := by unfold NetlocChar; infer_instance
instance (c : Char) : Decidable (QueryChar c) := by unfold QueryChar; infer_instance

def pathOf (segs : List Str) (trailing : Bool) : Str :=
  segs.flatMap (fun s => '/' :: s) ++ (if trailing then ['/'] else [])

def queryOf : Option Str → Str
  | none => []
  | some q => '?' :: q

/-- `radio://<netloc>/<seg>/<seg>...[/][?<query>]` -/
def mkUri (netloc : Str) (segs : List Str) (trailing : Bool) (query : Option Str) : Str :=
  "radio://".toList ++ netloc ++ pathOf segs trailing ++ queryOf query

/-- the three data rates: URI text and `Crazyradio.DR_*` value -/
inductive Rate | r250K | r1M | r2M
  deriving Repr, DecidableEq

def Rate.text : Rate → Str
  | .r250K => "250K".toList | .r1M => "1M".toList | .r2M => "2M".toList
def Rate.value : Rate → Nat
  | .r250K => 0 | .r1M => 1 | .r2M => 2

/-- a character of an option name or value written without escapes -/
def OptChar (c : Char) : Prop := QueryChar c ∧ c ≠ '&' ∧ c ≠ '=' ∧ c ≠ '+' ∧ c ≠ '%'
instance (c : Char) : Decidable (OptChar c) := by unfold OptChar; infer_instance

def optText (kv : Str × Str) : Str := kv.1 ++ '=' :: kv.2

/-- an option written without escapes, with a non-empty value -/
def OptOk (kv : Str × Str) : Prop := (∀ c ∈ kv.1, OptChar c) ∧ (∀ c ∈ kv.2, OptChar c) ∧ kv.2 ≠ []

/-- `k=v&k=v&...` -/
def queryText : List (Str × Str) → Str
  | [] => []
  | [kv] => optText kv
  | kv :: rest => optText kv ++ '&' :: queryText rest

/-- the query part that carries a rate limit -/
def limitQuery : Option Nat → Option Str
  | none => none
  | some l => some ("rate_limit=".toList ++ natStr l)

/-- the full form of a radio URI: `radio://<dongle>/<channel>/<rate>/<address>[?rate_limit=<n>]` -/
def printUri (dongle : Str) (channel : Nat) (rate : Rate) (address : Str) (limit : Option Nat) : Str :=
  mkUri dongle [natStr channel, rate.text, address] false (limitQuery limit)

/-- the address the radio uses while scanning: its default when none (or the default) is asked for -/
def scannedAddr : Option Nat → List Nat
  | none => [0xE7, 0xE7, 0xE7, 0xE7, 0xE7]
  | some a => beBytes5 a

/-- `scan_interface(address)` writes the address into its URIs only when it is given and not the default -/
def scanPlainAddr (address : Option Nat) : Bool :=
  match address with
  | none => true
  | some a => a = 0xE7E7E7E7E7

/-- the URI a scan reports for an answer on channel `c` at rate `r`: `radio://0/<c>/<rate>[/<ADDRESS IN HEX>]` -/
def scanUri (address : Option Nat) (r : Rate) (c : Nat) : Str :=
  mkUri ['0'] ([natStr c, r.text] ++ (if scanPlainAddr address then [] else [natHex true (address.getD 0)])) false none

/-- How a URI names its dongle: the decimal index (fewer than ten digits, so below 10^9; `digits`: any such digit
string, leading zeros included), or the serial number of an attached dongle in either case.  `devid` is the index `parse_uri` must return. -/
inductive Dongle (serials : List Str) : Str → Nat → Prop
  | index (d : Nat) (h : d < 10 ^ 9) : Dongle serials (natStr d) d
  | digits (s : Str) (hne : s ≠ []) (hd : ∀ c ∈ s, isDigit c = true) (hlen : s.length < 10) : Dongle serials s (decVal s)
  | serial (sn : Str) (i : Nat) (hchars : ∀ c ∈ sn, NetlocChar c)
      (hnot : ¬ (sn.length < 10 ∧ sn ≠ [] ∧ ∀ c ∈ sn, isDigit c = true))
      (hidx : indexOf? (sn.map upperAscii) serials = some i) : Dongle serials sn i

end CfVerif.C20

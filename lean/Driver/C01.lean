/- Line-protocol driver for the C01 model.  Run: `lean --run Driver/C01.lean < ops` (LEAN_PATH set). -/
import CfVerif.Base.Proto
import CfVerif.Spec.C01
open CfVerif CfVerif.C01

def showErrKind : ErrKind → String
  | .tooManyLost => "tooManyLost"
  | .usbException => "usbException"
  | .couldNotSend => "couldNotSend"

def showPkt (p : Pkt) : String := s!"{p.hdr.toNat}:{toHex p.data}"

def showEv : Ev → String
  | .tx f => s!"tx:{toHex f}"
  | .rx h p c d => s!"rx:{h}/{p}/{c}:{toHex d}"
  | .err e => s!"err:{showErrKind e}"
  | .accepted p => s!"acc:{showPkt p}"
  | .refused p => s!"ref:{showPkt p}"
  | .blocked p => s!"blk:{showPkt p}"
  | .died => "died"

/-- canonical order inside one step (the harness observes the kinds through different channels):
tx, died, err, rx, blocked/accepted/refused -/
def evRank : Ev → Nat
  | .tx _ => 0 | .died => 1 | .err _ => 2 | .rx .. => 3 | _ => 4

def showEvs (evs : List Ev) : String :=
  let sorted := (List.range 5).flatMap fun k => evs.filter (evRank · == k)
  if sorted.isEmpty then "-" else " ".intercalate (sorted.map showEv)

def parseAns? : List String → Option Ans
  | ["none"] => some .none
  | ["exc"] => some .exc
  | ["r", a, d] =>
    match a.toNat?, ofHex? d with
    | some a, some d => some (.resp { ack := a ≠ 0, powerDet := false, retry := 0, data := d })
    | _, _ => none
  | _ => none

def showAns : Ans → String
  | .none => "none"
  | .exc => "exc"
  | .resp a => s!"ack={if a.ack then 1 else 0} pd={if a.powerDet then 1 else 0} retry={a.retry} data={toHex a.data}"

def hostStep (h : Host) (ws : List String) : Host × String :=
  match ws with
  | ["reset", n] =>
    match n.toNat? with
    | some n => (Host.init n, "ok")
    | none => (h, "bad-op")
  | "tx" :: rest =>
    match parseAns? rest with
    | some a => let (h', evs) := h.tx a; (h', "ok " ++ showEvs evs)
    | none => (h, "bad-op")
  | ["sub", hd, d] =>
    match hd.toNat?, ofHex? d with
    | some hd, some d =>
      if hd < 256 then
        match h.submit { hdr := UInt8.ofNat hd, data := d } with
        | some (h', evs) => (h', "ok " ++ showEvs evs)
        | none => (h, "err unsupported")
      else (h, "bad-op")
    | _, _ => (h, "bad-op")
  | ["timeout"] =>
    match h.timeout with
    | some (h', evs) => (h', "ok " ++ showEvs evs)
    | none => (h, "err unsupported")
  | ["state"] =>
    (h, s!"ok safelink={if h.safelink then 1 else 0} needs_resending={if h.needsResending then 1 else 0} dead={if h.dead then 1 else 0}")
  | ["dec", usb, arc] =>
    match (if usb == "none" then some none else (ofHex? usb).map some), arc.toNat? with
    | some u, some arc =>
      match decodeUsb u arc with
      | .ok a => (h, "ok " ++ showAns a)
      | .error e => (h, s!"err {e}")
    | _, _ => (h, "bad-op")
  | _ => (h, "bad-op")

def showFrames (l : List Bytes) : String :=
  if l.isEmpty then "-" else ",".intercalate (l.map toHex)

def parseOutcome? : String → Option Outcome
  | "ok" => some .ok | "up" => some .upLost | "ack" => some .ackLost | _ => none

/-- the closed system (host + Spec peer + channel); replies carry the host events of the step and, for a
transmission, the USB reply the dongle model produced -/
def sysStep (s : Sys) (ws : List String) : Sys × String :=
  let n0 := s.evs.length
  let fin (s' : Sys) (extra : String) : Sys × String := (s', "ok " ++ showEvs (s'.evs.drop n0) ++ extra)
  match ws with
  | ["reset", n, sl, up, down, last] =>
    match n.toNat?, sl.toNat?, up.toNat?, down.toNat?, ofHex? last with
    | some n, some sl, some up, some down, some last =>
      (Sys.init n { Peer.init with safelink := sl ≠ 0, up := up, down := down, last := last }, "ok")
    | _, _, _, _, _ => (s, "bad-op")
  | ["sub", hd, d] =>
    match hd.toNat?, ofHex? d with
    | some hd, some d =>
      if hd < 256 then
        let p : Pkt := { hdr := UInt8.ofNat hd, data := d }
        if (s.host.submit p).isNone then (s, "err unsupported") else fin (s.step (.sub p)) ""
      else (s, "bad-op")
    | _, _ => (s, "bad-op")
  | ["timeout"] =>
    if s.host.timeout.isNone then (s, "err unsupported") else fin (s.step .timeout) ""
  | ["queue", f] =>
    match ofHex? f with
    | some f => fin (s.step (.queue f)) ""
    | none => (s, "bad-op")
  | ["xmit", o, st, rssi] =>
    match parseOutcome? o, st.toNat?, rssi.toNat? with
    | some o, some st, some rssi =>
      if st < 256 ∧ rssi < 256 then
        let st8 := UInt8.ofNat st
        let r8 := UInt8.ofNat rssi
        let pr := match o with
          | .upLost => (s.peer, [])
          | _ => s.peer.recv s.host.txFrame r8
        fin (s.step (.xmit o st8 r8)) (" usb=" ++ toHex (usbReply st8 o pr.2))
      else (s, "bad-op")
    | _, _, _ => (s, "bad-op")
  | ["state"] =>
    (s, s!"ok needs_resending={if s.host.needsResending then 1 else 0} " ++
        s!"delivered={showFrames s.peer.rxq} pending={s.peer.txq.length} peer_safelink={if s.peer.safelink then 1 else 0}")
  | _ => (s, "bad-op")

def slotNum? : String → Option Nat
  | "A" => some 0 | "B" => some 1 | "C" => some 2 | "D" => some 3 | _ => none

def slotName (n : Nat) : String := (["A", "B", "C", "D"].getD n "?")

/-- the instance table of the shared radio: which live links get the answers to their own transmissions -/
def shStep (l : Links) (ws : List String) : Links × String :=
  match ws with
  | ["reset"] => (Links.init, "ok")
  | ["open", q] => match slotNum? q with
    | some q => (l.step (.open q), "ok")
    | none => (l, "bad-op")
  | ["close", q] => match slotNum? q with
    | some q => (l.step (.close q), "ok")
    | none => (l, "bad-op")
  | ["run"] =>
    let ok := (l.live.filter fun p => l.sh.route p.2 == some p.1).map (·.1)
    let names := (ok.toArray.qsort (· < ·)).toList.map slotName
    (l, "ok live=" ++ (if names.isEmpty then "-" else ",".intercalate names))
  | _ => (l, "bad-op")

structure DState where
  h : Host
  s : Sys
  l : Links

def step (d : DState) (ws : List String) : DState × String :=
  match ws with
  | "sys" :: rest => let (s', r) := sysStep d.s rest; ({ d with s := s' }, r)
  | "sh" :: rest => let (l', r) := shStep d.l rest; ({ d with l := l' }, r)
  | _ => let (h', r) := hostStep d.h ws; ({ d with h := h' }, r)

def main : IO Unit :=
  runProto { h := Host.init Gen.C01.nrOfRetries, s := Sys.init Gen.C01.nrOfRetries Peer.init, l := Links.init } step

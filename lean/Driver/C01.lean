/- Line-protocol driver for the C01 model.  Run: `lean --run Driver/C01.lean < ops` (LEAN_PATH set). -/
import CfVerif.Base.Proto
import CfVerif.Model.C01
open CfVerif CfVerif.C01

def showErrKind : ErrKind → String
  | .tooManyLost => "tooManyLost"
  | .usbException => "usbException"
  | .couldNotSend => "couldNotSend"

def showPkt (p : Pkt) : String := s!"{p.hdr.toNat}:{toHex p.data}"

def showEv : Ev → String
  | .tx f => s!"tx:{toHex f}"
  | .rx h p c d => s!"rx:{h}/{p}/{c}:{toHex d}"
  | .err e => s!"err:{showErrKind e}"
  | .accepted p => s!"acc:{showPkt p}"
  | .refused p => s!"ref:{showPkt p}"
  | .blocked p => s!"blk:{showPkt p}"
  | .died => "died"

/-- canonical order inside one step (the harness observes the kinds through different channels):
tx, died, err, rx, blocked/accepted/refused -/
def evRank : Ev → Nat
  | .tx _ => 0 | .died => 1 | .err _ => 2 | .rx .. => 3 | _ => 4

def showEvs (evs : List Ev) : String :=
  let sorted := (List.range 5).flatMap fun k => evs.filter (evRank · == k)
  if sorted.isEmpty then "-" else " ".intercalate (sorted.map showEv)

def parseAns? : List String → Option Ans
  | ["none"] => some .none
  | ["exc"] => some .exc
  | ["r", a, d] =>
    match a.toNat?, ofHex? d with
    | some a, some d => some (.resp { ack := a ≠ 0, powerDet := false, retry := 0, data := d })
    | _, _ => none
  | _ => none

def showAns : Ans → String
  | .none => "none"
  | .exc => "exc"
  | .resp a => s!"ack={if a.ack then 1 else 0} pd={if a.powerDet then 1 else 0} retry={a.retry} data={toHex a.data}"

def step (h : Host) (ws : List String) : Host × String :=
  match ws with
  | ["reset", n] =>
    match n.toNat? with
    | some n => (Host.init n, "ok")
    | none => (h, "bad-op")
  | "tx" :: rest =>
    match parseAns? rest with
    | some a => let (h', evs) := h.tx a; (h', "ok " ++ showEvs evs)
    | none => (h, "bad-op")
  | ["sub", hd, d] =>
    match hd.toNat?, ofHex? d with
    | some hd, some d =>
      if hd < 256 then
        match h.submit { hdr := UInt8.ofNat hd, data := d } with
        | some (h', evs) => (h', "ok " ++ showEvs evs)
        | none => (h, "err unsupported")
      else (h, "bad-op")
    | _, _ => (h, "bad-op")
  | ["timeout"] =>
    match h.timeout with
    | some (h', evs) => (h', "ok " ++ showEvs evs)
    | none => (h, "err unsupported")
  | ["state"] =>
    (h, s!"ok safelink={if h.safelink then 1 else 0} needs_resending={if h.needsResending then 1 else 0} dead={if h.dead then 1 else 0}")
  | ["dec", usb, arc] =>
    match (if usb == "none" then some none else (ofHex? usb).map some), arc.toNat? with
    | some u, some arc =>
      match decodeUsb u arc with
      | .ok a => (h, "ok " ++ showAns a)
      | .error e => (h, s!"err {e}")
    | _, _ => (h, "bad-op")
  | _ => (h, "bad-op")

def main : IO Unit := runProto (Host.init Gen.C01.nrOfRetries) step

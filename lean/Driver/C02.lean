/- Line-protocol driver for the C02 models.  Run: `lean --run Driver/C02.lean < ops` (LEAN_PATH set).
   M1:  `dev <magic> <nLog> <nMem> <extbits|->`  resets the state;  then one op per line:
        open <0|1|3> | deliver | work | err | arm | close | sopen <0|1|3> | sclose   (0 no driver, 1 ok, 3 link error during connect())
        reply: `ok <outputs|-> st=<..> link=<0|1> open=<0|1> par=<n> vals=<n> log=<n> conn=<0|1>`;  `status` -> `ok waiting=<open|close|none>` -/
import CfVerif.Base.Proto
import CfVerif.Spec.C02
import CfVerif.Model.C02Sync
open CfVerif CfVerif.C02

def showEv : Ev → String
  | .requested => "connection_requested" | .failed => "connection_failed" | .established => "link_established"
  | .connected => "connected" | .fully => "fully_connected" | .disconnected => "disconnected"
  | .lost => "connection_lost" | .discLinkError => "disconnected_link_error"

def showOut : Out → String
  | .cb e => showEv e
  | .linkFailed => "LINK-ERROR"
  | .closeCalled => "CLOSE-CALLED"
  | .openReturned => "open-returned" | .openRaised => "open-raised" | .openAlreadyOpen => "open-already-open"
  | .closeReturned => "close-returned"

def showSt : St → String | .disc => "disc" | .init => "init" | .conn => "conn"

def b01 (b : Bool) : String := if b then "1" else "0"

def parseOp? : List String → Option Op
  | ["open", "0"] => some (.open .missing) | ["open", "1"] => some (.open .ok) | ["open", "3"] => some (.open .failing)
  | ["deliver"] => some .deliver | ["work"] => some .work | ["err"] => some .err | ["arm"] => some .arm
  | ["close"] => some .close
  | ["sopen", "0"] => some (.syncOpen .missing) | ["sopen", "1"] => some (.syncOpen .ok) | ["sopen", "3"] => some (.syncOpen .failing)
  | ["sclose"] => some .syncClose
  | ["inj", "upd", n] => n.toNat?.map fun i => .inject (.upd i)
  | ["inj", "dup", n] => n.toNat?.map fun i => .inject (.dupVal i)
  | ["dact", "a", "close"] => some (.deliverAct .allPkt .close) | ["dact", "a", "err"] => some (.deliverAct .allPkt .err)
  | ["dact", "p", "close"] => some (.deliverAct .port .close) | ["dact", "p", "err"] => some (.deliverAct .port .err)
  | _ => none

def parseBits? (s : String) : Option (List Bool) :=
  if s == "-" then some [] else s.toList.mapM fun c => if c == '1' then some true else if c == '0' then some false else none

structure DSt where
  d : Dev
  s : Sys
  w : Option W      -- the specification automaton run along the trace (none = rejected)

/-- M2: `m2 <fault> <user> <extra thread ids|->` -> what the thread model (built from the regenerated repair flags)
says about the scenario: can a thread die / can the quiescent disconnected state become unreachable -/
def m2Verdict (f u e : String) : String :=
  let fault? : Option M2.Fault := match f with
    | "none" => some .none | "radio" => some .radio | "disp" => some .disp | "upd" => some .upd | "ping" => some .ping
    | "timer" => some .timer | "userMem" => some .userMem | _ => none
  let user? : Option M2.User := match u with
    | "idle" => some .idle | "close" => some .close | "memWrite" => some .memWrite | "memWriteClose" => some .memWriteClose | _ => none
  match fault?, user?, parseNatList? e with
  | some fault, some user, some extra =>
    let P := M2.progs M2.Fix.ofSource ⟨fault, user, extra⟩
    let R := M2.reach P 20000
    let death := R.any fun kc => !M2.noDeath kc.2
    let stuck := R.any fun kc => !M2.drive P 200 0 kc.2
    s!"ok states={R.length} death={b01 death} stuck={b01 stuck}"
  | _, _, _ => "bad-op"

def step1 (st : DSt) (ws : List String) : DSt × String :=
  match ws with
  | ["m2", f, u, e] => (st, m2Verdict f u e)
  | ["dev", m, nl, nm, bits] =>
    match m.toNat?, nl.toNat?, nm.toNat?, parseBits? bits with
    | some m, some nl, some nm, some bs => ({ d := { magic := m ≠ 0, nLog := nl, nMem := nm, ext := bs }, s := Sys.init, w := some {} }, "ok")
    | _, _, _, _ => (st, "bad-op")
  | ["status"] =>
    (st, "ok waiting=" ++ (if st.s.w.waitOpen then "open" else if st.s.w.waitClose then "close" else "none") ++
      " wf=" ++ (match st.w with | none => "rejected" | some w => if w.expect.isEmpty then "ok" else "owing"))
  | ws =>
    match parseOp? ws with
    | none => (st, "bad-op")
    | some op =>
      if ¬ allowed st.d st.s op then (st, "not-allowed") else
      let r := step st.d st.s op
      let s := r.1
      let outs := if r.2.isEmpty then "-" else ",".intercalate (r.2.map showOut)
      ({ st with s := s, w := st.w.bind fun w => (wfOp w op).bind (wfOuts · r.2) }, s!"ok {outs} st={showSt s.c.st} link={b01 s.c.link} open={b01 s.w.isOpen} par={s.c.parToc} vals={s.c.vals.length} log={s.c.logGot} conn={b01 s.c.connTs}")

def main : IO Unit := runProto ({ d := { magic := true, nLog := 0, nMem := 0, ext := [] }, s := Sys.init, w := some {} } : DSt) step1

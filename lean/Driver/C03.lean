/- Line-protocol driver for the C03 model.  Run: `lean --run Driver/C03.lean < ops` (LEAN_PATH set). -/
import CfVerif.Base.Proto
import CfVerif.Model.C03
open CfVerif CfVerif.C03

structure DState where
  f : Option Fetcher := none
  isParam : Bool := false
  x : Option ExtF := none
  plat : Platform := Platform.fetch
  guarded : Bool := true
  -- param port composition (glue for the connection-level correspondence)
  pconn : Nat := 0
  -- TOC cache (crc -> dictionary as stored when a download finished); enabled by `cacheon`
  caching : Bool := false
  cache : List (Nat × Toc) := []
  -- a bare Toc object driven by `t ...` ops (lookups go to it while `useObj`)
  useObj : Bool := false
  tobj : Toc := []
  snaps : List Toc := []

def showElem (e : Elem) : String :=
  s!"{toHex e.group}/{toHex e.name}/{e.ident}/{e.ctype}/{if e.pytype.isEmpty then "_" else e.pytype}/{e.access}/{if e.extended then 1 else 0}/{if e.persistent then 1 else 0}"

def showOptElem : Option Elem → String
  | some e => "ok " ++ showElem e
  | none => "ok none"

def showToc (t : Toc) : String :=
  if t.elems.isEmpty then "ok -" else "ok " ++ " ".intercalate (t.elems.map showElem)

def showSt : FState → String
  | .info => "info" | .element => "element" | .done => "done" | .aborted => "aborted"

def showSends (l : List Bytes) : String :=
  if l.isEmpty then "-" else ",".intercalate (l.map toHex)

def dec (isParam : Bool) : Nat → Bytes → Except PyErr Elem := if isParam then decodeParam else decodeLog

def cacheFn (s : DState) : Nat → Option Toc := fun c =>
  if s.caching then (s.cache.find? (fun e => e.1 == c)).map (·.2) else none

/-- `TocCache.insert` when a download (not a cache hit) finishes -/
def cacheInsert (s : DState) (before after : Fetcher) (finished : Bool) : List (Nat × Toc) :=
  let hit := before.st == .info && (match cacheFn s after.crc with | some (_ :: _) => true | _ => false)
  if s.caching && finished && !hit then (after.crc, after.toc) :: s.cache.filter (fun e => e.1 != after.crc) else s.cache

def curToc (s : DState) : Option Toc :=
  if s.useObj then some s.tobj else
  match s.x, s.f with
  | some x, _ => some x.toc
  | none, some f => some f.toc
  | none, none => none

def step (s : DState) (ws : List String) : DState × String :=
  match ws with
  | ["dlog", i, d] =>
    match i.toNat?, ofHex? d with
    | some i, some d => (s, match decodeLog i d with | .ok e => "ok " ++ showElem e | .error e => s!"err {e}")
    | _, _ => (s, "bad-op")
  | ["dparam", i, d] =>
    match i.toNat?, ofHex? d with
    | some i, some d => (s, match decodeParam i d with | .ok e => "ok " ++ showElem e | .error e => s!"err {e}")
    | _, _ => (s, "bad-op")
  | ["fstart", kind, v2] =>
    match kind, v2.toNat? with
    | "log", some v | "param", some v =>
      match Fetcher.start (v ≠ 0) with
      | .ok (f, r) => ({ s with f := some f, isParam := kind == "param", x := none, useObj := false }, "ok " ++ toHex r)
      | .error e => (s, s!"err {e}")
    | _, _ => (s, "bad-op")
  | ["fpkt", chan, d] =>
    match s.f, chan.toNat?, ofHex? d with
    | some f, some c, some d =>
      match f.onPacketC (dec s.isParam) (cacheFn s) c d with
      | .ok r => ({ s with f := some r.f, cache := cacheInsert s f r.f r.finished },
          s!"ok sends={showSends r.sends} finished={if r.finished then 1 else 0} st={showSt r.f.st} req={r.f.req} nbr={r.f.nbr} crc={r.f.crc}")
      | .error e => (s, s!"err {e}")
    | _, _, _ => (s, "bad-op")
  | ["cacheon"] => ({ s with caching := true, cache := [] }, "ok")
  | ["cacheoff"] => ({ s with caching := false, cache := [] }, "ok")
  | ["t", "new"] => ({ s with useObj := true, tobj := [], snaps := [] }, "ok")
  | ["t", "add", kind, i, d] =>
    match kind, i.toNat?, ofHex? d with
    | "log", some i, some d | "param", some i, some d =>
      match dec (kind == "param") i d with
      | .ok e => ({ s with tobj := TocOp.apply s.tobj (.add e) }, "ok")
      | .error e => (s, s!"err {e}")
    | _, _, _ => (s, "bad-op")
  | ["t", "clear"] => ({ s with tobj := TocOp.apply s.tobj .clear }, "ok")
  | ["t", "snap"] => ({ s with snaps := s.snaps ++ [s.tobj] }, s!"ok {s.snaps.length}")
  | ["t", "install", k] =>
    match k.toNat? with
    | some k =>
      match s.snaps[k]? with
      | some t => ({ s with tobj := TocOp.apply s.tobj (.install t) }, "ok")
      | none => (s, "bad-op")
    | none => (s, "bad-op")
  | ["fdisc"] =>
    match s.f with
    | some f => ({ s with f := some f.disconnect }, s!"ok st={showSt f.disconnect.st} registered={if f.disconnect.registered then 1 else 0}")
    | none => (s, "bad-op")
  | ["xdisc"] =>
    match s.x with
    | some x =>
      let x' := x.disconnect
      ({ s with x := some x' },
        s!"ok count={x'.count} done={x'.done} locked={if x'.locked then 1 else 0} req={match x'.reqParam with | some v => toString v | none => "-1"} queue={showNatList x'.queue} active={if x'.active then 1 else 0}")
    | none => (s, "bad-op")
  | ["toc"] =>
    match curToc s with
    | some t => (s, showToc t)
    | none => (s, "bad-op")
  | ["get", g, n] =>
    match curToc s, ofHex? g, ofHex? n with
    | some t, some g, some n => (s, showOptElem (t.get g n))
    | _, _, _ => (s, "bad-op")
  | ["byid", i] =>
    match curToc s, i.toNat? with
    | some t, some i => (s, showOptElem (t.byId i))
    | _, _ => (s, "bad-op")
  | ["bycn", c] =>
    match curToc s, ofHex? c with
    | some t, some c => (s, showOptElem (t.byCompleteName c))
    | _, _ => (s, "bad-op")
  | ["xstart"] =>
    match s.f with
    | some f =>
      match refreshDone f.toc with
      | .ok none => (s, "ok none")
      | .ok (some x) => ({ s with x := some x }, s!"ok queue={showNatList x.queue} count={x.count}")
      | .error e => (s, s!"err {e}")
    | none => (s, "bad-op")
  | ["xworker"] =>
    match s.x with
    | some x =>
      match x.worker with
      | some (x', r) => ({ s with x := some x' }, "ok " ++ toHex r)
      | none => (s, "ok idle")
    | none => (s, "bad-op")
  | ["xpkt", chan, d] =>
    match s.x, chan.toNat?, ofHex? d with
    | some x, some c, some d =>
      match x.onPacket c d with
      | .ok x' => ({ s with x := some x' },
          s!"ok count={x'.count} done={x'.done} locked={if x'.locked then 1 else 0} req={match x'.reqParam with | some v => toString v | none => "-1"} queue={showNatList x'.queue} active={if x'.active then 1 else 0}")
      | .error e => (s, s!"err {e}")
    | _, _, _ => (s, "bad-op")
  | ["plat", "start", g] =>
    match g.toNat? with
    | some g => ({ s with plat := Platform.fetch, guarded := g ≠ 0 }, "ok")
    | none => (s, "bad-op")
  | ["plat", "pkt", port, chan, d] =>
    match port.toNat?, chan.toNat?, ofHex? d with
    | some po, some c, some d =>
      match s.plat.onPacketG s.guarded po c d with
      | .ok q => ({ s with plat := q }, s!"ok version={q.version} started={q.started} queries={q.queries}")
      | .error e => (s, s!"err {e}")
    | _, _, _ => (s, "bad-op")
  -- param port: TocFetcher, then (when it finishes) refresh_done and the extended-type fetcher
  | ["pstart", v2] =>
    match v2.toNat? with
    | some v =>
      match Fetcher.start (v ≠ 0) with
      | .ok (f, r) => ({ s with f := some f, isParam := true, x := none, pconn := 0, useObj := false }, "ok " ++ toHex r)
      | .error e => (s, s!"err {e}")
    | none => (s, "bad-op")
  | ["ppkt", chan, d] =>
    match s.f, chan.toNat?, ofHex? d with
    | some f, some c, some d =>
      if f.st ≠ .done ∧ f.st ≠ .aborted then
        match f.onPacketC decodeParam (cacheFn s) c d with
        | .error e => (s, s!"err {e}")
        | .ok r =>
          let s := { s with cache := cacheInsert s f r.f r.finished }
          if r.finished then
            match refreshDone r.f.toc with
            | .ok none => ({ s with f := some r.f, pconn := s.pconn + 1 }, s!"ok sends={showSends r.sends} connected={s.pconn + 1}")
            | .ok (some x) => ({ s with f := some r.f, x := some x }, s!"ok sends={showSends r.sends} connected={s.pconn}")
            | .error e => ({ s with f := some r.f }, s!"err {e}")
          else ({ s with f := some r.f }, s!"ok sends={showSends r.sends} connected={s.pconn}")
      else
        match s.x with
        | some x =>
          match x.onPacket c d with
          | .ok x' => ({ s with x := some x' }, s!"ok sends=- connected={s.pconn + x'.done}")
          | .error e => (s, s!"err {e}")
        | none => (s, s!"ok sends=- connected={s.pconn}")
    | _, _, _ => (s, "bad-op")
  | ["pworker"] =>
    match s.x with
    | some x =>
      match x.worker with
      | some (x', r) => ({ s with x := some x' }, s!"ok sends={toHex r} connected={s.pconn + x'.done}")
      | none => (s, s!"ok sends=- connected={s.pconn + x.done}")
    | none => (s, s!"ok sends=- connected={s.pconn}")
  | _ => (s, "bad-op")

def main : IO Unit := runProto ({} : DState) step

/- Line-protocol driver for the C04 model.  Run: `lean --run Driver/C04.lean < ops` (LEAN_PATH set).

Stateful: `reset` creates a host (and optionally `devreset` a device twin); every further line is one step.
Replies: `ok <out> <out> ...` (`ok -` when the step produced nothing), `disabled` (updater step not enabled), `bad-op`. -/
import CfVerif.Base.Proto
import CfVerif.Model.C04
import CfVerif.Spec.C04
open CfVerif CfVerif.C04

structure DSt where
  v : Variant
  h : Host
  d : Dev
  nr : Bool := false
  pats : List (Pat × Nat) := []
  timers : List RTimer := []
  scripts : List (Nat × List Api) := []     -- what the callback with this id does when it is called

def DSt.sysR (st : DSt) : SysR := { base := { host := st.h, dev := st.d, down := [] }, nr := st.nr, pats := st.pats, timers := st.timers }

def showTState : TState → String
  | .armed => "A" | .expired => "E" | .done => "D" | .cancelled => "C"

def showCn (cn : List Nat) : String := ".".intercalate (cn.map toString)

def showV (v : Val) : String := showVal v

def showOV : Option Val → String
  | none => "none"
  | some v => showV v

def showRes : MiscResult → String
  | .dflt v => s!"d:{showOV v}"
  | .state none => "s:none"
  | .state (some (st, d, s)) => s!"s:{if st then 1 else 0},{showV d},{showOV s}"
  | .status b => s!"b:{if b then 1 else 0}"

def showOut : Out → String
  | .enq p _ => s!"enq:{p.chan}:{toHex p.data}"
  | .tx p => s!"tx:{p.chan}:{toHex p.data}"
  | .raised e => s!"raise:{e}"
  | .ret v => s!"ret:{showV v}"
  | .blocked => "blocked"
  | .update cb cn v => s!"upd:{cb}:{showCn cn}:{showV v}"
  | .allUpdated => "allupd"
  | .misc rid cn r => s!"misc:{rid}:{showCn cn}:{showRes r}"
  | .refusedCb rid cn => s!"misc:{rid}:{showCn cn}:b:0"
  | .released _ => "rel"
  | .rxd _ => "rxd"
  | .cbError e => s!"cberr:{e}"

def showOuts (l : List Out) : String :=
  if l.isEmpty then "ok -" else "ok " ++ " ".intercalate (l.map showOut)

def parseCn? (s : String) : Option (List Nat) := (s.splitOn ".").mapM String.toNat?

def parseBool? (s : String) : Option Bool :=
  if s == "1" then some true else if s == "0" then some false else none

def parseOptNat? (s : String) : Option (Option Nat) :=
  if s == "-" then some none else s.toNat?.map some

def parseElem? (s : String) : Option Elem :=
  match s.splitOn ":" with
  | [i, g, n, t, ro, pe] => do
    pure { ident := ← i.toNat?, group := ← g.toNat?, name := ← n.toNat?, tcode := ← t.toNat?, ro := ← parseBool? ro,
           persistent := ← parseBool? pe }
  | _ => none

def parseToc? (s : String) : Option (List Elem) :=
  if s == "-" then some [] else (s.splitOn ";").mapM parseElem?

def parsePyVal? (s : String) : Option PyVal :=
  match s.toList with
  | 'i' :: r => (String.ofList r).toInt?.map PyVal.int
  | 'f' :: r => (String.ofList r).toNat?.map PyVal.flt
  | 's' :: r => (ofHex? (String.ofList r)).map fun b => PyVal.str (b.map fun c => Char.ofNat c.toNat)
  | ['t'] => some (.bool true)
  | ['n'] => some (.bool false)
  | ['N'] => some .none
  | _ => none

def parseErr? (s : String) : Option PyErr :=
  [PyErr.structError, .valueError, .keyError, .indexError, .zeroDiv, .overflow, .typeError, .attributeError, .assertion, .other].find?
    (fun e => toString e == s)

/-- the result of CPython's `float(str)` for this case, supplied by the harness: `-` (not needed), `ok:<bits>`, `err:<enum>` -/
def parseOracle? (s : String) : Option (List Char → Except PyErr Nat) :=
  if s == "-" then some (fun _ => .error .other) else
  match s.splitOn ":" with
  | ["ok", b] => b.toNat?.map fun x => fun _ => .ok x
  | ["err", e] => (parseErr? e).map fun x => fun _ => .error x
  | _ => none

def parseDevParam? (s : String) : Option DevParam :=
  match s.splitOn ":" with
  | [t, v, ro, pe, d, st] => do
    let stored ← if st == "none" then some none else (ofHex? st).map some
    pure { tcode := ← t.toNat?, value := ← ofHex? v, ro := ← parseBool? ro, persistent := ← parseBool? pe, dflt := ← ofHex? d,
           stored := stored }
  | _ => none

def showPkts (l : List Pkt) : String :=
  if l.isEmpty then "ok -" else "ok " ++ " ".intercalate (l.map fun p => s!"{p.chan}:{toHex p.data}")

def showState (h : Host) : String :=
  let q := ",".intercalate (h.queue.map fun p => s!"{p.chan}:{toHex p.data}")
  let pat := match h.pattern with | none => "none" | some p => toHex p
  let cur := match h.cur with | none => "none" | some p => s!"{p.chan}:{toHex p.data}"
  let pend := ",".intercalate (h.pending.map fun e => s!"{e.kind.cmd}/{e.ident}/{match e.rid with | none => "-" | some r => toString r}")
  s!"ok v2={h.useV2} upd2={h.updV2} init={h.initialized} q=[{q}] cur={cur} lock={h.lockHeld} pat={pat} pend=[{pend}] nvals={h.values.length}"

def DSt.script (st : DSt) (rid : Nat) : List Api := ((st.scripts.find? (·.1 == rid)).map (·.2)).getD []

/-- one nested API call: `set,<cn>,<pyval>` `get,<cn>` `requpd,<cn>` `getdef,<cn>,<rid>` `getstate,<cn>,<rid>` `store,<cn>,<rid|->` `clear,<cn>,<rid|->` -/
def parseCall? (s : String) : Option Api :=
  match s.splitOn "," with
  | ["set", cn, v] => do pure (.setValue (← parseCn? cn) (← parsePyVal? v) true)
  | ["get", cn] => do pure (.getValue (← parseCn? cn) true)
  | ["requpd", cn] => do pure (.requestUpdate (← parseCn? cn))
  | ["getdef", cn, r] => do pure (.getDefault (← parseCn? cn) (← r.toNat?))
  | ["getstate", cn, r] => do pure (.getState (← parseCn? cn) (← r.toNat?))
  | ["store", cn, r] => do pure (.store (← parseCn? cn) (← parseOptNat? r))
  | ["clear", cn, r] => do pure (.clear (← parseCn? cn) (← parseOptNat? r))
  | _ => none

def step (st : DSt) (ws : List String) : DSt × String :=
  let bad := (st, "bad-op")
  let upd (r : Host × List Out) : DSt × String := ({ st with h := r.1 }, showOuts r.2)
  match ws with
  | ["reset", routing, snap, v2, toc] =>
    match routing.toNat?, parseBool? snap, parseBool? v2, parseToc? toc with
    | some r, some s, some v, some t => ({ st with v := { routing := r, snap := s }, h := Host.init t v, nr := false, pats := [], timers := [], scripts := [] }, "ok -")
    | _, _, _, _ => bad
  | ["reconnect", v2, toc] =>
    match parseBool? v2, parseToc? toc with
    | some v, some t => ({ st with h := st.h.reconnect t v, pats := [], timers := [] }, "ok -")
    | _, _ => bad
  | ["set-connected", b] =>
    match parseBool? b with
    | some c => ({ st with h := { st.h with connected := c } }, "ok -")
    | none => bad
  | ["force-init"] => ({ st with h := { st.h with initialized := true, isUpdated := true } }, "ok -")
  | ["set", cn, v, inCb, orc] =>
    match parseCn? cn, parsePyVal? v, parseBool? inCb, parseOracle? orc with
    | some cn, some v, some c, some o => upd (setValue o st.h cn v c)
    | _, _, _, _ => bad
  | ["get", cn, inCb] =>
    match parseCn? cn, parseBool? inCb with
    | some cn, some c => upd (getValue st.h cn c)
    | _, _ => bad
  | ["requpd", cn, p4] =>
    match parseCn? cn, parseBool? p4 with
    | some cn, some p => upd (requestUpdate st.h cn p)
    | _, _ => bad
  | ["getdef", cn, rid] =>
    match parseCn? cn, rid.toNat? with
    | some cn, some r => upd (getDefault st.v st.h cn r)
    | _, _ => bad
  | ["getstate", cn, rid] =>
    match parseCn? cn, rid.toNat? with
    | some cn, some r => upd (getState st.v st.h cn r)
    | _, _ => bad
  | ["store", cn, rid] =>
    match parseCn? cn, parseOptNat? rid with
    | some cn, some r => upd (store st.v st.h cn r)
    | _, _ => bad
  | ["clear", cn, rid] =>
    match parseCn? cn, parseOptNat? rid with
    | some cn, some r => upd (clear st.v st.h cn r)
    | _, _ => bad
  | ["addcb", g, n, cb] =>
    match parseOptNat? g, parseOptNat? n, cb.toNat? with
    | some g, some n, some c => ({ st with h := addCb st.h g n c }, "ok -")
    | _, _, _ => bad
  | ["rmcb", g, n, cb] =>
    match g.toNat?, parseOptNat? n, cb.toNat? with
    | some g, some n, some c => upd (removeCb st.h g n c)
    | _, _, _ => bad
  | ["updget"] =>
    match updGet st.h with
    | some h => ({ st with h := h }, "ok -")
    | none => (st, "disabled")
  | ["updsend"] =>
    match updSend st.h with
    | some r => upd r
    | none => (st, "disabled")
  | ["upd"] =>        -- one whole iteration of the updater loop, when it can complete
    match updGet st.h with
    | none => (st, "disabled")
    | some h1 => match updSend h1 with
      | some r =>
        -- Crazyflie.send_packet: on a needs_resending link a retry timer is armed for (header, expected reply)
        let st1 : DSt := match r.2 with
          | [.tx p] =>
            let P := patOf h1.updV2 p
            if Gen.C04.sendArms true (!P.2.isEmpty) false st.nr (getPat st.pats P).isSome false then
              { st with pats := setPat st.pats P st.timers.length, timers := st.timers ++ [⟨p, P, .armed⟩] }
            else st
          | _ => st
        ({ st1 with h := r.1 }, showOuts r.2)
      | none => (st, "disabled")
  | ["script", rid, calls] =>
    match rid.toNat?, (if calls == "-" then some [] else (calls.splitOn ";").mapM parseCall?) with
    | some r, some cs => ({ st with scripts := (r, cs) :: st.scripts }, "ok -")
    | _, _ => bad
  | ["retry-reset", nr] =>
    match parseBool? nr with
    | some b => ({ st with nr := b, pats := [], timers := [] }, "ok -")
    | none => bad
  | ["texpire", i] =>
    match i.toNat? with
    | some i => match st.sysR.step (fun _ => .error .other) st.v (.expire i) with
      | some (s', _, _) => ({ st with timers := s'.timers }, "ok -")
      | none => (st, "disabled")
    | none => bad
  | ["trun", i] =>
    match i.toNat? with
    | some i => match st.sysR.step (fun _ => .error .other) st.v (.timerRun i) with
      | some (s', _, w) =>
        let tok := match w with
          | [.retx p] => s!"retx:{p.chan}:{toHex p.data} dev={",".intercalate (s'.base.down.map fun q => s!"{q.chan}:{toHex q.data}")}"
          | _ => "-"
        ({ st with timers := s'.timers, pats := s'.pats, d := s'.base.dev }, "ok " ++ tok)
      | none => (st, "disabled")
    | none => bad
  | ["tstate"] => (st, "ok " ++ (if st.timers.isEmpty then "-" else String.join (st.timers.map fun t => showTState t.state)))
  | ["rx", chan, data] =>
    match chan.toNat?, ofHex? data with
    | some c, some d =>
      let s1 := st.sysR.onReceive { chan := c, data := d }     -- `_check_for_answers` runs before the port callbacks
      let r := rxS (fun _ => .error .other) st.v st.h.useV2 st.script st.h { chan := c, data := d }
      ({ st with h := r.1, pats := s1.pats, timers := s1.timers }, showOuts r.2)
    | _, _ => bad
  | ["state"] => (st, showState st.h)
  | ["devreset", v2, ps] =>
    match parseBool? v2, (if ps == "-" then some [] else (ps.splitOn ";").mapM parseDevParam?) with
    | some v, some l => ({ st with d := { v2 := v, params := l } }, "ok -")
    | _, _ => bad
  | ["dev", chan, data] =>
    match chan.toNat?, ofHex? data with
    | some c, some d =>
      let (d', reps) := st.d.handle { chan := c, data := d }
      ({ st with d := d' }, showPkts reps)
    | _, _ => bad
  | ["devnotify", i] =>
    match i.toNat? with
    | some i => (st, showPkts (st.d.notify i).toList)
    | none => bad
  | ["devset", i, v] =>
    match i.toNat?, ofHex? v with
    | some i, some b => ({ st with d := st.d.setValue i b }, "ok -")
    | _, _ => bad
  | ["f64to32", b] =>
    match b.toNat? with
    | some b => (st, match f64ToF32 b with | .ok r => s!"ok {r}" | .error e => s!"err {e}")
    | none => bad
  | ["f32to64", b] =>
    match b.toNat? with
    | some b => (st, s!"ok {f32ToF64 b}")
    | none => bad
  | _ => bad

def main : IO Unit :=
  runProto ({ v := Variant.fixed, h := Host.init [] true, d := { v2 := true, params := [] } } : DSt) step

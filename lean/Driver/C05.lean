/- Line-protocol driver for the C05 model.  Run: `lean --run Driver/C05.lean < ops` (LEAN_PATH set).
One stateful session; `restart` returns to the initial state.  Replies:
  `ok outs=<o;o;...|-> st=<digest>` | `err:<enum> outs=... st=...` | `bad-op`
`live` switches `add_config` to the unrepaired variant (D6 demonstration) until the next `restart`. -/
import CfVerif.Base.Proto
import CfVerif.Model.C05
open CfVerif CfVerif.C05

def b01 (b : Bool) : String := if b then "1" else "0"

def showKV (l : List (Nat × Val)) : String :=
  if l.isEmpty then "-" else ",".intercalate (l.map fun e => s!"{e.1}={showVal e.2}")

def showItem : QItem → String
  | .sample ts vals h => s!"S/{ts}/{h}/{showKV vals}"
  | .disc => "D"

def showOut : Out → String
  | .tx d e => s!"tx:{toHex d}:{showNatList e}"
  | .blockAdded h => s!"badd:{h}"
  | .addedCb h v => s!"added:{h}:{b01 v}"
  | .startedCb h v => s!"started:{h}:{b01 v}"
  | .addedErr h => s!"addederr:{h}"
  | .startedErr h => s!"startederr:{h}"
  | .errorCb h s => s!"error:{h}:{s}"
  | .data h ts vals => s!"data:{h}:{ts}:{showKV vals}"
  | .tocFetch => "tocfetch"
  | .put s it => s!"put:{s}:{showItem it}"
  | .yield s it => s!"yield:{s}:{showItem it}"
  | .stop s p => s!"stop:{s}:{b01 p}"
  | .blocks s => s!"blocks:{s}"

def showConf (c : Conf) : String :=
  s!"{b01 c.valid},{b01 c.added},{b01 c.started},{c.pending},{c.id},{c.variables.length},{c.defaults.length},{c.errNo},{b01 c.hasCf},{b01 c.useV2},{c.dataCbs.length}"

def digest (st : St) : String :=
  let cs := "|".intercalate (st.confs.map showConf)
  let ss := "|".intercalate (st.sls.map fun s => s!"{b01 s.connected},{s.queue.length}")
  s!"c={if cs.isEmpty then "-" else cs} b={showNatList st.blocks} sl={if ss.isEmpty then "-" else ss} disc={showNatList st.discCbs} link={b01 st.link} toc={b01 st.toc.isSome}"

def showVar (v : LVar) : String := s!"{v.name}:{v.fetch}:{v.stored}:{b01 v.isToc}:{v.addr}"

def parseTocEl? (w : String) : Option TocEl :=
  match w.splitOn ":" with
  | [n, i, t] => do pure { name := ← n.toNat?, ident := ← i.toNat?, ctype := t }
  | _ => none

def parseToc? (s : String) : Option Toc :=
  if s == "-" then some [] else (s.splitOn ",").mapM parseTocEl?

def tyArg (s : String) : String := if s == "-" then "" else s

def parseOp? : List String → Option Op
  | ["newconf", ms] => ms.toInt?.map Op.newConf
  | ["addvar", h, n, t] => do pure (Op.addVar (← h.toNat?) (← n.toNat?) (tyArg t))
  | ["addmem", h, n, f, s, a] => do pure (Op.addMem (← h.toNat?) (← n.toNat?) (tyArg f) (tyArg s) (← a.toNat?))
  | ["addconfig", h] => h.toNat?.map Op.addConfig
  | ["start", h] => h.toNat?.map Op.start
  | ["stop", h] => h.toNat?.map Op.stop
  | ["delete", h] => h.toNat?.map Op.delete
  | ["rx", c, d] => do pure (Op.rx (← c.toNat?) (← ofHex? d))
  | ["reset"] => some Op.reset
  | ["refresh", v] => v.toInt?.map Op.refresh
  | ["settoc", t] => (parseToc? t).map Op.setToc
  | ["linkup"] => some Op.linkUp
  | ["linklost"] => some Op.linkLost
  | ["newsl", hs] => (parseNatList? hs).map Op.newSl
  | ["slconnect", s] => s.toNat?.map Op.slConnect
  | ["sldisconnect", s] => s.toNat?.map Op.slDisconnect
  | ["slnext", s] => s.toNat?.map Op.slNext
  | _ => none

structure DSt where
  st : St := {}
  live : Bool := false
  progs : List (Nat × List Stmt) := []     -- calls in progress (interleaving model)
  txlog : List String := []                -- every settings packet handed to send_packet so far

def reply (r : Res) : String :=
  let o := if r.outs.isEmpty then "-" else ";".intercalate (r.outs.map showOut)
  let hd := match r.err with | none => "ok" | some e => s!"err:{e}"
  s!"{hd} outs={o} st={digest r.st}"

def txsOf (outs : List Out) : List String :=
  outs.filterMap fun o => match o with | .tx _ _ => some (showOut o) | _ => none

def dstep (d : DSt) (ws : List String) : DSt × String :=
  match ws with
  | ["restart"] => ({}, "ok")
  | ["live"] => ({ d with live := true }, "ok")
  | ["txlog"] => (d, "ok " ++ (if d.txlog.isEmpty then "-" else ";".intercalate d.txlog))
  | ["dump", h] =>
    match h.toNat? with
    | some h =>
      match d.st.conf? h with
      | some c =>
        let vs := if c.variables.isEmpty then "-" else ",".intercalate (c.variables.map showVar)
        (d, s!"ok period={c.period} vars={vs} defaults={showNatList c.defaults}")
      | none => (d, "bad-op")
    | none => (d, "bad-op")
  | ["slbegin", s, which] =>
    match s.toNat? with
    | some s =>
      let i : ISt := { st := d.st, progs := d.progs }
      let a? := if which == "connect" then some (IOp.callConnect s) else if which == "disconnect" then some (IOp.callDisconnect s) else none
      match a?.bind (istep i) with
      | some (i', o, e) => ({ d with st := i'.st, progs := i'.progs, txlog := d.txlog ++ txsOf o }, reply { st := i'.st, outs := o, err := e } ++ s!" left={if (i'.prog s).isEmpty then 0 else 1}")
      | none => (d, "bad-op")
    | none => (d, "bad-op")
  | ["slrun", s] =>
    match s.toNat? with
    | some s =>
      let i : ISt := { st := d.st, progs := d.progs }
      match istep i (.run s) with
      | some (i', o, e) => ({ d with st := i'.st, progs := i'.progs, txlog := d.txlog ++ txsOf o }, reply { st := i'.st, outs := o, err := e } ++ s!" left={if (i'.prog s).isEmpty then 0 else 1}")
      | none => (d, "bad-op")
    | none => (d, "bad-op")
  | _ =>
    match parseOp? ws with
    | none => (d, "bad-op")
    | some op =>
      let r? := match op, d.live with
        | .addConfig h, true => addConfigLive d.st h
        | op, _ => step d.st op
      match r? with
      | none => (d, "bad-op")
      | some r => ({ d with st := r.st, txlog := d.txlog ++ txsOf r.outs }, reply r)

def main : IO Unit := runProto ({} : DSt) dstep

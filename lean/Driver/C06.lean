/- Line-protocol driver for the C06 model.  Run: `lean --run Driver/C06.lean < ops` (LEAN_PATH set).

  reset code|fixed|live|<6 bits>   new Memory; which variant of the lock discipline (bits: writeWith,
                                   writeCreateInside, handleWith, handleGuard, handleLookupInside, progGuard)
  read <tag> <id> <addr> <len>
  write <tag> <id> <addr> <hexdata> <flush 0|1> <progress 0|1>
  pkt <chan> <hexdata>             a packet received on port MEM (chan 1..3; the info channel is outside the model)
  disc                             the disconnected callback
  refill <tag> <hexdata>           the application overwrites, in place (same length), the buffer it passed to write(<tag> ..)
  dreset <id> code|fixed|<4 bits> | dquery <tag> <rid> <hasFail> | dread <tag> <base> <address> <len> <rid> <hasFail>
  dwrite <tag> <base> <address> <hex> <rid> <hasFail> <progress> | dpkt <chan> <hex> | ddisc | ddisconnect
                                   the DeckMemoryManager client (replies carry the manager's callbacks in addition:
                                   DQ:<rid> DQF:<rid> DR:<rid>:<addr>:<hex> DRF:<rid>:<addr> DW:<rid>:<addr> DWF:<rid>:<addr>)
  treset <id> | tdisc | tread <tag> <start> <size> <cb> | twrite <tag> <start> <size> <cb> | tpkt <chan> <hex>
                                   the MemoryTester client (replies carry `<tester outs> V<valid>` in addition)
  creset | cwrite <tag> <id> <addr> <hex> <flush> <progress> | cread <tag> <id> <addr> <len> | csteps <k> | cpkt <chan> <hex> | cend
                                   the statement-level machine `cexec` (lock discipline `ConcVariant.code`): a call begins,
                                   the caller executes its next k statements (`<outs> L<lock>`), the incoming thread is
                                   given a packet (`blocked`: it has to wait / not possible now), the call has returned
                                   (`T` | `F` | `pending`)
  freset | fbeh <c> <script> | fsub <k> <c> | funsub <k> <c> | fread .. | fwrite .. | fpkt .. | fdisc | oneshot
                                   the notification Callers with subscribers (`CallerVariant.code`): k = 0..3 (mem_read_cb,
                                   mem_read_failed_cb, mem_write_cb, mem_write_failed_cb); script = what subscriber c does at its
                                   1st/2nd/.. invocation: `/`-separated lists of `a<k>:<c>` (subscribe) / `r<k>:<c>` (guarded
                                   unsubscribe), `-` = nothing; replies carry `<c>=<notification>;..` (who was told) in addition.
                                   `oneshot`: self-removing application listeners ahead of the client's own: no effect (theorem
                                   every_registered_subscriber_is_told_exactly_once)
  reply: `<res> <outs> L<lock>`  res = T | F | N | E:<enum> | H ;  outs = `;`-joined or `-`:
         S<chan>:<hex>  RO:<tag>:<id>:<addr>:<hex>  RF:...  WO:<tag>:<id>:<addr>  WF:...  P:<tag>:<pct>
-/
import CfVerif.Base.Proto
import CfVerif.Model.C06
open CfVerif CfVerif.C06

def showOut : Out → String
  | .send c d => s!"S{c}:{toHex d}"
  | .readOk t i a d => s!"RO:{t}:{i}:{a}:{toHex d}"
  | .readFail t i a d => s!"RF:{t}:{i}:{a}:{toHex d}"
  | .writeOk t i a => s!"WO:{t}:{i}:{a}"
  | .writeFail t i a => s!"WF:{t}:{i}:{a}"
  | .progress t p => s!"P:{t}:{p}"

def showRes : Res → String
  | .ret (some true) => "T"
  | .ret (some false) => "F"
  | .ret none => "N"
  | .raised e => s!"E:{e}"
  | .hang => "H"

def showStep (r : Step) : String :=
  let outs := if r.outs.isEmpty then "-" else ";".intercalate (r.outs.map showOut)
  s!"{showRes r.res} {outs} L{if r.st.lock then 1 else 0}"

def parseVariant? (s : String) : Option Variant :=
  if s == "code" then some Variant.code
  else if s == "fixed" then some Variant.fixed
  else if s == "live" then some Variant.live
  else match s.toList.map (fun c => if c == '1' then some true else if c == '0' then some false else none) with
    | [some a, some b, some c, some d, some e, some f] => some ⟨a, b, c, d, e, f⟩
    | _ => none

def parseBool? (s : String) : Option Bool :=
  if s == "1" then some true else if s == "0" then some false else none

structure DSt where
  v : Variant := Variant.code
  st : St := St.init
  t : Tester := Tester.new 0
  dv : DeckVariant := DeckVariant.code
  dk : Deck := Deck.new 0
  cs : CState := ⟨St.init, none⟩
  cres : String := "T"
  fs : FSt := FSt.init
  scripts : List (Nat × List (List SubAct)) := []

def showTOut : TOut → String
  | .updateFinished cb => s!"TU:{cb}"
  | .writeFinished cb a => s!"TW:{cb}:{a}"

/-- the reply of an event plus what the tester's callbacks did and the tester's validation flag -/
def showWithTester (r : Step) (t : Tester) (touts : List TOut) : String :=
  let ts := if touts.isEmpty then "-" else ";".intercalate (touts.map showTOut)
  s!"{showStep r} {ts} V{if t.valid then 1 else 0}"

def showDOut : DOut → Option String
  | .queryDone r => some s!"DQ:{r}"
  | .queryFailed r => some s!"DQF:{r}"
  | .readDone r a da => some s!"DR:{r}:{a}:{toHex da}"
  | .readFailed r a => some s!"DRF:{r}:{a}"
  | .writeDone r a => some s!"DW:{r}:{a}"
  | .writeFailed r a => some s!"DWF:{r}:{a}"
  | .silent _ _ => none          -- ghost: nothing is called

def showWithDeck (r : Step) (douts : List DOut) : String :=
  let ds := douts.filterMap showDOut
  s!"{showStep r} {if ds.isEmpty then "-" else ";".intercalate ds}"

def parseDeckVariant? (s : String) : Option DeckVariant :=
  if s == "code" then some DeckVariant.code
  else if s == "fixed" then some DeckVariant.fixed
  else match s.toList.map (fun c => if c == '1' then some true else if c == '0' then some false else none) with
    | [some a, some b, some c, some e] => some ⟨a, b, c, e⟩
    | _ => none

def parseKind? (s : String) : Option NKind :=
  if s == "0" then some .rOk else if s == "1" then some .rFail else if s == "2" then some .wOk
  else if s == "3" then some .wFail else none

def parseSubAct? (s : String) : Option SubAct :=
  match s.splitOn ":" with
  | [h, c] =>
    match h.toList, c.toNat? with
    | [op, k], some c =>
      match parseKind? (String.singleton k) with
      | some k => if op == 'a' then some (.add k c) else if op == 'r' then some (.remove k c) else none
      | none => none
    | _, _ => none
  | _ => none

def parseScript? (s : String) : Option (List (List SubAct)) :=
  (s.splitOn "/").mapM fun inv => if inv == "-" then some [] else (inv.splitOn ",").mapM parseSubAct?

/-- subscriber `c` performs the i-th entry of its script at its i-th invocation -/
def scriptBeh (scripts : List (Nat × List (List SubAct))) : SBeh := fun told c _ =>
  let n := (told.filter (fun e => e.1 == c)).length - 1
  match scripts.find? (fun e => e.1 == c) with
  | some e => e.2.getD n []
  | none => []

def fanStep (d : DSt) (e : FEv) : DSt × String :=
  let r := fstep CallerVariant.code (scriptBeh d.scripts) d.fs e
  let new := r.1.f.told.drop d.fs.f.told.length
  let ts := if new.isEmpty then "-" else ";".intercalate (new.map fun x => s!"{x.1}={showOut x.2}")
  ({ d with fs := r.1 }, s!"{showStep r.2} {ts}")

def dstep (d : DSt) (ws : List String) : DSt × String :=
  match ws with
  | ["reset", v] =>
    match parseVariant? v with
    | some v => ({ v := v, st := St.init }, "ok")
    | none => (d, "bad-op")
  | ["read", tag, id, addr, len] =>
    match tag.toNat?, id.toNat?, addr.toNat?, len.toNat? with
    | some t, some i, some a, some l =>
      let r := step d.v d.st (.read t i a l)
      ({ d with st := r.st }, showStep r)
    | _, _, _, _ => (d, "bad-op")
  | ["write", tag, id, addr, data, flush, prog] =>
    match tag.toNat?, id.toNat?, addr.toNat?, ofHex? data, parseBool? flush, parseBool? prog with
    | some t, some i, some a, some da, some f, some p =>
      let r := step d.v d.st (.write t i a da f p)
      ({ d with st := r.st }, showStep r)
    | _, _, _, _, _, _ => (d, "bad-op")
  | ["pkt", chan, data] =>
    match chan.toNat?, ofHex? data with
    | some c, some da =>
      if c == Gen.C06.chanInfo || c > 3 then (d, "bad-op") else
      let r := step d.v d.st (.pkt c da)
      ({ d with st := r.st }, showStep r)
    | _, _ => (d, "bad-op")
  | ["disc"] =>
    let r := step d.v d.st .disconnect
    ({ d with st := r.st }, showStep r)
  | ["dreset", id, dv] =>
    match id.toNat?, parseDeckVariant? dv with
    | some i, some v => ({ d with dk := Deck.new i, dv := v }, "ok")
    | _, _ => (d, "bad-op")
  | ["dquery", tag, rid, hf] =>
    match tag.toNat?, rid.toNat?, parseBool? hf with
    | some t, some r, some h =>
      let (dk', st) := deckQuery d.dv d.st d.dk t r h
      ({ d with st := st.st, dk := dk' }, showWithDeck st [])
    | _, _, _ => (d, "bad-op")
  | ["dread", tag, base, address, len, rid, hf] =>
    match tag.toNat?, base.toNat?, address.toNat?, len.toNat?, rid.toNat?, parseBool? hf with
    | some t, some b, some a, some l, some r, some h =>
      let (dk', st) := deckRead d.dv d.st d.dk t b a l r h
      ({ d with st := st.st, dk := dk' }, showWithDeck st [])
    | _, _, _, _, _, _ => (d, "bad-op")
  | ["dwrite", tag, base, address, data, rid, hf, prog] =>
    match tag.toNat?, base.toNat?, address.toNat?, ofHex? data, rid.toNat?, parseBool? hf, parseBool? prog with
    | some t, some b, some a, some da, some r, some h, some p =>
      let (dk', st) := deckWrite d.v d.st d.dk t b a da r h p
      ({ d with st := st.st, dk := dk' }, showWithDeck st [])
    | _, _, _, _, _, _, _ => (d, "bad-op")
  | ["dpkt", chan, data] =>
    match chan.toNat?, ofHex? data with
    | some c, some da =>
      if c == Gen.C06.chanInfo || c > 3 then (d, "bad-op") else
      let (dk', st, douts) := clientStep d.dv d.v d.st d.dk (.pkt c da)
      ({ d with st := st.st, dk := dk' }, showWithDeck st douts)
    | _, _ => (d, "bad-op")
  | ["ddisc"] =>
    let (dk', st, douts) := clientStep d.dv d.v d.st d.dk .disconnect
    ({ d with st := st.st, dk := dk' }, showWithDeck st douts)
  | ["ddisconnect"] =>
    -- DeckMemoryManager.disconnect(): every record forgotten
    ({ d with dk := { d.dk with query := none, read := none, write := none } }, "ok")
  | ["treset", id] =>
    match id.toNat? with
    | some i => ({ d with t := Tester.new i }, "ok")
    | none => (d, "bad-op")
  | ["tdisc"] =>
    -- MemoryTester.disconnect(): both callbacks forgotten
    ({ d with t := { d.t with updateCb := none, writeCb := none } }, "ok")
  | ["tread", tag, start, size, cb] =>
    match tag.toNat?, start.toNat?, size.toNat?, cb.toNat? with
    | some t, some a, some n, some c =>
      let (t', r) := testerRead d.st d.t t a n c
      ({ d with st := r.st, t := t' }, showWithTester r t' [])
    | _, _, _, _ => (d, "bad-op")
  | ["twrite", tag, start, size, cb] =>
    match tag.toNat?, start.toNat?, size.toNat?, cb.toNat? with
    | some t, some a, some n, some c =>
      let (t', r) := testerWrite d.v d.st d.t t a n c
      ({ d with st := r.st, t := t' }, showWithTester r t' [])
    | _, _, _, _ => (d, "bad-op")
  | ["tpkt", chan, data] =>
    -- a received packet, with the tester's callbacks registered on mem_read_cb / mem_write_cb
    match chan.toNat?, ofHex? data with
    | some c, some da =>
      if c == Gen.C06.chanInfo || c > 3 then (d, "bad-op") else
      let r := step d.v d.st (.pkt c da)
      let (t', touts) := testerReact d.t r.outs
      ({ d with st := r.st, t := t' }, showWithTester r t' touts)
    | _, _ => (d, "bad-op")
  | ["refill", tag, data] =>
    -- the application overwrites in place the buffer it passed to write(tag ..)
    match tag.toNat?, ofHex? data with
    | some t, some da => ({ d with st := refillSt AliasVariant.code d.st t da }, "ok")
    | _, _ => (d, "bad-op")
  | ["oneshot"] => (d, "ok")
  | ["freset"] => ({ d with fs := FSt.init, scripts := [] }, "ok")
  | ["fbeh", c, script] =>
    match c.toNat?, parseScript? script with
    | some c, some sc => ({ d with scripts := (c, sc) :: d.scripts.filter (fun e => e.1 != c) }, "ok")
    | _, _ => (d, "bad-op")
  | ["fsub", k, c] =>
    match parseKind? k, c.toNat? with
    | some k, some c => fanStep d (.sub (.add k c))
    | _, _ => (d, "bad-op")
  | ["funsub", k, c] =>
    match parseKind? k, c.toNat? with
    | some k, some c => fanStep d (.sub (.remove k c))
    | _, _ => (d, "bad-op")
  | ["fread", tag, id, addr, len] =>
    match tag.toNat?, id.toNat?, addr.toNat?, len.toNat? with
    | some t, some i, some a, some l => fanStep d (.mem (.read t i a l))
    | _, _, _, _ => (d, "bad-op")
  | ["fwrite", tag, id, addr, data, flush, prog] =>
    match tag.toNat?, id.toNat?, addr.toNat?, ofHex? data, parseBool? flush, parseBool? prog with
    | some t, some i, some a, some da, some f, some p => fanStep d (.mem (.write t i a da f p))
    | _, _, _, _, _, _ => (d, "bad-op")
  | ["fpkt", chan, data] =>
    match chan.toNat?, ofHex? data with
    | some c, some da => if c == Gen.C06.chanInfo || c > 3 then (d, "bad-op") else fanStep d (.mem (.pkt c da))
    | _, _ => (d, "bad-op")
  | ["fdisc"] => fanStep d (.mem .disconnect)
  | ["creset"] => ({ d with cs := ⟨St.init, none⟩, cres := "T" }, "ok")
  | ["cwrite", tag, id, addr, data, flush, prog] =>
    match tag.toNat?, id.toNat?, addr.toNat?, ofHex? data, parseBool? flush, parseBool? prog with
    | some t, some i, some a, some da, some f, some p =>
      match cexec ConcVariant.code d.cs (.begin t i a da f p) with
      | some (c1, _, _) => ({ d with cs := c1, cres := "T" }, "ok")
      | none => (d, "busy")
    | _, _, _, _, _, _ => (d, "bad-op")
  | ["cread", tag, id, addr, len] =>
    match tag.toNat?, id.toNat?, addr.toNat?, len.toNat? with
    | some t, some i, some a, some l =>
      match cexec ConcVariant.code d.cs (.beginRead t i a l) with
      | some (c1, _, _) => ({ d with cs := c1, cres := "T" }, "ok")
      | none => (d, "busy")
    | _, _, _, _ => (d, "bad-op")
  | ["csteps", k] =>
    match k.toNat? with
    | some n =>
      let rec go (fuel : Nat) (c : CState) (res : String) (outs : List Out) : Option (CState × String × List Out) :=
        match fuel with
        | 0 => some (c, res, outs)
        | fuel + 1 =>
          -- `return False` is the one way a call ends after the first statement of a read
          let rejects := match c.call with
            | some (.r k) => k.pc == 0 && dhas c.s.reads k.id
            | _ => false
          match cexec ConcVariant.code c .stepCall with
          | none => none
          | some (c1, o1, _) => go fuel c1 (if rejects then "F" else res) (outs ++ o1)
      match go n d.cs d.cres [] with
      | none => (d, "blocked")
      | some (c1, res, outs) =>
        let os := if outs.isEmpty then "-" else ";".intercalate (outs.map showOut)
        ({ d with cs := c1, cres := res }, s!"{os} L{if c1.s.lock then 1 else 0}")
    | none => (d, "bad-op")
  | ["cpkt", chan, data] =>
    match chan.toNat?, ofHex? data with
    | some c, some da =>
      if c == Gen.C06.chanInfo || c > 3 then (d, "bad-op") else
      match cexec ConcVariant.code d.cs (.env (.pkt c da)) with
      | none => (d, "blocked")
      | some (c1, _, _) => ({ d with cs := c1 }, showStep (step Variant.fixed d.cs.s (.pkt c da)))
    | _, _ => (d, "bad-op")
  | ["cend"] =>
    match d.cs.call with
    | none => (d, d.cres)
    | some _ => (d, "pending")
  | _ => (d, "bad-op")

def main : IO Unit := runProto ({} : DSt) dstep

/- Line-protocol driver for the C07 model.  Run: `lean --run Driver/C07.lean < ops` (LEAN_PATH set).

  reset                      forget registry, callbacks, behaviours, trace
  mode code|fixed|original   which iteration discipline (default: `code` = what Gen says the source does)
  beh <cb> <k> <acts>        the k-th invocation (0-based) of callback <cb> performs <acts> (default: nothing)
  ext <act>                  an operation performed from outside any callback
  pkts <h/len,h/len,...>     feed packets (header byte / payload length) to the dispatcher; reply = the observable trace
  match <port> <pm> <ch> <cm> <hdr>   the match condition alone
  acts: comma separated, `-` = none;  a:port:pm:ch:cm:cb  ad:cb:port:ch  ap:port:cb   (add header / header with
  default masks / port)   r:.. rd:.. rp:..  (remove)   A:cb  R:cb  (all-packet add/remove)   x  (raise)   hp:port  hc:chan  (the callback rewrites port / channel of the packet object it was given)
-/
import CfVerif.Base.Proto
import CfVerif.Model.C07
open CfVerif CfVerif.C07

structure DSt where
  st : St := St.init
  tbl : List ((Nat × Nat) × List Act) := []
  v : Variant := Variant.code

def parseAct? (w : String) : Option Act :=
  match w.splitOn ":" with
  | ["a", p, pm, c, cm, cb] => do pure (.add ⟨← p.toNat?, ← pm.toNat?, ← c.toNat?, ← cm.toNat?, ← cb.toNat?⟩)
  | ["ad", cb, p, c] => do pure (.add (headerReg (← cb.toNat?) (← p.toNat?) (← c.toNat?)))
  | ["ap", p, cb] => do pure (.add (portReg (← p.toNat?) (← cb.toNat?)))
  | ["r", p, pm, c, cm, cb] => do pure (.remove ⟨← p.toNat?, ← pm.toNat?, ← c.toNat?, ← cm.toNat?, ← cb.toNat?⟩)
  | ["rd", cb, p, c] => do pure (.remove (headerRegRemove (← cb.toNat?) (← p.toNat?) (← c.toNat?)))
  | ["rp", p, cb] => do pure (.remove (portRegRemove (← p.toNat?) (← cb.toNat?)))
  | ["A", cb] => do pure (.addAll (← cb.toNat?))
  | ["R", cb] => do pure (.removeAll (← cb.toNat?))
  | ["x"] => some .raise
  | ["hp", p] => do pure (.setPort (← p.toNat?))
  | ["hc", c] => do pure (.setChan (← c.toNat?))
  | _ => none

def parseActs? (s : String) : Option (List Act) :=
  if s == "-" then some [] else (s.splitOn ",").mapM parseAct?

/-- `hdr/len,hdr/len,...` -/
def parsePkts? (s : String) : Option (List Pkt) :=
  if s == "-" then some [] else
  (s.splitOn ",").mapM fun w =>
    match w.splitOn "/" with
    | [h, l] => do pure { hdr := (← h.toNat?), len := (← l.toNat?) }
    | _ => none

def evCb : Ev → Option Nat
  | .call r => some r.cb
  | .callAll c => some c
  | _ => none

/-- table-driven behaviour: the k-th invocation of callback `cb` performs `tbl[(cb, k)]` -/
def behOf (tbl : List ((Nat × Nat) × List Act)) : Beh := fun tr =>
  match tr.getLast? with
  | none => []
  | some e =>
    match evCb e with
    | none => []
    | some cb =>
      let k := (tr.dropLast.filter fun e' => evCb e' == some cb).length
      (tbl.lookup (cb, k)).getD []

/-- rendering of the observable part of a trace; a raise inside a port callback is followed by the error
log of the dispatcher (`L`), a raise inside an all-packet callback by the death of the thread (`D`) -/
def render : List Ev → Bool → List String
  | [], _ => []
  | .pkt h :: es, _ => s!"P{h}" :: render es false
  | .callAll c :: es, _ => s!"a{c}" :: render es false
  | .call r :: es, _ => s!"c{r.cb}" :: render es true
  | .raised :: es, inPort => (if inPort then ["!", "L"] else ["!"]) ++ render es inPort
  | .died :: es, p => "D" :: render es p
  | .added _ :: es, p => render es p
  | .removed _ :: es, p => render es p
  | .mutated :: es, p => render es p

def step (d : DSt) (ws : List String) : DSt × String :=
  match ws with
  | ["reset"] => ({}, "ok")
  | ["mode", m] =>
    match m with
    | "code" => ({ d with v := Variant.code }, "ok")
    | "fixed" => ({ d with v := Variant.fixed }, "ok")
    | "original" => ({ d with v := Variant.original }, "ok")
    | _ => (d, "bad-op")
  | ["beh", cb, k, acts] =>
    match cb.toNat?, k.toNat?, parseActs? acts with
    | some cb, some k, some acts => ({ d with tbl := ((cb, k), acts) :: d.tbl }, "ok")
    | _, _, _ => (d, "bad-op")
  | ["ext", act] =>
    match parseAct? act with
    | some a =>
      let (st', raised) := runActs d.v { d.st with trace := [] } [a]
      ({ d with st := { st' with trace := d.st.trace } }, if raised then "err value_error" else "ok")
    | none => (d, "bad-op")
  | ["pkts", hs] =>
    match parsePkts? hs with
    | some hs =>
      let st' := runPkts d.v (behOf d.tbl) d.st hs
      let new := st'.trace.drop d.st.trace.length
      let out := render new false
      ({ d with st := st' }, "ok " ++ (if out.isEmpty then "-" else " ".intercalate out))
    | none => (d, "bad-op")
  | ["match", p, pm, c, cm, h] =>
    match p.toNat?, pm.toNat?, c.toNat?, cm.toNat?, h.toNat? with
    | some p, some pm, some c, some cm, some h =>
      (d, if (Reg.mk p pm c cm 0).matches h then "ok 1" else "ok 0")
    | _, _, _, _, _ => (d, "bad-op")
  | _ => (d, "bad-op")

def main : IO Unit := runProto ({} : DSt) step

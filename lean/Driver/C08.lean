/- Line-protocol driver for the C08 model.  Run: `lean --run Driver/C08.lean < ops` (LEAN_PATH set).
Request:  `<ver> <method> <arg> ...`
  number   `f<binary64 bits>:<conv>` | `i<int>:<conv>`   conv = `<binary32 bits>` | `E<error enum>`
  optional number `none`;  vector `s,s,s` with s = `i<int>` | `f<binary64 bits of x*1000>`
  quaternion `q:t,q:t,q:t,q:t` (binary64 patterns);  int list `1,2,3` | `-`;  bytes hex | `-`
Reply:  `ok <header>:<hex>[;...]` | `ok -` (nothing sent) | `err <enum>` | `bad-op`. -/
import CfVerif.Base.Proto
import CfVerif.Model.C08
import CfVerif.Spec.C08
open CfVerif CfVerif.C08

def parseErr? : String → Option PyErr
  | "struct_error" => some .structError | "value_error" => some .valueError | "key_error" => some .keyError
  | "index_error" => some .indexError | "zero_div" => some .zeroDiv | "overflow" => some .overflow
  | "type_error" => some .typeError | "attribute_error" => some .attributeError
  | "assertion" => some .assertion | "other" => some .other
  | _ => none

def parseConv? (s : String) : Option Conv :=
  match s.toList with
  | 'E' :: r => (parseErr? (String.ofList r)).map Conv.err
  | _ => s.toNat?.map Conv.bits

def parseNum? (s : String) : Option Num :=
  match s.splitOn ":" with
  | [a, c] =>
    match a.toList with
    | 'f' :: r => do pure (Num.f (← (String.ofList r).toNat?) (← parseConv? c))
    | 'i' :: r => do pure (Num.i (← (String.ofList r).toInt?) (← parseConv? c))
    | _ => none
  | _ => none

def parseOptNum? (s : String) : Option (Option Num) :=
  if s == "none" then some none else (parseNum? s).map some

def parseScaled? (s : String) : Option Scaled :=
  match s.toList with
  | 'i' :: r => (String.ofList r).toInt?.map Scaled.i
  | 'f' :: r => (String.ofList r).toNat?.map Scaled.f
  | _ => none

def parseVec3? (s : String) : Option Vec3 :=
  match s.splitOn "," with
  | [a, b, c] => do pure ⟨← parseScaled? a, ← parseScaled? b, ← parseScaled? c⟩
  | _ => none

def parseQComp? (s : String) : Option QComp :=
  match s.splitOn ":" with
  | [q, t] => do pure ⟨← q.toNat?, ← t.toNat?⟩
  | _ => none

def parseQuat? (s : String) : Option QuatN :=
  match s.splitOn "," with
  | [a, b, c, d] => do pure ⟨← parseQComp? a, ← parseQComp? b, ← parseQComp? c, ← parseQComp? d⟩
  | _ => none

def parseCall? : List String → Option Call
  | ["setpoint", xm, r, p, mr, mp, y, t] => do
    let x ← xm.toNat?
    pure (.setpoint (x != 0) (← parseNum? r) (← parseNum? p) (← parseNum? mr) (← parseNum? mp) (← parseNum? y) (← parseNum? t))
  | ["notifyStop", ms] => do pure (.notifyStop (← parseNum? ms))
  | ["stopSetpoint"] => some .stopSetpoint
  | ["velocityWorld", a, b, c, d] => do pure (.velocityWorld (← parseNum? a) (← parseNum? b) (← parseNum? c) (← parseNum? d))
  | ["zdistance", a, b, c, d] => do pure (.zdistance (← parseNum? a) (← parseNum? b) (← parseNum? c) (← parseNum? d))
  | ["hover", a, b, c, d] => do pure (.hover (← parseNum? a) (← parseNum? b) (← parseNum? c) (← parseNum? d))
  | ["fullState", p, v, a, q, r] => do pure (.fullState (← parseVec3? p) (← parseVec3? v) (← parseVec3? a) (← parseQuat? q) (← parseVec3? r))
  | ["position", a, b, c, d] => do pure (.position (← parseNum? a) (← parseNum? b) (← parseNum? c) (← parseNum? d))
  | ["hlGroupMask", gm] => do pure (.hlGroupMask (← parseNum? gm))
  | ["hlTakeoff", h, d, gm, yaw] => do pure (.hlTakeoff (← parseNum? h) (← parseNum? d) (← parseNum? gm) (← parseOptNum? yaw))
  | ["hlLand", h, d, gm, yaw] => do pure (.hlLand (← parseNum? h) (← parseNum? d) (← parseNum? gm) (← parseOptNum? yaw))
  | ["hlStop", gm] => do pure (.hlStop (← parseNum? gm))
  | ["hlGoTo", x, y, z, yaw, d, rel, lin, gm] => do
    pure (.hlGoTo (← parseNum? x) (← parseNum? y) (← parseNum? z) (← parseNum? yaw) (← parseNum? d) (← parseNum? rel) (← parseNum? lin) (← parseNum? gm))
  | ["hlSpiral", a, r0, rf, asc, d, sw, cw, gm] => do
    pure (.hlSpiral (← parseNum? a) (← parseNum? r0) (← parseNum? rf) (← parseNum? asc) (← parseNum? d) (← parseNum? sw) (← parseNum? cw) (← parseNum? gm))
  | ["hlStartTraj", id, ts, rel, rev, gm] => do
    pure (.hlStartTraj (← parseNum? id) (← parseNum? ts) (← parseNum? rel) (← parseNum? rev) (← parseNum? gm))
  | ["hlDefineTraj", id, off, n, ty] => do pure (.hlDefineTraj (← parseNum? id) (← parseNum? off) (← parseNum? n) (← parseNum? ty))
  | ["extpos", x, y, z] => do pure (.extpos (← parseNum? x) (← parseNum? y) (← parseNum? z))
  | ["extposWrap", x, y, z] => do pure (.extposWrap (← parseNum? x) (← parseNum? y) (← parseNum? z))
  | ["extpose", x, y, z, a, b, c, d] => do
    pure (.extpose (← parseNum? x) (← parseNum? y) (← parseNum? z) (← parseNum? a) (← parseNum? b) (← parseNum? c) (← parseNum? d))
  | ["extposeWrap", x, y, z, a, b, c, d] => do
    pure (.extposeWrap (← parseNum? x) (← parseNum? y) (← parseNum? z) (← parseNum? a) (← parseNum? b) (← parseNum? c) (← parseNum? d))
  | ["shortLpp", dest, data] => do pure (.shortLpp (← parseNum? dest) (← ofHex? data))
  | ["emergencyStop"] => some .emergencyStop
  | ["emergencyWatchdog"] => some .emergencyWatchdog
  | ["lhPersist", g, c] => do pure (.lhPersist (← parseIntList? g) (← parseIntList? c))
  | ["contWave", e] => do pure (.contWave (← parseNum? e))
  | ["arming", e] => do pure (.arming (← parseNum? e))
  | ["crashRecovery"] => some .crashRecovery
  | ["lopoPosition", id, x, y, z] => do pure (.lopoPosition (← parseNum? id) (← parseNum? x) (← parseNum? y) (← parseNum? z))
  | ["lopoReboot", id, m] => do pure (.lopoReboot (← parseNum? id) (← parseNum? m))
  | ["lopoMode", id, m] => do pure (.lopoMode (← parseNum? id) (← parseNum? m))
  | _ => none

def showPackets (ps : List Packet) : String :=
  if ps.isEmpty then "-" else ";".intercalate (ps.map fun p => s!"{p.header}:{toHex p.data}")

def b2n (b : Bool) : Nat := if b then 1 else 0

/-- canonical text of a firmware command (the Python twin of the decoder in harness/corr/c08.py prints the same) -/
def showCmd : Fw.Cmd → String
  | .rpyt r p y t => s!"rpyt {r} {p} {y} {t}"
  | .stop => "stop"
  | .notifySetpointsStop ms => s!"notifySetpointsStop {ms}"
  | .velocityWorld a b c d => s!"velocityWorld {a} {b} {c} {d}"
  | .zDistance a b c d => s!"zDistance {a} {b} {c} {d}"
  | .hover a b c d => s!"hover {a} {b} {c} {d}"
  | .fullState x y z vx vy vz ax ay az q rr pr yr =>
    let qs := ",".intercalate (q.fields.map fun (i, nb, m) => s!"{i}/{nb}/{m}")
    s!"fullState {x} {y} {z} {vx} {vy} {vz} {ax} {ay} {az} {q.largest}:{qs} {rr} {pr} {yr}"
  | .position a b c d => s!"position {a} {b} {c} {d}"
  | .hlSetGroupMask g => s!"hlSetGroupMask {g}"
  | .hlTakeoff2 g h y u d => s!"hlTakeoff2 {g} {h} {y} {b2n u} {d}"
  | .hlLand2 g h y u d => s!"hlLand2 {g} {h} {y} {b2n u} {d}"
  | .hlStop g => s!"hlStop {g}"
  | .hlGoTo g r x y z yaw d => s!"hlGoTo {g} {r} {x} {y} {z} {yaw} {d}"
  | .hlGoTo2 g r l x y z yaw d => s!"hlGoTo2 {g} {r} {l} {x} {y} {z} {yaw} {d}"
  | .hlSpiral g s c phi r0 rf dz d => s!"hlSpiral {g} {s} {c} {phi} {r0} {rf} {dz} {d}"
  | .hlStartTrajectory g r v i t => s!"hlStartTrajectory {g} {r} {v} {i} {t}"
  | .hlDefineTrajectory i l t o n => s!"hlDefineTrajectory {i} {l} {t} {o} {n}"
  | .extPosition x y z => s!"extPosition {x} {y} {z}"
  | .extPose x y z a b c d => s!"extPose {x} {y} {z} {a} {b} {c} {d}"
  | .shortLpp dest pl => s!"shortLpp {dest} {toHex pl}"
  | .emergencyStop => "emergencyStop"
  | .emergencyStopWatchdog => "emergencyStopWatchdog"
  | .lhPersist g c => s!"lhPersist {g} {c}"
  | .setContinousWave e => s!"setContinousWave {b2n e}"
  | .armSystem e => s!"armSystem {b2n e}"
  | .recoverSystem => "recoverSystem"

def showLpp : Fw.Lpp → String
  | .position x y z => s!"position {x} {y} {z}"
  | .reboot m => s!"reboot {m}"
  | .mode m => s!"mode {m}"

def showResult : Except PyErr (List Packet) → String
  | .ok ps => "ok " ++ showPackets ps
  | .error e => s!"err {e}"

/-- state = the long-lived objects of one history (`new` starts another history).  History ops:
`new` | `xmode <0/1>` | `negotiated <int>` | `H <method> <arg> ...` (the call under the current state; reply `v<version in force> <result>`) -/
def step (st : Objs) (ws : List String) : Objs × String :=
  match ws with
  | ["new"] => (Objs.init, "ok")
  | ["xmode", b] =>
    match b.toNat? with
    | some n => ((CfVerif.C08.step st (.setXmode (n != 0))).1, "ok")
    | none => (st, "bad-op")
  | ["negotiated", v] =>
    match v.toInt? with
    | some v => ((CfVerif.C08.step st (.negotiated v)).1, "ok")
    | none => (st, "bad-op")
  | "H" :: rest =>
    match parseCall? rest with
    | some c =>
      match CfVerif.C08.step st (.call c) with
      | (st', some d) => (st', s!"v{d.version} {showResult d.result}")
      | (st', none) => (st', "bad-op")
    | none => (st, "bad-op")
  | _ =>
  let r : String :=
    match ws with
    | ["fwdecode", ver, hdr, data] =>
      match ver.toInt?, hdr.toNat?, ofHex? data with
      | some v, some h, some d =>
        match Fw.decode v h d with
        | some c => "ok " ++ showCmd c
        | none => "ok none"
      | _, _, _ => "bad-op"
    | ["lppdecode", data] =>
      match ofHex? data with
      | some d => match Fw.decodeLpp d with
        | some c => "ok " ++ showLpp c
        | none => "ok none"
      | none => "bad-op"
    | ver :: rest =>
      match ver.toInt?, parseCall? rest with
      | some v, some c =>
        match emit v c with
        | .ok ps => "ok " ++ showPackets ps
        | .error e => s!"err {e}"
      | _, _ => "bad-op"
    | [] => "bad-op"
  (st, r)

def main : IO Unit := runProto Objs.init step

/- Line-protocol driver for the C09 model.  Run: `lean --run Driver/C09.lean < ops` (LEAN_PATH set). -/
import CfVerif.Base.Proto
import CfVerif.Model.C09
open CfVerif CfVerif.C09

def splitOrEmpty (s : String) (sep : String) : List String := if s == "-" then [] else s.splitOn sep

/-- `ts,bs,ang;ts,bs,ang;...` -/
def parseMeas? (s : String) : Option (List (Meas Int Nat)) :=
  (splitOrEmpty s ";").mapM fun w =>
    match w.splitOn "," with
    | [a, b, c] => do pure { ts := (← a.toInt?), bs := (← b.toNat?), ang := (← c.toNat?) }
    | _ => none

def showGroup (g : Group Int Nat) : String :=
  s!"{g.ts}:" ++ (if g.angles.isEmpty then "-" else ",".intercalate (g.angles.map fun kv => s!"{kv.1}={kv.2}"))

def showList (l : List String) (sep : String := ";") : String := if l.isEmpty then "-" else sep.intercalate l

def parseNatLists? (s : String) : Option (List (List Nat)) := (splitOrEmpty s ";").mapM parseNatList?

/-- symbolic poses: the numeric operations build expression strings -/
def symOps : PoseOps String where
  mapRef a b c := s!"M({a},{b},{c})"
  cfFrom a b := s!"C({a},{b})"
  avg l := "A(" ++ ",".intercalate l ++ ")"

/-- `round:sample:id,...` -/
def parsePicks? (s : String) : Option (List (Nat × Nat × Nat)) :=
  (splitOrEmpty s ",").mapM fun w =>
    match w.splitOn ":" with
    | [a, b, c] => do pure ((← a.toNat?), (← b.toNat?), (← c.toNat?))
    | _ => none

def pickOf (tbl : List (Nat × Nat × Nat)) (r i : Nat) (known : List Nat) : Nat :=
  match tbl.find? (fun e => e.1 == r && e.2.1 == i) with
  | some e => e.2.2
  | none => known.headD 0

def showLinkErr : LinkErr → String
  | .noReference => "no_reference"
  | .cannotLink => "cannot_link"
  | .keyError => "key_error"
  | .avgEmpty => "value_error"
  | .fuel => "fuel"

def showSolveErr : SolveErr → String
  | .keyError => "key_error"
  | .valueError => "value_error"
  | .indexError => "index_error"

def sortDict {α : Type} (d : Dict α) : Dict α := (d.toArray.qsort (fun a b => a.1 < b.1)).toList

def symSamples (samples : List (List Nat)) : List (Dict String) :=
  (enumFrom 0 samples).map fun (i, ks) => ks.map fun b => (b, s!"c{i}_{b}")

def parseDefs? (ids nSamples nSensors : String) : Option (List Nat × Nat × Nat) := do
  pure ((← parseNatList? ids), (← nSamples.toNat?), (← nSensors.toNat?))

def showNats (l : List Nat) : String := showNatList l
def showInts (l : List Int) : String := showIntList l

def bsParams (b : Nat) : List Int := (List.range 6).map fun k => (1000 * (b + 1) + k : Nat)
def cfParams (i : Nat) : List Int := (List.range 6).map fun k => -((100 * (i + 1) + k : Nat) : Int)

/-- numpy's primitives on binary64 (the driver's instance of `Trig`; used only for the correspondence) -/
def floatTrig : Trig Float where
  norm v := Float.sqrt (v.x * v.x + v.y * v.y + v.z * v.z)
  cos := Float.cos
  sin := Float.sin
  atan2 := Float.atan2
  tan := Float.tan
  isZero a := a == 0.0

/-- floats travel as IEEE bit patterns -/
def parseFloats? (s : String) : Option (List Float) := (splitOrEmpty s ",").mapM fun w => w.toNat?.map (Float.ofBits ∘ UInt64.ofNat)
def showFloats (l : List Float) : String := showList (l.map fun f => toString f.toBits.toNat) ","
def v3? : List Float → Option (V3 Float × List Float)
  | a :: b :: c :: r => some (⟨a, b, c⟩, r)
  | _ => none

def step (_ : Unit) (ws : List String) : Unit × String :=
  let r : String :=
    match ws with
    | ["match", d, m, meas] =>
      match d.toInt?, m.toInt?, parseMeas? meas with
      | some d, some m, some ms => "ok " ++ showList ((matchSamples ms d m).map showGroup)
      | _, _, _ => "bad-op"
    | ["link", samples, picks] =>
      match parseNatLists? samples, parsePicks? picks with
      | some ss, some tbl =>
        match estimate symOps (pickOf tbl) (symSamples ss) with
        | .ok (bs, cfs) => "ok " ++ showList ((sortDict bs).map fun kv => s!"{kv.1}={kv.2}") "|" ++ " " ++ showList cfs "|"
        | .error e => "err " ++ showLinkErr e
      | _, _ => "bad-op"
    | ["remaining", samples, known, picks] =>
      -- `_estimate_remaining_bs_poses` with an arbitrary initial bs_poses (keys `known`, poses g<id>)
      match parseNatLists? samples, parseNatList? known, parsePicks? picks with
      | some ss, some kn, some tbl =>
        match estimateRemaining symOps (pickOf tbl) (symSamples ss) (kn.map fun b => (b, s!"g{b}")) with
        | .ok bs => "ok " ++ showList ((sortDict bs).map fun kv => s!"{kv.1}={kv.2}") "|"
        | .error e => "err " ++ showLinkErr e
      | _, _, _ => "bad-op"
    | ["bsmap", ids] =>
      match parseNatList? ids with
      | some ids =>
        let m := createBsMap ids
        "ok " ++ showList (m.1.map fun kv => s!"{kv.1}:{kv.2}") "," ++ " " ++ showList (m.2.map fun kv => s!"{kv.1}:{kv.2}") ","
      | none => "bad-op"
    | ["indexes", ids, nSamples, nSensors, samples] =>
      match parseDefs? ids nSamples nSensors, parseNatLists? samples with
      | some (ids, n, ns), some ss =>
        match mkDefs ids n ns with
        | .error e => "err " ++ showSolveErr e
        | .ok defs =>
          match pairIndexes defs ss, jacSparsity defs ss with
          | .ok pairs, .ok rows =>
            let shape := jacShape defs pairs.length
            s!"ok {showNats (pairs.map (·.1))} {showNats (pairs.map (·.2.1))} {showNats (pairs.map (·.2.2))} {shape.1}x{shape.2} " ++
              showList (rows.map showNats)
          | .error e, _ => "err " ++ showSolveErr e
          | _, .error e => "err " ++ showSolveErr e
      | _, _ => "bad-op"
    | ["x0", ids, nSamples, nSensors, bsOrder, nCfPoses] =>
      -- bs pose of id b has parameters bsParams b, CF pose i has cfParams i
      match parseDefs? ids nSamples nSensors, parseNatList? bsOrder, nCfPoses.toNat? with
      | some (ids, n, ns), some order, some ncf =>
        match mkDefs ids n ns with
        | .error e => "err " ++ showSolveErr e
        | .ok defs =>
          match initialX0 (fun (p : List Int) => p) 0 defs (order.map fun b => (b, bsParams b)) ((List.range ncf).map cfParams) with
          | .ok x => "ok " ++ showInts x
          | .error e => "err " ++ showSolveErr e
      | _, _, _ => "bad-op"
    | ["gather", ids, nSamples, nSensors, samples, params] =>
      match parseDefs? ids nSamples nSensors, parseNatLists? samples, parseIntList? params with
      | some (ids, n, ns), some ss, some ps =>
        match mkDefs ids n ns with
        | .error e => "err " ++ showSolveErr e
        | .ok defs =>
          match pairIndexes defs ss with
          | .error e => "err " ++ showSolveErr e
          | .ok pairs =>
            match calcResidual (fun row b cf s a => s!"{row}/{showInts b}/{showInts cf}/{s}/{a}") (0 : Int) defs pairs ps with
            | .ok rows => "ok " ++ showList rows
            | .error e => "err " ++ showSolveErr e
      | _, _, _ => "bad-op"
    | ["condense", ids, nSamples, nSensors, params] =>
      match parseDefs? ids nSamples nSensors, parseIntList? params with
      | some (ids, n, ns), some ps =>
        match mkDefs ids n ns with
        | .error e => "err " ++ showSolveErr e
        | .ok defs =>
          match condense (fun (row : List Int) => showInts (splitPoseParams row).1 ++ "/" ++ showInts (splitPoseParams row).2) "I" defs ps with
          | .ok (bs, cfs) => "ok " ++ showList ((sortDict bs).map fun kv => s!"{kv.1}={kv.2}") "|" ++ " " ++ showList cfs "|"
          | .error e => "err " ++ showSolveErr e
      | _, _ => "bad-op"
    | ["vec2ippe", v] =>
      match parseIntList? v with
      | some v => if v.length = 3 then "ok " ++ showInts (vecToIppe v) else "bad-op"
      | none => "bad-op"
    | ["vec2cf", v] =>
      match parseIntList? v with
      | some v => if v.length = 3 then "ok " ++ showInts (vecToCf v) else "bad-op"
      | none => "bad-op"
    | ["mat2cf", m] =>
      match parseIntList? m with
      | some [a, b, c, d, e, f, g, h, i] => "ok " ++ showInts (matToCf [[a, b, c], [d, e, f], [g, h, i]]).flatten
      | _ => "bad-op"
    | ["rottrans", fs] =>
      match parseFloats? fs with
      | some l => match (do let (p, l) ← v3? l; let (r, l) ← v3? l; let (t, l) ← v3? l; if l.isEmpty then pure (p, r, t) else none) with
        | some (p, r, t) => let o := rotateTranslate floatTrig p r t; "ok " ++ showFloats [o.x, o.y, o.z]
        | none => "bad-op"
      | none => "bad-op"
    | ["residpair", fs] =>
      match parseFloats? fs with
      | some l => match (do let (br, l) ← v3? l; let (bt, l) ← v3? l; let (cr, l) ← v3? l; let (ct, l) ← v3? l; let (s, l) ← v3? l
                            match l with | [t1, t2] => pure (br, bt, cr, ct, s, t1, t2) | _ => none) with
        | some (br, bt, cr, ct, s, t1, t2) =>
          let a := calcAnglePair floatTrig (br, bt) (cr, ct) s
          let r := residualPair floatTrig (br, bt) (cr, ct) s (t1, t2)
          "ok " ++ showFloats [a.1, a.2, r.1, r.2]
        | none => "bad-op"
      | none => "bad-op"
    | ["gram", qs] =>
      match (splitOrEmpty qs ";").mapM parseIntList? with
      | some rows => if rows.all (·.length == 4) then "ok " ++ showInts (gram 4 rows).flatten else "bad-op"
      | none => "bad-op"
    | ["rcf2ippe"] => "ok " ++ showInts rCfToIppe.flatten
    | _ => "bad-op"
  ((), r)

def main : IO Unit := runProto () step

/- Line-protocol driver for the C10 model.  Run: `lean --run Driver/C10.lean < ops` (LEAN_PATH set).
   Requests (one per line):
     reset src|live            new object, all-closed
     open <0|1>   setnr <0|1>   send <id> <header> <size> <expected|-> <timeoutMs>   recv <header> <data|->
     expire <i>   run <i>   adv <dt>   close1   close2   lerr   closeend   lerrend   openend
     sendx <as send>   runx <i>     the same steps with the driver's send_packet or a packet_sent subscriber raising: reply `exc tx=…`
                                    (the exception reached the caller) or `ok …` (nothing was sent, nothing raised); `err blocked`: the step
                                    waits for ever for the send lock
     sendf <as send>   runf <i>     the same, the driver reporting a link error from inside link.send_packet: reply
                                    `<reply of the critical section> | <reply of the deferred link error>` (the second only if transmitted)
   Reply: `ok tx=<sid>:<pkid>:<onClosed>,… new=<idx>:<interval>,… st=<one letter per timer: A C E D> link=<sid|->`
   (tx/new = what this step added) or `err <kind>` (state unchanged) or `bad-op`. -/
import CfVerif.Base.Proto
import CfVerif.Model.C10
open CfVerif CfVerif.C10

structure DState where
  cfg : Cfg
  ls : LState

def stLetter : TSt → String
  | .armed => "A" | .cancelled => "C" | .expired => "E" | .done => "D"

def showErr : Err → String
  | .tooLarge => "too_large" | .notEnabled => "not_enabled" | .keyError => "key_error" | .attributeError => "attribute_error"
  | .blocked => "blocked"

def dash (l : List String) : String := if l.isEmpty then "-" else ",".intercalate l

def showDelta (old new : State) : String :=
  let ntx := (new.log.take (new.log.length - old.log.length)).reverse
  let txs := ntx.map fun t => s!"{t.sid}:{t.pk.id}:{if t.onClosed then 1 else 0}"
  let nts := (new.timers.drop old.timers.length).zipIdx.map fun (t, i) => s!"{old.timers.length + i}:{t.interval}"
  let sts := String.join (new.timers.map fun t => stLetter t.st)
  let lk := match new.link with | some l => toString l.sid | none => "-"
  s!"ok tx={dash txs} new={dash nts} st={if sts.isEmpty then "-" else sts} link={lk}"

def parseEv? : List String → Option Ev
  | ["open", b] => b.toNat?.map fun n => Ev.openLink (n ≠ 0)
  | ["setnr", b] => b.toNat?.map fun n => Ev.setResend (n ≠ 0)
  | ["send", id, h, sz, ex, tmo] => do
    let ex ← parseNatList? ex
    pure (Ev.send { id := ← id.toNat?, header := ← h.toNat?, size := ← sz.toNat? } ex (← tmo.toNat?))
  | ["recv", h, d] => do pure (Ev.recv (← h.toNat?) (← parseNatList? d))
  | ["expire", i] => i.toNat?.map Ev.expire
  | ["run", i] => i.toNat?.map Ev.run
  | ["adv", dt] => dt.toNat?.map Ev.advance
  | ["close1"] => some .closeSetpoint
  | ["close2"] => some .closeRest
  | ["lerr"] => some .linkError
  | ["lerrend"] => some .linkErrorEnd
  | ["closeend"] => some .closeEnd
  | ["openend"] => some .openEnd
  | _ => none

def excDelta (old new : State) : String := "exc" ++ ((showDelta old new).drop 2).toString

def lreply (d : DState) (le : LEv) : DState × String :=
  match lstep d.cfg d.ls le with
  | .ok ls' =>
    ({ d with ls := ls' }, if ls'.raised > d.ls.raised then excDelta d.ls.st ls'.st else showDelta d.ls.st ls'.st)
  | .error er => (d, "err " ++ showErr er)

def failing (d : DState) (ws : List String) : DState × String :=
  match parseEv? ws with
  | none => (d, "bad-op")
  | some e =>
    match step d.cfg d.ls.st e with
    | .error er => (d, "err " ++ showErr er)
    | .ok s1 =>
      if d.ls.locked && takesLock d.cfg d.ls.st e then (d, "err blocked")
      else if s1.log.length > d.ls.st.log.length then
        let s2 := stepT d.cfg (stepT d.cfg s1 .linkError) .linkErrorEnd
        ({ d with ls := { d.ls with st := stepReportingError d.cfg d.ls.st e } }, showDelta d.ls.st s1 ++ " | " ++ showDelta s1 s2)
      else ({ d with ls := { d.ls with st := s1 } }, showDelta d.ls.st s1)

def dstep (d : DState) (ws : List String) : DState × String :=
  match ws with
  | ["reset", "src"] => ({ cfg := srcCfg, ls := linit }, "ok")
  | ["reset", "live"] => ({ cfg := liveCfg, ls := linit }, "ok")
  | "sendf" :: rest => failing d ("send" :: rest)
  | "runf" :: rest => failing d ("run" :: rest)
  | "sendx" :: rest =>
    match parseEv? ("send" :: rest) with
    | some (.send pk ex t) => lreply d (.sendRaise pk ex t)
    | _ => (d, "bad-op")
  | ["runx", i] =>
    match i.toNat? with
    | some i => lreply d (.runRaise i)
    | none => (d, "bad-op")
  | _ =>
    match parseEv? ws with
    | none => (d, "bad-op")
    | some e => lreply d (.ev e)

def main : IO Unit := runProto ({ cfg := srcCfg, ls := linit } : DState) dstep

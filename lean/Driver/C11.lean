/- Line-protocol driver for the C11 model.  Run: `lean --run Driver/C11.lean < ops` (LEAN_PATH set).
Strings are dotted decimal code points (`_` = empty string, `~` = None); bytes are hex (`-` = empty). -/
import CfVerif.Base.Proto
import CfVerif.Model.C11
open CfVerif CfVerif.C11

def showStr (s : Str) : String :=
  if s.isEmpty then "_" else ".".intercalate (s.map toString)

def parseStr? (w : String) : Option Str :=
  if w == "_" then some [] else (w.splitOn ".").mapM String.toNat?

def parseOptStr? (w : String) : Option (Option Str) :=
  if w == "~" then some none else (parseStr? w).map some

def showCls : Cls → String
  | .log => "L"
  | .param => "P"

mutual
partial def showVal : JVal → String
  | .null => "N"
  | .bool true => "T"
  | .bool false => "F"
  | .int i => s!"I{i}"
  | .flt _ => "D"
  | .str s => "S" ++ showStr s
  | .arr l => "A[" ++ ",".intercalate (l.map showVal) ++ "]"
  | .obj l => "O{" ++ ",".intercalate (l.map fun (k, v) => showStr k ++ ":" ++ showVal v) ++ "}"
  | .elem c i g n ct pt a x =>
    "E(" ++ ",".intercalate [showCls c, showVal i, showStr g, showStr n, showStr ct, showStr pt, showVal a,
      match x with | some v => showVal v | none => "~"] ++ ")"
end

def showRes : Except Err JVal → String
  | .ok v => "ok " ++ showVal v
  | .error .exc => "exc"
  | .error .unmodelled => "unmodelled"

def parseElem? (w : String) : Option Elem :=
  match w.splitOn "/" with
  | [c, i, g, n, ct, pt, a, x] => do
    let core : Core := { ident := ← i.toInt?, group := ← parseStr? g, name := ← parseStr? n,
                         ctype := ← parseStr? ct, pytype := ← parseStr? pt, access := ← a.toInt? }
    if c == "L" then pure (.log core)
    else if c == "P" then
      if x == "1" then pure (.param core true) else if x == "0" then pure (.param core false) else none
    else none
  | _ => none

def parseGroup? (w : String) : Option (Str × List (Str × Elem)) :=
  match w.splitOn ":" with
  | [g, ms] => do
    let g ← parseStr? g
    if ms == "" then pure (g, []) else
    let l ← (ms.splitOn ",").mapM fun m =>
      match m.splitOn "=" with
      | [n, e] => do pure (← parseStr? n, ← parseElem? e)
      | _ => none
    pure (g, l)
  | _ => none

def parseToc? (w : String) : Option Toc :=
  if w == "-" then some [] else (w.splitOn "|").mapM parseGroup?

structure DSt where
  fs : FS := ⟨[], [], [], false⟩
  cache : Cache := ⟨[], none⟩
  f : Fetcher := ⟨.getInfo, 0, 0, 0, .typed []⟩

def showOuts (o : List Out) : String :=
  if o.isEmpty then "-" else ",".intercalate (o.map fun | .request i => s!"req{i}" | .finished => "fin")

/-- result class of `loads` on every proper prefix and on the full text, computed incrementally
(`run` threads its state, so `loads (t.take k) = finish (run initSt (t.take k))` for every k) -/
def prefixResults (t : Str) : List String := Id.run do
  let mut st : Except Err St := .ok initSt
  let mut out : List String := []
  let cls (s : Except Err St) : String :=
    match s with
    | .ok s => (match finish s with | .ok _ => "ok" | .error .exc => "exc" | .error .unmodelled => "unmodelled")
    | .error .exc => "exc"
    | .error .unmodelled => "unmodelled"
  out := cls st :: out
  for c in t do
    st := match st with
      | .ok s => step s c
      | e => e
    out := cls st :: out
  return out.reverse

def step' (σ : DSt) (ws : List String) : DSt × String :=
  match ws with
  | ["loads", hex] =>
    match ofHex? hex with
    | some b => (σ, showRes (loadBytes b))
    | none => (σ, "bad-op")
  | ["prefixes", hex] =>
    -- for an ASCII text without CR: indices k (0..n) whose prefix does NOT raise; reply `ok <list>`
    match ofHex? hex with
    | some b =>
      if b.all (fun x => x.toNat < 128 && x.toNat != 13) then
        let rs := prefixResults (b.map UInt8.toNat)
        let idx := (List.range rs.length).zip rs |>.filter (fun p => p.2 != "exc") |>.map fun p => s!"{p.1}:{p.2}"
        (σ, "ok " ++ (if idx.isEmpty then "-" else ",".intercalate idx))
      else
        let n := b.length
        let idx := (List.range (n + 1)).filterMap fun k =>
          match loadBytes (b.take k) with
          | .ok _ => some s!"{k}:ok"
          | .error .exc => none
          | .error .unmodelled => some s!"{k}:unmodelled"
        (σ, "ok " ++ (if idx.isEmpty then "-" else ",".intercalate idx))
    | none => (σ, "bad-op")
  | ["print", toc] =>
    match parseToc? toc with
    | some t => (σ, "ok " ++ toHex (encodeText (printToc t)))
    | none => (σ, "bad-op")
  | ["pattern", crc] =>
    match crc.toNat? with
    | some n => (σ, match fetchPattern n with | some p => "ok " ++ showStr p | none => "unmodelled")
    | none => (σ, "bad-op")
  | ["reset"] => ({}, "ok")
  | ["mkdir", p] =>
    match parseStr? p with
    | some p => ({ σ with fs := { σ.fs with dirs := σ.fs.dirs ++ [p] } }, "ok")
    | none => (σ, "bad-op")
  | ["file", p, hex] =>
    match parseStr? p, ofHex? hex with
    | some p, some b => ({ σ with fs := { σ.fs with files := σ.fs.files ++ [(p, b)] } }, "ok")
    | _, _ => (σ, "bad-op")
  | ["ghost", p, kind] =>
    let k : Option Ghost := if kind == "dir" then some .dir else if kind == "dangling" then some .dangling
      else if kind == "noperm" then some .noperm else none
    match parseStr? p, k with
    | some p, some k =>
      ({ σ with fs := { σ.fs with files := σ.fs.files.filter (·.1 != p), ghosts := σ.fs.ghosts.filter (·.1 != p) ++ [(p, k)] } }, "ok")
    | _, _ => (σ, "bad-op")
  | ["rm", p] =>
    match parseStr? p with
    | some p => ({ σ with fs := { σ.fs with files := σ.fs.files.filter (·.1 != p) } }, "ok")
    | none => (σ, "bad-op")
  | ["listing"] =>
    -- forget the listing order (the harness re-sends files in the order the OS lists them)
    ({ σ with fs := { σ.fs with files := [], ghosts := [], dirs := [] } }, "ok")
  | ["readonly", b] =>
    if b == "1" then ({ σ with fs := { σ.fs with readonly := true } }, "ok")
    else if b == "0" then ({ σ with fs := { σ.fs with readonly := false } }, "ok")
    else (σ, "bad-op")
  | ["new", ro, rw] =>
    match parseOptStr? ro, parseOptStr? rw with
    | some ro, some rw =>
      match Cache.init σ.fs ro rw with
      | .ok (fs, c) => ({ σ with fs := fs, cache := c }, "ok " ++ (if c.files.isEmpty then "-" else ",".intercalate (c.files.map showStr)))
      | .error .exc => (σ, "exc")
      | .error .unmodelled => (σ, "unmodelled")
    | _, _ => (σ, "bad-op")
  | ["fetch", crc] =>
    match crc.toNat? with
    | some n => (σ, showRes (σ.cache.fetch σ.fs n))
    | none => (σ, "bad-op")
  | ["insert", crc, toc] =>
    match crc.toNat?, parseToc? toc with
    | some n, some t =>
      let (fs, c) := σ.cache.insert σ.fs n t
      ({ σ with fs := fs, cache := c }, "ok")
    | _, _ => (σ, "bad-op")
  | ["insertcut", crc, toc, k] =>
    match crc.toNat?, parseToc? toc, k.toNat? with
    | some n, some t, some k =>
      let (fs, c) := σ.cache.insertCut σ.fs n t k
      ({ σ with fs := fs, cache := c }, "ok")
    | _, _, _ => (σ, "bad-op")
  | ["files"] => (σ, "ok " ++ (if σ.cache.files.isEmpty then "-" else ",".intercalate (σ.cache.files.map showStr)))
  | ["cat", p] =>
    match parseStr? p with
    | some p => (σ, match σ.fs.read p with | some b => "ok " ++ toHex b | none => "none")
    | none => (σ, "bad-op")
  | ["ls"] =>
    let names := (σ.fs.files.map fun f => showStr f.1)
    (σ, "ok " ++ (if names.isEmpty then "-" else ",".intercalate names))
  | ["dirs"] => (σ, "ok " ++ (if σ.fs.dirs.isEmpty then "-" else ",".intercalate (σ.fs.dirs.map showStr)))
  | ["fnew"] => ({ σ with f := ⟨.getInfo, 0, 0, 0, .typed []⟩ }, "ok")
  | ["finfo", nbr, crc] =>
    match nbr.toNat?, crc.toNat? with
    | some nbr, some crc =>
      match fetcherStep ⟨σ.fs, σ.cache, σ.f⟩ (.info nbr crc) with
      | .ok (w, outs) => ({ fs := w.fs, cache := w.cache, f := w.f }, "ok " ++ showOuts outs)
      | .error .exc => (σ, "exc")
      | .error .unmodelled => (σ, "unmodelled")
    | _, _ => (σ, "bad-op")
  | ["finfopkt", v2, hex] =>
    match (if v2 == "1" then some true else if v2 == "0" then some false else none), ofHex? hex with
    | some v2, some payload =>
      match fetcherInfoPkt ⟨σ.fs, σ.cache, σ.f⟩ v2 payload with
      | .ok (w, outs) => ({ fs := w.fs, cache := w.cache, f := w.f }, "ok " ++ showOuts outs)
      | .error .exc => (σ, "exc")
      | .error .unmodelled => (σ, "unmodelled")
    | _, _ => (σ, "bad-op")
  | ["felem", ident, e] =>
    match ident.toNat?, parseElem? e with
    | some ident, some e =>
      match fetcherStep ⟨σ.fs, σ.cache, σ.f⟩ (.elem ident e) with
      | .ok (w, outs) => ({ fs := w.fs, cache := w.cache, f := w.f }, "ok " ++ showOuts outs)
      | .error .exc => (σ, "exc")
      | .error .unmodelled => (σ, "unmodelled")
    | _, _ => (σ, "bad-op")
  | ["ftoc"] =>
    (σ, match σ.f.toc with
        | .typed t => "ok " ++ showVal (tocVal t)
        | .loaded v => "ok " ++ showVal v)
  | _ => (σ, "bad-op")

def main : IO Unit := runProto ({} : DSt) step'

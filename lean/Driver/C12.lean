/-
Driver/C12: line-protocol driver running Model/C12 against the Spec/C12 environment.

  flash <addr> <pageSize> <bufPages> <flashPages> <startPage> <override|-> <term bits|-> <image hex>
        <script|-> <seed> <inbox|-> <flash probe pages|-> <buffer probe pages|->
  upload <tid> <page> <address> <hex>                      (Cloader.upload_buffer alone)
  wflash <addr> <pageBuffer> <targetPage> <pageCount> <script|-> <inbox|->     (Cloader.write_flash alone)

script: comma separated outcomes  <exec 0|1><n|l>[:<hdr>:<data hex>]      inbox: comma separated <hdr>:<data hex>
reply:  <result> sent=<hdr:hex;..> flash=<page:hex;..> buf=<page:hex;..> left=<outcomes left> inbox=<n> late=<n>
-/
import CfVerif.Base.Proto
import CfVerif.Spec.C12
open CfVerif CfVerif.C12

def parsePkt? (s : String) : Option Pkt :=
  match s.splitOn ":" with
  | [h, d] => do
    let h ← h.toNat?
    let d ← ofHex? d
    pure ⟨h, d⟩
  | _ => none

def parsePkts? (s : String) : Option (List Pkt) :=
  if s == "-" then some [] else (s.splitOn ",").mapM parsePkt?

def parseOutcome? (s : String) : Option Outcome :=
  match s.splitOn ":" with
  | [f] => flags f none
  | [f, h, d] => do
    let p ← parsePkt? (h ++ ":" ++ d)
    flags f (some p)
  | _ => none
where
  flags (f : String) (r : Option Pkt) : Option Outcome :=
    match f.toList with
    | ['0', 'n'] => some ⟨false, r, false⟩
    | ['1', 'n'] => some ⟨true, r, false⟩
    | ['0', 'l'] => some ⟨false, r, true⟩
    | ['1', 'l'] => some ⟨true, r, true⟩
    | _ => none

def parseScript? (s : String) : Option (List Outcome) :=
  if s == "-" then some [] else (s.splitOn ",").mapM parseOutcome?

def parseBits? (s : String) : Option (List Bool) :=
  if s == "-" then some [] else s.toList.mapM fun c => if c == '1' then some true else if c == '0' then some false else none

def parseOptInt? (s : String) : Option (Option Int) :=
  if s == "-" then some none else s.toInt?.map some

def showPkt (p : Pkt) : String := s!"{p.hdr}:{toHex p.data}"
def showPkts (l : List Pkt) : String := if l.isEmpty then "-" else ";".intercalate (l.map showPkt)

def showRes : Res → String
  | .done => "done"
  | .notEnoughSpace => "nospace"
  | .terminated => "terminated"
  | .flashFailed c => s!"failed:{c}"
  | .exc e => s!"err:{e}"

def initTarget (seed : Nat) : Target :=
  { buf := fun q o => UInt8.ofNat ((q * 3 + o * 5 + seed + 101) % 253),
    flash := fun q o => UInt8.ofNat ((q * 7 + o * 13 + seed) % 251) }

def showPages (mem : Nat → Nat → UInt8) (ps : Nat) (pages : List Nat) : String :=
  if pages.isEmpty then "-" else
    ";".intercalate (pages.map fun q => s!"{q}:{toHex ((List.range ps).map (mem q))}")

def tidOf (addr : Int) : Nat := addr.toNat

/-- a peer that swallows everything (for `upload`) -/
def nullPeer : Peer Unit := { onSend := fun s _ => (s, []), onWaitDone := fun s => (s, []) }

/-! ### histories: several loaders / connections / copters -/

def parseCTarget? (seed : Nat) (ci : Nat) (s : String) : Option CTarget :=
  match (s.splitOn ":").mapM String.toNat? with
  | some [tid, ps, bp, fp, sp] =>
    some { tid := tid, geom := { addr := tid, pageSize := ps, bufferPages := bp, flashPages := fp, startPage := sp },
           mem := initTarget (seed + tid + 17 * ci) }
  | _ => none

def parseCopter? (seed : Nat) (ci : Nat) (s : String) : Option Copter :=
  match s.splitOn "/" with
  | [proto, script, tgts] => do
    let proto ← if proto == "-" then some none else proto.toNat?.map some
    let script ← parseScript? script
    let ts ← (tgts.splitOn ",").mapM (parseCTarget? seed ci)
    pure { targets := ts, proto := proto, infoScript := script, lateQ := [] }
  | _ => none

def parseHOp? (s : String) : Option HOp :=
  match s.toList with
  | ['n'] => some .new
  | 'o' :: r => match ((String.ofList r).splitOn ":").mapM String.toNat? with
    | some [k, c] => some (.openLink k c) | _ => none
  | 'x' :: r => (String.ofList r).toNat?.map .closeLink
  | 'u' :: r => match ((String.ofList r).splitOn ":").mapM String.toNat? with
    | some [k, t] => some (.update k t) | _ => none
  | 'r' :: r => match ((String.ofList r).splitOn ":").mapM String.toNat? with
    | some [k, t] => some (.request k t) | _ => none
  | 'c' :: r => (String.ofList r).toNat?.map .check
  | 'f' :: r => match (String.ofList r).splitOn ":" with
    | [k, key, img, ov] => do
      let k ← k.toNat?
      let key ← key.toNat?
      let img ← ofHex? img
      let ov ← parseOptInt? ov
      pure (.flash k key img ov)
    | _ => none
  | _ => none

def showGeom (g : Geom) : String := s!"{g.addr},{g.pageSize},{g.bufferPages},{g.flashPages},{g.startPage}"

def showHRes : HRes → String
  | .unit => "ok" | .bool b => if b then "true" else "false" | .geom g => s!"geom:{showGeom g}"
  | .res r => showRes r | .err e => s!"err:{e}" | .stepBound => "step-bound" | .badOp => "bad-op"

def loaderOf : HOp → Option Nat
  | .new => none | .openLink k _ => some k | .closeLink k => some k | .update k _ => some k
  | .request k _ => some k | .check k => some k | .flash k _ _ _ => some k

def sentOf (w : World) (k : Option Nat) : List Pkt :=
  match k with
  | none => []
  | some k => match w.loaders[k]? with
    | some ls => match ls.ld.link with | some L => L.sent | none => []
    | none => []

/-- run the history; per operation: result and the packets transmitted during it -/
def runHist (fuel : Nat) : World → List HOp → List String → World × List String
  | w, [], acc => (w, acc.reverse)
  | w, op :: ops, acc =>
    let before := match op with | .openLink _ _ => [] | _ => sentOf w (loaderOf op)
    let r := w.step true fuel op
    let after := match op with | .openLink _ _ | .closeLink _ => [] | _ => sentOf r.1 (loaderOf op)
    runHist fuel r.1 ops (s!"{showHRes r.2}@{showPkts (after.drop before.length)}" :: acc)

/-- current state of copter `c` (held by a link or in the world) -/
def copterNow (w : World) (c : Nat) : Option Copter :=
  match w.loaders.find? (fun ls => ls.conn == some c && ls.ld.link.isSome) with
  | some ls => ls.ld.link.map (·.st)
  | none => w.copters[c]?

def showProbe (w : World) (s : String) : String :=
  match (s.splitOn ":").mapM String.toNat? with
  | some [c, tid, page] =>
    match (copterNow w c).bind (·.find tid) with
    | some ct => s!"{c}:{tid}:{page}:{toHex ((List.range ct.geom.pageSize).map (ct.mem.flash page))}"
    | none => s!"{c}:{tid}:{page}:?"
  | _ => "?"

def step (_ : Unit) (ws : List String) : Unit × String :=
  match ws with
  | ["hist", fuel, seed, copters, ops, probes] =>
    match fuel.toNat?, seed.toNat? with
    | some fuel, some seed =>
      match ((copters.splitOn ";").zipIdx.mapM fun (x : String × Nat) => parseCopter? seed x.2 x.1),
            (if ops == "-" then some [] else (ops.splitOn ";").mapM parseHOp?) with
      | some cs, some ops =>
        let r := runHist fuel { copters := cs, loaders := [] } ops []
        let pr := if probes == "-" then "-" else ";".intercalate ((probes.splitOn ",").map (showProbe r.1))
        ((), "|".intercalate r.2 ++ " flash=" ++ pr)
      | _, _ => ((), "bad-op")
    | _, _ => ((), "bad-op")
  | ["flash", addr, ps, bp, fp, sp, ov, term, img, script, seed, inbox, fprobe, bprobe] =>
    match addr.toInt?, ps.toNat?, bp.toNat?, fp.toNat?, sp.toNat?, parseOptInt? ov, parseBits? term, ofHex? img,
          parseScript? script, seed.toNat?, parsePkts? inbox, parseNatList? fprobe, parseNatList? bprobe with
    | some addr, some ps, some bp, some fp, some sp, some ov, some term, some img, some script, some seed,
      some inbox, some fprobe, some bprobe =>
      let g : Geom := { addr := addr, pageSize := ps, bufferPages := bp, flashPages := fp, startPage := sp }
      let L : Link Env := { st := { tgt := initTarget seed, script := script, lateQ := [] }, inbox := inbox, sent := [] }
      let r := internalFlash (targetPeer (tidOf addr)) L g img ov term
      ((), s!"{showRes r.2} sent={showPkts r.1.sent} flash={showPages r.1.st.tgt.flash ps fprobe} buf={showPages r.1.st.tgt.buf ps bprobe} left={r.1.st.script.length} inbox={r.1.inbox.length} late={r.1.st.lateQ.length}")
    | _, _, _, _, _, _, _, _, _, _, _, _, _ => ((), "bad-op")
  | ["upload", tid, page, address, buff] =>
    match tid.toInt?, page.toNat?, address.toNat?, ofHex? buff with
    | some tid, some page, some address, some buff =>
      let L : Link Unit := { st := (), inbox := [], sent := [] }
      let r := uploadBuffer nullPeer L tid page address buff
      let res := match r.2 with | .ok _ => "ok" | .error e => s!"err:{e}"
      ((), s!"{res} sent={showPkts r.1.sent}")
    | _, _, _, _ => ((), "bad-op")
  | ["uploadobj", tid, page, address, buff] =>      -- upload_buffer against a link that serialises the packet objects late
    match tid.toInt?, page.toNat?, address.toNat?, ofHex? buff with
    | some tid, some page, some address, some buff =>
      let r := uploadBufferObj ⟨[], none, []⟩ tid page address buff
      let res := match r.2 with | .ok _ => "ok" | .error e => s!"err:{e}"
      ((), s!"{res} sent={showPkts (r.1.flush.air.map fun d => ⟨bootHdr, d⟩)}")
    | _, _, _, _ => ((), "bad-op")
  | ["wflash", addr, pb, tp, pc, script, inbox] =>
    match addr.toInt?, pb.toInt?, tp.toInt?, pc.toInt?, parseScript? script, parsePkts? inbox with
    | some addr, some pb, some tp, some pc, some script, some inbox =>
      let L : Link Env := { st := { tgt := initTarget 0, script := script, lateQ := [] }, inbox := inbox, sent := [] }
      let r := writeFlash (targetPeer (tidOf addr)) L addr pb tp pc
      let res := match r.2 with
        | .ok (b, c) => s!"{if b then "true" else "false"}:{c}"
        | .error e => s!"err:{e}"
      ((), s!"{res} sent={showPkts r.1.sent} left={r.1.st.script.length} inbox={r.1.inbox.length} late={r.1.st.lateQ.length}")
    | _, _, _, _, _, _ => ((), "bad-op")
  | _ => ((), "bad-op")

def main : IO Unit := runProto () step

/-
Driver/C12: line-protocol driver running Model/C12 against the Spec/C12 environment.

  flash <addr> <pageSize> <bufPages> <flashPages> <startPage> <override|-> <term bits|-> <image hex>
        <script|-> <seed> <inbox|-> <flash probe pages|-> <buffer probe pages|->
  upload <tid> <page> <address> <hex>                      (Cloader.upload_buffer alone)
  wflash <addr> <pageBuffer> <targetPage> <pageCount> <script|-> <inbox|->     (Cloader.write_flash alone)

script: comma separated outcomes  <exec 0|1><n|l>[:<hdr>:<data hex>]      inbox: comma separated <hdr>:<data hex>
reply:  <result> sent=<hdr:hex;..> flash=<page:hex;..> buf=<page:hex;..> left=<outcomes left> inbox=<n> late=<n>
-/
import CfVerif.Base.Proto
import CfVerif.Spec.C12
open CfVerif CfVerif.C12

def parsePkt? (s : String) : Option Pkt :=
  match s.splitOn ":" with
  | [h, d] => do
    let h ← h.toNat?
    let d ← ofHex? d
    pure ⟨h, d⟩
  | _ => none

def parsePkts? (s : String) : Option (List Pkt) :=
  if s == "-" then some [] else (s.splitOn ",").mapM parsePkt?

def parseOutcome? (s : String) : Option Outcome :=
  match s.splitOn ":" with
  | [f] => flags f none
  | [f, h, d] => do
    let p ← parsePkt? (h ++ ":" ++ d)
    flags f (some p)
  | _ => none
where
  flags (f : String) (r : Option Pkt) : Option Outcome :=
    match f.toList with
    | ['0', 'n'] => some ⟨false, r, false⟩
    | ['1', 'n'] => some ⟨true, r, false⟩
    | ['0', 'l'] => some ⟨false, r, true⟩
    | ['1', 'l'] => some ⟨true, r, true⟩
    | _ => none

def parseScript? (s : String) : Option (List Outcome) :=
  if s == "-" then some [] else (s.splitOn ",").mapM parseOutcome?

def parseBits? (s : String) : Option (List Bool) :=
  if s == "-" then some [] else s.toList.mapM fun c => if c == '1' then some true else if c == '0' then some false else none

def parseOptInt? (s : String) : Option (Option Int) :=
  if s == "-" then some none else s.toInt?.map some

def showPkt (p : Pkt) : String := s!"{p.hdr}:{toHex p.data}"
def showPkts (l : List Pkt) : String := if l.isEmpty then "-" else ";".intercalate (l.map showPkt)

def showRes : Res → String
  | .done => "done"
  | .notEnoughSpace => "nospace"
  | .terminated => "terminated"
  | .flashFailed c => s!"failed:{c}"
  | .exc e => s!"err:{e}"

def initTarget (seed : Nat) : Target :=
  { buf := fun q o => UInt8.ofNat ((q * 3 + o * 5 + seed + 101) % 253),
    flash := fun q o => UInt8.ofNat ((q * 7 + o * 13 + seed) % 251) }

def showPages (mem : Nat → Nat → UInt8) (ps : Nat) (pages : List Nat) : String :=
  if pages.isEmpty then "-" else
    ";".intercalate (pages.map fun q => s!"{q}:{toHex ((List.range ps).map (mem q))}")

def tidOf (addr : Int) : Nat := addr.toNat

/-- a peer that swallows everything (for `upload`) -/
def nullPeer : Peer Unit := { onSend := fun s _ => (s, []), onWaitDone := fun s => (s, []) }

def step (_ : Unit) (ws : List String) : Unit × String :=
  match ws with
  | ["flash", addr, ps, bp, fp, sp, ov, term, img, script, seed, inbox, fprobe, bprobe] =>
    match addr.toInt?, ps.toNat?, bp.toNat?, fp.toNat?, sp.toNat?, parseOptInt? ov, parseBits? term, ofHex? img,
          parseScript? script, seed.toNat?, parsePkts? inbox, parseNatList? fprobe, parseNatList? bprobe with
    | some addr, some ps, some bp, some fp, some sp, some ov, some term, some img, some script, some seed,
      some inbox, some fprobe, some bprobe =>
      let g : Geom := { addr := addr, pageSize := ps, bufferPages := bp, flashPages := fp, startPage := sp }
      let L : Link Env := { st := { tgt := initTarget seed, script := script, lateQ := [] }, inbox := inbox, sent := [] }
      let r := internalFlash (targetPeer (tidOf addr)) L g img ov term
      ((), s!"{showRes r.2} sent={showPkts r.1.sent} flash={showPages r.1.st.tgt.flash ps fprobe} buf={showPages r.1.st.tgt.buf ps bprobe} left={r.1.st.script.length} inbox={r.1.inbox.length} late={r.1.st.lateQ.length}")
    | _, _, _, _, _, _, _, _, _, _, _, _, _ => ((), "bad-op")
  | ["upload", tid, page, address, buff] =>
    match tid.toInt?, page.toNat?, address.toNat?, ofHex? buff with
    | some tid, some page, some address, some buff =>
      let L : Link Unit := { st := (), inbox := [], sent := [] }
      let r := uploadBuffer nullPeer L tid page address buff
      let res := match r.2 with | .ok _ => "ok" | .error e => s!"err:{e}"
      ((), s!"{res} sent={showPkts r.1.sent}")
    | _, _, _, _ => ((), "bad-op")
  | ["wflash", addr, pb, tp, pc, script, inbox] =>
    match addr.toInt?, pb.toInt?, tp.toInt?, pc.toInt?, parseScript? script, parsePkts? inbox with
    | some addr, some pb, some tp, some pc, some script, some inbox =>
      let L : Link Env := { st := { tgt := initTarget 0, script := script, lateQ := [] }, inbox := inbox, sent := [] }
      let r := writeFlash (targetPeer (tidOf addr)) L addr pb tp pc
      let res := match r.2 with
        | .ok (b, c) => s!"{if b then "true" else "false"}:{c}"
        | .error e => s!"err:{e}"
      ((), s!"{res} sent={showPkts r.1.sent} left={r.1.st.script.length} inbox={r.1.inbox.length} late={r.1.st.lateQ.length}")
    | _, _, _, _, _, _ => ((), "bad-op")
  | _ => ((), "bad-op")

def main : IO Unit := runProto () step

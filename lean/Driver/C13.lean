/- Line-protocol driver for the C13 model.  Run: `lean --run Driver/C13.lean < ops` (LEAN_PATH set). -/
import CfVerif.Base.Proto
import CfVerif.Model.C13
open CfVerif CfVerif.C13

def showNum : Num → String
  | .int v => s!"int:{v}"
  | .f32 b => s!"f32:{b}"

def step (_ : Unit) (ws : List String) : Unit × String :=
  let r : String :=
    match ws with
    | ["fp16", v] =>
      match v.toInt? with
      | some v => showExcept showNum (fp16ToFloat v)
      | none => "bad-op"
    | ["fp16live", v] =>
      match v.toInt? with
      | some v => showExcept showNum (fp16ToFloatLive v)
      | none => "bad-op"
    | _ => "bad-op"
  ((), r)

def main : IO Unit := runProto () step

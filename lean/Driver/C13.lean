/- Line-protocol driver for the C13 model.  Run: `lean --run Driver/C13.lean < ops` (LEAN_PATH set). -/
import CfVerif.Base.Proto
import CfVerif.Model.C13
open CfVerif CfVerif.C13

def showNum : Num → String
  | .int v => s!"int:{v}"
  | .f32 b => s!"f32:{b}"

def parseQ? (s : String) : Option Q :=
  match s.splitOn "/" with
  | [a, b] => do
    let n ← a.toInt?
    let d ← b.toNat?
    if d = 0 then none else pure ⟨n, d⟩
  | _ => none

def parseQs? (s : String) : Option (List Q) :=
  if s == "-" then some [] else (s.splitOn ",").mapM parseQ?

def parseColon? (s : String) : Option (List Int) := (s.splitOn ":").mapM String.toInt?

def parseLeds? (s : String) : Option (List Led) :=
  if s == "-" then some [] else
  (s.splitOn ",").mapM fun w =>
    match parseColon? w with
    | some [r, g, b, .ofNat i] => some ⟨r, g, b, i⟩
    | _ => none

def parseTimings? (s : String) : Option (List Timing) :=
  if s == "-" then some [] else
  (s.splitOn ",").mapM fun w =>
    match parseColon? w with
    | some [t, r, g, b, leds, fade, rot] =>
      if fade = 0 ∨ fade = 1 then some ⟨t, r, g, b, leds, fade = 1, rot⟩ else none
    | _ => none

def showAngle : Angle → String
  | .base b => s!"b{b}"
  | .sub b n => s!"s{b}:{showNum n}"

def showDecoded : Decoded → String
  | .none => "none"
  | .ranges d =>
    let sorted := d.toArray.qsort (fun a b => a.1 < b.1) |>.toList
    "ranges " ++ (if sorted.isEmpty then "-" else ",".intercalate (sorted.map fun e => s!"{e.1}:{e.2}"))
  | .persist b => s!"persist {if b then 1 else 0}"
  | .lhAngle bs x y => s!"lh {bs} {";".intercalate (x.map showAngle)} {";".intercalate (y.map showAngle)}"

def showIncoming : Incoming → String
  | .dropped => "dropped"
  | .packet t d dec => s!"{t} {toHex d} {showDecoded dec}"

def showComps (l : List QComp) : String :=
  if l.isEmpty then "-" else ",".intercalate (l.map fun c => s!"{c.idx}:{if c.neg then 1 else 0}:{c.mag}")

def parseElem? (s : String) : Option (Except PyErr TrajElem) :=
  match s.splitOn "|" with
  | ["S", x, y, z, w] => do
    let x ← parseQ? x; let y ← parseQ? y; let z ← parseQ? z; let w ← parseQ? w
    pure (.ok (.start ⟨x, y, z, w⟩))
  | ["G", d, x, y, z, w] => do
    let d ← parseQ? d; let x ← parseQs? x; let y ← parseQs? y; let z ← parseQs? z; let w ← parseQs? w
    pure ((SegObj.new d x y z w).map TrajElem.seg)
  | _ => none

def showRes (r : Except PyErr (List UInt8)) : String :=
  match r with
  | .ok b => toHex b
  | .error e => s!"E:{e}"

def showResults (rs : List (Except PyErr (List UInt8))) : String :=
  if rs.isEmpty then "-" else ";".intercalate (rs.map showRes)

def parseLedOp? (w : String) : Option LedOp :=
  match w.toList with
  | ['w'] => some .write
  | 's' :: r =>
    match (String.ofList r).splitOn ":" with
    | [i, a, b, c, it] => do
      let i ← i.toNat?; let a ← a.toInt?; let b ← b.toInt?; let c ← c.toInt?
      if it == "-" then pure (.set i a b c none) else do
        let n ← it.toNat?
        pure (.set i a b c (some n))
    | _ => none
  | 'i' :: r =>
    match (String.ofList r).splitOn ":" with
    | [i, v] => do pure (.intensity (← i.toNat?) (← v.toNat?))
    | _ => none
  | _ => none

def parseTimingOp? (w : String) : Option TimingOp :=
  match w.toList with
  | ['w'] => some .write
  | 'a' :: r =>
    match parseColon? (String.ofList r) with
    | some [t, a, b, c, leds, fade, rot] => if fade = 0 ∨ fade = 1 then some (.add ⟨t, a, b, c, leds, fade = 1, rot⟩) else none
    | _ => none
  | _ => none

def vec4 (a b c d : Int) : Fin 4 → Int := fun i => [a, b, c, d].getD i.val 0

def step (_ : Unit) (ws : List String) : Unit × String :=
  let r : String :=
    match ws with
    | ["fp16", v] =>
      match v.toInt? with
      | some v => showExcept showNum (fp16ToFloat v)
      | none => "bad-op"
    | ["fp16live", v] =>
      match v.toInt? with
      | some v => showExcept showNum (fp16ToFloatLive v)
      | none => "bad-op"
    | ["cq", a, b, c, d] =>
      match a.toInt?, b.toInt?, c.toInt?, d.toInt? with
      | some a, some b, some c, some d => showExcept toString (compressInt (vec4 a b c d))
      | _, _, _, _ => "bad-op"
    | ["dq", c] =>
      match c.toNat? with
      | some c => showExcept (fun p => s!"{p.1} {showComps p.2}") (decompressParts c)
      | none => "bad-op"
    | ["spatial", q] =>
      match parseQ? q with
      | some q => showExcept toString (encodeSpatial q)
      | none => "bad-op"
    | ["yaw", q] =>
      match parseQ? q with
      | some q => showExcept toString (encodeYawDeg q)
      | none => "bad-op"
    | ["start", x, y, z, w] =>
      match parseQ? x, parseQ? y, parseQ? z, parseQ? w with
      | some x, some y, some z, some w => showExcept toHex (packStart x y z w)
      | _, _, _, _ => "bad-op"
    | ["segment", d, x, y, z, w] =>
      match parseQ? d, parseQs? x, parseQs? y, parseQs? z, parseQs? w with
      | some d, some x, some y, some z, some w => showExcept toHex (packSegment d x y z w)
      | _, _, _, _, _ => "bad-op"
    | ["led", ls] =>
      match parseLeds? ls with
      | some ls => showExcept toHex (ledWriteData ls)
      | none => "bad-op"
    | ["ledt", ts] =>
      match parseTimings? ts with
      | some ts => showExcept toHex (timingsWriteData ts)
      | none => "bad-op"
    | ["inc", raw] =>
      match ofHex? raw with
      | some b => showExcept showIncoming (incoming b)
      | none => "bad-op"
    | ["packhist", e, n] =>
      match parseElem? e, n.toNat? with
      | some (.ok e), some n => s!"ok {showResults (packN e n).2}"
      | some (.error err), some _ => s!"err {err}"
      | _, _ => "bad-op"
    | ["trajhist", n, els] =>
      match n.toNat?, (els.splitOn "+").mapM parseElem? with
      | some n, some es =>
        match es.mapM id with
        | .ok es => s!"ok {showResults (uploadN es n).2}"
        | .error err => s!"err {err}"
      | _, _ => "bad-op"
    | ["ledhist", ops] =>
      match (ops.splitOn ",").mapM parseLedOp? with
      | some ops => s!"ok {showResults (ledRun ledInit ops)}"
      | none => "bad-op"
    | ["ledthist", ops] =>
      match (ops.splitOn ",").mapM parseTimingOp? with
      | some ops => s!"ok {showResults (timingRun [] ops)}"
      | none => "bad-op"
    | ["inchist", raws] =>
      match (raws.splitOn ",").mapM ofHex? with
      | some ps => " | ".intercalate ((incomingAll ps).map (showExcept showIncoming))
      | none => "bad-op"
    | ["bitop", op, a, b] =>      -- self-test of the Gen prelude against Python's int operators
      match a.toInt?, b.toInt? with
      | some a, some b =>
        match op with
        | "and" => s!"ok {Gen.C13.pyAnd a b}"
        | "or" => s!"ok {Gen.C13.pyOr a b}"
        | "xor" => s!"ok {Gen.C13.pyXor a b}"
        | "shl" => match b with | .ofNat k => s!"ok {Gen.C13.shl a k}" | _ => "bad-op"
        | "shr" => match b with | .ofNat k => s!"ok {Gen.C13.shr a k}" | _ => "bad-op"
        | "not" => s!"ok {Gen.C13.pyNot a}"
        | _ => "bad-op"
      | _, _ => "bad-op"
    | _ => "bad-op"
  ((), r)

def main : IO Unit := runProto () step

/- Line-protocol driver for the C14 model.  Run: `lean --run Driver/C14.lean < ops` (LEAN_PATH set). -/
import CfVerif.Base.Proto
import CfVerif.Model.C14
open CfVerif CfVerif.C14

def b01 (b : Bool) : String := if b then "1" else "0"

def parseOptInt? (s : String) : Option (Option Int) :=
  if s == "none" then some none else s.toInt?.map some

def showI2C (r : I2CParsed) : String :=
  let f := match r.fields with
    | none => "-"
    | some (v, ch, sp, p, q) => s!"{v},{ch},{sp},{p},{q}"
  let a := match r.address with
    | none => "-"
    | some a => toString a
  s!"f={f} a={a} v={b01 r.valid} c={b01 r.called}"

def step (_ : Unit) (ws : List String) : Unit × String :=
  let r : String :=
    match ws with
    | ["i2c_write", v, ch, sp, p, q, a] =>
      match v.toInt?, ch.toInt?, sp.toInt?, p.toNat?, q.toNat?, parseOptInt? a with
      | some v, some ch, some sp, some p, some q, some a =>
        showExcept toHex (i2cImage { version := v, channel := ch, speed := sp, pitch := p, roll := q, address := a })
      | _, _, _, _, _, _ => "bad-op"
    | ["i2c_parse", mem] =>
      match ofHex? mem with
      | some m => showExcept showI2C (i2cUpdate m)
      | none => "bad-op"
    | _ => "bad-op"
  ((), r)

def main : IO Unit := runProto () step

/- Line-protocol driver for the C14 model.  Run: `lean --run Driver/C14.lean < ops` (LEAN_PATH set). -/
import CfVerif.Base.Proto
import CfVerif.Model.C14
open CfVerif CfVerif.C14

def b01 (b : Bool) : String := if b then "1" else "0"

def parseOptInt? (s : String) : Option (Option Int) :=
  if s == "none" then some none else s.toInt?.map some

def showI2C (r : I2CParsed) : String :=
  let f := match r.fields with
    | none => "-"
    | some (v, ch, sp, p, q) => s!"{v},{ch},{sp},{p},{q}"
  let a := match r.address with
    | none => "-"
    | some a => toString a
  s!"f={f} a={a} V={b01 r.valid} C={b01 r.called}"

def parseCps? (s : String) : Option (List Nat) :=
  if s == "" then some [] else (s.splitOn ".").mapM String.toNat?

def parseOwElems? (s : String) : Option (Dict (List Nat)) :=
  if s == "-" then some [] else
  (s.splitOn ",").mapM fun w =>
    match w.splitOn ":" with
    | [k, v] => do pure ((← k.toNat?), (← parseCps? v))
    | _ => none

def showOw (r : OWParsed) : String :=
  let es := if r.elements.isEmpty then "-" else
    ",".intercalate (r.elements.map fun (k, v) => s!"{k}:{toHex v}")
  s!"p={r.pins} v={r.vid} i={r.pid} e={es} V={b01 r.valid} C={b01 r.called}"

def step (_ : Unit) (ws : List String) : Unit × String :=
  let r : String :=
    match ws with
    | ["i2c_write", v, ch, sp, p, q, a] =>
      match v.toInt?, ch.toInt?, sp.toInt?, p.toNat?, q.toNat?, parseOptInt? a with
      | some v, some ch, some sp, some p, some q, some a =>
        showExcept toHex (i2cImage { version := v, channel := ch, speed := sp, pitch := p, roll := q, address := a })
      | _, _, _, _, _, _ => "bad-op"
    | ["i2c_parse", mem] =>
      match ofHex? mem with
      | some m => showExcept showI2C (i2cUpdate m)
      | none => "bad-op"
    | ["crc32", d] =>
      match ofHex? d with
      | some b => s!"ok {crc32 b}"
      | none => "bad-op"
    | ["ow_write", pins, vid, pid, es] =>
      match pins.toInt?, vid.toInt?, pid.toInt?, parseOwElems? es with
      | some pins, some vid, some pid, some es => showExcept toHex (owImage { pins, vid, pid, elements := es })
      | _, _, _, _ => "bad-op"
    | ["ow_parse", mem] =>
      match ofHex? mem with
      | some m => showExcept showOw (owUpdate m)
      | none => "bad-op"
    | ["ow_parse_live", mem] =>
      match ofHex? mem with
      | some m => showExcept showOw (owUpdateLive m)
      | none => "bad-op"
    | _ => "bad-op"
  ((), r)

def main : IO Unit := runProto () step

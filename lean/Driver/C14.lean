/- Line-protocol driver for the C14 model.  Run: `lean --run Driver/C14.lean < ops` (LEAN_PATH set). -/
import CfVerif.Base.Proto
import CfVerif.Model.C14
open CfVerif CfVerif.C14

def b01 (b : Bool) : String := if b then "1" else "0"

def parseOptInt? (s : String) : Option (Option Int) :=
  if s == "none" then some none else s.toInt?.map some

def showI2C (r : I2CParsed) : String :=
  let f := match r.fields with
    | none => "-"
    | some (v, ch, sp, p, q) => s!"{v},{ch},{sp},{p},{q}"
  let a := match r.address with
    | none => "-"
    | some a => toString a
  s!"f={f} a={a} V={b01 r.valid} C={b01 r.called}"

def parseCps? (s : String) : Option (List Nat) :=
  if s == "" then some [] else (s.splitOn ".").mapM String.toNat?

def parseOwElems? (s : String) : Option (Dict (List Nat)) :=
  if s == "-" then some [] else
  (s.splitOn ",").mapM fun w =>
    match w.splitOn ":" with
    | [k, v] => do pure ((← k.toNat?), (← parseCps? v))
    | _ => none

def showOw (r : OWParsed) : String :=
  let es := if r.elements.isEmpty then "-" else
    ",".intercalate (r.elements.map fun (k, v) => s!"{k}:{toHex v}")
  s!"p={r.pins} v={r.vid} i={r.pid} e={es} V={b01 r.valid} C={b01 r.called}"

def parseDots? (s : String) : Option (List Nat) :=
  if s == "-" then some [] else (s.splitOn ".").mapM String.toNat?

def geoOf? (f : List Nat) (v : Nat) : Option Geo :=
  match f with
  | [a, b, c, d, e, f, g, h, i, j, k, l] => some ⟨⟨a, b, c⟩, ⟨d, e, f⟩, ⟨g, h, i⟩, ⟨j, k, l⟩, v ≠ 0⟩
  | _ => none

def calibOf? (f : List Nat) (uid : Int) (v : Nat) : Option Calib :=
  match f with
  | [a, b, c, d, e, f, g, h, i, j, k, l, m, n] => some ⟨⟨a, b, c, d, e, f, g⟩, ⟨h, i, j, k, l, m, n⟩, uid, v ≠ 0⟩
  | _ => none

def dots (l : List Nat) : String := ".".intercalate (l.map toString)

def showV3 (v : V3) : List Nat := [v.x, v.y, v.z]
def showGeo (g : Geo) : String :=
  s!"{dots (showV3 g.origin ++ showV3 g.r0 ++ showV3 g.r1 ++ showV3 g.r2)}/{b01 g.valid}"
def showSweep (s : Sweep) : List Nat := [s.phase, s.tilt, s.curve, s.gibmag, s.gibphase, s.ogeemag, s.ogeephase]
def showCalib (c : Calib) : String := s!"{dots (showSweep c.s0 ++ showSweep c.s1)}/{c.uid}/{b01 c.valid}"
def showLhObj : LhObj → String
  | .geo g => "geo " ++ showGeo g
  | .calib c => "calib " ++ showCalib c
def showRes {α} (f : α → String) : Except PyErr α → String
  | .ok a => f a
  | .error e => s!"E:{e}"

def parseGeos? (s : String) : Option (List (Nat × Geo)) :=
  if s == "-" then some [] else
  (s.splitOn ",").mapM fun w =>
    match w.splitOn "/" with
    | [bs, f, v] => do pure ((← bs.toNat?), (← geoOf? (← parseDots? f) (← v.toNat?)))
    | _ => none

def parseCalibs? (s : String) : Option (List (Nat × Calib)) :=
  if s == "-" then some [] else
  (s.splitOn ",").mapM fun w =>
    match w.splitOn "/" with
    | [bs, f, uid, v] => do pure ((← bs.toNat?), (← calibOf? (← parseDots? f) (← uid.toInt?) (← v.toNat?)))
    | _ => none

def showDeck (p : Nat × DeckInfo) : String :=
  let d := p.2
  s!"{p.1}:{d.bf1}:{d.bf2}:{d.requiredHash}:{d.requiredLength}:{d.baseAddress}:{d.cmdBase}:{dots d.name}:{"".intercalate (d.flags.map b01)}"

def showDeckResult : DeckResult → String
  | .decks l => "decks " ++ (if l.isEmpty then "-" else ";".intercalate (l.map showDeck))
  | .unsupported v => s!"unsupported {v}"

def showAnchor (a : Anchor) : String := s!"{a.pos.x}.{a.pos.y}.{a.pos.z}.{b01 a.valid}"

def showLoco (r : LocoParsed) : String :=
  s!"n={r.nr} a={if r.anchors.isEmpty then "-" else ";".intercalate (r.anchors.map showAnchor)} V={b01 r.valid}"

def loco2All (m : Mem) : Except PyErr String := do
  let ids ← loco2IdList m
  let act ← loco2ActiveIdList m
  let (_, d) ← loco2Update m
  pure s!"ids={showNatList ids} act={showNatList act} data={if d.isEmpty then "-" else ";".intercalate (d.map fun (k, a) => s!"{k}:{showAnchor a}")}"

def parseTimings? (s : String) : Option (List LedTiming) :=
  if s == "-" then some [] else
  (s.splitOn ";").mapM fun w =>
    match parseDots? w with
    | some [t, r, g, b, l, f, ro] => some ⟨t, r, g, b, l, f, ro⟩
    | _ => none

def parsePolys? (s : String) : Option (List (List Nat × List Nat × List Nat × List Nat × Nat)) :=
  if s == "-" then some [] else
  (s.splitOn ";").mapM fun w =>
    match w.splitOn "/" with
    | [x, y, z, yaw, d] => do pure ((← parseDots? x), (← parseDots? y), (← parseDots? z), (← parseDots? yaw), (← d.toNat?))
    | _ => none

/-! histories on one long-lived object: steps `u:<mem>` (update, both reads from <mem>), `x:<mem0>:<mem1>` (the memory
changes after the first read), `n:<addr>:<data>` (a reply nobody asked for), `w` (write_data), `d` (disconnect) -/

def showI2CObj (s : I2CObj) (called : Bool) : String :=
  let f := match s.fields with
    | none => "-"
    | some (v, ch, sp, p, q) => s!"{v},{ch},{sp},{p},{q}"
  let a := match s.address with
    | none => "-"
    | some a => toString a
  s!"f={f}|a={a}|V={b01 s.valid}|C={b01 called}|P={b01 s.pending}"

def parseHex2? (a b : String) : Option (Mem × Mem) := do pure ((← ofHex? a), (← ofHex? b))

/-- steps: `u:<mem>` (memory replaced, then update), `U` (update against the current memory), `x:<m0>:<m1>`, `n:<addr>:<data>`,
`s:<v>:<ch>:<sp>:<p>:<r>:<addr|none>` (the user assigns `elements`), `w` (write_data: the image goes into the memory), `d` -/
def i2cHist : I2CObj → Mem → List String → List String → List String
  | _, _, [], acc => acc.reverse
  | s, mem, st :: rest, acc =>
    let r : Option (Except PyErr (I2CObj × Mem × String)) :=
      match st.splitOn ":" with
      | ["u", m] => (ofHex? m).map fun m => (i2cRunUpdate s m m).map fun (s', c) => (s', m, showI2CObj s' c)
      | ["U"] => some ((i2cRunUpdate s mem mem).map fun (s', c) => (s', mem, showI2CObj s' c))
      | ["x", a, b] => (parseHex2? a b).map fun (m0, m1) => (i2cRunUpdate s m0 m1).map fun (s', c) => (s', m1, showI2CObj s' c)
      | ["n", a, d] => (do pure ((← a.toNat?), (← ofHex? d))).map fun (a, d) =>
          (i2cStep s (.newData a d)).map fun ((s', outs) : I2CObj × List MemOut) => (s', mem, showI2CObj s' (outs.contains .done) ++ s!"|R={outs.length}")
      | ["s", v, ch, sp, p, q, a] =>
        (do pure ((← v.toInt?), (← ch.toInt?), (← sp.toInt?), (← p.toNat?), (← q.toNat?), (← parseOptInt? a))).map fun (v, ch, sp, p, q, a) =>
          .ok ({ s with fields := some (v, ch, sp, p, q), address := a }, mem, "s")
      | ["w"] => some ((i2cStep s .writeData).map fun ((s', outs) : I2CObj × List MemOut) =>
          match outs with
          | [.write a d] => (s', mem.write a d, "w=" ++ toHex d)
          | _ => (s', mem, "w=?"))
      | ["d"] => some ((i2cStep s .disconnect).map fun (s', _) => (s', mem, showI2CObj s' false))
      | _ => none
    match r with
    | none => ["bad-op"]
    | some (.error e) => (s!"E:{e}" :: acc).reverse       -- an exception ends the modelled history
    | some (.ok (s', mem', out)) => i2cHist s' mem' rest (out :: acc)

def showOwObj (s : OWObj) (called : Bool) : String :=
  let o (x : Option Nat) : String := match x with | none => "-" | some n => toString n
  let es := if s.elements.isEmpty then "-" else ",".intercalate (s.elements.map fun (k, v) => s!"{k}={toHex v}")
  s!"p={o s.pins}|v={o s.vid}|i={o s.pid}|e={es}|V={b01 s.valid}|C={b01 called}|P={b01 s.pending}"

def parseOwBytesElems? (s : String) : Option (Dict (List UInt8)) :=
  if s == "-" then some [] else
  (s.splitOn ".").mapM fun w =>
    match w.splitOn "=" with
    | [k, v] => do pure ((← k.toNat?), (← ofHex? v))
    | _ => none

/-- `write_data` from the attributes of the object (pins/vid/pid None: struct.error) -/
def owObjImage (s : OWObj) : Except PyErr (List UInt8) :=
  match s.pins, s.vid, s.pid with
  | some p, some v, some i => owImage ⟨p, v, i, s.elements.map fun (k, b) => (k, b.map UInt8.toNat)⟩
  | _, _, _ => .error .structError

def owHist : OWObj → Mem → List String → List String → List String
  | _, _, [], acc => acc.reverse
  | s, mem, st :: rest, acc =>
    let r : Option (Except PyErr (OWObj × Mem × String)) :=
      match st.splitOn ":" with
      | ["u", m] => (ofHex? m).map fun m => (owRunUpdate s m m).map fun (s', c) => (s', m, showOwObj s' c)
      | ["U"] => some ((owRunUpdate s mem mem).map fun (s', c) => (s', mem, showOwObj s' c))
      | ["x", a, b] => (parseHex2? a b).map fun (m0, m1) => (owRunUpdate s m0 m1).map fun (s', c) => (s', m1, showOwObj s' c)
      | ["n", a, d] => (do pure ((← a.toNat?), (← ofHex? d))).map fun (a, d) =>
          (owStep s (.newData a d)).map fun ((s', outs) : OWObj × List MemOut) => (s', mem, showOwObj s' (outs.contains .done) ++ s!"|R={outs.length}")
      | ["s", p, v, i, es] =>
        (do pure ((← p.toNat?), (← v.toNat?), (← i.toNat?), (← parseOwBytesElems? es))).map fun (p, v, i, es) =>
          .ok ({ s with pins := some p, vid := some v, pid := some i, elements := es }, mem, "s")
      | ["w"] => some ((owObjImage s).map fun img => (s, mem.write 0 img, "w=" ++ toHex img))
      | ["d"] => some ((owStep s .disconnect).map fun (s', _) => (s', mem, showOwObj s' false))
      | _ => none
    match r with
    | none => ["bad-op"]
    | some (.error e) => (s!"E:{e}" :: acc).reverse
    | some (.ok (s', mem', out)) => owHist s' mem' rest (out :: acc)

/-! histories on one LighthouseMemHelper: `lh_hist <size> <defs> <steps>`; defs `G0=<geos>|C0=<calibs>` name the caller's dict
objects, steps (`;`-separated): `wg:<name>:<acks>` `wc:<name>:<acks>` `rg:<fails>` `rc:<fails>` `h:<size>` (another helper and memory) -/

def showObjEntry (p : Nat × LhObj) : String :=
  match p.2 with
  | .geo g => s!"{p.1}/{showGeo g}"
  | .calib c => s!"{p.1}/{showCalib c}"

def showObjDict (d : Dict LhObj) : String := if d.isEmpty then "-" else ",".intercalate (d.map showObjEntry)

def memSig (m : Mem) : String := s!"{m.length}:{crc32 m}"

structure HelperSt where
  gw : LhW
  cw : LhW
  gr : LhR
  cr : LhR
  mem : Mem
  env : List (String × Dict LhObj)

def parseAcks (s : String) : List Bool := if s == "-" then [] else s.toList.map (· == '1')

def parseDefs? (s : String) : Option (List (String × Dict LhObj)) :=
  if s == "-" then some [] else
  (s.splitOn "|").mapM fun w =>
    match w.splitOn "=" with
    | [n, v] =>
      if n.startsWith "G" then (parseGeos? v).map fun l => (n, l.map fun (b, g) => (b, LhObj.geo g))
      else (parseCalibs? v).map fun l => (n, l.map fun (b, c) => (b, LhObj.calib c))
    | _ => none

def envSet (env : List (String × Dict LhObj)) (n : String) (d : Dict LhObj) : List (String × Dict LhObj) :=
  env.map fun (k, v) => if k == n then (k, d) else (k, v)

def helperHist : HelperSt → List String → List String → List String
  | _, [], acc => acc.reverse
  | st, step :: rest, acc =>
    let r : Option (Except PyErr (HelperSt × String)) :=
      match step.splitOn ":" with
      | [w, n, a] =>
        if w == "wg" || w == "wc" then
          (st.env.lookup n).map fun d =>
            let k := if w == "wg" then LhKind.geo else LhKind.calib
            let ws := if w == "wg" then st.gw else st.cw
            (lhRunWrite k ws d st.mem (parseAcks a)).map fun (ws', m', ok) =>
              let st' := if w == "wg" then { st with gw := ws', mem := m', env := envSet st.env n ws'.caller }
                         else { st with cw := ws', mem := m', env := envSet st.env n ws'.caller }
              (st', s!"W={match ok with | some true => "1" | some false => "0" | none => "?"}|d={showObjDict ws'.caller}|m={memSig m'}")
        else none
      | [w, f] =>
        if w == "rg" || w == "rc" then
          (parseDots? f).map fun fails =>
            let k := if w == "rg" then LhKind.geo else LhKind.calib
            let rs := if w == "rg" then st.gr else st.cr
            (lhRunRead k rs st.mem fails).map fun (rs', res) =>
              let st' := if w == "rg" then { st with gr := rs' } else { st with cr := rs' }
              (st', s!"R={match res with | some r => showObjDict r | none => "?"}")
        else if w == "h" then
          f.toNat?.map fun size =>
            .ok ({ st with gw := LhW.fresh, cw := LhW.fresh, gr := LhR.fresh, cr := LhR.fresh, mem := List.replicate size 0 }, "H")
        else none
      | _ => none
    match r with
    | none => ["bad-op"]
    | some (.error e) => (s!"E:{e}" :: acc).reverse
    | some (.ok (st', out)) => helperHist st' rest (out :: acc)

def emptyGeo : LhObj := .geo ⟨⟨0, 0, 0⟩, ⟨0, 0, 0⟩, ⟨0, 0, 0⟩, ⟨0, 0, 0⟩, false⟩
def emptyCalib : LhObj := .calib ⟨⟨0, 0, 0, 0, 0, 0, 0⟩, ⟨0, 0, 0, 0, 0, 0, 0⟩, 0, false⟩

/-- `LighthouseConfigWriter.write_and_store_config(geos, calibs)` on a zeroed memory -/
def cfgWriter (size : Nat) (g c : Option (Dict LhObj)) : Except PyErr String := do
  let m0 : Mem := List.replicate size 0
  let (m1, ok1) ← match g with
    | none => pure (m0, true)
    | some d => do
      let (_, m', ok) ← lhRunWrite .geo LhW.fresh (lhPrepare d emptyGeo 16) m0 []
      pure (m', ok == some true)
  let (m2, ok2) ← match c with
    | none => pure (m1, true)
    | some d => do
      let (_, m', ok) ← lhRunWrite .calib LhW.fresh (lhPrepare d emptyCalib 16) m1 []
      pure (m', ok == some true)
  let sd (x : Option (Dict LhObj)) : String := match x with | none => "none" | some d => showObjDict d
  pure s!"S={b01 (ok1 && ok2)}|g={sd g}|c={sd c}|m={memSig m2}|p={if g.isSome then 16 else 0}.{if c.isSome then 16 else 0}"

/-! YAML values on the wire: n | t | f | i<int>; | d<bits>; | s<hex>; | L<n>;<items> | D<n>;<key><value>... -/

def takeUntilSemi (cs : List Char) : Option (String × List Char) :=
  let pre := cs.takeWhile (· != ';')
  match cs.drop pre.length with
  | ';' :: rest => some (String.ofList pre, rest)
  | _ => none

def strOfHex? (h : String) : Option String :=
  if h == "" then some "" else (ofHex? h).bind fun b => String.fromUTF8? (ByteArray.mk b.toArray)

mutual
def parseY : Nat → List Char → Option (Y × List Char)
  | 0, _ => none
  | fuel + 1, cs =>
    match cs with
    | 'n' :: r => some (.null, r)
    | 't' :: r => some (.bool true, r)
    | 'f' :: r => some (.bool false, r)
    | 'i' :: r => do let (w, r') ← takeUntilSemi r; pure (.int (← w.toInt?), r')
    | 'd' :: r => do let (w, r') ← takeUntilSemi r; pure (.flt (← w.toNat?), r')
    | 's' :: r => do let (w, r') ← takeUntilSemi r; pure (.str (← strOfHex? w), r')
    | 'L' :: r => do
      let (w, r') ← takeUntilSemi r
      let (l, r'') ← parseYs fuel (← w.toNat?) r'
      pure (.list l, r'')
    | 'D' :: r => do
      let (w, r') ← takeUntilSemi r
      let (l, r'') ← parseKVs fuel (← w.toNat?) r'
      pure (.dict l, r'')
    | _ => none
def parseYs : Nat → Nat → List Char → Option (List Y × List Char)
  | 0, _, _ => none
  | _ + 1, 0, cs => some ([], cs)
  | fuel + 1, n + 1, cs => do
    let (v, r) ← parseY fuel cs
    let (l, r') ← parseYs fuel n r
    pure (v :: l, r')
def parseKVs : Nat → Nat → List Char → Option (List (Key × Y) × List Char)
  | 0, _, _ => none
  | _ + 1, 0, cs => some ([], cs)
  | fuel + 1, n + 1, cs => do
    let (k, r) ← parseY fuel cs
    let key ← match k with
      | .null => some Key.null | .bool b => some (Key.bool b) | .int i => some (Key.int i) | .flt b => some (Key.flt b)
      | .str s => some (Key.str s) | _ => none
    let (v, r') ← parseY fuel r
    let (l, r'') ← parseKVs fuel n r'
    pure ((key, v) :: l, r'')
end

def parseY? (s : String) : Option Y :=
  match parseY (s.length + 2) s.toList with
  | some (v, []) => some v
  | _ => none

def hexOfStr (s : String) : String := if s == "" then "" else toHex s.toUTF8.toList

def showKey : Key → String
  | .null => "n" | .bool true => "t" | .bool false => "f" | .int i => s!"i{i};" | .flt b => s!"d{b};" | .str s => s!"s{hexOfStr s};"

mutual
def showY : Y → String
  | .null => "n" | .bool true => "t" | .bool false => "f" | .int i => s!"i{i};" | .flt b => s!"d{b};" | .str s => s!"s{hexOfStr s};"
  | .list l => s!"L{l.length};" ++ showYs l
  | .dict l => s!"D{l.length};" ++ showKVs l
def showYs : List Y → String
  | [] => ""
  | v :: r => showY v ++ showYs r
def showKVs : List (Key × Y) → String
  | [] => ""
  | (k, v) :: r => showKey k ++ showY v ++ showKVs r
end

def showFileErr : FileErr → String
  | .py e => toString e
  | .msg m => "msg:" ++ m.replace " " "_"

def showFE {α} (f : α → String) : Except FileErr α → String
  | .ok a => "ok " ++ f a
  | .error e => "err " ++ showFileErr e

def geosOfY? : Y → Option (List (Int × FGeo))
  | .list l => l.mapM fun
    | .list [.int i, o, r, .bool v] => some (i, ⟨o, r, v⟩)
    | _ => none
  | _ => none

def calibsOfY? : Y → Option (List (Int × FCalib))
  | .list l => l.mapM fun
    | .list [.int i, .list a, .list b, uid, .bool v] => some (i, ⟨⟨a⟩, ⟨b⟩, uid, v⟩)
    | _ => none
  | _ => none

def paramsOfY? : Y → Option (List (String × PState))
  | .list l => l.mapM fun
    | .list [.str n, a, b, c] => some (n, ⟨a, b, c⟩)
    | _ => none
  | _ => none

def showLhFile (r : List (Key × FGeo) × List (Key × FCalib) × Y) : String :=
  let g := Y.list (r.1.map fun (k, g) => .list [.dict [(k, .null)], g.origin, g.rotation, .bool g.valid])
  let c := Y.list (r.2.1.map fun (k, c) => .list [.dict [(k, .null)], .list c.s0.f, .list c.s1.f, c.uid, .bool c.valid])
  showY (.list [g, c, r.2.2])

def showParams (r : List (Key × PState)) : String :=
  showY (.list (r.map fun (k, p) => .list [.dict [(k, .null)], p.isStored, p.defaultValue, p.storedValue]))

def step (_ : Unit) (ws : List String) : Unit × String :=
  let r : String :=
    match ws with
    | ["i2c_write", v, ch, sp, p, q, a] =>
      match v.toInt?, ch.toInt?, sp.toInt?, p.toNat?, q.toNat?, parseOptInt? a with
      | some v, some ch, some sp, some p, some q, some a =>
        showExcept toHex (i2cImage { version := v, channel := ch, speed := sp, pitch := p, roll := q, address := a })
      | _, _, _, _, _, _ => "bad-op"
    | ["i2c_parse", mem] =>
      match ofHex? mem with
      | some m => showExcept showI2C (i2cUpdate m)
      | none => "bad-op"
    | ["crc32", d] =>
      match ofHex? d with
      | some b => s!"ok {crc32 b}"
      | none => "bad-op"
    | ["ow_write", pins, vid, pid, es] =>
      match pins.toInt?, vid.toInt?, pid.toInt?, parseOwElems? es with
      | some pins, some vid, some pid, some es => showExcept toHex (owImage { pins, vid, pid, elements := es })
      | _, _, _, _ => "bad-op"
    | ["ow_parse", mem] =>
      match ofHex? mem with
      | some m => showExcept showOw (owUpdate m)
      | none => "bad-op"
    | ["ow_parse_live", mem] =>
      match ofHex? mem with
      | some m => showExcept showOw (owUpdateLive m)
      | none => "bad-op"
    | ["geo_image", f, v] =>
      match (do geoOf? (← parseDots? f) (← v.toNat?)) with
      | some g => showExcept toHex (geoImage g)
      | none => "bad-op"
    | ["calib_image", f, uid, v] =>
      match (do calibOf? (← parseDots? f) (← uid.toInt?) (← v.toNat?)) with
      | some c => showExcept toHex (calibImage c)
      | none => "bad-op"
    | ["lh_new_data", addr, d] =>
      match addr.toNat?, ofHex? d with
      | some a, some d => showExcept showLhObj (lhNewData a d)
      | _, _ => "bad-op"
    | ["lh_cfg", size, gs, cs] =>
      -- write geos then calibs into a zeroed memory of `size` bytes, then read all 16 + 16 pages back
      match size.toNat?, parseGeos? gs, parseCalibs? cs with
      | some size, some gs, some cs =>
        match (do let mg ← lhWriteGeos (List.replicate size 0) gs; lhWriteCalibs mg cs) with
        | .error e => s!"err {e}"
        | .ok m =>
          let gr := (List.range Gen.C14.lhNrOfChannels).map fun bs => showRes showLhObj (lhReadGeo m bs)
          let cr := (List.range Gen.C14.lhNrOfChannels).map fun bs => showRes showLhObj (lhReadCalib m bs)
          "ok " ++ ";".intercalate (gr ++ cr)
      | _, _, _ => "bad-op"
    | ["deck_info", mem] =>
      match ofHex? mem with
      | some m => showExcept showDeckResult (deckQuery m)
      | none => "bad-op"
    | ["loco", mem] =>
      match ofHex? mem with
      | some m => showExcept showLoco (locoUpdate m)
      | none => "bad-op"
    | ["loco2", mem] =>
      match ofHex? mem with
      | some m => showExcept id (loco2All m)
      | none => "bad-op"
    | ["traj", ps] =>
      match parsePolys? ps with
      | some ps => showExcept toHex (trajImage ps)
      | none => "bad-op"
    | ["led", ts] =>
      match parseTimings? ts with
      | some ts => showExcept toHex (ledImage ts)
      | none => "bad-op"
    | ["lh_hist", size, defs, steps] =>
      match size.toNat?, parseDefs? defs with
      | some size, some env =>
        "ok " ++ ";".intercalate (helperHist ⟨LhW.fresh, LhW.fresh, LhR.fresh, LhR.fresh, List.replicate size 0, env⟩ (steps.splitOn ";") [])
      | _, _ => "bad-op"
    | ["lh_cfgw", size, gs, cs] =>
      let pg : Option (Option (Dict LhObj)) := if gs == "none" then some none else
        (parseGeos? gs).map fun l => some (l.map fun (b, g) => (b, LhObj.geo g))
      let pc : Option (Option (Dict LhObj)) := if cs == "none" then some none else
        (parseCalibs? cs).map fun l => some (l.map fun (b, c) => (b, LhObj.calib c))
      match size.toNat?, pg, pc with
      | some size, some g, some c => showExcept id (cfgWriter size g c)
      | _, _, _ => "bad-op"
    | ["i2c_hist", steps] => "ok " ++ ";".intercalate (i2cHist I2CObj.fresh [] (steps.splitOn ",") [])
    | ["ow_hist", steps] => "ok " ++ ";".intercalate (owHist OWObj.fresh [] (steps.splitOn ",") [])
    | ["yaml_canon", v] =>
      match parseY? v with
      | some y => "ok " ++ showY y.canon
      | none => "bad-op"
    | ["lh_file_rt", gs, cs, st] =>
      match (do pure ((← geosOfY? (← parseY? gs)), (← calibsOfY? (← parseY? cs)), (← parseY? st))) with
      | some (g, c, st) => showFE showLhFile (lhFileRead (lhFileDoc g c st).canon)
      | none => "bad-op"
    | ["lh_file_read", v] =>
      match parseY? v with
      | some y => showFE showLhFile (lhFileRead y.canon)
      | none => "bad-op"
    | ["pf_rt", ps] =>
      match (do paramsOfY? (← parseY? ps)) with
      | some ps => showFE showParams (paramFileRead (paramFileDoc ps).canon)
      | none => "bad-op"
    | ["pf_read", v] =>
      match parseY? v with
      | some y => showFE showParams (paramFileRead y.canon)
      | none => "bad-op"
    | _ => "bad-op"
  ((), r)

def main : IO Unit := runProto () step

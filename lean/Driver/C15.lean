/- Line-protocol driver for the C15 model, instantiated with binary64 `Float` (used ONLY for the correspondence
   against math/numpy/scipy; the theorems are about the same definitions instantiated with ℝ).
   Floats travel as decimal IEEE-754 binary64 bit patterns.
   Run: `lean --run Driver/C15.lean < ops` (LEAN_PATH set). -/
import CfVerif.Base.Proto
import CfVerif.Model.C15
open CfVerif CfVerif.C15

instance : RealOps Float where
  nat := Float.ofNat
  pi := 3.141592653589793
  sin := Float.sin
  cos := Float.cos
  tan := Float.tan
  atan := Float.atan
  asin := Float.asin
  sqrt := Float.sqrt
  atan2 := Float.atan2
  pow := fun x n => Float.pow x (Float.ofNat n)
  f32 := fun x => x.toFloat32.toFloat
  isZero := fun x => x == 0.0
  ltb := fun a b => a < b
  fmax := 1.7976931348623157e308

def parseF? (s : String) : Option Float :=
  s.toNat?.bind fun n => if n < 2 ^ 64 then some (Float.ofBits n.toUInt64) else none

def showF (x : Float) : String := toString x.toBits.toNat

def showV (v : V3 Float) : String := s!"{showF v.x} {showF v.y} {showF v.z}"
def showM (m : M3 Float) : String := s!"{showV m.r0} {showV m.r1} {showV m.r2}"
def showP (p : Pose Float) : String := s!"{showM p.R} {showV p.t}"

def mkV : List Float → Option (V3 Float × List Float)
  | x :: y :: z :: r => some (⟨x, y, z⟩, r)
  | _ => none

def mkM (l : List Float) : Option (M3 Float × List Float) := do
  let (a, l) ← mkV l
  let (b, l) ← mkV l
  let (c, l) ← mkV l
  pure (⟨a, b, c⟩, l)

def mkP (l : List Float) : Option (Pose Float × List Float) := do
  let (m, l) ← mkM l
  let (t, l) ← mkV l
  pure (⟨m, t⟩, l)

def showE (r : Except PyErr String) : String :=
  match r with
  | .ok s => "ok " ++ s
  | .error e => "err " ++ toString e

/-- a history for the heap model, flattened to numbers: `0 kind vals` newArr (kind 0 = 3x3, 1 = 3-vector), `1 addr kind vals`
callerWrite, `2 r t` construct, `3 p` copyObj, `4 p k` scale, `5 p q` compose, `6 p q` invCompose, `7 p a` transform,
`8 p a` invTransform -/
partial def parseHist (l : List Float) (acc : List (HOp Float)) : Option (List (HOp Float)) :=
  let nat (x : Float) : Nat := x.toUInt64.toNat
  let arr (kind : Float) (r : List Float) : Option (Arr Float × List Float) :=
    if kind == 0 then (mkM r).map fun (m, r) => (Arr.mat m, r) else (mkV r).map fun (v, r) => (Arr.vec v, r)
  match l with
  | [] => some acc.reverse
  | c :: rest =>
    match nat c, rest with
    | 0, kind :: r => (arr kind r).bind fun (a, r) => parseHist r (.newArr a :: acc)
    | 1, addr :: kind :: r => (arr kind r).bind fun (a, r) => parseHist r (.callerWrite (nat addr) a :: acc)
    | 2, a :: b :: r => parseHist r (.construct (nat a) (nat b) :: acc)
    | 3, a :: r => parseHist r (.copyObj (nat a) :: acc)
    | 4, a :: k :: r => parseHist r (.scale (nat a) k :: acc)
    | 5, a :: b :: r => parseHist r (.compose (nat a) (nat b) :: acc)
    | 6, a :: b :: r => parseHist r (.invCompose (nat a) (nat b) :: acc)
    | 7, a :: b :: r => parseHist r (.transform (nat a) (nat b) :: acc)
    | 8, a :: b :: r => parseHist r (.invTransform (nat a) (nat b) :: acc)
    | _, _ => none

/-- observable state: the value of every Pose object, then every caller-owned array, in address order -/
def showHeap (h : Heap Float) : String :=
  let objs := (List.range h.objs.length).map fun p =>
    match h.deref p with
    | some P => showP P
    | none => "dangling"
  let cells := h.cells.filterMap fun c =>
    match c with
    | (.caller, .mat m) => some (showM m)
    | (.caller, .vec v) => some (showV v)
    | (.pose, _) => none
  " ".intercalate ([showF (Float.ofNat h.objs.length), showF (Float.ofNat cells.length)] ++ objs ++ cells)

def run (op : String) (a : List Float) : Option String :=
  match op, a with
  | "v2", [h, v] => some <| showE do
      let (a1, a2) ← (BsVec.mk h v).v2
      pure s!"{showF a1} {showF a2}"
  | "q", [h, v] => some <| showE do
      let q ← (BsVec.mk h v).q
      pure (showF q)
  | "lh2", [a1, a2] => let b := BsVec.fromLh2 a1 a2; some s!"ok {showF b.h} {showF b.v}"
  | "cart", [h, v] => some s!"ok {showV (BsVec.mk h v).cart}"
  | "proj", [h, v] => let p := (BsVec.mk h v).projection; some s!"ok {showF p.1} {showF p.2}"
  | "fromcart", [x, y, z] => let b := BsVec.fromCart ⟨x, y, z⟩; some s!"ok {showF b.h} {showF b.v}"
  | "fromproj", [y, z] => let b := BsVec.fromProjection y z; some s!"ok {showF b.h} {showF b.v}"
  | "rt", l => do
      let (p, l) ← mkP l
      let (x, l) ← mkV l
      if l.isEmpty then some s!"ok {showV (p.rotateTranslate x)}" else none
  | "irt", l => do
      let (p, l) ← mkP l
      let (x, l) ← mkV l
      if l.isEmpty then some s!"ok {showV (p.invRotateTranslate x)}" else none
  | "rtp", l => do
      let (p, l) ← mkP l
      let (q, l) ← mkP l
      if l.isEmpty then some s!"ok {showP (p.rotateTranslatePose q)}" else none
  | "irtp", l => do
      let (p, l) ← mkP l
      let (q, l) ← mkP l
      if l.isEmpty then some s!"ok {showP (p.invRotateTranslatePose q)}" else none
  | "scaleseq", l => do
      let (p, l) ← mkP l
      let (q, l) ← mkP l
      match l with
      | [k, x, y, z] =>
        let ps := p.scale k
        let r := ps.invRotateTranslatePose q
        some s!"ok {showV (ps.rotateTranslate ⟨x, y, z⟩)} {showV (ps.invRotateTranslate ⟨x, y, z⟩)} {showV (ps.invRotateTranslate ⟨x, y, z⟩)} {showP r} {showV ps.t}"
      | _ => none
  | "heap", l => do
      let ops ← parseHist l []
      match (Heap.empty : Heap Float).run ops with
      | .ok h => some s!"ok {showHeap h}"
      | .error e => some s!"err {e}"
  | "rod", l => do
      let (p, l) ← mkV l
      let (r, l) ← mkV l
      let (t, l) ← mkV l
      if l.isEmpty then some s!"ok {showV (rodrigues p r t)}" else none
  | "pair", l => do
      let (rb, l) ← mkV l
      let (tb, l) ← mkV l
      let (rc, l) ← mkV l
      let (tc, l) ← mkV l
      let (s, l) ← mkV l
      let r := calcAnglePair ⟨rb, tb⟩ ⟨rc, tc⟩ s
      if l.isEmpty then some s!"ok {showF r.1} {showF r.2}" else none
  | "rotvecmat", [x, y, z] => some s!"ok {showM (rotVecMatrix ⟨x, y, z⟩)}"
  | "rotvecquat", [x, y, z] => let q := rotVecQuat (⟨x, y, z⟩ : V3 Float); some s!"ok {showF q.x} {showF q.y} {showF q.z} {showF q.w}"
  | "quatmat", [x, y, z, w] => some s!"ok {showM (quatMatrix ⟨x, y, z, w⟩)}"
  | "toippe", [x, y, z] => some s!"ok {showV (ippeVecToIppe ⟨x, y, z⟩)}"
  | "tocf", [x, y, z] => some s!"ok {showV (ippeVecToCf ⟨x, y, z⟩)}"
  | "rottocf", l => do
      let (m, l) ← mkM l
      if l.isEmpty then some s!"ok {showM (ippeRotToCf m)}" else none
  | "imgtoippe", [y, z] => let r := ippeImgToIppe (y, z); some s!"ok {showF r.1} {showF r.2}"
  | _, _ => none

def step (_ : Unit) (ws : List String) : Unit × String :=
  let r : String :=
    match ws with
    | op :: args =>
      match args.mapM parseF? with
      | some a => (run op a).getD "bad-op"
      | none => "bad-op"
    | [] => "bad-op"
  ((), r)

def main : IO Unit := runProto () step

/- Line-protocol driver for the C16 model, instantiated with `Float` (correspondence only).
Run: `lean --run Driver/C16.lean < ops` (LEAN_PATH set).  Floats travel as decimal IEEE-754 binary64 bit patterns. -/
import CfVerif.Base.Proto
import CfVerif.Model.C16
open CfVerif CfVerif.C16

instance : HasSqrt Float := ⟨Float.sqrt⟩
instance : HasTrig Float := ⟨Float.sin, Float.cos, Float.ofBits 0x400921FB54442D18⟩   -- np.pi

def parseFloats? (s : String) : Option (List Float) :=
  if s == "-" then some [] else (s.splitOn ",").mapM fun w => w.toNat?.map fun n => Float.ofBits n.toUInt64

def showFloats (l : List Float) : String :=
  if l.isEmpty then "-" else ",".intercalate (l.map fun f => toString f.toBits.toNat)

def vecs? : List Float → Option (List (Vec3 Float))
  | [] => some []
  | a :: b :: c :: r => (vecs? r).map (⟨a, b, c⟩ :: ·)
  | _ => none

def parseVecs? (s : String) : Option (List (Vec3 Float)) := parseFloats? s >>= vecs?

def parseVec? (s : String) : Option (Vec3 Float) :=
  match parseVecs? s with
  | some [v] => some v
  | _ => none

def pose? : List Float → Option (Pose Float)
  | [a, b, c, d, e, f, g, h, i, x, y, z] => some ⟨⟨a, b, c, d, e, f, g, h, i⟩, ⟨x, y, z⟩⟩
  | _ => none

def parsePose? (s : String) : Option (Pose Float) := parseFloats? s >>= pose?

def parsePoses? (s : String) : Option (List (Pose Float)) :=
  if s == "-" then some [] else (s.splitOn ";").mapM parsePose?

/-- `id:pose;id:pose` -/
def parseBs? (s : String) : Option (List (Nat × Pose Float)) :=
  if s == "-" then some [] else (s.splitOn ";").mapM fun w =>
    match w.splitOn ":" with
    | [k, p] => do pure (← k.toNat?, ← parsePose? p)
    | _ => none

/-- samples: `sample/sample`, sample = `id=floats+id=floats` (`-` = no base station) -/
def parseSamples? (s : String) : Option (List (List (Nat × List (Vec3 Float)))) :=
  if s == "-" then some [] else (s.splitOn "/").mapM fun smp =>
    if smp == "_" then some [] else (smp.splitOn "+").mapM fun w =>
      match w.splitOn "=" with
      | [k, vs] => do pure (← k.toNat?, ← parseVecs? vs)
      | _ => none

def poseFloats (p : Pose Float) : List Float :=
  [p.R.a11, p.R.a12, p.R.a13, p.R.a21, p.R.a22, p.R.a23, p.R.a31, p.R.a32, p.R.a33, p.t.x, p.t.y, p.t.z]

def showPose (p : Pose Float) : String := showFloats (poseFloats p)

def showBs (l : List (Nat × Pose Float)) : String :=
  if l.isEmpty then "-" else ";".intercalate (l.map fun kv => s!"{kv.1}:{showPose kv.2}")

def showPoses (l : List (Pose Float)) : String :=
  if l.isEmpty then "-" else ";".intercalate (l.map showPose)

def showScaled (r : List (Nat × Pose Float) × List (Pose Float) × Float) : String :=
  s!"ok {showFloats [r.2.2]} {showBs r.1} {showPoses r.2.1}"

/-- heap description: arrays `m` | `v<floats>` separated by `;`, objects `r.t` separated by `,` -/
def parseArr? (w : String) : Option (Arr Float) :=
  if w == "m" then some (Arr.mat Mat3.one) else
  match w.toList with
  | 'v' :: r => (parseVec? (String.ofList r)).map Arr.vec
  | _ => none

def parseObj? (w : String) : Option PoseObj :=
  match w.splitOn "." with
  | [r, t] => do pure (⟨← r.toNat?, ← t.toNat?⟩ : PoseObj)
  | _ => none

def parseHeap? (arrs objs : String) : Option (Heap Float) := do
  let ars ← if arrs == "-" then some [] else (arrs.splitOn ";").mapM parseArr?
  let os ← if objs == "-" then some [] else (objs.splitOn ",").mapM parseObj?
  pure ⟨ars, os⟩

def parseIdObj? (s : String) : Option (List (Nat × Nat)) :=
  if s == "-" then some [] else (s.splitOn ",").mapM fun w =>
    match w.splitOn ":" with
    | [k, p] => do pure (← k.toNat?, ← p.toNat?)
    | _ => none

def showObj (h : Heap Float) (p : Nat) : String :=
  match h.objs[p]? with
  | some o =>
    let tv := match h.arrays[o.t]? with | some (.vec v) => showFloats v.toList | _ => "?"
    s!"{o.r}.{o.t}.{tv}"
  | none => "?"

def arrBits : Arr Float → List UInt64
  | .mat m => [m.a11, m.a12, m.a13, m.a21, m.a22, m.a23, m.a31, m.a32, m.a33].map Float.toBits
  | .vec v => v.toList.map Float.toBits

def oldPreserved (h h' : Heap Float) : Bool :=
  (h'.objs.take h.objs.length == h.objs) &&
  ((h'.arrays.take h.arrays.length).map arrBits == h.arrays.map arrBits)

def step (_ : Unit) (ws : List String) : Unit × String :=
  let r : String :=
    match ws with
    | ["rotvec", v] =>
      match parseVec? v with
      | some v => "ok " ++ showPose (Pose.fromRotVec v Vec3.zero)
      | none => "bad-op"
    | ["residual", params, origin, xs, plane] =>
      match parseFloats? params, parseVec? origin, parseVecs? xs, parseVecs? plane with
      | some p, some o, some xs, some pl =>
        match calcResidual p o xs pl with
        | .ok r => "ok " ++ showFloats r
        | .error e => s!"err {e}"
      | _, _, _, _ => "bad-op"
    | ["deflip", raw, xs, bs] =>
      match parsePose? raw, parseVecs? xs, parseBs? bs with
      | some raw, some xs, some bs =>
        match deFlip raw xs bs with
        | .ok t => "ok " ++ showPose t
        | .error e => s!"err {e}"
      | _, _, _ => "bad-op"
    | ["align", answer, origin, xs, plane, bs] =>
      match parseFloats? answer, parseVec? origin, parseVecs? xs, parseVecs? plane, parseBs? bs with
      | some a, some o, some xs, some pl, some bs =>
        match align (fun _ _ => a) o xs pl bs with
        | .ok (res, t) => s!"ok {showPose t} {showBs res}"
        | .error e => s!"err {e}"
      | _, _, _, _, _ => "bad-op"
    | ["scalefp", bs, cf, expected, actual] =>
      match parseBs? bs, parsePoses? cf, parseVec? expected, parsePose? actual with
      | some bs, some cf, some e, some a => showScaled (scaleFixedPoint bs cf e a)
      | _, _, _, _ => "bad-op"
    | ["scalediag", bs, cf, samples, expected] =>
      match parseBs? bs, parsePoses? cf, parseSamples? samples, parseFloats? expected with
      | some bs, some cf, some smp, some [e] =>
        match scaleDiagonals bs cf smp e with
        | .ok r => showScaled r
        | .error e => s!"err {e}"
      | _, _, _, _ => "bad-op"
    | ["meandiag", bs, cf, samples] =>
      match parseBs? bs, parsePoses? cf, parseSamples? samples with
      | some bs, some cf, some smp =>
        match calculateMeanDiagonal bs cf smp with
        | .ok r => "ok " ++ showFloats [r]
        | .error e => s!"err {e}"
      | _, _, _ => "bad-op"
    | ["isect", cart, bs, cf] =>
      match parseVec? cart, parsePose? bs, parsePose? cf with
      | some c, some b, some f =>
        match calcIntersectionPoint c b f with
        | .ok p => "ok " ++ showFloats p.toList
        | .error e => s!"err {e}"
      | _, _, _ => "bad-op"
    | ["heapscale", arrs, objs, bs, cf, f] =>
      match parseHeap? arrs objs, parseIdObj? bs, parseNatList? cf, parseFloats? f with
      | some h, some bs, some cf, some [f] =>
        match scaleSystemH h bs cf f with
        | .ok (h', rb, rc) =>
          let sb := if rb.isEmpty then "-" else ",".intercalate (rb.map fun kv => s!"{kv.1}:{showObj h' kv.2}")
          let sc := if rc.isEmpty then "-" else ",".intercalate (rc.map (showObj h'))
          s!"ok bs={sb} cf={sc} old={if oldPreserved h h' then 1 else 0}"
        | .error e => s!"err {e}"
      | _, _, _, _ => "bad-op"
    | _ => "bad-op"
  ((), r)

def main : IO Unit := runProto () step

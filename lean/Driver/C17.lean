/- Line-protocol driver for the C17 models.  Run: `lean --run Driver/C17.lean < ops` (LEAN_PATH set).

   mc <connected 0|1> <default_height> <pi> <with|bare> <prog> <schedule>
        replays the schedule (letters 0 = commanding thread, 1 = set-point thread, 2 = clock) on the machine.  Steps of the
        commanding thread that are not observable in the real run (expansions, flag updates, raising / unwinding) are
        inserted by the driver (eagerly) before each scheduled step and at the end - one of the interleavings
        the model allows.  Reply: `ok <exc> alive=<b> flying=<b> now=<t> left=<n> T=<events> P=<params>` or `stuck <k> ...`.
   hl <connected 0|1> <x> <y> <z> <default_velocity> <default_height> <landing_height> <controller|_> <with|bare> <prog>
   Numbers are rationals `n/d`; `_` = omitted argument.  The models are instantiated for the CURRENT source
   (`Static.ofGen` / `HStatic.ofGen`: try/finally flags and the landing-duration numerator come from Gen/C17). -/
import CfVerif.Base.Proto
import CfVerif.Model.C17
open CfVerif CfVerif.C17

def parseRat? (s : String) : Option Rat :=
  match s.splitOn "/" with
  | [n] => n.toInt?.map (fun (i : Int) => (i : Rat))
  | [n, d] => do
    let n ← n.toInt?
    let d ← d.toNat?
    if d = 0 then none else pure (mkRat n d)
  | _ => none

def parseOpt? (s : String) : Option (Option Rat) :=
  if s == "_" then some none else (parseRat? s).map some

def showRat (q : Rat) : String := if q.den = 1 then toString q.num else s!"{q.num}/{q.den}"

def parseDir? : String → Option Dir
  | "l" => some .left | "r" => some .right | "f" => some .forward | "b" => some .back | "u" => some .up | "d" => some .down
  | _ => none

def parseSide? : String → Option Side
  | "l" => some .left | "r" => some .right | _ => none

def parsePrim? (w : String) : Option Prim :=
  match w.splitOn ":" with
  | ["go", d, x, v] => do pure (.go (← parseDir? d) (← parseRat? x) (← parseOpt? v))
  | ["mv", x, y, z, v] => do pure (.move (← parseRat? x) (← parseRat? y) (← parseRat? z) (← parseOpt? v))
  | ["turn", s, a, r] => do pure (.turn (← parseSide? s) (← parseRat? a) (← parseOpt? r))
  | ["circ", s, r, v, a] => do pure (.circle (← parseSide? s) (← parseRat? r) (← parseOpt? v) (← parseOpt? a))
  | ["st", d, v] => do pure (.start (← parseDir? d) (← parseOpt? v))
  | ["sl", x, y, z, w] => do pure (.startLinear (← parseRat? x) (← parseRat? y) (← parseRat? z) (← parseOpt? w))
  | ["stt", s, r] => do pure (.startTurn (← parseSide? s) (← parseOpt? r))
  | ["stc", s, r, v] => do pure (.startCircle (← parseSide? s) (← parseRat? r) (← parseOpt? v))
  | ["stop"] => some .stop
  | ["wait", d] => do pure (.wait (← parseRat? d))
  | ["to", h, v] => do pure (.takeOff (← parseOpt? h) (← parseOpt? v))
  | ["land", v] => do pure (.land (← parseOpt? v))
  | ["raise"] => some .raise
  | _ => none

def parseProg? {α} (f : String → Option α) (s : String) : Option (List α) :=
  if s == "-" then some [] else (s.splitOn ";").mapM f

def parseSched? (s : String) : Option (List Nat) :=
  if s == "-" then some [] else
  s.toList.mapM fun ch => match ch with
    | '0' => some 0 | '1' => some 1 | '2' => some 2 | _ => none

def parseBool? : String → Option Bool
  | "0" => some false | "1" => some true | _ => none

/-- driver's stand-in for `math.sqrt`: exact on squares of rationals, else correct to ~1e-12 (relative to 1) -/
def qsqrt (x : Rat) : Rat :=
  if x ≤ 0 then 0 else mkRat (Nat.sqrt (x.num.toNat * x.den * 10 ^ 24)) (x.den * 10 ^ 12)

def showErr : Err → String
  | .zeroDiv => "zero_div" | .valueError => "value_error" | .notFlying => "not_flying" | .alreadyFlying => "already_flying"
  | .notConnected => "not_connected" | .injected => "injected"

def showExc : Option Err → String
  | none => "none" | some e => showErr e

def showCmd : Rat × Cmd → String
  | (t, .hover vx vy yaw z) => s!"{showRat t}|H|{showRat vx}|{showRat vy}|{showRat yaw}|{showRat z}"
  | (t, .stop) => s!"{showRat t}|S"
  | (t, .notify) => s!"{showRat t}|N"

def showList (l : List String) : String := if l.isEmpty then "-" else ",".intercalate l

/-- is the next step of the commanding thread invisible to the real run's log? -/
def silentHead (c : Cfg) : Bool :=
  match c.code with
  | [] => false
  | .setVel _ :: _ => !c.flying
  | .sleep d :: _ => decide (d < 0)
  | .param _ :: _ => false
  | .startThread :: _ => false
  | .readHeight _ :: _ => false
  | .cleanup .clear :: _ => true
  | .cleanup _ :: _ => false
  | _ => true

def settle (st : Static) : Nat → Cfg → Cfg
  | 0, c => c
  | n + 1, c => if silentHead c then match stepMain st c with | some c' => settle st n c' | none => c else c

def replay (st : Static) : Nat → Cfg → List Nat → Except (Nat × Cfg) Cfg
  | _, c, [] => .ok (settle st 100000 c)
  | k, c, t :: ts =>
    let c := settle st 100000 c
    match (machine st).step c t with
    | some c' => replay st (k + 1) c' ts
    | none => .error (k, c)

def showCfg (c : Cfg) : String :=
  s!"{showExc c.exc} alive={if c.thr.alive then 1 else 0} flying={if c.flying then 1 else 0} now={showRat c.now} left={c.code.length} " ++
  s!"T={showList (c.trace.reverse.map showCmd)} P={showList (c.params.reverse.map fun p => s!"{showRat p.1}|{p.2}")}"

/-! PositionHlCommander -/

def parseHPrim? (w : String) : Option HPrim :=
  match w.splitOn ":" with
  | ["go", d, x, v] => do pure (.go (← parseDir? d) (← parseRat? x) (← parseOpt? v))
  | ["mv", x, y, z, v] => do pure (.move (← parseRat? x) (← parseRat? y) (← parseRat? z) (← parseOpt? v))
  | ["goto", x, y, z, v] => do pure (.goTo (← parseRat? x) (← parseRat? y) (← parseOpt? z) (← parseOpt? v))
  | ["sdv", v] => do pure (.setDefaultVelocity (← parseRat? v))
  | ["sdh", v] => do pure (.setDefaultHeight (← parseRat? v))
  | ["slh", v] => do pure (.setLandingHeight (← parseRat? v))
  | ["to", h, v] => do pure (.takeOff (← parseOpt? h) (← parseOpt? v))
  | ["land", v, lh] => do pure (.land (← parseOpt? v) (← parseOpt? lh))
  | ["wait", d] => do pure (.wait (← parseRat? d))
  | ["raise"] => some .raise
  | _ => none

def showHCmd : Rat × HCmd → String
  | (t, .takeoff h d) => s!"{showRat t}|T|{showRat h}|{showRat d}"
  | (t, .land h d) => s!"{showRat t}|L|{showRat h}|{showRat d}"
  | (t, .goTo x y z w d) => s!"{showRat t}|G|{showRat x}|{showRat y}|{showRat z}|{showRat w}|{showRat d}"
  | (t, .stop) => s!"{showRat t}|S"
  | (t, .controller v) => s!"{showRat t}|C|{v}"

/-- positions reported by get_position() after each primitive of the body (until one raises) -/
def positions (st : HStatic) : HL → List HPrim → List String → List String
  | _, [], acc => acc.reverse
  | s, p :: ps, acc =>
    match hlPrim st s p with
    | (s', none) => positions st s' ps (s!"{showRat s'.x}|{showRat s'.y}|{showRat s'.z}" :: acc)
    | (_, some _) => acc.reverse

def showHL (r : HL × Option Err) (pos : List String) : String :=
  let s := r.1
  s!"{showExc r.2} flying={if s.flying then 1 else 0} now={showRat s.now} pos={showRat s.x}|{showRat s.y}|{showRat s.z} " ++
  s!"T={showList (s.trace.reverse.map showHCmd)} B={showList pos}"

def step (_ : Unit) (ws : List String) : Unit × String :=
  let r : String :=
    match ws with
    | ["mc", conn, dh, pi, mode, prog, sched] =>
      match parseBool? conn, parseRat? dh, parseRat? pi, parseProg? parsePrim? prog, parseSched? sched with
      | some conn, some dh, some pi, some prog, some sched =>
        let st : Static := Static.ofGen qsqrt pi dh conn
        if mode == "with" || mode == "bare" then
          let c0 := if mode == "with" then initWith prog else initBare prog
          match replay st 0 c0 sched with
          | .ok c => "ok " ++ showCfg c
          | .error (k, c) => s!"stuck {k} " ++ showCfg c
        else "bad-op"
      | _, _, _, _, _ => "bad-op"
    | ["hl", conn, x, y, z, dv, dh, dl, ctrl, mode, prog] =>
      match parseBool? conn, parseRat? x, parseRat? y, parseRat? z, parseRat? dv, parseRat? dh, parseRat? dl,
            parseProg? parseHPrim? prog with
      | some conn, some x, some y, some z, some dv, some dh, some dl, some prog =>
        let ctrl? : Option (Option Nat) := if ctrl == "_" then some none else ctrl.toNat?.map some
        match ctrl? with
        | none => "bad-op"
        | some ctrl =>
          let st : HStatic := HStatic.ofGen qsqrt conn
          let s0 := HL.new 0 x y z dv dh dl ctrl
          if mode == "with" then
            let pos := match hlTakeOff st s0 none none with
              | (s1, none) => positions st s1 prog []
              | (_, some _) => []
            "ok " ++ showHL (hlWith st s0 prog) pos
          else if mode == "bare" then "ok " ++ showHL (hlBody st s0 prog) (positions st s0 prog [])
          else "bad-op"
      | _, _, _, _, _, _, _, _ => "bad-op"
    | _ => "bad-op"
  ((), r)

def main : IO Unit := runProto () step

/- Line-protocol driver for the C18 model.  Run: `lean --run Driver/C18.lean < ops` (LEAN_PATH set). -/
import CfVerif.Base.Proto
import CfVerif.Model.C18
open CfVerif CfVerif.C18

def showErr : Err → String
  | .py e => toString e
  | .version => "version"
  | .blocked => "blocked"

def showPkt (p : Packet) : String :=
  s!"{p.src},{p.dst},{p.fn},{if p.last then 1 else 0},{toHex p.data}"

def parseChunks? (s : String) : Option Sock :=
  if s == "-" then some [[]] else (s.splitOn ",").mapM ofHex?

/-- mirror of the harness loop: read up to n packets, record per-packet errors, stop when blocked -/
def readLoop : Nat → Sock → List String → List String × Sock
  | 0, s, acc => (acc.reverse, s)
  | n + 1, s, acc =>
    match readPacket s with
    | (.ok (p, s'), _) => readLoop n s' (showPkt p :: acc)
    | (.error .blocked, s') => (("blocked" :: acc).reverse, s')
    | (.error e, s') => readLoop n s' (("E:" ++ showErr e) :: acc)

def parseROps? (s : String) : Option (List ROp) :=
  if s == "-" then some [] else
  (s.splitOn ",").mapM fun w =>
    match w.toList with
    | 'r' :: r => (String.ofList r).toNat?.map ROp.reg
    | 'p' :: r =>
      match (String.ofList r).splitOn ":" with
      | [a, b] => do pure (ROp.pkt (← a.toNat?) (← b.toNat?))
      | _ => none
    | _ => none

def showQueues (q : Queues) : String :=
  let sorted := q.toArray.qsort (fun a b => a.1 < b.1) |>.toList
  if sorted.isEmpty then "-" else
  " ".intercalate (sorted.map fun e => s!"{e.1}:{if e.2.isEmpty then "-" else ",".intercalate (e.2.map toString)}")

def step (_ : Unit) (ws : List String) : Unit × String :=
  let r : String :=
    match ws with
    | ["wire", src, dst, fn, last, ver, data] =>
      match src.toNat?, dst.toNat?, fn.toNat?, last.toNat?, ver.toNat?, ofHex? data with
      | some s, some d, some f, some l, some v, some da =>
        match wire { src := s, dst := d, fn := f, last := l ≠ 0, data := da } v with
        | .ok b => "ok " ++ toHex b
        | .error e => "err " ++ showErr e
      | _, _, _, _, _, _ => "bad-op"
    | ["unwire", raw] =>
      match ofHex? raw with
      | some b => match unwire b with
        | .ok p => "ok " ++ showPkt p
        | .error e => "err " ++ showErr e
      | none => "bad-op"
    | ["frame", src, dst, fn, last, data] =>
      match src.toNat?, dst.toNat?, fn.toNat?, last.toNat?, ofHex? data with
      | some s, some d, some f, some l, some da =>
        match frame { src := s, dst := d, fn := f, last := l ≠ 0, data := da } with
        | .ok b => "ok " ++ toHex b
        | .error e => "err " ++ showErr e
      | _, _, _, _, _ => "bad-op"
    | ["read", n, chunks] =>
      match n.toNat?, parseChunks? chunks with
      | some n, some s =>
        let (outs, rest) := readLoop n s []
        if outs.getLast? == some "blocked" then s!"ok {";".intercalate outs}"
        else s!"ok {";".intercalate outs} rest={toHex rest.flatten}"
      | _, _ => "bad-op"
    | ["router", ops] =>
      match parseROps? ops with
      | some ops => "ok " ++ showQueues (routerRun ops)
      | none => "bad-op"
    | ["world", n, ops] =>
      -- ops: `<link>r<fn>` | `<link>p<fn>:<tag>` with a one-digit link number
      let parsed : Option (List (Nat × ROp)) := if ops == "-" then some [] else
        (ops.splitOn ",").mapM fun w =>
          match w.toList with
          | c :: rest => do
            let l ← (String.ofList [c]).toNat?
            let o ← parseROps? (String.ofList rest)
            match o with
            | [op] => pure (l, op)
            | _ => none
          | [] => none
      match n.toNat?, parsed with
      | some n, some ops =>
        let w := worldRun ops
        "ok " ++ " | ".intercalate ((List.range n).map fun i => showQueues (w i))
      | _, _ => "bad-op"
    | ["rstream", regs, chunks] =>
      match parseNatList? regs, parseChunks? chunks with
      | some regs, some sock =>
        let (q, alive) := routerStream regs sock
        s!"ok {showQueues q} {if alive then "alive" else "died"}"
      | _, _ => "bad-op"
    | ["up", h, data] =>
      match h.toNat?, ofHex? data with
      | some h, some d =>
        let p := tunnelUp h d
        s!"ok {p.src},{p.dst},{p.fn},{toHex p.data}"
      | _, _ => "bad-op"
    | ["down", pls] =>
      let parsed : Option (List (List UInt8)) := if pls == "-" then some [] else (pls.splitOn ",").mapM ofHex?
      match parsed with
      | some pl =>
        let outs := pl.filterMap tunnelDown |>.map fun c => s!"{c.header}/{c.port}/{c.chan}/{toHex c.data}"
        s!"ok {if outs.isEmpty then "-" else ";".intercalate outs} errs=0"
      | none => "bad-op"
    | _ => "bad-op"
  ((), r)

def main : IO Unit := runProto () step

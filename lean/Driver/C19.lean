/- Line-protocol driver for the C19 model.  Run: `lean --run Driver/C19.lean < ops` (LEAN_PATH set).

  new <uris>                          Swarm(uris): reply `ok <u:m,...>` (the _cfs dict in iteration order)
  ps|par <args> <fails> <sched>       parallel_safe / parallel with a user action
  open <connfail> <sched>             open_links(); members in <connfail> fail to connect
  close                               close_links()
  preopen <i>                         member i's SyncCrazyflie is opened directly by the user
  seq <args> <fails>                  sequential
  <args>  = none | - (empty dict) | u:a.b;u:;...          <fails> = - | u:n,u:n (member u raises user error n)
  <sched> = - | t,t,...  the VISIBLE steps observed on the real code (0 = main start/join/close_link, i+1 = member
            i: call, finish, flag, append).  Main's silent steps (loop exits, the error check, the result handling,
            a KeyError) are inserted eagerly by `runVisible`; the reply says `rejected` when a step is not enabled
            in the model and `unfinished` when main has not finished at the end.
  reply: ok res=<r> trace=<evs> open=<0|1> mem=<bits> full=<complete model schedule>
-/
import CfVerif.Base.Proto
import CfVerif.Model.C19
open CfVerif CfVerif.C19

def showErr : Err → String
  | .user n => s!"u{n}"
  | .linkAlreadyOpen u => s!"lao{u}"
  | .connFailed u => s!"cf{u}"

def showRes : Option Exc → String
  | none => "ok"
  | some (.user e) => s!"user:{showErr e}"
  | some (.chained e) => s!"chained:{showErr e}"
  | some (.keyError u) => s!"keyerr:{u}"
  | some .indexError => "indexerr"
  | some .alreadyOpened => "already"

def showArgs (a : List Arg) : String := if a.isEmpty then "" else ".".intercalate (a.map toString)

def showEv : Ev → String
  | .call u m a => s!"c{u}/{m}/{showArgs a}"
  | .ret u => s!"r{u}"
  | .raised u e => s!"x{u}/{showErr e}"
  | .closeCall u o => s!"k{u}/{if o then 1 else 0}"

def showTrace (t : List Ev) : String := if t.isEmpty then "-" else ",".intercalate (t.map showEv)

def showPc : MainPc → String
  | .starting k => s!"starting{k}" | .joining k => s!"joining{k}" | .checking => "checking"
  | .psDone r => s!"psDone({showRes r})" | .closing k _ => s!"closing{k}" | .finished r => s!"finished({showRes r})"

def parseArgs? (s : String) : Option ArgsDict :=
  if s == "none" then some none
  else if s == "-" then some (some [])
  else do
    let kvs ← (s.splitOn ";").mapM fun kv =>
      match kv.splitOn ":" with
      | [k, v] => do
        let u ← k.toNat?
        let a ← if v == "" then some [] else (v.splitOn ".").mapM String.toInt?
        pure (u, a)
      | _ => none
    pure (some kvs)

def parseFails? (s : String) : Option (List (Nat × Nat)) :=
  if s == "-" then some [] else
  (s.splitOn ",").mapM fun kv =>
    match kv.splitOn ":" with
    | [k, v] => do pure (← k.toNat?, ← v.toNat?)
    | _ => none

def oracle (fails : List (Nat × Nat)) : Uri → List Arg → Option Err :=
  fun u _ => (fails.lookup u).map Err.user

/-- main's next step has no counterpart among the observed events -/
def silent (p : Params) (c : Cfg) : Bool :=
  match c.main with
  | .starting k =>
    match p.cfs[k]? with
    | none => true
    | some (u, _) => match processArgs p.args u with | .ok _ => false | .error _ => true
  | .joining k => (p.cfs[k]?).isNone
  | .checking => true
  | .psDone _ => true
  | .closing k _ => (p.cfs[k]?).isNone
  | .finished _ => false

def drain (p : Params) : Nat → Cfg → List Nat → Cfg × List Nat
  | 0, c, acc => (c, acc)
  | fuel + 1, c, acc =>
    if silent p c then
      match stepMain p c with
      | some c' => drain p fuel c' (0 :: acc)
      | none => (c, acc)
    else (c, acc)

/-- returns (final cfg, full schedule reversed) or the index of the first rejected visible step -/
def runVisible (p : Params) : List Nat → Nat → Cfg → List Nat → Except (Nat × Cfg) (Cfg × List Nat)
  | [], _, c, acc => .ok (drain p 8 c acc)
  | t :: ts, idx, c, acc =>
    let (c, acc) := drain p 8 c acc
    match step p c t with
    | none => .error (idx, c)
    | some c' => runVisible p ts (idx + 1) c' (t :: acc)

structure DState where
  cfs : List (Uri × Member) := []
  st : SwarmState := fresh

def showState (cfs : List (Uri × Member)) (st : SwarmState) : String :=
  let bits := String.join ((List.range cfs.length).map fun i => if st.mem i then "1" else "0")
  s!"open={if st.isOpen then 1 else 0} mem={if bits.isEmpty then "-" else bits}"

def showSched (l : List Nat) : String := if l.isEmpty then "-" else ",".intercalate (l.map toString)

/-- the reply is computed by `runOp` (the function the theorems are about) on the completed schedule -/
def runMachine (d : DState) (op : Op) (sch : List Nat) : DState × String :=
  match op.params d.cfs with
  | none => (d, "bad-op")
  | some p =>
    match runVisible p sch 0 (init d.st) [] with
    | .error (idx, c) => (d, s!"rejected at={idx} main={showPc c.main}")
    | .ok (c, full) =>
      match runOp d.cfs d.st op full.reverse with
      | some (st', tr, r) =>
        ({ d with st := st' }, s!"ok res={showRes r} trace={showTrace tr} {showState d.cfs st'} full={showSched full.reverse}")
      | none => (d, s!"unfinished main={showPc c.main} trace={showTrace c.trace}")

def replyOp (d : DState) (op : Op) : DState × String :=
  match runOp d.cfs d.st op [] with
  | some (st', tr, r) => ({ d with st := st' }, s!"ok res={showRes r} trace={showTrace tr} {showState d.cfs st'} full=-")
  | none => (d, "unfinished main=? trace=-")

def stepD (d : DState) (ws : List String) : DState × String :=
  match ws with
  | ["new", uris] =>
    match parseNatList? uris with
    | some us =>
      let cfs := mkSwarm us
      let d' : DState := { cfs := cfs }
      (d', "ok " ++ (if cfs.isEmpty then "-" else ",".intercalate (cfs.map fun kv => s!"{kv.1}:{kv.2}")))
    | none => (d, "bad-op")
  | [op, args, fails, sched] =>
    match parseArgs? args, parseFails? fails, parseNatList? sched with
    | some a, some f, some sch =>
      if op == "ps" then runMachine d (.parallelSafe a (oracle f)) sch
      else if op == "par" then runMachine d (.parallel a (oracle f)) sch
      else (d, "bad-op")
    | _, _, _ => (d, "bad-op")
  | ["open", connfail, sched] =>
    match parseNatList? connfail, parseNatList? sched with
    | some cf, some sch =>
      let op := Op.openLinks (fun u => !cf.contains u)
      if d.st.isOpen then replyOp d op     -- `if self._is_open: raise`: no thread is started, the schedule must be empty
      else runMachine d op sch
    | _, _ => (d, "bad-op")
  | ["preopen", i] =>
    -- the user calls member i's own open_link() outside any swarm-wide call (no connection failure)
    match i.toNat? with
    | some i =>
      let st' : SwarmState := { d.st with mem := upd d.st.mem i (d.st.mem i || Gen.C19.scfConnectedSets) }
      ({ d with st := st' }, s!"ok res=ok trace=- {showState d.cfs st'} full=-")
    | none => (d, "bad-op")
  | ["close"] => replyOp d .closeLinks
  | ["seq", args, fails] =>
    match parseArgs? args, parseFails? fails with
    | some a, some f => replyOp d (.sequential a (oracle f))
    | _, _ => (d, "bad-op")
  | _ => (d, "bad-op")

def main : IO Unit := runProto ({} : DState) stepD

/- Line-protocol driver for the C20 model.  Run: `lean --run Driver/C20.lean < ops` (LEAN_PATH set).
Strings travel as dot-separated decimal code points (`-` = empty string); lists of strings are `;`-separated
(`@` = empty list). -/
import CfVerif.Base.Proto
import CfVerif.Model.C20
open CfVerif CfVerif.C20

def decStr? (w : String) : Option Str :=
  if w == "-" then some [] else (w.splitOn ".").mapM (fun x => x.toNat?.map Char.ofNat)

def encStr (s : Str) : String :=
  if s.isEmpty then "-" else ".".intercalate (s.map (fun c => toString c.toNat))

def decStrs? (w : String) : Option (List Str) :=
  if w == "@" then some [] else (w.splitOn ";").mapM decStr?

def encStrs (l : List Str) : String :=
  if l.isEmpty then "@" else ";".intercalate (l.map encStr)

def showErr : Err → String
  | .wrongUriType => "wrong_uri" | .valueError => "value_error" | .structError => "struct_error"
  | .typeError => "type_error" | .attributeError => "attribute_error" | .exception => "other"
  | .outOfModel => "out-of-model"

def showRes {α} (f : α → String) : Except Err α → String
  | .ok a => "ok " ++ f a
  | .error .outOfModel => "out-of-model"
  | .error e => "err " ++ showErr e

def showRadio (r : Radio) : String :=
  s!"{r.devid} {r.channel} {r.rate} {showNatList r.addr} {match r.limit with | none => "none" | some l => toString l}"

def decIntLists? (w : String) : Option (List (List Int)) :=
  if w == "@" then some [] else (w.splitOn ";").mapM parseIntList?

def decDrvs? (w : String) : Option (List Drv) :=
  if w == "@" then some [] else (w.splitOn ",").mapM drvOfName?

def decBools? (w : String) : Option (List Bool) :=
  if w == "-" then some [] else w.toList.mapM (fun c => if c = '1' then some true else if c = '0' then some false else none)

def decArg? (w : String) : Option FArg :=
  match w.toList with
  | 'i' :: r => (String.ofList r).toInt?.map FArg.int
  | 's' :: r => (decStr? (String.ofList r)).map FArg.str
  | _ => none

/-- env words: serials, present radio indices, present usb indices, serial devices, other-ok flag -/
def decEnv? (ser radios usbs devs ok : String) : Option Env := do
  let serials ← decStrs? ser
  let rs ← parseNatList? radios
  let us ← parseNatList? usbs
  let ds ← decStrs? devs
  let b ← if ok == "1" then some true else if ok == "0" then some false else none
  pure { serials, radioPresent := fun n => rs.contains n, usbPresent := fun n => us.contains n, serialDevices := ds,
         otherOk := fun d _ => b && d != .prrt }      -- the prrt module is not installed where the harness runs

def showEvent : Event → String
  | .requested u => "requested:" ++ encStr u
  | .failedNoDriver u => "failed-nodriver:" ++ encStr u
  | .failedException u => "failed-exception:" ++ encStr u
  | .closed => "closed"
  | .setupStarted => "setup"

def showLink (r : Except Err (Option (Drv × Conn))) : String :=
  match r with
  | .ok none => "none"
  | .ok (some (d, .radio r)) => s!"ok {d.className} {showRadio r}"
  | .ok (some (d, .other)) => s!"ok {d.className}"
  | .error .outOfModel => "out-of-model"
  | .error e => "raised " ++ showErr e

def step (_ : Unit) (ws : List String) : Unit × String :=
  let r : String :=
    match ws with
    | ["parse", ser, uri] =>
      match decStrs? ser, decStr? uri with
      | some s, some u => showRes showRadio (parseUri s u)
      | _, _ => "bad-op"
    | ["parselive", ser, uri] =>
      match decStrs? ser, decStr? uri with
      | some s, some u => showRes showRadio (parseUriLive s u)
      | _, _ => "bad-op"
    | ["scan", addr, found] =>
      let a? : Option (Option Int) := if addr == "none" then some none else addr.toInt?.map some
      match a?, decIntLists? found with
      | some a, some f =>
        showRes (fun l => if l.isEmpty then "-" else " ".intercalate (l.map fun p => s!"{p.1}:{encStrs p.2}")) (scanInterface a f)
      | _, _ => "bad-op"
    | ["scanaddr", addr] =>
      match addr.toInt? with
      | some a => showRes showNatList (scanSetAddress a)
      | none => "bad-op"
    | ["scansel", links, acks] =>
      match decStrs? links, decBools? acks with
      | some l, some a => showRes encStrs (scanSelected l a)
      | _, _ => "bad-op"
    | ["claims", uri] =>
      match decStr? uri with
      | some u =>
        let l := Drv.all.filter (fun d => claims d u)
        "ok " ++ (if l.isEmpty then "-" else ",".intercalate (l.map Drv.className))
      | none => "bad-op"
    | ["rematch", pat, s] =>
      match decStr? pat, decStr? s with
      | some p, some s =>
        match parseRe (String.ofList p) with
        | some items => if matchItems items s then "ok 1" else "ok 0"
        | none => "unsupported"
      | _, _ => "bad-op"
    | ["int", s] =>
      match decStr? s with
      | some s => showRes toString (pyInt s)
      | none => "bad-op"
    | ["inthex", s] =>
      match decStr? s with
      | some s => showRes toString (pyIntHex s)
      | none => "bad-op"
    | "format" :: fmt :: args =>
      match decStr? fmt, args.mapM decArg? with
      | some f, some a =>
        match parseFormat (String.ofList f) with
        | none => "unsupported"
        | some segs => showRes encStr (renderSegs segs a)
      | _, _ => "bad-op"
    | ["initdrivers", serial] =>
      match initDrivers (serial == "1") with
      | some l => "ok " ++ ",".intercalate (l.map Drv.className)
      | none => "unsupported"
    | ["driver", cls, ser, radios, usbs, devs, ok, uri] =>
      match decDrvs? cls, decEnv? ser radios usbs devs ok, decStr? uri with
      | some c, some env, some u =>
        -- udp / tcp / prrt: what happens after the scheme was accepted is not modelled
        match c.find? (fun d => claims d u) with
        | some .udp => "took UdpDriver"
        | some .tcp => "took TcpDriver"
        | some .prrt => "took PrrtDriver"
        | _ => showLink (getLinkDriver env c u)
      | _, _, _ => "bad-op"
    | ["open", cls, ser, radios, usbs, devs, ok, prev, setupRaises, closeRaises, uri] =>
      match decDrvs? cls, decEnv? ser radios usbs devs ok, decStr? uri with
      | some c, some env, some u =>
        match getLinkDriver env c u with
        | .error .outOfModel => "out-of-model"
        | _ =>
          let res := openLink env c (prev == "1") (setupRaises == "1") (closeRaises == "1") u
          let link := match res.link with
            | .none => "none" | .opened d => d.className | .previous => "previous"
          s!"ok {",".intercalate (res.events.map showEvent)} escaped={match res.escaped with | none => "none" | some e => showErr e} link={link}"
      | _, _, _ => "bad-op"
    | ["helper", env] =>
      let e? : Option (Option Str) := if env == "none" then some none else (decStr? env).map some
      match e? with
      | some e => s!"ok {encStr (uriFromEnv e)} {match addressFromEnv e with | some v => toString v | none => "none"}"
      | none => "bad-op"
    | _ => "bad-op"
  ((), r)

def main : IO Unit := runProto () step

#!/venv/bin/python
"""tools/integrate.py <PID> [seeds...]  - acceptance run for one property package:
   ./check PID for several VERIF_SEEDs on the clean tree (must exit 0, evidence must validate),
   then every seeded change for PID (must exit 1 with a VIOLATION line), then a final clean run."""
import glob
import json
import os
import subprocess
import sys
V = os.path.dirname(os.path.dirname(os.path.abspath(__file__)))


def run(cmd, env=None):
    e = dict(os.environ)
    e.update(env or {})
    p = subprocess.run(cmd, cwd=V, env=e, stdout=subprocess.PIPE, stderr=subprocess.STDOUT, text=True)
    return p.returncode, p.stdout


def validate(pid):
    rc, out = run(['/opt/veriftools/pyvenv/bin/python', '-c',
                   "import json,jsonschema;jsonschema.validate(json.load(open('evidence/%s.json')),json.load(open('/root/.vp/EVIDENCE.schema.json')))" % pid])
    return rc == 0, out[-300:]


def main():
    pid = sys.argv[1].upper()
    seeds = [int(x) for x in sys.argv[2:]] or [0, 1, 2]
    ok = True
    for s in seeds:
        rc, out = run(['./check', pid], {'VERIF_SEED': str(s)})
        last = [l for l in out.strip().split('\n') if l.startswith(pid + ' tier')]
        kf = [l for l in out.split('\n') if l.startswith('KNOWN-FINDING')]
        v, verr = validate(pid)
        print('clean seed=%d rc=%d evidence_valid=%s %s %s' % (s, rc, v, last[-1] if last else out[-400:], ' | '.join(kf)))
        ok &= (rc == 0 and v)
    for d in sorted(glob.glob(os.path.join(V, 'seeded', pid + '-*'))):
        rc, out = run(['tools/seedtest.py', 'detect', d])
        try:
            r = json.loads(out)
            print('seeded %s detected=%s %s' % (os.path.basename(d), r.get('detected'), ' | '.join(r.get('lines', []))[:300]))
        except Exception:
            print('seeded %s: %s' % (os.path.basename(d), out[-500:]))
    rc, out = run(['./check', pid])
    print('final clean rc=%d' % rc)
    ok &= rc == 0
    rc, out = run(['git', '-C', '/repo', 'status', '--porcelain'])
    print('/repo clean:', out.strip() == '')
    return 0 if ok else 1


if __name__ == '__main__':
    sys.exit(main())

#!/bin/bash
# tools/land_fix.sh <Dn-cxx>   apply fixes/<Dn-cxx>.patch to /repo, run the pinned test suite, commit with fixes/<Dn-cxx>.msg
set -e
name=$1
cd /repo
test -z "$(git status --porcelain)" || { echo "/repo not clean"; exit 1; }
git apply --check /verif/fixes/$name.patch || git apply --3way --check /verif/fixes/$name.patch
git apply /verif/fixes/$name.patch || git apply --3way /verif/fixes/$name.patch
if OPENBLAS_CORETYPE=SkylakeX /venv/bin/python -m pytest -q -p no:cacheprovider --timeout=900 test 2>&1 | tail -1 | grep -q "187 passed"; then
  git add -A cflib lpslib
  git commit -q -F /verif/fixes/$name.msg
  echo "landed $name as $(git rev-parse --short HEAD): $(head -1 /verif/fixes/$name.msg)"
else
  echo "TESTS FAILED with $name; reverting"; git checkout -- . ; exit 1
fi

#!/usr/bin/env python3
"""Assemble /verif/known_findings.json (the committed file the checks read, never written at run time)
from the per-property fragments findings/Cxx.json."""
import glob
import json
import os
V = os.path.dirname(os.path.dirname(os.path.abspath(__file__)))
out = []
for f in sorted(glob.glob(os.path.join(V, 'findings', 'C*.json'))):
    data = json.load(open(f))
    out += data if isinstance(data, list) else data.get('findings', [])
for e in out:
    assert e.get('property') and e.get('status') in ('known', 'fixed') and e.get('key') and e.get('what_fails'), e
json.dump({'findings': out}, open(os.path.join(V, 'known_findings.json'), 'w'), indent=1)
print(len(out), 'findings')

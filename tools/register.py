#!/usr/bin/env python3
"""Regenerate MANIFEST.json from tools/manifest_entries.json (claimed properties with their level text/note)
and properties.jsonl (everything not claimed is listed under not_applicable with its reason)."""
import json
import os
V = os.path.dirname(os.path.dirname(os.path.abspath(__file__)))
entries = json.load(open(os.path.join(V, 'tools', 'manifest_entries.json')))
props = [json.loads(l) for l in open(os.path.join(V, 'properties.jsonl'))]
claimed = entries['claimed']
m = {"version": 1,
     "setup_cmd": "./check --setup",
     "hooks": {"guard": "CFLIB_VERIF",
               "enable": "no source hooks: checks import /repo's working tree in-process (sys.path, overridable with CFLIB_REPO) and instrument only by fakes/monkeypatching inside the harness",
               "baseline_off_cmd": "cd /repo && OPENBLAS_CORETYPE=SkylakeX /venv/bin/python -m pytest -ra -q -p no:cacheprovider --timeout=900 --continue-on-collection-errors test",
               "source_commits": [], "add_only": True},
     "engines": [{"name": "lean4-proof+correspondence", "path": "check", "serves_properties": sorted(claimed),
                  "kind_free_text": "Lean 4.33 theorems (lean/CfVerif/Props) about executable models (lean/CfVerif/Model) + AST regeneration of constants/formats/expressions from the source (harness/lib/extract.py -> lean/CfVerif/Gen) + line-protocol differential correspondence against the real code (harness/corr) + failing-input search on the real code"}],
     "checks": [],
     "notes": "See DESIGN.md (section 9 = as built). Exit 0 = held (KNOWN-FINDING lines possible); exit 1 = VIOLATION line; exit 2 = infrastructure failure/timeout, never a verdict.",
     "not_applicable": []}
for p in props:
    pid = p['id']
    if pid in claimed:
        e = claimed[pid]
        m['checks'].append({
            "property_id": pid,
            "quick_cmd": "./check %s --tier quick" % pid,
            "thorough_cmd": "./check %s --tier thorough" % pid,
            "evidence_file": "evidence/%s.json" % pid,
            "replay_cmd_template": "./check %s --replay {path}" % pid,
            "engine": "lean4-proof+correspondence",
            "level_claimed": {"category": "proof", "text": e['text'], "design_ref": "DESIGN.md section 4 (%s), section 9; docs/%s.md" % (pid, pid)},
            "level_note": e['note'],
            "technique": e.get('technique', "Lean 4 machine-checked proof about an executable model tied to the source by regeneration (Gen/) and differential correspondence"),
        })
    else:
        m['not_applicable'].append({"property_id": pid, "reason": entries.get('not_applicable', {}).get(pid, "not built yet (planned in DESIGN.md section 4; claimed only once its model, theorems and tie to the source are committed and the check is quiet on the unchanged tree)")})
json.dump(m, open(os.path.join(V, 'MANIFEST.json'), 'w'), indent=1)
print('claimed:', sorted(claimed))

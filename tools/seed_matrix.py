#!/venv/bin/python
"""tools/seed_matrix.py [PID...] - run `seedtest.py detect` for every seeded change (scratch worktree mode),
store seeded/<id>/detect.json and print one line per seed: detected?, kind of replay, witness key."""
import glob
import json
import os
import subprocess
import sys
V = os.path.dirname(os.path.dirname(os.path.abspath(__file__)))
pids = [p.upper() for p in sys.argv[1:]]
rows = []
for d in sorted(glob.glob(os.path.join(V, 'seeded', 'C*-M*'))):
    name = os.path.basename(d)
    if pids and name.split('-')[0] not in pids:
        continue
    if os.path.exists(os.path.join(d, 'RETIRED.md')):
        rows.append((name, 'retired', '', ''))
        continue
    p = subprocess.run([os.path.join(V, 'tools', 'seedtest.py'), 'detect', d], cwd=V, stdout=subprocess.PIPE, stderr=subprocess.STDOUT, text=True)
    try:
        r = json.loads(p.stdout)
    except Exception:
        r = {'detected': None, 'error': p.stdout[-500:]}
    kind = key = ''
    pid = name.split('-')[0]
    rp = os.path.join(V, 'evidence', 'replays', '%s-0-quick.json' % pid)
    if r.get('detected') and os.path.exists(rp):
        j = json.load(open(rp))
        kind = j.get('kind', '')
        key = (j.get('witness') or {}).get('key', '')
    r['replay_kind'], r['witness_key'] = kind, key
    json.dump(r, open(os.path.join(d, 'detect.json'), 'w'), indent=1)
    rows.append((name, r.get('detected'), kind, key))
    print('%-8s detected=%-5s %-24s %s' % rows[-1], flush=True)
n = [r for r in rows if r[1] is True and r[2] == 'failing-input']
print('%d seeds, %d detected with a failing input, %d other' % (len(rows), len(n), len(rows) - len(n)))

#!/venv/bin/python
"""Helpers for seeded changes (realistic property-breaking patches written by independent sub-agents).

  tools/seedtest.py import <src_dir> <PID> <name>   copy patch.diff/demo.py/meta.json into seeded/<PID>-<name>/
  tools/seedtest.py verify <seeded_dir>             scratch worktree: demo passes unpatched, patch applies, demo fails
                                                    patched, the repo's test suite still passes patched
  tools/seedtest.py detect <seeded_dir> [tier]      apply to /repo, run ./check <PID>, ALWAYS undo; report
"""
import json
import os
import shutil
import subprocess
import sys
import tempfile

VERIF = os.path.dirname(os.path.dirname(os.path.abspath(__file__)))
REPO = '/repo'
PY = '/venv/bin/python'


def sh(cmd, cwd=None, env=None, timeout=1800):
    e = dict(os.environ)
    e.update(env or {})
    p = subprocess.run(cmd, cwd=cwd, env=e, stdout=subprocess.PIPE, stderr=subprocess.STDOUT, text=True, timeout=timeout, shell=isinstance(cmd, str))
    return p.returncode, p.stdout


def verify(d):
    d = os.path.abspath(d)
    wt = tempfile.mkdtemp(prefix='seedverify-', dir='/tmp')
    os.rmdir(wt)
    res = {}
    try:
        rc, out = sh(['git', '-C', REPO, 'worktree', 'add', '-q', '--detach', wt, 'HEAD'])
        assert rc == 0, out
        env = {'PYTHONPATH': wt, 'OPENBLAS_CORETYPE': 'SkylakeX'}
        rc, out = sh([PY, os.path.join(d, 'demo.py')], cwd=wt, env=env, timeout=300)
        res['demo_unpatched_rc'] = rc
        rc, out = sh(['git', '-C', wt, 'apply', os.path.join(d, 'patch.diff')])
        res['apply_rc'] = rc
        rc, out = sh([PY, os.path.join(d, 'demo.py')], cwd=wt, env=env, timeout=300)
        res['demo_patched_rc'] = rc
        res['demo_patched_tail'] = out[-400:]
        rc, out = sh([PY, '-m', 'pytest', '-q', '-p', 'no:cacheprovider', '--timeout=900', 'test'], cwd=wt, env=env)
        res['tests_rc'] = rc
        res['tests_tail'] = out.strip().split('\n')[-1]
    finally:
        sh(['git', '-C', REPO, 'worktree', 'remove', '--force', wt])
        shutil.rmtree(wt, ignore_errors=True)
    res['ok'] = (res.get('demo_unpatched_rc') == 0 and res.get('apply_rc') == 0 and res.get('demo_patched_rc') == 1
                 and res.get('tests_rc') == 0)
    return res


def detect(d, tier='quick', inplace=False):
    """inplace=True: apply to /repo itself, run the check, always undo (the mode the brief describes).
    inplace=False (default while other agents are using /repo): same check against a scratch worktree via CFLIB_REPO."""
    d = os.path.abspath(d)
    meta = json.load(open(os.path.join(d, 'meta.json')))
    pid = meta['property']
    if inplace:
        rc, out = sh(['git', '-C', REPO, 'status', '--porcelain'])
        assert out.strip() == '', '/repo not clean: ' + out
        try:
            rc, out = sh(['git', '-C', REPO, 'apply', os.path.join(d, 'patch.diff')])
            if rc != 0:
                return {'pid': pid, 'applied': False, 'out': out}
            rc, out = sh([os.path.join(VERIF, 'check'), pid, '--tier', tier], cwd=VERIF, timeout=7200)
        finally:
            sh(['git', '-C', REPO, 'checkout', '--', '.'])
            sh([os.path.join(VERIF, 'check'), '--regen', pid], cwd=VERIF)   # restore Gen/ to the clean tree's
    else:
        wt = tempfile.mkdtemp(prefix='seeddetect-', dir='/tmp')
        os.rmdir(wt)
        try:
            rc, out = sh(['git', '-C', REPO, 'worktree', 'add', '-q', '--detach', wt, 'HEAD'])
            assert rc == 0, out
            rc, out = sh(['git', '-C', wt, 'apply', os.path.join(d, 'patch.diff')])
            if rc != 0:
                return {'pid': pid, 'applied': False, 'out': out}
            rc, out = sh([os.path.join(VERIF, 'check'), pid, '--tier', tier], cwd=VERIF, timeout=7200, env={'CFLIB_REPO': wt})
        finally:
            sh(['git', '-C', REPO, 'worktree', 'remove', '--force', wt])
            shutil.rmtree(wt, ignore_errors=True)
            sh([os.path.join(VERIF, 'check'), '--regen', pid], cwd=VERIF)
    lines = [l for l in out.split('\n') if l.startswith('VIOLATION') or l.startswith('KNOWN-FINDING') or l.startswith(pid + ' tier')]
    return {'pid': pid, 'applied': True, 'rc': rc, 'detected': rc == 1, 'lines': lines, 'tail': out[-1500:] if rc not in (0, 1) else ''}


def main():
    cmd = sys.argv[1]
    if cmd == 'import':
        src, pid, name = sys.argv[2:5]
        dst = os.path.join(VERIF, 'seeded', '%s-%s' % (pid, name))
        os.makedirs(dst, exist_ok=True)
        for f in ('patch.diff', 'demo.py', 'meta.json'):
            shutil.copy(os.path.join(src, f), os.path.join(dst, f))
        print(dst)
    elif cmd == 'verify':
        print(json.dumps(verify(sys.argv[2]), indent=1))
    elif cmd == 'detect':
        args = [a for a in sys.argv[3:] if not a.startswith('--')]
        print(json.dumps(detect(sys.argv[2], args[0] if args else 'quick', inplace='--inplace' in sys.argv), indent=1))


if __name__ == '__main__':
    main()
